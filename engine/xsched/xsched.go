//go:build verif

// Package xsched is a cooperative scheduler and a stateless, preemption-bounded
// schedule explorer (engine XS).  Tasks are goroutines of which exactly one
// runs at a time; every operation of the xsync / xatomic shims, every
// instrumented `go` statement and every explicit Point is a scheduling point
// at which the explorer decides which enabled task continues.  Blocking is
// modelled: an operation carries an enabledness condition and the task is not
// schedulable until the condition holds.
//
// When no exploration is running (Cur() == nil) the shims fall through to the
// real sync operations, so the same instrumented code also runs free.
package xsched

import (
	"fmt"
	"os"
	"runtime"
	"strings"
	"sync/atomic"
	"time"
)

// Kind of a decision point.
const (
	KindSched = 0
	KindEnv   = 1
)

// Point is one decision recorded during an execution.
type Point struct {
	// Kind is KindSched or KindEnv.
	Kind int
	// N is the number of alternatives (enabled tasks, or env answers).
	N int
	// Chosen is the index taken, in canonical order.
	Chosen int
	// RunningEnabled tells, for KindSched, that alternative 0 is the task
	// that was running (so any other choice is a preemption).
	RunningEnabled bool
	// Label describes the operation about to be executed by the chosen task
	// (sched) or the question asked (env).
	Label string
	// Task is the id of the chosen task (sched) or of the asking task (env).
	Task int
	// Key is the optional state key at this point (pruning).
	Key string
}

// Task is a schedulable goroutine.
type Task struct {
	ID    int
	Name  string
	wake  chan struct{}
	cond  func() bool
	label string
	done  bool
	// Steps counts the scheduling points this task has passed.
	Steps int
	// Atomic makes the task skip its plain scheduling points (Yield): it is
	// only descheduled where it blocks or ends.  Harnesses use it for tasks
	// whose internal interleaving is explored by other scenarios, to keep a
	// scenario with many tasks tractable; the bound is reported as such.
	Atomic bool
	// Only, if set, keeps just the plain scheduling points whose label it
	// accepts.
	Only func(label string) bool
}

type abortExec struct{}

// Sched is the scheduler of one execution.
type Sched struct {
	tasks   []*Task
	cur     *Task
	yielded chan struct{}
	prefix  []int
	pos     int
	Trace   []Point
	aborted bool

	// Deadlock is set when no task was enabled while some were unfinished.
	Deadlock bool
	// Blocked lists the labels of the blocked tasks at a deadlock.
	Blocked []string
	// Diverged is set when a replayed prefix asked for an alternative that
	// does not exist; it is a harness error.
	Diverged string
	// Panicked holds the value of a panic that escaped a task.
	Panicked string
	// StepLimit bounds the number of decisions of one execution.
	StepLimit int
	// LimitHit is set when StepLimit was reached (livelock guard).
	LimitHit bool
	// KeyFunc, when set, is called at each sched point to compute the state
	// key (shared-state digest; the scheduler appends the task step vector).
	KeyFunc func() string

	running bool
}

var current atomic.Pointer[Sched]

// Cur returns the scheduler of the running exploration, or nil when the
// calling code runs free (shims then use the real primitives).
func Cur() *Sched {
	s := current.Load()
	if s == nil || !s.running {
		return nil
	}

	return s
}

// New returns a scheduler that replays prefix and then takes alternative 0.
func New(prefix []int) *Sched {
	return &Sched{
		yielded:   make(chan struct{}),
		prefix:    prefix,
		StepLimit: 20000,
	}
}

// Go registers a new task.  It may be called before Run (initial tasks) or by
// a running task (spawn; the spawn is followed by a scheduling point so that
// the child may run first).
func (s *Sched) Go(name string, f func()) *Task {
	t := &Task{ID: len(s.tasks), Name: name, wake: make(chan struct{})}
	s.tasks = append(s.tasks, t)
	go func() {
		<-t.wake
		defer func() {
			if v := recover(); v != nil {
				if _, ok := v.(abortExec); !ok && !s.aborted {
					buf := make([]byte, 4096)
					buf = buf[:runtime.Stack(buf, false)]
					s.Panicked = fmt.Sprintf("task %s: %v\n%s", t.Name, v, buf)
				}
			}
			t.done = true
			s.yielded <- struct{}{}
		}()
		if s.aborted {
			panic(abortExec{})
		}
		f()
	}()
	if s.running && s.cur != nil {
		s.Point("spawn "+name, nil)
	}

	return t
}

// Aborted reports whether the execution is being torn down (deadlock or
// step limit); shim operations then return without touching their state.
func (s *Sched) Aborted() bool { return s.aborted }

// Self returns the running task.
func (s *Sched) Self() *Task { return s.cur }

// Point is a scheduling point of the running task: the task yields, and is
// resumed only when it is chosen and cond (if not nil) holds.
func (s *Sched) Point(label string, cond func() bool) {
	if s.aborted {
		// Deferred shim calls while a task unwinds after an abort.
		return
	}
	t := s.cur
	if t == nil {
		panic("xsched: Point outside of a task")
	}
	t.cond = cond
	t.label = label
	t.Steps++
	s.yielded <- struct{}{}
	<-t.wake
	t.cond = nil
	if s.aborted {
		panic(abortExec{})
	}
}

// Choose is an environment decision of the running task with n answers;
// answer 0 is the default.
func (s *Sched) Choose(n int, label string) (idx int) {
	if n <= 1 {
		return 0
	}
	idx = s.next(n, label)
	tid := -1
	if s.cur != nil {
		tid = s.cur.ID
	}
	s.Trace = append(s.Trace, Point{Kind: KindEnv, N: n, Chosen: idx, Label: label, Task: tid})

	return idx
}

func (s *Sched) next(n int, label string) (idx int) {
	if s.pos < len(s.prefix) {
		idx = s.prefix[s.pos]
		if idx >= n {
			s.Diverged = fmt.Sprintf("choice %d at position %d out of range %d (%s)", idx, s.pos, n, label)
			idx = 0
		}
	}
	s.pos++

	return idx
}

// Run drives the tasks until all are finished, a deadlock or the step limit.
func (s *Sched) Run() {
	if !current.CompareAndSwap(nil, s) {
		panic("xsched: nested exploration")
	}
	s.running = true
	defer func() {
		s.running = false
		current.Store(nil)
	}()
	watch := time.NewTimer(time.Hour)
	defer watch.Stop()
	var enabled []*Task
	for {
		enabled = enabled[:0]
		unfinished := 0
		runEn := false
		if s.cur != nil && !s.cur.done && (s.cur.cond == nil || s.cur.cond()) {
			enabled = append(enabled, s.cur)
			runEn = true
		}
		for _, t := range s.tasks {
			if t.done {
				continue
			}
			unfinished++
			if t == s.cur {
				continue
			}
			if t.cond == nil || t.cond() {
				enabled = append(enabled, t)
			}
		}
		if unfinished == 0 {
			return
		}
		if len(enabled) == 0 {
			s.Deadlock = true
			for _, t := range s.tasks {
				if !t.done {
					s.Blocked = append(s.Blocked, t.Name+": "+t.label)
				}
			}
			s.abort()

			return
		}
		if len(s.Trace) >= s.StepLimit {
			s.LimitHit = true
			s.abort()

			return
		}
		// A single alternative still consumes a position so that choice
		// vectors stay aligned with Trace.
		idx := s.next(len(enabled), "sched")
		t := enabled[idx]
		p := Point{Kind: KindSched, N: len(enabled), Chosen: idx, RunningEnabled: runEn, Label: t.label, Task: t.ID}
		if s.KeyFunc != nil {
			var sb strings.Builder
			sb.WriteString(s.KeyFunc())
			for _, x := range s.tasks {
				fmt.Fprintf(&sb, "|%d:%d:%v", x.ID, x.Steps, x.done)
			}
			if s.cur != nil {
				fmt.Fprintf(&sb, "|cur=%d", s.cur.ID)
			}
			p.Key = sb.String()
		}
		s.Trace = append(s.Trace, p)
		s.cur = t
		t.wake <- struct{}{}
		watch.Reset(60 * time.Second)
		select {
		case <-s.yielded:
		case <-watch.C:
			buf := make([]byte, 1<<20)
			buf = buf[:runtime.Stack(buf, true)]
			fmt.Fprintf(os.Stderr, "HARNESS-ERROR: xsched watchdog: task %s did not reach a scheduling point within 60s (blocked outside a shim?)\n%s\n", t.Name, buf)
			os.Exit(2)
		}
	}
}

// abort wakes every unfinished task with an abort panic and waits for them.
func (s *Sched) abort() {
	s.aborted = true
	for _, t := range s.tasks {
		if t.done {
			continue
		}
		s.cur = t
		t.wake <- struct{}{}
		<-s.yielded
	}
}

// Choices returns the choice vector of the execution (one entry per Trace
// point).
func (s *Sched) Choices() []int {
	out := make([]int, len(s.Trace))
	for i, p := range s.Trace {
		out[i] = p.Chosen
	}

	return out
}

// Describe renders the trace for humans: only the points where a switch or a
// non-default env answer happened.
func (s *Sched) Describe() string {
	var sb strings.Builder
	last := -1
	for i, p := range s.Trace {
		if p.Kind == KindEnv {
			fmt.Fprintf(&sb, "  #%d env %s -> %d/%d\n", i, p.Label, p.Chosen, p.N)

			continue
		}
		if p.Task != last || os.Getenv("VERIF_TRACE") != "" {
			name := "?"
			if p.Task < len(s.tasks) {
				name = s.tasks[p.Task].Name
			}
			fmt.Fprintf(&sb, "  #%d run %s at %s\n", i, name, p.Label)
			last = p.Task
		}
	}

	return sb.String()
}

// Exec is the summary of one explored execution handed to the harness.
type Exec struct {
	Sched       *Sched
	Choices     []int
	Preemptions int
	Deviations  int
}

// Config configures an exploration.
type Config struct {
	// MaxPreemptions bounds preemptive context switches (-1 = unbounded).
	MaxPreemptions int
	// MaxDeviations bounds non-default environment answers (-1 = unbounded).
	MaxDeviations int
	// Prune enables state-key pruning (requires Sched.KeyFunc set in Setup).
	Prune bool
	// Stop is polled between executions; exploration stops when it returns
	// true (deadline); the result is then not exhaustive.
	Stop func() bool
}

// Stats of an exploration.
type Stats struct {
	Executions int
	Points     int
	Pruned     int
	Stopped    bool
	MaxTrace   int
}

// Explore runs body for every schedule within the bounds.  setup must create
// fresh objects and register the tasks on s; after the run, check is called
// with the execution.  check returns false to stop the exploration (e.g.
// after the first violation).
func Explore(cfg Config, setup func(s *Sched), check func(x *Exec) bool) (st Stats) {
	visited := map[string][2]int{}
	var rec func(prefix []int) bool
	rec = func(prefix []int) bool {
		if cfg.Stop != nil && cfg.Stop() {
			st.Stopped = true

			return false
		}
		s := New(prefix)
		setup(s)
		s.Run()
		if s.Diverged != "" {
			fmt.Fprintf(os.Stderr, "HARNESS-ERROR: xsched replay diverged: %s\n", s.Diverged)
			os.Exit(2)
		}
		st.Executions++
		st.Points += len(s.Trace)
		if len(s.Trace) > st.MaxTrace {
			st.MaxTrace = len(s.Trace)
		}
		x := &Exec{Sched: s, Choices: s.Choices()}
		pre := make([]int, len(s.Trace)+1)
		dev := make([]int, len(s.Trace)+1)
		for i, p := range s.Trace {
			pre[i+1], dev[i+1] = pre[i], dev[i]
			if p.Kind == KindSched && p.RunningEnabled && p.Chosen != 0 {
				pre[i+1]++
			}
			if p.Kind == KindEnv && p.Chosen != 0 {
				dev[i+1]++
			}
		}
		x.Preemptions, x.Deviations = pre[len(s.Trace)], dev[len(s.Trace)]
		if !check(x) {
			return false
		}
		cut := len(s.Trace)
		if cfg.Prune {
			for i := len(prefix); i < len(s.Trace); i++ {
				p := s.Trace[i]
				if p.Kind != KindSched || p.Key == "" {
					continue
				}
				old, ok := visited[p.Key]
				if ok && (cfg.MaxPreemptions < 0 || old[0] <= pre[i]) && (cfg.MaxDeviations < 0 || old[1] <= dev[i]) {
					cut = i
					st.Pruned++

					break
				}
				if !ok || pre[i]+dev[i] < old[0]+old[1] {
					visited[p.Key] = [2]int{pre[i], dev[i]}
				}
			}
		}
		for i := len(prefix); i < cut; i++ {
			p := s.Trace[i]
			for alt := 1; alt < p.N; alt++ {
				if alt == p.Chosen {
					continue
				}
				pc, dc := pre[i], dev[i]
				if p.Kind == KindSched && p.RunningEnabled {
					pc++
				}
				if p.Kind == KindEnv {
					dc++
				}
				if cfg.MaxPreemptions >= 0 && pc > cfg.MaxPreemptions {
					continue
				}
				if cfg.MaxDeviations >= 0 && dc > cfg.MaxDeviations {
					continue
				}
				np := make([]int, i+1)
				copy(np, x.Choices[:i])
				np[i] = alt
				if !rec(np) {
					return false
				}
			}
		}

		return true
	}
	rec(nil)

	return st
}

// Replay runs a single execution with the given choice vector.
func Replay(choices []int, setup func(s *Sched)) *Exec {
	s := New(choices)
	setup(s)
	s.Run()
	x := &Exec{Sched: s, Choices: s.Choices()}
	for _, p := range s.Trace {
		if p.Kind == KindSched && p.RunningEnabled && p.Chosen != 0 {
			x.Preemptions++
		}
		if p.Kind == KindEnv && p.Chosen != 0 {
			x.Deviations++
		}
	}

	return x
}

// Yield is a plain scheduling point usable from harness code and from
// instrumented code (`-points`).  It is a no-op when running free.
func Yield(label string) {
	if s := Cur(); s != nil && s.cur != nil {
		if s.cur.Atomic || (s.cur.Only != nil && !s.cur.Only(label)) {
			// Plain scheduling points of an atomic task (or the ones its
			// filter rejects) are skipped: it runs from one blocking
			// operation to the next without preemption.
			return
		}
		s.Point(label, nil)
	}
}

// SpawnHook, when set, takes over instrumented `go` statements outside of a
// schedule exploration: history explorers use it to turn background
// goroutines into pending events that they run at a moment of their choice.
// It must only be set while no other goroutine runs instrumented code.
var SpawnHook func(label string, f func(), args []any)

// Spawn runs f as a new task under the explorer, or as a plain goroutine
// when running free.  Instrumented `go` statements call it; args are the
// evaluated arguments of the call, for descriptions.
func Spawn(label string, f func(), args ...any) {
	if h := SpawnHook; h != nil {
		h(label, f, args)

		return
	}
	if s := Cur(); s != nil && s.cur != nil {
		s.Go(label, f)

		return
	}
	go f()
}

// SubmitTask stands for a worker-pool submission (`pool.Submit(f)`) in
// instrumented code: under the explorer the submitted function becomes a
// task, so that the explorer decides when the worker runs relative to its
// submitter; when running free it is a plain goroutine.
func SubmitTask(label string, f func()) error {
	Spawn(label, f)

	return nil
}

// Choose asks the explorer for an environment answer, 0 when running free.
func Choose(n int, label string) int {
	if s := Cur(); s != nil {
		return s.Choose(n, label)
	}

	return 0
}
