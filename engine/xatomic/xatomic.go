//go:build verif

// Package xatomic is an API-compatible stand-in for sync/atomic whose
// operations are preceded by a scheduling point of the xsched explorer.
package xatomic

import (
	"sync/atomic"
	"unsafe"

	"github.com/AdguardTeam/AdGuardDNS/internal/dnsserver/zzverif/xsched"
)

func pt(label string) { xsched.Yield(label) }

// Bool is atomic.Bool.
type Bool struct{ v atomic.Bool }

func (x *Bool) Load() bool       { pt("atomic.Bool.Load"); return x.v.Load() }
func (x *Bool) Store(val bool)   { pt("atomic.Bool.Store"); x.v.Store(val) }
func (x *Bool) Swap(n bool) bool { pt("atomic.Bool.Swap"); return x.v.Swap(n) }
func (x *Bool) CompareAndSwap(o, n bool) bool {
	pt("atomic.Bool.CAS")

	return x.v.CompareAndSwap(o, n)
}

// Int32 is atomic.Int32.
type Int32 struct{ v atomic.Int32 }

func (x *Int32) Load() int32        { pt("atomic.Int32.Load"); return x.v.Load() }
func (x *Int32) Store(val int32)    { pt("atomic.Int32.Store"); x.v.Store(val) }
func (x *Int32) Add(d int32) int32  { pt("atomic.Int32.Add"); return x.v.Add(d) }
func (x *Int32) Swap(n int32) int32 { pt("atomic.Int32.Swap"); return x.v.Swap(n) }
func (x *Int32) CompareAndSwap(o, n int32) bool {
	pt("atomic.Int32.CAS")

	return x.v.CompareAndSwap(o, n)
}

// Int64 is atomic.Int64.
type Int64 struct{ v atomic.Int64 }

func (x *Int64) Load() int64        { pt("atomic.Int64.Load"); return x.v.Load() }
func (x *Int64) Store(val int64)    { pt("atomic.Int64.Store"); x.v.Store(val) }
func (x *Int64) Add(d int64) int64  { pt("atomic.Int64.Add"); return x.v.Add(d) }
func (x *Int64) Swap(n int64) int64 { pt("atomic.Int64.Swap"); return x.v.Swap(n) }
func (x *Int64) CompareAndSwap(o, n int64) bool {
	pt("atomic.Int64.CAS")

	return x.v.CompareAndSwap(o, n)
}

// Uint32 is atomic.Uint32.
type Uint32 struct{ v atomic.Uint32 }

func (x *Uint32) Load() uint32         { pt("atomic.Uint32.Load"); return x.v.Load() }
func (x *Uint32) Store(val uint32)     { pt("atomic.Uint32.Store"); x.v.Store(val) }
func (x *Uint32) Add(d uint32) uint32  { pt("atomic.Uint32.Add"); return x.v.Add(d) }
func (x *Uint32) Swap(n uint32) uint32 { pt("atomic.Uint32.Swap"); return x.v.Swap(n) }
func (x *Uint32) CompareAndSwap(o, n uint32) bool {
	pt("atomic.Uint32.CAS")

	return x.v.CompareAndSwap(o, n)
}

// Uint64 is atomic.Uint64.
type Uint64 struct{ v atomic.Uint64 }

func (x *Uint64) Load() uint64         { pt("atomic.Uint64.Load"); return x.v.Load() }
func (x *Uint64) Store(val uint64)     { pt("atomic.Uint64.Store"); x.v.Store(val) }
func (x *Uint64) Add(d uint64) uint64  { pt("atomic.Uint64.Add"); return x.v.Add(d) }
func (x *Uint64) Swap(n uint64) uint64 { pt("atomic.Uint64.Swap"); return x.v.Swap(n) }
func (x *Uint64) CompareAndSwap(o, n uint64) bool {
	pt("atomic.Uint64.CAS")

	return x.v.CompareAndSwap(o, n)
}

// Pointer is atomic.Pointer.
type Pointer[T any] struct{ v atomic.Pointer[T] }

func (x *Pointer[T]) Load() *T     { pt("atomic.Pointer.Load"); return x.v.Load() }
func (x *Pointer[T]) Store(val *T) { pt("atomic.Pointer.Store"); x.v.Store(val) }
func (x *Pointer[T]) Swap(n *T) *T { pt("atomic.Pointer.Swap"); return x.v.Swap(n) }
func (x *Pointer[T]) CompareAndSwap(o, n *T) bool {
	pt("atomic.Pointer.CAS")

	return x.v.CompareAndSwap(o, n)
}

// Value is atomic.Value.
type Value struct{ v atomic.Value }

func (x *Value) Load() any      { pt("atomic.Value.Load"); return x.v.Load() }
func (x *Value) Store(val any)  { pt("atomic.Value.Store"); x.v.Store(val) }
func (x *Value) Swap(n any) any { pt("atomic.Value.Swap"); return x.v.Swap(n) }
func (x *Value) CompareAndSwap(o, n any) bool {
	pt("atomic.Value.CAS")

	return x.v.CompareAndSwap(o, n)
}

// Function forms.
func AddInt32(a *int32, d int32) int32     { pt("atomic.AddInt32"); return atomic.AddInt32(a, d) }
func AddInt64(a *int64, d int64) int64     { pt("atomic.AddInt64"); return atomic.AddInt64(a, d) }
func AddUint32(a *uint32, d uint32) uint32 { pt("atomic.AddUint32"); return atomic.AddUint32(a, d) }
func AddUint64(a *uint64, d uint64) uint64 { pt("atomic.AddUint64"); return atomic.AddUint64(a, d) }
func LoadInt32(a *int32) int32             { pt("atomic.LoadInt32"); return atomic.LoadInt32(a) }
func LoadInt64(a *int64) int64             { pt("atomic.LoadInt64"); return atomic.LoadInt64(a) }
func LoadUint32(a *uint32) uint32          { pt("atomic.LoadUint32"); return atomic.LoadUint32(a) }
func LoadUint64(a *uint64) uint64          { pt("atomic.LoadUint64"); return atomic.LoadUint64(a) }
func StoreInt32(a *int32, v int32)         { pt("atomic.StoreInt32"); atomic.StoreInt32(a, v) }
func StoreInt64(a *int64, v int64)         { pt("atomic.StoreInt64"); atomic.StoreInt64(a, v) }
func StoreUint32(a *uint32, v uint32)      { pt("atomic.StoreUint32"); atomic.StoreUint32(a, v) }
func StoreUint64(a *uint64, v uint64)      { pt("atomic.StoreUint64"); atomic.StoreUint64(a, v) }
func CompareAndSwapInt32(a *int32, o, n int32) bool {
	pt("atomic.CASInt32")

	return atomic.CompareAndSwapInt32(a, o, n)
}
func CompareAndSwapInt64(a *int64, o, n int64) bool {
	pt("atomic.CASInt64")

	return atomic.CompareAndSwapInt64(a, o, n)
}
func CompareAndSwapUint32(a *uint32, o, n uint32) bool {
	pt("atomic.CASUint32")

	return atomic.CompareAndSwapUint32(a, o, n)
}
func CompareAndSwapUint64(a *uint64, o, n uint64) bool {
	pt("atomic.CASUint64")

	return atomic.CompareAndSwapUint64(a, o, n)
}
func LoadPointer(a *unsafe.Pointer) unsafe.Pointer {
	pt("atomic.LoadPointer")
	return atomic.LoadPointer(a)
}
