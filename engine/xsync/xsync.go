//go:build verif

// Package xsync is an API-compatible stand-in for package sync whose
// operations are scheduling points of the xsched explorer.  When no
// exploration is running every operation falls through to the real one.
package xsync

import (
	"context"
	"sync"

	"github.com/AdguardTeam/AdGuardDNS/internal/dnsserver/zzverif/xsched"
)

// Passthrough types and functions.
type (
	Locker = sync.Locker
	Pool   = sync.Pool
	Map    = sync.Map
)

// OnceFunc is sync.OnceFunc.
func OnceFunc(f func()) func() { return sync.OnceFunc(f) }

// OnceValue is sync.OnceValue.
func OnceValue[T any](f func() T) func() T { return sync.OnceValue(f) }

// OnceValues is sync.OnceValues.
func OnceValues[T1, T2 any](f func() (T1, T2)) func() (T1, T2) { return sync.OnceValues(f) }

// Mutex is a modelled sync.Mutex.
type Mutex struct {
	real sync.Mutex
	held bool
}

// Lock implements sync.Locker.
func (m *Mutex) Lock() {
	s := xsched.Cur()
	if s == nil {
		m.real.Lock()

		return
	}
	s.Point("Mutex.Lock", func() bool { return !m.held })
	if s.Aborted() {
		return
	}
	m.held = true
}

// TryLock is sync.Mutex.TryLock.
func (m *Mutex) TryLock() bool {
	s := xsched.Cur()
	if s == nil {
		return m.real.TryLock()
	}
	s.Point("Mutex.TryLock", nil)
	if s.Aborted() {
		return false
	}
	if m.held {
		return false
	}
	m.held = true

	return true
}

// Unlock implements sync.Locker.
func (m *Mutex) Unlock() {
	s := xsched.Cur()
	if s == nil {
		m.real.Unlock()

		return
	}
	s.Point("Mutex.Unlock", nil)
	if s.Aborted() {
		return
	}
	if !m.held {
		panic("xsync: unlock of unlocked mutex")
	}
	m.held = false
}

// RWMutex is a modelled sync.RWMutex (no writer preference).
type RWMutex struct {
	real    sync.RWMutex
	writer  bool
	readers int
}

// Lock locks for writing.
func (m *RWMutex) Lock() {
	s := xsched.Cur()
	if s == nil {
		m.real.Lock()

		return
	}
	s.Point("RWMutex.Lock", func() bool { return !m.writer && m.readers == 0 })
	if s.Aborted() {
		return
	}
	m.writer = true
}

// Unlock unlocks writing.
func (m *RWMutex) Unlock() {
	s := xsched.Cur()
	if s == nil {
		m.real.Unlock()

		return
	}
	s.Point("RWMutex.Unlock", nil)
	if s.Aborted() {
		return
	}
	if !m.writer {
		panic("xsync: unlock of unlocked rwmutex")
	}
	m.writer = false
}

// RLock locks for reading.
func (m *RWMutex) RLock() {
	s := xsched.Cur()
	if s == nil {
		m.real.RLock()

		return
	}
	s.Point("RWMutex.RLock", func() bool { return !m.writer })
	if s.Aborted() {
		return
	}
	m.readers++
}

// RUnlock unlocks reading.
func (m *RWMutex) RUnlock() {
	s := xsched.Cur()
	if s == nil {
		m.real.RUnlock()

		return
	}
	s.Point("RWMutex.RUnlock", nil)
	if s.Aborted() {
		return
	}
	if m.readers <= 0 {
		panic("xsync: runlock of unlocked rwmutex")
	}
	m.readers--
}

// TryLock is sync.RWMutex.TryLock.
func (m *RWMutex) TryLock() bool {
	s := xsched.Cur()
	if s == nil {
		return m.real.TryLock()
	}
	s.Point("RWMutex.TryLock", nil)
	if s.Aborted() {
		return false
	}
	if m.writer || m.readers > 0 {
		return false
	}
	m.writer = true

	return true
}

// TryRLock is sync.RWMutex.TryRLock.
func (m *RWMutex) TryRLock() bool {
	s := xsched.Cur()
	if s == nil {
		return m.real.TryRLock()
	}
	s.Point("RWMutex.TryRLock", nil)
	if s.Aborted() {
		return false
	}
	if m.writer {
		return false
	}
	m.readers++

	return true
}

// RLocker is sync.RWMutex.RLocker.
func (m *RWMutex) RLocker() Locker { return (*rlocker)(m) }

type rlocker RWMutex

func (r *rlocker) Lock()   { (*RWMutex)(r).RLock() }
func (r *rlocker) Unlock() { (*RWMutex)(r).RUnlock() }

// Cond is a modelled sync.Cond.  Signal wakes the longest waiter, as Go's
// implementation does.
type Cond struct {
	L Locker

	real    *sync.Cond
	waiters []*condWaiter
}

type condWaiter struct{ signalled bool }

// NewCond is sync.NewCond.
func NewCond(l Locker) *Cond {
	return &Cond{L: l, real: sync.NewCond(l)}
}

// free returns the real condition variable used when running free.
func (c *Cond) free() *sync.Cond {
	if c.real == nil {
		c.real = sync.NewCond(c.L)
	}

	return c.real
}

// Wait is sync.Cond.Wait.
func (c *Cond) Wait() {
	s := xsched.Cur()
	if s == nil {
		c.free().Wait()

		return
	}
	w := &condWaiter{}
	c.waiters = append(c.waiters, w)
	c.L.Unlock()
	s.Point("Cond.Wait", func() bool { return w.signalled })
	if s.Aborted() {
		return
	}
	c.L.Lock()
}

// Signal is sync.Cond.Signal.
func (c *Cond) Signal() {
	s := xsched.Cur()
	if s == nil {
		c.free().Signal()

		return
	}
	s.Point("Cond.Signal", nil)
	if s.Aborted() {
		return
	}
	if len(c.waiters) > 0 {
		c.waiters[0].signalled = true
		c.waiters = c.waiters[1:]
	}
}

// Broadcast is sync.Cond.Broadcast.
func (c *Cond) Broadcast() {
	s := xsched.Cur()
	if s == nil {
		c.free().Broadcast()

		return
	}
	s.Point("Cond.Broadcast", nil)
	if s.Aborted() {
		return
	}
	for _, w := range c.waiters {
		w.signalled = true
	}
	c.waiters = nil
}

// Waiters returns the number of tasks parked in Wait (for monitors).
func (c *Cond) Waiters() int { return len(c.waiters) }

// WaitGroup is a modelled sync.WaitGroup.
type WaitGroup struct {
	real sync.WaitGroup
	n    int
}

// Add is sync.WaitGroup.Add.
func (wg *WaitGroup) Add(delta int) {
	s := xsched.Cur()
	if s == nil {
		wg.real.Add(delta)

		return
	}
	s.Point("WaitGroup.Add", nil)
	if s.Aborted() {
		return
	}
	wg.n += delta
	if wg.n < 0 {
		panic("xsync: negative WaitGroup counter")
	}
}

// Done is sync.WaitGroup.Done.
func (wg *WaitGroup) Done() { wg.Add(-1) }

// Wait is sync.WaitGroup.Wait.
func (wg *WaitGroup) Wait() {
	s := xsched.Cur()
	if s == nil {
		wg.real.Wait()

		return
	}
	s.Point("WaitGroup.Wait", func() bool { return wg.n == 0 })
	if s.Aborted() {
		return
	}
}

// Once is a modelled sync.Once.
type Once struct {
	real    sync.Once
	done    bool
	running bool
}

// Do is sync.Once.Do.
func (o *Once) Do(f func()) {
	s := xsched.Cur()
	if s == nil {
		o.real.Do(f)

		return
	}
	s.Point("Once.Do", func() bool { return !o.running })
	if s.Aborted() {
		return
	}
	if o.done {
		return
	}
	o.running = true
	defer func() {
		o.done = true
		o.running = false
	}()
	f()
}

// Semaphore is a modelled counting semaphore with the method set of golibs'
// syncutil.Semaphore; the instrumenter substitutes it for
// syncutil.NewChanSemaphore, whose blocking channel send the scheduler cannot
// see.
type Semaphore struct {
	real chan struct{}
	n    int
	cur  int
}

// NewSemaphore returns a semaphore with n slots.
func NewSemaphore(n uint) *Semaphore {
	return &Semaphore{real: make(chan struct{}, n), n: int(n)}
}

// Acquire takes a slot, waiting for one if necessary.
func (m *Semaphore) Acquire(ctx context.Context) (err error) {
	s := xsched.Cur()
	if s == nil {
		select {
		case m.real <- struct{}{}:
			return nil
		case <-ctx.Done():
			return ctx.Err()
		}
	}
	s.Point("Semaphore.Acquire", func() bool { return m.cur < m.n })
	if s.Aborted() {
		return nil
	}
	m.cur++

	return nil
}

// Release frees a slot.
func (m *Semaphore) Release() {
	s := xsched.Cur()
	if s == nil {
		<-m.real

		return
	}
	s.Point("Semaphore.Release", nil)
	if s.Aborted() {
		return
	}
	m.cur--
}
