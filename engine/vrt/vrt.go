//go:build verif

// Package vrt is the small runtime shared by every check: it reads the tier /
// seed / shard / replay settings from the environment, counts what the check
// explored (executions, states, transitions, outcome classes), keeps samples
// and records violations together with the replayable case that produced
// them.  A check process writes one JSON shard file; bin/vcheck merges the
// shards into /verif/evidence/<id>.json, replays every violation and decides
// the exit status.
package vrt

import (
	"crypto/sha256"
	"encoding/hex"
	"encoding/json"
	"fmt"
	"os"
	"runtime"
	"runtime/debug"
	"sort"
	"strconv"
	"strings"
	"sync"
	"sync/atomic"
	"syscall"
	"time"
)

// Finding is one property violation found on one explored case.
type Finding struct {
	// Key is the structural signature of the violation (component +
	// differing observable).  known_findings.json is matched on it.
	Key string `json:"key"`

	// Detail is a human readable explanation.
	Detail string `json:"detail"`
}

// violation is a Finding together with the case that produced it.
type violation struct {
	Key    string          `json:"key"`
	Detail string          `json:"detail"`
	Part   string          `json:"part"`
	Case   json.RawMessage `json:"case"`

	// Context holds the cases that the same process executed immediately
	// before Case.  Checks that share one rig between cases replay them first,
	// so that state carried over between cases (object pools, caches) is the
	// same as when the violation was found.
	Context []json.RawMessage `json:"context,omitempty"`

	// Index is the enumeration index of Case within its process (all parts),
	// used by the prefix replay: re-running the same shard up to and including
	// that case reproduces every piece of state carried between cases.
	Index int64 `json:"index"`
}

// Shard is the JSON document written by one check process.
type Shard struct {
	Property    string           `json:"property"`
	Tier        string           `json:"tier"`
	Seed        int64            `json:"seed"`
	Shard       int              `json:"shard"`
	NShards     int              `json:"nshards"`
	Replay      bool             `json:"replay"`
	Evaluations int64            `json:"evaluations"`
	Transitions int64            `json:"transitions"`
	States      int64            `json:"states"`
	Classes     map[string]int64 `json:"classes"`
	Counters    map[string]int64 `json:"counters"`
	Samples     []any            `json:"samples"`
	Violations  []violation      `json:"violations"`
	Exhaustive  bool             `json:"exhaustive"`
	Bounds      map[string]any   `json:"bounds"`
	Notes       []string         `json:"notes"`
	WallS       float64          `json:"wall_s"`
	Done        bool             `json:"done"`
}

// Run is the state of one check process.
type Run struct {
	mu sync.Mutex

	sh       Shard
	start    time.Time
	deadline time.Time
	out      string
	replay   json.RawMessage
	replayCx []json.RawMessage
	recent   []json.RawMessage

	// prefixIdx >= 0 selects the prefix replay mode; prefixDone is set once
	// the target case has been run.
	prefixIdx  int64
	prefixDone bool

	// detGC > 0 makes garbage collection deterministic: the collector is off
	// and runs after every detGC-th case of a Part, so that sync.Pool contents
	// evolve identically in the original run and in a prefix replay.
	detGC    int
	ranCase  int
	part     string
	states   map[[16]byte]struct{}
	perKey   map[string]int
	idx      int64
	nsamples int

	// expired is set by a timer goroutine started in Start, i.e. normally
	// outside of any synctest bubble, so that the internal deadline follows
	// the wall clock even when the exploration runs under a virtual clock.
	expired atomic.Bool
}

// replayContext is the number of preceding cases kept with a violation.
const replayContext = 4

// maxPerKey is the maximum number of violations with the same key that are
// kept with their case; the rest are only counted.
const maxPerKey = 3

// Start creates the Run for property id from the environment:
// VERIF_TIER (quick|thorough), VERIF_SEED, VERIF_SHARD ("i/n"), VERIF_OUT (shard
// file), VERIF_REPLAY (replay file), VERIF_BUDGET_S (internal deadline).
func Start(id string) (r *Run) {
	r = &Run{
		prefixIdx: -1,
		start:     time.Now(),
		states:    map[[16]byte]struct{}{},
		perKey:    map[string]int{},
	}
	r.sh.Property = id
	r.sh.Tier = os.Getenv("VERIF_TIER")
	if r.sh.Tier == "" {
		r.sh.Tier = "quick"
	}
	r.sh.Seed, _ = strconv.ParseInt(os.Getenv("VERIF_SEED"), 10, 64)
	r.sh.NShards = 1
	if s := os.Getenv("VERIF_SHARD"); s != "" {
		a, b, ok := strings.Cut(s, "/")
		if ok {
			r.sh.Shard, _ = strconv.Atoi(a)
			r.sh.NShards, _ = strconv.Atoi(b)
		}
	}
	if r.sh.NShards < 1 {
		r.sh.NShards = 1
	}
	r.sh.Classes = map[string]int64{}
	r.sh.Counters = map[string]int64{}
	r.sh.Bounds = map[string]any{}
	r.sh.Exhaustive = true
	r.out = os.Getenv("VERIF_OUT")
	budget := 0
	if b := os.Getenv("VERIF_BUDGET_S"); b != "" {
		budget, _ = strconv.Atoi(b)
	}
	if budget <= 0 {
		budget = 3600
	}
	r.deadline = r.start.Add(time.Duration(budget) * time.Second)
	go func() {
		time.Sleep(time.Duration(budget) * time.Second)
		r.expired.Store(true)
	}()
	if n, _ := strconv.Atoi(os.Getenv("VERIF_DETGC")); n > 0 {
		r.detGC = n
		debug.SetGCPercent(-1)
	}
	if p := os.Getenv("VERIF_REPLAY"); p != "" {
		data, err := os.ReadFile(p)
		if err != nil {
			Fatalf("reading replay file: %v", err)
		}
		var rf struct {
			Part    string            `json:"part"`
			Case    json.RawMessage   `json:"case"`
			Context []json.RawMessage `json:"context"`
			Index   int64             `json:"index"`
		}
		if err = json.Unmarshal(data, &rf); err != nil {
			Fatalf("decoding replay file: %v", err)
		}
		r.replay = rf.Case
		r.replayCx = rf.Context
		r.part = rf.Part
		if os.Getenv("VERIF_REPLAY_MODE") == "prefix" {
			r.prefixIdx = rf.Index
		}
		r.sh.Replay = true
	}

	return r
}

// Fatalf reports a harness error (never a verdict) and exits with status 2.
func Fatalf(format string, args ...any) {
	fmt.Fprintf(os.Stderr, "HARNESS-ERROR: "+format+"\n", args...)
	os.Exit(2)
}

// Thorough reports whether the thorough tier is requested.
func (r *Run) Thorough() bool { return r.sh.Tier == "thorough" }

// Pick returns q for the quick tier and t for the thorough tier.
func Pick[T any](r *Run, q, t T) T {
	if r.Thorough() {
		return t
	}

	return q
}

// Seed returns the seed; it may only permute the order of exploration.
func (r *Run) Seed() int64 { return r.sh.Seed }

// Replaying reports whether the process replays a single recorded case.
func (r *Run) Replaying() bool { return r.sh.Replay }

// Mine reports whether the next case index belongs to this shard.  It must
// be called exactly once per enumerated case, in enumeration order.
func (r *Run) Mine() bool {
	r.mu.Lock()
	defer r.mu.Unlock()
	i := r.idx
	r.idx++

	return int(i%int64(r.sh.NShards)) == r.sh.Shard
}

// NShards returns the number of shards and this process's index.
func (r *Run) NShards() (i, n int) { return r.sh.Shard, r.sh.NShards }

// Expired reports whether the internal deadline has passed.  When it has the
// check must stop exploring; the run is then marked as not exhaustive.
func (r *Run) Expired() bool {
	if r.expired.Load() {
		r.mu.Lock()
		r.sh.Exhaustive = false
		r.mu.Unlock()

		return true
	}

	return false
}

// NotExhaustive marks the run as capped, with the reason.
func (r *Run) NotExhaustive(why string) {
	r.mu.Lock()
	defer r.mu.Unlock()
	r.sh.Exhaustive = false
	r.sh.Notes = append(r.sh.Notes, "capped: "+why)
}

// Eval counts one explored execution (case, history, schedule).
func (r *Run) Eval() {
	r.mu.Lock()
	r.sh.Evaluations++
	r.mu.Unlock()
}

// Trans counts n steps of real code executed.
func (r *Run) Trans(n int) {
	r.mu.Lock()
	r.sh.Transitions += int64(n)
	r.mu.Unlock()
}

// Count adds n to a named counter reported in the evidence.
func (r *Run) Count(name string, n int) {
	r.mu.Lock()
	r.sh.Counters[name] += int64(n)
	r.mu.Unlock()
}

// Class counts one observed outcome class.
func (r *Run) Class(c string) {
	r.mu.Lock()
	r.sh.Classes[c]++
	r.mu.Unlock()
}

// State records a canonical state (or observation) key and reports whether
// it is new in this process.
func (r *Run) State(key string) (isNew bool) {
	h := sha256.Sum256([]byte(key))
	var k [16]byte
	copy(k[:], h[:16])
	r.mu.Lock()
	defer r.mu.Unlock()
	if _, ok := r.states[k]; ok {
		return false
	}
	r.states[k] = struct{}{}

	return true
}

// Bound records a bound that was completed, e.g. Bound("depth", 4).
func (r *Run) Bound(name string, v any) {
	r.mu.Lock()
	r.sh.Bounds[name] = v
	r.mu.Unlock()
}

// Note adds a free-text note to the evidence.
func (r *Run) Note(format string, args ...any) {
	r.mu.Lock()
	r.sh.Notes = append(r.sh.Notes, fmt.Sprintf(format, args...))
	r.mu.Unlock()
}

// Sample keeps v as a sample of what was explored: the first three, then
// every case whose ordinal is a power of two (deterministic, bounded).
func (r *Run) Sample(v any) {
	r.mu.Lock()
	defer r.mu.Unlock()
	r.nsamples++
	n := r.nsamples
	if n <= 3 || (n&(n-1)) == 0 {
		if len(r.sh.Samples) < 24 {
			r.sh.Samples = append(r.sh.Samples, v)
		}
	}
}

// Report records the findings produced by one case.
func (r *Run) Report(part string, c any, fs []Finding) {
	if len(fs) == 0 {
		return
	}
	data, err := json.Marshal(c)
	if err != nil {
		Fatalf("encoding case: %v", err)
	}
	r.mu.Lock()
	defer r.mu.Unlock()
	for _, f := range fs {
		r.perKey[f.Key]++
		r.sh.Counters["violations:"+f.Key]++
		if r.perKey[f.Key] > maxPerKey {
			continue
		}
		r.sh.Violations = append(r.sh.Violations, violation{
			Key:     f.Key,
			Detail:  f.Detail,
			Part:    part,
			Case:    data,
			Context: append([]json.RawMessage{}, r.recent...),
			Index:   r.idx - 1,
		})
	}
}

// Part runs one named part of a check.  gen enumerates cases by calling emit;
// runCase executes one case against the real code and returns the findings.
// In replay mode only the recorded case of the recorded part is run.
func Part[C any](r *Run, name string, gen func(emit func(c C)), runCase func(c C) []Finding) {
	if r.Replaying() && r.prefixIdx >= 0 {
		// Prefix replay: run this process's share of the enumeration exactly
		// as in the original run, up to and including the recorded case.
		if r.prefixDone {
			return
		}
		gen(func(c C) {
			if r.prefixDone || !r.Mine() {
				return
			}
			fs := runCase(c)
			r.gcTick()
			r.mu.Lock()
			at := r.idx - 1
			r.mu.Unlock()
			if at >= r.prefixIdx {
				r.prefixDone = true
				r.Eval()
				r.Report(name, c, fs)
			}
		})

		return
	}
	if r.Replaying() {
		if r.part != name {
			return
		}
		for _, raw := range r.replayCx {
			var cx C
			if err := json.Unmarshal(raw, &cx); err != nil {
				Fatalf("decoding replay context for part %s: %v", name, err)
			}
			_ = runCase(cx)
		}
		var c C
		if err := json.Unmarshal(r.replay, &c); err != nil {
			Fatalf("decoding replay case for part %s: %v", name, err)
		}
		r.Eval()
		r.Report(name, c, runCase(c))

		return
	}
	stop := false
	n := 0
	gen(func(c C) {
		if stop {
			return
		}
		if !r.Mine() {
			return
		}
		n++
		if n%64 == 0 && r.Expired() {
			stop = true
			r.Note("part %s stopped by internal deadline", name)

			return
		}
		r.Eval()
		fs := runCase(c)
		r.gcTick()
		r.Sample(c)
		r.Report(name, c, fs)
		if raw, err := json.Marshal(c); err == nil {
			r.mu.Lock()
			r.recent = append(r.recent, raw)
			if len(r.recent) > replayContext {
				r.recent = r.recent[len(r.recent)-replayContext:]
			}
			r.mu.Unlock()
		}
	})
	r.mu.Lock()
	r.recent = nil
	r.mu.Unlock()
}

// gcTick runs the collector at deterministic points when VERIF_DETGC is set.
func (r *Run) gcTick() {
	if r.detGC <= 0 {
		return
	}
	r.ranCase++
	if r.ranCase%r.detGC == 0 {
		runtime.GC()
	}
}

// ReplayPart reports whether part name should run: always in normal mode, and
// only for the recorded part in replay mode.  For checks that do not use
// [Part].
func (r *Run) ReplayCase(name string, c any) (ok bool) {
	if !r.Replaying() || r.part != name {
		return false
	}
	if err := json.Unmarshal(r.replay, c); err != nil {
		Fatalf("decoding replay case for part %s: %v", name, err)
	}

	return true
}

// ShouldRun reports whether a part that is not driven by [Part] should run
// its exploration (false in replay mode).
func (r *Run) ShouldRun() bool { return !r.Replaying() }

// Finish writes the shard file.  It must be the last call.
func (r *Run) Finish() {
	r.mu.Lock()
	defer r.mu.Unlock()
	r.sh.States = int64(len(r.states))
	r.sh.WallS = realNow().Sub(r.start).Seconds()
	r.sh.Done = true
	sort.SliceStable(r.sh.Violations, func(i, j int) bool {
		return len(r.sh.Violations[i].Case) < len(r.sh.Violations[j].Case)
	})
	data, err := json.Marshal(&r.sh)
	if err != nil {
		Fatalf("encoding shard: %v", err)
	}
	if r.out == "" {
		os.Stdout.Write(data)
		os.Stdout.WriteString("\n")

		return
	}
	if err = os.WriteFile(r.out, data, 0o644); err != nil {
		Fatalf("writing shard: %v", err)
	}
}

// Hash returns a short hex digest of s, for keys.
func Hash(s string) string {
	h := sha256.Sum256([]byte(s))

	return hex.EncodeToString(h[:6])
}

// F is a shorthand for building a single finding.
func F(key, format string, args ...any) []Finding {
	return []Finding{{Key: key, Detail: fmt.Sprintf(format, args...)}}
}

// Odometer enumerates all index tuples of the given radices, least
// significant digit last, calling f with a reused slice.
func Odometer(radices []int, f func(idx []int)) {
	n := len(radices)
	for _, r := range radices {
		if r <= 0 {
			return
		}
	}
	idx := make([]int, n)
	for {
		f(idx)
		i := n - 1
		for ; i >= 0; i-- {
			idx[i]++
			if idx[i] < radices[i] {
				break
			}
			idx[i] = 0
		}
		if i < 0 {
			return
		}
	}
}

// Sequences enumerates all sequences over an alphabet of size k with length
// from minLen to maxLen, shortest first.
func Sequences(k, minLen, maxLen int, f func(seq []int)) {
	for l := minLen; l <= maxLen; l++ {
		if l == 0 {
			f(nil)

			continue
		}
		rad := make([]int, l)
		for i := range rad {
			rad[i] = k
		}
		Odometer(rad, f)
	}
}

// Catch runs f and converts a panic into an error string.
func Catch(f func()) (panicked string) {
	defer func() {
		if v := recover(); v != nil {
			panicked = fmt.Sprint(v)
			if panicked == "" {
				panicked = "panic"
			}
		}
	}()
	f()

	return ""
}

// realNow is the real wall clock, also inside a testing/synctest bubble (where
// time.Now is virtual).
func realNow() time.Time {
	var tv syscall.Timeval
	if err := syscall.Gettimeofday(&tv); err != nil {
		return time.Now()
	}

	return time.Unix(tv.Sec, tv.Usec*1000)
}
