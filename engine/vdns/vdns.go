//go:build verif

// Package vdns contains helpers for building and canonicalising DNS messages
// in checks.
package vdns

import (
	"fmt"
	"sort"
	"strings"

	"github.com/miekg/dns"
)

// RRString returns a canonical string of rr.  With ttl == false the TTL is
// replaced by a placeholder.  Owner names are lower-cased.
func RRString(rr dns.RR, ttl bool) (s string) {
	if rr == nil {
		return "<nil>"
	}
	c := dns.Copy(rr)
	h := c.Header()
	h.Name = strings.ToLower(h.Name)
	h.Rdlength = 0
	if !ttl {
		h.Ttl = 0
	}

	return strings.Join(strings.Fields(c.String()), " ")
}

// Section returns the canonical strings of a section.  OPT records are
// skipped.  With sorted == true the order is canonical.
func Section(rrs []dns.RR, ttl, sorted bool) (out []string) {
	for _, rr := range rrs {
		if rr != nil && rr.Header().Rrtype == dns.TypeOPT {
			continue
		}
		out = append(out, RRString(rr, ttl))
	}
	if sorted {
		sort.Strings(out)
	}

	return out
}

// Flags returns a canonical string of the header flags and rcode.
func Flags(m *dns.Msg) (s string) {
	b := func(v bool, n string) string {
		if v {
			return n
		}

		return ""
	}

	return fmt.Sprintf("op=%d rc=%s %s", m.Opcode, dns.RcodeToString[m.Rcode], strings.Join(strings.Fields(strings.Join([]string{
		b(m.Response, "qr"), b(m.Authoritative, "aa"), b(m.Truncated, "tc"), b(m.RecursionDesired, "rd"),
		b(m.RecursionAvailable, "ra"), b(m.Zero, "z"), b(m.AuthenticatedData, "ad"), b(m.CheckingDisabled, "cd"),
	}, " ")), " "))
}

// Question returns a canonical string of the question section, case preserved.
func Question(m *dns.Msg) (s string) {
	var parts []string
	for _, q := range m.Question {
		parts = append(parts, fmt.Sprintf("%s %s %s", q.Name, dns.Class(q.Qclass), dns.Type(q.Qtype)))
	}

	return strings.Join(parts, ";")
}

// Canon returns a canonical string of m: id, flags, question and the three
// sections (OPT excluded).  With ttl == false TTLs are ignored.
func Canon(m *dns.Msg, ttl bool) (s string) {
	if m == nil {
		return "<no response>"
	}

	return fmt.Sprintf("id=%d %s q=[%s] an=%q ns=%q ex=%q", m.Id, Flags(m), Question(m),
		Section(m.Answer, ttl, false), Section(m.Ns, ttl, false), Section(m.Extra, ttl, false))
}

// OPTString returns a canonical string of the OPT record of m, or "" if none.
func OPTString(m *dns.Msg) (s string) {
	opt := m.IsEdns0()
	if opt == nil {
		return ""
	}
	var os []string
	for _, o := range opt.Option {
		os = append(os, fmt.Sprintf("%d:%s", o.Option(), o.String()))
	}

	return fmt.Sprintf("udp=%d do=%v ver=%d opts=%q", opt.UDPSize(), opt.Do(), opt.Version(), os)
}

// NewReq returns a query.
func NewReq(id uint16, name string, qt, qc uint16) (m *dns.Msg) {
	return &dns.Msg{
		MsgHdr:   dns.MsgHdr{Id: id, RecursionDesired: true},
		Question: []dns.Question{{Name: name, Qtype: qt, Qclass: qc}},
	}
}

// MustRR parses an RR or panics.
func MustRR(s string) (rr dns.RR) {
	rr, err := dns.NewRR(s)
	if err != nil {
		panic(fmt.Errorf("vdns: bad rr %q: %w", s, err))
	}

	return rr
}
