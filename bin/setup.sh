#!/bin/sh
# MANIFEST.setup_cmd: builds the framework from files on disk only (offline).
set -e
cd "$(dirname "$0")/.."
export GOPROXY=off GOSUMDB=off GOTOOLCHAIN=local
unset GOFLAGS
mkdir -p .build/tools evidence replays
if [ -d tools/instr ] && ls tools/instr/*.go >/dev/null 2>&1; then
	(cd tools/instr && go1.26.8 build -o ../../.build/tools/instr .)
fi
if [ -x bin/setup-gowork.sh ]; then
	bin/setup-gowork.sh
fi
# Warm the build cache: build every registered check once.
for d in checks/c[0-9]*; do
	id=$(basename "$d" | tr a-z A-Z)
	if [ -f "$d/check.json" ]; then
		bin/vcheck "$id" build || echo "setup: building $id failed"
	fi
done
echo "setup done"
