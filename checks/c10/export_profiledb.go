//go:build verif

package profiledb

import (
	"context"
	"fmt"
	"time"

	"github.com/AdguardTeam/AdGuardDNS/internal/agd"
	"github.com/AdguardTeam/AdGuardDNS/internal/profiledb/internal"
	"github.com/AdguardTeam/AdGuardDNS/internal/profiledb/internal/filecachepb"
	"github.com/AdguardTeam/golibs/logutil/slogutil"
	"github.com/c2h5oh/datasize"
)

// VerifC10CacheRoundTrip writes the profiles and devices to the profile
// database's real file cache at path, the way [Default] does after a full
// synchronisation ([filecachepb.Storage.Store] of an [internal.FileCache] with
// the current version), and loads them back the way [Default] does at start
// ([filecachepb.Storage.Load]).  Used by check C10 of /verif only.
func VerifC10CacheRoundTrip(
	path string,
	profs []*agd.Profile,
	devs []*agd.Device,
) (loadedProfs []*agd.Profile, loadedDevs []*agd.Device, err error) {
	ctx := context.Background()
	strg := filecachepb.New(slogutil.NewDiscardLogger(), path, 1*datasize.KB)
	err = strg.Store(ctx, &internal.FileCache{
		SyncTime: time.Unix(1700000000, 0),
		Profiles: profs,
		Devices:  devs,
		Version:  internal.FileCacheVersion,
	})
	if err != nil {
		return nil, nil, fmt.Errorf("storing: %w", err)
	}

	c, err := strg.Load(ctx)
	if err != nil {
		return nil, nil, fmt.Errorf("loading: %w", err)
	} else if c == nil {
		return nil, nil, fmt.Errorf("loading: no cache file at %q", path)
	}

	return c.Profiles, c.Devices, nil
}
