//go:build verif

// Package zzverifc10 is the harness of check C10: access-blocked clients and
// names are dropped silently and leave no trace.
//
// rig_test.go builds the production handler chain with dnssvc.NewHandlers
// (real ratelimitmw with the real devicefinder, initial, preservice, mainmw,
// preupstream, ecscache) on top of real access.Global / access.DefaultProfile
// engines and recording fakes for everything behind the access check.
package zzverifc10

import (
	"context"
	"fmt"
	"net"
	"net/netip"
	"strings"
	"time"

	"github.com/AdguardTeam/AdGuardDNS/internal/access"
	"github.com/AdguardTeam/AdGuardDNS/internal/agd"
	"github.com/AdguardTeam/AdGuardDNS/internal/agdcache"
	"github.com/AdguardTeam/AdGuardDNS/internal/agdpasswd"
	"github.com/AdguardTeam/AdGuardDNS/internal/agdtest"
	"github.com/AdguardTeam/AdGuardDNS/internal/dnsmsg"
	"github.com/AdguardTeam/AdGuardDNS/internal/dnsserver"
	"github.com/AdguardTeam/AdGuardDNS/internal/dnsserver/zzverif/vdns"
	"github.com/AdguardTeam/AdGuardDNS/internal/dnsserver/zzverif/vrt"
	"github.com/AdguardTeam/AdGuardDNS/internal/dnssvc"
	"github.com/AdguardTeam/AdGuardDNS/internal/filter"
	"github.com/AdguardTeam/AdGuardDNS/internal/geoip"
	"github.com/AdguardTeam/AdGuardDNS/internal/profiledb"
	"github.com/AdguardTeam/AdGuardDNS/internal/querylog"
	"github.com/AdguardTeam/golibs/container"
	"github.com/AdguardTeam/golibs/errors"
	"github.com/AdguardTeam/golibs/logutil/slogutil"
	"github.com/AdguardTeam/golibs/netutil"
	"github.com/miekg/dns"
)

// ---- World constants --------------------------------------------------------

const (
	c10ProfID    agd.ProfileID = "prof1"
	c10DevID     agd.DeviceID  = "dev1"
	c10DevDomain               = "d.test"
	c10DevSNI                  = "dev1." + c10DevDomain
	c10FltGrpID                = agd.FilteringGroupID("fg")

	// c10FilteredHost is blocked by the (fake) filter: it diversifies what
	// "processed normally" means.
	c10FilteredHost = "ads.test"

	// c10ProbeClient is the address of the unblocked anonymous client that
	// sends the follow-up request.
	c10ProbeClient = "10.9.9.9"

	c10SrvDNSAddr = "192.0.2.53:53"
	c10SrvDoTAddr = "192.0.2.53:853"
)

// ---- Recorder ---------------------------------------------------------------

// c10Rec records every call that reaches a stage behind the access check.
type c10Rec struct {
	Upstream   []string
	QueryLog   []string
	Billing    []string
	RuleStat   []string
	DNSDB      []string
	FltStorage []string
	FltReq     []string
	FltResp    []string
	DNSCheck   []string
	HashMatch  []string
	Errors     []string

	// AutoDevice records the automatic devices created through the profile
	// database.  The device lookup runs before the access check; whether a
	// device created by a request that is then dropped counts as a "trace"
	// is not decided by the statement, so this is not part of the verdict.
	AutoDevice []string

	// Rate limiter calls are recorded but are not part of the "no trace"
	// verdict (the statement does not name them); they are part of the
	// differential observation of served requests.
	RLCheck int
	RLCount int
}

// touched returns the names of the downstream stages that were reached.
func (r *c10Rec) touched() (stages []string) {
	add := func(name string, l []string) {
		if len(l) > 0 {
			stages = append(stages, fmt.Sprintf("%s×%d", name, len(l)))
		}
	}
	add("upstream", r.Upstream)
	add("querylog", r.QueryLog)
	add("billing", r.Billing)
	add("rulestat", r.RuleStat)
	add("dnsdb", r.DNSDB)
	add("filter-storage", r.FltStorage)
	add("filter-request", r.FltReq)
	add("filter-response", r.FltResp)
	add("dnscheck", r.DNSCheck)
	add("hashmatcher", r.HashMatch)

	return stages
}

// String is the canonical form of everything recorded.
func (r *c10Rec) String() string {
	return fmt.Sprintf("up=%q ql=%q bill=%q rs=%q db=%q fs=%q freq=%q fresp=%q ck=%q hm=%q errs=%q auto=%q rl=%d/%d",
		r.Upstream, r.QueryLog, r.Billing, r.RuleStat, r.DNSDB, r.FltStorage, r.FltReq, r.FltResp,
		r.DNSCheck, r.HashMatch, r.Errors, r.AutoDevice, r.RLCheck, r.RLCount)
}

// ---- Cache manager that lets the harness see the sizes of the caches --------

type c10CacheManager struct {
	caches map[string]agdcache.Clearer
}

var _ agdcache.Manager = (*c10CacheManager)(nil)

func (m *c10CacheManager) Add(id string, c agdcache.Clearer) { m.caches[id] = c }

func (m *c10CacheManager) ClearByID(id string) {
	if c, ok := m.caches[id]; ok {
		c.Clear()
	}
}

// items returns the total number of items in all caches registered by the
// stack (the two LRUs of ecscache).
func (m *c10CacheManager) items() (n int) {
	for id, c := range m.caches {
		l, ok := c.(interface{ Len() (n int) })
		if !ok {
			vrt.Fatalf("cache %q has no Len method", id)
		}
		n += l.Len()
	}

	return n
}

// ---- Switchable global access manager ---------------------------------------

// c10Access delegates to a real *access.Global.  The harness swaps the
// delegate to an empty real *access.Global only for the follow-up probe, so
// that a probe for a globally name-blocked question can reach the cache.
type c10Access struct {
	cur access.Interface
}

func (a *c10Access) IsBlockedHost(host string, qt uint16) (blocked bool) {
	return a.cur.IsBlockedHost(host, qt)
}

func (a *c10Access) IsBlockedIP(ip netip.Addr) (blocked bool) { return a.cur.IsBlockedIP(ip) }

// ---- Configuration of one stack ---------------------------------------------

// c10ProfAccess is the JSON form of access.ProfileConfig.
type c10ProfAccess struct {
	AllowedNets []string `json:"allowed_nets,omitempty"`
	BlockedNets []string `json:"blocked_nets,omitempty"`
	AllowedASN  []uint32 `json:"allowed_asn,omitempty"`
	BlockedASN  []uint32 `json:"blocked_asn,omitempty"`
	Rules       []string `json:"rules,omitempty"`
}

// c10Config is the access configuration of one stack.
type c10Config struct {
	// GNets and GRules are the global blocked subnets and blocked-name rules.
	GNets  []string `json:"gnets,omitempty"`
	GRules []string `json:"grules,omitempty"`

	// Prof is "none" (clients are anonymous), "empty" (profile with
	// access.EmptyProfile) or "cfg" (profile with a real
	// access.DefaultProfile built from PA).
	Prof string        `json:"prof"`
	PA   c10ProfAccess `json:"pa"`

	// Msg makes the profile's message configuration invalid, so that
	// dnsmsg.NewConstructor fails for it in ratelimitmw.newRequestInfo:
	// "negttl" (FilteredResponseTTL < 0) or "nilmode" (nil BlockingMode).
	Msg string `json:"msg,omitempty"`

	// DB changes the device lookup: "error" makes the profile database fail
	// with an error that is not a not-found error; "authfail" gives the
	// device DoH-only authentication, which fails on plain DNS and DoT;
	// "auto" enables automatic devices on the profile (requests then carry a
	// human-readable id of a device that does not exist yet).
	DB string `json:"db,omitempty"`
}

// profileKnown reports whether a non-anonymous request is served as its
// profile's under conf.
func (conf c10Config) profileKnown() bool {
	return conf.Prof != "none" && conf.DB != "error" && conf.DB != "authfail"
}

const (
	// c10HumanSNI is the TLS server name of a request with a human-readable
	// device id for which no device exists yet.
	c10HumanSNI = "otr-prof1-myphone." + c10DevDomain

	c10AutoDevID agd.DeviceID = "auto1"
)

// c10DBError is the scripted profile-database failure.
const c10DBError errors.Error = "c10: scripted profile database failure"

func c10Prefixes(ss []string) (ps []netip.Prefix) {
	for _, s := range ss {
		ps = append(ps, netip.MustParsePrefix(s))
	}

	return ps
}

func c10ASNs(ns []uint32) (as []geoip.ASN) {
	for _, n := range ns {
		as = append(as, geoip.ASN(n))
	}

	return as
}

// ---- The stack ---------------------------------------------------------------

type c10Stack struct {
	rec    *c10Rec
	caches *c10CacheManager
	am     *c10Access
	empty  *access.Global
	h      map[string]dnsserver.Handler

	// loc is the GeoIP table of client addresses.
	loc map[netip.Addr]*geoip.Location

	prof *agd.Profile
	dev  *agd.Device

	// anon makes the profile database not recognise the current request.
	anon bool

	// onLookup, if not nil, runs at the start of every profile-database
	// lookup of the current request (the device finder's slow step).
	onLookup func()
}

var (
	c10Cloner   = dnsmsg.NewCloner(dnsmsg.EmptyClonerStat{})
	c10Messages *dnsmsg.Constructor
	c10EmptyG   *access.Global
)

func c10Init() {
	var err error
	c10Messages, err = dnsmsg.NewConstructor(&dnsmsg.ConstructorConfig{
		Cloner:              c10Cloner,
		BlockingMode:        &dnsmsg.BlockingModeNullIP{},
		StructuredErrors:    agdtest.NewSDEConfig(true),
		FilteredResponseTTL: 10 * time.Second,
		EDEEnabled:          true,
	})
	if err != nil {
		vrt.Fatalf("constructor: %v", err)
	}
	c10EmptyG, err = access.NewGlobal(nil, nil)
	if err != nil {
		vrt.Fatalf("empty global access: %v", err)
	}
}

// c10Upstream is the ultimate handler: a pure function of the question.
func c10Upstream(rec *c10Rec) dnsserver.Handler {
	return dnsserver.HandlerFunc(func(ctx context.Context, rw dnsserver.ResponseWriter, req *dns.Msg) (err error) {
		rec.Upstream = append(rec.Upstream, vdns.Canon(req, true)+" opt="+vdns.OPTString(req))
		q := req.Question[0]
		resp := &dns.Msg{}
		resp.SetReply(req)
		resp.RecursionAvailable = true
		n := 0
		for _, b := range []byte(strings.ToLower(q.Name)) {
			n = (n*31 + int(b)) % 250
		}
		switch q.Qtype {
		case dns.TypeA:
			resp.Answer = []dns.RR{vdns.MustRR(fmt.Sprintf("%s 60 IN A 100.64.%d.1", q.Name, n))}
		case dns.TypeAAAA:
			resp.Answer = []dns.RR{vdns.MustRR(fmt.Sprintf("%s 60 IN AAAA 2001:db8:ffff::%d", q.Name, n))}
		default:
			resp.Ns = []dns.RR{vdns.MustRR(fmt.Sprintf("%s 30 IN SOA ns.%s hm.%s 1 3600 600 86400 30", q.Name, q.Name, q.Name))}
		}
		if opt := req.IsEdns0(); opt != nil {
			resp.SetEdns0(1232, opt.Do())
		}

		return rw.WriteMsg(ctx, req, resp)
	})
}

func c10ResultString(r filter.Result) string {
	if r == nil {
		return "-"
	}
	id, text := r.MatchedRule()

	return fmt.Sprintf("%T(%s,%s)", r, id, text)
}

// c10NewStack builds a fresh production chain for conf.
func c10NewStack(conf c10Config) (s *c10Stack) { return c10NewStackWith(conf, nil, nil) }

// c10NewStackWith is like [c10NewStack], but when prof is not nil the chain
// serves that profile and device (e.g. a profile loaded from the profile
// database's file cache) instead of building them from conf.
func c10NewStackWith(conf c10Config, prof *agd.Profile, dev *agd.Device) (s *c10Stack) {
	return c10NewStackGeo(conf, prof, dev, nil)
}

// c10NewStackGeo is like [c10NewStackWith], but when realGeo is not nil the
// whole chain (ratelimitmw, mainmw, ecscache) uses it instead of the table
// GeoIP of the rig.
func c10NewStackGeo(conf c10Config, prof *agd.Profile, dev *agd.Device, realGeo geoip.Interface) (s *c10Stack) {
	rec := &c10Rec{}
	s = &c10Stack{
		rec:    rec,
		caches: &c10CacheManager{caches: map[string]agdcache.Clearer{}},
		loc:    map[netip.Addr]*geoip.Location{},
		h:      map[string]dnsserver.Handler{},
		empty:  c10EmptyG,
	}

	// Real global access engine, built from the rule text.
	g, err := access.NewGlobal(conf.GRules, c10Prefixes(conf.GNets))
	if err != nil {
		vrt.Fatalf("access.NewGlobal(%q, %q): %v", conf.GRules, conf.GNets, err)
	}
	s.am = &c10Access{cur: g}

	// Profile with the real profile access engine.
	if prof != nil {
		s.prof, s.dev = prof, dev
	} else if conf.Prof != "none" {
		var pa access.Profile
		switch conf.Prof {
		case "empty":
			pa = access.EmptyProfile{}
		case "cfg":
			pa = access.NewDefaultProfile(&access.ProfileConfig{
				AllowedNets:          c10Prefixes(conf.PA.AllowedNets),
				BlockedNets:          c10Prefixes(conf.PA.BlockedNets),
				AllowedASN:           c10ASNs(conf.PA.AllowedASN),
				BlockedASN:           c10ASNs(conf.PA.BlockedASN),
				BlocklistDomainRules: conf.PA.Rules,
			})
		default:
			vrt.Fatalf("bad profile kind %q", conf.Prof)
		}
		s.dev = &agd.Device{
			Auth:             &agd.AuthSettings{Enabled: false, PasswordHash: agdpasswd.AllowAuthenticator{}},
			ID:               c10DevID,
			Name:             "dev1",
			FilteringEnabled: true,
		}
		s.prof = &agd.Profile{
			FilterConfig: &filter.ConfigClient{
				Custom:       &filter.ConfigCustom{},
				Parental:     &filter.ConfigParental{},
				RuleList:     &filter.ConfigRuleList{Enabled: true},
				SafeBrowsing: &filter.ConfigSafeBrowsing{},
			},
			Access:              pa,
			BlockingMode:        &dnsmsg.BlockingModeNullIP{},
			Ratelimiter:         agd.GlobalRatelimiter{},
			ID:                  c10ProfID,
			DeviceIDs:           []agd.DeviceID{c10DevID},
			FilteredResponseTTL: 10 * time.Second,
			FilteringEnabled:    true,
			IPLogEnabled:        true,
			QueryLogEnabled:     true,
		}
	}

	if prof == nil && s.prof != nil {
		switch conf.Msg {
		case "":
		case "negttl":
			s.prof.FilteredResponseTTL = -1 * time.Second
		case "nilmode":
			s.prof.BlockingMode = nil
		default:
			vrt.Fatalf("bad msg kind %q", conf.Msg)
		}
		switch conf.DB {
		case "", "error":
		case "authfail":
			s.dev.Auth = &agd.AuthSettings{Enabled: true, DoHAuthOnly: true, PasswordHash: agdpasswd.AllowAuthenticator{}}
		case "auto":
			s.prof.AutoDevicesEnabled = true
		default:
			vrt.Fatalf("bad db kind %q", conf.DB)
		}
	}

	notFound := func() (*agd.Profile, *agd.Device, error) { return nil, nil, profiledb.ErrDeviceNotFound }
	db := agdtest.NewProfileDB()
	db.OnProfileByHumanID = func(_ context.Context, id agd.ProfileID, _ agd.HumanIDLower) (*agd.Profile, *agd.Device, error) {
		if h := s.onLookup; h != nil {
			h()
		}
		if s.prof == nil || s.anon || id != c10ProfID {
			return nil, nil, profiledb.ErrProfileNotFound
		}

		// The profile exists, the device does not (yet).
		return nil, nil, profiledb.ErrDeviceNotFound
	}
	db.OnCreateAutoDevice = func(
		_ context.Context, id agd.ProfileID, humanID agd.HumanID, _ agd.DeviceType,
	) (*agd.Profile, *agd.Device, error) {
		// As profiledb.Default.CreateAutoDevice: only for existing profiles
		// with the feature enabled; then the backend creates the device.
		if s.prof == nil || id != c10ProfID || !s.prof.AutoDevicesEnabled {
			return nil, nil, profiledb.ErrProfileNotFound
		}
		rec.AutoDevice = append(rec.AutoDevice, fmt.Sprintf("%s/%s", id, humanID))

		return s.prof, &agd.Device{
			Auth:             &agd.AuthSettings{Enabled: false, PasswordHash: agdpasswd.AllowAuthenticator{}},
			ID:               c10AutoDevID,
			Name:             agd.DeviceName(humanID),
			HumanIDLower:     agd.HumanIDToLower(humanID),
			FilteringEnabled: true,
		}, nil
	}
	db.OnProfileByLinkedIP = func(_ context.Context, ip netip.Addr) (*agd.Profile, *agd.Device, error) {
		if h := s.onLookup; h != nil {
			h()
		}
		if s.prof == nil || s.anon {
			return notFound()
		} else if conf.DB == "error" {
			return nil, nil, c10DBError
		}

		return s.prof, s.dev, nil
	}
	db.OnProfileByDeviceID = func(_ context.Context, id agd.DeviceID) (*agd.Profile, *agd.Device, error) {
		if h := s.onLookup; h != nil {
			h()
		}
		if s.prof == nil || s.anon || id != c10DevID {
			return notFound()
		} else if conf.DB == "error" {
			return nil, nil, c10DBError
		}

		return s.prof, s.dev, nil
	}

	geo := &agdtest.GeoIP{
		OnData: func(host string, ip netip.Addr) (l *geoip.Location, err error) {
			if host == "" {
				if l = c10ECSLocations[ip]; l != nil {
					return l, nil
				}

				return s.loc[ip], nil
			}

			// Location of a response address (query log only).
			return &geoip.Location{Country: geoip.Country("RC"), ASN: 65000}, nil
		},
		OnSubnetByLocation: func(_ *geoip.Location, fam netutil.AddrFamily) (netip.Prefix, error) {
			return netutil.ZeroPrefix(fam), nil
		},
	}

	flt := &agdtest.Filter{
		OnFilterRequest: func(_ context.Context, req *filter.Request) (r filter.Result, err error) {
			rec.FltReq = append(rec.FltReq, fmt.Sprintf("%s/%d from %s", req.Host, req.QType, req.RemoteIP))
			if req.Host == c10FilteredHost {
				return &filter.ResultBlocked{List: "flt_1", Rule: "||" + c10FilteredHost + "^"}, nil
			}

			return nil, nil
		},
		OnFilterResponse: func(_ context.Context, resp *filter.Response) (r filter.Result, err error) {
			rec.FltResp = append(rec.FltResp, vdns.Canon(resp.DNS, true))

			return nil, nil
		},
	}

	fltGrp := &agd.FilteringGroup{
		FilterConfig: &filter.ConfigGroup{
			Parental:     &filter.ConfigParental{},
			RuleList:     &filter.ConfigRuleList{Enabled: true},
			SafeBrowsing: &filter.ConfigSafeBrowsing{},
		},
		ID: c10FltGrpID,
	}

	srvDNS := &agd.Server{Name: "srv_dns", Protocol: agd.ProtoDNS, LinkedIPEnabled: true}
	srvDNS.SetBindData([]*agd.ServerBindData{{AddrPort: netip.MustParseAddrPort(c10SrvDNSAddr)}})
	srvDoT := &agd.Server{Name: "srv_dot", Protocol: agd.ProtoDoT}
	srvDoT.SetBindData([]*agd.ServerBindData{{AddrPort: netip.MustParseAddrPort(c10SrvDoTAddr)}})
	srvGrp := &agd.ServerGroup{
		DDR: &agd.DDR{
			DeviceTargets: container.NewMapSet[string](),
			PublicTargets: container.NewMapSet[string](),
		},
		DeviceDomains:   []string{c10DevDomain},
		Name:            "sg",
		FilteringGroup:  c10FltGrpID,
		Servers:         []*agd.Server{srvDNS, srvDoT},
		ProfilesEnabled: true,
	}

	handlers, err := dnssvc.NewHandlers(context.Background(), &dnssvc.HandlersConfig{
		BaseLogger: slogutil.NewDiscardLogger(),
		Cloner:     c10Cloner,
		Cache: &dnssvc.CacheConfig{
			MinTTL:     10 * time.Second,
			ECSCount:   100,
			NoECSCount: 100,
			Type:       dnssvc.CacheTypeECS,
		},
		HumanIDParser:    agd.NewHumanIDParser(),
		Messages:         c10Messages,
		PluginRegistry:   nil,
		StructuredErrors: agdtest.NewSDEConfig(true),
		AccessManager:    s.am,
		BillStat: &agdtest.BillStatRecorder{OnRecord: func(
			_ context.Context, id agd.DeviceID, ctry geoip.Country, asn geoip.ASN, _ time.Time, proto agd.Protocol,
		) {
			rec.Billing = append(rec.Billing, fmt.Sprintf("%s %s %d %v", id, ctry, asn, proto))
		}},
		CacheManager: s.caches,
		DNSCheck: &agdtest.DNSCheck{OnCheck: func(_ context.Context, req *dns.Msg, ri *agd.RequestInfo) (*dns.Msg, error) {
			rec.DNSCheck = append(rec.DNSCheck, ri.Host)

			return nil, nil
		}},
		DNSDB: &agdtest.DNSDB{OnRecord: func(_ context.Context, resp *dns.Msg, ri *agd.RequestInfo) {
			rec.DNSDB = append(rec.DNSDB, ri.Host+" "+vdns.Canon(resp, true))
		}},
		ErrColl: &agdtest.ErrorCollector{OnCollect: func(_ context.Context, err error) {
			rec.Errors = append(rec.Errors, err.Error())
		}},
		FilterStorage: &agdtest.FilterStorage{
			OnForConfig: func(_ context.Context, c filter.Config) (f filter.Interface) {
				rec.FltStorage = append(rec.FltStorage, fmt.Sprintf("%T", c))

				return flt
			},
			OnHasListID: func(_ filter.ID) (ok bool) { return true },
		},
		GeoIP:   c10PickGeo(realGeo, geo),
		Handler: c10Upstream(rec),
		HashMatcher: &agdtest.HashMatcher{OnMatchByPrefix: func(_ context.Context, host string) ([]string, bool, error) {
			rec.HashMatch = append(rec.HashMatch, host)

			return nil, false, nil
		}},
		ProfileDB:            db,
		PrometheusRegisterer: agdtest.NewTestPrometheusRegisterer(),
		QueryLog: &agdtest.QueryLog{OnWrite: func(_ context.Context, e *querylog.Entry) (err error) {
			rec.QueryLog = append(rec.QueryLog, fmt.Sprintf(
				"%s %s %s %s ip=%s cc=%s rc=%s asn=%d qt=%d rcode=%d proto=%v dnssec=%v req=%s resp=%s",
				e.ProfileID, e.DeviceID, e.DomainFQDN, e.RequestID, e.RemoteIP, e.ClientCountry, e.ResponseCountry,
				e.ClientASN, e.RequestType, e.ResponseCode, e.Protocol, e.DNSSEC,
				c10ResultString(e.RequestResult), c10ResultString(e.ResponseResult),
			))

			return nil
		}},
		RateLimit: &agdtest.RateLimit{
			OnIsRateLimited: func(_ context.Context, _ *dns.Msg, _ netip.Addr) (drop, allow bool, err error) {
				rec.RLCheck++

				return false, false, nil
			},
			OnCountResponses: func(_ context.Context, _ *dns.Msg, _ netip.Addr) { rec.RLCount++ },
		},
		RuleStat: &agdtest.RuleStat{OnCollect: func(_ context.Context, id filter.ID, text filter.RuleText) {
			rec.RuleStat = append(rec.RuleStat, fmt.Sprintf("%s|%s", id, text))
		}},
		MetricsNamespace: "c10",
		FilteringGroups:  map[agd.FilteringGroupID]*agd.FilteringGroup{c10FltGrpID: fltGrp},
		ServerGroups:     []*agd.ServerGroup{srvGrp},
		EDEEnabled:       true,
	})
	if err != nil {
		vrt.Fatalf("dnssvc.NewHandlers: %v", err)
	}
	for k, h := range handlers {
		switch k.Server {
		case srvDNS:
			s.h["dns"] = h
		case srvDoT:
			s.h["dot"] = h
		}
	}
	if len(s.h) != 2 {
		vrt.Fatalf("expected two handlers, got %d", len(handlers))
	}

	return s
}

func c10PickGeo(realGeo, table geoip.Interface) geoip.Interface {
	if realGeo != nil {
		return realGeo
	}

	return table
}

// ---- One request -------------------------------------------------------------

// c10Writer is the response writer of the server: it records every WriteMsg.
type c10Writer struct {
	laddr, raddr net.Addr
	writes       []*dns.Msg
}

func (w *c10Writer) LocalAddr() net.Addr  { return w.laddr }
func (w *c10Writer) RemoteAddr() net.Addr { return w.raddr }
func (w *c10Writer) WriteMsg(_ context.Context, _, resp *dns.Msg) error {
	w.writes = append(w.writes, resp.Copy())

	return nil
}

// c10Query is one client request.
type c10Query struct {
	// Client is the remote address in text form; a "::ffff:a.b.c.d" form is
	// delivered to the handler as a 16-byte address the way a dual-stack
	// socket does.
	Client string `json:"client"`

	// ASN is the autonomous system GeoIP reports for the client; 0 means that
	// GeoIP has no data (nil location).
	ASN uint32 `json:"asn"`

	Name  string `json:"name"`
	QType uint16 `json:"qtype"`

	// Proto is "dns" (plain UDP; the profile is found by linked IP) or "dot"
	// (the profile is found by the device id in the TLS server name).
	Proto string `json:"proto"`

	// ECS, if not empty, is the prefix of an EDNS Client Subnet option.
	ECS string `json:"ecs,omitempty"`

	// SNI, if not empty, is the TLS server name of a DoT request (default: the
	// device id of the profile's device).
	SNI string `json:"sni,omitempty"`

	// Anonymous makes the request carry no device identification.
	Anonymous bool `json:"anonymous,omitempty"`

	// Ctx is the state of the request's context: "" live; "cancelled" and
	// "expired" (deadline in the past) on entry; "cancel-in-lookup" (cancelled
	// while the device finder looks the profile up, which still returns it);
	// "expire-in-lookup" (the deadline passes during that lookup).
	Ctx string `json:"ctx,omitempty"`
}

// c10CtxKinds are the dead-context kinds.
var c10CtxKinds = []string{"cancelled", "expired", "cancel-in-lookup", "expire-in-lookup"}

// Malformed EDNS Client Subnet options (values of c10Query.ECS).
const (
	c10ECSBadFamily = "badfamily" // address family 3
	c10ECSBadLen    = "badlen"    // IPv4 source prefix length 33
	c10ECSBadBits   = "badbits"   // 100.70.0.5/24: bits set beyond the prefix
)

// malformedECS reports whether the request carries a malformed ECS option.
func (q c10Query) malformedECS() bool {
	return q.ECS == c10ECSBadFamily || q.ECS == c10ECSBadLen || q.ECS == c10ECSBadBits
}

// c10ECSLocations is the fixed GeoIP table of the ECS networks.
var c10ECSLocations = map[netip.Addr]*geoip.Location{
	netip.MustParseAddr("100.70.0.0"): {Country: geoip.Country("XB"), ASN: 64500},
	netip.MustParseAddr("100.71.0.0"): {Country: geoip.Country("XC"), ASN: 64501},
}

// c10Obs is what one request produced.
type c10Obs struct {
	Writes  []string
	Err     string
	Rec     string
	Touched []string
	Cached  int

	// AutoDevices is the number of automatic devices created (not part of
	// the verdict).
	AutoDevices int
}

func (o *c10Obs) String() string {
	return fmt.Sprintf("writes=%q err=%q cached=%d %s", o.Writes, o.Err, o.Cached, o.Rec)
}

// serve sends q through the stack and returns what happened during this
// request only.
func (s *c10Stack) serve(q c10Query, id uint16) (o *c10Obs) {
	h := s.h[q.Proto]
	if h == nil {
		vrt.Fatalf("bad proto %q", q.Proto)
	}
	addr := netip.MustParseAddr(q.Client)
	if q.ASN != 0 {
		s.loc[addr.Unmap()] = &geoip.Location{Country: geoip.Country("XA"), Continent: geoip.ContinentEU, ASN: geoip.ASN(q.ASN)}
	} else {
		delete(s.loc, addr.Unmap())
	}
	ip := net.IP(addr.AsSlice())
	if addr.Is4In6() {
		a16 := addr.As16()
		ip = net.IP(a16[:])
	}
	w := &c10Writer{}
	sri := &dnsserver.RequestInfo{StartTime: time.Now()}
	var si *dnsserver.ServerInfo
	if q.Proto == "dns" {
		w.laddr = net.UDPAddrFromAddrPort(netip.MustParseAddrPort(c10SrvDNSAddr))
		w.raddr = &net.UDPAddr{IP: ip, Port: 40000}
		si = &dnsserver.ServerInfo{Name: "srv_dns", Addr: c10SrvDNSAddr, Proto: dnsserver.ProtoDNS}
	} else {
		w.laddr = net.TCPAddrFromAddrPort(netip.MustParseAddrPort(c10SrvDoTAddr))
		w.raddr = &net.TCPAddr{IP: ip, Port: 40000}
		si = &dnsserver.ServerInfo{Name: "srv_dot", Addr: c10SrvDoTAddr, Proto: dnsserver.ProtoDoT}
		if q.SNI != "" {
			sri.TLSServerName = q.SNI
		} else if !q.Anonymous {
			sri.TLSServerName = c10DevSNI
		}
	}
	ctx := dnsserver.ContextWithRequestInfo(context.Background(), sri)
	ctx = dnsserver.ContextWithServerInfo(ctx, si)
	ctx = agd.WithRequestID(ctx, agd.RequestID{})

	cancel := context.CancelFunc(func() {})
	switch q.Ctx {
	case "":
	case "cancelled":
		ctx, cancel = context.WithCancel(ctx)
		cancel()
	case "expired":
		ctx, cancel = context.WithDeadline(ctx, time.Now().Add(-time.Second))
	case "cancel-in-lookup":
		ctx, cancel = context.WithCancel(ctx)
		s.onLookup = cancel
	case "expire-in-lookup":
		// No wall-clock oracle: the lookup simply does not return before the
		// deadline has passed.
		ctx, cancel = context.WithTimeout(ctx, 300*time.Microsecond)
		done := ctx.Done()
		s.onLookup = func() { <-done }
	default:
		vrt.Fatalf("bad context kind %q", q.Ctx)
	}
	defer func() {
		cancel()
		s.onLookup = nil
	}()

	*s.rec = c10Rec{}
	s.anon = q.Anonymous
	req := vdns.NewReq(id, q.Name, q.QType, dns.ClassINET)
	if q.ECS != "" {
		req.SetEdns0(1232, false)
		opt := req.IsEdns0()
		o := &dns.EDNS0_SUBNET{Code: dns.EDNS0SUBNET, Family: 1}
		switch q.ECS {
		case c10ECSBadFamily:
			o.Family, o.SourceNetmask, o.Address = 3, 24, net.IP{100, 70, 0, 0}
		case c10ECSBadLen:
			o.SourceNetmask, o.Address = 33, net.IP{100, 70, 0, 0}
		case c10ECSBadBits:
			// Address bits set beyond the source prefix length.
			o.SourceNetmask, o.Address = 24, net.IP{100, 70, 0, 5}
		default:
			p := netip.MustParsePrefix(q.ECS)
			o.SourceNetmask, o.Address = uint8(p.Bits()), net.IP(p.Addr().AsSlice())
			if !p.Addr().Is4() {
				// IPv6 family, incl. IPv4-mapped prefixes.
				o.Family = 2
			}
		}
		opt.Option = append(opt.Option, o)
	}
	var err error
	if p := vrt.Catch(func() { err = h.ServeDNS(ctx, w, req) }); p != "" {
		err = fmt.Errorf("PANIC: %s", p)
	}
	o = &c10Obs{Rec: s.rec.String(), Touched: s.rec.touched(), Cached: s.caches.items(), AutoDevices: len(s.rec.AutoDevice)}
	for _, m := range w.writes {
		o.Writes = append(o.Writes, vdns.Canon(m, true)+" opt="+vdns.OPTString(m))
	}
	if err != nil {
		o.Err = err.Error()
	}

	return o
}
