//go:build verif

package zzverifc10

import (
	"context"
	"fmt"
	"net"
	"net/netip"
	"os"
	"strings"
	"testing"
	"time"

	"github.com/AdguardTeam/AdGuardDNS/internal/agd"
	"github.com/AdguardTeam/AdGuardDNS/internal/dnsserver"
	"github.com/AdguardTeam/AdGuardDNS/internal/dnsserver/zzverif/vdns"
	"github.com/AdguardTeam/AdGuardDNS/internal/dnsserver/zzverif/vrt"
	"github.com/AdguardTeam/AdGuardDNS/internal/dnsserver/zzverif/xsched"
	"github.com/AdguardTeam/AdGuardDNS/internal/geoip"
	"github.com/miekg/dns"
)

// Schedule exploration (engine XS) of CONCURRENT requests through one shared
// production chain, i.e. one shared access.Global and one shared
// access.DefaultProfile.  The statement of C10 quantifies over every request;
// a request's fate must not depend on which other requests are being checked
// at the same moment.  The unit is built with instrumented copies of
// internal/access/{access,profile,engine}.go and ratelimitmw/access.go: a
// scheduling point precedes every statement containing a call in
// Global.IsBlockedHost / IsBlockedIP, DefaultProfile.IsBlocked /
// isBlockedByNets / isBlockedByHostsEng, blockedHostEngine.isBlocked and
// Middleware.isBlockedByAccess, and engine.go's sync.Once is the modelled
// xsync.Once.  Everything between two points runs atomically (GOMAXPROCS 1,
// cooperative tasks), so every interleaving of the access decisions at that
// granularity with at most N preemptions is enumerated.
//
// Oracle: the independent decision c10Decide for each request on its own
// (blocked => nothing written, nil error; served => exactly one response).

// c10rConf is the shared configuration: every clause of the statement has a
// rule in it.
var c10rConf = c10Config{
	GNets: []string{"198.51.100.0/24"},
	GRules: []string{
		"||gblocked.test^",
		"@@||ok.gblocked.test^",
		"||g6.test^$dnstype=AAAA",
	},
	Prof: "cfg",
	PA: c10ProfAccess{
		AllowedNets: []string{"203.0.113.128/25"},
		BlockedNets: []string{"203.0.113.0/24"},
		AllowedASN:  []uint32{64501},
		BlockedASN:  []uint32{64500},
		Rules: []string{
			"||pblocked.test^",
			"||p6.test^$dnstype=AAAA",
		},
	},
}

// c10rPool is the colliding request alphabet.  Each request is paired with
// others that differ from it in exactly the datum a shared scratch object
// would carry over: name, type, client address, ASN.
var c10rPool = []c10Query{
	0:  {Client: "10.0.0.1", Name: "clean.test.", QType: dns.TypeA, Proto: "dns"},                     // served
	1:  {Client: "10.0.0.1", Name: "gblocked.test.", QType: dns.TypeA, Proto: "dns"},                  // global name
	2:  {Client: "10.0.0.1", Name: "g6.test.", QType: dns.TypeA, Proto: "dns"},                        // served ($dnstype=AAAA only)
	3:  {Client: "10.0.0.1", Name: "g6.test.", QType: dns.TypeAAAA, Proto: "dns"},                     // global name+type
	4:  {Client: "198.51.100.200", Name: "clean.test.", QType: dns.TypeA, Proto: "dns"},               // global subnet
	5:  {Client: "10.0.0.1", Name: "pblocked.test.", QType: dns.TypeA, Proto: "dns"},                  // profile name
	6:  {Client: "10.0.0.1", Name: "pblocked.test.", QType: dns.TypeA, Proto: "dns", Anonymous: true}, // served: no profile
	7:  {Client: "203.0.113.5", Name: "clean.test.", QType: dns.TypeA, Proto: "dns"},                  // profile subnet
	8:  {Client: "203.0.113.130", Name: "clean.test.", QType: dns.TypeA, Proto: "dns"},                // served: allowed beats blocked
	9:  {Client: "10.0.0.2", ASN: 64500, Name: "clean.test.", QType: dns.TypeA, Proto: "dot"},         // profile ASN
	10: {Client: "10.0.0.3", ASN: 64501, Name: "p6.test.", QType: dns.TypeAAAA, Proto: "dot"},         // profile name+type (allowed ASN does not lift it)
	11: {Client: "10.0.0.3", ASN: 64501, Name: "p6.test.", QType: dns.TypeA, Proto: "dot"},            // served
	12: {Client: "10.0.0.1", Name: "ok.gblocked.test.", QType: dns.TypeA, Proto: "dns"},               // served: exception
}

// c10rScenario is one set of concurrent tasks; every task sends its requests
// one after another.
type c10rScenario struct {
	Tasks [][]int `json:"tasks"`
}

// c10rScenarios enumerates the scenarios of a tier: every unordered pair of
// pool requests as two tasks (incl. a request with itself); every unordered
// triple over a reduced pool as three tasks; every unordered pair of
// two-request sequences over a small pool.
func c10rScenarios(thorough bool) (scs []c10rScenario) {
	n := len(c10rPool)
	for i := 0; i < n; i++ {
		for j := i; j < n; j++ {
			scs = append(scs, c10rScenario{Tasks: [][]int{{i}, {j}}})
		}
	}
	triple := []int{0, 1, 3, 5, 7}
	if thorough {
		triple = []int{0, 1, 3, 4, 5, 7}
	}
	for a := 0; a < len(triple); a++ {
		for b := a; b < len(triple); b++ {
			for c := b; c < len(triple); c++ {
				scs = append(scs, c10rScenario{Tasks: [][]int{{triple[a]}, {triple[b]}, {triple[c]}}})
			}
		}
	}
	seqPool := []int{0, 1, 3}
	if thorough {
		seqPool = []int{0, 1, 3, 5}
	}
	var seqs [][]int
	for _, a := range seqPool {
		for _, b := range seqPool {
			seqs = append(seqs, []int{a, b})
		}
	}
	for i := range seqs {
		for j := i; j < len(seqs); j++ {
			scs = append(scs, c10rScenario{Tasks: [][]int{seqs[i], seqs[j]}})
		}
	}

	return scs
}

// c10rResult is the fate of one request.
type c10rResult struct {
	q      c10Query
	task   int
	writes []string
	err    string
}

type c10rEnv struct {
	sc      c10rScenario
	results []*c10rResult
}

// serveRace sends q through the shared stack without touching the shared
// recorder bookkeeping of [c10Stack.serve].
func (s *c10Stack) serveRace(q c10Query, id uint16) (res *c10rResult) {
	h := s.h[q.Proto]
	addr := netip.MustParseAddr(q.Client)
	ip := net.IP(addr.AsSlice())
	w := &c10Writer{}
	sri := &dnsserver.RequestInfo{StartTime: time.Now()}
	var si *dnsserver.ServerInfo
	if q.Proto == "dns" {
		w.laddr = net.UDPAddrFromAddrPort(netip.MustParseAddrPort(c10SrvDNSAddr))
		w.raddr = &net.UDPAddr{IP: ip, Port: 40000}
		si = &dnsserver.ServerInfo{Name: "srv_dns", Addr: c10SrvDNSAddr, Proto: dnsserver.ProtoDNS}
	} else {
		w.laddr = net.TCPAddrFromAddrPort(netip.MustParseAddrPort(c10SrvDoTAddr))
		w.raddr = &net.TCPAddr{IP: ip, Port: 40000}
		si = &dnsserver.ServerInfo{Name: "srv_dot", Addr: c10SrvDoTAddr, Proto: dnsserver.ProtoDoT}
		if !q.Anonymous {
			sri.TLSServerName = c10DevSNI
		}
	}
	ctx := dnsserver.ContextWithRequestInfo(context.Background(), sri)
	ctx = dnsserver.ContextWithServerInfo(ctx, si)
	ctx = agd.WithRequestID(ctx, agd.RequestID{})

	// The profile database consults anon while the device finder runs, which
	// is before the first scheduling point of this request.
	s.anon = q.Anonymous
	err := h.ServeDNS(ctx, w, vdns.NewReq(id, q.Name, q.QType, dns.ClassINET))
	res = &c10rResult{q: q}
	for _, m := range w.writes {
		res.writes = append(res.writes, vdns.Canon(m, true))
	}
	if err != nil {
		res.err = err.Error()
	}

	return res
}

func c10rSetup(sc c10rScenario, s *xsched.Sched) (env *c10rEnv) {
	env = &c10rEnv{sc: sc}
	st := c10NewStack(c10rConf)
	// The GeoIP table is fixed for the whole execution.
	for _, q := range c10rPool {
		if q.ASN != 0 {
			st.loc[netip.MustParseAddr(q.Client)] = &geoip.Location{
				Country: geoip.Country("XA"), Continent: geoip.ContinentEU, ASN: geoip.ASN(q.ASN),
			}
		}
	}
	for ti, seq := range sc.Tasks {
		s.Go(fmt.Sprintf("T%d", ti+1), func() {
			for k, qi := range seq {
				res := st.serveRace(c10rPool[qi], uint16(1000+100*ti+k))
				res.task = ti
				env.results = append(env.results, res)
			}
		})
	}

	return env
}

type c10rCase struct {
	Tasks   [][]int `json:"tasks"`
	Choices []int   `json:"choices"`
}

func c10rDescribe(env *c10rEnv) string {
	var parts []string
	for ti, seq := range env.sc.Tasks {
		var qs []string
		for _, qi := range seq {
			q := c10rPool[qi]
			anon := ""
			if q.Anonymous {
				anon = " anonymous"
			}
			qs = append(qs, fmt.Sprintf("%s %s from %s (ASN %d, %s%s)", q.Name, dns.Type(q.QType), q.Client, q.ASN, q.Proto, anon))
		}
		parts = append(parts, fmt.Sprintf("T%d: %s", ti+1, strings.Join(qs, " ; ")))
	}

	return strings.Join(parts, "\n     ")
}

func c10rCheck(env *c10rEnv, x *xsched.Exec) (fs []vrt.Finding) {
	if x.Sched.Panicked != "" {
		return vrt.F("access-race/panic", "concurrent requests\n     %s\npanicked: %s\nschedule:\n%s", c10rDescribe(env), x.Sched.Panicked, x.Sched.Describe())
	}
	if x.Sched.Deadlock || x.Sched.LimitHit {
		return vrt.F("access-race/deadlock", "concurrent requests\n     %s\nblocked: %v\nschedule:\n%s", c10rDescribe(env), x.Sched.Blocked, x.Sched.Describe())
	}
	want := 0
	for _, seq := range env.sc.Tasks {
		want += len(seq)
	}
	if len(env.results) != want {
		vrt.Fatalf("race: %d results for %d requests", len(env.results), want)
	}
	for _, res := range env.results {
		v, reason := c10Decide(c10rConf, res.q)
		switch {
		case v == c10Blocked && (len(res.writes) > 0 || res.err != ""):
			fs = append(fs, vrt.F("access-race/blocked-request-answered-under-concurrency",
				"request %s %s from %s (ASN %d) of task T%d must be dropped (%s) and is dropped when sent alone, but while other requests were being checked it got writes=%q err=%q\nconcurrent requests\n     %s\nschedule:\n%s",
				res.q.Name, dns.Type(res.q.QType), res.q.Client, res.q.ASN, res.task+1, reason, res.writes, res.err,
				c10rDescribe(env), x.Sched.Describe())...)
		case v == c10Served && (len(res.writes) != 1 || res.err != ""):
			fs = append(fs, vrt.F("access-race/unblocked-request-dropped-under-concurrency",
				"no rule rejects request %s %s from %s (ASN %d) of task T%d and it is answered when sent alone, but while other requests were being checked it got writes=%q err=%q\nconcurrent requests\n     %s\nschedule:\n%s",
				res.q.Name, dns.Type(res.q.QType), res.q.Client, res.q.ASN, res.task+1, res.writes, res.err,
				c10rDescribe(env), x.Sched.Describe())...)
		}
	}
	if len(fs) > 1 {
		// One finding per key per execution is enough.
		seen := map[string]bool{}
		out := fs[:0]
		for _, f := range fs {
			if !seen[f.Key] {
				seen[f.Key] = true
				out = append(out, f)
			}
		}
		fs = out
	}

	return fs
}

func TestVerifC10Race(t *testing.T) {
	r := vrt.Start("C10")
	c10Init()

	// Harness self-check: the pool has no ambiguous request and both verdicts
	// occur.
	nb := 0
	for i, q := range c10rPool {
		v, _ := c10Decide(c10rConf, q)
		if v == c10Either {
			vrt.Fatalf("race pool request %d is ambiguous", i)
		}
		if v == c10Blocked {
			nb++
		}
	}
	if nb == 0 || nb == len(c10rPool) {
		vrt.Fatalf("race pool is one-sided: %d blocked of %d", nb, len(c10rPool))
	}

	var rc c10rCase
	if r.ReplayCase("race", &rc) {
		var env *c10rEnv
		x := xsched.Replay(rc.Choices, func(s *xsched.Sched) { env = c10rSetup(c10rScenario{Tasks: rc.Tasks}, s) })
		r.Eval()
		r.Report("race", rc, c10rCheck(env, x))
	}
	if r.ShouldRun() {
		shard, nshards := r.NShards()
		pre := vrt.Pick(r, 2, 3)
		scs := c10rScenarios(r.Thorough())
		r.Bound("race_preemptions", pre)
		r.Bound("race_scenarios", len(scs))
		r.Bound("race_pool_requests", len(c10rPool))
		for si, sc := range scs {
			if si%nshards != shard {
				continue
			}
			if r.Expired() {
				r.Note("race exploration stopped by internal deadline before scenario %d of %d", si, len(scs))

				break
			}
			var env *c10rEnv
			found := 0
			st := xsched.Explore(xsched.Config{MaxPreemptions: pre, MaxDeviations: 0, Stop: r.Expired},
				func(s *xsched.Sched) { env = c10rSetup(sc, s) },
				func(x *xsched.Exec) bool {
					r.Eval()
					r.Trans(len(x.Sched.Trace))
					fs := c10rCheck(env, x)
					var obs []string
					for _, res := range env.results {
						obs = append(obs, fmt.Sprintf("T%d:%s/%d@%s=%d", res.task+1, res.q.Name, res.q.QType, res.q.Client, len(res.writes)))
					}
					r.Class(fmt.Sprintf("race tasks=%d requests=%d preemptions=%d", len(sc.Tasks), len(env.results), x.Preemptions))
					if r.State(fmt.Sprintf("%v|%v", sc.Tasks, obs)) {
						r.Sample(map[string]any{"tasks": sc.Tasks, "observation": obs, "preemptions": x.Preemptions})
					}
					if len(fs) > 0 {
						r.Report("race", c10rCase{Tasks: sc.Tasks, Choices: x.Choices}, fs)
						found++
					}

					return found < 1
				})
			r.Count("race_scheduling_points", st.Points)
			if st.MaxTrace > 0 {
				r.Count("race_scenarios_explored", 1)
			}
			if st.Stopped {
				r.Note("race scenario %v stopped by deadline after %d executions", sc.Tasks, st.Executions)
			}
		}
	}
	r.Finish()
	os.Exit(0)
}
