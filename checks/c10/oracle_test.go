//go:build verif

package zzverifc10

import (
	"fmt"
	"net/netip"
	"strings"

	"github.com/miekg/dns"
)

// The oracle restates the statement of C10 and nothing more.  It is written
// without any repository code (no urlfilter, no access package): prefixes are
// compared with net/netip, names with strings.
//
//	1. client address in a globally blocked subnet            -> blocked
//	2. question matches a global blocked-name rule            -> blocked
//	3. no profile / profile without access settings           -> served
//	4. profile: (blocked subnet or blocked ASN) and not
//	   (allowed subnet or allowed ASN)                        -> blocked
//	5. profile: question matches a blocked-name rule          -> blocked
//	6. otherwise                                              -> served
//
// Blocked-name rules are understood only in the restricted grammar the check
// uses; where the meaning of a rule for a name is not unambiguous the oracle
// answers c10Either and the harness accepts both behaviours.

type c10Verdict int

const (
	c10Served c10Verdict = iota
	c10Blocked
	c10Either
)

func (v c10Verdict) String() string { return [...]string{"served", "blocked", "either"}[v] }

// c10RuleMatch tells how one rule of the restricted grammar applies to the
// (lower-case, no trailing dot) name and the type.  exception is true for
// "@@" rules.
//
// Grammar:
//
//	||domain^                 the domain and every subdomain of it
//	||domain^$dnstype=TYPE    the same, only for questions of type TYPE
//	@@||domain^               exception: never blocked by this rule list
//	domain                    (no anchors) the domain itself; names that merely
//	                          contain the text are ambiguous -> either
func c10RuleMatch(rule, name string, qt uint16) (v c10Verdict, exception bool) {
	r := strings.ToLower(rule)
	if strings.HasPrefix(r, "@@") {
		exception = true
		r = r[2:]
	}
	typ := ""
	if i := strings.Index(r, "$"); i >= 0 {
		mod := r[i+1:]
		r = r[:i]
		if !strings.HasPrefix(mod, "dnstype=") {
			panic(fmt.Errorf("c10 oracle: rule %q is outside the grammar", rule))
		}
		typ = strings.ToUpper(strings.TrimPrefix(mod, "dnstype="))
	}
	if typ != "" {
		want, ok := dns.StringToType[typ]
		if !ok {
			panic(fmt.Errorf("c10 oracle: rule %q: unknown type", rule))
		}
		if want != qt {
			return c10Served, exception
		}
	}
	switch {
	case strings.HasPrefix(r, "||") && strings.HasSuffix(r, "^"):
		dom := r[2 : len(r)-1]
		if name == dom || strings.HasSuffix(name, "."+dom) {
			return c10Blocked, exception
		}

		return c10Served, exception
	case !strings.ContainsAny(r, "|^*/"):
		if name == r {
			return c10Blocked, exception
		}
		if strings.Contains(name, r) {
			return c10Either, exception
		}

		return c10Served, exception
	default:
		panic(fmt.Errorf("c10 oracle: rule %q is outside the grammar", rule))
	}
}

// c10RulesVerdict evaluates a rule list: an exception that applies wins over
// every blocking rule of the same list.
func c10RulesVerdict(rules []string, name string, qt uint16) (v c10Verdict) {
	var defExc, ambExc, defBlk, ambBlk bool
	for _, rule := range rules {
		m, exc := c10RuleMatch(rule, name, qt)
		switch {
		case m == c10Served:
			// The rule does not apply.
		case exc && m == c10Blocked:
			defExc = true
		case exc:
			ambExc = true
		case m == c10Blocked:
			defBlk = true
		default:
			ambBlk = true
		}
	}
	switch {
	case defExc, !defBlk && !ambBlk:
		return c10Served
	case ambExc:
		return c10Either
	case defBlk:
		return c10Blocked
	default:
		return c10Either
	}
}

func c10InNets(nets []string, ip netip.Addr) bool {
	for _, n := range nets {
		if netip.MustParsePrefix(n).Contains(ip) {
			return true
		}
	}

	return false
}

func c10InASNs(asns []uint32, asn uint32) bool {
	if asn == 0 {
		// GeoIP has no data about the client: no ASN rule can apply.
		return false
	}
	for _, a := range asns {
		if a == asn {
			return true
		}
	}

	return false
}

// c10Decide is the access decision demanded by the statement for request q
// under configuration conf.  reason names the clause.
func c10Decide(conf c10Config, q c10Query) (v c10Verdict, reason string) {
	// A v4-mapped v6 form denotes the v4 client.
	ip := netip.MustParseAddr(q.Client).Unmap()
	name := strings.ToLower(strings.TrimSuffix(q.Name, "."))

	if c10InNets(conf.GNets, ip) {
		return c10Blocked, "global-subnet"
	}
	either := false
	switch c10RulesVerdict(conf.GRules, name, q.QType) {
	case c10Blocked:
		return c10Blocked, "global-name"
	case c10Either:
		either = true
	}

	// The profile clauses apply only to a request that is served as its
	// profile's: not when the device lookup failed or the authentication
	// failed (then no profile is known and only the global clauses apply).
	if conf.Prof == "cfg" && !q.Anonymous && conf.profileKnown() {
		pa := conf.PA
		allowed := c10InNets(pa.AllowedNets, ip) || c10InASNs(pa.AllowedASN, q.ASN)
		if !allowed {
			if c10InNets(pa.BlockedNets, ip) {
				return c10Blocked, "profile-subnet"
			}
			if c10InASNs(pa.BlockedASN, q.ASN) {
				return c10Blocked, "profile-asn"
			}
		}
		switch c10RulesVerdict(pa.Rules, name, q.QType) {
		case c10Blocked:
			return c10Blocked, "profile-name"
		case c10Either:
			either = true
		}
	}
	if either {
		return c10Either, "ambiguous-rule"
	}

	return c10Served, "none"
}
