//go:build verif

package zzverifc10

import (
	"fmt"
	"os"
	"path/filepath"
	"strings"
	"testing"

	"github.com/AdguardTeam/AdGuardDNS/internal/agd"
	"github.com/AdguardTeam/AdGuardDNS/internal/profiledb"

	"github.com/AdguardTeam/AdGuardDNS/internal/dnsserver/zzverif/vrt"
	"github.com/miekg/dns"
)

// ---- Alphabet ---------------------------------------------------------------
//
// Networks (documentation ranges):
//
//	198.51.100.0/24, 2001:db8:bad::/48   globally blocked
//	203.0.113.0/24,  2001:db8:b::/48     blocked by the profile
//	203.0.113.128/25, 2001:db8:b:a::/64  allowed by the profile (inside its blocked nets)
//	198.51.100.0/25                      allowed by the profile (inside the GLOBAL blocked net)
//	192.0.2.0/24                         allowed by the profile only
//
// ASNs: 64500 blocked, 64501 allowed, 64502 in both lists, 64503 in no list,
// 0 = GeoIP knows nothing about the client.

var (
	c10GNetSets = [][]string{
		nil,
		{"198.51.100.0/24", "2001:db8:bad::/48"},
		// Thorough only: a single host.
		{"198.51.100.7/32"},
	}
	c10GRuleSets = [][]string{
		nil,
		{
			// Mixed case: names and rules are case-insensitive.
			"||GBlocked.Test^",
			"@@||ok.gblocked.test^",
			"||g6.test^$dnstype=AAAA",
			// Unanchored ("domain") form, mixed case.
			"Plain.TEST",
			// An exception in the GLOBAL list must not lift a PROFILE block.
			"@@||sub.pblocked.test^",
		},
		// Thorough only: blocked for every type but AAAA.
		{"||gblocked.test^", "@@||gblocked.test^$dnstype=AAAA"},
	}

	c10PBlockedNets = [][]string{
		nil,
		{"203.0.113.0/24", "2001:db8:b::/48"},
		// Thorough only: everything.
		{"0.0.0.0/0", "::/0"},
	}
	c10PAllowedNets = [][]string{
		nil,
		{"203.0.113.128/25", "198.51.100.0/25", "2001:db8:b:a::/64"},
		// Thorough only.
		{"192.0.2.0/24"},
	}
	c10PBlockedASN = [][]uint32{nil, {64500, 64502}}
	c10PAllowedASN = [][]uint32{nil, {64501, 64502}}
	c10PRuleSets   = [][]string{
		nil,
		{
			"||PBlocked.test^",
			"@@||ok.pblocked.test^",
			"||p6.test^$dnstype=AAAA",
			// An exception in the PROFILE list must not lift a GLOBAL block.
			"@@||gblocked.test^",
			// A name excepted globally may still be blocked by the profile.
			"||ok.gblocked.test^",
			// Unanchored ("domain") form, mixed case.
			"PFlat.Test",
		},
		// Thorough only: upper-case rule with a type, and an unanchored name.
		{"||PBLOCKED.Test^$dnstype=A", "plain.test"},
	}

	c10ClientsQuick = []string{
		"10.0.0.1",        // outside every net
		"198.51.100.7",    // global blocked, inside the profile's allowed /25
		"198.51.100.200",  // global blocked only
		"203.0.113.5",     // profile blocked
		"203.0.113.130",   // profile blocked ∩ allowed
		"2001:db8:b:a::1", // v6: profile blocked ∩ allowed
	}
	c10ClientsMore = []string{
		"192.0.2.9",           // allowed only
		"2001:db8:b::1",       // v6 profile blocked
		"2001:db8:bad::1",     // v6 global blocked
		"::ffff:203.0.113.5",  // v4-mapped form of a profile-blocked client
		"::ffff:198.51.100.7", // v4-mapped form of a globally blocked client
	}

	c10ASNsQuick = []uint32{0, 64500, 64501, 64502}
	c10ASNsMore  = []uint32{64503}

	c10NamesQuick = []string{
		"clean.test.",
		"gblocked.test.",
		"Sub.GBlocked.TEST.",
		"ok.gblocked.test.",
		"g6.test.",
		"pblocked.test.",
		"sub.pblocked.test.",
		"p6.test.",
		"plain.test.",
		"pflat.test.",
	}
	c10NamesMore = []string{
		"sub.gblocked.test.",
		"ok.pblocked.test.",
		"notgblocked.test.", // "||gblocked.test^" anchors at a label boundary
		"x.plain.test.",     // contains the text of the unanchored rule: ambiguous
		"ads.test.",         // blocked by the ordinary filter, i.e. processed normally
	}

	c10QTypesQuick = []uint16{dns.TypeA, dns.TypeAAAA}
	c10QTypesMore  = []uint16{dns.TypeHTTPS}

	// ECS options of the second part: the option's address lies in a network
	// whose GeoIP ASN is on the profile's blocked / allowed list.  The
	// statement speaks about the CLIENT's ASN only.
	c10ECS = []string{"100.70.0.0/24", "100.71.0.0/24"}

	// Malformed ECS options of the third part.
	c10BadECS = []string{c10ECSBadFamily, c10ECSBadLen, c10ECSBadBits}
	c10Protos = []string{"dns", "dot"}
)

// c10Case is one (configuration, request) pair.
type c10Case struct {
	Conf c10Config `json:"conf"`
	Q    c10Query  `json:"q"`
}

// c10Configs enumerates the access configurations, simplest first.
func c10Configs(thorough bool) (confs []c10Config) {
	lim := func(n, quick int) int {
		if thorough {
			return n
		}

		return quick
	}
	var profs []c10Config
	profs = append(profs, c10Config{Prof: "none"}, c10Config{Prof: "empty"})
	for _, rules := range c10PRuleSets[:lim(len(c10PRuleSets), 2)] {
		for _, aasn := range c10PAllowedASN {
			for _, basn := range c10PBlockedASN {
				for _, anets := range c10PAllowedNets[:lim(len(c10PAllowedNets), 2)] {
					for _, bnets := range c10PBlockedNets[:lim(len(c10PBlockedNets), 2)] {
						profs = append(profs, c10Config{Prof: "cfg", PA: c10ProfAccess{
							AllowedNets: anets, BlockedNets: bnets, AllowedASN: aasn, BlockedASN: basn, Rules: rules,
						}})
					}
				}
			}
		}
	}
	for _, grules := range c10GRuleSets[:lim(len(c10GRuleSets), 2)] {
		for _, gnets := range c10GNetSets[:lim(len(c10GNetSets), 2)] {
			for _, p := range profs {
				p.GNets, p.GRules = gnets, grules
				confs = append(confs, p)
			}
		}
	}

	return confs
}

// ---- Reference observations (stack with empty access settings) ---------------

var c10RefCache = map[string]*c10Obs{}

// c10Reference returns what request q produces on a fresh stack without any
// access settings (empty global lists; the same profile, if any, with
// access.EmptyProfile).
func c10Reference(of c10Config, q c10Query) (o *c10Obs) {
	// The same world (profile presence, message configuration, device lookup
	// behaviour) without any access settings.
	conf := c10Config{Prof: "none", Msg: of.Msg, DB: of.DB}
	if of.Prof != "none" {
		conf.Prof = "empty"
	}
	key := fmt.Sprintf("%s|%s|%s|%+v", conf.Prof, conf.Msg, conf.DB, q)
	if o = c10RefCache[key]; o != nil {
		return o
	}
	o = c10NewStack(conf).serve(q, c10ReqID)
	switch {
	case len(o.Writes) == 1 && (o.Err == "" || q.malformedECS()):
		// Processed normally.
	case conf.DB == "error" && conf.Prof != "none" && !q.Anonymous && len(o.Writes) == 0 && o.Err != "":
		// A failed device lookup makes the handler return the error (the
		// server then answers SERVFAIL).
	default:
		vrt.Fatalf("reference stack does not process %+v normally: %s", q, o)
	}
	c10RefCache[key] = o

	return o
}

const c10ReqID = 4242

// c10Noted remembers which example observations went into the evidence notes.
var c10Noted = map[string]bool{}

// c10Run runs one case on fresh real objects.
func c10Run(r *vrt.Run, c c10Case) (fs []vrt.Finding) {
	return c10RunOn(r, c, c10NewStack(c.Conf))
}

// c10RunOn checks request c.Q on the given fresh stack, which must implement
// configuration c.Conf.
func c10RunOn(r *vrt.Run, c c10Case, s *c10Stack) (fs []vrt.Finding) {
	want, reason := c10Decide(c.Conf, c.Q)
	o := s.serve(c.Q, c10ReqID)
	r.Trans(1)

	dropped := len(o.Writes) == 0
	outcome := "dropped"
	if !dropped {
		outcome = "answered"
	}
	ecs := ""
	if c.Q.malformedECS() {
		ecs = "+malformed-ecs"
	} else if c.Q.ECS != "" {
		ecs = "+ecs"
	}
	variant := ""
	if c.Conf.Msg != "" {
		variant += "+msg-" + c.Conf.Msg
	}
	if c.Conf.DB != "" {
		variant += "+db-" + c.Conf.DB
	}
	if c.Q.Ctx != "" {
		variant += "+ctx-" + c.Q.Ctx
	}
	r.Class(fmt.Sprintf("%s/%s/%s%s/prof-%s%s -> %s", want, reason, c.Q.Proto, ecs, c.Conf.Prof, variant, outcome))
	r.State(fmt.Sprintf("%s|%s|%s", want, reason, o))

	if k := want.String() + "/" + c.Conf.Prof; !c10Noted[k] && c.Conf.Prof != "empty" {
		c10Noted[k] = true
		r.Note("example %s: %s => %s", k, c10Desc(c), o)
	}

	traceless := dropped && o.Err == "" && len(o.Touched) == 0 && o.Cached == 0

	switch want {
	case c10Blocked:
		if o.AutoDevices > 0 {
			// Not a verdict: see c10Rec.AutoDevice.
			r.Count("hint:automatic-device-created-by-a-dropped-request", 1)
			if !c10Noted["autodev"] {
				c10Noted["autodev"] = true
				r.Note("hint (not a verdict): DoT requests with a human-readable device id that are then dropped by the access check (all clauses, incl. global subnet and global name) had profiledb.Interface.CreateAutoDevice called for them by the device finder, which runs before the access check; counted in hint:automatic-device-created-by-a-dropped-request")
			}
		}
		if c.Conf.DB == "error" && !c.Q.Anonymous && c.Conf.Prof != "none" && (!dropped || o.Err != "") {
			// One key of its own: the device lookup runs, and its error is
			// returned, before the access check.
			fs = append(fs, vrt.F("access/blocked-request-with-failed-device-lookup-answered",
				"%s must be dropped (%s) without any response, but the profile database error of its device lookup is returned by the handler (the server answers SERVFAIL, serverbase.go serveDNSMsgInternal): response writer got %q, handler error %q",
				c10Desc(c), reason, o.Writes, o.Err)...)
		} else if c.Q.malformedECS() && (!dropped || o.Err != "") {
			// One key of its own: the answer comes from the handling of the
			// ECS option, which runs before the access check.
			fs = append(fs, vrt.F("access/blocked-request-with-malformed-ecs-answered",
				"%s must be dropped (%s) without any response, but its malformed ECS option is answered: response writer got %q, handler error %q",
				c10Desc(c), reason, o.Writes, o.Err)...)
		} else if !dropped {
			fs = append(fs, vrt.F("access/blocked-request-answered",
				"%s must be dropped (%s) but the response writer got %q", c10Desc(c), reason, o.Writes)...)
		}
		if o.Err != "" && !c.Q.malformedECS() && c.Conf.DB != "error" {
			fs = append(fs, vrt.F("access/blocked-request-returns-error",
				"%s must be dropped (%s) but the handler returned the error %q, which the server answers with SERVFAIL",
				c10Desc(c), reason, o.Err)...)
		}
		if len(o.Touched) > 0 {
			fs = append(fs, vrt.F("access/blocked-request-reached-later-stage",
				"%s must be dropped (%s) but reached %v\n   recorded: %s", c10Desc(c), reason, o.Touched, o.Rec)...)
		}
		if o.Cached != 0 {
			fs = append(fs, vrt.F("access/blocked-request-cached",
				"%s must be dropped (%s) but the caches hold %d item(s) afterwards", c10Desc(c), reason, o.Cached)...)
		}

		// Follow-up: the identical question from an unblocked anonymous
		// client (global lists switched to a real empty access.Global for
		// this one request) must be processed as on a fresh stack: in
		// particular it reaches upstream, i.e. nothing was cached.
		probe := c10Query{Client: c10ProbeClient, Name: c.Q.Name, QType: c.Q.QType, Proto: c.Q.Proto, Anonymous: true}
		s.am.cur = s.empty
		po := s.serve(probe, c10ReqID)
		r.Trans(1)
		ref := c10Reference(c.Conf, probe)
		if po.String() != ref.String() {
			fs = append(fs, vrt.F("access/blocked-request-left-trace",
				"after the dropped %s the identical question from an unblocked client is processed differently from a fresh stack\n   after : %s\n   fresh : %s",
				c10Desc(c), po, ref)...)
		}
	case c10Served:
		if c.Q.Ctx != "" {
			// An unblocked request whose context is dead may get nothing, an
			// error or a response: not judged.
			break
		}
		ref := c10Reference(c.Conf, c.Q)
		switch {
		case o.String() == ref.String():
			// Processed normally.
		case dropped && len(o.Touched) == 0:
			fs = append(fs, vrt.F("access/unblocked-request-dropped",
				"no rule rejects %s but it was dropped (err=%q); without access settings: %s", c10Desc(c), o.Err, ref)...)
		default:
			fs = append(fs, vrt.F("access/unblocked-request-processed-differently",
				"no rule rejects %s but it is not processed like on a stack without access settings\n   got : %s\n   want: %s",
				c10Desc(c), o, ref)...)
		}
	case c10Either:
		if c.Q.Ctx != "" {
			break
		}
		ref := c10Reference(c.Conf, c.Q)
		if !traceless && o.String() != ref.String() {
			fs = append(fs, vrt.F("access/request-neither-dropped-nor-processed-normally",
				"%s (rule meaning ambiguous, both outcomes accepted) is neither dropped without a trace nor processed normally\n   got : %s\n   want: %s",
				c10Desc(c), o, ref)...)
		}
	}

	return fs
}

func c10Desc(c c10Case) string {
	q := c.Q
	var conf []string
	if len(c.Conf.GNets) > 0 {
		conf = append(conf, fmt.Sprintf("global nets %v", c.Conf.GNets))
	}
	if len(c.Conf.GRules) > 0 {
		conf = append(conf, fmt.Sprintf("global rules %q", c.Conf.GRules))
	}
	switch c.Conf.Prof {
	case "cfg":
		conf = append(conf, fmt.Sprintf("profile access %+v", c.Conf.PA))
	default:
		conf = append(conf, "profile "+c.Conf.Prof)
	}
	if c.Conf.Msg != "" {
		conf = append(conf, "profile message configuration invalid: "+c.Conf.Msg)
	}
	if c.Conf.DB != "" {
		conf = append(conf, "device lookup: "+c.Conf.DB)
	}

	ecs := ""
	if q.ECS != "" {
		ecs = " with ECS " + q.ECS
	}
	if q.SNI != "" {
		ecs += " with TLS server name " + q.SNI
	}
	if q.Ctx != "" {
		ecs += " with context " + q.Ctx
	}

	return fmt.Sprintf("request %s %s%s from %s (ASN %d) over %s [%s]",
		q.Name, dns.Type(q.QType), ecs, q.Client, q.ASN, q.Proto, strings.Join(conf, "; "))
}

func TestVerifC10(t *testing.T) {
	r := vrt.Start("C10")
	c10Init()

	thorough := r.Thorough()
	confs := c10Configs(thorough)
	clients, asns, names, qtypes := c10ClientsQuick, c10ASNsQuick, c10NamesQuick, c10QTypesQuick
	if thorough {
		qtypes = append(append([]uint16{}, qtypes...), c10QTypesMore...)
		clients = append(append([]string{}, clients...), c10ClientsMore...)
		asns = append(append([]uint32{}, asns...), c10ASNsMore...)
		names = append(append([]string{}, names...), c10NamesMore...)
	}
	r.Bound("configurations", len(confs))
	r.Bound("clients", len(clients))
	r.Bound("asns", len(asns))
	r.Bound("names", len(names))
	r.Bound("qtypes", len(qtypes))
	r.Bound("ecs_options_part2", len(c10ECS))
	r.Bound("protocols", len(c10Protos))

	vrt.Part(r, "access",
		func(emit func(c10Case)) {
			for _, conf := range confs {
				for _, proto := range c10Protos {
					for _, name := range names {
						for _, qt := range qtypes {
							for _, cl := range clients {
								for _, asn := range asns {
									emit(c10Case{Conf: conf, Q: c10Query{
										Client: cl, ASN: asn, Name: name, QType: qt, Proto: proto,
									}})
								}
							}
						}
					}
				}
			}
		},
		func(c c10Case) []vrt.Finding { return c10Run(r, c) },
	)

	// Part 2: requests that carry an EDNS Client Subnet option from a network
	// in a blocked / an allowed ASN; the decision must depend on the client's
	// own address and ASN only.
	vrt.Part(r, "ecs",
		func(emit func(c10Case)) {
			for _, conf := range confs {
				for _, proto := range c10Protos {
					for _, ecs := range c10ECS {
						for _, cl := range clients {
							for _, asn := range asns {
								emit(c10Case{Conf: conf, Q: c10Query{
									Client: cl, ASN: asn, Name: "clean.test.", QType: dns.TypeA, Proto: proto, ECS: ecs,
								}})
							}
						}
					}
				}
			}
		},
		func(c c10Case) []vrt.Finding { return c10Run(r, c) },
	)

	// Part 3: malformed EDNS Client Subnet options.  The statement makes no
	// exception for them: a blocked request receives no response at all, also
	// when its ECS option is malformed; a request that no rule rejects is
	// processed as without access settings (FORMERR).
	badNames := []string{"clean.test.", "gblocked.test.", "pblocked.test."}
	r.Bound("malformed_ecs_options_part3", len(c10BadECS))
	vrt.Part(r, "badecs",
		func(emit func(c10Case)) {
			for _, conf := range confs {
				for _, proto := range c10Protos {
					for _, ecs := range c10BadECS {
						for _, name := range badNames {
							for _, cl := range clients {
								for _, asn := range asns {
									emit(c10Case{Conf: conf, Q: c10Query{
										Client: cl, ASN: asn, Name: name, QType: dns.TypeA, Proto: proto, ECS: ecs,
									}})
								}
							}
						}
					}
				}
			}
		},
		func(c c10Case) []vrt.Finding { return c10Run(r, c) },
	)

	// Parts 5-7 use a reduced product: global lists {empty, full} x every
	// profile configuration x (name, type) pairs x client x ASN.
	var redConfs []c10Config
	for _, conf := range confs {
		fullG := len(conf.GNets) == 2 && len(conf.GRules) == len(c10GRuleSets[1])
		if conf.Prof != "none" && ((conf.GNets == nil && conf.GRules == nil) || fullG) {
			redConfs = append(redConfs, conf)
		}
	}
	r.Bound("reduced_configurations_parts5to7", len(redConfs))

	// Part 5: the found profile's message constructor cannot be built
	// (negative filtered-response TTL, nil blocking mode).  The profile is
	// still the request's profile: verdicts as with a valid configuration.
	for _, msg := range []string{"negttl", "nilmode"} {
		vrt.Part(r, "badmsg-"+msg, c10VariantGen(redConfs, clients, asns, func(c *c10Case) bool {
			c.Conf.Msg = msg

			return true
		}), func(c c10Case) []vrt.Finding { return c10Run(r, c) })
	}

	// Part 6: the device lookup fails (profile database error) or the device
	// fails authentication: no profile is known, the global clauses still
	// apply and a blocked request still gets no response.
	for _, db := range []string{"error", "authfail"} {
		vrt.Part(r, "devfail-"+db, c10VariantGen(redConfs, clients, asns, func(c *c10Case) bool {
			c.Conf.DB = db

			return true
		}), func(c c10Case) []vrt.Finding { return c10Run(r, c) })
	}

	// Part 7: automatic devices: DoT requests with a human-readable device id
	// of a profile with the feature enabled; the new device belongs to the
	// profile, so all clauses apply.
	vrt.Part(r, "autodev", c10VariantGen(redConfs, clients, asns, func(c *c10Case) bool {
		c.Conf.DB = "auto"
		c.Q.SNI = c10HumanSNI

		return c.Q.Proto == "dot"
	}), func(c c10Case) []vrt.Finding { return c10Run(r, c) })

	// Part ctx: the request's context is dead at the access check (cancelled
	// or past its deadline on entry, or during the device lookup).  A request
	// that the global or its profile's access settings reject gets no
	// response and reaches no later stage whatever the state of its context;
	// unblocked requests with a dead context are not judged.
	r.Bound("context_kinds", len(c10CtxKinds))
	for _, kind := range c10CtxKinds {
		vrt.Part(r, "ctx-"+kind, c10VariantGen(redConfs, clients, asns, func(c *c10Case) bool {
			c.Q.Ctx = kind

			return true
		}), func(c c10Case) []vrt.Finding { return c10Run(r, c) })
	}

	// Part 4: the profile survives a restart.  The profile object is used by
	// requests, written to the profile database's real file cache, loaded
	// back, and must then give every request the same fate.
	dir, err := os.MkdirTemp("/dev/shm", "verif-c10-")
	if err != nil {
		dir = t.TempDir()
	}
	var fcConfs []c10Config
	for _, conf := range confs {
		if conf.Prof != "none" && conf.GNets == nil && conf.GRules == nil {
			fcConfs = append(fcConfs, conf)
		}
	}
	fcReqs := c10FileCacheRequests(thorough)
	r.Bound("filecache_configurations", len(fcConfs))
	r.Bound("filecache_uses", len(c10FileCacheUses))
	r.Bound("filecache_requests_per_case", len(fcReqs))
	vrt.Part(r, "filecache",
		func(emit func(c10FCCase)) {
			for _, conf := range fcConfs {
				for _, use := range c10FileCacheUses {
					emit(c10FCCase{Conf: conf, Use: use})
				}
			}
			// A negative filtered-response TTL is copied through the file
			// cache unvalidated; the loaded profile must still apply its
			// access settings.
			for _, conf := range fcConfs {
				conf.Msg = "negttl"
				for _, use := range []string{"unused", "clean-name"} {
					emit(c10FCCase{Conf: conf, Use: use})
				}
			}
		},
		func(c c10FCCase) []vrt.Finding { return c10RunFileCache(r, c, dir, fcReqs) },
	)
	_ = os.RemoveAll(dir)

	// Part 8: the real file-based GeoIP database.
	c10gPart(r)

	r.Finish()
	os.Exit(0)
}

// c10VariantPairs are the (name, type) pairs of the reduced parts.
var c10VariantPairs = []struct {
	name string
	qt   uint16
}{
	{"clean.test.", dns.TypeA}, {"gblocked.test.", dns.TypeA}, {"g6.test.", dns.TypeAAAA},
	{"pblocked.test.", dns.TypeA}, {"p6.test.", dns.TypeAAAA},
}

// c10VariantGen enumerates configuration x protocol x (name, type) x client x
// ASN; mod turns the case into the variant of the part or rejects it.
func c10VariantGen(confs []c10Config, clients []string, asns []uint32, mod func(c *c10Case) bool) func(emit func(c10Case)) {
	return func(emit func(c10Case)) {
		for _, conf := range confs {
			for _, proto := range c10Protos {
				for _, p := range c10VariantPairs {
					for _, cl := range clients {
						for _, asn := range asns {
							c := c10Case{Conf: conf, Q: c10Query{Client: cl, ASN: asn, Name: p.name, QType: p.qt, Proto: proto}}
							if mod(&c) {
								emit(c)
							}
						}
					}
				}
			}
		}
	}
}

// ---- Part filecache -----------------------------------------------------------

// c10FCCase is one (configuration, prior use of the profile object) pair.
type c10FCCase struct {
	Conf c10Config `json:"conf"`

	// Use tells how the profile's access object was used before it was
	// written to the file cache.
	Use string `json:"use"`
}

// c10FileCacheUses are the prior uses; each is one request through the chain.
var c10FileCacheUses = []string{"unused", "blocked-name", "clean-name", "subnet-blocked-client", "clean-name-dot"}

func c10FileCacheUse(use string) (q c10Query, ok bool) {
	switch use {
	case "unused":
		return c10Query{}, false
	case "blocked-name":
		return c10Query{Client: "10.0.0.1", Name: "pblocked.test.", QType: dns.TypeA, Proto: "dns"}, true
	case "clean-name":
		return c10Query{Client: "10.0.0.1", Name: "clean.test.", QType: dns.TypeA, Proto: "dns"}, true
	case "subnet-blocked-client":
		return c10Query{Client: "203.0.113.5", Name: "clean.test.", QType: dns.TypeA, Proto: "dns"}, true
	case "clean-name-dot":
		return c10Query{Client: "10.0.0.1", ASN: 64501, Name: "clean.test.", QType: dns.TypeAAAA, Proto: "dot"}, true
	default:
		vrt.Fatalf("bad use %q", use)

		return c10Query{}, false
	}
}

// c10FileCacheRequests is the request alphabet run against the loaded
// profile.
func c10FileCacheRequests(thorough bool) (qs []c10Query) {
	names := []string{"clean.test.", "pblocked.test.", "Sub.PBlocked.TEST.", "ok.pblocked.test.", "p6.test.", "pflat.test."}
	clients := []string{"10.0.0.1", "203.0.113.5", "203.0.113.130"}
	if thorough {
		names = append(names, "gblocked.test.", "ok.gblocked.test.", "ads.test.")
		clients = append(clients, "198.51.100.7", "2001:db8:b::1", "2001:db8:b:a::1", "::ffff:203.0.113.5")
	}
	for _, proto := range c10Protos {
		for _, name := range names {
			for _, qt := range c10QTypesQuick {
				for _, cl := range clients {
					for _, asn := range c10ASNsQuick {
						qs = append(qs, c10Query{Client: cl, ASN: asn, Name: name, QType: qt, Proto: proto})
					}
				}
			}
		}
	}

	for _, kind := range []string{"cancelled", "cancel-in-lookup"} {
		for _, proto := range c10Protos {
			for _, name := range []string{"clean.test.", "pblocked.test."} {
				for _, cl := range clients[:3] {
					for _, asn := range []uint32{0, 64500} {
						qs = append(qs, c10Query{Client: cl, ASN: asn, Name: name, QType: dns.TypeA, Proto: proto, Ctx: kind})
					}
				}
			}
		}
	}

	return qs
}

// c10RunFileCache runs one case of part filecache.
func c10RunFileCache(r *vrt.Run, c c10FCCase, dir string, reqs []c10Query) (fs []vrt.Finding) {
	// The profile as the backend loader builds it, served by a chain.
	s1 := c10NewStack(c.Conf)
	if q, ok := c10FileCacheUse(c.Use); ok {
		s1.serve(q, c10ReqID)
		r.Trans(1)
	}

	// Real file cache of the profile database: Store, then Load.
	path := filepath.Join(dir, fmt.Sprintf("profiles-%d.pb", os.Getpid()))
	profs, devs, err := profiledb.VerifC10CacheRoundTrip(path, []*agd.Profile{s1.prof}, []*agd.Device{s1.dev})
	if err != nil {
		vrt.Fatalf("file cache round trip: %v", err)
	}
	if len(profs) != 1 || len(devs) != 1 || profs[0].ID != c10ProfID || devs[0].ID != c10DevID {
		return vrt.F("filecache/profile-lost-after-restart", "configuration %+v, profile %s: the file cache returned %d profile(s) and %d device(s)", c.Conf, c.Use, len(profs), len(devs))
	}
	r.Trans(2)

	seen := map[string]bool{}
	for i, q := range reqs {
		if i > 0 {
			// The first request is the execution counted by vrt.Part.
			r.Eval()
		}
		for _, f := range c10RunOn(r, c10Case{Conf: c.Conf, Q: q}, c10NewStackWith(c.Conf, profs[0], devs[0])) {
			f.Key = "filecache/" + strings.TrimPrefix(f.Key, "access/") + "-after-restart"
			if seen[f.Key] {
				continue
			}
			seen[f.Key] = true
			f.Detail = fmt.Sprintf("profile object used for [%s] before it was written to the profile file cache and loaded back (restart); then: %s", c.Use, f.Detail)
			fs = append(fs, f)
		}
	}

	return fs
}
