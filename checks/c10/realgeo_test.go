//go:build verif

package zzverifc10

import (
	"context"
	"encoding/json"
	"fmt"
	"net/netip"
	"os"
	"path/filepath"

	"github.com/AdguardTeam/AdGuardDNS/internal/agdcache"
	"github.com/AdguardTeam/AdGuardDNS/internal/dnsserver/zzverif/vrt"
	"github.com/AdguardTeam/AdGuardDNS/internal/geoip"
	"github.com/AdguardTeam/golibs/container"
	"github.com/AdguardTeam/golibs/logutil/slogutil"
	"github.com/miekg/dns"
)

// Part realgeo: the chain over the REAL file-based GeoIP database
// (geoip.File with the repository's test databases).  Its Data method returns
// pointers into a long-lived cache (one entry per /24 or /56) and its
// SubnetByLocation method writes to its argument, so a stage behind the access
// check (ecscache) that hands a cached location to SubnetByLocation changes
// the ASN that the access check sees for LATER requests of clients from that
// network.  Two-step (thorough: three-step) histories on ONE stack: other,
// unblocked clients' queries with ECS options pointing into a client's
// network, then that client's query, whose fate must be the oracle's and that
// of the same request on a fresh stack.

// c10gDBs finds the GeoIP test databases of the repository.
func c10gDBs() (asn, country string) {
	dir, err := os.Getwd()
	if err != nil {
		vrt.Fatalf("getwd: %v", err)
	}
	for d := dir; ; d = filepath.Dir(d) {
		p := filepath.Join(d, "internal", "geoip", "testdata")
		if _, err = os.Stat(filepath.Join(p, "GeoIP2-ISP-Test.mmdb")); err == nil {
			return filepath.Join(p, "GeoIP2-ISP-Test.mmdb"), filepath.Join(p, "GeoIP2-City-Test.mmdb")
		}
		if d == filepath.Dir(d) {
			vrt.Fatalf("GeoIP test databases not found above %s", dir)
		}
	}
}

// c10gNewGeo returns a fresh real GeoIP database.  AS29518 (SE, IPv4 networks
// only), AS1221 and AS7922 are "top" ASNs; the top ASN of SE is AS1221, that of
// US is AS7922 (neither is the ASN of the clients below).
func c10gNewGeo() *geoip.File {
	asnPath, ctryPath := c10gDBs()
	f := geoip.NewFile(&geoip.FileConfig{
		Logger:         slogutil.NewDiscardLogger(),
		CacheManager:   agdcache.EmptyManager{},
		AllTopASNs:     container.NewMapSet[geoip.ASN](29518, 1221, 7922, 2516),
		CountryTopASNs: map[geoip.Country]geoip.ASN{geoip.CountrySE: 1221, geoip.CountryUS: 7922, geoip.CountryJP: 2516},
		ASNPath:        asnPath,
		CountryPath:    ctryPath,
		HostCacheCount: 0,
		IPCacheCount:   100,
	})
	if err := f.Refresh(context.Background()); err != nil {
		vrt.Fatalf("geoip refresh: %v", err)
	}

	return f
}

// c10gClient is a client of the databases with the ASN they give it.
type c10gClient struct {
	addr string
	asn  uint32
	// ecs are prefixes inside the client's cache network whose first address
	// has the same database data as the client (IPv4 family and the
	// IPv6-family IPv4-mapped form).
	ecs []string
	// neighbour is another address of the same cache network (/24, /56) with
	// the same database record.
	neighbour string
}

var c10gTargets = []c10gClient{
	{addr: "216.160.83.57", asn: 209, ecs: []string{"216.160.83.56/29", "::ffff:216.160.83.56/125"}, neighbour: "216.160.83.58"},
	{addr: "89.160.20.130", asn: 29518, ecs: []string{"89.160.20.128/25", "::ffff:89.160.20.128/121"}, neighbour: "89.160.20.131"},
	{addr: "1.128.0.5", asn: 1221, ecs: []string{"1.128.0.0/24", "::ffff:1.128.0.0/120"}, neighbour: "1.128.0.6"},
	{addr: "2001:218::1", asn: 0, ecs: []string{"2001:218::/32"}, neighbour: "2001:218::2"},
}

// c10gPrimers are the other clients: neither is in a list of any profile.
var c10gPrimers = []c10gClient{
	{addr: "81.2.69.160", asn: 0},
	{addr: "10.9.8.7", asn: 0},
}

// c10gProfiles are the profile access settings over the real ASNs / networks.
var c10gProfiles = []c10ProfAccess{
	// The clients' ASNs are blocked.
	{BlockedASN: []uint32{209, 29518, 1221}},
	// Their networks are blocked, their ASNs allowed: the override serves them.
	{BlockedNets: []string{"216.160.83.0/24", "89.160.20.0/24", "1.128.0.0/24"}, AllowedASN: []uint32{209, 29518}},
	// The countries' TOP ASNs are blocked, which are not the clients' ASNs
	// (except 1.128.0.5, AS1221; 2001:218::1 is in JP but has no ASN at all).
	{BlockedASN: []uint32{7922, 1221, 2516}},
	// The top ASNs are allowed, the clients' own ASNs blocked.
	{BlockedASN: []uint32{209, 29518}, AllowedASN: []uint32{7922, 1221}},
	// Blocked networks only: GeoIP does not matter.
	{BlockedNets: []string{"216.160.83.0/24"}},
	{},
}

// c10gCase is one history.
type c10gCase struct {
	Conf  c10Config  `json:"conf"`
	Prime []c10Query `json:"prime"`
	Q     c10Query   `json:"q"`
}

// cmp is the observation without the cache size (the history's earlier
// steps fill the cache).
func (o *c10Obs) cmp() string {
	return fmt.Sprintf("writes=%q err=%q %s", o.Writes, o.Err, o.Rec)
}

var c10gGolden = map[string]*c10Obs{}

// c10gFresh is the observation of q alone on a fresh stack over a fresh
// database.
func c10gFresh(conf c10Config, q c10Query) (o *c10Obs) {
	b, _ := json.Marshal(struct {
		C c10Config
		Q c10Query
	}{conf, q})
	if o = c10gGolden[string(b)]; o != nil {
		return o
	}
	o = c10NewStackGeo(conf, nil, nil, c10gNewGeo()).serve(q, c10ReqID)
	c10gGolden[string(b)] = o

	return o
}

// c10gSelfCheck makes sure that the databases say what the alphabet assumes.
func c10gSelfCheck() {
	f := c10gNewGeo()
	for _, cl := range append(append([]c10gClient{}, c10gTargets...), c10gPrimers...) {
		check := func(ipStr string) {
			l, err := f.Data("", netip.MustParseAddr(ipStr))
			if err != nil {
				vrt.Fatalf("geoip data for %s: %v", ipStr, err)
			}
			got := uint32(0)
			if l != nil {
				got = uint32(l.ASN)
			}
			if got != cl.asn {
				vrt.Fatalf("geoip: %s has ASN %d in the test databases, the alphabet assumes %d", ipStr, got, cl.asn)
			}
		}
		check(cl.addr)
		if cl.neighbour != "" {
			check(cl.neighbour)
			a, _ := f.Data("", netip.MustParseAddr(cl.addr))
			b, _ := f.Data("", netip.MustParseAddr(cl.neighbour))
			if (a == nil) != (b == nil) || (a != nil && *a != *b) {
				vrt.Fatalf("geoip: %s and its neighbour %s have different database data: %+v / %+v", cl.addr, cl.neighbour, a, b)
			}
		}
		for _, e := range cl.ecs {
			check(netip.MustParsePrefix(e).Addr().Unmap().String())
		}
	}
}

func c10gRun(r *vrt.Run, c c10gCase) (fs []vrt.Finding) {
	s := c10NewStackGeo(c.Conf, nil, nil, c10gNewGeo())
	var hist []string
	for i, p := range c.Prime {
		po := s.serve(p, uint16(c10ReqID+1+i))
		r.Trans(1)
		ecs := "no ECS"
		if p.ECS != "" {
			ecs = "ECS " + p.ECS
		}
		hist = append(hist, fmt.Sprintf("%s %s from %s over %s (%s) -> %d response(s)", p.Name, dns.Type(p.QType), p.Client, p.Proto, ecs, len(po.Writes)))
	}
	cachedBefore := s.caches.items()
	o := s.serve(c.Q, c10ReqID)
	r.Trans(1)

	want, reason := c10Decide(c.Conf, c.Q)
	fresh := c10gFresh(c.Conf, c.Q)
	dropped := len(o.Writes) == 0
	freshDropped := len(fresh.Writes) == 0 && fresh.Err == "" && len(fresh.Touched) == 0
	if want == c10Either {
		vrt.Fatalf("realgeo: ambiguous request %s in the alphabet", c10Desc(c10Case{Conf: c.Conf, Q: c.Q}))
	}
	if want == c10Served && c.Q.Ctx == "" && freshDropped {
		// Both stacks drop it: the comparison below would not see it.
		fs = append(fs, vrt.F("realgeo/unblocked-request-dropped",
			"no rule rejects %s but it is dropped on a fresh stack over the real GeoIP database: %s", c10Desc(c10Case{Conf: c.Conf, Q: c.Q}), fresh)...)
	}
	outcome := "answered"
	if dropped {
		outcome = "dropped"
	}
	r.Class(fmt.Sprintf("realgeo %s/%s/%s ctx=%q primes=%d -> %s", want, reason, c.Q.Proto, c.Q.Ctx, len(c.Prime), outcome))
	r.State(fmt.Sprintf("realgeo|%v|%s", hist, o.cmp()))

	desc := fmt.Sprintf("%s after the queries of other clients %q on the same stack", c10Desc(c10Case{Conf: c.Conf, Q: c.Q}), hist)
	switch want {
	case c10Blocked:
		if !dropped || o.Err != "" {
			fs = append(fs, vrt.F("realgeo/blocked-request-answered",
				"%s must be dropped (%s), and is dropped on a fresh stack, but got writes=%q err=%q", desc, reason, o.Writes, o.Err)...)
		}
		if len(o.Touched) > 0 || o.Cached != cachedBefore {
			fs = append(fs, vrt.F("realgeo/blocked-request-reached-later-stage",
				"%s must be dropped (%s), and is dropped on a fresh stack, but reached %v (cache items %d -> %d)\n   recorded: %s",
				desc, reason, o.Touched, cachedBefore, o.Cached, o.Rec)...)
		}
	case c10Served:
		switch {
		case c.Q.Ctx != "":
			// Dead context, no rule rejects: not judged.
		case o.cmp() == fresh.cmp():
		case dropped && len(o.Touched) == 0:
			fs = append(fs, vrt.F("realgeo/unblocked-request-dropped",
				"no rule rejects %s, and it is answered on a fresh stack, but it was dropped (err=%q)", desc, o.Err)...)
		default:
			fs = append(fs, vrt.F("realgeo/request-processed-differently-from-fresh-stack",
				"no rule rejects %s, but it is not processed as on a fresh stack\n   got  : %s\n   fresh: %s", desc, o.cmp(), fresh.cmp())...)
		}
	}

	return fs
}

// c10gNeighbourECS are the ECS options of a neighbour's priming queries.
func c10gNeighbourECS(neighbour string) []string {
	if netip.MustParseAddr(neighbour).Is4() {
		return []string{"", "10.9.8.0/24", "2001:db8:77::/48"}
	}

	return []string{"", "2001:db8:77::/48", "10.9.8.0/24"}
}

// c10gPart runs the part.
func c10gPart(r *vrt.Run) {
	c10gSelfCheck()
	var ecsAll []string
	ecsAll = append(ecsAll, "")
	for _, t := range c10gTargets {
		ecsAll = append(ecsAll, t.ecs...)
	}
	ecsAll = append(ecsAll, "81.2.69.160/28")
	maxPrime := vrt.Pick(r, 1, 2)
	r.Bound("realgeo_profiles", len(c10gProfiles))
	r.Bound("realgeo_priming_queries", maxPrime)
	r.Bound("realgeo_priming_alphabet", len(ecsAll)*len(c10gPrimers)+len(c10Protos)*3)
	r.Bound("realgeo_clients", len(c10gTargets))

	var primes []c10Query
	for _, pc := range c10gPrimers {
		for _, e := range ecsAll {
			primes = append(primes, c10Query{Client: pc.addr, ASN: pc.asn, Name: "other.test.", QType: dns.TypeA, Proto: "dns", ECS: e, Anonymous: true})
		}
	}
	vrt.Part(r, "realgeo",
		func(emit func(c10gCase)) {
			for _, pa := range c10gProfiles {
				conf := c10Config{Prof: "cfg", PA: pa}
				for _, proto := range c10Protos {
					for _, t := range c10gTargets {
						for _, kind := range []string{"", "cancelled", "cancel-in-lookup"} {
							q := c10Query{Client: t.addr, ASN: t.asn, Name: "clean.test.", QType: dns.TypeA, Proto: proto, Ctx: kind}
							// Queries of an anonymous NEIGHBOUR of the client (same
							// cache network, same database record), which no rule
							// rejects: without ECS, with an ECS option whose network
							// has no location (the client's location is then used),
							// and with an ECS option of the other address family;
							// over every protocol.
							all := append([]c10Query{}, primes...)
							for _, nproto := range c10Protos {
								for _, e := range c10gNeighbourECS(t.neighbour) {
									all = append(all, c10Query{
										Client: t.neighbour, ASN: t.asn, Name: "other.test.", QType: dns.TypeA, Proto: nproto, ECS: e, Anonymous: true,
									})
								}
							}
							vrt.Sequences(len(all), 1, maxPrime, func(seq []int) {
								c := c10gCase{Conf: conf, Q: q}
								for _, i := range seq {
									c.Prime = append(c.Prime, all[i])
								}
								emit(c)
							})
						}
					}
				}
			}
		},
		func(c c10gCase) []vrt.Finding { return c10gRun(r, c) },
	)
}
