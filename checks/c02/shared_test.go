//go:build verif

package zzverifc02

// C02, shared by both units: comparison of an observed verdict with the
// reference and the enumeration of slot assignments.

import (
	"fmt"
	"sort"
	"strings"

	"github.com/AdguardTeam/AdGuardDNS/internal/dnsserver/zzverif/vrt"
)

// c02Compare compares an observed verdict with the acceptable ones and
// returns a finding with a structural key.
func c02Compare(comp, stage string, acc map[string]c02Verdict, kind, src string, ctxt fmt.Stringer) []vrt.Finding {
	if _, ok := acc[kind+"/"+src]; ok {
		return nil
	}
	kinds := map[string]bool{}
	var srcs []string
	for _, v := range acc {
		kinds[v.Kind] = true
		if v.Kind == kind {
			srcs = append(srcs, v.Src)
		}
	}
	if kinds[kind] {
		sort.Strings(srcs)

		return vrt.F(fmt.Sprintf("%s/%s-source/%s-by-%s-instead-of-%s", comp, stage, kind, src, strings.Join(srcs, ",")),
			"%s: %s verdict %s/%s, the statement admits only {%s}", ctxt, stage, kind, src, c02Keys(acc))
	}
	var ks []string
	for k := range kinds {
		ks = append(ks, k)
	}
	sort.Strings(ks)

	return vrt.F(fmt.Sprintf("%s/%s-verdict/%s-instead-of-%s", comp, stage, kind, strings.Join(ks, ",")),
		"%s: %s verdict %s/%s, the statement admits only {%s}", ctxt, stage, kind, src, c02Keys(acc))
}

// c02ReqAssignments enumerates request-side slot assignments, simplest first
// (fewest non-empty slots), over the given kinds per slot.
func c02ReqAssignments(kinds [nSlots][]int, maxNonEmpty int, f func(req [nSlots]int)) {
	for n := 0; n <= maxNonEmpty && n <= nSlots; n++ {
		vrt.Odometer([]int{len(kinds[0]), len(kinds[1]), len(kinds[2]), len(kinds[3])}, func(idx []int) {
			var req [nSlots]int
			ne := 0
			for s := 0; s < nSlots; s++ {
				req[s] = kinds[s][idx[s]]
				if req[s] != kNone {
					ne++
				}
			}
			if ne == n {
				f(req)
			}
		})
	}
}


// c02Lazy is a description of a case that is only rendered when a finding is
// reported.
type c02Lazy func() string

func (l c02Lazy) String() string { return l() }
