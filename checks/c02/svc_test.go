//go:build verif

package zzverifc02

// C02, unit 1, part "storage-services": several blocked services per profile
// on a real filterstorage.Default whose result caches are ENABLED as in
// production (blocked-service and rule-list result caches), next to a twin
// storage with the caches off.  Histories of two questions from two profiles
// with different (ordered) sets of enabled services on the same storage.
//
// Reference: the verdict is a function of the requester's settings and the
// question only - an allow rule of the requester's own list beats every block
// rule; otherwise the host is blocked iff one of the services the requester
// has ENABLED blocks it, and the credited service is one of those.

import (
	"context"
	"encoding/json"
	"fmt"
	"net/url"
	"strings"
	"time"

	"github.com/AdguardTeam/AdGuardDNS/internal/agdcache"
	"github.com/AdguardTeam/AdGuardDNS/internal/agdtime"
	"github.com/AdguardTeam/AdGuardDNS/internal/dnsserver/zzverif/vdns"
	"github.com/AdguardTeam/AdGuardDNS/internal/dnsserver/zzverif/vrt"
	"github.com/AdguardTeam/AdGuardDNS/internal/filter"
	"github.com/AdguardTeam/AdGuardDNS/internal/filter/filterstorage"
	"github.com/miekg/dns"
)

// The service index: four services blocking different hosts; ab.svc.test is
// blocked by two of them.
var (
	c02SServices = []string{"svc_a", "svc_b", "svc_c", "svc_d"}
	c02SBlocks   = map[string][]string{
		"svc_a": {"a.svc.test", "ab.svc.test"},
		"svc_b": {"b.svc.test", "ab.svc.test"},
		"svc_c": {"c.svc.test"},
		"svc_d": {"d.svc.test"},
	}
	c02SHosts = []string{"a.svc.test", "b.svc.test", "c.svc.test", "ab.svc.test", "d.svc.test", "none.svc.test"}
)

const (
	c02SAllowList filter.ID = "svc_allow"
	c02SAllowHost           = "ab.svc.test"
)

// c02SProfile is the blocked-service part of a requester's settings.
type c02SProfile struct {
	// Services are the enabled services, in configured order (indexes into
	// c02SServices).
	Services []int `json:"services"`
	// Allow: the shared list allowing ab.svc.test is enabled.
	Allow bool `json:"allow,omitempty"`
}

// c02SStep is one question of a requester.
type c02SStep struct {
	Prof c02SProfile `json:"prof"`
	Host string      `json:"host"`
}

type c02SCase struct {
	Steps []c02SStep `json:"steps"`
}

// c02SAdmitted returns the admitted verdicts "kind/list/rule".
func c02SAdmitted(st c02SStep) (acc map[string]bool) {
	acc = map[string]bool{}
	if st.Prof.Allow && st.Host == c02SAllowHost {
		acc[fmt.Sprintf("%s/%s/@@||%s^", vAllowed, c02SAllowList, c02SAllowHost)] = true

		return acc
	}
	for _, si := range st.Prof.Services {
		svc := c02SServices[si]
		for _, h := range c02SBlocks[svc] {
			if h == st.Host {
				acc[fmt.Sprintf("%s/%s/%s", vBlocked, filter.IDBlockedService, svc)] = true
			}
		}
	}
	if len(acc) == 0 {
		acc[vNone+"/-/"] = true
	}

	return acc
}

// c02SMgr remembers every result cache so that a history starts with empty
// caches.
type c02SMgr struct{ all []agdcache.Clearer }

func (m *c02SMgr) Add(_ string, c agdcache.Clearer) { m.all = append(m.all, c) }
func (m *c02SMgr) ClearByID(_ string)               {}

type c02SRig struct {
	strg *filterstorage.Default
	mgr  *c02SMgr
	errs *c02MErrColl
}

// c02SNewRig loads a real storage from index files; cached says whether the
// blocked-service and rule-list result caches are enabled (production: yes).
func c02SNewRig(dir string, cached bool) (rig *c02SRig) {
	rig = &c02SRig{mgr: &c02SMgr{}, errs: &c02MErrColl{}}
	type idxSvc struct {
		ID    string   `json:"id"`
		Rules []string `json:"rules"`
	}
	var svcs []idxSvc
	for _, s := range c02SServices {
		var rules []string
		for _, h := range c02SBlocks[s] {
			rules = append(rules, "||"+h+"^")
		}
		svcs = append(svcs, idxSvc{ID: s, Rules: rules})
	}
	b, _ := json.Marshal(map[string]any{"blocked_services": svcs})
	c02MWrite(dir, "services.json", string(b))
	b, _ = json.Marshal(map[string]any{"filters": []map[string]string{
		{"filterKey": string(c02SAllowList), "downloadUrl": "http://lists.invalid/" + string(c02SAllowList)},
	}})
	c02MWrite(dir, "filters.json", string(b))
	c02MWrite(dir, string(c02SAllowList), "@@||"+c02SAllowHost+"^\n")

	const long = 1000 * time.Hour
	off := func(id filter.ID) *filterstorage.ConfigSafeSearch {
		return &filterstorage.ConfigSafeSearch{ID: id, Enabled: false}
	}
	var err error
	rig.strg, err = filterstorage.New(&filterstorage.Config{
		BaseLogger: c02MLogger,
		Logger:     c02MLogger,
		BlockedServices: &filterstorage.ConfigBlockedServices{
			IndexURL:            &url.URL{Scheme: "http", Host: "lists.invalid", Path: "/services.json"},
			IndexMaxSize:        1 << 20,
			IndexRefreshTimeout: time.Second,
			IndexStaleness:      long,
			ResultCacheCount:    100,
			ResultCacheEnabled:  cached,
			Enabled:             true,
		},
		Custom:     &filterstorage.ConfigCustom{CacheCount: 16},
		HashPrefix: &filterstorage.ConfigHashPrefix{},
		RuleLists: &filterstorage.ConfigRuleLists{
			IndexURL:            &url.URL{Scheme: "http", Host: "lists.invalid", Path: "/filters.json"},
			IndexMaxSize:        1 << 20,
			MaxSize:             1 << 20,
			IndexRefreshTimeout: time.Second,
			IndexStaleness:      long,
			RefreshTimeout:      time.Second,
			Staleness:           long,
			ResultCacheCount:    100,
			ResultCacheEnabled:  cached,
		},
		SafeSearchGeneral: off(filter.IDGeneralSafeSearch),
		SafeSearchYouTube: off(filter.IDYoutubeSafeSearch),
		CacheManager:      rig.mgr,
		Clock:             agdtime.SystemClock{},
		ErrColl:           rig.errs,
		Metrics:           filter.EmptyMetrics{},
		CacheDir:          dir,
	})
	if err != nil {
		vrt.Fatalf("filterstorage.New (services): %v", err)
	}
	if err = rig.strg.RefreshInitial(context.Background()); err != nil {
		vrt.Fatalf("filterstorage RefreshInitial (services): %v", err)
	}
	if len(rig.errs.errs) > 0 || !rig.strg.HasListID(c02SAllowList) {
		vrt.Fatalf("filterstorage RefreshInitial (services): errors %v", rig.errs.errs)
	}

	return rig
}

func (rig *c02SRig) clear() {
	for _, c := range rig.mgr.all {
		c.Clear()
	}
	rig.errs.errs = rig.errs.errs[:0]
}

// ask returns the verdict "kind/list/rule" of one question.
func (rig *c02SRig) ask(st c02SStep) (obs string) {
	par := &filter.ConfigParental{Enabled: len(st.Prof.Services) > 0}
	for _, si := range st.Prof.Services {
		par.BlockedServices = append(par.BlockedServices, filter.BlockedServiceID(c02SServices[si]))
	}
	rls := &filter.ConfigRuleList{}
	if st.Prof.Allow {
		rls.IDs, rls.Enabled = []filter.ID{c02SAllowList}, true
	}
	fc := &filter.ConfigClient{Custom: &filter.ConfigCustom{}, Parental: par, RuleList: rls, SafeBrowsing: &filter.ConfigSafeBrowsing{}}
	var res filter.Result
	var err error
	ctx := context.Background()
	if p := vrt.Catch(func() {
		res, err = rig.strg.ForConfig(ctx, fc).FilterRequest(ctx, &filter.Request{
			DNS:      vdns.NewReq(4321, dns.Fqdn(st.Host), dns.TypeA, dns.ClassINET),
			Messages: nil, RemoteIP: c02MClient.Addr(), Host: st.Host, QType: dns.TypeA, QClass: dns.ClassINET,
		})
	}); p != "" {
		return "panic/" + p
	}
	if err != nil || len(rig.errs.errs) > 0 {
		return fmt.Sprintf("error/%v %v", err, rig.errs.errs)
	}
	switch res := res.(type) {
	case nil:
		return vNone + "/-/"
	case *filter.ResultAllowed:
		return fmt.Sprintf("%s/%s/%s", vAllowed, res.List, res.Rule)
	case *filter.ResultBlocked:
		return fmt.Sprintf("%s/%s/%s", vBlocked, res.List, res.Rule)
	default:
		id, rule := res.MatchedRule()

		return fmt.Sprintf("%T/%s/%s", res, id, rule)
	}
}

func c02SRun(r *vrt.Run, warm, ref *c02SRig, c c02SCase) (fs []vrt.Finding) {
	warm.clear()
	var log []string
	for i, st := range c.Steps {
		got := warm.ask(st)
		ref.clear()
		want := ref.ask(st)
		r.Trans(2)
		var names []string
		for _, si := range st.Prof.Services {
			names = append(names, c02SServices[si])
		}
		log = append(log, fmt.Sprintf("profile{services=[%s] allow-list=%v} A %s -> %s", strings.Join(names, ","), st.Prof.Allow, st.Host, got))
		acc := c02SAdmitted(st)
		var ks []string
		for k := range acc {
			ks = append(ks, k)
		}
		kind := strings.SplitN(got, "/", 2)[0]
		switch {
		case kind == "panic" || kind == "error":
			fs = append(fs, vrt.F("storage-services/"+kind,
				"question %d of the history [%s] on a storage with the production result caches: admitted {%s}", i+1, strings.Join(log, "; "), strings.Join(ks, " | "))...)
		case !acc[got]:
			wk := "none"
			for k := range acc {
				wk = strings.SplitN(k, "/", 2)[0]
			}
			key := fmt.Sprintf("storage-services/%s-instead-of-%s", kind, wk)
			if kind == wk {
				key = "storage-services/credited-service-not-an-enabled-one-blocking-the-host"
			}
			fs = append(fs, vrt.F(key,
				"question %d of the history [%s] on a storage with the production result caches: the requester's settings admit only {%s}; the storage with result caches off says %s",
				i+1, strings.Join(log, "; "), strings.Join(ks, " | "), want)...)
		}
		if !acc[want] {
			fs = append(fs, vrt.F("storage-services/cache-off-verdict-not-admitted",
				"profile{services=%v allow=%v} A %s on a storage with result caches off: %s, admitted {%s}", names, st.Prof.Allow, st.Host, want, strings.Join(ks, " | "))...)
		}
		r.Class("services:" + c02rKindListSvc(got))
	}
	r.State("s|" + strings.Join(log, ";"))

	return fs
}

func c02rKindListSvc(obs string) string {
	p := strings.SplitN(obs, "/", 3)
	if len(p) < 2 {
		return obs
	}

	return p[0] + "/" + p[1]
}

// c02SProfiles enumerates every ordered selection of at most max services,
// without and with the allow list.
func c02SProfiles(max int) (ps []c02SProfile) {
	var rec func(cur []int)
	rec = func(cur []int) {
		for _, allow := range []bool{false, true} {
			ps = append(ps, c02SProfile{Services: append([]int{}, cur...), Allow: allow})
		}
		if len(cur) == max {
			return
		}
		for s := range c02SServices {
			used := false
			for _, c := range cur {
				used = used || c == s
			}
			if !used {
				rec(append(cur, s))
			}
		}
	}
	rec(nil)

	return ps
}

func c02SPart(r *vrt.Run, dirWarm, dirRef string) {
	warm, ref := c02SNewRig(dirWarm, true), c02SNewRig(dirRef, false)
	max := vrt.Pick(r, 2, 3)
	ps := c02SProfiles(max)
	var steps []c02SStep
	for _, p := range ps {
		for _, h := range c02SHosts {
			steps = append(steps, c02SStep{Prof: p, Host: h})
		}
	}
	r.Bound("services_in_index", len(c02SServices))
	r.Bound("services_max_enabled_per_profile", max)
	r.Bound("services_profiles", len(ps))
	r.Bound("services_history_depth", 2)
	vrt.Part(r, "storage-services", func(emit func(c02SCase)) {
		for _, a := range steps {
			emit(c02SCase{Steps: []c02SStep{a}})
		}
		for _, a := range steps {
			for _, b := range steps {
				// A second question only interacts through the caches when it
				// is for the same host.
				if a.Host == b.Host {
					emit(c02SCase{Steps: []c02SStep{a, b}})
				}
			}
		}
	}, func(c c02SCase) []vrt.Finding { return c02SRun(r, warm, ref, c) })
}
