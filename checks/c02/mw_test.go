//go:build verif

package zzverifc02

// C02, unit 1 (tiers b and c).
//
// Tier b: the REAL filterstorage.Default, loaded by its own RefreshInitial
// from index and list files (a library with one shared list per rule kind
// and copy, one blocked service per rule kind, two safe-search lists) and
// given real hashprefix.Filters, is asked ForConfig(client | group | nil) and
// the returned filter is compared with the reference.
//
// Tier c: the real ratelimitmw.Middleware (which builds the requester's
// dnsmsg.Constructor from the profile found by the device finder) in front of
// the real mainmw.Middleware over that storage and a scripted upstream.  The
// message written to the client is compared with what the statement admits.

import (
	"context"
	"encoding/json"
	"fmt"
	"log/slog"
	"net"
	"net/netip"
	"net/url"
	"os"
	"path/filepath"
	"sort"
	"strings"
	"testing"
	"time"

	"github.com/AdguardTeam/AdGuardDNS/internal/access"
	"github.com/AdguardTeam/AdGuardDNS/internal/agd"
	"github.com/AdguardTeam/AdGuardDNS/internal/agdcache"
	"github.com/AdguardTeam/AdGuardDNS/internal/agdtest"
	"github.com/AdguardTeam/AdGuardDNS/internal/agdtime"
	"github.com/AdguardTeam/AdGuardDNS/internal/dnsmsg"
	"github.com/AdguardTeam/AdGuardDNS/internal/dnsserver"
	"github.com/AdguardTeam/AdGuardDNS/internal/dnsserver/zzverif/vdns"
	"github.com/AdguardTeam/AdGuardDNS/internal/dnsserver/zzverif/vrt"
	"github.com/AdguardTeam/AdGuardDNS/internal/dnssvc/internal/mainmw"
	"github.com/AdguardTeam/AdGuardDNS/internal/dnssvc/internal/ratelimitmw"
	"github.com/AdguardTeam/AdGuardDNS/internal/filter"
	"github.com/AdguardTeam/AdGuardDNS/internal/filter/filterstorage"
	"github.com/AdguardTeam/AdGuardDNS/internal/filter/hashprefix"
	"github.com/AdguardTeam/AdGuardDNS/internal/geoip"
	"github.com/AdguardTeam/AdGuardDNS/internal/querylog"
	"github.com/miekg/dns"
)

// ---------------------------------------------------------------------------
// Library of lists

// c02MListID is the id of the shared list of copy cp ("a"/"b") holding the
// given request- and response-side rules.
func c02MListID(cp string, req, resp, target int) filter.ID {
	return filter.ID(fmt.Sprintf("%s_%d_%d_%d", cp, req, resp, target))
}

func c02MSvcID(req, resp, target int) filter.BlockedServiceID {
	return filter.BlockedServiceID(fmt.Sprintf("s_%d_%d_%d", req, resp, target))
}

// c02MCombos enumerates the (resp, target) combinations of one list.
func c02MCombos(f func(resp, target int)) {
	f(rNone, 0)
	for _, t := range []int{tIP, tCNAME} {
		f(rBlock, t)
		f(rAllow, t)
	}
}

type c02MErrColl struct{ errs []error }

func (c *c02MErrColl) Collect(_ context.Context, err error) { c.errs = append(c.errs, err) }

// c02MMgr is the cache manager: it remembers the requester-dependent result
// caches (hash-prefix filters, C12) and the safe-search caches so that they
// can be cleared before every case.
type c02MMgr struct{ keep []agdcache.Clearer }

func (m *c02MMgr) Add(id string, c agdcache.Clearer) {
	if strings.HasPrefix(id, "filters/hashprefix/") || strings.HasPrefix(id, "filters/safe_search/") {
		m.keep = append(m.keep, c)
	}
}

func (m *c02MMgr) ClearByID(_ string) {}

// ---------------------------------------------------------------------------
// Scripted upstream

type c02MUpstream struct {
	cname bool
	// ending says how the request's context ends while upstream resolves:
	// endNone; endCancelBefore / endCancelAfter: cancel is called before /
	// after the answer is written; endDeadline: the answer is written only
	// once the context's deadline has passed.
	ending int
	cancel context.CancelFunc
	asked []string
	// resp is the response given to each asked question, by lower-case name.
	resp map[string]*dns.Msg
}

func (u *c02MUpstream) ServeDNS(ctx context.Context, rw dnsserver.ResponseWriter, req *dns.Msg) (err error) {
	q := req.Question[0]
	resp := &dns.Msg{}
	resp.SetReply(req)
	resp.RecursionAvailable = true
	for _, s := range c02UpstreamAnswer(q.Name, q.Qtype, u.cname) {
		resp.Answer = append(resp.Answer, vdns.MustRR(s))
	}
	name := strings.ToLower(q.Name)
	u.asked = append(u.asked, name)
	u.resp[name] = resp.Copy()

	switch u.ending {
	case endCancelBefore:
		u.cancel()
	case endDeadline:
		<-ctx.Done()
	}
	err = rw.WriteMsg(ctx, req, resp)
	if u.ending == endCancelAfter {
		u.cancel()
	}

	return err
}

// How the request context ends, see [c02MUpstream.ending].
const (
	endNone = iota
	endCancelBefore
	endCancelAfter
	endDeadline
	nEndings
)

var c02EndingName = [nEndings]string{"-", "cancelled-before-upstream-answer", "cancelled-after-upstream-answer", "deadline-during-upstream"}

// c02MDeadline is the request deadline of the endDeadline variant; upstream
// waits for it on ctx.Done(), nothing is asserted about durations.
const c02MDeadline = 3 * time.Millisecond

// ---------------------------------------------------------------------------
// Rig

// Global (server-group) constructor settings: deliberately different from
// every profile's.
const (
	c02MGlobalMode = mREFUSED
	c02MGlobalTTL  = 77
)

// Filtering switches.
const (
	swOn = iota
	swProfileOff
	swDeviceOff
	swAnonymous
	nSwitches
)

var c02SwitchName = [nSwitches]string{"on", "profile-off", "device-off", "anonymous"}

// Profile TTLs: zero (valid: "non-negative"; what the backend's omitted field
// becomes), a small and a large one.
var c02MTTLs = []int{0, 10, 3600}

type c02MRig struct {
	mgr       *c02MMgr
	errs      *c02MErrColl
	strg      *filterstorage.Default
	hashStrg  [nHash]*hashprefix.Storage
	hashText  [nHash]string
	global    *dnsmsg.Constructor

	up      *c02MUpstream
	handler dnsserver.Handler
	group   *agd.FilteringGroup
	device  agd.DeviceResult

	statIDs []filter.ID
	// record / last: see c02MRunKeep.
	record bool
	last   string
	// ending is the way the context of the next query ends.
	ending int
	entries []*querylog.Entry
}

var (
	c02MLogger = slog.New(slog.NewTextHandler(os.Stderr, &slog.HandlerOptions{Level: slog.Level(100)}))
	c02MHashID = [nHash]filter.ID{filter.IDSafeBrowsing, filter.IDAdultBlocking, filter.IDNewRegDomains}
	c02MRepl   = [nHash]string{"192.0.2.66", "192.0.2.67", "192.0.2.68"}
	c02MClient = netip.MustParseAddrPort("192.0.2.200:5353")
	c02MLocal  = &net.UDPAddr{IP: net.IP{127, 0, 0, 1}, Port: 53}
	c02MUpdate = time.Date(2024, 1, 1, 0, 0, 0, 0, time.UTC)
)

func c02MMode(mode int) dnsmsg.BlockingMode {
	switch mode {
	case mNullIP:
		return &dnsmsg.BlockingModeNullIP{}
	case mCustomV4:
		return &dnsmsg.BlockingModeCustomIP{IPv4: []netip.Addr{netip.MustParseAddr(c02CustomV4)}}
	case mCustomV46:
		return &dnsmsg.BlockingModeCustomIP{
			IPv4: []netip.Addr{netip.MustParseAddr(c02CustomV4)},
			IPv6: []netip.Addr{netip.MustParseAddr(c02CustomV6)},
		}
	case mNXDOMAIN:
		return &dnsmsg.BlockingModeNXDOMAIN{}
	case mREFUSED:
		return &dnsmsg.BlockingModeREFUSED{}
	}
	panic("bad mode")
}

func c02MWrite(dir, name, text string) {
	if err := os.WriteFile(filepath.Join(dir, name), []byte(text), 0o644); err != nil {
		vrt.Fatalf("writing %s: %v", name, err)
	}
}

func c02MNewRig(dir string) (rig *c02MRig) {
	rig = &c02MRig{mgr: &c02MMgr{}, errs: &c02MErrColl{}}
	ctx := context.Background()
	sde := agdtest.NewSDEConfig(true)
	cloner := dnsmsg.NewCloner(dnsmsg.EmptyClonerStat{})
	var err error
	rig.global, err = dnsmsg.NewConstructor(&dnsmsg.ConstructorConfig{
		Cloner:              cloner,
		BlockingMode:        c02MMode(c02MGlobalMode),
		StructuredErrors:    sde,
		FilteredResponseTTL: c02MGlobalTTL * time.Second,
		EDEEnabled:          true,
	})
	if err != nil {
		vrt.Fatalf("constructor: %v", err)
	}

	// The library: index files and list files in the cache directory, so that
	// the storage's own RefreshInitial loads everything without network.
	type idxFilter struct {
		DownloadURL string `json:"downloadUrl"`
		Key         string `json:"filterKey"`
	}
	type idxSvc struct {
		ID    string   `json:"id"`
		Rules []string `json:"rules"`
	}
	var filters []idxFilter
	var svcs []idxSvc
	for _, cp := range []string{"b", "a"} {
		for req := 0; req < nKinds; req++ {
			c02MCombos(func(resp, target int) {
				lines := c02ListLines(req, resp, target, cp)
				if len(lines) == 0 {
					return
				}
				id := string(c02MListID(cp, req, resp, target))
				filters = append(filters, idxFilter{DownloadURL: "http://lists.invalid/" + id, Key: id})
				c02MWrite(dir, id, strings.Join(lines, "\n")+"\n")
			})
		}
	}
	for _, req := range c02SvcKinds {
		c02MCombos(func(resp, target int) {
			lines := c02ListLines(req, resp, target, "svc")
			if len(lines) == 0 {
				return
			}
			svcs = append(svcs, idxSvc{ID: string(c02MSvcID(req, resp, target)), Rules: lines})
		})
	}
	b, _ := json.Marshal(map[string]any{"filters": filters})
	c02MWrite(dir, "filters.json", string(b))
	b, _ = json.Marshal(map[string]any{"blocked_services": svcs})
	c02MWrite(dir, "services.json", string(b))
	c02MWrite(dir, string(filter.IDGeneralSafeSearch), c02SSGenText)
	c02MWrite(dir, string(filter.IDYoutubeSafeSearch), c02SSYTText)

	var hp [nHash]*hashprefix.Filter
	for i := 0; i < nHash; i++ {
		rig.hashStrg[i], err = hashprefix.NewStorage("")
		if err != nil {
			vrt.Fatalf("hashprefix.NewStorage: %v", err)
		}
		file := filepath.Join(dir, "hp-"+string(c02MHashID[i]))
		hp[i], err = hashprefix.NewFilter(&hashprefix.FilterConfig{
			Logger:          c02MLogger,
			Cloner:          cloner,
			CacheManager:    rig.mgr,
			Hashes:          rig.hashStrg[i],
			URL:             &url.URL{Scheme: "file", Path: file},
			ErrColl:         rig.errs,
			Metrics:         filter.EmptyMetrics{},
			ID:              c02MHashID[i],
			CachePath:       file,
			ReplacementHost: c02MRepl[i],
			Staleness:       time.Hour,
			CacheTTL:        time.Hour,
			RefreshTimeout:  time.Second,
			CacheCount:      64,
			MaxSize:         1 << 20,
		})
		if err != nil {
			vrt.Fatalf("hashprefix.NewFilter: %v", err)
		}
	}

	const long = 1000 * time.Hour
	ss := func(id filter.ID) *filterstorage.ConfigSafeSearch {
		return &filterstorage.ConfigSafeSearch{
			URL:              &url.URL{Scheme: "http", Host: "lists.invalid", Path: "/" + string(id)},
			ID:               id,
			MaxSize:          1 << 20,
			ResultCacheTTL:   time.Hour,
			RefreshTimeout:   time.Second,
			Staleness:        long,
			ResultCacheCount: 64,
			Enabled:          true,
		}
	}
	rig.strg, err = filterstorage.New(&filterstorage.Config{
		BaseLogger: c02MLogger,
		Logger:     c02MLogger,
		BlockedServices: &filterstorage.ConfigBlockedServices{
			IndexURL:            &url.URL{Scheme: "http", Host: "lists.invalid", Path: "/services.json"},
			IndexMaxSize:        1 << 20,
			IndexRefreshTimeout: time.Second,
			IndexStaleness:      long,
			ResultCacheCount:    16,
			ResultCacheEnabled:  false,
			Enabled:             true,
		},
		Custom:     &filterstorage.ConfigCustom{CacheCount: 1024},
		HashPrefix: &filterstorage.ConfigHashPrefix{Dangerous: hp[hDangerous], Adult: hp[hAdult], NewlyRegistered: hp[hNewly]},
		RuleLists: &filterstorage.ConfigRuleLists{
			IndexURL:            &url.URL{Scheme: "http", Host: "lists.invalid", Path: "/filters.json"},
			IndexMaxSize:        1 << 20,
			MaxSize:             1 << 20,
			IndexRefreshTimeout: time.Second,
			IndexStaleness:      long,
			RefreshTimeout:      time.Second,
			Staleness:           long,
			ResultCacheCount:    16,
			ResultCacheEnabled:  false,
		},
		SafeSearchGeneral: ss(filter.IDGeneralSafeSearch),
		SafeSearchYouTube: ss(filter.IDYoutubeSafeSearch),
		CacheManager:      rig.mgr,
		Clock:             agdtime.SystemClock{},
		ErrColl:           rig.errs,
		Metrics:           filter.EmptyMetrics{},
		CacheDir:          dir,
	})
	if err != nil {
		vrt.Fatalf("filterstorage.New: %v", err)
	}
	if err = rig.strg.RefreshInitial(ctx); err != nil {
		vrt.Fatalf("filterstorage RefreshInitial: %v", err)
	}
	if len(rig.errs.errs) > 0 {
		vrt.Fatalf("filterstorage RefreshInitial collected errors: %v", rig.errs.errs)
	}
	for _, f := range filters {
		if !rig.strg.HasListID(filter.ID(f.Key)) {
			vrt.Fatalf("filterstorage did not load list %s", f.Key)
		}
	}

	// The middlewares.
	rig.up = &c02MUpstream{resp: map[string]*dns.Msg{}}
	rig.group = &agd.FilteringGroup{ID: "grp"}
	main := mainmw.New(&mainmw.Config{
		Cloner:   cloner,
		Logger:   c02MLogger,
		Messages: rig.global,
		BillStat: &agdtest.BillStatRecorder{
			OnRecord: func(_ context.Context, _ agd.DeviceID, _ geoip.Country, _ geoip.ASN, _ time.Time, _ agd.Protocol) {},
		},
		ErrColl:       rig.errs,
		FilterStorage: rig.strg,
		GeoIP: &agdtest.GeoIP{
			OnData: func(_ string, _ netip.Addr) (*geoip.Location, error) { return nil, nil },
		},
		Metrics: mainmw.EmptyMetrics{},
		QueryLog: &agdtest.QueryLog{OnWrite: func(_ context.Context, e *querylog.Entry) error {
			rig.entries = append(rig.entries, e)

			return nil
		}},
		RuleStat: &agdtest.RuleStat{OnCollect: func(_ context.Context, id filter.ID, _ filter.RuleText) {
			rig.statIDs = append(rig.statIDs, id)
		}},
	})
	rl := ratelimitmw.New(&ratelimitmw.Config{
		Logger:           c02MLogger,
		Messages:         rig.global,
		FilteringGroup:   rig.group,
		ServerGroup:      &agd.ServerGroup{},
		Server:           &agd.Server{Name: "srv", Protocol: agd.ProtoDNS},
		StructuredErrors: sde,
		AccessManager: &agdtest.AccessManager{
			OnIsBlockedHost: func(_ string, _ uint16) bool { return false },
			OnIsBlockedIP:   func(_ netip.Addr) bool { return false },
		},
		DeviceFinder: &agdtest.DeviceFinder{
			OnFind: func(_ context.Context, _ *dns.Msg, _, _ netip.AddrPort) agd.DeviceResult { return rig.device },
		},
		ErrColl: rig.errs,
		GeoIP: &agdtest.GeoIP{
			OnData: func(_ string, _ netip.Addr) (*geoip.Location, error) { return nil, nil },
		},
		Metrics: ratelimitmw.EmptyMetrics{},
		Limiter: &agdtest.RateLimit{
			OnIsRateLimited:  func(_ context.Context, _ *dns.Msg, _ netip.Addr) (bool, bool, error) { return false, false, nil },
			OnCountResponses: func(_ context.Context, _ *dns.Msg, _ netip.Addr) {},
		},
		Protocols:  nil,
		EDEEnabled: true,
	})
	rig.handler = rl.Wrap(main.Wrap(rig.up))

	return rig
}

// prepare sets the hash-prefix lists for cfg and clears the result caches.
func (rig *c02MRig) prepare(cfg c02Cfg) {
	for i := 0; i < nHash; i++ {
		if want := c02HashList(cfg.Hash[i]); rig.hashText[i] != want {
			if _, err := rig.hashStrg[i].Reset(want); err != nil {
				vrt.Fatalf("hashprefix reset: %v", err)
			}
			rig.hashText[i] = want
		}
	}
	for _, c := range rig.mgr.keep {
		c.Clear()
	}
	rig.errs.errs = rig.errs.errs[:0]
}

// c02MParts renders cfg into the parts of a filter configuration.
func c02MParts(cfg c02Cfg) (cust *filter.ConfigCustom, par *filter.ConfigParental, rls *filter.ConfigRuleList, sb *filter.ConfigSafeBrowsing) {
	cust = &filter.ConfigCustom{}
	if lines := c02ListLines(cfg.Req[sCustom], cfg.Resp[sCustom], cfg.RespTarget, "custom"); len(lines) > 0 {
		cust.ID = fmt.Sprintf("c_%d_%d_%d", cfg.Req[sCustom], cfg.Resp[sCustom], cfg.RespTarget)
		cust.UpdateTime = c02MUpdate
		cust.Enabled = true
		for _, l := range lines {
			cust.Rules = append(cust.Rules, filter.RuleText(l))
		}
	}
	rls = &filter.ConfigRuleList{}
	for _, s := range []int{sList1, sList2} {
		if cfg.Req[s] == kNone && cfg.Resp[s] == rNone {
			continue
		}
		t := cfg.RespTarget
		if cfg.Resp[s] == rNone {
			t = 0
		}
		rls.IDs = append(rls.IDs, c02MListID(cfg.copyOf(s), cfg.Req[s], cfg.Resp[s], t))
		rls.Enabled = true
	}
	par = &filter.ConfigParental{
		AdultBlockingEnabled:     cfg.Hash[hAdult] != fOff,
		SafeSearchGeneralEnabled: cfg.SS&ssGen != 0,
		SafeSearchYouTubeEnabled: cfg.SS&ssYT != 0,
	}
	if cfg.Req[sSvc] != kNone || cfg.Resp[sSvc] != rNone {
		t := cfg.RespTarget
		if cfg.Resp[sSvc] == rNone {
			t = 0
		}
		par.BlockedServices = []filter.BlockedServiceID{c02MSvcID(cfg.Req[sSvc], cfg.Resp[sSvc], t)}
	}
	par.Enabled = par.AdultBlockingEnabled || par.SafeSearchGeneralEnabled || par.SafeSearchYouTubeEnabled || len(par.BlockedServices) > 0
	sb = &filter.ConfigSafeBrowsing{
		DangerousDomainsEnabled:       cfg.Hash[hDangerous] != fOff,
		NewlyRegisteredDomainsEnabled: cfg.Hash[hNewly] != fOff,
	}
	sb.Enabled = sb.DangerousDomainsEnabled || sb.NewlyRegisteredDomainsEnabled

	return cust, par, rls, sb
}

func c02MClientCfg(cfg c02Cfg) *filter.ConfigClient {
	cust, par, rls, sb := c02MParts(cfg)

	return &filter.ConfigClient{Custom: cust, Parental: par, RuleList: rls, SafeBrowsing: sb}
}

func c02MGroupCfg(cfg c02Cfg) *filter.ConfigGroup {
	_, par, rls, sb := c02MParts(cfg)

	return &filter.ConfigGroup{Parental: par, RuleList: rls, SafeBrowsing: sb}
}

// c02MSrc maps a list id reported by the real code to a source name.
func c02MSrc(cfg c02Cfg, id filter.ID) (src string, safety bool) {
	switch id {
	case filter.IDNone:
		return "-", false
	case filter.IDCustom:
		return c02SlotName[sCustom], false
	case filter.IDBlockedService:
		return c02SlotName[sSvc], false
	case filter.IDSafeBrowsing:
		return srcDangerous, true
	case filter.IDAdultBlocking:
		return srcAdult, true
	case filter.IDNewRegDomains:
		return srcNewly, true
	case filter.IDGeneralSafeSearch:
		return srcSSGen, true
	case filter.IDYoutubeSafeSearch:
		return srcSSYT, true
	}
	s := string(id)
	if strings.HasPrefix(s, "a_") || strings.HasPrefix(s, "b_") {
		if cfg.copyOf(sList1) == s[:1] {
			return c02SlotName[sList1], false
		}

		return c02SlotName[sList2], false
	}

	return "unknown:" + s, false
}

func c02MObserve(cfg c02Cfg, res filter.Result) (kind, src string) {
	if res == nil {
		return vNone, "-"
	}
	id, _ := res.MatchedRule()
	src, safety := c02MSrc(cfg, id)
	switch res.(type) {
	case *filter.ResultAllowed:
		return vAllowed, src
	case *filter.ResultBlocked:
		return vBlocked, src
	case *filter.ResultModifiedResponse, *filter.ResultModifiedRequest:
		if safety {
			return vSafety, src
		}

		return vRewrite, src
	}

	return fmt.Sprintf("unknown:%T", res), src
}

// ---------------------------------------------------------------------------
// Tier b: the filter returned by the storage

// c02BCase is one case of tier b.
type c02BCase struct {
	Cfg   c02Cfg `json:"cfg"`
	Host  string `json:"host"`
	QType uint16 `json:"qtype"`
	// Who: 0 client configuration, 1 group configuration, 2 nil configuration
	// (filtering disabled).
	Who int `json:"who"`
}

func c02BRun(r *vrt.Run, rig *c02MRig, c c02BCase) (fs []vrt.Finding) {
	ctx := context.Background()
	rig.prepare(c.Cfg)
	var fc filter.Config
	switch c.Who {
	case 0:
		fc = c02MClientCfg(c.Cfg)
	case 1:
		fc = c02MGroupCfg(c.Cfg)
	}
	ctxt := c02Lazy(func() string {
		return fmt.Sprintf("storage.ForConfig(%s of %s), %s %s", []string{"client", "group", "nil"}[c.Who], c.Cfg, dns.Type(c.QType), c.Host)
	})
	fqdn := dns.Fqdn(c.Host)
	reqMsg := vdns.NewReq(4321, fqdn, c.QType, dns.ClassINET)
	var res, rres filter.Result
	var err, rerr error
	up := &dns.Msg{}
	up.SetReply(reqMsg)
	for _, s := range c02UpstreamAnswer(fqdn, c.QType, true) {
		up.Answer = append(up.Answer, vdns.MustRR(s))
	}
	if p := vrt.Catch(func() {
		f := rig.strg.ForConfig(ctx, fc)
		res, err = f.FilterRequest(ctx, &filter.Request{
			DNS: reqMsg, Messages: rig.global, RemoteIP: c02MClient.Addr(), Host: c.Host, QType: c.QType, QClass: dns.ClassINET,
		})
		rres, rerr = f.FilterResponse(ctx, &filter.Response{DNS: up, RemoteIP: c02MClient.Addr()})
	}); p != "" {
		return vrt.F("storage/panic", "%s: panicked: %s", ctxt, p)
	}
	r.Trans(3)
	if err != nil || rerr != nil || len(rig.errs.errs) > 0 {
		return vrt.F("storage/error", "%s: errors %v %v %v", ctxt, err, rerr, rig.errs.errs)
	}
	kind, src := c02MObserve(c.Cfg, res)
	rkind, rsrc := c02MObserve(c.Cfg, rres)
	var acc, racc map[string]c02Verdict
	if c.Who == 2 {
		// "nothing is filtered when filtering is disabled"
		acc = map[string]c02Verdict{"none/-": {Kind: vNone, Src: "-"}}
		racc = acc
	} else {
		acc = c02Precedence(c.Cfg, c.Host, c.QType, c.Who == 1)
		racc = c02RespPrecedence(c.Cfg, c02AnswerObjects(fqdn, c.QType, true), c.Who == 1)
	}
	fs = append(fs, c02Compare("storage", "request", acc, kind, src, ctxt)...)
	fs = append(fs, c02Compare("storage", "response", racc, rkind, rsrc, ctxt)...)
	r.Class(fmt.Sprintf("storage:%s/%s resp:%s", kind, src, rkind))
	r.State(fmt.Sprintf("b|%d|%d|%s|%s|%s/%s|%s/%s", c.QType, c.Who, c02Keys(acc), c02Keys(racc), kind, src, rkind, rsrc))

	return fs
}

// ---------------------------------------------------------------------------
// Tier c: the message written by the main middleware

// c02MCase is one case of tier c.
type c02MCase struct {
	Cfg    c02Cfg `json:"cfg"`
	Host   string `json:"host"`
	QType  uint16 `json:"qtype"`
	CNAME  bool   `json:"cname,omitempty"`
	Switch int    `json:"switch"`
	// Mode and TTL (seconds) of the requester's profile; unused for
	// anonymous requesters, who get the server's settings.
	Mode int `json:"mode"`
	TTL  int `json:"ttl"`
}

// c02Final is a final verdict: the request-stage verdict, or, if that is
// "none", the response-stage verdict.
type c02Final struct {
	c02Verdict
	Stage string
}

// c02Tokens splits an RR string into comparable tokens.
func c02Tokens(rr string) []string {
	return strings.FieldsFunc(strings.ToLower(rr), func(r rune) bool {
		return r == ' ' || r == '\t' || r == '"' || r == '=' || r == ','
	})
}

// c02HasDataOf reports whether any record of m carries the marker data
// upstream returns for the name with index idx.
func c02HasDataOf(m *dns.Msg, idx int) bool {
	marks := map[string]bool{
		fmt.Sprintf("%s%d", c02MarkIPPrefix, idx):  true,
		fmt.Sprintf("%s%d", c02MarkIP6Prefix, idx): true,
		fmt.Sprintf("%s-%d", c02MarkTXT, idx):      true,
	}
	for _, sec := range [][]dns.RR{m.Answer, m.Ns, m.Extra} {
		for _, s := range vdns.Section(sec, false, false) {
			for _, t := range c02Tokens(s) {
				if marks[t] {
					return true
				}
			}
		}
	}

	return false
}

func c02AnyUpstreamData(m *dns.Msg) (rr string, ok bool) {
	for _, sec := range [][]dns.RR{m.Answer, m.Ns, m.Extra} {
		for _, s := range vdns.Section(sec, false, false) {
			if c02HasUpstreamData(s) {
				return s, true
			}
		}
	}

	return "", false
}

// c02Conforms reports whether the written message resp is what the statement
// demands for the final verdict f; why is a short structural reason if not.
func c02Conforms(c c02MCase, cfg c02Cfg, f c02Final, resp *dns.Msg, up *c02MUpstream, mode, ttl int) (why string) {
	fqdn := strings.ToLower(dns.Fqdn(c.Host))
	switch f.Kind {
	case vNone, vAllowed:
		// Not filtered: the upstream answer to the original question.
		want := up.resp[fqdn]
		if want == nil {
			return "unfiltered-answer/upstream-not-asked"
		}
		if vdns.Canon(resp, true) != vdns.Canon(want, true) {
			return "unfiltered-answer/differs-from-upstream"
		}

		return ""
	case vBlocked:
		rcode, answers := c02BlockedShape(mode, c.QType)
		if rr, bad := c02AnyUpstreamData(resp); bad {
			_ = rr

			return "blocked-answer/upstream-data"
		}
		if resp.Rcode != rcode {
			return "blocked-answer/rcode"
		}
		var got []string
		for _, rr := range resp.Answer {
			s := vdns.RRString(rr, false)
			fields := strings.Fields(s)
			if !strings.EqualFold(fields[0], fqdn) || len(fields) < 5 {
				return "blocked-answer/records"
			}
			got = append(got, strings.Join(fields[3:], " "))
		}
		sort.Strings(got)
		sort.Strings(answers)
		if strings.Join(got, "|") != strings.Join(answers, "|") {
			return "blocked-answer/records"
		}
		for _, sec := range [][]dns.RR{resp.Answer, resp.Ns} {
			for _, rr := range sec {
				if rr.Header().Ttl != uint32(ttl) {
					return "blocked-answer/ttl"
				}
			}
		}

		return ""
	case vRewrite:
		ident := "custom"
		for s := sList1; s <= sList2; s++ {
			if f.Src == c02SlotName[s] {
				ident = cfg.copyOf(s)
			}
		}
		if c02HasDataOf(resp, c02NameIdx(fqdn)) {
			return "rewrite-answer/upstream-data"
		}
		switch f.RwKind {
		case kRwIP:
			if resp.Rcode != dns.RcodeSuccess {
				return "rewrite-answer/ip"
			}
			if c.QType == dns.TypeA {
				got := vdns.Section(resp.Answer, false, true)
				want := vdns.Section([]dns.RR{vdns.MustRR(fqdn + " 0 IN A " + c02RwIP[ident])}, false, true)
				if strings.Join(got, "|") != strings.Join(want, "|") {
					return "rewrite-answer/ip"
				}
			}
		case kRwRcode:
			if resp.Rcode != dns.RcodeRefused || len(resp.Answer) != 0 {
				return "rewrite-answer/rcode"
			}
		case kRwCNAME:
			if len(resp.Answer) == 0 {
				return "rewrite-answer/cname"
			}
			cn, ok := resp.Answer[0].(*dns.CNAME)
			if !ok || !strings.EqualFold(cn.Hdr.Name, fqdn) || !strings.EqualFold(cn.Target, c02RwCNAME[ident]+".") {
				return "rewrite-answer/cname"
			}
		}

		return ""
	case vSafety:
		// The statement fixes the order of the safety filters, not the form
		// of their answers; only: the answer is not upstream's for this name.
		if c02HasDataOf(resp, c02NameIdx(fqdn)) {
			return "safety-answer/upstream-data"
		}

		return ""
	}

	return "unknown-verdict"
}

func c02MRun(r *vrt.Run, rig *c02MRig, c c02MCase) (fs []vrt.Finding) {
	return c02MRunKeep(r, rig, c, false)
}

// c02MRunKeep is c02MRun; with keep == true the result caches keep what the
// previous query left in them.  With rig.record set, the written message and
// the credited source are remembered in rig.last.
func c02MRunKeep(r *vrt.Run, rig *c02MRig, c c02MCase, keep bool) (fs []vrt.Finding) {
	cfg := c.Cfg
	rig.last = ""
	if keep {
		rig.errs.errs = rig.errs.errs[:0]
	} else {
		rig.prepare(cfg)
	}
	rig.up.cname = c.CNAME
	rig.up.asked = rig.up.asked[:0]
	clear(rig.up.resp)
	rig.statIDs = rig.statIDs[:0]
	rig.entries = rig.entries[:0]

	anonymous := c.Switch == swAnonymous
	mode, ttl := c.Mode, c.TTL
	if anonymous {
		mode, ttl = c02MGlobalMode, c02MGlobalTTL
		rig.device = nil
		rig.group.FilterConfig = c02MGroupCfg(cfg)
	} else {
		// The server's filtering group filters too (with the shared part of
		// the same configuration), so that a requester with a profile who is
		// wrongly handed the group's filter shows.
		rig.group.FilterConfig = c02MGroupCfg(cfg)
		rig.device = &agd.DeviceResultOK{
			Device: &agd.Device{ID: "dev1", Name: "dev", FilteringEnabled: c.Switch != swDeviceOff},
			Profile: &agd.Profile{
				FilterConfig:        c02MClientCfg(cfg),
				Access:              access.EmptyProfile{},
				BlockingMode:        c02MMode(mode),
				Ratelimiter:         agd.GlobalRatelimiter{},
				ID:                  "prof1",
				DeviceIDs:           []agd.DeviceID{"dev1"},
				FilteredResponseTTL: time.Duration(ttl) * time.Second,
				FilteringEnabled:    c.Switch != swProfileOff,
				QueryLogEnabled:     true,
			},
		}
	}

	fqdn := dns.Fqdn(c.Host)
	ctxt := c02Lazy(func() string {
		return fmt.Sprintf("requester{%s mode=%s ttl=%d} config %s, %s %s (upstream cname=%v)",
			c02SwitchName[c.Switch], c02ModeName[mode], ttl, cfg, dns.Type(c.QType), c.Host, c.CNAME)
	})
	req := vdns.NewReq(4321, fqdn, c.QType, dns.ClassINET)
	rw := dnsserver.NewNonWriterResponseWriter(c02MLocal, net.UDPAddrFromAddrPort(c02MClient))
	ctx := dnsserver.ContextWithRequestInfo(context.Background(), &dnsserver.RequestInfo{StartTime: time.Now()})
	ctx = dnsserver.ContextWithServerInfo(ctx, &dnsserver.ServerInfo{Name: "srv", Addr: "127.0.0.1:53", Proto: dnsserver.ProtoDNS})
	ended := rig.ending != endNone
	rig.up.ending = rig.ending
	if ended {
		// The harness owns the request context, as the server does.
		var cancel context.CancelFunc
		if rig.ending == endDeadline {
			ctx, cancel = context.WithTimeout(ctx, c02MDeadline)
		} else {
			ctx, cancel = context.WithCancel(ctx)
		}
		defer cancel()
		rig.up.cancel = cancel
	}
	var err error
	if p := vrt.Catch(func() { err = rig.handler.ServeDNS(ctx, rw, req) }); p != "" {
		return vrt.F("mainmw/panic", "%s: panicked: %s", ctxt, p)
	}
	r.Trans(1 + len(rig.up.asked))
	resp := rw.Msg()
	if !ended && (err != nil || resp == nil) {
		return vrt.F("mainmw/error", "%s: err=%v resp=%v collected=%v", ctxt, err, resp != nil, rig.errs.errs)
	}
	// Errors given to the error collector (by ratelimitmw while it builds the
	// requester's constructor, by mainmw while it filters) do not end the
	// request: the written message is judged first, with the errors quoted.
	collected := append([]error{}, rig.errs.errs...)
	if !ended && len(rig.statIDs) != 1 {
		vrt.Fatalf("%s: rule statistics called %d times", ctxt, len(rig.statIDs))
	}
	gotSrc := "?"
	if len(rig.statIDs) == 1 {
		gotSrc, _ = c02MSrc(cfg, rig.statIDs[0])
	}
	if rig.record {
		rig.last = gotSrc + " " + vdns.Canon(resp, true)
	}

	// What the statement admits.
	var finals []c02Final
	if c.Switch == swProfileOff || c.Switch == swDeviceOff {
		// "nothing is filtered when filtering is disabled for the profile or
		// device"
		finals = []c02Final{{c02Verdict{Kind: vNone, Src: "-"}, "disabled"}}
	} else {
		acc := c02Precedence(cfg, c.Host, c.QType, anonymous)
		racc := c02RespPrecedence(cfg, c02AnswerObjects(fqdn, c.QType, c.CNAME), anonymous)
		for _, k := range sortedKeys(acc) {
			v := acc[k]
			if v.Kind != vNone {
				// "a verdict on the request takes precedence over one on
				// the response"
				finals = append(finals, c02Final{v, "request"})

				continue
			}
			for _, rk := range sortedKeys(racc) {
				finals = append(finals, c02Final{racc[rk], "response"})
			}
		}
	}

	if ended {
		// The request's context ended while upstream was resolving.  The
		// statement does not say what such a requester gets (an error, no
		// response and SERVFAIL are all fine), but whatever is written must not
		// contain what the filter blocks: when every admitted verdict is
		// "blocked", no record of the upstream answer may reach the client.
		allBlocked := len(finals) > 0
		for _, f := range finals {
			allBlocked = allBlocked && f.Kind == vBlocked
		}
		switch {
		case resp == nil:
			r.Class("mw-ctx-end:" + c02EndingName[rig.ending] + " no-response")
		case !allBlocked:
			r.Class("mw-ctx-end:" + c02EndingName[rig.ending] + " not-blocked rcode=" + dns.RcodeToString[resp.Rcode])
		default:
			r.Class("mw-ctx-end:" + c02EndingName[rig.ending] + " " + finals[0].Stage + "-blocked rcode=" + dns.RcodeToString[resp.Rcode])
			if rr, bad := c02AnyUpstreamData(resp); bad {
				return vrt.F("mainmw-ctx-end/blocked-upstream-record-written",
					"%s, request context %s: the statement admits only a blocked verdict (%s:%s) but the written message carries the upstream record %q: %s; collected errors: %v",
					ctxt, c02EndingName[rig.ending], finals[0].Stage, finals[0].key(), rr, vdns.Canon(resp, true), rig.errs.errs)
			}
		}
		r.State(fmt.Sprintf("e|%d|%v|%d|%d|%v", rig.ending, allBlocked, c.QType, c.Mode, resp == nil))

		return nil
	}

	var reasons []string
	ok := false
	srcOK := false
	for _, f := range finals {
		if f.Src != gotSrc {
			continue
		}
		srcOK = true
		why := c02Conforms(c, cfg, f, resp, rig.up, mode, ttl)
		if why == "" {
			ok = true

			break
		}
		reasons = append(reasons, why)
	}
	var want []string
	for _, f := range finals {
		want = append(want, f.Stage+":"+f.key())
	}
	cls := "passed"
	if len(finals) > 0 {
		cls = finals[0].Kind
	}
	r.Class(fmt.Sprintf("mw:%s %s rcode=%s an=%d", c02SwitchName[c.Switch], cls, dns.RcodeToString[resp.Rcode], len(resp.Answer)))
	// A state is a distinct (admitted verdicts, requester settings, question
	// type, credited source, form of the written answer).
	r.State(fmt.Sprintf("c|%s|%d|%d|%d|%d|%v|%s|%d|%d|%d", strings.Join(want, ","), c.Switch, mode, ttl, c.QType, c.CNAME, gotSrc, resp.Rcode, len(resp.Answer), len(resp.Ns)))
	switch {
	case ok && len(collected) > 0 && !ended:
		return vrt.F("mainmw/error", "%s: the written message conforms but errors were collected: %v", ctxt, collected)
	case ok:
		return nil
	case !srcOK:
		// The key names the credited source and the admitted verdict kinds.
		var srcs []string
		seen := map[string]bool{}
		for _, f := range finals {
			if !seen[f.Stage+":"+f.Kind] {
				seen[f.Stage+":"+f.Kind] = true
				srcs = append(srcs, f.Stage+":"+f.Kind)
			}
		}

		return vrt.F(fmt.Sprintf("mainmw/deciding-source/%s-instead-of-%s", gotSrc, strings.Join(srcs, ",")),
			"%s: the middleware credits %q; the statement admits only {%s}; written: %s", ctxt, rig.statIDs[0], strings.Join(want, " | "), vdns.Canon(resp, true))
	default:
		return vrt.F("mainmw/"+reasons[0],
			"%s: deciding source %s; admitted verdicts {%s}; the written answer does not conform (%s): %s; upstream asked %q; collected errors: %v",
			ctxt, gotSrc, strings.Join(want, " | "), strings.Join(reasons, ","), vdns.Canon(resp, true), rig.up.asked, collected)
	}
}

func sortedKeys(m map[string]c02Verdict) (ks []string) {
	for k := range m {
		ks = append(ks, k)
	}
	sort.Strings(ks)

	return ks
}

func TestVerifC02MW(t *testing.T) {
	r := vrt.Start("C02")
	rig := c02MNewRig(t.TempDir())
	thorough := r.Thorough()

	listKinds := []int{kNone, kBlock, kAllow, kBlockA, kRwIP, kRwRcode, kRwCNAME, kHosts}
	svcKinds := []int{kNone, kBlock, kAllow, kBlockA, kHosts}
	if thorough {
		listKinds = append(listKinds, kAllowA)
		svcKinds = c02SvcKinds
	}
	kinds := [nSlots][]int{listKinds, listKinds, listKinds, svcKinds}

	// Tier b.
	bSafety := []c02Cfg{
		{},
		{Hash: [nHash]int{fMatch, fMatch, fMatch}, SS: ssGen | ssYT},
		{Hash: [nHash]int{fNoMatch, fMatch, fOff}, SS: ssYT},
		{Hash: [nHash]int{fOff, fNoMatch, fMatch}, SS: ssGen},
	}
	if !thorough {
		bSafety = bSafety[:2]
	}
	bHosts := vrt.Pick(r, c02Hosts, c02HostsThorough)
	r.Bound("storage_safety_configurations", len(bSafety))
	vrt.Part(r, "storage", func(emit func(c02BCase)) {
		c02ReqAssignments(kinds, nSlots, func(req [nSlots]int) {
			for _, flip := range []bool{false, true} {
				for si, sf := range bSafety {
					cfg := c02Cfg{Req: req, Flip: flip, Hash: sf.Hash, SS: sf.SS}
					// Response-side rules ride along: the pattern depends on
					// the safety index so that every slot gets both kinds.
					cfg.RespTarget = tCNAME
					for s := 0; s < nSlots; s++ {
						cfg.Resp[s] = (s + si + req[s]) % nRespKinds
					}
					for _, h := range bHosts {
						for _, qt := range c02QTypes {
							for who := 0; who < 3; who++ {
								if who == 2 && (flip || si > 0) {
									continue
								}
								emit(c02BCase{Cfg: cfg, Host: h, QType: qt, Who: who})
							}
						}
					}
				}
			}
		})
	}, func(c c02BCase) []vrt.Finding { return c02BRun(r, rig, c) })

	// Tier c.
	maxReq := vrt.Pick(r, 2, 3)
	safeties := []c02Cfg{
		{},
		{Hash: [nHash]int{fMatch, fOff, fOff}},
		{Hash: [nHash]int{fNoMatch, fMatch, fOff}},
		{Hash: [nHash]int{fOff, fOff, fMatch}, SS: ssGen | ssYT},
		{Hash: [nHash]int{fNoMatch, fNoMatch, fMatch}},
		{Hash: [nHash]int{fMatch, fMatch, fMatch}, SS: ssGen | ssYT},
	}
	if !thorough {
		safeties = []c02Cfg{safeties[0], safeties[2], safeties[3]}
	} else {
		safeties = append(safeties[:1], safeties[2:]...)
	}
	type respAssign struct {
		resp   [nSlots]int
		target int
	}
	resps := []respAssign{
		{[nSlots]int{}, 0},
		{[nSlots]int{rNone, rBlock, rNone, rNone}, tIP},
		{[nSlots]int{rBlock, rNone, rNone, rNone}, tCNAME},
		{[nSlots]int{rAllow, rBlock, rNone, rNone}, tIP},
		{[nSlots]int{rNone, rNone, rAllow, rBlock}, tCNAME},
		{[nSlots]int{rNone, rNone, rBlock, rNone}, tCNAME},
		{[nSlots]int{rNone, rNone, rNone, rBlock}, tIP},
		{[nSlots]int{rBlock, rAllow, rBlock, rBlock}, tIP},
	}
	if !thorough {
		resps = resps[:5]
	} else {
		resps = append(resps[:5], resps[7])
	}
	modeTTL := [][2]int{}
	for m := 0; m < nModes; m++ {
		for _, ttl := range c02MTTLs {
			modeTTL = append(modeTTL, [2]int{m, ttl})
		}
	}
	hosts := vrt.Pick(r, c02Hosts[:2], c02Hosts)
	r.Bound("mw_max_request_rules", maxReq)
	r.Bound("mw_safety_configurations", len(safeties))
	r.Bound("mw_response_rule_assignments", len(resps))
	r.Bound("mw_blocking_modes", c02ModeName)
	r.Bound("mw_profile_ttls", c02MTTLs)
	r.Bound("mw_switches", c02SwitchName)
	vrt.Part(r, "mainmw", func(emit func(c02MCase)) {
		c02ReqAssignments(kinds, maxReq, func(req [nSlots]int) {
			for _, sf := range safeties {
				for _, ra := range resps {
					cfg := c02Cfg{Req: req, Resp: ra.resp, RespTarget: ra.target, Hash: sf.Hash, SS: sf.SS, Flip: true}
					for _, h := range hosts {
						for _, qt := range c02QTypes {
							for _, cn := range []bool{false, true} {
								if cn && qt != dns.TypeA && qt != dns.TypeAAAA {
									continue
								}
								for sw := 0; sw < nSwitches; sw++ {
									if sw == swAnonymous {
										if req[sCustom] == kNone && ra.resp[sCustom] == rNone {
											emit(c02MCase{Cfg: cfg, Host: h, QType: qt, CNAME: cn, Switch: sw})
										}

										continue
									}
									for _, mt := range modeTTL {
										emit(c02MCase{Cfg: cfg, Host: h, QType: qt, CNAME: cn, Switch: sw, Mode: mt[0], TTL: mt[1]})
									}
								}
							}
						}
					}
				}
			}
		})
	}, func(c c02MCase) []vrt.Finding { return c02MRun(r, rig, c) })

	// Tier b, several blocked services per profile with production caches.
	c02SPart(r, t.TempDir(), t.TempDir())

	// Tier c, the request context ends while upstream resolves: cancelled
	// before / after upstream's answer is written, or its deadline passes
	// (upstream answers only after ctx.Done()).  Response-side block rules on
	// the CNAME target / answer address (and request-side rules, alone and
	// together with them).
	endResps := []respAssign{resps[1], resps[2], resps[3], resps[4]}
	if thorough {
		endResps = resps[1:]
	}
	vrt.Part(r, "mainmw-ctx-end", func(emit func(c02MECase)) {
		c02ReqAssignments(kinds, 1, func(req [nSlots]int) {
			for _, ra := range endResps {
				cfg := c02Cfg{Req: req, Resp: ra.resp, RespTarget: ra.target, Flip: true}
				for _, h := range c02Hosts[:2] {
					for _, qt := range c02QTypes {
						for _, cn := range []bool{false, true} {
							if cn && qt != dns.TypeA && qt != dns.TypeAAAA {
								continue
							}
							for _, m := range []int{mNullIP, mREFUSED} {
								for e := endCancelBefore; e < nEndings; e++ {
									if e == endDeadline && (req != ([nSlots]int{}) || m != mNullIP) {
										// The deadline variant waits for real
										// time: response-side rules only.
										continue
									}
									emit(c02MECase{c02MCase{Cfg: cfg, Host: h, QType: qt, CNAME: cn, Switch: swOn, Mode: m, TTL: 10}, e})
								}
							}
						}
					}
				}
			}
		})
	}, func(c c02MECase) []vrt.Finding {
		rig.ending = c.Ending
		defer func() { rig.ending = endNone }()

		return c02MRunKeep(r, rig, c.c02MCase, false)
	})

	// Tier c, histories: two queries of one requester, the second with the
	// result caches as the first left them; what is written for the second
	// must be what is written for it with empty caches (and both must conform
	// to the statement as in part "mainmw").
	hSteps := []c02HMStep{}
	for _, qt := range []uint16{dns.TypeA, dns.TypeAAAA, dns.TypeHTTPS, dns.TypeTXT, dns.TypeMX, dns.TypeCNAME} {
		hSteps = append(hSteps, c02HMStep{c02Dom, qt})
	}
	hSteps = append(hSteps, c02HMStep{c02Sub, dns.TypeA}, c02HMStep{c02Sub, dns.TypeTXT})
	hModes := vrt.Pick(r, []int{mNullIP, mNXDOMAIN}, []int{mNullIP, mCustomV4, mCustomV46, mNXDOMAIN, mREFUSED})
	hRequesters := [][2]int{{mNullIP, 10}, {mNXDOMAIN, 3600}, {mREFUSED, 0}, {mCustomV46, 60}}
	r.Bound("mw_history_steps", len(hSteps))
	r.Bound("mw_history_requesters", "null-ip/10 nxdomain/3600 refused/0 custom-ip/60, every ordered pair")
	vrt.Part(r, "mainmw-history", func(emit func(c02HMCase)) {
		c02ReqAssignments(kinds, 1, func(req [nSlots]int) {
			vrt.Odometer([]int{3, 3, 3, 2}, func(sf []int) {
				cfg := c02Cfg{Req: req, Flip: true, SS: []int{0, ssGen | ssYT}[sf[3]]}
				for i := 0; i < nHash; i++ {
					cfg.Hash[i] = sf[i]
				}
				if cfg.Hash == ([nHash]int{}) && !thorough {
					return
				}
				for _, m := range hModes {
					for _, sw := range []int{swOn, swAnonymous} {
						if sw == swAnonymous && (req[sCustom] != kNone || m != hModes[0]) {
							continue
						}
						for a := range hSteps {
							for b := range hSteps {
								emit(c02HMCase{Cfg: cfg, Mode: m, TTL: 10, Switch: sw, Steps: [2]c02HMStep{hSteps[a], hSteps[b]}})
							}
						}
					}
				}
				// Two requesters with different blocking modes / TTLs asking
				// the same question one after the other: the hash-prefix
				// filters and their result caches are shared by all profiles.
				if cfg.Hash[0] != fMatch && cfg.Hash[1] != fMatch && cfg.Hash[2] != fMatch {
					return
				}
				for _, h := range []string{c02Dom, c02Sub} {
					for _, qt := range []uint16{dns.TypeA, dns.TypeAAAA, dns.TypeHTTPS} {
						for _, a := range hRequesters {
							for _, b := range hRequesters {
								st := c02HMStep{h, qt}
								emit(c02HMCase{Cfg: cfg, Mode: a[0], TTL: a[1], Switch: swOn, Steps: [2]c02HMStep{st, st},
									Other: true, Mode2: b[0], TTL2: b[1]})
							}
						}
					}
				}
			})
		})
	}, func(c c02HMCase) (fs []vrt.Finding) {
		rig.record = true
		defer func() { rig.record = false }()
		mk := func(i int) c02MCase {
			st := c.Steps[i]
			mc := c02MCase{Cfg: c.Cfg, Host: st.Host, QType: st.QType, Switch: c.Switch, Mode: c.Mode, TTL: c.TTL}
			if i == 1 && c.Other {
				mc.Mode, mc.TTL = c.Mode2, c.TTL2
			}

			return mc
		}
		fs = append(fs, c02MRunKeep(r, rig, mk(0), false)...)
		first := rig.last
		fs = append(fs, c02MRunKeep(r, rig, mk(1), true)...)
		got := rig.last
		fs = append(fs, c02MRunKeep(r, rig, mk(1), false)...)
		want := rig.last
		if got != want && got != "" && want != "" {
			fs = append(fs, vrt.F("mainmw-history/answer-differs-from-fresh-filters",
				"config %s: %s %s of requester{%s mode=%s ttl=%d} asked after %s %s of requester{mode=%s ttl=%d} (written: %s) is answered {%s}; with empty result caches it is answered {%s}",
				c.Cfg, dns.Type(c.Steps[1].QType), c.Steps[1].Host, c02SwitchName[c.Switch], c02ModeName[mk(1).Mode], mk(1).TTL,
				dns.Type(c.Steps[0].QType), c.Steps[0].Host, c02ModeName[c.Mode], c.TTL, first, got, want)...)
		}

		return fs
	})

	r.Finish()
	os.Exit(0)
}

// c02MECase is a tier-c case whose request context ends during resolution.
type c02MECase struct {
	c02MCase
	Ending int `json:"ending"`
}

// c02HMStep is one query of a middleware history.
type c02HMStep struct {
	Host  string `json:"host"`
	QType uint16 `json:"qtype"`
}

// c02HMCase is a history of two queries of one requester.
type c02HMCase struct {
	Cfg    c02Cfg       `json:"cfg"`
	Mode   int          `json:"mode"`
	TTL    int          `json:"ttl"`
	Switch int          `json:"switch"`
	Steps  [2]c02HMStep `json:"steps"`
	// Other: the second query comes from another requester of the same
	// configuration, with blocking mode Mode2 and TTL TTL2.
	Other bool `json:"other,omitempty"`
	Mode2 int  `json:"mode2,omitempty"`
	TTL2  int  `json:"ttl2,omitempty"`
}
