//go:build verif

package zzverifc02

// C02, unit 2 (schedule exploration, engine XS): CONCURRENT FilterRequest
// calls of different profiles through real composite.Filters that share real,
// result-caching rule lists.  The statement quantifies over every request: a
// request's verdict must follow the precedence of the requester's OWN rule
// sources, whatever other requests are being filtered at the same moment.
//
// The unit is built with instrumented copies of composite.go
// (FilterRequest, filterReqWithRuleLists), rulelist/result.go (Add,
// ToInternal) and rulelist/rulelist.go (DNSResult): a scheduling point
// precedes every statement containing a call in those functions.  Everything
// between two points runs atomically (GOMAXPROCS 1, cooperative tasks), so
// every interleaving of the walks over the rule lists at that granularity
// with at most N preemptions is enumerated.
//
// The shared first list matches the probed name with several rules (domain
// rule, TLD rule, regular expression; a five-rule variant), so its cached
// *urlfilter.DNSResult - one object shared by all requests for that name and
// type through the real LRU result cache - holds a slice with spare capacity:
// any code that appends to, or otherwise writes through, the cached result
// collides between the two requests.
//
// Oracle: (1) an independent reference for this alphabet (an allow rule of one
// of the requester's own sources beats every block rule; otherwise a block
// rule of one of its own sources blocks; the deciding list is one of its
// own); (2) differential: kind, list id and rule text equal those of the same
// request alone on a fresh set of filters.

import (
	"context"
	"fmt"
	"net/netip"
	"net/url"
	"os"
	"runtime"
	"runtime/debug"
	"strings"
	"testing"
	"time"

	"github.com/AdguardTeam/AdGuardDNS/internal/dnsmsg"
	"github.com/AdguardTeam/AdGuardDNS/internal/dnsserver/zzverif/vrt"
	"github.com/AdguardTeam/AdGuardDNS/internal/dnsserver/zzverif/xsched"
	"github.com/AdguardTeam/AdGuardDNS/internal/filter/internal"
	"github.com/AdguardTeam/AdGuardDNS/internal/filter/internal/composite"
	"github.com/AdguardTeam/AdGuardDNS/internal/filter/internal/rulelist"
	"github.com/miekg/dns"
)

// ---------------------------------------------------------------------------
// Alphabet

const (
	c02rHost1 = "blocked.example" // matched by every rule of the shared list
	c02rHost2 = "block7.example"  // matched by the TLD rule and the regexp only
	c02rHost3 = "other.example"   // matched by the TLD rule only
)

// Rule-list ids.
const (
	c02rShared internal.ID = "race_shared"
	c02rAllow  internal.ID = "race_allow"
	c02rExtra  internal.ID = "race_extra"
	c02rSvc                = "race_svc"
)

// c02rSharedTexts are the variants of the shared first list.
var c02rSharedTexts = []string{
	// 3 rules match blocked.example.
	"||" + c02rHost1 + "^\n||example^\n" + `/^block(ed)?[0-9]*\./` + "\n",
	// 5 rules match blocked.example.
	"||" + c02rHost1 + "^\n||example^\n" + `/^block(ed)?[0-9]*\./` + "\n|" + c02rHost1 + "^\n" + `/^blocked\.ex/` + "\n",
}

const (
	c02rAllowText     = "@@||" + c02rHost1 + "^\n"
	c02rExtraText     = "||" + c02rHost1 + "^$dnstype=A\n"
	c02rSvcText       = "||" + c02rHost1 + "^\n"
	c02rCustomAllow   = "@@||" + c02rHost1 + "^\n"
	c02rCustomNoMatch = "||unrelated.example^\n"
)

// c02rProfile is the set of rule sources of one requester besides the shared
// first list.
type c02rProfile struct {
	Name   string
	Custom string // "", "allow", "nomatch"
	Allow  bool   // the allow list is enabled (after the shared list)
	Extra  bool   // the extra block list is enabled (last)
	Svc    bool   // the blocked service is enabled
}

var c02rProfiles = []c02rProfile{
	0: {Name: "shared+allow", Allow: true},
	1: {Name: "shared+extra", Extra: true},
	2: {Name: "shared+allow+extra", Allow: true, Extra: true},
	3: {Name: "shared+service", Svc: true},
	4: {Name: "custom(nomatch)+shared+allow", Custom: "nomatch", Allow: true},
	5: {Name: "custom(allow)+shared+extra", Custom: "allow", Extra: true},
	6: {Name: "shared", Custom: ""},
	7: {Name: "shared+extra+service", Extra: true, Svc: true},
}

// c02rReq is one request of the pool.
type c02rReq struct {
	Prof  int
	Host  string
	QType uint16
}

var c02rPool = []c02rReq{
	0:  {0, c02rHost1, dns.TypeA},
	1:  {1, c02rHost1, dns.TypeA},
	2:  {2, c02rHost1, dns.TypeA},
	3:  {3, c02rHost1, dns.TypeA},
	4:  {4, c02rHost1, dns.TypeA},
	5:  {5, c02rHost1, dns.TypeA},
	6:  {6, c02rHost1, dns.TypeA},
	7:  {7, c02rHost1, dns.TypeA},
	8:  {0, c02rHost1, dns.TypeAAAA},
	9:  {1, c02rHost1, dns.TypeAAAA},
	10: {1, c02rHost2, dns.TypeA},
	11: {0, c02rHost2, dns.TypeA},
	12: {3, c02rHost3, dns.TypeA},
}

func (q c02rReq) String() string {
	return fmt.Sprintf("%s %s of profile {%s}", dns.Type(q.QType), q.Host, c02rProfiles[q.Prof].Name)
}

// ---------------------------------------------------------------------------
// Reference for this alphabet

// c02rAdmitted returns the verdicts ("kind/list") the statement admits for q.
func c02rAdmitted(q c02rReq) (acc map[string]bool) {
	p := c02rProfiles[q.Prof]
	acc = map[string]bool{}
	h1 := q.Host == c02rHost1
	// No rewrite rules in this alphabet.  "an allow rule from any rule source
	// beats every block rule"
	var allows, blocks []string
	if p.Custom == "allow" && h1 {
		allows = append(allows, string(internal.IDCustom))
	}
	if p.Allow && h1 {
		allows = append(allows, string(c02rAllow))
	}
	// The shared list blocks every name under "example".
	blocks = append(blocks, string(c02rShared))
	if p.Extra && h1 && q.QType == dns.TypeA {
		blocks = append(blocks, string(c02rExtra))
	}
	if p.Svc && h1 {
		blocks = append(blocks, string(internal.IDBlockedService))
	}
	if len(allows) > 0 {
		// No safety filters here, so whichever allow rule decides, the
		// verdict is "allowed".
		for _, id := range allows {
			acc[vAllowed+"/"+id] = true
		}

		return acc
	}
	// "and a matching block rule blocks"
	for _, id := range blocks {
		acc[vBlocked+"/"+id] = true
	}

	return acc
}

// ---------------------------------------------------------------------------
// Real filters

// c02rSet is a fresh set of real rule-list filters.
type c02rSet struct {
	shared, allow, extra *rulelist.Refreshable
	svc                  *rulelist.Immutable
	customAllow, customN *rulelist.Immutable
	flts                 []*composite.Filter
}

var c02rMsgs *dnsmsg.Constructor

func c02rInit() {
	var err error
	c02rMsgs, err = dnsmsg.NewConstructor(&dnsmsg.ConstructorConfig{
		Cloner:       dnsmsg.NewCloner(dnsmsg.EmptyClonerStat{}),
		BlockingMode: &dnsmsg.BlockingModeNullIP{},
		StructuredErrors: &dnsmsg.StructuredDNSErrorsConfig{
			Contact:       []*url.URL{{Scheme: "mailto", Opaque: "support@dns.example"}},
			Justification: "Filtering",
			Organization:  "Verif",
			Enabled:       true,
		},
		FilteredResponseTTL: 10 * time.Second,
		EDEEnabled:          true,
	})
	if err != nil {
		vrt.Fatalf("constructor: %v", err)
	}
}

func c02rNewSet(variant int) (s *c02rSet) {
	s = &c02rSet{}
	list := func(text string, id internal.ID) *rulelist.Refreshable {
		// The real LRU result cache, enabled, as filterstorage does for the
		// shared rule lists in production.
		rl, err := rulelist.NewFromString(text, id, "", rulelist.NewResultCache(100, true))
		if err != nil {
			vrt.Fatalf("rulelist.NewFromString(%s): %v", id, err)
		}

		return rl
	}
	immut := func(text string, id internal.ID, svc internal.BlockedServiceID, cached bool) *rulelist.Immutable {
		rl, err := rulelist.NewImmutable(text, id, svc, rulelist.NewResultCache(100, cached))
		if err != nil {
			vrt.Fatalf("rulelist.NewImmutable(%s): %v", id, err)
		}

		return rl
	}
	s.shared = list(c02rSharedTexts[variant], c02rShared)
	s.allow = list(c02rAllowText, c02rAllow)
	s.extra = list(c02rExtraText, c02rExtra)
	// Blocked-service lists have a result cache too; custom lists never do.
	s.svc = immut(c02rSvcText, internal.IDBlockedService, c02rSvc, true)
	s.customAllow = immut(c02rCustomAllow, internal.IDCustom, "", false)
	s.customN = immut(c02rCustomNoMatch, internal.IDCustom, "", false)
	for _, p := range c02rProfiles {
		cc := &composite.Config{RuleLists: []*rulelist.Refreshable{s.shared}}
		switch p.Custom {
		case "allow":
			cc.Custom = s.customAllow
		case "nomatch":
			cc.Custom = s.customN
		}
		if p.Allow {
			cc.RuleLists = append(cc.RuleLists, s.allow)
		}
		if p.Extra {
			cc.RuleLists = append(cc.RuleLists, s.extra)
		}
		if p.Svc {
			cc.ServiceLists = []*rulelist.Immutable{s.svc}
		}
		s.flts = append(s.flts, composite.New(cc))
	}

	return s
}

var c02rClient = netip.MustParseAddr("192.0.2.200")

// ask sends q through the real composite filter of its profile and renders
// the result as "kind/list/rule".
func (s *c02rSet) ask(q c02rReq) (obs string) {
	var res internal.Result
	var err error
	req := &dns.Msg{}
	req.SetQuestion(dns.Fqdn(q.Host), q.QType)
	if p := vrt.Catch(func() {
		res, err = s.flts[q.Prof].FilterRequest(context.Background(), &internal.Request{
			DNS: req, Messages: c02rMsgs, RemoteIP: c02rClient, Host: q.Host, QType: q.QType, QClass: dns.ClassINET,
		})
	}); p != "" {
		return "panic/" + p
	}
	if err != nil {
		return "error/" + err.Error()
	}
	switch res := res.(type) {
	case nil:
		return vNone + "/-/"
	case *internal.ResultAllowed:
		return fmt.Sprintf("%s/%s/%s", vAllowed, res.List, res.Rule)
	case *internal.ResultBlocked:
		return fmt.Sprintf("%s/%s/%s", vBlocked, res.List, res.Rule)
	default:
		id, rule := res.MatchedRule()

		return fmt.Sprintf("%T/%s/%s", res, id, rule)
	}
}

// c02rKindList cuts "kind/list/rule" down to "kind/list".
func c02rKindList(obs string) string {
	parts := strings.SplitN(obs, "/", 3)
	if len(parts) < 2 {
		return obs
	}

	return parts[0] + "/" + parts[1]
}

// ---------------------------------------------------------------------------
// Scenarios

// c02rScenario is one set of concurrent requests (one per task).
type c02rScenario struct {
	Variant int   `json:"variant"`
	Warm    bool  `json:"warm"`
	Reqs    []int `json:"reqs"`
	// Pre is the preemption bound of the scenario.
	Pre int `json:"pre"`
}

type c02rCase struct {
	c02rScenario
	Choices []int `json:"choices"`
}

func c02rScenarios(thorough bool) (scs []c02rScenario) {
	pairs := func(pool []int, pre int, skip map[[2]int]bool) {
		for v := range c02rSharedTexts {
			for _, warm := range []bool{true, false} {
				for a := 0; a < len(pool); a++ {
					for b := a; b < len(pool); b++ {
						if skip[[2]int{pool[a], pool[b]}] {
							continue
						}
						scs = append(scs, c02rScenario{Variant: v, Warm: warm, Reqs: []int{pool[a], pool[b]}, Pre: pre})
					}
				}
			}
		}
	}
	if !thorough {
		pairs([]int{0, 1, 2, 3, 5, 6, 9, 10}, 2, nil)

		return scs
	}
	// Thorough: a core pool with 3 preemptions, every other pair of the whole
	// pool with 2, and triples over the core pool with 2.
	core := []int{0, 1, 3, 6, 10}
	pairs(core, 3, nil)
	skip := map[[2]int]bool{}
	for a := range core {
		for b := a; b < len(core); b++ {
			skip[[2]int{core[a], core[b]}] = true
		}
	}
	var all []int
	for i := range c02rPool {
		all = append(all, i)
	}
	pairs(all, 2, skip)
	for v := range c02rSharedTexts {
		for a := 0; a < len(core); a++ {
			for b := a; b < len(core); b++ {
				for c := b; c < len(core); c++ {
					scs = append(scs, c02rScenario{Variant: v, Warm: true, Reqs: []int{core[a], core[b], core[c]}, Pre: 2})
				}
			}
		}
	}

	return scs
}

type c02rEnv struct {
	sc  c02rScenario
	set *c02rSet
	got []string
}

func c02rSetup(sc c02rScenario, s *xsched.Sched) (env *c02rEnv) {
	env = &c02rEnv{sc: sc, set: c02rNewSet(sc.Variant), got: make([]string, len(sc.Reqs))}
	if sc.Warm {
		// Fill the result caches of the shared list (and of the later lists)
		// for every name and type of the scenario, so that all tasks get the
		// one cached result object.
		seen := map[string]bool{}
		for _, qi := range sc.Reqs {
			q := c02rPool[qi]
			k := fmt.Sprintf("%s/%d", q.Host, q.QType)
			if !seen[k] {
				seen[k] = true
				for _, rl := range []*rulelist.Refreshable{env.set.shared, env.set.allow, env.set.extra} {
					rl.DNSResult(c02rClient, "", q.Host, q.QType, false)
				}
			}
		}
	}
	for ti, qi := range sc.Reqs {
		s.Go(fmt.Sprintf("T%d", ti+1), func() { env.got[ti] = env.set.ask(c02rPool[qi]) })
	}

	return env
}

func c02rDescribe(sc c02rScenario) string {
	var parts []string
	for ti, qi := range sc.Reqs {
		parts = append(parts, fmt.Sprintf("T%d: %s", ti+1, c02rPool[qi]))
	}
	cache := "cold"
	if sc.Warm {
		cache = "warm"
	}

	return fmt.Sprintf("shared list variant %d (%d rules match %s), %s result cache\n     %s",
		sc.Variant, 3+2*sc.Variant, c02rHost1, cache, strings.Join(parts, "\n     "))
}

func c02rCheck(env *c02rEnv, solo map[string]string, x *xsched.Exec) (fs []vrt.Finding) {
	if x.Sched.Deadlock || x.Sched.LimitHit {
		return vrt.F("race/deadlock", "concurrent requests, %s\nblocked: %v\nschedule:\n%s", c02rDescribe(env.sc), x.Sched.Blocked, x.Sched.Describe())
	}
	if x.Sched.Panicked != "" {
		return vrt.F("race/panic", "concurrent requests, %s\npanicked: %s\nschedule:\n%s", c02rDescribe(env.sc), x.Sched.Panicked, x.Sched.Describe())
	}
	seen := map[string]bool{}
	add := func(key, format string, args ...any) {
		if !seen[key] {
			seen[key] = true
			fs = append(fs, vrt.F(key, format, args...)...)
		}
	}
	for ti, qi := range env.sc.Reqs {
		q := c02rPool[qi]
		want := solo[fmt.Sprintf("%d/%d", env.sc.Variant, qi)]
		if got := env.got[ti]; got != want {
			add("race/concurrent-result-differs-from-solo",
				"request %s of task T%d gets %q when filtered alone on fresh filters, but %q while other requests were being filtered (the statement admits only %v)\nconcurrent requests, %s\nschedule:\n%s",
				q, ti+1, want, got, c02rKeys(c02rAdmitted(q)), c02rDescribe(env.sc), x.Sched.Describe())
		}
		if !c02rAdmitted(q)[c02rKindList(env.got[ti])] {
			add("race/concurrent-verdict-not-admitted",
				"request %s of task T%d got %q while other requests were being filtered; the precedence of its own rule sources admits only %v\nconcurrent requests, %s\nschedule:\n%s",
				q, ti+1, env.got[ti], c02rKeys(c02rAdmitted(q)), c02rDescribe(env.sc), x.Sched.Describe())
		}
	}
	// The same requests again, one after another, on the same filters: the
	// concurrent phase must not have left anything behind in the caches.
	for ti, qi := range env.sc.Reqs {
		q := c02rPool[qi]
		want := solo[fmt.Sprintf("%d/%d", env.sc.Variant, qi)]
		if got := env.set.ask(q); got != want {
			add("race/result-after-concurrent-requests-differs-from-solo",
				"request %s (T%d) asked again after the concurrent phase gets %q, alone on fresh filters %q\nconcurrent requests, %s\nschedule:\n%s",
				q, ti+1, got, want, c02rDescribe(env.sc), x.Sched.Describe())
		}
	}

	return fs
}

func c02rKeys(m map[string]bool) (ks []string) {
	for k := range m {
		ks = append(ks, k)
	}
	// Small; keep deterministic.
	for i := range ks {
		for j := i + 1; j < len(ks); j++ {
			if ks[j] < ks[i] {
				ks[i], ks[j] = ks[j], ks[i]
			}
		}
	}

	return ks
}

func TestVerifC02Race(t *testing.T) {
	// The unit also serves C07 (a cached filtering result that is still in use
	// is never overwritten): the driver then sets VERIF_PROP.
	prop := "C02"
	if p := os.Getenv("VERIF_PROP"); p != "" {
		prop = p
	}
	r := vrt.Start(prop)
	c02rInit()
	debug.SetGCPercent(-1)

	// Solo results on fresh filters, cold and warm, and harness self-checks:
	// every solo result is admitted by the reference (this is the sequential
	// property), both verdict kinds occur, and the alphabet forces the
	// collision (the cached result of the shared list has spare capacity).
	solo := map[string]string{}
	kinds := map[string]bool{}
	var soloFs []vrt.Finding
	for v := range c02rSharedTexts {
		for qi, q := range c02rPool {
			cold := c02rNewSet(v).ask(q)
			warmSet := c02rNewSet(v)
			warmSet.ask(q)
			warm := warmSet.ask(q)
			solo[fmt.Sprintf("%d/%d", v, qi)] = cold
			kinds[strings.SplitN(cold, "/", 2)[0]] = true
			if !c02rAdmitted(q)[c02rKindList(cold)] || warm != cold {
				soloFs = append(soloFs, vrt.F("race/solo-verdict-not-admitted",
					"request %s alone on fresh filters (variant %d) gets %q (second time: %q); the precedence of its own rule sources admits only %v",
					q, v, cold, warm, c02rKeys(c02rAdmitted(q)))...)
			}
		}
		dr := c02rNewSet(v).shared.DNSResult(c02rClient, "", c02rHost1, dns.TypeA, false)
		n, c := 0, 0
		if dr != nil {
			n, c = len(dr.NetworkRules), cap(dr.NetworkRules)
		}
		r.Note("shared list variant %d: cached result for %s has %d network rules, capacity %d", v, c02rHost1, n, c)
		if c > n {
			r.Count("race_shared_results_with_spare_capacity", 1)
		}
	}
	if !kinds[vAllowed] || !kinds[vBlocked] {
		vrt.Fatalf("race pool is one-sided: %v", kinds)
	}

	var rc c02rCase
	if r.ReplayCase("race-solo", &rc) {
		r.Eval()
		r.Report("race-solo", rc, soloFs)
	}
	if r.ReplayCase("race", &rc) {
		var env *c02rEnv
		x := xsched.Replay(rc.Choices, func(s *xsched.Sched) { env = c02rSetup(rc.c02rScenario, s) })
		r.Eval()
		r.Report("race", rc, c02rCheck(env, solo, x))
	}
	if r.ShouldRun() {
		shard, nshards := r.NShards()
		if shard == 0 {
			r.Eval()
			r.Report("race-solo", c02rCase{}, soloFs)
		}
		scs := c02rScenarios(r.Thorough())
		r.Bound("race_preemptions", vrt.Pick(r, "2", "3 for pairs over the core pool, 2 for the other pairs and for triples"))
		r.Bound("race_scenarios", len(scs))
		r.Bound("race_pool_requests", len(c02rPool))
		execs := 0
		for si, sc := range scs {
			if si%nshards != shard {
				continue
			}
			if r.Expired() {
				r.Note("race exploration stopped by internal deadline before scenario %d of %d", si, len(scs))

				break
			}
			p := sc.Pre
			var env *c02rEnv
			found := 0
			st := xsched.Explore(xsched.Config{MaxPreemptions: p, MaxDeviations: 0, Stop: r.Expired},
				func(s *xsched.Sched) {
					if execs++; execs%2000 == 0 {
						runtime.GC()
					}
					env = c02rSetup(sc, s)
				},
				func(x *xsched.Exec) bool {
					r.Eval()
					r.Trans(len(x.Sched.Trace))
					fs := c02rCheck(env, solo, x)
					r.Class(fmt.Sprintf("race tasks=%d warm=%v preemptions=%d", len(sc.Reqs), sc.Warm, x.Preemptions))
					if r.State(fmt.Sprintf("race|%d|%v|%v|%v", sc.Variant, sc.Warm, sc.Reqs, env.got)) {
						r.Sample(map[string]any{"scenario": sc, "results": env.got, "preemptions": x.Preemptions})
					}
					if len(fs) > 0 {
						r.Report("race", c02rCase{c02rScenario: sc, Choices: x.Choices}, fs)
						found++
					}

					return found < 1
				})
			r.Count("race_scheduling_points", st.Points)
			if st.MaxTrace > 0 {
				r.Count("race_scenarios_explored", 1)
			}
			if st.Stopped {
				r.Note("race scenario %+v stopped by deadline after %d executions", sc, st.Executions)
			}
		}
	}
	r.Finish()
	os.Exit(0)
}
