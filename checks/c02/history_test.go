//go:build verif

package zzverifc02

// C02, unit 0, history part: SEQUENCES of questions with different question
// types for the same host (and for a second host) on ONE real composite.Filter
// whose hash-prefix filters, shared rule lists, blocked-service lists and
// safe-search filters all have their real result caches enabled and keep them
// between the questions.  The verdict on a query is a function of the
// requester's configuration and the query: each step's verdict (kind,
// deciding list, rule, rewritten host / answer) must equal the verdict of the
// same question on filters with empty caches, and must be admitted by
// c02Precedence.

import (
	"context"
	"fmt"
	"net/netip"
	"net/url"
	"strings"
	"time"

	"github.com/AdguardTeam/AdGuardDNS/internal/dnsmsg"

	"github.com/AdguardTeam/AdGuardDNS/internal/dnsserver/zzverif/vdns"
	"github.com/AdguardTeam/AdGuardDNS/internal/dnsserver/zzverif/vrt"
	"github.com/AdguardTeam/AdGuardDNS/internal/filter/internal"
	"github.com/AdguardTeam/AdGuardDNS/internal/filter/internal/composite"
	"github.com/miekg/dns"
)

// c02HQTypes are the question types of the history part: the three
// address-like ones and five others.
var c02HQTypes = []uint16{
	dns.TypeA, dns.TypeAAAA, dns.TypeHTTPS,
	dns.TypeTXT, dns.TypeMX, dns.TypeCNAME, dns.TypeSRV, dns.TypeCAA,
}

// c02HStep is one question.
type c02HStep struct {
	Host  string `json:"host"`
	QType uint16 `json:"qtype"`
	// Who is the requester (index into c02HRequesters) whose constructor
	// (blocking mode, filtered-response TTL) the question carries.
	Who int `json:"who,omitempty"`
}

// c02HRequesters are requesters with different blocking modes and TTLs; the
// filters and their result caches are shared by all of them.
var c02HRequesters = []struct {
	Name string
	Mode dnsmsg.BlockingMode
	TTL  time.Duration
}{
	{"null-ip/ttl10", &dnsmsg.BlockingModeNullIP{}, 10 * time.Second},
	{"nxdomain/ttl3600", &dnsmsg.BlockingModeNXDOMAIN{}, 3600 * time.Second},
	{"refused/ttl0", &dnsmsg.BlockingModeREFUSED{}, 0},
	{"custom-ip/ttl60", &dnsmsg.BlockingModeCustomIP{
		IPv4: []netip.Addr{netip.MustParseAddr(c02CustomV4)},
		IPv6: []netip.Addr{netip.MustParseAddr(c02CustomV6)},
	}, 60 * time.Second},
}

var c02HMsgs []*dnsmsg.Constructor

// c02HConstructor returns the constructor of requester who, built like
// ratelimitmw builds it: same cloner, own blocking mode and TTL.
func c02HConstructor(rig *c02ARig, who int) *dnsmsg.Constructor {
	if c02HMsgs == nil {
		for _, rq := range c02HRequesters {
			m, err := dnsmsg.NewConstructor(&dnsmsg.ConstructorConfig{
				Cloner:       rig.msgs.Cloner(),
				BlockingMode: rq.Mode,
				StructuredErrors: &dnsmsg.StructuredDNSErrorsConfig{
					Contact:       []*url.URL{{Scheme: "mailto", Opaque: "support@dns.example"}},
					Justification: "Filtering",
					Organization:  "Verif",
					Enabled:       true,
				},
				FilteredResponseTTL: rq.TTL,
				EDEEnabled:          true,
			})
			if err != nil {
				vrt.Fatalf("constructor of requester %s: %v", rq.Name, err)
			}
			c02HMsgs = append(c02HMsgs, m)
		}
	}

	return c02HMsgs[who]
}

// c02HCase is one history.
type c02HCase struct {
	Cfg c02Cfg `json:"cfg"`
	// Repl: 0 the hash-prefix filters replace by an address, 1 by a host.
	Repl  int        `json:"repl"`
	Steps []c02HStep `json:"steps"`
}

// c02HAsk asks one question and renders the whole verdict.
func c02HAsk(rig *c02ARig, f *composite.Filter, cfg c02Cfg, st c02HStep) (kind, src, full string, fs []vrt.Finding) {
	var res internal.Result
	var err error
	req := vdns.NewReq(4321, dns.Fqdn(st.Host), st.QType, dns.ClassINET)
	// With EDNS, so that the EDE of blocked answers shows.
	req.SetEdns0(1232, false)
	if p := vrt.Catch(func() {
		res, err = f.FilterRequest(context.Background(), &internal.Request{
			DNS:      req,
			Messages: c02HConstructor(rig, st.Who),
			RemoteIP: netip.MustParseAddr("192.0.2.200"),
			Host:     st.Host,
			QType:    st.QType,
			QClass:   dns.ClassINET,
		})
	}); p != "" {
		return "panic", "-", "panic: " + p, vrt.F("composite/panic", "FilterRequest(%s %s) panicked: %s", dns.Type(st.QType), st.Host, p)
	}
	if err != nil {
		return "error", "-", "error: " + err.Error(), vrt.F("composite/error", "FilterRequest(%s %s): %v", dns.Type(st.QType), st.Host, err)
	}
	kind, src = c02AObserve(cfg, res)
	full = kind + "/" + src
	switch res := res.(type) {
	case nil:
	case *internal.ResultModifiedResponse:
		full += fmt.Sprintf(" rule=%q response{%s an=%q ns=%q opt=%q}", res.Rule, dns.RcodeToString[res.Msg.Rcode],
			vdns.Section(res.Msg.Answer, true, false), vdns.Section(res.Msg.Ns, true, false), vdns.OPTString(res.Msg))
	case *internal.ResultModifiedRequest:
		full += fmt.Sprintf(" rule=%q request{%s}", res.Rule, vdns.Question(res.Msg))
	default:
		_, rule := res.MatchedRule()
		full += fmt.Sprintf(" rule=%q", rule)
	}

	return kind, src, full, nil
}

func c02HRun(r *vrt.Run, fresh, warm *c02ARig, c c02HCase) (fs []vrt.Finding) {
	warm.clearCaches()
	fw := warm.filterRepl(c.Cfg, c.Repl, false)
	var log []string
	for i, st := range c.Steps {
		kind, src, got, afs := c02HAsk(warm, fw, c.Cfg, st)
		fs = append(fs, afs...)
		_, _, want, ffs := c02HAsk(fresh, fresh.filterRepl(c.Cfg, c.Repl, true), c.Cfg, st)
		fs = append(fs, ffs...)
		r.Trans(2)
		log = append(log, fmt.Sprintf("[%s] %s %s -> %s", c02HRequesters[st.Who].Name, dns.Type(st.QType), st.Host, got))
		ctxt := c02Lazy(func() string {
			return fmt.Sprintf("config %s (hash-prefix replacement %s), question %d of the history [%s]",
				c.Cfg, []string{"address", "host"}[c.Repl], i+1, strings.Join(log, "; "))
		})
		if got != want {
			fs = append(fs, vrt.F("history/verdict-differs-from-fresh-filter",
				"%s: the verdict is {%s}; the same question on filters with empty caches gives {%s}", ctxt, got, want)...)
		}
		if len(afs) == 0 {
			fs = append(fs, c02Compare("history", "request", c02Precedence(c.Cfg, st.Host, st.QType, false), kind, src, ctxt)...)
		}
		r.Class("history:" + kind + "/" + src)
	}
	r.State("h|" + strings.Join(log, ";"))

	return fs
}

// c02HPart enumerates the histories.
func c02HPart(r *vrt.Run, fresh, warm *c02ARig, kinds [nSlots][]int) {
	thorough := r.Thorough()
	depth := vrt.Pick(r, 2, 3)
	// The step alphabet: every question type for h.test, and an address-like
	// and another type for a second host (quick: sub.h.test, which the
	// hash-prefix lists cover through h.test; thorough: also other.test).
	var steps []c02HStep
	for _, qt := range c02HQTypes {
		steps = append(steps, c02HStep{Host: c02Dom, QType: qt})
	}
	steps = append(steps, c02HStep{Host: c02Sub, QType: dns.TypeA}, c02HStep{Host: c02Sub, QType: dns.TypeTXT})
	if thorough {
		steps = append(steps, c02HStep{Host: c02Sub, QType: dns.TypeHTTPS}, c02HStep{Host: c02Sub, QType: dns.TypeMX},
			c02HStep{Host: c02Other, QType: dns.TypeA}, c02HStep{Host: c02Other, QType: dns.TypeTXT})
	}
	hashStates := []int{fOff, fMatch, fNoMatch}
	ssStates := []int{0, ssGen | ssYT}
	maxReq := 1
	r.Bound("history_depth", vrt.Pick(r, "2", "2 over the whole step alphabet, 3 over its first 10 steps"))
	r.Bound("history_step_alphabet", len(steps))
	r.Bound("history_max_request_rules", maxReq)
	vrt.Part(r, "history", func(emit func(c02HCase)) {
		c02ReqAssignments(kinds, maxReq, func(req [nSlots]int) {
			vrt.Odometer([]int{3, 3, 3, len(ssStates), 2}, func(sf []int) {
				cfg := c02Cfg{Req: req, SS: ssStates[sf[3]]}
				on := false
				for i := 0; i < nHash; i++ {
					cfg.Hash[i] = hashStates[sf[i]]
					on = on || cfg.Hash[i] != fOff
				}
				if sf[4] == 1 && !on {
					// The replacement variant only matters with a hash-prefix
					// filter on.
					return
				}
				if !thorough && depth == 2 && !on && cfg.SS == 0 && req == ([nSlots]int{}) {
					// Nothing configured at all: one history is enough.
					emit(c02HCase{Cfg: cfg, Repl: 0, Steps: []c02HStep{steps[0], steps[3]}})

					return
				}
				seqs := func(n, l int) {
					vrt.Sequences(n, l, l, func(seq []int) {
						hs := make([]c02HStep, len(seq))
						for i, si := range seq {
							hs[i] = steps[si]
						}
						emit(c02HCase{Cfg: cfg, Repl: sf[4], Steps: hs})
					})
				}
				// All pairs over the whole step alphabet; in the thorough
				// tier also all triples over its first ten steps.
				seqs(len(steps), 2)
				if depth >= 3 {
					seqs(10, 3)
				}
			})
		})
	}, func(c c02HCase) []vrt.Finding { return c02HRun(r, fresh, warm, c) })

	// Requesters that differ: every ordered pair of requesters asking the
	// same question (A, AAAA, HTTPS for a name the hash-prefix lists cover)
	// one after the other on the same filters; thorough adds a third question
	// by every requester.
	r.Bound("history_requesters", len(c02HRequesters))
	vrt.Part(r, "history-requesters", func(emit func(c02HCase)) {
		c02ReqAssignments(kinds, maxReq, func(req [nSlots]int) {
			vrt.Odometer([]int{3, 3, 3, 2, 2}, func(sf []int) {
				cfg := c02Cfg{Req: req, SS: ssStates[sf[3]]}
				on := false
				for i := 0; i < nHash; i++ {
					cfg.Hash[i] = hashStates[sf[i]]
					on = on || cfg.Hash[i] == fMatch
				}
				if !on {
					return
				}
				for _, h := range []string{c02Dom, c02Sub} {
					for _, qt := range []uint16{dns.TypeA, dns.TypeAAAA, dns.TypeHTTPS} {
						for a := range c02HRequesters {
							for b := range c02HRequesters {
								hs := []c02HStep{{h, qt, a}, {h, qt, b}}
								if !thorough {
									emit(c02HCase{Cfg: cfg, Repl: sf[4], Steps: hs})

									continue
								}
								for c := range c02HRequesters {
									emit(c02HCase{Cfg: cfg, Repl: sf[4], Steps: append(hs[:2:2], c02HStep{h, qt, c})})
								}
							}
						}
					}
				}
			})
		})
	}, func(c c02HCase) []vrt.Finding { return c02HRun(r, fresh, warm, c) })
}
