//go:build verif

package zzverifc02

// C02, unit 0 (tier a): the REAL composite.Filter, assembled from real
// rulelist filters compiled from text, real hashprefix.Filters over in-memory
// hashprefix.Storages and real safesearch.Filters, is asked FilterRequest and
// FilterResponse for every configuration x host x question type of the
// alphabet; the verdict (type and deciding list) is compared with the
// reference c02Precedence / c02RespPrecedence of ref_test.go.

import (
	"context"
	"fmt"
	"log/slog"
	"net/netip"
	"net/url"
	"os"
	"path/filepath"
	"strings"
	"testing"
	"time"

	"github.com/AdguardTeam/AdGuardDNS/internal/agdcache"
	"github.com/AdguardTeam/AdGuardDNS/internal/dnsmsg"
	"github.com/AdguardTeam/AdGuardDNS/internal/dnsserver/zzverif/vdns"
	"github.com/AdguardTeam/AdGuardDNS/internal/dnsserver/zzverif/vrt"
	"github.com/AdguardTeam/AdGuardDNS/internal/filter/hashprefix"
	"github.com/AdguardTeam/AdGuardDNS/internal/filter/internal"
	"github.com/AdguardTeam/AdGuardDNS/internal/filter/internal/composite"
	"github.com/AdguardTeam/AdGuardDNS/internal/filter/internal/refreshable"
	"github.com/AdguardTeam/AdGuardDNS/internal/filter/internal/rulelist"
	"github.com/AdguardTeam/AdGuardDNS/internal/filter/internal/safesearch"
	"github.com/miekg/dns"
)

type c02AErrColl struct{}

func (c02AErrColl) Collect(_ context.Context, _ error) {}

// c02ARig holds the real filter objects of one process.
type c02ARig struct {
	msgs *dnsmsg.Constructor
	// cached: rule lists, blocked-service lists and safe-search filters get
	// the real LRU result cache (history part); otherwise none.
	cached bool
	// caches[v] manages the result caches of the hash-prefix filters with
	// replacement variant v; listCaches are the other result caches.
	caches     [2]*agdcache.DefaultManager
	listCaches []agdcache.Clearer

	lists  map[string]*rulelist.Refreshable
	immuts map[string]*rulelist.Immutable

	hashStrg  [nHash]*hashprefix.Storage
	// hashFlt[0] replace by an address, hashFlt[1] by a host name.
	hashFlt   [2][nHash]*hashprefix.Filter
	hashText  [nHash]string

	ssGen, ssYT *safesearch.Filter
}

var (
	c02ALogger = slog.New(slog.NewTextHandler(os.Stderr, &slog.HandlerOptions{Level: slog.Level(100)}))
	c02AHashID = [nHash]internal.ID{internal.IDSafeBrowsing, internal.IDAdultBlocking, internal.IDNewRegDomains}
	// Replacement addresses of the hash-prefix filters.
	c02AHashRepl = [2][nHash]string{
		{"192.0.2.66", "192.0.2.67", "192.0.2.68"},
		{"repl-dangerous.test", "repl-adult.test", "repl-newly.test"},
	}
)

const (
	c02AListA internal.ID = "list_a"
	c02AListB internal.ID = "list_b"
	c02ASvcID             = "svc_x"
)

func c02ANewRig(dir string, cached bool) (rig *c02ARig) {
	rig = &c02ARig{
		cached: cached,
		caches: [2]*agdcache.DefaultManager{agdcache.NewDefaultManager(), agdcache.NewDefaultManager()},
		lists:  map[string]*rulelist.Refreshable{},
		immuts: map[string]*rulelist.Immutable{},
	}
	var err error
	rig.msgs, err = dnsmsg.NewConstructor(&dnsmsg.ConstructorConfig{
		Cloner:       dnsmsg.NewCloner(dnsmsg.EmptyClonerStat{}),
		BlockingMode: &dnsmsg.BlockingModeNullIP{},
		StructuredErrors: &dnsmsg.StructuredDNSErrorsConfig{
			Contact:       []*url.URL{{Scheme: "mailto", Opaque: "support@dns.example"}},
			Justification: "Filtering",
			Organization:  "Verif",
			Enabled:       true,
		},
		FilteredResponseTTL: 10 * time.Second,
		EDEEnabled:          true,
	})
	if err != nil {
		vrt.Fatalf("constructor: %v", err)
	}
	for i := 0; i < nHash; i++ {
		rig.hashStrg[i], err = hashprefix.NewStorage("")
		if err != nil {
			vrt.Fatalf("hashprefix.NewStorage: %v", err)
		}
		file := filepath.Join(dir, "hp-"+string(c02AHashID[i]))
		for v := 0; v < 2; v++ {
			rig.hashFlt[v][i], err = hashprefix.NewFilter(&hashprefix.FilterConfig{
				Logger:          c02ALogger,
				Cloner:          rig.msgs.Cloner(),
				CacheManager:    rig.caches[v],
				Hashes:          rig.hashStrg[i],
				URL:             &url.URL{Scheme: "file", Path: file},
				ErrColl:         c02AErrColl{},
				Metrics:         internal.EmptyMetrics{},
				ID:              c02AHashID[i],
				CachePath:       file,
				ReplacementHost: c02AHashRepl[v][i],
				Staleness:       time.Hour,
				CacheTTL:        time.Hour,
				RefreshTimeout:  time.Second,
				CacheCount:      64,
				MaxSize:         1 << 20,
			})
			if err != nil {
				vrt.Fatalf("hashprefix.NewFilter: %v", err)
			}
		}
	}
	rig.ssGen = c02ANewSafeSearch(dir, internal.IDGeneralSafeSearch, c02SSGenText, rig.newCache())
	rig.ssYT = c02ANewSafeSearch(dir, internal.IDYoutubeSafeSearch, c02SSYTText, rig.newCache())

	return rig
}

// c02ANewSafeSearch builds a real safe-search filter whose rules come from a
// cache file (no network).
func c02ANewSafeSearch(dir string, id internal.ID, text string, cache rulelist.ResultCache) (f *safesearch.Filter) {
	file := filepath.Join(dir, string(id))
	if err := os.WriteFile(file, []byte(text), 0o644); err != nil {
		vrt.Fatalf("writing %s: %v", file, err)
	}
	f, err := safesearch.New(&safesearch.Config{
		Refreshable: &refreshable.Config{
			Logger:    c02ALogger,
			URL:       &url.URL{Scheme: "http", Host: "lists.invalid", Path: "/" + string(id)},
			ID:        id,
			CachePath: file,
			Staleness: 1000 * time.Hour,
			Timeout:   time.Second,
			MaxSize:   1 << 20,
		},
		CacheTTL: time.Hour,
	}, cache)
	if err != nil {
		vrt.Fatalf("safesearch.New: %v", err)
	}
	if err = f.Refresh(context.Background(), true); err != nil {
		vrt.Fatalf("safesearch refresh: %v", err)
	}

	return f
}

// newCache returns the result cache of a rule list of this rig: the real LRU
// (as production configures it) for a caching rig, none otherwise.
func (rig *c02ARig) newCache() (cache rulelist.ResultCache) {
	if !rig.cached {
		return rulelist.ResultCacheEmpty{}
	}
	cache = rulelist.NewResultCache(100, true)
	rig.listCaches = append(rig.listCaches, cache)

	return cache
}

func (rig *c02ARig) list(text string, id internal.ID) (rl *rulelist.Refreshable) {
	k := string(id) + "\x00" + text
	if rl = rig.lists[k]; rl != nil {
		return rl
	}
	rl, err := rulelist.NewFromString(text, id, "", rig.newCache())
	if err != nil {
		vrt.Fatalf("rulelist.NewFromString(%q): %v", text, err)
	}
	rig.lists[k] = rl

	return rl
}

func (rig *c02ARig) immutable(text string, id internal.ID, svc internal.BlockedServiceID) (rl *rulelist.Immutable) {
	k := string(id) + "\x00" + text
	if rl = rig.immuts[k]; rl != nil {
		return rl
	}
	// Custom lists never have a result cache (custom.Filters).
	var cache rulelist.ResultCache = rulelist.ResultCacheEmpty{}
	if id != internal.IDCustom {
		cache = rig.newCache()
	}
	rl, err := rulelist.NewImmutable(text, id, svc, cache)
	if err != nil {
		vrt.Fatalf("rulelist.NewImmutable(%q): %v", text, err)
	}
	rig.immuts[k] = rl

	return rl
}

// filter assembles the real composite filter of cfg.  Rule lists are compiled
// from text; their result caches are disabled and the hash-prefix result
// caches are cleared, so no verdict of an earlier case is reused (C12).
func (rig *c02ARig) filter(cfg c02Cfg) (f *composite.Filter) { return rig.filterRepl(cfg, 0, true) }

// clearCaches empties every result cache of the rig.
func (rig *c02ARig) clearCaches() {
	for _, m := range rig.caches {
		for _, id := range m.IDs() {
			m.ClearByID(id)
		}
	}
	for _, c := range rig.listCaches {
		c.Clear()
	}
}

// filterRepl is filter with the replacement variant of the hash-prefix
// filters (0 address, 1 host name); with clear == false the result caches
// keep what earlier questions left in them.
func (rig *c02ARig) filterRepl(cfg c02Cfg, repl int, clear bool) (f *composite.Filter) {
	cc := &composite.Config{}
	text := func(s int, ident string) string {
		lines := c02ListLines(cfg.Req[s], cfg.Resp[s], cfg.RespTarget, ident)
		if len(lines) == 0 {
			return ""
		}

		return strings.Join(lines, "\n") + "\n"
	}
	if t := text(sCustom, "custom"); t != "" {
		cc.Custom = rig.immutable(t, internal.IDCustom, "")
	}
	for _, s := range []int{sList1, sList2} {
		cp := cfg.copyOf(s)
		if t := text(s, cp); t != "" {
			id := c02AListA
			if cp == "b" {
				id = c02AListB
			}
			cc.RuleLists = append(cc.RuleLists, rig.list(t, id))
		}
	}
	if t := text(sSvc, "svc"); t != "" {
		cc.ServiceLists = append(cc.ServiceLists, rig.immutable(t, internal.IDBlockedService, c02ASvcID))
	}
	for i := 0; i < nHash; i++ {
		st := cfg.Hash[i]
		if want := c02HashList(st); rig.hashText[i] != want {
			if _, err := rig.hashStrg[i].Reset(want); err != nil {
				vrt.Fatalf("hashprefix reset: %v", err)
			}
			rig.hashText[i] = want
		}
		if st == fOff {
			continue
		}
		switch i {
		case hDangerous:
			cc.SafeBrowsing = rig.hashFlt[repl][i]
		case hAdult:
			cc.AdultBlocking = rig.hashFlt[repl][i]
		case hNewly:
			cc.NewRegisteredDomains = rig.hashFlt[repl][i]
		}
	}
	if cfg.SS&ssGen != 0 {
		cc.GeneralSafeSearch = rig.ssGen
	}
	if cfg.SS&ssYT != 0 {
		cc.YouTubeSafeSearch = rig.ssYT
	}
	if clear {
		rig.clearCaches()
	}

	return composite.New(cc)
}

// c02ASrc maps the list id of a real result to the source name of the
// reference.
func c02ASrc(cfg c02Cfg, id internal.ID) (src string, safety bool) {
	switch id {
	case internal.IDCustom:
		return c02SlotName[sCustom], false
	case internal.IDBlockedService:
		return c02SlotName[sSvc], false
	case c02AListA, c02AListB:
		cp := "a"
		if id == c02AListB {
			cp = "b"
		}
		if cfg.copyOf(sList1) == cp {
			return c02SlotName[sList1], false
		}

		return c02SlotName[sList2], false
	case internal.IDSafeBrowsing:
		return srcDangerous, true
	case internal.IDAdultBlocking:
		return srcAdult, true
	case internal.IDNewRegDomains:
		return srcNewly, true
	case internal.IDGeneralSafeSearch:
		return srcSSGen, true
	case internal.IDYoutubeSafeSearch:
		return srcSSYT, true
	}

	return "unknown:" + string(id), false
}

// c02AObserve converts a real result into the vocabulary of the reference.
func c02AObserve(cfg c02Cfg, res internal.Result) (kind, src string) {
	if res == nil {
		return vNone, "-"
	}
	id, _ := res.MatchedRule()
	src, safety := c02ASrc(cfg, id)
	switch res.(type) {
	case *internal.ResultAllowed:
		return vAllowed, src
	case *internal.ResultBlocked:
		return vBlocked, src
	case *internal.ResultModifiedResponse, *internal.ResultModifiedRequest:
		if safety {
			return vSafety, src
		}

		return vRewrite, src
	}

	return fmt.Sprintf("unknown:%T", res), src
}

// c02ACase is one case of unit 0.
type c02ACase struct {
	Cfg   c02Cfg `json:"cfg"`
	Host  string `json:"host"`
	QType uint16 `json:"qtype"`
	// CNAME: the upstream answer goes through the marker CNAME.
	CNAME bool `json:"cname,omitempty"`
	// Resp: also run the response stage.
	Resp bool `json:"resp,omitempty"`
}

func c02ARun(r *vrt.Run, rig *c02ARig, c c02ACase) (fs []vrt.Finding) {
	ctx := context.Background()
	cfg := c.Cfg
	f := rig.filter(cfg)
	fqdn := dns.Fqdn(c.Host)
	ctxt := c02Lazy(func() string { return fmt.Sprintf("config %s, %s %s", cfg, dns.Type(c.QType), c.Host) })

	reqMsg := vdns.NewReq(4321, fqdn, c.QType, dns.ClassINET)
	var res internal.Result
	var err error
	if p := vrt.Catch(func() {
		res, err = f.FilterRequest(ctx, &internal.Request{
			DNS:      reqMsg,
			Messages: rig.msgs,
			RemoteIP: netip.MustParseAddr("192.0.2.200"),
			Host:     c.Host,
			QType:    c.QType,
			QClass:   dns.ClassINET,
		})
	}); p != "" {
		return vrt.F("composite/panic", "%s: FilterRequest panicked: %s", ctxt, p)
	}
	r.Trans(1)
	if err != nil {
		return vrt.F("composite/error", "%s: FilterRequest: %v", ctxt, err)
	}
	kind, src := c02AObserve(cfg, res)
	acc := c02Precedence(cfg, c.Host, c.QType, false)
	fs = append(fs, c02Compare("composite", "request", acc, kind, src, ctxt)...)
	obs := kind + "/" + src

	// A rewrite that wins must be the rewrite of the deciding source.
	if want, ok := acc[kind+"/"+src]; ok && kind == vRewrite {
		ident := "custom"
		for s := sList1; s <= sList2; s++ {
			if src == c02SlotName[s] {
				ident = cfg.copyOf(s)
			}
		}
		switch want.RwKind {
		case kRwIP:
			m, isResp := res.(*internal.ResultModifiedResponse)
			switch {
			case !isResp:
				fs = append(fs, vrt.F("composite/rewrite-answer/ip-not-a-response", "%s: rewrite to an address gave %T", ctxt, res)...)
			case c.QType == dns.TypeA:
				got := vdns.Section(m.Msg.Answer, false, true)
				want := vdns.Section([]dns.RR{vdns.MustRR(fqdn + " 0 IN A " + c02RwIP[ident])}, false, true)
				obs += " " + strings.Join(got, ",")
				if strings.Join(got, "|") != strings.Join(want, "|") {
					fs = append(fs, vrt.F("composite/rewrite-answer/ip", "%s: rewrite by %s answered %q, want %q", ctxt, src, got, want)...)
				}
			}
		case kRwRcode:
			m, isResp := res.(*internal.ResultModifiedResponse)
			if !isResp || m.Msg.Rcode != dns.RcodeRefused || len(m.Msg.Answer) != 0 {
				fs = append(fs, vrt.F("composite/rewrite-answer/rcode", "%s: rewrite to REFUSED by %s gave %T %s", ctxt, src, res, c02AMsg(res))...)
			}
		case kRwCNAME:
			m, isReq := res.(*internal.ResultModifiedRequest)
			if !isReq || !strings.EqualFold(m.Msg.Question[0].Name, c02RwCNAME[ident]+".") {
				fs = append(fs, vrt.F("composite/rewrite-answer/cname", "%s: rewrite to %s by %s gave %T %s", ctxt, c02RwCNAME[ident], src, res, c02AMsg(res))...)
			}
		}
	}

	if c.Resp {
		up := &dns.Msg{}
		up.SetReply(reqMsg)
		for _, s := range c02UpstreamAnswer(fqdn, c.QType, c.CNAME) {
			up.Answer = append(up.Answer, vdns.MustRR(s))
		}
		var rres internal.Result
		if p := vrt.Catch(func() {
			rres, err = f.FilterResponse(ctx, &internal.Response{DNS: up, RemoteIP: netip.MustParseAddr("192.0.2.200")})
		}); p != "" {
			return append(fs, vrt.F("composite/panic", "%s: FilterResponse panicked: %s", ctxt, p)...)
		}
		r.Trans(1)
		if err != nil {
			return append(fs, vrt.F("composite/error", "%s: FilterResponse: %v", ctxt, err)...)
		}
		rkind, rsrc := c02AObserve(cfg, rres)
		racc := c02RespPrecedence(cfg, c02AnswerObjects(fqdn, c.QType, c.CNAME), false)
		fs = append(fs, c02Compare("composite", "response", racc, rkind, rsrc, c02Lazy(func() string {
			return ctxt.String() + fmt.Sprintf(", upstream answer %q", vdns.Section(up.Answer, false, false))
		}))...)
		obs += " resp:" + rkind + "/" + rsrc
		r.Class("resp:" + rkind + "/" + rsrc)
	}
	r.Class("req:" + kind + "/" + src)
	// A state is a distinct (admitted verdicts, question type, observation).
	r.State(c02Keys(acc) + "|" + dns.Type(c.QType).String() + "|" + obs)

	return fs
}

func c02AMsg(res internal.Result) string {
	switch m := res.(type) {
	case *internal.ResultModifiedResponse:
		return vdns.Canon(m.Msg, true)
	case *internal.ResultModifiedRequest:
		return vdns.Canon(m.Msg, true)
	}

	return ""
}

func TestVerifC02Composite(t *testing.T) {
	r := vrt.Start("C02")
	rig := c02ANewRig(t.TempDir(), false)
	thorough := r.Thorough()

	// Request-side kinds per slot.
	listKinds := []int{kNone, kBlock, kAllow, kBlockA, kRwIP, kRwRcode, kRwCNAME, kHosts}
	svcKinds := []int{kNone, kBlock, kAllow, kBlockA, kHosts}
	if thorough {
		listKinds = append(listKinds, kAllowA)
		svcKinds = c02SvcKinds
	}
	kinds := [nSlots][]int{listKinds, listKinds, listKinds, svcKinds}
	hashStates := []int{fOff, fMatch, fNoMatch}
	ssStates := vrt.Pick(r, []int{0, ssGen, ssYT}, []int{0, ssGen, ssYT, ssGen | ssYT})
	r.Bound("request_rule_kinds_per_list_slot", len(listKinds)-1)
	r.Bound("request_rule_kinds_service_slot", len(svcKinds)-1)
	r.Bound("safety_states_per_hashprefix_filter", 3)
	r.Bound("safe_search_states", len(ssStates))
	hosts := vrt.Pick(r, c02Hosts, c02HostsThorough)
	r.Bound("hosts", hosts)
	r.Bound("qtypes", []string{"A", "AAAA", "HTTPS", "TXT"})

	run := func(c c02ACase) []vrt.Finding { return c02ARun(r, rig, c) }

	// Part 1: the full product of slot assignments x safety states x hosts x
	// question types, request stage.
	vrt.Part(r, "request", func(emit func(c02ACase)) {
		c02ReqAssignments(kinds, nSlots, func(req [nSlots]int) {
			vrt.Odometer([]int{3, 3, 3, len(ssStates)}, func(sf []int) {
				cfg := c02Cfg{Req: req, SS: ssStates[sf[3]]}
				for i := 0; i < nHash; i++ {
					cfg.Hash[i] = hashStates[sf[i]]
				}
				for _, h := range hosts {
					for _, qt := range c02QTypes {
						emit(c02ACase{Cfg: cfg, Host: h, QType: qt})
					}
				}
			})
		})
	}, run)

	// Part 2: response stage: every assignment of {none, block, allow} on an
	// answer object to the four slots x both objects, in the presence of
	// every single request-side rule, for every host, question type and both
	// answer forms.
	maxReq := vrt.Pick(r, 1, 2)
	r.Bound("response_part_max_request_rules", maxReq)
	vrt.Part(r, "response", func(emit func(c02ACase)) {
		vrt.Odometer([]int{3, 3, 3, 3, 2}, func(ri []int) {
			c02ReqAssignments(kinds, maxReq, func(req [nSlots]int) {
				cfg := c02Cfg{Req: req, Resp: [nSlots]int{ri[0], ri[1], ri[2], ri[3]}, RespTarget: ri[4]}
				for _, h := range hosts {
					for _, qt := range c02QTypes {
						for _, cn := range []bool{false, true} {
							emit(c02ACase{Cfg: cfg, Host: h, QType: qt, CNAME: cn, Resp: true})
						}
					}
				}
			})
		})
	}, run)

	// Part 3: histories of questions on one filter with all result caches on.
	c02HPart(r, rig, c02ANewRig(t.TempDir(), true), kinds)

	r.Finish()
	os.Exit(0)
}
