//go:build verif

package zzverifc02

// C02, shared by both units: the abstract rule grammar, its rendering to
// AdGuard syntax, the scripted upstream, and the INDEPENDENT reference
// precedence() written sentence by sentence from the property statement.
// Nothing in this file imports repository code.

import (
	"fmt"
	"sort"
	"strings"

	"github.com/miekg/dns"
)

// ---------------------------------------------------------------------------
// Alphabet

// Hosts.  Every request-side rule is about c02Dom; c02Sub is below it and
// c02Other is unrelated.
const (
	c02Dom   = "h.test"
	c02Sub   = "sub.h.test"
	c02Other = "other.test"
)

var c02Hosts = []string{c02Dom, c02Sub, c02Other}

// c02HostsThorough adds a name that merely ends in the characters of h.test.
var c02HostsThorough = []string{c02Dom, c02Sub, c02Other, "nh.test"}

// Question types: A, AAAA, HTTPS are the "address-like" types, TXT is not.
var c02QTypes = []uint16{dns.TypeA, dns.TypeAAAA, dns.TypeHTTPS, dns.TypeTXT}

// Rule sources ("slots").
const (
	sCustom = iota // the profile's custom rules
	sList1         // first shared list in configured order
	sList2         // second shared list in configured order
	sSvc           // blocked-service list
	nSlots
)

var c02SlotName = [nSlots]string{"custom", "list1", "list2", "svc"}

// Request-side rule kinds of the grammar.
const (
	kNone    = iota
	kBlock   // ||h.test^                         domain block
	kAllow   // @@||h.test^                       allow
	kBlockA  // ||h.test^$dnstype=A               block, A questions only
	kRwIP    // ||h.test^$dnsrewrite=<ip>         rewrite to an IPv4 address
	kRwRcode // ||h.test^$dnsrewrite=REFUSED      rewrite to a response code
	kRwCNAME // ||h.test^$dnsrewrite=<name>       rewrite to a canonical name
	kHosts   // 192.0.2.99 h.test                 hosts-style: blocks exactly h.test
	kAllowA  // @@||h.test^$dnstype=A             allow, A questions only
	nKinds
)

var c02KindName = [nKinds]string{"-", "block", "allow", "blockA", "rwIP", "rwRcode", "rwCNAME", "hosts", "allowA"}

// c02SvcKinds are the kinds offered in the blocked-service slot.  The
// statement names only custom rules and shared lists as sources of DNS
// rewrites, so the meaning of a rewrite in a blocked-service list is not
// defined and such lists are excluded.
var c02SvcKinds = []int{kNone, kBlock, kAllow, kBlockA, kHosts, kAllowA}

// Response-side rule kinds: a rule about an object of the upstream answer (an
// address or a CNAME target).
const (
	rNone = iota
	rBlock
	rAllow
	nRespKinds
)

var c02RespName = [nRespKinds]string{"-", "block", "allow"}

// Response rule targets.
const (
	tIP    = iota // the marker address upstream returns for h.test
	tCNAME        // the marker CNAME target
)

// Safety filter states.
const (
	fOff     = iota
	fMatch   // enabled, its list contains h.test
	fNoMatch // enabled, its list contains only an unrelated name
)

// Safety filters in hash-prefix form.
const (
	hDangerous = iota
	hAdult
	hNewly
	nHash
)

var c02HashName = [nHash]string{"dangerous", "adult", "newly"}

// Safe-search state bits.  The general list rewrites exactly h.test, the
// YouTube list rewrites exactly sub.h.test, so for either host "enabled and
// matching" and "enabled and not matching" are both reachable.
const (
	ssGen = 1
	ssYT  = 2
)

// c02Cfg is a filtering configuration of one requester.
type c02Cfg struct {
	// Req[s] is the request-side rule kind in slot s.
	Req [nSlots]int `json:"req"`
	// Resp[s] is the response-side rule kind in slot s; all response-side
	// rules of one configuration are about the same object, RespTarget.
	Resp       [nSlots]int `json:"resp"`
	RespTarget int         `json:"resp_target"`
	// Flip: the first configured shared list is copy "b" (larger id) and the
	// second is copy "a"; otherwise the other way round.
	Flip bool `json:"flip,omitempty"`
	// Hash[i] is the state of hash-prefix safety filter i.
	Hash [nHash]int `json:"hash"`
	// SS is the safe-search bit set.
	SS int `json:"ss"`
}

func (c c02Cfg) String() string {
	var p []string
	for s := 0; s < nSlots; s++ {
		if c.Req[s] != kNone || c.Resp[s] != rNone {
			x := c02SlotName[s] + "=" + c02KindName[c.Req[s]]
			if c.Resp[s] != rNone {
				x += "+resp-" + c02RespName[c.Resp[s]] + []string{"-ip", "-cname"}[c.RespTarget]
			}
			p = append(p, x)
		}
	}
	for i := 0; i < nHash; i++ {
		if c.Hash[i] != fOff {
			p = append(p, c02HashName[i]+"="+[]string{"off", "match", "nomatch"}[c.Hash[i]])
		}
	}
	if c.SS&ssGen != 0 {
		p = append(p, "ss-general")
	}
	if c.SS&ssYT != 0 {
		p = append(p, "ss-youtube")
	}
	if c.Flip {
		p = append(p, "flip")
	}
	if len(p) == 0 {
		return "{}"
	}

	return "{" + strings.Join(p, " ") + "}"
}

// copyOf returns which copy ("a" or "b") of the shared-list library sits in
// slot s (sList1 or sList2).
func (c c02Cfg) copyOf(s int) string {
	if (s == sList1) != c.Flip {
		return "a"
	}

	return "b"
}

// ---------------------------------------------------------------------------
// Rendering to AdGuard syntax

// Identities of rule-list texts: "custom", "a", "b" (shared-list copies),
// "svc".  Rewrite targets encode the identity, so the answer shows which
// source decided.
var (
	c02RwIP    = map[string]string{"custom": "192.0.2.10", "a": "192.0.2.11", "b": "192.0.2.12", "svc": "192.0.2.13"}
	c02RwCNAME = map[string]string{"custom": "c-custom.test", "a": "c-a.test", "b": "c-b.test", "svc": "c-svc.test"}
)

// Marker data of the scripted upstream.
const (
	c02MarkIPPrefix  = "203.0.113."
	c02MarkIP6Prefix = "2001:db8:203::"
	c02MarkCNAME     = "cn-marker.test"
	c02MarkTXT       = "upstream-marker"
	c02UpstreamTTL   = 300
)

// c02ReqRule renders a request-side rule.
func c02ReqRule(kind int, ident string) string {
	switch kind {
	case kNone:
		return ""
	case kBlock:
		return "||" + c02Dom + "^"
	case kAllow:
		return "@@||" + c02Dom + "^"
	case kBlockA:
		return "||" + c02Dom + "^$dnstype=A"
	case kRwIP:
		return "||" + c02Dom + "^$dnsrewrite=" + c02RwIP[ident]
	case kRwRcode:
		return "||" + c02Dom + "^$dnsrewrite=REFUSED"
	case kRwCNAME:
		return "||" + c02Dom + "^$dnsrewrite=" + c02RwCNAME[ident]
	case kHosts:
		return "192.0.2.99 " + c02Dom
	case kAllowA:
		return "@@||" + c02Dom + "^$dnstype=A"
	}
	panic("bad kind")
}

// c02RespTargetName is the object a response-side rule is about.
func c02RespTargetName(target int) string {
	if target == tCNAME {
		return c02MarkCNAME
	}

	return c02MarkIPPrefix + "1"
}

// c02RespRule renders a response-side rule.
func c02RespRule(kind, target int) string {
	switch kind {
	case rNone:
		return ""
	case rBlock:
		return "||" + c02RespTargetName(target) + "^"
	case rAllow:
		return "@@||" + c02RespTargetName(target) + "^"
	}
	panic("bad resp kind")
}

// c02ListLines renders the rules of one list.
func c02ListLines(reqKind, respKind, target int, ident string) (lines []string) {
	if r := c02ReqRule(reqKind, ident); r != "" {
		lines = append(lines, r)
	}
	if r := c02RespRule(respKind, target); r != "" {
		lines = append(lines, r)
	}

	return lines
}

// Safe-search lists (fixed): exact-host rewrites to a canonical name.
const (
	c02SSGenTarget = "safe-gen.test"
	c02SSYTTarget  = "safe-yt.test"
)

var (
	c02SSGenText = "|" + c02Dom + "^$dnsrewrite=NOERROR;CNAME;" + c02SSGenTarget + "\n"
	c02SSYTText  = "|" + c02Sub + "^$dnsrewrite=NOERROR;CNAME;" + c02SSYTTarget + "\n"
)

// c02HashList is the content of a hash-prefix list in the given state.  The
// list of a filter that is switched off contains h.test as well, so that a
// filter consulted although it is off shows.
func c02HashList(state int) string {
	if state == fNoMatch {
		return "unrelated.test\n"
	}

	return c02Dom + "\n"
}

// ---------------------------------------------------------------------------
// Scripted upstream

// c02NameIdx gives every name the upstream may be asked a marker index.
func c02NameIdx(name string) int {
	name = strings.TrimSuffix(strings.ToLower(name), ".")
	switch name {
	case c02Dom:
		return 1
	case c02Sub:
		return 2
	case c02Other:
		return 3
	}
	// Rewrite targets and anything else.
	h := 0
	for _, b := range []byte(name) {
		h = (h*31 + int(b)) % 200
	}

	return 10 + h
}

// c02UpstreamAnswer is the answer section upstream gives to (name, qtype).
// With cname == true address answers go through a marker CNAME.
func c02UpstreamAnswer(fqdn string, qt uint16, cname bool) (rrs []string) {
	i := c02NameIdx(fqdn)
	owner := fqdn
	if cname && (qt == dns.TypeA || qt == dns.TypeAAAA) {
		rrs = append(rrs, fmt.Sprintf("%s %d IN CNAME %s.", fqdn, c02UpstreamTTL, c02MarkCNAME))
		owner = c02MarkCNAME + "."
	}
	switch qt {
	case dns.TypeA:
		rrs = append(rrs, fmt.Sprintf("%s %d IN A %s%d", owner, c02UpstreamTTL, c02MarkIPPrefix, i))
	case dns.TypeAAAA:
		rrs = append(rrs, fmt.Sprintf("%s %d IN AAAA %s%d", owner, c02UpstreamTTL, c02MarkIP6Prefix, i))
	case dns.TypeHTTPS:
		rrs = append(rrs, fmt.Sprintf("%s %d IN HTTPS 1 . alpn=\"h2\" ipv4hint=%s%d", owner, c02UpstreamTTL, c02MarkIPPrefix, i))
	case dns.TypeTXT:
		rrs = append(rrs, fmt.Sprintf("%s %d IN TXT \"%s-%d\"", owner, c02UpstreamTTL, c02MarkTXT, i))
	}

	return rrs
}

// c02AnswerObjects lists the objects of the upstream answer a response-side
// rule can be about: addresses (also in HTTPS hints) and CNAME targets.
func c02AnswerObjects(fqdn string, qt uint16, cname bool) (objs map[string]bool) {
	objs = map[string]bool{}
	i := c02NameIdx(fqdn)
	if cname && (qt == dns.TypeA || qt == dns.TypeAAAA) {
		objs[c02MarkCNAME] = true
	}
	switch qt {
	case dns.TypeA, dns.TypeHTTPS:
		objs[fmt.Sprintf("%s%d", c02MarkIPPrefix, i)] = true
	case dns.TypeAAAA:
		objs[fmt.Sprintf("%s%d", c02MarkIP6Prefix, i)] = true
	}

	return objs
}

// c02HasUpstreamData reports whether a canonical RR string carries data of
// the scripted upstream.
func c02HasUpstreamData(rr string) bool {
	rr = strings.ToLower(rr)

	return strings.Contains(rr, c02MarkIPPrefix) || strings.Contains(rr, c02MarkIP6Prefix) ||
		strings.Contains(rr, c02MarkCNAME) || strings.Contains(rr, c02MarkTXT)
}

// ---------------------------------------------------------------------------
// Meaning of the grammar

func c02AddrLike(qt uint16) bool {
	return qt == dns.TypeA || qt == dns.TypeAAAA || qt == dns.TypeHTTPS
}

// c02Under reports whether host is dom or a subdomain of it (the meaning of
// "||dom^").
func c02Under(host, dom string) bool {
	return host == dom || strings.HasSuffix(host, "."+dom)
}

// c02Amb are the points where the statement (or the meaning of a rule form)
// can be read both ways; the oracle accepts the verdict of every reading.
type c02Amb struct {
	// hostsOther: a hosts-style rule "ip name" also blocks questions that are
	// neither A nor AAAA.
	hostsOther bool
	// safetyOther: the safety filters also apply to questions other than A,
	// AAAA and HTTPS.
	safetyOther bool
}

// c02Matches reports whether a request-side rule of the kind matches.
func c02Matches(kind int, host string, qt uint16, amb c02Amb) bool {
	switch kind {
	case kNone:
		return false
	case kBlockA, kAllowA:
		return c02Under(host, c02Dom) && qt == dns.TypeA
	case kHosts:
		if host != c02Dom {
			return false
		}

		return qt == dns.TypeA || qt == dns.TypeAAAA || amb.hostsOther
	default:
		return c02Under(host, c02Dom)
	}
}

func c02IsRewrite(kind int) bool { return kind == kRwIP || kind == kRwRcode || kind == kRwCNAME }
func c02IsAllow(kind int) bool   { return kind == kAllow || kind == kAllowA }
func c02IsBlock(kind int) bool   { return kind == kBlock || kind == kBlockA || kind == kHosts }

// ---------------------------------------------------------------------------
// The reference: precedence()

// Verdict kinds.
const (
	vNone    = "none"
	vAllowed = "allowed"
	vBlocked = "blocked"
	vRewrite = "rewrite"
	vSafety  = "safety"
)

// Safety sources.
const (
	srcDangerous = "dangerous"
	srcAdult     = "adult"
	srcSSGen     = "ss-general"
	srcSSYT      = "ss-youtube"
	srcNewly     = "newly"
)

// c02Verdict is a filtering verdict: kind and deciding source.
type c02Verdict struct {
	Kind string
	Src  string
	// RwKind is the kind of the deciding rewrite rule.
	RwKind int
}

func (v c02Verdict) key() string { return v.Kind + "/" + v.Src }

// c02SafetyMatch reports which safety sources are enabled and match host, in
// the order of the statement: dangerous, adult, safe search, newly registered.
// Safe search is one item of that order; its two lists are returned together.
func c02SafetyMatch(cfg c02Cfg, host string) (stages [][]string) {
	under := c02Under(host, c02Dom) // hash-prefix lists cover the listed name and its subdomains
	hash := func(i int, src string) []string {
		if cfg.Hash[i] == fMatch && under {
			return []string{src}
		}

		return nil
	}
	var ss []string
	if cfg.SS&ssGen != 0 && host == c02Dom {
		ss = append(ss, srcSSGen)
	}
	if cfg.SS&ssYT != 0 && host == c02Sub {
		ss = append(ss, srcSSYT)
	}

	return [][]string{hash(hDangerous, srcDangerous), hash(hAdult, srcAdult), ss, hash(hNewly, srcNewly)}
}

// c02Precedence returns every request-stage verdict the statement admits for
// (cfg, host, qtype) when filtering is enabled.  anonymous requesters have no
// custom rules.
func c02Precedence(cfg c02Cfg, host string, qt uint16, anonymous bool) (acc map[string]c02Verdict) {
	acc = map[string]c02Verdict{}
	req := cfg.Req
	if anonymous {
		req[sCustom] = kNone
	}
	for _, amb := range []c02Amb{{false, false}, {false, true}, {true, false}, {true, true}} {
		for _, v := range c02PrecedenceOne(cfg, req, host, qt, amb) {
			acc[v.key()] = v
		}
	}

	return acc
}

// c02PrecedenceOne is the statement, sentence by sentence, under one reading.
func c02PrecedenceOne(cfg c02Cfg, req [nSlots]int, host string, qt uint16, amb c02Amb) (vs []c02Verdict) {
	// "a DNS-rewrite rule wins outright (the profile's custom rules first,
	// then the shared lists in their configured order)"
	for _, s := range []int{sCustom, sList1, sList2} {
		if c02IsRewrite(req[s]) && c02Matches(req[s], host, qt, amb) {
			return []c02Verdict{{Kind: vRewrite, Src: c02SlotName[s], RwKind: req[s]}}
		}
	}

	// "otherwise an allow rule from any rule source beats every block rule
	// and a matching block rule blocks"
	var allows, blocks []int
	for s := 0; s < nSlots; s++ {
		if !c02Matches(req[s], host, qt, amb) {
			continue
		}
		if c02IsAllow(req[s]) {
			allows = append(allows, s)
		} else if c02IsBlock(req[s]) {
			blocks = append(blocks, s)
		}
	}
	if len(allows) == 0 && len(blocks) > 0 {
		// The statement does not say which of several matching block rules
		// is credited.
		for _, s := range blocks {
			vs = append(vs, c02Verdict{Kind: vBlocked, Src: c02SlotName[s]})
		}

		return vs
	}

	// "otherwise, unless the deciding allow rule is the profile's own, the
	// dangerous-domain, adult, safe-search and newly-registered filters apply
	// in that order"
	safety := func() *[]string {
		if !c02AddrLike(qt) && !amb.safetyOther {
			return nil
		}
		for _, st := range c02SafetyMatch(cfg, host) {
			if len(st) > 0 {
				return &st
			}
		}

		return nil
	}
	if len(allows) == 0 {
		if st := safety(); st != nil {
			for _, src := range *st {
				vs = append(vs, c02Verdict{Kind: vSafety, Src: src})
			}

			return vs
		}

		return []c02Verdict{{Kind: vNone, Src: "-"}}
	}
	// With several matching allow rules the statement does not say which one
	// is "the deciding" one: every one of them may be.
	for _, s := range allows {
		if s == sCustom {
			vs = append(vs, c02Verdict{Kind: vAllowed, Src: c02SlotName[s]})

			continue
		}
		if st := safety(); st != nil {
			for _, src := range *st {
				vs = append(vs, c02Verdict{Kind: vSafety, Src: src})
			}
		} else {
			vs = append(vs, c02Verdict{Kind: vAllowed, Src: c02SlotName[s]})
		}
	}

	return vs
}

// c02RespPrecedence returns every response-stage verdict the statement admits
// for the upstream answer with the given objects: an allow rule from any
// source beats every block rule, a matching block rule blocks.
func c02RespPrecedence(cfg c02Cfg, objs map[string]bool, anonymous bool) (acc map[string]c02Verdict) {
	acc = map[string]c02Verdict{}
	var allows, blocks []int
	if objs[c02RespTargetName(cfg.RespTarget)] {
		for s := 0; s < nSlots; s++ {
			if anonymous && s == sCustom {
				continue
			}
			switch cfg.Resp[s] {
			case rAllow:
				allows = append(allows, s)
			case rBlock:
				blocks = append(blocks, s)
			}
		}
	}
	switch {
	case len(allows) > 0:
		for _, s := range allows {
			v := c02Verdict{Kind: vAllowed, Src: c02SlotName[s]}
			acc[v.key()] = v
		}
	case len(blocks) > 0:
		for _, s := range blocks {
			v := c02Verdict{Kind: vBlocked, Src: c02SlotName[s]}
			acc[v.key()] = v
		}
	default:
		acc["none/-"] = c02Verdict{Kind: vNone, Src: "-"}
	}

	return acc
}

func c02Keys(acc map[string]c02Verdict) string {
	var ks []string
	for k := range acc {
		ks = append(ks, k)
	}
	sort.Strings(ks)

	return strings.Join(ks, " | ")
}

// ---------------------------------------------------------------------------
// Blocking modes and the shape of a blocked answer

// Blocking modes of a requester.
const (
	mNullIP = iota
	mCustomV4
	mCustomV46
	mNXDOMAIN
	mREFUSED
	nModes
)

var c02ModeName = [nModes]string{"null-ip", "custom-ip-v4", "custom-ip-v4v6", "nxdomain", "refused"}

// Custom blocking addresses.
const (
	c02CustomV4 = "198.51.100.4"
	c02CustomV6 = "2001:db8:51::6"
)

// c02BlockedShape is what the statement demands of a blocked answer: response
// code and the exact set of answer records (type + data).
func c02BlockedShape(mode int, qt uint16) (rcode int, answers []string) {
	switch mode {
	case mNullIP:
		// null IP; questions that have no address get NODATA.
		switch qt {
		case dns.TypeA:
			return dns.RcodeSuccess, []string{"A 0.0.0.0"}
		case dns.TypeAAAA:
			return dns.RcodeSuccess, []string{"AAAA ::"}
		}

		return dns.RcodeSuccess, nil
	case mCustomV4, mCustomV46:
		switch {
		case qt == dns.TypeA:
			return dns.RcodeSuccess, []string{"A " + c02CustomV4}
		case qt == dns.TypeAAAA && mode == mCustomV46:
			return dns.RcodeSuccess, []string{"AAAA " + c02CustomV6}
		}

		return dns.RcodeSuccess, nil
	case mNXDOMAIN:
		return dns.RcodeNameError, nil
	case mREFUSED:
		return dns.RcodeRefused, nil
	}
	panic("bad mode")
}
