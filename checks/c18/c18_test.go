//go:build verif

package connlimiter

import (
	"errors"
	"fmt"
	"io"
	"log/slog"
	"net"
	"os"
	"reflect"
	"strings"
	"testing"
	"time"
	"unsafe"

	"github.com/AdguardTeam/AdGuardDNS/internal/agd"
	"github.com/AdguardTeam/AdGuardDNS/internal/dnsserver"
	"github.com/AdguardTeam/AdGuardDNS/internal/dnsserver/zzverif/vrt"
	"github.com/AdguardTeam/AdGuardDNS/internal/dnsserver/zzverif/xsched"
)

// c18Scenario is one harness: a limiter shared by two listeners.
type c18Scenario struct {
	Stop, Resume uint64
	// Accepts[i] is the list of listener indexes task Ai accepts on, in order.
	Accepts [][]int
	// Closes is the number of connections the closer task closes, in order
	// of appearance; the first one is closed twice.
	Closes int
	// Shutdown, if >= 0, is the listener a shutdown task closes.
	Shutdown int
	// InnerErr allows the inner Accept to fail (environment deviation).
	InnerErr bool
	// Racer adds a task that closes the first connection concurrently with
	// the closer task.
	Racer bool
	// CloseErr makes the Close of the underlying connections report an error
	// (a TLS connection that cannot send its close_notify to a peer that has
	// gone away does): the connection is closed all the same, and its slot
	// must be released.
	CloseErr bool
	// LsnrCloseErr makes the Close of the underlying listeners report an
	// error (a socket that is already closed does): the listener is closed
	// all the same, and its waiters must be released.
	LsnrCloseErr bool
}

func (sc c18Scenario) String() string {
	return fmt.Sprintf("stop=%d resume=%d accepts=%v closes=%d shutdown=%d innererr=%v racer=%v closeerr=%v", sc.Stop, sc.Resume, sc.Accepts, sc.Closes, sc.Shutdown, sc.InnerErr, sc.Racer, sc.CloseErr) + map[bool]string{true: " lsnrcloseerr=true"}[sc.LsnrCloseErr]
}

type c18Conn struct {
	id     int
	closes int
	env    *c18Env
}

func (c *c18Conn) Read([]byte) (int, error)         { return 0, io.EOF }
func (c *c18Conn) Write(b []byte) (int, error)      { return len(b), nil }
func (c *c18Conn) LocalAddr() net.Addr              { return &net.TCPAddr{} }
func (c *c18Conn) RemoteAddr() net.Addr             { return &net.TCPAddr{} }
func (c *c18Conn) SetDeadline(time.Time) error      { return nil }
func (c *c18Conn) SetReadDeadline(time.Time) error  { return nil }
func (c *c18Conn) SetWriteDeadline(time.Time) error { return nil }

// Close is the moment the connection stops being open for the monitors.
func (c *c18Conn) Close() error {
	c.closes++
	c.env.open--
	if c.env.open <= int(c.env.sc.Resume) {
		c.env.blocked = false
	}
	if c.env.sc.CloseErr {
		return errors.New("tls: failed to send closeNotify alert (but connection was closed anyway)")
	}

	return nil
}

type c18Inner struct {
	env    *c18Env
	idx    int
	closed bool
}

// Accept is called by the limiter right after admission, with no scheduling
// point in between, so the monitors' count grows atomically with admission.
func (l *c18Inner) Accept() (net.Conn, error) {
	env := l.env
	if env.blocked {
		env.viol("connlimiter/admitted-before-resume", "listener %d admitted a connection after the count had reached stop=%d and before it fell to resume=%d (open+pending=%d)", l.idx, env.sc.Stop, env.sc.Resume, env.open)
	}
	env.open++
	if env.open > int(env.sc.Stop) {
		env.viol("connlimiter/count-exceeds-stop", "open+pending connections %d exceed stop=%d", env.open, env.sc.Stop)
	}
	if env.open >= int(env.sc.Stop) {
		env.blocked = true
	}
	if env.sc.InnerErr && xsched.Choose(2, "inner accept error") == 1 {
		env.open--
		if env.open <= int(env.sc.Resume) {
			env.blocked = false
		}

		return nil, errors.New("inner accept failed")
	}
	c := &c18Conn{id: len(env.conns), env: env}
	env.conns = append(env.conns, c)

	return c, nil
}

func (l *c18Inner) Close() error {
	l.closed = true
	if l.env.sc.LsnrCloseErr {
		return errors.New("close tcp 127.0.0.1:53: use of closed network connection")
	}

	return nil
}
func (l *c18Inner) Addr() net.Addr { return &net.TCPAddr{} }

type c18Env struct {
	sc       c18Scenario
	lim      *Limiter
	inner    []*c18Inner
	lsnr     []net.Listener
	conns    []*c18Conn
	handed   []net.Conn  // limited conns returned by Accept, in order
	open     int         // monitors' count: pending inner accepts + open conns
	blocked  bool        // count reached stop and has not yet fallen to resume
	parked   map[int]int // task id -> listener idx while inside Accept
	results  []string
	findings []vrt.Finding
	racerOK  bool
	firstOK  int

	// refAccepting is the hysteresis state derived from the history of the
	// limiter's own count, observed at every scheduling point.
	refAccepting bool
}

func (env *c18Env) viol(key, format string, args ...any) {
	for _, f := range env.findings {
		if f.Key == key {
			return
		}
	}
	env.findings = append(env.findings, vrt.F(key, format, args...)...)
}

var c18Logger = slog.New(slog.NewTextHandler(io.Discard, nil))

func c18Setup(sc c18Scenario, s *xsched.Sched) (env *c18Env) {
	env = &c18Env{sc: sc, parked: map[int]int{}, refAccepting: true}
	lim, err := New(&Config{Logger: c18Logger, Stop: sc.Stop, Resume: sc.Resume})
	if err != nil {
		vrt.Fatalf("limiter: %v", err)
	}
	env.lim = lim
	for i := 0; i < 2; i++ {
		in := &c18Inner{env: env, idx: i}
		env.inner = append(env.inner, in)
		env.lsnr = append(env.lsnr, lim.Limit(in, &dnsserver.ServerInfo{Name: fmt.Sprintf("l%d", i), Addr: "127.0.0.1:0", Proto: agd.ProtoDoT}))
	}
	for ai, seq := range sc.Accepts {
		s.Go(fmt.Sprintf("A%d", ai+1), func() {
			tid := s.Self().ID
			for _, li := range seq {
				env.parked[tid] = li
				c, aerr := env.lsnr[li].Accept()
				delete(env.parked, tid)
				switch {
				case aerr == nil:
					env.handed = append(env.handed, c)
					env.results = append(env.results, fmt.Sprintf("A%d:l%d:ok", ai+1, li))
				case errors.Is(aerr, net.ErrClosed):
					env.results = append(env.results, fmt.Sprintf("A%d:l%d:closed", ai+1, li))
					if !env.inner[li].closed {
						env.viol("connlimiter/errclosed-on-open-listener", "Accept on open listener %d returned %v", li, aerr)
					}
				default:
					env.results = append(env.results, fmt.Sprintf("A%d:l%d:err", ai+1, li))
				}
			}
		})
	}
	if sc.Closes > 0 {
		s.Go("C", func() {
			for k := 0; k < sc.Closes; k++ {
				s.Point("wait for a connection", func() bool { return len(env.handed) > k })
				c := env.handed[k]
				cerr := c.Close()
				if cerr == nil && k == 0 {
					env.firstOK++
				}
				if cerr != nil && !(sc.Racer && k == 0 && errors.Is(cerr, net.ErrClosed)) && !(sc.CloseErr && !errors.Is(cerr, net.ErrClosed)) {
					env.viol("connlimiter/first-close-failed", "first Close of connection %d returned %v", k, cerr)
				}
				if k == 0 {
					cerr = c.Close()
					if !errors.Is(cerr, net.ErrClosed) {
						env.viol("connlimiter/double-close-not-rejected", "second Close returned %v, want net.ErrClosed", cerr)
					}
				}
			}
		})
	}
	if sc.Racer {
		s.Go("C2", func() {
			s.Point("wait for the first connection", func() bool { return len(env.handed) > 0 })
			cerr := env.handed[0].Close()
			env.racerOK = cerr == nil
			if cerr != nil && !errors.Is(cerr, net.ErrClosed) {
				env.viol("connlimiter/close-error", "concurrent Close returned %v", cerr)
			}
		})
	}
	if sc.Shutdown >= 0 {
		s.Go("S", func() {
			xsched.Yield("before listener close")
			_ = env.lsnr[sc.Shutdown].Close()
			serr := env.lsnr[sc.Shutdown].Close()
			if !errors.Is(serr, net.ErrClosed) {
				env.viol("connlimiter/listener-double-close", "second listener Close returned %v", serr)
			}
		})
	}
	s.KeyFunc = func() string {
		// Called at every scheduling point: follow the count's history.  The
		// count changes by one per critical section, so no value is missed.
		c := env.lim.counter
		switch {
		case c.current >= sc.Stop:
			env.refAccepting = false
		case c.current <= sc.Resume:
			env.refAccepting = true
		}
		if c.current > sc.Stop {
			env.viol("connlimiter/count-exceeds-stop", "the limiter's count %d exceeds stop=%d", c.current, sc.Stop)
		}

		return c18Digest(env)
	}

	return env
}

// c18Waiters counts the tasks parked on the condition variables of the
// limiter and of its listeners.  The variables are found by reflection, so
// that the harness does not depend on where exactly they live.
func c18Waiters(env *c18Env) (n int) {
	seen := map[any]bool{}
	objs := []any{env.lim}
	for _, l := range env.lsnr {
		objs = append(objs, l)
	}
	for _, o := range objs {
		v := reflect.ValueOf(o)
		if v.Kind() != reflect.Pointer || v.IsNil() || v.Elem().Kind() != reflect.Struct {
			continue
		}
		v = v.Elem()
		for i := 0; i < v.NumField(); i++ {
			f := v.Field(i)
			if f.Kind() != reflect.Pointer || f.IsNil() {
				continue
			}
			p := reflect.NewAt(f.Type(), unsafe.Pointer(f.UnsafeAddr())).Elem().Interface()
			if w, ok := p.(interface{ Waiters() int }); ok && !seen[p] {
				seen[p] = true
				n += w.Waiters()
			}
		}
	}

	return n
}

func c18Digest(env *c18Env) string {
	var sb strings.Builder
	c := env.lim.counter
	fmt.Fprintf(&sb, "cur=%d acc=%v ref=%v open=%d blk=%v w=%d |", c.current, c.isAccepting, env.refAccepting, env.open, env.blocked, c18Waiters(env))
	for _, l := range env.lsnr {
		fmt.Fprintf(&sb, "%v", l.(*limitListener).isClosed)
	}
	for _, cn := range env.conns {
		fmt.Fprintf(&sb, "c%d", cn.closes)
	}
	fmt.Fprintf(&sb, "|h%d|%v|%v|%d", len(env.handed), env.results, env.parked, len(env.findings))

	return sb.String()
}

// c18Final checks the quiescence monitors.
func c18Final(env *c18Env, x *xsched.Exec) (fs []vrt.Finding) {
	fs = append(fs, env.findings...)
	if x.Sched.Panicked != "" {
		return append(fs, vrt.F("connlimiter/panic", "%s", x.Sched.Panicked)...)
	}
	if x.Sched.LimitHit {
		return append(fs, vrt.F("connlimiter/livelock", "step limit hit")...)
	}
	c := env.lim.counter
	if env.sc.Racer && len(env.handed) > 0 && !x.Sched.Deadlock {
		n := env.firstOK
		if env.racerOK {
			n++
		}
		if n != 1 {
			fs = append(fs, vrt.F("connlimiter/concurrent-close-not-exactly-once", "two tasks closed the same connection concurrently and %d of the Close calls succeeded; exactly one must", n)...)
		}
	}
	if int(c.current) != env.open {
		fs = append(fs, vrt.F("connlimiter/count-drift", "at quiescence the limiter counts %d connections but %d are open or pending (a release was lost or doubled)", c.current, env.open)...)
	}
	// At quiescence no operation is in progress, so the count is exact.  The
	// limiter must admit iff, since the count last reached stop, it has
	// fallen to resume.
	admits := env.refAccepting && c.current < env.sc.Stop
	if c.isAccepting != admits && int(c.current) == env.open {
		fs = append(fs, vrt.F("connlimiter/hysteresis-state-wrong", "at quiescence count=%d stop=%d resume=%d: limiter accepting=%v, but by the history of the count it should be %v", c.current, env.sc.Stop, env.sc.Resume, c.isAccepting, admits)...)
	}
	for tid, li := range env.parked {
		_ = tid
		if env.inner[li].closed {
			fs = append(fs, vrt.F("connlimiter/waiter-not-released-by-close", "an Accept stays parked on listener %d after the listener was closed", li)...)
		} else if admits {
			fs = append(fs, vrt.F("connlimiter/waiter-stuck-while-accepting", "at quiescence an Accept is still parked on open listener %d although the limiter admits connections again (open+pending=%d, stop=%d, resume=%d); blocked tasks: %v", li, env.open, env.sc.Stop, env.sc.Resume, x.Sched.Blocked)...)
		}
	}

	return fs
}

func c18Scenarios(thorough bool) (out []c18Scenario) {
	maxStop := uint64(3)
	for stop := uint64(1); stop <= maxStop; stop++ {
		for resume := uint64(0); resume <= stop; resume++ {
			out = append(out,
				c18Scenario{Stop: stop, Resume: resume, Accepts: [][]int{{0, 0}, {1}, {1}}, Closes: 2, Shutdown: -1},
				c18Scenario{Stop: stop, Resume: resume, Accepts: [][]int{{0, 0}, {1, 1}}, Closes: 1, Shutdown: 1},
				c18Scenario{Stop: stop, Resume: resume, Accepts: [][]int{{0, 0}, {1}}, Closes: 2, Shutdown: -1, InnerErr: true},
				c18Scenario{Stop: stop, Resume: resume, Accepts: [][]int{{0, 0}, {1}}, Closes: 1, Shutdown: -1, Racer: true},
				c18Scenario{Stop: stop, Resume: resume, Accepts: [][]int{{0, 0}, {1}}, Closes: 2, Shutdown: -1, CloseErr: true},
				c18Scenario{Stop: stop, Resume: resume, Accepts: [][]int{{0, 0}, {1, 1}}, Closes: 1, Shutdown: 1, LsnrCloseErr: true},
			)
			if thorough {
				out = append(out,
					c18Scenario{Stop: stop, Resume: resume, Accepts: [][]int{{0, 0, 0}, {1}, {1}}, Closes: 3, Shutdown: -1},
					c18Scenario{Stop: stop, Resume: resume, Accepts: [][]int{{0, 0}, {1}, {1}}, Closes: 2, Shutdown: 1, InnerErr: true},
				)
			}
		}
	}

	return out
}

type c18Case struct {
	Scenario c18Scenario `json:"scenario"`
	Choices  []int       `json:"choices"`
}

func TestVerifC18(t *testing.T) {
	// The unit also serves C20 (no accepted stop/resume pair makes the
	// connection limit unserviceable): the driver then sets VERIF_PROP.
	prop := "C18"
	if p := os.Getenv("VERIF_PROP"); p != "" {
		prop = p
	}
	r := vrt.Start(prop)
	var rc c18Case
	if r.ReplayCase("limiter", &rc) {
		var env *c18Env
		x := xsched.Replay(rc.Choices, func(s *xsched.Sched) { env = c18Setup(rc.Scenario, s) })
		fs := c18Final(env, x)
		r.Eval()
		if len(fs) > 0 {
			fs[0].Detail += "\nscenario: " + rc.Scenario.String() + "\nschedule:\n" + x.Sched.Describe()
		}
		r.Report("limiter", rc, fs)
	}
	if r.ShouldRun() {
		shard, nshards := r.NShards()
		pre := vrt.Pick(r, 2, 3)
		r.Bound("preemptions", pre)
		r.Bound("inner_accept_errors", 1)
		for si, sc := range c18Scenarios(r.Thorough()) {
			if si%nshards != shard {
				continue
			}
			var env *c18Env
			found := 0
			st := xsched.Explore(xsched.Config{MaxPreemptions: pre, MaxDeviations: 1, Prune: true, Stop: r.Expired},
				func(s *xsched.Sched) { env = c18Setup(sc, s) },
				func(x *xsched.Exec) bool {
					r.Eval()
					r.Trans(len(x.Sched.Trace))
					fs := c18Final(env, x)
					d := c18Digest(env)
					if r.State(sc.String() + d) {
						r.Sample(map[string]any{"scenario": sc.String(), "final": d, "deadlock": x.Sched.Deadlock})
					}
					r.Class(fmt.Sprintf("parked=%d open=%d", len(env.parked), env.open))
					if len(fs) > 0 {
						fs[0].Detail += "\nscenario: " + sc.String() + "\nschedule:\n" + x.Sched.Describe()
						r.Report("limiter", c18Case{Scenario: sc, Choices: x.Choices}, fs[:1])
						found++
					}

					return found < 2
				})
			r.Count("pruned", st.Pruned)
			if st.Stopped {
				r.Note("scenario %s stopped by deadline after %d executions", sc, st.Executions)
			}
		}
	}
	r.Finish()
	os.Exit(0)
}
