//go:build verif

package dnsserver

import (
	"context"
	"encoding/binary"
	"fmt"
	"io"
	"net"
	"os"
	"sort"
	"testing"
	"testing/synctest"
	"time"

	"github.com/AdguardTeam/AdGuardDNS/internal/dnsserver/zzverif/vrt"
	"github.com/miekg/dns"
)

// c18pCase is one history on one connection: Events[i] >= 0 sends query
// number Events[i]; Events[i] < 0 releases the handler of query -Events[i]-1.
type c18pCase struct {
	Limit  uint  `json:"max_pipeline_count"`
	Events []int `json:"events"`
}

type c18pHandler struct {
	gates    map[uint16]chan struct{}
	inflight int
	maxSeen  int
	started  []uint16
}

func (h *c18pHandler) ServeDNS(ctx context.Context, rw ResponseWriter, req *dns.Msg) error {
	h.inflight++
	h.maxSeen = max(h.maxSeen, h.inflight)
	h.started = append(h.started, req.Id)
	<-h.gates[req.Id]
	h.inflight--
	resp := &dns.Msg{}
	resp.SetReply(req)

	return rw.WriteMsg(ctx, req, resp)
}

func c18pRun(t *testing.T, c c18pCase) (fs []vrt.Finding, obs string) {
	n := 0
	for _, e := range c.Events {
		if e >= 0 {
			n++
		}
	}
	synctest.Test(t, func(t *testing.T) {
		h := &c18pHandler{gates: map[uint16]chan struct{}{}}
		for i := 0; i < n; i++ {
			h.gates[uint16(i+1)] = make(chan struct{})
		}
		s := NewServerDNS(ConfigDNS{
			ConfigBase:         ConfigBase{Name: "verif", Addr: "127.0.0.1:0", Handler: h},
			MaxPipelineCount:   c.Limit,
			MaxPipelineEnabled: true,
			TCPIdleTimeout:     30 * time.Second,
		})
		s.started = true
		client, server := net.Pipe()
		s.wg.Add(1)
		done := make(chan struct{})
		go func() {
			s.serveTCPConn(context.Background(), server)
			close(done)
		}()
		var answered []uint16
		readerDone := make(chan struct{})
		go func() {
			defer close(readerDone)
			for {
				var l uint16
				if err := binary.Read(client, binary.BigEndian, &l); err != nil {
					return
				}
				buf := make([]byte, l)
				if _, err := io.ReadFull(client, buf); err != nil {
					return
				}
				m := &dns.Msg{}
				if m.Unpack(buf) == nil {
					answered = append(answered, m.Id)
				}
			}
		}()
		released := map[uint16]bool{}
		for step, e := range c.Events {
			if e >= 0 {
				q := &dns.Msg{}
				q.SetQuestion(fmt.Sprintf("q%d.example.", e+1), dns.TypeA)
				q.Id = uint16(e + 1)
				b, _ := q.Pack()
				framed := make([]byte, 2+len(b))
				binary.BigEndian.PutUint16(framed, uint16(len(b)))
				copy(framed[2:], b)
				// The write completes when the server reads it; a server at
				// its limit does not read, so write in the background.
				go func() { _, _ = client.Write(framed) }()
			} else {
				id := uint16(-e)
				released[id] = true
				close(h.gates[id])
			}
			synctest.Wait()
			if h.inflight > int(c.Limit) || h.maxSeen > int(c.Limit) {
				fs = vrt.F("pipeline/in-flight-exceeds-limit", "limit %d: after step %d of %v, %d queries of one connection are being processed at the same time (max seen %d)", c.Limit, step, c.Events, h.inflight, h.maxSeen)

				break
			}
			// Every query that was started and released must be answered.
			for _, id := range h.started {
				if released[id] && !c18pHas(answered, id) {
					fs = vrt.F("pipeline/released-query-not-answered", "limit %d: after step %d of %v query %d was processed and released but no answer arrived (answered: %v)", c.Limit, step, c.Events, id, answered)
				}
			}
			if len(fs) > 0 {
				break
			}
		}
		// Release everything and let the connection finish.
		for id, g := range h.gates {
			if !released[id] {
				released[id] = true
				close(g)
			}
		}
		synctest.Wait()
		if len(fs) == 0 && len(answered) != n {
			sort.Slice(answered, func(i, j int) bool { return answered[i] < answered[j] })
			fs = vrt.F("pipeline/queries-lost", "limit %d: %d queries sent on one connection, all handlers released, but only %v were answered", c.Limit, n, answered)
		}
		obs = fmt.Sprintf("limit=%d max=%d started=%v answered=%d", c.Limit, h.maxSeen, h.started, len(answered))
		_ = client.Close()
		<-done
		<-readerDone
		s.workerPool.Release()
	})

	return fs, obs
}

func c18pHas(xs []uint16, x uint16) bool {
	for _, y := range xs {
		if y == x {
			return true
		}
	}

	return false
}

func TestVerifC18Pipeline(t *testing.T) {
	r := vrt.Start("C18")
	maxExtra := vrt.Pick(r, 2, 2)
	r.Bound("pipeline_burst", fmt.Sprintf("limit+%d queries", maxExtra))
	vrt.Part(r, "pipeline", func(emit func(c18pCase)) {
		for limit := uint(1); limit <= 3; limit++ {
			for k := 1; k <= int(limit)+maxExtra; k++ {
				// All interleavings of k sends (in order) and k releases where
				// query i is released after it was sent.
				var rec func(ev []int, sent int, rel map[int]bool)
				rec = func(ev []int, sent int, rel map[int]bool) {
					if sent == k && len(rel) == k {
						emit(c18pCase{Limit: limit, Events: append([]int{}, ev...)})

						return
					}
					if sent < k {
						rec(append(ev, sent), sent+1, rel)
					}
					for i := 0; i < sent; i++ {
						if !rel[i] {
							rel[i] = true
							rec(append(ev, -(i+1)), sent, rel)
							delete(rel, i)
						}
					}
				}
				rec(nil, 0, map[int]bool{})
			}
		}
	}, func(c c18pCase) []vrt.Finding {
		fs, obs := c18pRun(t, c)
		r.Trans(len(c.Events))
		r.Class(fmt.Sprintf("limit=%d", c.Limit))
		r.State(obs)

		return fs
	})
	r.Finish()
	os.Exit(0)
}
