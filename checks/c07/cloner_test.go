//go:build verif

package dnsmsg

// C07, part 2: exhaustive clone / dispose / mutate histories on the production
// message cloner.
//
// A history is a sequence of operations over a growing set of live messages:
//
//	N a    a fresh copy of alphabet message a becomes live (an ORIGINAL: it
//	       does not come from the cloner; born either from Go constructors or
//	       from the wire through Pack+Unpack, like an upstream response);
//	C k    clone live message k (an original or a clone) with the real
//	       Cloner.Clone; the clone becomes a new live message;
//	D k    release live message k with the real Cloner.Dispose (originals too:
//	       the server disposes whatever response it has written); k is dead
//	       afterwards and is never touched again by the harness;
//	W k m  mutate live message k the way the middlewares do (kind m).
//
// All histories up to the bound are enumerated.  The oracle is value based and
// restates the property: the value of every live message is a pure function
// of its provenance (alphabet message, birth, the mutations applied to it and
// to the messages it was cloned from before the clone was taken).  That value
// is computed on an object graph that the cloner never sees.  After every
// operation every live message must still have exactly that value.

import (
	"encoding/hex"
	"fmt"
	"net"
	"net/netip"
	"net/url"
	"os"
	"reflect"
	"runtime"
	"runtime/debug"
	"slices"
	"sort"
	"strconv"
	"strings"
	"testing"
	"time"

	"github.com/AdguardTeam/AdGuardDNS/internal/dnsserver/zzverif/vrt"
	"github.com/AdguardTeam/urlfilter/rules"
	"github.com/miekg/dns"
)

// ---- Alphabet ----------------------------------------------------------------

func c07Hdr(name string, rrtype uint16, ttl uint32) dns.RR_Header {
	return dns.RR_Header{Name: name, Rrtype: rrtype, Class: dns.ClassINET, Ttl: ttl}
}

func c07Q(name string, qt uint16) []dns.Question {
	return []dns.Question{{Name: name, Qtype: qt, Qclass: dns.ClassINET}}
}

// c07OPT returns an OPT record with the given UDP size and DO bit.
func c07OPT(udp uint16, do bool, opts []dns.EDNS0) *dns.OPT {
	o := &dns.OPT{Hdr: dns.RR_Header{Name: ".", Rrtype: dns.TypeOPT, Class: udp}, Option: opts}
	if do {
		o.Hdr.Ttl = 0x8000
	}

	return o
}

func c07IP6(last byte) net.IP {
	return net.IP{0x20, 0x01, 0x0d, 0xb8, 0, 0, 0, 0, 0, 0, 0, 0, 0, 0, last, last ^ 0xa5}
}

// c07Shape is one message shape of the alphabet.  Build returns a completely
// fresh object graph on every call.
type c07Shape struct {
	Name string
	Wire bool // also offered born from the wire
	Deep bool // member of the reduced alphabet of the deepest level (wire birth if offered, else built)
	// WireOnly shapes are offered born from the wire only.
	WireOnly bool
	// Ctor marks the members of the N alphabet of the constructor part: what
	// they leave in the pools is what the Constructor draws from.
	Ctor  bool
	Build func() *dns.Msg
}

var c07Shapes = []c07Shape{{
	// Plain request: every section nil.
	Name: "req_a",
	Build: func() *dns.Msg {
		return &dns.Msg{
			MsgHdr:   dns.MsgHdr{Id: 0x1001, RecursionDesired: true},
			Question: c07Q("a.example.", dns.TypeA),
		}
	},
}, {
	// Request with OPT: cookie + IPv4 client subnet; empty non-nil answer.
	Name: "req_https_opt", Deep: true, Ctor: true,
	Build: func() *dns.Msg {
		return &dns.Msg{
			MsgHdr:   dns.MsgHdr{Id: 0x1002, RecursionDesired: true, AuthenticatedData: true},
			Question: c07Q("svc.example.", dns.TypeHTTPS),
			Answer:   []dns.RR{},
			Extra: []dns.RR{c07OPT(1232, true, []dns.EDNS0{
				&dns.EDNS0_COOKIE{Code: dns.EDNS0COOKIE, Cookie: "0123456789abcdef"},
				&dns.EDNS0_SUBNET{Code: dns.EDNS0SUBNET, Family: 1, SourceNetmask: 24, Address: net.IP{192, 0, 2, 0}},
			})},
		}
	},
}, {
	// A, A (16-byte form), AAAA, AAAA.
	Name: "resp_a_aaaa", Wire: true, Deep: true, Ctor: true,
	Build: func() *dns.Msg {
		return &dns.Msg{
			MsgHdr:   dns.MsgHdr{Id: 0x1003, Response: true, RecursionDesired: true, RecursionAvailable: true},
			Compress: true,
			Question: c07Q("a.example.", dns.TypeA),
			Answer: []dns.RR{
				&dns.A{Hdr: c07Hdr("a.example.", dns.TypeA, 60), A: net.IP{192, 0, 2, 1}},
				&dns.A{Hdr: c07Hdr("a.example.", dns.TypeA, 61), A: net.IPv4(192, 0, 2, 2)},
				&dns.AAAA{Hdr: c07Hdr("a.example.", dns.TypeAAAA, 62), AAAA: c07IP6(1)},
				&dns.AAAA{Hdr: c07Hdr("a.example.", dns.TypeAAAA, 63), AAAA: c07IP6(2)},
			},
		}
	},
}, {
	// CNAME chain; OPT with nil option list.
	Name: "resp_cname_a", Deep: true, Ctor: true,
	Build: func() *dns.Msg {
		return &dns.Msg{
			MsgHdr:   dns.MsgHdr{Id: 0x1004, Response: true, RecursionDesired: true, RecursionAvailable: true},
			Question: c07Q("www.example.", dns.TypeA),
			Answer: []dns.RR{
				&dns.CNAME{Hdr: c07Hdr("www.example.", dns.TypeCNAME, 300), Target: "cdn.example."},
				&dns.CNAME{Hdr: c07Hdr("cdn.example.", dns.TypeCNAME, 20), Target: "edge.example."},
				&dns.A{Hdr: c07Hdr("edge.example.", dns.TypeA, 30), A: net.IP{198, 51, 100, 7}},
			},
			Extra: []dns.RR{c07OPT(4096, false, nil)},
		}
	},
}, {
	// MX, SRV, PTR, TXT, two of each; empty non-nil additional section.
	Name: "resp_mx_srv_ptr_txt", Deep: true, Ctor: true,
	Build: func() *dns.Msg {
		return &dns.Msg{
			MsgHdr:   dns.MsgHdr{Id: 0x1005, Response: true, RecursionAvailable: true},
			Question: c07Q("mail.example.", dns.TypeMX),
			Answer: []dns.RR{
				&dns.MX{Hdr: c07Hdr("mail.example.", dns.TypeMX, 100), Preference: 10, Mx: "mx1.example."},
				&dns.MX{Hdr: c07Hdr("mail.example.", dns.TypeMX, 101), Preference: 20, Mx: "mx2.example."},
				&dns.SRV{Hdr: c07Hdr("_imap._tcp.example.", dns.TypeSRV, 102), Priority: 1, Weight: 2, Port: 143, Target: "imap.example."},
				&dns.PTR{Hdr: c07Hdr("1.2.0.192.in-addr.arpa.", dns.TypePTR, 103), Ptr: "host.example."},
				&dns.TXT{Hdr: c07Hdr("mail.example.", dns.TypeTXT, 104), Txt: []string{"v=spf1", "-all", "x"}},
				&dns.SRV{Hdr: c07Hdr("_smtp._tcp.example.", dns.TypeSRV, 105), Priority: 5, Weight: 6, Port: 25, Target: "smtp.example."},
				&dns.PTR{Hdr: c07Hdr("2.2.0.192.in-addr.arpa.", dns.TypePTR, 106), Ptr: "other.example."},
				&dns.TXT{Hdr: c07Hdr("mail.example.", dns.TypeTXT, 107), Txt: []string{"second"}},
			},
			Extra: []dns.RR{},
		}
	},
}, {
	// NODATA: SOA in authority, OPT with EDE, empty non-nil answer.
	Name: "resp_nodata_soa_ede", Deep: true, Ctor: true,
	Build: func() *dns.Msg {
		return &dns.Msg{
			MsgHdr:   dns.MsgHdr{Id: 0x1006, Response: true, RecursionDesired: true, RecursionAvailable: true},
			Question: c07Q("nodata.example.", dns.TypeAAAA),
			Answer:   []dns.RR{},
			Ns: []dns.RR{&dns.SOA{
				Hdr: c07Hdr("example.", dns.TypeSOA, 900), Ns: "ns1.example.", Mbox: "hostmaster.example.",
				Serial: 2024010101, Refresh: 7200, Retry: 3600, Expire: 1209600, Minttl: 300,
			}},
			Extra: []dns.RR{c07OPT(1232, false, []dns.EDNS0{
				&dns.EDNS0_EDE{InfoCode: dns.ExtendedErrorCodeFiltered, ExtraText: "filtered"},
			})},
		}
	},
}, {
	// SOA in the answer, NS + SOA in authority, A/AAAA glue in additional:
	// special-cased types in sections where they are not special-cased.
	Name: "resp_soa_ns_glue",
	Build: func() *dns.Msg {
		soa := func(ttl uint32) *dns.SOA {
			return &dns.SOA{
				Hdr: c07Hdr("example.", dns.TypeSOA, ttl), Ns: "ns1.example.", Mbox: "hm.example.",
				Serial: 7, Refresh: 1, Retry: 2, Expire: 3, Minttl: 4,
			}
		}

		return &dns.Msg{
			MsgHdr:   dns.MsgHdr{Id: 0x1007, Response: true, Authoritative: true},
			Question: c07Q("example.", dns.TypeSOA),
			Answer:   []dns.RR{soa(3600)},
			Ns: []dns.RR{
				&dns.NS{Hdr: c07Hdr("example.", dns.TypeNS, 86400), Ns: "ns1.example."},
				soa(3601),
				&dns.SOA{
					Hdr: c07Hdr("sub.example.", dns.TypeSOA, 3602), Ns: "ns9.example.", Mbox: "root.example.",
					Serial: 70, Refresh: 10, Retry: 20, Expire: 30, Minttl: 40,
				},
			},
			Extra: []dns.RR{
				&dns.A{Hdr: c07Hdr("ns1.example.", dns.TypeA, 86400), A: net.IP{192, 0, 2, 53}},
				&dns.AAAA{Hdr: c07Hdr("ns1.example.", dns.TypeAAAA, 86400), AAAA: c07IP6(0x53)},
			},
		}
	},
}, {
	// Two HTTPS records with every parameter kind.
	Name: "resp_https_full", Wire: true, Deep: true,
	Build: func() *dns.Msg {
		return &dns.Msg{
			MsgHdr:   dns.MsgHdr{Id: 0x1008, Response: true, RecursionDesired: true, RecursionAvailable: true},
			Question: c07Q("svc.example.", dns.TypeHTTPS),
			Answer: []dns.RR{&dns.HTTPS{SVCB: dns.SVCB{
				Hdr: c07Hdr("svc.example.", dns.TypeHTTPS, 200), Priority: 1, Target: ".",
				Value: []dns.SVCBKeyValue{
					&dns.SVCBMandatory{Code: []dns.SVCBKey{dns.SVCB_ALPN, dns.SVCB_PORT}},
					&dns.SVCBAlpn{Alpn: []string{"h2", "h3"}},
					&dns.SVCBNoDefaultAlpn{},
					&dns.SVCBPort{Port: 8443},
					&dns.SVCBIPv4Hint{Hint: []net.IP{{192, 0, 2, 10}, {192, 0, 2, 11}}},
					&dns.SVCBECHConfig{ECH: []byte{0xfe, 0x0d, 0, 4, 1, 2, 3, 4}},
					&dns.SVCBIPv6Hint{Hint: []net.IP{c07IP6(0x10), c07IP6(0x11)}},
					&dns.SVCBDoHPath{Template: "/dns-query{?dns}"},
					&dns.SVCBOhttp{},
					&dns.SVCBLocal{KeyCode: dns.SVCBKey(65400), Data: []byte{9, 8, 7, 6}},
				},
			}}, &dns.HTTPS{SVCB: dns.SVCB{
				Hdr: c07Hdr("svc.example.", dns.TypeHTTPS, 201), Priority: 2, Target: "alt.example.",
				Value: []dns.SVCBKeyValue{
					&dns.SVCBMandatory{Code: []dns.SVCBKey{dns.SVCB_IPV4HINT}},
					&dns.SVCBAlpn{Alpn: []string{"http/1.1"}},
					&dns.SVCBPort{Port: 443},
					&dns.SVCBIPv4Hint{Hint: []net.IP{{192, 0, 2, 20}}},
					&dns.SVCBECHConfig{ECH: []byte{0xaa, 0xbb, 0xcc}},
					&dns.SVCBIPv6Hint{Hint: []net.IP{c07IP6(0x12)}},
					&dns.SVCBDoHPath{Template: "/q{?dns}"},
					&dns.SVCBLocal{KeyCode: dns.SVCBKey(65402), Data: []byte{1}},
				},
			}}},
		}
	},
}, {
	// HTTPS with five IPv4 hints and one IPv6 hint, plus an alias-form HTTPS
	// with a nil parameter list.
	Name: "resp_https_v4x5", Wire: true, Deep: true,
	Build: func() *dns.Msg {
		return &dns.Msg{
			MsgHdr:   dns.MsgHdr{Id: 0x1009, Response: true, RecursionDesired: true, RecursionAvailable: true},
			Question: c07Q("many.example.", dns.TypeHTTPS),
			Answer: []dns.RR{
				&dns.HTTPS{SVCB: dns.SVCB{
					Hdr: c07Hdr("many.example.", dns.TypeHTTPS, 210), Priority: 1, Target: "many.example.",
					Value: []dns.SVCBKeyValue{
						&dns.SVCBAlpn{Alpn: []string{"h2"}},
						&dns.SVCBIPv4Hint{Hint: []net.IP{
							{203, 0, 113, 1}, {203, 0, 113, 2}, {203, 0, 113, 3}, {203, 0, 113, 4}, {203, 0, 113, 5},
						}},
						&dns.SVCBIPv6Hint{Hint: []net.IP{c07IP6(0x20)}},
					},
				}},
				&dns.HTTPS{SVCB: dns.SVCB{
					Hdr: c07Hdr("many.example.", dns.TypeHTTPS, 211), Priority: 0, Target: "alias.example.",
				}},
			},
		}
	},
}, {
	// Two HTTPS records with IPv6 hints (3 and 2) and a 16-byte-form IPv4 hint.
	Name: "resp_https_v6", Wire: true, Deep: true,
	Build: func() *dns.Msg {
		return &dns.Msg{
			MsgHdr:   dns.MsgHdr{Id: 0x100a, Response: true, RecursionDesired: true, RecursionAvailable: true},
			Question: c07Q("six.example.", dns.TypeHTTPS),
			Answer: []dns.RR{
				&dns.HTTPS{SVCB: dns.SVCB{
					Hdr: c07Hdr("six.example.", dns.TypeHTTPS, 220), Priority: 1, Target: ".",
					Value: []dns.SVCBKeyValue{
						&dns.SVCBIPv6Hint{Hint: []net.IP{c07IP6(0x30), c07IP6(0x31), c07IP6(0x32)}},
					},
				}},
				&dns.HTTPS{SVCB: dns.SVCB{
					Hdr: c07Hdr("six.example.", dns.TypeHTTPS, 221), Priority: 2, Target: "b.six.example.",
					Value: []dns.SVCBKeyValue{
						&dns.SVCBIPv4Hint{Hint: []net.IP{net.IPv4(198, 51, 100, 40)}},
						&dns.SVCBIPv6Hint{Hint: []net.IP{c07IP6(0x40), c07IP6(0x41)}},
					},
				}},
			},
		}
	},
}, {
	// SVCB (not special-cased) in the answer; HTTPS and A in additional (not
	// special-cased there).
	Name: "resp_svcb_extra_https",
	Build: func() *dns.Msg {
		return &dns.Msg{
			MsgHdr:   dns.MsgHdr{Id: 0x100b, Response: true, RecursionAvailable: true},
			Question: c07Q("_dns.resolver.arpa.", dns.TypeSVCB),
			Answer: []dns.RR{&dns.SVCB{
				Hdr: c07Hdr("_dns.resolver.arpa.", dns.TypeSVCB, 230), Priority: 1, Target: "dot.example.",
				Value: []dns.SVCBKeyValue{
					&dns.SVCBAlpn{Alpn: []string{"dot"}},
					&dns.SVCBPort{Port: 853},
					&dns.SVCBIPv4Hint{Hint: []net.IP{{192, 0, 2, 80}}},
				},
			}},
			Extra: []dns.RR{
				&dns.HTTPS{SVCB: dns.SVCB{
					Hdr: c07Hdr("dot.example.", dns.TypeHTTPS, 231), Priority: 1, Target: ".",
					Value: []dns.SVCBKeyValue{
						&dns.SVCBAlpn{Alpn: []string{"h3"}},
						&dns.SVCBIPv6Hint{Hint: []net.IP{c07IP6(0x50)}},
					},
				}},
				&dns.A{Hdr: c07Hdr("dot.example.", dns.TypeA, 232), A: net.IP{192, 0, 2, 80}},
			},
		}
	},
}, {
	// OPT with options the cloner does not know (NSID, padding) after one it
	// knows (cookie) and before another (subnet): whole-OPT fallback.
	Name: "resp_opt_unknown", Wire: true, Deep: true,
	Build: func() *dns.Msg {
		return &dns.Msg{
			MsgHdr:   dns.MsgHdr{Id: 0x100c, Response: true, RecursionDesired: true, RecursionAvailable: true},
			Question: c07Q("pad.example.", dns.TypeA),
			Answer: []dns.RR{
				&dns.A{Hdr: c07Hdr("pad.example.", dns.TypeA, 240), A: net.IP{192, 0, 2, 90}},
			},
			Extra: []dns.RR{c07OPT(1232, false, []dns.EDNS0{
				&dns.EDNS0_COOKIE{Code: dns.EDNS0COOKIE, Cookie: "00112233445566778899aabbccddeeff"},
				&dns.EDNS0_NSID{Code: dns.EDNS0NSID, Nsid: "6e7331"},
				&dns.EDNS0_PADDING{Padding: []byte{0, 0, 0, 0, 0, 0, 0, 0, 0, 0, 0, 0}},
				&dns.EDNS0_SUBNET{Code: dns.EDNS0SUBNET, Family: 1, SourceNetmask: 24, SourceScope: 24, Address: net.IP{198, 51, 100, 0}},
			})},
		}
	},
}, {
	// OPT with an IPv6 client subnet and two EDE options.
	Name: "resp_opt_ecs6_ede", Deep: true, Ctor: true,
	Build: func() *dns.Msg {
		return &dns.Msg{
			MsgHdr:   dns.MsgHdr{Id: 0x100d, Response: true, RecursionDesired: true, RecursionAvailable: true, AuthenticatedData: true},
			Question: c07Q("ecs.example.", dns.TypeAAAA),
			Answer: []dns.RR{
				&dns.AAAA{Hdr: c07Hdr("ecs.example.", dns.TypeAAAA, 250), AAAA: c07IP6(0x60)},
			},
			Extra: []dns.RR{c07OPT(4096, true, []dns.EDNS0{
				&dns.EDNS0_SUBNET{
					Code: dns.EDNS0SUBNET, Family: 2, SourceNetmask: 56, SourceScope: 48,
					Address: net.IP{0x20, 0x01, 0x0d, 0xb8, 0x12, 0x34, 0x56, 0, 0, 0, 0, 0, 0, 0, 0, 0},
				},
				&dns.EDNS0_EDE{InfoCode: dns.ExtendedErrorCodeBlocked, ExtraText: "blocked by policy"},
				&dns.EDNS0_EDE{InfoCode: dns.ExtendedErrorCodeForgedAnswer},
			})},
		}
	},
}, {
	// Types the cloner never special-cases.
	Name: "resp_unhandled", Wire: true,
	Build: func() *dns.Msg {
		return &dns.Msg{
			MsgHdr:   dns.MsgHdr{Id: 0x100e, Response: true, RecursionAvailable: true, AuthenticatedData: true},
			Question: c07Q("example.", dns.TypeDNSKEY),
			Answer: []dns.RR{
				&dns.DNSKEY{Hdr: c07Hdr("example.", dns.TypeDNSKEY, 260), Flags: 257, Protocol: 3, Algorithm: 13, PublicKey: "mdsswUyr3DPW132mOi8V9xESWE8jTo0dxCjjnopKl+GqJxpVXckHAeF+KkxLbxILfDLUT0rAK9iUzy1L53eKGQ=="},
				&dns.CAA{Hdr: c07Hdr("example.", dns.TypeCAA, 261), Flag: 0, Tag: "issue", Value: "ca.example"},
				&dns.RFC3597{Hdr: c07Hdr("example.", 65280, 262), Rdata: "deadbeef"},
			},
			Ns: []dns.RR{
				&dns.NS{Hdr: c07Hdr("example.", dns.TypeNS, 263), Ns: "ns2.example."},
			},
		}
	},
}, {
	// No question, empty non-nil sections, parameters with empty and nil
	// lists.  Cannot come from the wire.
	Name: "odd_empty_lists",
	Build: func() *dns.Msg {
		return &dns.Msg{
			MsgHdr: dns.MsgHdr{Id: 0x100f, Response: true, Rcode: dns.RcodeFormatError},
			Answer: []dns.RR{
				&dns.HTTPS{SVCB: dns.SVCB{
					Hdr: c07Hdr("odd.example.", dns.TypeHTTPS, 270), Priority: 1, Target: ".",
					Value: []dns.SVCBKeyValue{
						&dns.SVCBMandatory{},
						&dns.SVCBAlpn{Alpn: []string{}},
						&dns.SVCBIPv4Hint{Hint: []net.IP{}},
						&dns.SVCBECHConfig{},
						&dns.SVCBIPv6Hint{Hint: []net.IP{}},
						&dns.SVCBLocal{KeyCode: dns.SVCBKey(65401)},
					},
				}},
				&dns.TXT{Hdr: c07Hdr("odd.example.", dns.TypeTXT, 271)},
			},
			Ns: []dns.RR{},
			// Two options of each kind the cloner recycles (not a legal OPT,
			// but the cloner does not care).
			Extra: []dns.RR{c07OPT(512, false, []dns.EDNS0{
				&dns.EDNS0_COOKIE{Code: dns.EDNS0COOKIE, Cookie: "1111111111111111"},
				&dns.EDNS0_COOKIE{Code: dns.EDNS0COOKIE, Cookie: "2222222222222222"},
				&dns.EDNS0_SUBNET{Code: dns.EDNS0SUBNET, Family: 1, SourceNetmask: 32, Address: net.IP{192, 0, 2, 200}},
				&dns.EDNS0_SUBNET{Code: dns.EDNS0SUBNET, Family: 2, SourceNetmask: 128, Address: c07IP6(0x70)},
			})},
		}
	},
}, {
	// Request of a DoT/DoH client: the OPT holds nothing but padding, an
	// option the cloner does not special-case, so the whole OPT takes the
	// fallback at its FIRST option.
	Name: "req_padding_only",
	Build: func() *dns.Msg {
		return &dns.Msg{
			MsgHdr:   dns.MsgHdr{Id: 0x1013, RecursionDesired: true},
			Question: c07Q("pad-only.example.", dns.TypeA),
			Extra: []dns.RR{c07OPT(1232, true, []dns.EDNS0{
				&dns.EDNS0_PADDING{Padding: make([]byte, 16)},
			})},
		}
	},
}, {
	// OPT that STARTS with an option the cloner does not special-case
	// (tcp-keepalive) followed by the three kinds it recycles.
	Name: "req_keepalive_ecs_cookie_ede", Deep: true, Ctor: true,
	Build: func() *dns.Msg {
		return &dns.Msg{
			MsgHdr:   dns.MsgHdr{Id: 0x1014, RecursionDesired: true, CheckingDisabled: true},
			Question: c07Q("keepalive.example.", dns.TypeAAAA),
			Extra: []dns.RR{c07OPT(4096, false, []dns.EDNS0{
				&dns.EDNS0_TCP_KEEPALIVE{Code: dns.EDNS0TCPKEEPALIVE, Timeout: 100},
				&dns.EDNS0_SUBNET{Code: dns.EDNS0SUBNET, Family: 1, SourceNetmask: 24, Address: net.IP{203, 0, 113, 0}},
				&dns.EDNS0_COOKIE{Code: dns.EDNS0COOKIE, Cookie: "cafecafecafecafe"},
				&dns.EDNS0_EDE{InfoCode: dns.ExtendedErrorCodeOther, ExtraText: "from the client"},
			})},
		}
	},
}, {
	// Response whose OPT starts with NSID, followed by an EDE option.
	Name: "resp_nsid_ede",
	Build: func() *dns.Msg {
		return &dns.Msg{
			MsgHdr:   dns.MsgHdr{Id: 0x1015, Response: true, RecursionDesired: true, RecursionAvailable: true, Rcode: dns.RcodeServerFailure},
			Question: c07Q("nsid.example.", dns.TypeA),
			Extra: []dns.RR{c07OPT(1232, false, []dns.EDNS0{
				&dns.EDNS0_NSID{Code: dns.EDNS0NSID, Nsid: "6e73"},
				&dns.EDNS0_EDE{InfoCode: dns.ExtendedErrorCodeNetworkError, ExtraText: "upstream down"},
			})},
		}
	},
}, {
	// Empty sections WITH spare capacity: answer and authority made with
	// capacity 2, additional emptied in place after an OPT was there (what
	// ecscache.rmHopToHopData leaves behind).  Cannot come from the wire.
	Name: "resp_nodata_spare_capacity", Deep: true,
	Build: func() *dns.Msg {
		extra := []dns.RR{c07OPT(1232, false, nil)}
		clear(extra)

		return &dns.Msg{
			MsgHdr:   dns.MsgHdr{Id: 0x1012, Response: true, RecursionDesired: true, RecursionAvailable: true},
			Question: c07Q("spare.example.", dns.TypeA),
			Answer:   make([]dns.RR, 0, 2),
			Ns:       make([]dns.RR, 0, 2),
			Extra:    extra[:0],
		}
	},
}, {
	// Upstream reply with an extended RCODE (BADVERS = 16, extended part 1):
	// its OPT carries 1 in the top byte of the TTL field.
	Name: "resp_badvers_ext1", WireOnly: true, Ctor: true,
	Build: func() *dns.Msg {
		opt := c07OPT(1232, false, []dns.EDNS0{
			&dns.EDNS0_COOKIE{Code: dns.EDNS0COOKIE, Cookie: "a1a2a3a4a5a6a7a8"},
		})
		opt.Hdr.Ttl = 0x01 << 24

		return &dns.Msg{
			MsgHdr:   dns.MsgHdr{Id: 0x1010, Response: true, RecursionDesired: true, RecursionAvailable: true, Rcode: dns.RcodeBadVers},
			Question: c07Q("badvers.example.", dns.TypeA),
			Extra:    []dns.RR{opt},
		}
	},
}, {
	// Upstream reply whose OPT has extended RCODE 255, EDNS version 1, DO and
	// two further Z bits set, with an EDE option.
	Name: "resp_ext255_v1_z", WireOnly: true, Ctor: true,
	Build: func() *dns.Msg {
		opt := c07OPT(4096, true, []dns.EDNS0{
			&dns.EDNS0_EDE{InfoCode: dns.ExtendedErrorCodeNoReachableAuthority, ExtraText: "no reachable authority"},
		})
		opt.Hdr.Ttl = 0xff<<24 | 1<<16 | 0x8000 | 0x4000 | 0x0001

		return &dns.Msg{
			MsgHdr:   dns.MsgHdr{Id: 0x1011, Response: true, RecursionDesired: true, RecursionAvailable: true, Rcode: 0xff0 | dns.RcodeServerFailure},
			Question: c07Q("ext.example.", dns.TypeA),
			Answer: []dns.RR{
				&dns.A{Hdr: c07Hdr("ext.example.", dns.TypeA, 280), A: net.IP{192, 0, 2, 111}},
			},
			Extra: []dns.RR{opt},
		}
	},
}}

// ---- Messages built by the real Constructor -----------------------------------

// c07Ctors are constructors of every blocking mode that share one cloner, as
// the profiles' and filtering groups' constructors do in production.
type c07Ctors struct {
	cl                        *Cloner
	null, nx, refused, custom *Constructor
}

func c07NewCtors(cl *Cloner) *c07Ctors {
	mk := func(bm BlockingMode, ede, sde bool) *Constructor {
		c, err := NewConstructor(&ConstructorConfig{
			Cloner: cl,
			StructuredErrors: &StructuredDNSErrorsConfig{
				Enabled:       sde,
				Justification: "Filtered by the verification harness",
				Organization:  "verif",
				Contact:       []*url.URL{{Scheme: "mailto", Opaque: "dns@verif.example"}},
			},
			BlockingMode:        bm,
			FilteredResponseTTL: 10 * time.Second,
			EDEEnabled:          ede,
		})
		if err != nil {
			vrt.Fatalf("constructor: %v", err)
		}

		return c
	}

	return &c07Ctors{
		cl:      cl,
		null:    mk(&BlockingModeNullIP{}, true, true),
		nx:      mk(&BlockingModeNXDOMAIN{}, true, false),
		refused: mk(&BlockingModeREFUSED{}, false, false),
		custom: mk(&BlockingModeCustomIP{
			IPv4: []netip.Addr{netip.MustParseAddr("198.51.100.1"), netip.MustParseAddr("198.51.100.2")},
			IPv6: []netip.Addr{netip.MustParseAddr("2001:db8::b1"), netip.MustParseAddr("2001:db8::b2")},
		}, true, false),
	}
}

// c07Req returns a fresh client request: kind "plain" has no OPT, "edns" an
// OPT without DO, "do" an OPT with DO and the CD bit, "sde" an OPT with the
// empty EDE option that asks for structured errors.
func c07Req(qt uint16, kind string) *dns.Msg {
	m := &dns.Msg{
		MsgHdr:   dns.MsgHdr{Id: 0x2000 + qt, RecursionDesired: true},
		Question: c07Q("blocked.example.", qt),
	}
	switch kind {
	case "edns":
		m.Extra = []dns.RR{c07OPT(1232, false, nil)}
	case "do":
		m.CheckingDisabled = true
		m.Extra = []dns.RR{c07OPT(4096, true, nil)}
	case "sde":
		m.Extra = []dns.RR{c07OPT(1232, false, []dns.EDNS0{&dns.EDNS0_EDE{}})}
	}

	return m
}

func c07Must(m *dns.Msg, err error) *dns.Msg {
	if err != nil {
		vrt.Fatalf("constructor call failed: %v", err)
	}

	return m
}

// c07Build is one call of the real Constructor, the argument of a B operation.
type c07Build struct {
	Name string
	Make func(cs *c07Ctors) *dns.Msg
}

var c07Builds = []c07Build{{
	Name: "nullip.NewBlockedResp(A,no-edns)",
	Make: func(cs *c07Ctors) *dns.Msg { return c07Must(cs.null.NewBlockedResp(c07Req(dns.TypeA, "plain"))) },
}, {
	Name: "nullip.NewBlockedResp(A,edns)",
	Make: func(cs *c07Ctors) *dns.Msg { return c07Must(cs.null.NewBlockedResp(c07Req(dns.TypeA, "edns"))) },
}, {
	Name: "nullip.NewBlockedResp(AAAA,edns-do)",
	Make: func(cs *c07Ctors) *dns.Msg { return c07Must(cs.null.NewBlockedResp(c07Req(dns.TypeAAAA, "do"))) },
}, {
	Name: "nullip.NewBlockedResp(HTTPS,edns-sde)",
	Make: func(cs *c07Ctors) *dns.Msg { return c07Must(cs.null.NewBlockedResp(c07Req(dns.TypeHTTPS, "sde"))) },
}, {
	Name: "nxdomain.NewBlockedResp(A,edns)",
	Make: func(cs *c07Ctors) *dns.Msg { return c07Must(cs.nx.NewBlockedResp(c07Req(dns.TypeA, "edns"))) },
}, {
	Name: "refused.NewBlockedResp(A,edns-do)",
	Make: func(cs *c07Ctors) *dns.Msg { return c07Must(cs.refused.NewBlockedResp(c07Req(dns.TypeA, "do"))) },
}, {
	Name: "customip.NewBlockedResp(A,edns)",
	Make: func(cs *c07Ctors) *dns.Msg { return c07Must(cs.custom.NewBlockedResp(c07Req(dns.TypeA, "edns"))) },
}, {
	Name: "customip.NewBlockedResp(AAAA,edns-do)",
	Make: func(cs *c07Ctors) *dns.Msg { return c07Must(cs.custom.NewBlockedResp(c07Req(dns.TypeAAAA, "do"))) },
}, {
	Name: "customip.NewBlockedResp(HTTPS,edns-do)",
	Make: func(cs *c07Ctors) *dns.Msg { return c07Must(cs.custom.NewBlockedResp(c07Req(dns.TypeHTTPS, "do"))) },
}, {
	Name: "NewRespRCode(A,edns,SERVFAIL)",
	Make: func(cs *c07Ctors) *dns.Msg {
		return cs.null.NewRespRCode(c07Req(dns.TypeA, "edns"), dns.RcodeServerFailure)
	},
}, {
	Name: "NewRespTXT(TXT,edns-do)",
	Make: func(cs *c07Ctors) *dns.Msg {
		return c07Must(cs.null.NewRespTXT(c07Req(dns.TypeTXT, "do"), "hash-1", "hash-2"))
	},
}, {
	Name: "NewRespIP(AAAA,edns,2 addrs incl. zero)",
	Make: func(cs *c07Ctors) *dns.Msg {
		return c07Must(cs.nx.NewRespIP(c07Req(dns.TypeAAAA, "edns"), netip.MustParseAddr("2001:db8::77"), netip.Addr{}))
	},
}, {
	// What the rule-list dnsrewrite and mainmw CNAME paths assemble: NewResp
	// plus NewAnswer* records, then AddEDE (as the safe-browsing path does).
	Name: "rewrite: NewResp+NewAnswerCNAME/MX/PTR/SRV+AddEDE(A,edns-do)",
	Make: func(cs *c07Ctors) *dns.Msg {
		req := c07Req(dns.TypeA, "do")
		resp := cs.null.NewResp(req)
		resp.Answer = append(resp.Answer,
			cs.null.NewAnswerCNAME(req, "rewritten.example"),
			cs.null.NewAnswerMX(req, &rules.DNSMX{Exchange: "mx.rewritten.example", Preference: 7}),
			cs.null.NewAnswerPTR(req, "ptr.rewritten.example"),
			cs.null.NewAnswerSRV(req, &rules.DNSSRV{Target: "srv.rewritten.example", Priority: 1, Weight: 2, Port: 3}),
		)
		cs.null.AddEDE(req, resp, dns.ExtendedErrorCodeForgedAnswer)

		return resp
	},
}, {
	// AddEDE on a response that already carries its own OPT (here: added the
	// way ecscache.setECS does): only the EDE option comes from the pools,
	// the OPT does not.
	Name: "AddEDE onto a response with its own OPT(A,edns)",
	Make: func(cs *c07Ctors) *dns.Msg {
		req := c07Req(dns.TypeA, "edns")
		resp := cs.null.NewRespRCode(req, dns.RcodeSuccess)
		resp.Extra = append(resp.Extra, c07OPT(1232, false, []dns.EDNS0{
			&dns.EDNS0_SUBNET{Code: dns.EDNS0SUBNET, Family: 1, SourceNetmask: 24, SourceScope: 24, Address: net.IP{198, 51, 100, 0}},
		}))
		cs.null.AddEDE(req, resp, dns.ExtendedErrorCodeBlocked)

		return resp
	},
}, {
	// What a cache miss does: the upstream response (OPT with an EDE option
	// left after hop-to-hop filtering) is cloned into the cache, written and
	// disposed by the server; the cached clone stays live.
	Name: "cache miss: keep Clone(upstream resp with OPT{EDE}), Dispose(resp)",
	Make: func(cs *c07Ctors) *dns.Msg {
		resp := &dns.Msg{
			MsgHdr:   dns.MsgHdr{Id: 0x2101, Response: true, RecursionDesired: true, RecursionAvailable: true, Rcode: dns.RcodeServerFailure},
			Question: c07Q("stale.example.", dns.TypeA),
			Extra: []dns.RR{c07OPT(1232, false, []dns.EDNS0{
				&dns.EDNS0_EDE{InfoCode: dns.ExtendedErrorCodeStaleAnswer, ExtraText: "stale"},
				&dns.EDNS0_EDE{InfoCode: dns.ExtendedErrorCodeNoReachableAuthority, ExtraText: "unreachable"},
			})},
		}
		cached := cs.cl.Clone(resp)
		cs.cl.Dispose(resp)

		return cached
	},
}, {
	// What ecscache / hashprefix / the debug path do with every request:
	// clone it.  A DoT/DoH client's OPT starts with padding.
	Name: "request clone: Clone(req, OPT{padding,subnet,cookie})",
	Make: func(cs *c07Ctors) *dns.Msg {
		req := c07Req(dns.TypeA, "plain")
		req.Extra = []dns.RR{c07OPT(1232, true, []dns.EDNS0{
			&dns.EDNS0_PADDING{Padding: make([]byte, 8)},
			&dns.EDNS0_SUBNET{Code: dns.EDNS0SUBNET, Family: 1, SourceNetmask: 24, Address: net.IP{192, 0, 2, 0}},
			&dns.EDNS0_COOKIE{Code: dns.EDNS0COOKIE, Cookie: "0011223344556677"},
		})}

		return cs.cl.Clone(req)
	},
}, {
	Name: "request clone: Clone(req, OPT{tcp-keepalive})",
	Make: func(cs *c07Ctors) *dns.Msg {
		req := c07Req(dns.TypeAAAA, "plain")
		req.Extra = []dns.RR{c07OPT(4096, false, []dns.EDNS0{
			&dns.EDNS0_TCP_KEEPALIVE{Code: dns.EDNS0TCPKEEPALIVE, Timeout: 300},
		})}

		return cs.cl.Clone(req)
	},
}}

// c07Entry is one (shape, birth) pair, the argument of an N operation, or one
// constructor call, the argument of a B operation.
type c07Entry struct {
	Shape int
	Wire  bool
	Name  string
	wire  []byte
	// IsB entries are built by c07Builds[B].
	IsB bool
	B   int
}

var c07Entries []c07Entry

func c07Init() {
	if c07Entries != nil {
		return
	}
	for i, s := range c07Shapes {
		if !s.WireOnly {
			c07Entries = append(c07Entries, c07Entry{Shape: i, Name: s.Name + "/built"})
		}
	}
	for i, s := range c07Shapes {
		if !s.Wire && !s.WireOnly {
			continue
		}
		b, err := s.Build().Pack()
		if err != nil {
			vrt.Fatalf("alphabet message %s does not pack: %v", s.Name, err)
		}
		if err = (&dns.Msg{}).Unpack(b); err != nil {
			vrt.Fatalf("alphabet message %s does not unpack: %v", s.Name, err)
		}
		c07Entries = append(c07Entries, c07Entry{Shape: i, Wire: true, Name: s.Name + "/wire", wire: b})
	}
	for i, b := range c07Builds {
		c07Entries = append(c07Entries, c07Entry{Shape: -1, IsB: true, B: i, Name: b.Name})
	}
}

// c07New returns a fresh original of entry e.
func c07New(e int) *dns.Msg {
	ent := &c07Entries[e]
	if ent.IsB {
		// The reference for a built message: the same call on a fresh cloner
		// and fresh constructors.
		return c07Builds[ent.B].Make(c07NewCtors(NewCloner(EmptyClonerStat{})))
	}
	if !ent.Wire {
		return c07Shapes[ent.Shape].Build()
	}
	m := &dns.Msg{}
	if err := m.Unpack(ent.wire); err != nil {
		vrt.Fatalf("unpacking %s: %v", ent.Name, err)
	}

	return m
}

// ---- Mutations ---------------------------------------------------------------

// c07MutKinds are the mutation kinds, modelled on what the middlewares do to
// messages they own.  Every mutation is a function of the VALUE of the message
// only, so that it can be applied to the shadow original as well.
var c07MutKinds = []string{"ttl", "inplace", "append", "trunc"}

func c07Flip(b []byte) {
	for i := range b {
		b[i] ^= 0x5a
	}
}

func c07Sections(m *dns.Msg) [][]dns.RR { return [][]dns.RR{m.Answer, m.Ns, m.Extra} }

func c07Mutate(m *dns.Msg, kind string) {
	// "append#k" is the append mutation applied to live message k: what it
	// appends names k, so that a record which lands in another message's
	// storage is visible.  The appended records belong to the provenance of
	// the appended-to message only.
	who := byte(0)
	if tag, ok := strings.CutPrefix(kind, "append#"); ok {
		n, err := strconv.Atoi(tag)
		if err != nil {
			vrt.Fatalf("bad mutation %q", kind)
		}
		who, kind = byte(n), "append"
	}
	whoS := strconv.Itoa(int(who))
	switch kind {
	case "ttl":
		// ecscache.fromCacheItem + CloneForReq + setECS on an existing option:
		// new header, fresh question slice, every TTL, subnet address REPLACED.
		m.Id ^= 0x5555
		m.Response = true
		m.AuthenticatedData = !m.AuthenticatedData
		if len(m.Question) > 0 {
			m.Question = []dns.Question{m.Question[0]}
		}
		for _, sec := range c07Sections(m) {
			for _, rr := range sec {
				rr.Header().Ttl = 7
				if opt, ok := rr.(*dns.OPT); ok {
					for _, o := range opt.Option {
						if sn, ok := o.(*dns.EDNS0_SUBNET); ok {
							sn.SourceNetmask, sn.SourceScope = 16, 16
							if sn.Family == 2 {
								sn.Address = net.IP{0x20, 0x01, 0x0d, 0xb8, 0, 0, 0, 0, 0, 0, 0, 0, 0, 0, 0, 0}
							} else {
								sn.Address = net.IP{10, 20, 0, 0}
							}
						}
					}
				}
			}
		}
	case "inplace":
		// mainmw.writeDebugResponse changes the question in place; the task
		// asks for in-place changes of rdata, OPT options and HTTPS values.
		if len(m.Question) > 0 {
			m.Question[0].Qclass = dns.ClassCHAOS
		}
		for _, sec := range c07Sections(m) {
			for _, rr := range sec {
				c07MutateRR(rr)
			}
		}
	case "append":
		// Filtering / debug / AddEDE / setECS / SetEdns0 append records and
		// options: one record to the answer and authority sections; to the
		// additional section exactly one OPT when there is none (SetEdns0 in
		// ecscache.setECS), else an EDE option (AddEDE) and a debug TXT.
		m.Answer = append(m.Answer, &dns.A{Hdr: c07Hdr("added-by-m"+whoS+".example.", dns.TypeA, 5), A: net.IP{203, 0, 113, 100 + who}})
		m.Ns = append(m.Ns, &dns.NS{Hdr: c07Hdr("example.", dns.TypeNS, 6), Ns: "ns-added-by-m" + whoS + ".example."})
		var opt *dns.OPT
		for _, rr := range m.Extra {
			if o, ok := rr.(*dns.OPT); ok {
				opt = o
			}
		}
		if opt != nil {
			opt.Option = append(opt.Option, &dns.EDNS0_EDE{InfoCode: dns.ExtendedErrorCodeFiltered, ExtraText: "added by m" + whoS})
			m.Extra = append(m.Extra, &dns.TXT{
				Hdr: dns.RR_Header{Name: "debug.", Rrtype: dns.TypeTXT, Class: dns.ClassCHAOS, Ttl: 1},
				Txt: []string{"added by m" + whoS},
			})
		} else {
			m.Extra = append(m.Extra, c07OPT(1232+uint16(who), who%2 == 1, []dns.EDNS0{
				&dns.EDNS0_SUBNET{Code: dns.EDNS0SUBNET, Family: 1, SourceNetmask: 24, Address: net.IP{192, 0, 2 + who, 0}},
			}))
		}
	case "trunc":
		// ecscache.rmHopToHopData: sections filtered in place, the tail
		// cleared; OPT options other than EDE deleted; empty OPT removed.
		if len(m.Answer) > 0 {
			m.Answer = slices.Delete(m.Answer, 0, 1)
		}
		m.Ns = nil
		m.Extra = slices.DeleteFunc(m.Extra, func(rr dns.RR) bool {
			opt, ok := rr.(*dns.OPT)
			if !ok {
				return false
			}
			opt.Option = slices.DeleteFunc(opt.Option, func(o dns.EDNS0) bool {
				_, isEDE := o.(*dns.EDNS0_EDE)

				return !isEDE
			})

			return len(opt.Option) == 0
		})
	default:
		vrt.Fatalf("unknown mutation kind %q", kind)
	}
}

func c07MutateKV(kv dns.SVCBKeyValue) {
	switch v := kv.(type) {
	case *dns.SVCBMandatory:
		for i := range v.Code {
			v.Code[i] += 100
		}
	case *dns.SVCBAlpn:
		for i := range v.Alpn {
			v.Alpn[i] += "x"
		}
	case *dns.SVCBPort:
		v.Port++
	case *dns.SVCBIPv4Hint:
		for _, ip := range v.Hint {
			c07Flip(ip)
		}
	case *dns.SVCBECHConfig:
		c07Flip(v.ECH)
	case *dns.SVCBIPv6Hint:
		for _, ip := range v.Hint {
			c07Flip(ip)
		}
	case *dns.SVCBDoHPath:
		v.Template += "x"
	case *dns.SVCBLocal:
		c07Flip(v.Data)
	}
}

func c07MutateRR(rr dns.RR) {
	if rr == nil {
		return
	}
	h := rr.Header()
	if h.Rrtype != dns.TypeOPT {
		h.Name = "m." + h.Name
	}
	switch v := rr.(type) {
	case *dns.A:
		c07Flip(v.A)
	case *dns.AAAA:
		c07Flip(v.AAAA)
	case *dns.CNAME:
		v.Target = "m." + v.Target
	case *dns.MX:
		v.Preference++
		v.Mx = "m." + v.Mx
	case *dns.PTR:
		v.Ptr = "m." + v.Ptr
	case *dns.SRV:
		v.Priority++
		v.Weight += 2
		v.Port += 3
		v.Target = "m." + v.Target
	case *dns.TXT:
		for i := range v.Txt {
			v.Txt[i] += "!"
		}
	case *dns.SOA:
		v.Ns = "m." + v.Ns
		v.Mbox = "m." + v.Mbox
		v.Serial++
		v.Refresh += 2
		v.Retry += 3
		v.Expire += 4
		v.Minttl += 5
	case *dns.NS:
		v.Ns = "m." + v.Ns
	case *dns.HTTPS:
		v.Priority++
		for _, kv := range v.Value {
			c07MutateKV(kv)
		}
	case *dns.SVCB:
		v.Priority++
		for _, kv := range v.Value {
			c07MutateKV(kv)
		}
	case *dns.DNSKEY:
		v.Flags++
	case *dns.CAA:
		v.Value += "!"
	case *dns.RFC3597:
		v.Rdata = "00" + v.Rdata
	case *dns.OPT:
		for _, o := range v.Option {
			switch o := o.(type) {
			case *dns.EDNS0_COOKIE:
				o.Cookie = "ffeeddccbbaa9988"
			case *dns.EDNS0_EDE:
				o.InfoCode++
				o.ExtraText += "!"
			case *dns.EDNS0_SUBNET:
				c07Flip(o.Address)
				o.SourceScope++
			case *dns.EDNS0_NSID:
				o.Nsid = "aabb"
			case *dns.EDNS0_PADDING:
				c07Flip(o.Padding)
			case *dns.EDNS0_TCP_KEEPALIVE:
				o.Timeout++
			}
		}
	}
}

// ---- Canonical value ---------------------------------------------------------

type c07Canon struct {
	b []byte
	// noRdlen leaves RR_Header.Rdlength out: it is bookkeeping of Unpack,
	// never packed and never read, so for constructor-built messages (whose
	// reference is a fresh build) a stale value is only counted as a hint.
	noRdlen bool
}

func (c *c07Canon) s(x string) { c.b = append(c.b, x...) }
func (c *c07Canon) u(x uint64) { c.b = strconv.AppendUint(c.b, x, 10); c.b = append(c.b, ' ') }
func (c *c07Canon) q(x string) { c.b = strconv.AppendQuote(c.b, x); c.b = append(c.b, ' ') }
func (c *c07Canon) h(x []byte) { c.b = hex.AppendEncode(c.b, x); c.b = append(c.b, ' ') }
func (c *c07Canon) f(x bool, n string) {
	if x {
		c.s(n)
	}
}

func (c *c07Canon) ips(ips []net.IP) {
	c.u(uint64(len(ips)))
	for _, ip := range ips {
		c.h(ip)
	}
}

func (c *c07Canon) kvs(vs []dns.SVCBKeyValue) {
	c.u(uint64(len(vs)))
	for _, kv := range vs {
		switch v := kv.(type) {
		case nil:
			c.s("<nil value> ")
		case *dns.SVCBMandatory:
			c.s("mandatory=")
			c.u(uint64(len(v.Code)))
			for _, k := range v.Code {
				c.u(uint64(k))
			}
		case *dns.SVCBAlpn:
			c.s("alpn=")
			c.u(uint64(len(v.Alpn)))
			for _, a := range v.Alpn {
				c.q(a)
			}
		case *dns.SVCBNoDefaultAlpn:
			c.s("no-default-alpn ")
		case *dns.SVCBPort:
			c.s("port=")
			c.u(uint64(v.Port))
		case *dns.SVCBIPv4Hint:
			c.s("ipv4hint=")
			c.ips(v.Hint)
		case *dns.SVCBECHConfig:
			c.s("ech=")
			c.h(v.ECH)
		case *dns.SVCBIPv6Hint:
			c.s("ipv6hint=")
			c.ips(v.Hint)
		case *dns.SVCBDoHPath:
			c.s("dohpath=")
			c.q(v.Template)
		case *dns.SVCBOhttp:
			c.s("ohttp ")
		case *dns.SVCBLocal:
			c.s("key")
			c.u(uint64(v.KeyCode))
			c.h(v.Data)
		default:
			c.s(fmt.Sprintf("%T{%v} ", kv, kv))
		}
	}
}

func (c *c07Canon) rr(rr dns.RR) {
	if rr == nil {
		c.s("<nil>")

		return
	}
	h := rr.Header()
	c.s(strings.TrimPrefix(reflect.TypeOf(rr).String(), "*dns."))
	c.s(" ")
	c.q(h.Name)
	c.u(uint64(h.Rrtype))
	c.u(uint64(h.Class))
	c.s("ttl=")
	c.u(uint64(h.Ttl))
	if !c.noRdlen {
		c.s("rdlen=")
		c.u(uint64(h.Rdlength))
	}
	c.s("| ")
	switch v := rr.(type) {
	case *dns.A:
		c.h(v.A)
	case *dns.AAAA:
		c.h(v.AAAA)
	case *dns.CNAME:
		c.q(v.Target)
	case *dns.MX:
		c.u(uint64(v.Preference))
		c.q(v.Mx)
	case *dns.PTR:
		c.q(v.Ptr)
	case *dns.SRV:
		c.u(uint64(v.Priority))
		c.u(uint64(v.Weight))
		c.u(uint64(v.Port))
		c.q(v.Target)
	case *dns.TXT:
		c.u(uint64(len(v.Txt)))
		for _, t := range v.Txt {
			c.q(t)
		}
	case *dns.SOA:
		c.q(v.Ns)
		c.q(v.Mbox)
		c.u(uint64(v.Serial))
		c.u(uint64(v.Refresh))
		c.u(uint64(v.Retry))
		c.u(uint64(v.Expire))
		c.u(uint64(v.Minttl))
	case *dns.HTTPS:
		c.u(uint64(v.Priority))
		c.q(v.Target)
		c.kvs(v.Value)
	case *dns.SVCB:
		c.u(uint64(v.Priority))
		c.q(v.Target)
		c.kvs(v.Value)
	case *dns.OPT:
		c.u(uint64(len(v.Option)))
		for _, o := range v.Option {
			switch o := o.(type) {
			case nil:
				c.s("<nil option> ")
			case *dns.EDNS0_COOKIE:
				c.s("cookie ")
				c.u(uint64(o.Code))
				c.q(o.Cookie)
			case *dns.EDNS0_EDE:
				c.s("ede ")
				c.u(uint64(o.InfoCode))
				c.q(o.ExtraText)
			case *dns.EDNS0_SUBNET:
				c.s("subnet ")
				c.u(uint64(o.Code))
				c.u(uint64(o.Family))
				c.u(uint64(o.SourceNetmask))
				c.u(uint64(o.SourceScope))
				c.h(o.Address)
			case *dns.EDNS0_NSID:
				c.s("nsid ")
				c.u(uint64(o.Code))
				c.q(o.Nsid)
			case *dns.EDNS0_PADDING:
				c.s("padding ")
				c.h(o.Padding)
			default:
				c.s(fmt.Sprintf("%T{%d %v} ", o, o.Option(), o))
			}
		}
	default:
		// Types outside the cloner's special cases: the text form of
		// miekg/dns (trusted base) carries every rdata field.
		c.s(strings.Join(strings.Fields(rr.String()), " "))
	}
}

var c07SecNames = [3]string{"answer", "authority", "additional"}

// c07Value returns the canonical value of m: one line per component.  Nil and
// empty lists are deliberately not distinguished (they are the same DNS
// message; the fallback through dns.Copy does not preserve the difference and
// the cloner's tests say so).
func c07Value(m *dns.Msg, noRdlen bool) (s string) {
	// A message damaged by the cloner may be unreadable (nil options).
	if p := vrt.Catch(func() { s = c07ValueRaw(m, noRdlen) }); p != "" {
		return "unreadable message, panic while reading: " + p
	}

	return s
}

func c07ValueRaw(m *dns.Msg, noRdlen bool) string {
	c := &c07Canon{b: make([]byte, 0, 1024), noRdlen: noRdlen}
	c.s("header id=")
	c.u(uint64(m.Id))
	c.s("op=")
	c.u(uint64(m.Opcode))
	c.s("rcode=")
	c.u(uint64(m.Rcode))
	c.f(m.Response, "qr ")
	c.f(m.Authoritative, "aa ")
	c.f(m.Truncated, "tc ")
	c.f(m.RecursionDesired, "rd ")
	c.f(m.RecursionAvailable, "ra ")
	c.f(m.Zero, "z ")
	c.f(m.AuthenticatedData, "ad ")
	c.f(m.CheckingDisabled, "cd ")
	c.f(m.Compress, "compress ")
	c.s("\nquestion ")
	c.u(uint64(len(m.Question)))
	for _, q := range m.Question {
		c.q(q.Name)
		c.u(uint64(q.Qtype))
		c.u(uint64(q.Qclass))
	}
	for si, sec := range c07Sections(m) {
		c.s("\n")
		c.s(c07SecNames[si])
		c.s(" count=")
		c.u(uint64(len(sec)))
		for i, rr := range sec {
			c.s("\n")
			c.s(c07SecNames[si])
			c.s("[")
			c.b = strconv.AppendInt(c.b, int64(i), 10)
			c.s("] ")
			c.rr(rr)
		}
	}

	return string(c.b)
}

// c07Pack returns the wire form of m, or the error.
func c07Pack(m *dns.Msg) (s string) {
	// Msg.Pack writes the upper bits of Msg.Rcode into the OPT record
	// (SetExtendedRcode); undo that so that observing does not change the
	// observed message.
	type saved struct {
		opt *dns.OPT
		ttl uint32
	}
	var opts []saved
	for _, rr := range m.Extra {
		if o, ok := rr.(*dns.OPT); ok && o != nil {
			opts = append(opts, saved{o, o.Hdr.Ttl})
		}
	}
	defer func() {
		for _, sv := range opts {
			sv.opt.Hdr.Ttl = sv.ttl
		}
	}()
	if p := vrt.Catch(func() {
		b, err := m.Pack()
		if err != nil {
			s = "pack error: " + err.Error()
		} else {
			s = string(b)
		}
	}); p != "" {
		return "pack panic: " + p
	}

	return s
}

// c07Component names the first differing component of two canonical values:
// "header", "question", "answer:HTTPS", ...
func c07Component(got, want string) (comp, gotLine, wantLine string) {
	g, w := strings.Split(got, "\n"), strings.Split(want, "\n")
	for i := 0; i < len(g) || i < len(w); i++ {
		var gl, wl string
		if i < len(g) {
			gl = g[i]
		}
		if i < len(w) {
			wl = w[i]
		}
		if gl == wl {
			continue
		}
		line := wl
		if line == "" {
			line = gl
		}
		f := strings.Fields(line)
		comp = f[0]
		if br := strings.IndexByte(comp, '['); br >= 0 && len(f) > 1 {
			// "answer[0] HTTPS ..." -> "answer:HTTPS"
			comp = comp[:br] + ":" + f[1]
		} else if len(f) > 1 && strings.HasPrefix(f[1], "count=") {
			comp += ":count"
		}

		return comp, gl, wl
	}

	return "none", "", ""
}

// ---- Expected values by provenance --------------------------------------------

type c07Prov struct {
	Entry int
	Muts  []string
}

func (p c07Prov) key() string { return strconv.Itoa(p.Entry) + "|" + strings.Join(p.Muts, ",") }

type c07Expect struct{ value, pack string }

var c07ExpCache = map[string]c07Expect{}

// c07Expected computes the value a message with provenance p must have, on an
// object graph of its own.
func c07Expected(p c07Prov) c07Expect {
	k := p.key()
	if e, ok := c07ExpCache[k]; ok {
		return e
	}
	m := c07New(p.Entry)
	for _, mu := range p.Muts {
		c07Mutate(m, mu)
	}
	e := c07Expect{value: c07Value(m, c07Entries[p.Entry].IsB), pack: c07Pack(m)}
	c07ExpCache[k] = e

	return e
}

// ---- Alias scan (hint only) ----------------------------------------------------

type c07Span struct {
	lo, hi uintptr
	owner  int
}

// c07Spans collects the memory reachable from v: pointed-to structs and slice
// backing arrays (full capacity when byCap, else the used part).  Strings are
// immutable and ignored, zero-size objects too.
func c07Spans(v reflect.Value, owner int, byCap bool, out *[]c07Span) {
	switch v.Kind() {
	case reflect.Pointer:
		if v.IsNil() {
			return
		}
		if sz := v.Type().Elem().Size(); sz > 0 {
			*out = append(*out, c07Span{lo: v.Pointer(), hi: v.Pointer() + sz, owner: owner})
		}
		c07Spans(v.Elem(), owner, byCap, out)
	case reflect.Interface:
		if !v.IsNil() {
			c07Spans(v.Elem(), owner, byCap, out)
		}
	case reflect.Slice:
		n := v.Len()
		if byCap {
			n = v.Cap()
		}
		if sz := v.Type().Elem().Size(); sz > 0 && n > 0 {
			*out = append(*out, c07Span{lo: v.Pointer(), hi: v.Pointer() + uintptr(n)*sz, owner: owner})
		}
		switch v.Type().Elem().Kind() {
		case reflect.Uint8, reflect.Uint16, reflect.String:
			// Leaves.
		default:
			for i := 0; i < v.Len(); i++ {
				c07Spans(v.Index(i), owner, byCap, out)
			}
		}
	case reflect.Struct:
		for i := 0; i < v.NumField(); i++ {
			c07Spans(v.Field(i), owner, byCap, out)
		}
	}
}

// c07Overlaps counts overlapping span pairs; with cross only pairs of
// different owners.
func c07Overlaps(spans []c07Span, cross bool) (n int) {
	sort.Slice(spans, func(i, j int) bool { return spans[i].lo < spans[j].lo })
	for i := range spans {
		for j := i + 1; j < len(spans) && spans[j].lo < spans[i].hi; j++ {
			if cross == (spans[i].owner != spans[j].owner) {
				n++
			}
		}
	}

	return n
}

// ---- Histories -------------------------------------------------------------------

// c07Op is one operation.
type c07Op struct {
	K string `json:"k"`           // N, B, C, D, W
	T int    `json:"t,omitempty"` // target slot (C, D, W)
	E int    `json:"e,omitempty"` // alphabet entry (N, B)
	M string `json:"m,omitempty"` // mutation kind (W)
}

// c07Case is one history.
type c07Case struct {
	Ops []c07Op `json:"ops"`
	// Text is informational.
	Text string `json:"text,omitempty"`
}

// c07Texts renders the operations of a history.
func c07Texts(ops []c07Op) (parts []string) {
	slot := 0
	for _, o := range ops {
		switch o.K {
		case "N":
			parts = append(parts, "m"+strconv.Itoa(slot)+"=new("+c07Entries[o.E].Name+")")
			slot++
		case "B":
			parts = append(parts, "m"+strconv.Itoa(slot)+"=build("+c07Entries[o.E].Name+")")
			slot++
		case "C":
			parts = append(parts, "m"+strconv.Itoa(slot)+"=Clone(m"+strconv.Itoa(o.T)+")")
			slot++
		case "D":
			parts = append(parts, "Dispose(m"+strconv.Itoa(o.T)+")")
		case "W":
			parts = append(parts, "mutate(m"+strconv.Itoa(o.T)+","+o.M+")")
		}
	}

	return parts
}

func c07Text(ops []c07Op) string { return strings.Join(c07Texts(ops), "; ") }

// c07Gen enumerates every history of exactly length n over the given entries
// and mutation kinds, in a fixed order (N, C, D, W; targets ascending).
// Histories that cannot show anything are skipped: a history whose last
// operation is N (N runs no repository code) and a history in which some
// original is never the target of a later operation (the cloner has never
// seen it, so nothing can have reached it).
//
// builds are the entries of the B operation (none in the parts without it).  A
// built message has run repository code and is judged when it is made, so B
// may be the last operation and its message need not be touched later.
func c07Gen(n int, entries, builds []int, muts []string, mine func() bool, emit func(c07Case)) {
	ops := make([]c07Op, 0, n)
	var alive []bool // per slot
	var used []bool  // per slot: has been a target (clones count as used)
	var rec func()
	rec = func() {
		if len(ops) == n {
			for _, u := range used {
				if !u {
					return
				}
			}
			cs := c07Case{Ops: append([]c07Op{}, ops...)}
			if mine() {
				cs.Text = c07Text(cs.Ops)
			}
			emit(cs)

			return
		}
		remaining := n - len(ops)
		unused := 0
		for _, u := range used {
			if !u {
				unused++
			}
		}
		if unused > remaining {
			return
		}
		// N: only if the new original can still be targeted afterwards.
		if remaining >= 2 && unused+1 <= remaining-1 {
			for _, e := range entries {
				ops = append(ops, c07Op{K: "N", E: e})
				alive = append(alive, true)
				used = append(used, false)
				rec()
				ops, alive, used = ops[:len(ops)-1], alive[:len(alive)-1], used[:len(used)-1]
			}
		}
		if unused <= remaining-1 {
			for _, e := range builds {
				ops = append(ops, c07Op{K: "B", E: e})
				alive = append(alive, true)
				used = append(used, true)
				rec()
				ops, alive, used = ops[:len(ops)-1], alive[:len(alive)-1], used[:len(used)-1]
			}
		}
		nslots := len(alive)
		for t := 0; t < nslots; t++ {
			if !alive[t] {
				continue
			}
			was := used[t]
			used[t] = true
			// C
			ops = append(ops, c07Op{K: "C", T: t})
			alive = append(alive, true)
			used = append(used, true)
			rec()
			ops, alive, used = ops[:len(ops)-1], alive[:len(alive)-1], used[:len(used)-1]
			used[t] = was
		}
		for t := 0; t < nslots; t++ {
			if !alive[t] {
				continue
			}
			was := used[t]
			used[t] = true
			alive[t] = false
			ops = append(ops, c07Op{K: "D", T: t})
			rec()
			ops = ops[:len(ops)-1]
			alive[t] = true
			used[t] = was
		}
		for t := 0; t < nslots; t++ {
			if !alive[t] {
				continue
			}
			was := used[t]
			used[t] = true
			for _, mu := range muts {
				ops = append(ops, c07Op{K: "W", T: t, M: mu})
				rec()
				ops = ops[:len(ops)-1]
			}
			used[t] = was
		}
	}
	rec()
}

type c07Slot struct {
	built   bool
	msg     *dns.Msg
	prov    c07Prov
	clone   bool
	mutated bool
	dead    bool
}

type c07Stat struct{ full, partial int }

func (s *c07Stat) OnClone(isFull bool) {
	if isFull {
		s.full++
	} else {
		s.partial++
	}
}

func c07Short(s string) string {
	if len(s) > 700 {
		return s[:700] + "…"
	}

	return s
}

// c07RunCase runs one history on a fresh real Cloner.
func c07RunCase(r *vrt.Run, c c07Case) (fs []vrt.Finding) {
	stat := &c07Stat{}
	cl := NewCloner(stat)
	var slots []*c07Slot
	deadMsgs := map[*dns.Msg]struct{}{}
	deadRRs := map[dns.RR]struct{}{}
	text := c07Text(c.Ops)
	var ctors *c07Ctors // real constructors sharing cl, made on the first B

	for step, op := range c.Ops {
		created := -1
		switch op.K {
		case "N":
			if op.E < 0 || op.E >= len(c07Entries) || c07Entries[op.E].IsB {
				vrt.Fatalf("bad case: entry %d", op.E)
			}
			slots = append(slots, &c07Slot{msg: c07New(op.E), prov: c07Prov{Entry: op.E}})
		case "B":
			if op.E < 0 || op.E >= len(c07Entries) || !c07Entries[op.E].IsB {
				vrt.Fatalf("bad case: build entry %d", op.E)
			}
			if ctors == nil {
				ctors = c07NewCtors(cl)
			}
			var msg *dns.Msg
			if p := vrt.Catch(func() { msg = c07Builds[c07Entries[op.E].B].Make(ctors) }); p != "" {
				return vrt.F("cloner/panic/build", "%s: step %d constructor panicked: %s", text, step, p)
			}
			r.Trans(1)
			r.Class("build " + c07Entries[op.E].Name)
			recycled, stale := 0, false
			for _, sec := range c07Sections(msg) {
				for _, rr := range sec {
					if _, ok := deadRRs[rr]; ok {
						recycled++
						delete(deadRRs, rr)
					}
					if rr.Header().Rdlength != 0 {
						stale = true
					}
				}
			}
			if recycled > 0 {
				r.Count("build_got_recycled_rr", recycled)
			}
			if stale {
				r.Count("hint_built_message_inherits_rdlength", 1)
			}
			created = len(slots)
			slots = append(slots, &c07Slot{msg: msg, prov: c07Prov{Entry: op.E}, built: true})
		case "C", "D", "W":
			if op.T < 0 || op.T >= len(slots) || slots[op.T].dead {
				vrt.Fatalf("bad case: step %d targets slot %d", step, op.T)
			}
		default:
			vrt.Fatalf("bad case: op %q", op.K)
		}
		switch op.K {
		case "C":
			src := slots[op.T]
			before := *stat
			var clone *dns.Msg
			if p := vrt.Catch(func() { clone = cl.Clone(src.msg) }); p != "" {
				return vrt.F("cloner/panic/clone", "%s: step %d Clone panicked: %s", text, step, p)
			}
			r.Trans(1)
			kind := "original"
			if src.clone {
				kind = "clone"
			} else if src.built {
				kind = "built message"
			}
			if stat.partial > before.partial {
				r.Class("clone of " + kind + ": partial (dns.Copy fallback used)")
			} else {
				r.Class("clone of " + kind + ": full")
			}
			if _, ok := deadMsgs[clone]; ok {
				r.Count("clone_got_recycled_msg", 1)
				delete(deadMsgs, clone)
			}
			recycled := 0
			for _, sec := range c07Sections(clone) {
				for _, rr := range sec {
					if _, ok := deadRRs[rr]; ok {
						recycled++
						delete(deadRRs, rr)
					}
				}
			}
			if recycled > 0 {
				r.Count("clone_got_recycled_rr", recycled)
			}
			created = len(slots)
			slots = append(slots, &c07Slot{
				msg:   clone,
				prov:  c07Prov{Entry: src.prov.Entry, Muts: append([]string{}, src.prov.Muts...)},
				clone: true,
			})
		case "D":
			s := slots[op.T]
			// Remember identities (not contents) to report recycling.
			deadMsgs[s.msg] = struct{}{}
			for _, sec := range c07Sections(s.msg) {
				for _, rr := range sec {
					deadRRs[rr] = struct{}{}
				}
			}
			if p := vrt.Catch(func() { cl.Dispose(s.msg) }); p != "" {
				return vrt.F("cloner/panic/dispose", "%s: step %d Dispose panicked: %s", text, step, p)
			}
			r.Trans(1)
			switch {
			case s.clone:
				r.Class("dispose clone")
			case s.built:
				r.Class("dispose built message")
			case c07Entries[s.prov.Entry].Wire:
				r.Class("dispose original born from the wire")
			default:
				r.Class("dispose original built by constructors")
			}
			s.dead = true
			s.msg = nil
		case "W":
			s := slots[op.T]
			mut := op.M
			if mut == "append" {
				mut = "append#" + strconv.Itoa(op.T)
			}
			c07Mutate(s.msg, mut)
			s.prov.Muts = append(s.prov.Muts, mut)
			s.mutated = true
			r.Class("mutate " + op.M)
		}

		// The oracle, after every operation.
		for k, s := range slots {
			if s.dead {
				continue
			}
			exp := c07Expected(s.prov)
			got := c07Value(s.msg, c07Entries[s.prov.Entry].IsB)
			var what string
			switch {
			case k == created && op.K == "B":
				what = "built-message-differs-from-fresh-build"
			case k == created:
				what = "clone-differs-from-source"
			case op.K == "W" && k == op.T:
				what = "mutated-message-differs-from-own-expectation"
			case op.K == "C":
				what = "live-message-altered-by-clone"
			case op.K == "B":
				what = "live-message-altered-by-build"
			case op.K == "D":
				what = "live-message-altered-by-dispose"
			default:
				what = "live-message-altered-by-mutation-of-another"
			}
			if got != exp.value {
				comp, gl, wl := c07Component(got, exp.value)

				return vrt.F("cloner/"+what+"/"+comp,
					"%s\n   after step %d (%s) live message m%d (%s, mutations %v) no longer has its value:\n   is    : %s\n   must be: %s",
					text, step, c07Texts(c.Ops)[step], k,
					c07Entries[s.prov.Entry].Name, s.prov.Muts, c07Short(gl), c07Short(wl))
			}
			if gp := c07Pack(s.msg); gp != exp.pack {
				return vrt.F("cloner/"+what+"/wire-form",
					"%s\n   after step %d live message m%d (%s, mutations %v) packs differently:\n   is    : %x\n   must be: %x",
					text, step, k, c07Entries[s.prov.Entry].Name, s.prov.Muts, gp, exp.pack)
			}
		}
	}

	// Hints and state digest at the end of the history (every prefix is a
	// history of its own).
	var spans []c07Span
	var digest strings.Builder
	live := 0
	for k, s := range slots {
		if s.dead {
			digest.WriteString("dead\n")

			continue
		}
		live++
		digest.WriteString(c07Expected(s.prov).value)
		digest.WriteString("\n--\n")
		c07Spans(reflect.ValueOf(s.msg), k, true, &spans)
		if s.clone {
			var own []c07Span
			c07Spans(reflect.ValueOf(s.msg), k, false, &own)
			if c07Overlaps(own, false) > 0 {
				r.Count("hint_clone_with_internal_aliasing", 1)
			}
		}
	}
	if n := c07Overlaps(spans, true); n > 0 {
		r.Count("hint_histories_with_memory_shared_between_live_messages", 1)
		if os.Getenv("VERIF_C07_DEBUG") != "" {
			fmt.Fprintf(os.Stderr, "ALIAS %s\n", text)
		}
	}
	r.Count("clones_full", stat.full)
	r.Count("clones_partial", stat.partial)
	r.Class(fmt.Sprintf("history ends with %d live messages", live))
	r.State(digest.String())

	return nil
}

func TestVerifC07Cloner(t *testing.T) {
	r := vrt.Start("C07")
	// A single P and no GC during a history: the sync.Pool behind every
	// syncutil.Pool then hands back released objects deterministically (the
	// private slot first, then the most recently released), which is the
	// most adversarial reuse.  Every history gets a fresh Cloner.
	debug.SetGCPercent(-1)
	c07Init()

	// Full alphabet up to depth; the reduced alphabet one operation deeper.
	depth := vrt.Pick(r, 4, 5)
	deep := depth + 1
	r.Bound("cloner_history_length", depth)
	r.Bound("cloner_mutation_kinds", len(c07MutKinds))
	r.Bound("cloner_history_length_reduced_alphabet", deep)
	var names []string
	var all, small, ctorN, builds []int
	var buildNames, ctorNames []string
	for i, e := range c07Entries {
		if e.IsB {
			builds = append(builds, i)
			buildNames = append(buildNames, e.Name)

			continue
		}
		all = append(all, i)
		names = append(names, e.Name)
		sh := c07Shapes[e.Shape]
		preferred := e.Wire || !sh.Wire
		if sh.Deep && preferred {
			small = append(small, i)
		}
		if sh.Ctor && preferred {
			ctorN = append(ctorN, i)
			ctorNames = append(ctorNames, e.Name)
		}
	}
	r.Bound("cloner_alphabet_entries", len(all))
	if os.Getenv("VERIF_C07_DUMP") != "" {
		for i, e := range c07Entries {
			fmt.Fprintf(os.Stderr, "ENTRY %d %s\n%s\n\n", i, e.Name, c07Expected(c07Prov{Entry: i}).value)
		}
	}
	r.Note("cloner alphabet: %s; mutation kinds: %s", strings.Join(names, ", "), strings.Join(c07MutKinds, ", "))

	// The informational text is only rendered for the histories of this
	// shard (vrt.Part shards by enumeration index).
	shard, nshards := r.NShards()
	gi := 0
	mine := func() bool {
		gi++

		return (gi-1)%nshards == shard
	}
	n := 0
	run := func(c c07Case) []vrt.Finding {
		n++
		if n%128 == 0 {
			runtime.GC()
		}

		return c07RunCase(r, c)
	}
	vrt.Part(r, "cloner", func(emit func(c07Case)) {
		for l := 1; l <= depth; l++ {
			c07Gen(l, all, nil, c07MutKinds, mine, emit)
		}
	}, run)
	if deep > depth {
		var sn []string
		for _, i := range small {
			sn = append(sn, c07Entries[i].Name)
		}
		r.Bound("cloner_reduced_alphabet_entries", len(small))
		r.Note("cloner reduced alphabet for length %d: %s; all mutation kinds", deep, strings.Join(sn, ", "))
		vrt.Part(r, "cloner-deep", func(emit func(c07Case)) {
			for l := depth + 1; l <= deep; l++ {
				c07Gen(l, small, nil, c07MutKinds, mine, emit)
			}
		}, run)
	}

	// Constructor part: histories with the B operation (a response built by
	// the real Constructor that shares the cloner) over a reduced N alphabet.
	bdepth := 4
	r.Bound("cloner_build_history_length", bdepth)
	r.Bound("cloner_build_calls", len(builds))
	r.Bound("cloner_build_alphabet_entries", len(ctorN))
	r.Note("constructor part: B calls: %s; N alphabet: %s; all mutation kinds", strings.Join(buildNames, ", "), strings.Join(ctorNames, ", "))
	vrt.Part(r, "cloner-build", func(emit func(c07Case)) {
		for l := 1; l <= bdepth; l++ {
			muts := c07MutKinds
			if l == bdepth && !r.Thorough() {
				// Quick: the longest histories without the filtering
				// mutation, which only takes parts away before a release.
				muts = []string{"ttl", "inplace", "append"}
			}
			c07Gen(l, ctorN, builds, muts, mine, emit)
		}
		if r.Thorough() {
			c07Gen(bdepth+1, ctorN, builds, []string{"ttl"}, mine, emit)
		}
	}, run)
	if r.Thorough() {
		r.Bound("cloner_build_history_length_ttl_mutation_only", bdepth+1)
	}
	r.Finish()
	os.Exit(0)
}
