//go:build verif

package zzverifc07

import (
	"bytes"
	"context"
	"encoding/json"
	"errors"
	"fmt"
	"net"
	"net/http"
	"net/http/httptest"
	"net/netip"
	"net/url"
	"os"
	"path/filepath"
	"runtime"
	"runtime/debug"
	"strings"
	"testing"
	"testing/synctest"
	"time"

	"github.com/AdguardTeam/AdGuardDNS/internal/access"
	"github.com/AdguardTeam/AdGuardDNS/internal/agd"
	"github.com/AdguardTeam/AdGuardDNS/internal/agdcache"
	"github.com/AdguardTeam/AdGuardDNS/internal/agdpasswd"
	"github.com/AdguardTeam/AdGuardDNS/internal/agdtest"
	"github.com/AdguardTeam/AdGuardDNS/internal/agdtime"
	"github.com/AdguardTeam/AdGuardDNS/internal/dnsmsg"
	"github.com/AdguardTeam/AdGuardDNS/internal/dnsserver"
	"github.com/AdguardTeam/AdGuardDNS/internal/dnsserver/zzverif/vdns"
	"github.com/AdguardTeam/AdGuardDNS/internal/dnsserver/zzverif/vrt"
	"github.com/AdguardTeam/AdGuardDNS/internal/dnsserver/zzverif/xsched"
	"github.com/AdguardTeam/AdGuardDNS/internal/dnssvc"
	"github.com/AdguardTeam/AdGuardDNS/internal/filter"
	"github.com/AdguardTeam/AdGuardDNS/internal/filter/filterstorage"
	"github.com/AdguardTeam/AdGuardDNS/internal/filter/hashprefix"
	"github.com/AdguardTeam/AdGuardDNS/internal/geoip"
	"github.com/AdguardTeam/AdGuardDNS/internal/profiledb"
	"github.com/AdguardTeam/AdGuardDNS/internal/querylog"
	"github.com/AdguardTeam/golibs/container"
	"github.com/AdguardTeam/golibs/logutil/slogutil"
	"github.com/AdguardTeam/golibs/netutil"
	"github.com/miekg/dns"
	promclient "github.com/prometheus/client_golang/prometheus"
)

// ---- World -------------------------------------------------------------------

const (
	c07SrvAddr  = "192.0.2.53:53"
	c07DoHAddr  = "192.0.2.53:443"
	c07FltGrpID = agd.FilteringGroupID("fg")
	c07ListID   = filter.ID("adguard_dns_filter")
)

type c07Mgr struct{ caches []agdcache.Clearer }

func (m *c07Mgr) Add(_ string, c agdcache.Clearer) { m.caches = append(m.caches, c) }
func (m *c07Mgr) ClearByID(_ string)               {}
func (m *c07Mgr) clearAll() {
	for _, c := range m.caches {
		c.Clear()
	}
}

// c07Rig is the production handler chain behind a real plain-DNS server
// object, with the real message cloner as disposer, a real filter storage and
// fakes only at the edges.
type c07Rig struct {
	srv   *dnsserver.ServerDNS
	doh   *dnsserver.ServerHTTPS
	mgr   *c07Mgr
	profs map[netip.Addr][2]any
	errs  []string
}

var c07Logger = slogutil.NewDiscardLogger()

func c07Write(dir, name, text string) {
	if err := os.WriteFile(filepath.Join(dir, name), []byte(text), 0o644); err != nil {
		vrt.Fatalf("writing %s: %v", name, err)
	}
}

// c07Upstream is a pure function of the question (and of the forwarded ECS
// family); entering and leaving it are scheduling points.
func c07Upstream() dnsserver.Handler {
	return dnsserver.HandlerFunc(func(ctx context.Context, rw dnsserver.ResponseWriter, req *dns.Msg) (err error) {
		xsched.Yield("upstream: request received")
		q := req.Question[0]
		if strings.HasPrefix(strings.ToLower(q.Name), "upfail.") {
			// The upstream is unreachable for this name: the error paths of the
			// chain run (and whatever they release is released).
			xsched.Yield("upstream: failing")

			return errors.New("upstream unreachable")
		}
		resp := &dns.Msg{}
		resp.SetReply(req)
		resp.RecursionAvailable = true
		n := 0
		for _, b := range []byte(strings.ToLower(q.Name)) {
			n = (n*31 + int(b)) % 250
		}
		name := q.Name
		switch q.Qtype {
		case dns.TypeA:
			resp.Answer = []dns.RR{
				vdns.MustRR(fmt.Sprintf("%s 60 IN A 100.64.%d.1", name, n)),
				vdns.MustRR(fmt.Sprintf("%s 60 IN A 100.64.%d.2", name, n)),
			}
		case dns.TypeAAAA:
			resp.Answer = []dns.RR{vdns.MustRR(fmt.Sprintf("%s 60 IN AAAA 2001:db8:ffff::%d", name, n))}
		case dns.TypeHTTPS:
			resp.Answer = []dns.RR{vdns.MustRR(fmt.Sprintf("%s 60 IN HTTPS 1 . alpn=h2,h3 ipv4hint=100.64.%d.3 ipv6hint=2001:db8:ffff::%d", name, n, n))}
		default:
			resp.Ns = []dns.RR{vdns.MustRR(fmt.Sprintf("%s 30 IN SOA ns.%s hm.%s 1 3600 600 86400 30", name, name, name))}
		}
		if opt := req.IsEdns0(); opt != nil {
			resp.SetEdns0(1232, opt.Do())
			for _, o := range opt.Option {
				if sn, ok := o.(*dns.EDNS0_SUBNET); ok {
					resp.IsEdns0().Option = append(resp.IsEdns0().Option, &dns.EDNS0_SUBNET{
						Code: dns.EDNS0SUBNET, Family: sn.Family, SourceNetmask: sn.SourceNetmask, Address: append(net.IP{}, sn.Address...),
					})
				}
			}
		}
		xsched.Yield("upstream: answering")

		return rw.WriteMsg(ctx, req, resp)
	})
}

// c07NoOPT cuts the OPT pseudo-record out of an observation.  With the simple
// response cache the EDNS data of a response (the DO bit, the echo of an ECS
// option) come from the upstream on a miss and from the server on a hit; they
// are hop-by-hop data about which this property says nothing, so the
// simple-cache sequences compare everything else.
func c07NoOPT(obs string) string {
	i := strings.Index(obs, " opt={")
	if i < 0 {
		return obs
	}
	j := strings.Index(obs[i:], "}")
	if j < 0 {
		return obs[:i]
	}

	return obs[:i] + obs[i+j+1:]
}

// c07CacheType is the response cache of the stacks built next.
var c07CacheType = dnssvc.CacheTypeECS

func c07NewRig(dir string) *c07Rig {
	if c07CacheType == dnssvc.CacheTypeSimple {
		// The simple cache's metrics listener registers itself with the
		// process-wide default registry, once per process in production; a
		// process that builds many stacks gives each its own registry.
		promclient.DefaultRegisterer = promclient.NewRegistry()
	}
	rig := &c07Rig{mgr: &c07Mgr{}, profs: map[netip.Addr][2]any{}}
	ctx := context.Background()
	sde := agdtest.NewSDEConfig(true)
	cloner := dnsmsg.NewCloner(dnsmsg.EmptyClonerStat{})
	global, err := dnsmsg.NewConstructor(&dnsmsg.ConstructorConfig{
		Cloner: cloner, BlockingMode: &dnsmsg.BlockingModeNullIP{}, StructuredErrors: sde,
		FilteredResponseTTL: 300 * time.Second, EDEEnabled: true,
	})
	if err != nil {
		vrt.Fatalf("constructor: %v", err)
	}
	errColl := &agdtest.ErrorCollector{OnCollect: func(_ context.Context, err error) { rig.errs = append(rig.errs, err.Error()) }}

	// Filter lists in the cache directory: the storage loads them itself.
	b, _ := json.Marshal(map[string]any{"filters": []map[string]string{{"downloadUrl": "http://lists.invalid/" + string(c07ListID), "filterKey": string(c07ListID)}}})
	c07Write(dir, "filters.json", string(b))
	c07Write(dir, string(c07ListID), "||blocked.test^\n||rw-cname.test^$dnsrewrite=NOERROR;CNAME;target.test\n||rw-ip.test^$dnsrewrite=NOERROR;A;192.0.2.99\n")
	c07Write(dir, "services.json", `{"blocked_services":[]}`)
	c07Write(dir, string(filter.IDGeneralSafeSearch), "|engine.test^$dnsrewrite=NOERROR;CNAME;safe.engine.test\n")
	c07Write(dir, string(filter.IDYoutubeSafeSearch), "|video.test^$dnsrewrite=NOERROR;CNAME;safe.video.test\n")
	hp := map[filter.ID]*hashprefix.Filter{}
	for id, spec := range map[filter.ID][2]string{
		filter.IDSafeBrowsing:  {"danger.test\n", "192.0.2.66"},
		filter.IDAdultBlocking: {"adult.test\n", "adult-blocked.example"},
		filter.IDNewRegDomains: {"newreg.test\n", "192.0.2.67"},
	} {
		strg, serr := hashprefix.NewStorage("")
		if serr != nil {
			vrt.Fatalf("storage: %v", serr)
		}
		file := filepath.Join(dir, "hp-"+string(id))
		c07Write(dir, "hp-"+string(id), spec[0])
		hp[id], err = hashprefix.NewFilter(&hashprefix.FilterConfig{
			Logger: c07Logger, Cloner: cloner, CacheManager: rig.mgr, Hashes: strg, URL: &url.URL{Scheme: "file", Path: file},
			ErrColl: errColl, Metrics: filter.EmptyMetrics{}, ID: id, CachePath: file, ReplacementHost: spec[1],
			Staleness: time.Hour, CacheTTL: time.Hour, RefreshTimeout: time.Second, CacheCount: 64, MaxSize: 1 << 20,
		})
		if err != nil {
			vrt.Fatalf("hashprefix: %v", err)
		}
		if err = hp[id].RefreshInitial(ctx); err != nil {
			vrt.Fatalf("hashprefix refresh: %v", err)
		}
	}
	const long = 1000 * time.Hour
	ss := func(id filter.ID) *filterstorage.ConfigSafeSearch {
		return &filterstorage.ConfigSafeSearch{
			URL: &url.URL{Scheme: "http", Host: "lists.invalid", Path: "/" + string(id)}, ID: id, MaxSize: 1 << 20,
			ResultCacheTTL: time.Hour, RefreshTimeout: time.Second, Staleness: long, ResultCacheCount: 64, Enabled: true,
		}
	}
	strg, err := filterstorage.New(&filterstorage.Config{
		BaseLogger: c07Logger, Logger: c07Logger,
		BlockedServices: &filterstorage.ConfigBlockedServices{
			IndexURL: &url.URL{Scheme: "http", Host: "lists.invalid", Path: "/services.json"}, IndexMaxSize: 1 << 20,
			IndexRefreshTimeout: time.Second, IndexStaleness: long, ResultCacheCount: 16, ResultCacheEnabled: true, Enabled: true,
		},
		Custom:     &filterstorage.ConfigCustom{CacheCount: 64},
		HashPrefix: &filterstorage.ConfigHashPrefix{Dangerous: hp[filter.IDSafeBrowsing], Adult: hp[filter.IDAdultBlocking], NewlyRegistered: hp[filter.IDNewRegDomains]},
		RuleLists: &filterstorage.ConfigRuleLists{
			IndexURL: &url.URL{Scheme: "http", Host: "lists.invalid", Path: "/filters.json"}, IndexMaxSize: 1 << 20, MaxSize: 1 << 20,
			IndexRefreshTimeout: time.Second, IndexStaleness: long, RefreshTimeout: time.Second, Staleness: long,
			ResultCacheCount: 64, ResultCacheEnabled: true,
		},
		SafeSearchGeneral: ss(filter.IDGeneralSafeSearch), SafeSearchYouTube: ss(filter.IDYoutubeSafeSearch),
		CacheManager: rig.mgr, Clock: agdtime.SystemClock{}, ErrColl: errColl, Metrics: filter.EmptyMetrics{}, CacheDir: dir,
	})
	if err != nil {
		vrt.Fatalf("filterstorage.New: %v", err)
	}
	if err = strg.RefreshInitial(ctx); err != nil {
		vrt.Fatalf("filterstorage refresh: %v", err)
	}
	if !strg.HasListID(c07ListID) {
		vrt.Fatalf("rule list not loaded; errors: %v", rig.errs)
	}

	// Profiles, found by linked IP.
	mkProf := func(id agd.ProfileID, dev agd.DeviceID, mode dnsmsg.BlockingMode, ttl time.Duration, custom []filter.RuleText) (*agd.Profile, *agd.Device) {
		return &agd.Profile{
				FilterConfig: &filter.ConfigClient{
					Custom:       &filter.ConfigCustom{ID: string(id), UpdateTime: time.Unix(1700000000, 0), Rules: custom, Enabled: len(custom) > 0},
					Parental:     &filter.ConfigParental{Enabled: true, AdultBlockingEnabled: true, SafeSearchGeneralEnabled: true},
					RuleList:     &filter.ConfigRuleList{IDs: []filter.ID{c07ListID}, Enabled: true},
					SafeBrowsing: &filter.ConfigSafeBrowsing{Enabled: true, DangerousDomainsEnabled: true, NewlyRegisteredDomainsEnabled: true},
				},
				Access: access.EmptyProfile{}, BlockingMode: mode, Ratelimiter: agd.GlobalRatelimiter{}, ID: id,
				DeviceIDs: []agd.DeviceID{dev}, FilteredResponseTTL: ttl, FilteringEnabled: true, IPLogEnabled: true, QueryLogEnabled: true,
			}, &agd.Device{
				Auth: &agd.AuthSettings{Enabled: false, PasswordHash: agdpasswd.AllowAuthenticator{}}, ID: dev, Name: agd.DeviceName(dev), FilteringEnabled: true,
			}
	}
	p1, d1 := mkProf("prof1", "dev1", &dnsmsg.BlockingModeNullIP{}, 10*time.Second, nil)
	p2, d2 := mkProf("prof2", "dev2", &dnsmsg.BlockingModeREFUSED{}, 3600*time.Second, []filter.RuleText{"||custom-p2.test^"})
	rig.profs[netip.MustParseAddr("10.1.0.1")] = [2]any{p1, d1}
	rig.profs[netip.MustParseAddr("10.2.0.1")] = [2]any{p2, d2}
	// A profile whose settings the message constructor rejects (a negative
	// filtered-response TTL): the error is collected and the request is
	// served with the server's default constructor.
	p5, d5 := mkProf("prof5", "dev5", &dnsmsg.BlockingModeNXDOMAIN{}, -1*time.Second, nil)
	rig.profs[netip.MustParseAddr("10.5.0.1")] = [2]any{p5, d5}
	db := agdtest.NewProfileDB()
	db.OnProfileByLinkedIP = func(_ context.Context, ip netip.Addr) (*agd.Profile, *agd.Device, error) {
		if pd, ok := rig.profs[ip]; ok {
			return pd[0].(*agd.Profile), pd[1].(*agd.Device), nil
		}

		return nil, nil, profiledb.ErrDeviceNotFound
	}
	db.OnProfileByDeviceID = func(_ context.Context, id agd.DeviceID) (*agd.Profile, *agd.Device, error) {
		for _, pd := range rig.profs {
			if d := pd[1].(*agd.Device); d.ID == id {
				return pd[0].(*agd.Profile), d, nil
			}
		}

		return nil, nil, profiledb.ErrDeviceNotFound
	}
	geo := &agdtest.GeoIP{
		OnData: func(_ string, ip netip.Addr) (*geoip.Location, error) {
			if ip.Is4() && ip.As4()[0] == 10 {
				return &geoip.Location{Country: geoip.Country("XA"), ASN: geoip.ASN(ip.As4()[1])}, nil
			}

			return nil, nil
		},
		OnSubnetByLocation: func(l *geoip.Location, fam netutil.AddrFamily) (netip.Prefix, error) {
			if l != nil && l.Country == "XA" && fam == netutil.AddrFamilyIPv4 {
				return netip.MustParsePrefix("203.0.113.0/24"), nil
			}

			return netutil.ZeroPrefix(fam), nil
		},
	}
	fltGrp := &agd.FilteringGroup{
		FilterConfig: &filter.ConfigGroup{
			Parental:     &filter.ConfigParental{Enabled: true, AdultBlockingEnabled: true},
			RuleList:     &filter.ConfigRuleList{IDs: []filter.ID{c07ListID}, Enabled: true},
			SafeBrowsing: &filter.ConfigSafeBrowsing{Enabled: true, DangerousDomainsEnabled: true},
		},
		ID: c07FltGrpID,
	}
	srv := &agd.Server{Name: "srv_dns", Protocol: agd.ProtoDNS, LinkedIPEnabled: true}
	srv.SetBindData([]*agd.ServerBindData{{AddrPort: netip.MustParseAddrPort(c07SrvAddr)}})
	srvDoH := &agd.Server{Name: "srv_doh", Protocol: agd.ProtoDoH}
	srvDoH.SetBindData([]*agd.ServerBindData{{AddrPort: netip.MustParseAddrPort(c07DoHAddr)}})
	srvGrp := &agd.ServerGroup{
		DDR:  &agd.DDR{DeviceTargets: container.NewMapSet[string](), PublicTargets: container.NewMapSet[string]()},
		Name: "sg", FilteringGroup: c07FltGrpID, Servers: []*agd.Server{srv, srvDoH}, ProfilesEnabled: true,
	}
	handlers, err := dnssvc.NewHandlers(ctx, &dnssvc.HandlersConfig{
		BaseLogger: c07Logger, Cloner: cloner,
		Cache:         &dnssvc.CacheConfig{MinTTL: 10 * time.Second, ECSCount: 100, NoECSCount: 100, Type: c07CacheType},
		HumanIDParser: agd.NewHumanIDParser(), Messages: global, StructuredErrors: sde,
		AccessManager: &agdtest.AccessManager{
			OnIsBlockedHost: func(_ string, _ uint16) bool { return false },
			OnIsBlockedIP:   func(_ netip.Addr) bool { return false },
		},
		BillStat: &agdtest.BillStatRecorder{OnRecord: func(_ context.Context, _ agd.DeviceID, _ geoip.Country, _ geoip.ASN, _ time.Time, _ agd.Protocol) {
		}},
		CacheManager: rig.mgr,
		DNSCheck:     &agdtest.DNSCheck{OnCheck: func(_ context.Context, _ *dns.Msg, _ *agd.RequestInfo) (*dns.Msg, error) { return nil, nil }},
		DNSDB:        &agdtest.DNSDB{OnRecord: func(_ context.Context, _ *dns.Msg, _ *agd.RequestInfo) {}},
		ErrColl:      errColl, FilterStorage: strg, GeoIP: geo, Handler: c07Upstream(),
		HashMatcher: &agdtest.HashMatcher{OnMatchByPrefix: func(_ context.Context, _ string) ([]string, bool, error) { return nil, false, nil }},
		ProfileDB:   db, PrometheusRegisterer: agdtest.NewTestPrometheusRegisterer(),
		QueryLog: &agdtest.QueryLog{OnWrite: func(_ context.Context, _ *querylog.Entry) error { return nil }},
		RateLimit: &agdtest.RateLimit{
			OnIsRateLimited:  func(_ context.Context, _ *dns.Msg, _ netip.Addr) (bool, bool, error) { return false, false, nil },
			OnCountResponses: func(_ context.Context, _ *dns.Msg, _ netip.Addr) {},
		},
		RuleStat:         &agdtest.RuleStat{OnCollect: func(_ context.Context, _ filter.ID, _ filter.RuleText) {}},
		MetricsNamespace: "c07", FilteringGroups: map[agd.FilteringGroupID]*agd.FilteringGroup{c07FltGrpID: fltGrp},
		ServerGroups: []*agd.ServerGroup{srvGrp}, EDEEnabled: true,
	})
	if err != nil {
		vrt.Fatalf("dnssvc.NewHandlers: %v", err)
	}
	var h, hDoH dnsserver.Handler
	for k, hh := range handlers {
		if k.Server == srvDoH {
			hDoH = hh
		} else {
			h = hh
		}
	}
	if h == nil || hDoH == nil {
		vrt.Fatalf("handlers: %d built, plain %v doh %v", len(handlers), h != nil, hDoH != nil)
	}
	rig.srv = dnsserver.NewServerDNS(dnsserver.ConfigDNS{
		ConfigBase:     dnsserver.ConfigBase{Name: "srv_dns", Addr: c07SrvAddr, Handler: h, Disposer: cloner},
		MaxUDPRespSize: 4096,
	})
	rig.doh = dnsserver.NewServerHTTPS(dnsserver.ConfigHTTPS{
		ConfigBase: dnsserver.ConfigBase{Name: "srv_doh", Addr: c07DoHAddr, Handler: hDoH, Disposer: cloner},
	})

	return rig
}

// ---- Requests ------------------------------------------------------------------

type c07Req struct {
	Name   string `json:"label"`
	Client string `json:"client"`
	Host   string `json:"host"`
	QType  uint16 `json:"qtype"`
	EDNS   bool   `json:"edns,omitempty"`
	DO     bool   `json:"do,omitempty"`
	ECS    string `json:"ecs,omitempty"`
	// CD sets the checking-disabled bit of the query (a validating stub does).
	CD bool `json:"cd,omitempty"`
	// DoH requests go through the real DoH handler (POST, wire format), whose
	// response is recorded first and packed and written afterwards; Path is the
	// URL path (a device ID may follow /dns-query/).
	DoH  bool   `json:"doh,omitempty"`
	Path string `json:"path,omitempty"`
}

var c07Alphabet = []c07Req{
	{Name: "p1-blocked", Client: "10.1.0.1", Host: "blocked.test.", QType: dns.TypeA},
	{Name: "p2-blocked", Client: "10.2.0.1", Host: "blocked.test.", QType: dns.TypeA, EDNS: true, DO: true},
	{Name: "p1-danger", Client: "10.1.0.1", Host: "danger.test.", QType: dns.TypeA},
	{Name: "p2-danger-https", Client: "10.2.0.1", Host: "danger.test.", QType: dns.TypeHTTPS, EDNS: true},
	{Name: "anon-adult", Client: "10.3.0.1", Host: "adult.test.", QType: dns.TypeA, EDNS: true, ECS: "10.3.7.0/24"},
	{Name: "p1-rw-cname", Client: "10.1.0.1", Host: "rw-cname.test.", QType: dns.TypeA},
	{Name: "anon-clean-ecs", Client: "10.3.0.1", Host: "Clean.Test.", QType: dns.TypeA, EDNS: true, ECS: "10.3.7.0/24"},
	{Name: "p2-clean", Client: "10.2.0.1", Host: "clean.test.", QType: dns.TypeA},
	{Name: "p1-clean-https-do", Client: "10.1.0.1", Host: "clean.test.", QType: dns.TypeHTTPS, EDNS: true, DO: true},
	{Name: "p2-custom", Client: "10.2.0.1", Host: "custom-p2.test.", QType: dns.TypeAAAA},
	{Name: "p1-engine", Client: "10.1.0.1", Host: "engine.test.", QType: dns.TypeA},
	{Name: "p1-upstream-fails", Client: "10.1.0.1", Host: "upfail.test.", QType: dns.TypeA},
	{Name: "doh-p1-blocked", Client: "10.4.0.1", Host: "blocked.test.", QType: dns.TypeA, EDNS: true, DoH: true, Path: "/dns-query/dev1"},
	{Name: "doh-anon-clean", Client: "10.4.0.2", Host: "clean.test.", QType: dns.TypeA, DoH: true, Path: "/dns-query"},
	{Name: "p1-clean-cd", Client: "10.1.0.1", Host: "clean.test.", QType: dns.TypeA, CD: true},
	{Name: "p2-danger-txt", Client: "10.2.0.1", Host: "danger.test.", QType: dns.TypeTXT},
	{Name: "p5-badconf-blocked", Client: "10.5.0.1", Host: "blocked.test.", QType: dns.TypeA},
}

func (q c07Req) wire(id uint16) []byte {
	m := vdns.NewReq(id, q.Host, q.QType, dns.ClassINET)
	m.CheckingDisabled = q.CD
	if q.EDNS {
		m.SetEdns0(1232, q.DO)
		if q.ECS != "" {
			p := netip.MustParsePrefix(q.ECS)
			m.IsEdns0().Option = append(m.IsEdns0().Option, &dns.EDNS0_SUBNET{
				Code: dns.EDNS0SUBNET, Family: 1, SourceNetmask: uint8(p.Bits()), Address: net.IP(p.Addr().AsSlice()),
			})
		}
	}
	b, err := m.Pack()
	if err != nil {
		vrt.Fatalf("pack: %v", err)
	}

	return b
}

type c07Conn struct{ written [][]byte }

func (c *c07Conn) ReadFrom([]byte) (int, net.Addr, error) { return 0, nil, net.ErrClosed }
func (c *c07Conn) WriteTo(p []byte, _ net.Addr) (int, error) {
	c.written = append(c.written, append([]byte{}, p...))

	return len(p), nil
}
func (c *c07Conn) Close() error { return nil }
func (c *c07Conn) LocalAddr() net.Addr {
	return net.UDPAddrFromAddrPort(netip.MustParseAddrPort(c07SrvAddr))
}
func (c *c07Conn) SetDeadline(time.Time) error      { return nil }
func (c *c07Conn) SetReadDeadline(time.Time) error  { return nil }
func (c *c07Conn) SetWriteDeadline(time.Time) error { return nil }

// serve runs one request through the server and returns the canonical form
// of what the client received.
func (rig *c07Rig) serve(q c07Req, id uint16) string {
	if q.DoH {
		return rig.serveDoH(q, id)
	}
	conn := &c07Conn{}
	raddr := &net.UDPAddr{IP: net.IP(netip.MustParseAddr(q.Client).AsSlice()), Port: 40000 + int(id)}
	ctx := dnsserver.ContextWithRequestInfo(context.Background(), &dnsserver.RequestInfo{StartTime: time.Unix(1700000000, 0)})
	rig.srv.VerifC07ServeUDPPacket(ctx, q.wire(id), conn, raddr)
	if len(conn.written) != 1 {
		return fmt.Sprintf("%d responses", len(conn.written))
	}
	m := &dns.Msg{}
	if err := m.Unpack(conn.written[0]); err != nil {
		return "undecodable response: " + err.Error()
	}

	return vdns.Canon(m, true) + " opt={" + vdns.OPTString(m) + "}"
}

// serveDoH runs one request through the real DoH handler, in the calling
// goroutine.
func (rig *c07Rig) serveDoH(q c07Req, id uint16) string {
	hr := httptest.NewRequest(http.MethodPost, "https://dns.test"+q.Path, bytes.NewReader(q.wire(id)))
	hr.Header.Set("Content-Type", "application/dns-message")
	hr.Header.Set("Accept", "application/dns-message")
	hr.RemoteAddr = netip.AddrPortFrom(netip.MustParseAddr(q.Client), 40000+id).String()
	rec := httptest.NewRecorder()
	rig.doh.VerifC07ServeHTTP(rec, hr)
	if rec.Code != http.StatusOK {
		return fmt.Sprintf("http status %d: %s", rec.Code, strings.TrimSpace(rec.Body.String()))
	}
	m := &dns.Msg{}
	if err := m.Unpack(rec.Body.Bytes()); err != nil {
		return "undecodable response: " + err.Error()
	}

	return vdns.Canon(m, true) + " opt={" + vdns.OPTString(m) + "}"
}

// ---- Exploration -----------------------------------------------------------------

type c07Scenario struct {
	Reqs []int `json:"requests"`
}

type c07Case struct {
	Scenario c07Scenario `json:"scenario"`
	Choices  []int       `json:"choices"`
}

type c07Env struct {
	got []string
}

// c07Prepare brings the shared rig into a canonical state: caches cleared and
// the pools warmed by running the scenario's requests alone, which also gives
// the warm solo observations.
// c07Prelude serves every alphabet request alone a few times, so that the
// object pools of the shared rig hold a known population whatever was
// explored before.
func c07Prelude(rig *c07Rig) {
	for round := 0; round < 3; round++ {
		for i, q := range c07Alphabet {
			rig.mgr.clearAll()
			rig.serve(q, uint16(0x200+i))
		}
	}
	rig.mgr.clearAll()
}

func c07Prepare(rig *c07Rig, sc c07Scenario) (solo []string) {
	for i, ri := range sc.Reqs {
		rig.mgr.clearAll()
		solo = append(solo, rig.serve(c07Alphabet[ri], uint16(0x100+i)))
	}
	rig.mgr.clearAll()

	return solo
}

func c07Setup(rig *c07Rig, sc c07Scenario, s *xsched.Sched) *c07Env {
	env := &c07Env{got: make([]string, len(sc.Reqs))}
	for i, ri := range sc.Reqs {
		s.Go(fmt.Sprintf("T%d:%s", i, c07Alphabet[ri].Name), func() {
			env.got[i] = rig.serve(c07Alphabet[ri], uint16(0x100+i))
		})
	}

	return env
}

func c07Check(rig *c07Rig, sc c07Scenario, golden map[int]string, solo []string, env *c07Env, x *xsched.Exec) []vrt.Finding {
	if x.Sched.Panicked != "" {
		return vrt.F("stack/panic", "%s", x.Sched.Panicked)
	}
	if x.Sched.Deadlock || x.Sched.LimitHit {
		return vrt.F("stack/deadlock", "blocked: %v limit=%v", x.Sched.Blocked, x.Sched.LimitHit)
	}
	// Aftermath: the same requests asked again, one after the other, on the
	// stack as the concurrent execution left it (caches warm): a result stored
	// under a wrong key, or a corrupted cached message, shows here.
	if rig != nil {
		for i, ri := range sc.Reqs {
			q := c07Alphabet[ri]
			want := strings.Replace(golden[ri], "id=256 ", fmt.Sprintf("id=%d ", 0x300+i), 1)
			if got := rig.serve(q, uint16(0x300+i)); got != want {
				return vrt.F("stack/follow-up-answer-differs", "request %s asked again after the concurrent execution of %v is answered differently from a fresh stack:\n   after : %s\n   fresh : %s\nschedule:\n%s", q.Name, sc.Reqs, got, want, x.Sched.Describe())
			}
		}
	}
	for i, ri := range sc.Reqs {
		q := c07Alphabet[ri]
		want := strings.Replace(golden[ri], "id=256 ", fmt.Sprintf("id=%d ", 0x100+i), 1)
		if solo[i] != want {
			return vrt.F("stack/sequential-reuse-changes-answer", "request %s processed alone on a used stack differs from a fresh stack:\n   used : %s\n   fresh: %s", q.Name, solo[i], want)
		}
		if env.got[i] != want {
			what := "records"
			switch {
			case !strings.Contains(env.got[i], " q=["+q.Host+" "):
				what = "question"
			case strings.SplitN(env.got[i], " q=", 2)[0] != strings.SplitN(want, " q=", 2)[0]:
				what = "header"
			}

			return vrt.F("stack/concurrent-answer-differs-from-solo/"+what, "request %s (%s asks %s %s) processed concurrently with %v differs from the same request processed alone:\n   concurrent: %s\n   alone     : %s\nschedule:\n%s", q.Name, q.Client, q.Host, dns.Type(q.QType), sc.Reqs, env.got[i], want, x.Sched.Describe())
		}
	}

	return nil
}

func TestVerifC07Stack(t *testing.T) {
	r := vrt.Start("C07")
	debug.SetGCPercent(-1)
	// The whole exploration runs under a virtual clock that never advances
	// (some task is always runnable), so that cache ages are always zero.
	synctest.Test(t, func(t *testing.T) { c07Main(t, r) })
}

func c07Main(t *testing.T, r *vrt.Run) {
	rig := c07NewRig(t.TempDir())
	// Golden observations: every alphabet request alone on its own fresh stack.
	golden := map[int]string{}
	for i, q := range c07Alphabet {
		fresh := c07NewRig(t.TempDir())
		golden[i] = fresh.serve(q, 0x100)
		fresh.srv.VerifC07Release()
		r.Note("golden %s: %s", q.Name, golden[i])
	}
	// Sequential reuse: every sequence of <=2 (thorough <=3) requests on one
	// fresh stack; each answer must be the fresh-stack answer of its request.
	seqLen := vrt.Pick(r, 2, 3)
	r.Bound("stack_sequence_length", seqLen)
	vrt.Part(r, "sequences", func(emit func(c07Scenario)) {
		vrt.Sequences(len(c07Alphabet), 2, seqLen, func(seq []int) { emit(c07Scenario{Reqs: append([]int{}, seq...)}) })
	}, func(sc c07Scenario) []vrt.Finding {
		fresh := c07NewRig(t.TempDir())
		defer fresh.srv.VerifC07Release()
		var obs []string
		for i, ri := range sc.Reqs {
			got := fresh.serve(c07Alphabet[ri], uint16(0x100+i))
			r.Trans(1)
			obs = append(obs, got)
			want := strings.Replace(golden[ri], "id=256 ", fmt.Sprintf("id=%d ", 0x100+i), 1)
			if got != want {
				return vrt.F("stack/sequential-reuse-changes-answer", "request %s processed after %v on the same stack differs from a fresh stack:\n   used : %s\n   fresh: %s", c07Alphabet[ri].Name, sc.Reqs[:i], got, want)
			}
		}
		r.Class("sequence")
		r.State(fmt.Sprint(sc.Reqs, obs))

		return nil
	})
	// The same with the SIMPLE response cache (cache type "simple"), whose
	// hits hand out records of the long-lived cache item when no TTL has to be
	// rewritten: longer sequences over a reduced alphabet, so that a hit, the
	// disposal of its response, a response built from pooled records and a
	// second hit all fit in.
	simpleAlpha := []int{0, 1, 2, 4, 5, 6, 7, 8}
	simpleLen := vrt.Pick(r, 4, 5)
	r.Bound("stack_simple_cache_sequence_length", simpleLen)
	goldenSimple := map[int]string{}
	vrt.Part(r, "sequences-simple-cache", func(emit func(c07Scenario)) {
		vrt.Sequences(len(simpleAlpha), 2, simpleLen, func(seq []int) {
			sc := c07Scenario{}
			for _, i := range seq {
				sc.Reqs = append(sc.Reqs, simpleAlpha[i])
			}
			emit(sc)
		})
	}, func(sc c07Scenario) []vrt.Finding {
		defer func(ct dnssvc.CacheType) { c07CacheType = ct }(c07CacheType)
		c07CacheType = dnssvc.CacheTypeSimple
		if len(goldenSimple) == 0 {
			for _, i := range simpleAlpha {
				fresh := c07NewRig(t.TempDir())
				goldenSimple[i] = fresh.serve(c07Alphabet[i], 0x100)
				fresh.srv.VerifC07Release()
			}
		}
		fresh := c07NewRig(t.TempDir())
		defer fresh.srv.VerifC07Release()
		var obs []string
		for i, ri := range sc.Reqs {
			got := c07NoOPT(fresh.serve(c07Alphabet[ri], uint16(0x100+i)))
			r.Trans(1)
			obs = append(obs, got)
			want := c07NoOPT(strings.Replace(goldenSimple[ri], "id=256 ", fmt.Sprintf("id=%d ", 0x100+i), 1))
			if got != want {
				return vrt.F("stack/simple-cache/sequential-reuse-changes-answer", "simple response cache: request %s processed after %v on the same stack differs from a fresh stack:\n   used : %s\n   fresh: %s", c07Alphabet[ri].Name, sc.Reqs[:i], got, want)
			}
		}
		r.Class("sequence simple cache")
		r.State(fmt.Sprint("simple", sc.Reqs, obs))

		return nil
	})
	var rc c07Case
	if r.ReplayCase("stack", &rc) {
		var fs []vrt.Finding
		if os.Getenv("VERIF_REPLAY_MODE") == "prefix" {
			// Re-run the exploration of the whole shard from its start up to
			// the recorded schedule: reproduces the pool population too.
			fs = c07Explore(r, rig, golden, &rc)
		} else {
			c07Prelude(rig)
			solo := c07Prepare(rig, rc.Scenario)
			var env *c07Env
			x := xsched.Replay(rc.Choices, func(s *xsched.Sched) { env = c07Setup(rig, rc.Scenario, s) })
			fs = c07Check(rig, rc.Scenario, golden, solo, env, x)
		}
		r.Eval()
		r.Report("stack", rc, fs)
	}
	if r.ShouldRun() {
		c07Explore(r, rig, golden, nil)
	}
	rig.srv.VerifC07Release()
	r.Finish()
	os.Exit(0)
}

// c07Explore explores the scenarios of this shard.  With stopAt set it is the
// prefix replay of a recorded case: the same exploration is repeated, nothing
// is reported, and the findings of the recorded execution are returned.
func c07Explore(r *vrt.Run, rig *c07Rig, golden map[int]string, stopAt *c07Case) (res []vrt.Finding) {
	shard, nshards := r.NShards()
	pre := vrt.Pick(r, 1, 2)
	var scenarios []c07Scenario
	n := len(c07Alphabet)
	for a := 0; a < n; a++ {
		for b := a; b < n; b++ {
			scenarios = append(scenarios, c07Scenario{Reqs: []int{a, b}})
		}
	}
	if r.Thorough() {
		for _, tr := range [][]int{{0, 1, 2}, {2, 3, 4}, {6, 7, 8}, {1, 5, 9}, {4, 6, 10}, {0, 12, 13}, {7, 12, 13}, {8, 11, 12}} {
			scenarios = append(scenarios, c07Scenario{Reqs: tr})
		}
	}
	if stopAt == nil {
		r.Bound("stack_preemptions", pre)
		r.Bound("stack_scenarios", len(scenarios))
	}
	execs := 0
	done := false
	for si, sc := range scenarios {
		if si%nshards != shard || done {
			continue
		}
		p := pre
		if len(sc.Reqs) > 2 {
			p = 1
		}
		var env *c07Env
		var solo []string
		found := 0
		c07Prelude(rig)
		target := stopAt != nil && fmt.Sprint(sc.Reqs) == fmt.Sprint(stopAt.Scenario.Reqs)
		st := xsched.Explore(xsched.Config{MaxPreemptions: p, MaxDeviations: 0, Stop: r.Expired},
			func(s *xsched.Sched) {
				execs++
				if execs%2000 == 0 {
					runtime.GC()
				}
				solo = c07Prepare(rig, sc)
				env = c07Setup(rig, sc, s)
			},
			func(x *xsched.Exec) bool {
				fs := c07Check(rig, sc, golden, solo, env, x)
				if stopAt != nil {
					if target && fmt.Sprint(x.Choices) == fmt.Sprint(stopAt.Choices) {
						res, done = fs, true

						return false
					}
					// The first finding of a scenario ends its exploration.
					return len(fs) == 0
				}
				r.Eval()
				r.Trans(len(x.Sched.Trace))
				obs := fmt.Sprintf("%v|%v", sc.Reqs, env.got)
				r.Class(fmt.Sprintf("%d requests", len(sc.Reqs)))
				if r.State(obs) {
					r.Sample(map[string]any{"requests": sc.Reqs, "answers": env.got, "preemptions": x.Preemptions})
				}
				if len(fs) > 0 {
					r.Report("stack", c07Case{Scenario: sc, Choices: x.Choices}, fs)
					found++
				}

				return found < 1
			})
		if stopAt == nil {
			r.Count("stack_points", st.Points)
			if st.Stopped {
				r.Note("scenario %v stopped by deadline after %d executions", sc.Reqs, st.Executions)
			}
		}
	}

	return res
}
