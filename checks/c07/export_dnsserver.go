//go:build verif

package dnsserver

import (
	"context"
	"net"
	"net/http"

	"github.com/AdguardTeam/AdGuardDNS/internal/dnsserver/netext"
)

// VerifC07ServeUDPPacket runs the real per-packet path of the plain-DNS
// server (serveDNS -> handler -> udpResponseWriter.WriteMsg -> dispose) for
// one packet, in the calling goroutine.
func (s *ServerDNS) VerifC07ServeUDPPacket(ctx context.Context, buf []byte, conn net.PacketConn, raddr net.Addr) {
	s.wg.Add(1)
	reqCtx, cancel := s.requestContext()
	defer cancel()
	if ri, ok := RequestInfoFromContext(ctx); ok {
		reqCtx = ContextWithRequestInfo(reqCtx, ri)
	}
	s.serveUDPPacket(reqCtx, buf, conn, netext.NewSimplePacketSession(conn.LocalAddr(), raddr))
}

// VerifC07Release stops the worker pool of a server that was never started.
func (s *ServerDNS) VerifC07Release() { s.workerPool.Release() }

// VerifC07ServeHTTP runs the real DoH handler (ServeHTTP -> serveDoH ->
// serveDNS -> handler -> writeResponse -> dispose) for one HTTP request, in
// the calling goroutine, for a server that was never started.
func (s *ServerHTTPS) VerifC07ServeHTTP(w http.ResponseWriter, r *http.Request) {
	h := &httpHandler{srv: s, localAddr: &net.TCPAddr{IP: net.IPv4(192, 0, 2, 53), Port: 443}}
	h.ServeHTTP(w, r)
}
