//go:build verif

package forward

// C17, part "handler": exhaustive bounded histories of health-check rounds,
// time steps and queries (with every value of the random upstream pick) on the
// real forward.Handler, compared with a reference fail-over machine written
// from the property statement.

import (
	"context"
	"fmt"
	"io"
	"log/slog"
	"net"
	"net/netip"
	"os"
	"strings"
	"syscall"
	"testing"
	"testing/synctest"
	"time"

	"github.com/AdguardTeam/AdGuardDNS/internal/dnsserver"
	"github.com/AdguardTeam/AdGuardDNS/internal/dnsserver/zzverif/vdns"
	"github.com/AdguardTeam/AdGuardDNS/internal/dnsserver/zzverif/vrt"
	"github.com/AdguardTeam/AdGuardDNS/internal/dnsserver/zzverif/xsched"
	"github.com/miekg/dns"
	"golang.org/x/exp/rand"
)

// ---------------------------------------------------------------------------
// Scripted environment: random source and upstreams.

// c17Src is the scripted random source installed into Handler.rand.  Every
// draw pops the next scripted value (0 when exhausted); with small values v
// the repo's rand.Intn(n) returns v % n, so enumerating v over [0, n) enumerates
// every possible pick.
type c17Src struct {
	vals  []uint64
	draws int
}

func (s *c17Src) Uint64() (v uint64) {
	s.draws++
	if len(s.vals) > 0 {
		v, s.vals = s.vals[0], s.vals[1:]
	}

	return v
}

func (s *c17Src) Seed(uint64) {}

// Outcomes of one exchange with a scripted upstream.
const (
	c17OK       = "ok"        // NOERROR reply carrying the upstream's identity
	c17Servfail = "servfail"  // SERVFAIL reply
	c17NXDomain = "nxdomain"  // NXDOMAIN reply
	c17NetErr   = "neterr"    // *net.OpError connection refused, at once
	c17Gone     = "gone"      // pooled connection ended (EOF), the re-dial was refused: "creating connection: … refused"
	c17Timeout  = "timeout"   // blocks c17UpsTimeout (virtual), then *net.OpError i/o timeout
	c17TimeoutI = "timeout0"  // *net.OpError i/o timeout, at once
	c17Silent   = "silent"    // never answers: the exchange ends when the CALLER's context is done
	c17CtxDone  = "ctx-done"  // (recorded only) the exchange was started with a context that was already done
	c17CtxDL    = "ctxdl"     // error wrapping context.DeadlineExceeded, at once
	c17EOF      = "eof"       // error wrapping io.EOF (statement silent: not a net.Error)
	c17BadReply = "badreply"  // mismatched reply: (resp with wrong ID, dns.ErrId) as UpstreamPlain returns
	c17NoAnswer = "noanswer"  // unused placeholder for "not consulted"
	c17ProbeDom = "hc-c17.example."
	c17QueryDom = "q-c17.example."
)

// c17UpsTimeout is the time a scripted upstream in state "timeout" blocks.
const c17UpsTimeout = 250 * time.Millisecond

// c17RoundTimeout is the deadline of a health-check round: far longer than
// every probe that ends on its own, reached only by a silent upstream.
const c17RoundTimeout = 3 * time.Second

// c17IsReply reports whether outcome o is a reply of the upstream.
func c17IsReply(o string) bool { return o == c17OK || o == c17Servfail || o == c17NXDomain }

// c17IsNetErr reports whether outcome o is certainly a network error.
func c17IsNetErr(o string) bool {
	return o == c17NetErr || o == c17Timeout || o == c17TimeoutI || o == c17CtxDL || o == c17Gone
}

// c17Call is one recorded exchange with a scripted upstream.
type c17Call struct {
	ups     *c17Ups
	probe   bool
	outcome string
	start   time.Time
	end     time.Time
	resp    *dns.Msg
	// reqID is the ID of the request, to tell concurrent queries apart.
	reqID uint16
}

// c17Env is the scripted environment of one case.
type c17Env struct {
	src   *c17Src
	mains []*c17Ups
	fbs   []*c17Ups
	calls []c17Call
}

// c17Ups is a scripted [Upstream].
type c17Ups struct {
	env      *c17Env
	name     string
	main     bool
	idx      int
	queryOut string
	probeOut string
}

// type check
var _ Upstream = (*c17Ups)(nil)

func (u *c17Ups) Close() (err error) { return nil }
func (u *c17Ups) String() (s string) { return u.name }

func (u *c17Ups) Exchange(ctx context.Context, req *dns.Msg) (resp *dns.Msg, nw Network, err error) {
	probe := len(req.Question) == 1 && strings.HasSuffix(req.Question[0].Name, c17ProbeDom)
	o := u.queryOut
	if probe {
		o = u.probeOut
	}
	// Entering and leaving an exchange are scheduling points of the schedule
	// explorer (part "race"); no-ops everywhere else.
	xsched.Yield("upstream " + u.name + ": exchange begins")
	defer xsched.Yield("upstream " + u.name + ": exchange ends")
	start := time.Now()
	addr := &net.UDPAddr{IP: net.IP{192, 0, 2, byte(10 + u.idx)}, Port: 53}
	if ctx.Err() != nil {
		// No real exchange gets anywhere with a context that is already done.
		o = c17CtxDone
	}
	switch o {
	case c17CtxDone:
		err = fmt.Errorf("upstreamplain: getting connection: %w", ctx.Err())
	case c17Silent:
		// A silent upstream with no timeout of its own (a documented
		// configuration): only the caller's context ends the exchange.
		select {
		case <-ctx.Done():
			err = fmt.Errorf("upstreamplain: udp network reading: %w", ctx.Err())
		case <-time.After(time.Hour):
			vrt.Fatalf("c17: a silent upstream was asked without a deadline")
		}
	case c17OK, c17Servfail, c17NXDomain:
		resp = (&dns.Msg{}).SetReply(req)
		resp.RecursionAvailable = true
		role := 1
		if !u.main {
			role = 2
		}
		switch o {
		case c17OK:
			resp.Answer = []dns.RR{&dns.A{
				Hdr: dns.RR_Header{Name: req.Question[0].Name, Rrtype: dns.TypeA, Class: dns.ClassINET, Ttl: 60},
				A:   net.IP{10, byte(role), byte(u.idx), 1},
			}}
		case c17Servfail:
			resp.Rcode = dns.RcodeServerFailure
			// Identity in a TXT record of the additional section.
			resp.Extra = []dns.RR{&dns.TXT{
				Hdr: dns.RR_Header{Name: "id.", Rrtype: dns.TypeTXT, Class: dns.ClassINET, Ttl: 0},
				Txt: []string{u.name},
			}}
		case c17NXDomain:
			resp.Rcode = dns.RcodeNameError
			resp.Extra = []dns.RR{&dns.TXT{
				Hdr: dns.RR_Header{Name: "id.", Rrtype: dns.TypeTXT, Class: dns.ClassINET, Ttl: 0},
				Txt: []string{u.name},
			}}
		}
	case c17NetErr:
		err = fmt.Errorf("upstreamplain: getting connection: %w", &net.OpError{
			Op: "dial", Net: "udp", Addr: addr, Err: os.NewSyscallError("connect", syscall.ECONNREFUSED),
		})
	case c17Gone:
		// What UpstreamPlain returns when the upstream went away between two
		// queries: the error of the refused re-dial.
		err = fmt.Errorf("upstreamplain: creating connection: %w", &net.OpError{
			Op: "dial", Net: "tcp", Addr: addr, Err: os.NewSyscallError("connect", syscall.ECONNREFUSED),
		})
	case c17Timeout, c17TimeoutI:
		if o == c17Timeout {
			time.Sleep(c17UpsTimeout)
		}
		err = fmt.Errorf("upstreamplain: udp network reading: %w", &net.OpError{
			Op: "read", Net: "udp", Addr: addr, Err: os.ErrDeadlineExceeded,
		})
	case c17CtxDL:
		err = fmt.Errorf("upstreamplain: getting connection: %w", context.DeadlineExceeded)
	case c17EOF:
		err = fmt.Errorf("upstreamplain: reading binary data: %w", io.EOF)
	case c17BadReply:
		resp = (&dns.Msg{}).SetReply(req)
		resp.Id = req.Id + 1
		resp.Answer = []dns.RR{&dns.A{
			Hdr: dns.RR_Header{Name: req.Question[0].Name, Rrtype: dns.TypeA, Class: dns.ClassINET, Ttl: 60},
			A:   net.IP{10, 66, 66, 66},
		}}
		err = fmt.Errorf("upstreamplain: validating %s response: %w", NetworkTCP, dns.ErrId)
	default:
		vrt.Fatalf("c17: unknown outcome %q", o)
	}
	var logged *dns.Msg
	if err == nil {
		logged = resp
	}
	u.env.calls = append(u.env.calls, c17Call{
		ups: u, probe: probe, outcome: o, start: start, end: time.Now(), resp: logged, reqID: req.Id,
	})

	return resp, NetworkUDP, err
}

// ---------------------------------------------------------------------------
// Cases.

// c17Case is one history.  Events are "q" (query fan-out with the light
// outcome set), "R:<o0>,<o1>" (health-check round with the given probe outcome
// of every main upstream), "A:<what>" (time step).  Every history is followed
// by the full query fan-out.
type c17Case struct {
	Mains     int      `json:"mains"`
	Fallbacks int      `json:"fallbacks"`
	BackoffMs int64    `json:"backoff_ms"`
	Events    []string `json:"events"`
}

// c17Alphabet returns the events for a configuration; kinds are the probe
// failure kinds that may occur in the history.
func c17Alphabet(mains int, backoffMs int64, kinds []string) (evs []string) {
	evs = append(evs, "q")
	outs := append([]string{c17OK}, kinds...)
	rad := make([]int, mains)
	for i := range rad {
		rad[i] = len(outs)
	}
	vrt.Odometer(rad, func(idx []int) {
		parts := make([]string, mains)
		for i, k := range idx {
			parts[i] = outs[k]
		}
		evs = append(evs, "R:"+strings.Join(parts, ","))
	})
	if backoffMs > 0 {
		evs = append(evs, "A:backoff-1ns", "A:1ns", "A:backoff")
	}

	return evs
}

// ---------------------------------------------------------------------------
// Reference machine, from the statement.

const (
	c17In  = iota // in rotation: must be reachable by the random pick
	c17Out        // excluded: must not receive queries
	c17Any        // the statement does not decide
)

// c17RefMain is the reference state of one main upstream.
type c17RefMain struct {
	st int
	// lo and hi bound the instant of the MOST RECENT failed probe (its start
	// and its end): the backoff period of the statement counts from the
	// failed probe, so every further failed probe starts it anew.
	lo, hi time.Time
	// okEarly is set when a probe succeeded while the backoff was certainly
	// still running.
	okEarly bool
}

type c17Ref struct {
	backoff time.Duration
	nf      int
	m       []c17RefMain
}

// status returns the status of main i at time t.
func (x *c17Ref) status(i int, t time.Time) int {
	if x.nf == 0 {
		// Without configured fallbacks main upstreams are never taken out of
		// rotation.
		return c17In
	}
	m := x.m[i]
	if m.st == c17Out && m.okEarly && t.Sub(m.lo) >= x.backoff {
		return c17Any
	}

	return m.st
}

// round consumes the probes observed during one health-check round that ran
// from t0 and returns the findings.
func (x *c17Ref) round(t0 time.Time, calls []c17Call, mains []*c17Ups) (fs []vrt.Finding) {
	if x.nf == 0 {
		return nil
	}
	for i := range x.m {
		m := &x.m[i]
		// A round must probe every main that is in rotation and every
		// excluded main whose backoff has certainly elapsed: only then can "a
		// probe succeeds" happen and traffic return.
		must := m.st == c17In || t0.Sub(m.hi) >= x.backoff
		n := 0
		for _, c := range calls {
			if c.ups != mains[i] || !c.probe {
				continue
			}
			n++
			if c.outcome == c17OK {
				switch {
				case m.st == c17In:
				case c.start.Sub(m.lo) < x.backoff:
					m.okEarly = true
				case c.start.Sub(m.hi) >= x.backoff:
					*m = c17RefMain{st: c17In}
				default:
					m.st, m.okEarly = c17Any, false
				}
			} else {
				// "A main upstream whose health probe failed is not used again
				// until the backoff period has elapsed and a probe succeeds"
				// holds for this failed probe, whatever the state before it.
				m.lo, m.hi = c.start, c.end
				m.st, m.okEarly = c17Out, false
			}
		}
		if must && n == 0 {
			fs = append(fs, vrt.F("refresh/main-not-probed",
				"health-check round at %s did not probe main upstream m%d although it is in rotation or its backoff (%s) has elapsed",
				c17T(t0), i, x.backoff)...)
		}
	}

	return fs
}

// c17Epoch is the start of the virtual clock of the bubble.
var c17Epoch time.Time

func c17T(t time.Time) string { return "+" + t.Sub(c17Epoch).String() }

// ---------------------------------------------------------------------------
// Running one history on the real handler.

type c17World struct {
	r    *vrt.Run
	c    c17Case
	env  *c17Env
	h    *Handler
	ref  *c17Ref
	t0   time.Time
	qid  uint16
	desc []string
}

var c17Logger = slog.New(slog.DiscardHandler)

func c17NewWorld(r *vrt.Run, c c17Case) (w *c17World) {
	env := &c17Env{src: &c17Src{}}
	mkConf := func(n, base int) (cs []*UpstreamPlainConfig) {
		for i := range n {
			cs = append(cs, &UpstreamPlainConfig{
				Network: NetworkAny,
				Address: netip.AddrPortFrom(netip.AddrFrom4([4]byte{192, 0, 2, byte(base + i)}), 53),
				Timeout: time.Second,
			})
		}

		return cs
	}
	backoff := time.Duration(c.BackoffMs) * time.Millisecond
	h := NewHandler(&HandlerConfig{
		Logger:                     c17Logger,
		HealthcheckDomainTmpl:      "${RANDOM}." + c17ProbeDom,
		UpstreamsAddresses:         mkConf(c.Mains, 10),
		FallbackAddresses:          mkConf(c.Fallbacks, 20),
		HealthcheckBackoffDuration: backoff,
	})
	if len(h.upstreams) != c.Mains || len(h.activeUpstreams) != c.Mains || len(h.fallbacks) != c.Fallbacks {
		vrt.Fatalf("c17: NewHandler built %d/%d/%d upstream slots, want %d/%d/%d", len(h.upstreams),
			len(h.activeUpstreams), len(h.fallbacks), c.Mains, c.Mains, c.Fallbacks)
	}
	// Replace the plain upstreams by scripted ones, slot by slot; the state
	// NewHandler set up (all mains active, no failure recorded) stays as is.
	for i := range c.Mains {
		if h.activeUpstreams[i] != h.upstreams[i].upstream {
			vrt.Fatalf("c17: NewHandler: active slot %d is not upstream %d", i, i)
		}
		u := &c17Ups{env: env, name: fmt.Sprintf("m%d", i), main: true, idx: i, queryOut: c17OK, probeOut: c17OK}
		env.mains = append(env.mains, u)
		h.upstreams[i].upstream = u
		h.activeUpstreams[i] = u
	}
	for j := range c.Fallbacks {
		u := &c17Ups{env: env, name: fmt.Sprintf("f%d", j), idx: j, queryOut: c17OK, probeOut: c17OK}
		env.fbs = append(env.fbs, u)
		h.fallbacks[j] = u
	}
	h.rand = rand.New(env.src)

	return &c17World{
		r: r, c: c, env: env, h: h,
		ref: &c17Ref{backoff: backoff, nf: c.Fallbacks, m: make([]c17RefMain, c.Mains)},
	}
}

// c17QueryOutcomesLight and c17QueryOutcomesFull are the (main outcome,
// fallback outcome) pairs of the two query fan-outs.
var (
	c17QueryOutcomesLight = [][2]string{{c17OK, c17OK}, {c17NetErr, c17OK}, {c17NetErr, c17NetErr}}
	c17QueryOutcomesFull  [][2]string
)

func init() {
	all := []string{c17OK, c17Servfail, c17NetErr, c17Gone, c17TimeoutI, c17CtxDL, c17EOF, c17BadReply, c17Timeout}
	for _, om := range all {
		if c17IsReply(om) {
			// The fallback must not be consulted; give it a net error so a
			// wrong consultation also changes the result.
			c17QueryOutcomesFull = append(c17QueryOutcomesFull, [2]string{om, c17OK}, [2]string{om, c17NetErr})

			continue
		}
		for _, of := range all {
			c17QueryOutcomesFull = append(c17QueryOutcomesFull, [2]string{om, of})
		}
	}
}

// query runs one query on the real handler with the two next random draws a
// and b and the given outcomes of all main (om) and all fallback (of)
// upstreams, and checks it against the reference.  It returns the main
// upstream that was consulted, or -1.
func (w *c17World) query(a, b int, om, of string) (hit int, fs []vrt.Finding) {
	for _, u := range w.env.mains {
		u.queryOut = om
	}
	for _, u := range w.env.fbs {
		u.queryOut = of
	}

	return w.queryNow(a, b)
}

// queryNow is query with the outcomes the scripted upstreams currently have.
func (w *c17World) queryNow(a, b int) (hit int, fs []vrt.Finding) {
	env := w.env
	var outs []string
	for _, u := range env.mains {
		outs = append(outs, u.queryOut)
	}
	om := strings.Join(outs, ",")
	outs = outs[:0]
	for _, u := range env.fbs {
		outs = append(outs, u.queryOut)
	}
	of := strings.Join(outs, ",")
	env.src.vals = []uint64{uint64(a), uint64(b)}
	env.calls = env.calls[:0]
	w.qid++
	req := vdns.NewReq(w.qid, c17QueryDom, dns.TypeA, dns.ClassINET)
	rw := dnsserver.NewNonWriterResponseWriter(c17Local, c17Remote)
	now := time.Now()
	err := w.h.ServeDNS(context.Background(), rw, req)
	w.r.Trans(1)
	got := rw.Msg()

	bad := func(key, format string, args ...any) {
		what := fmt.Sprintf("query at %s (draws %d,%d; mains answer %q, fallbacks answer %q; reference status %s)",
			c17T(now), a, b, om, of, w.statusString(now))
		fs = append(fs, vrt.F(key, "%s: %s; upstreams consulted: %s; handler returned err=%v resp=%s",
			what, fmt.Sprintf(format, args...), c17CallsString(env.calls), err, vdns.Canon(got, true))...)
	}

	hit = -1
	var mainCalls, fbCalls []c17Call
	for k, c := range env.calls {
		if c.probe {
			bad("query/probe-sent-by-query", "a health probe was sent while serving a query")

			return hit, fs
		}
		if c.ups.main {
			mainCalls = append(mainCalls, c)
			if len(fbCalls) > 0 {
				bad("query/main-tried-after-fallback", "call %d goes to a main upstream after a fallback", k)

				return hit, fs
			}
		} else {
			fbCalls = append(fbCalls, c)
		}
	}
	if len(mainCalls) > 1 {
		bad("query/more-than-one-main-tried", "%d main upstreams were consulted", len(mainCalls))

		return hit, fs
	}
	if len(fbCalls) > 1 {
		bad("query/fallback-tried-more-than-once", "%d fallback exchanges", len(fbCalls))

		return hit, fs
	}

	anyIn := false
	for i := range w.ref.m {
		anyIn = anyIn || w.ref.status(i, now) == c17In
	}
	mainClass := "none"
	if len(mainCalls) == 1 {
		hit = mainCalls[0].ups.idx
		if w.ref.status(hit, now) == c17Out {
			bad("query/excluded-main-used", "main upstream m%d is excluded: its most recent failed probe was at %s, backoff %s, and no probe has succeeded after the backoff elapsed",
				hit, c17T(w.ref.m[hit].lo), w.ref.backoff)

			return hit, fs
		}
		switch o := mainCalls[0].outcome; {
		case c17IsReply(o):
			mainClass = "reply"
		case c17IsNetErr(o):
			mainClass = "neterr"
		default:
			mainClass = "othererr"
		}
	} else if anyIn {
		bad("query/healthy-main-not-used", "no main upstream was consulted although at least one is in rotation")

		return hit, fs
	}

	// last is the exchange whose reply, if any, must reach the client.
	var last *c17Call
	switch mainClass {
	case "reply":
		if len(fbCalls) > 0 {
			bad("query/fallback-used-although-main-replied", "main replied %q", mainCalls[0].outcome)

			return hit, fs
		}
		last = &mainCalls[0]
	case "neterr", "none":
		if w.c.Fallbacks > 0 && len(fbCalls) == 0 {
			bad("query/no-fallback-attempt", "main upstream: %s, but no fallback was tried", mainClass)

			return hit, fs
		}
		if len(fbCalls) == 1 {
			last = &fbCalls[0]
		}
	default:
		// A non-network error of the main upstream is outside the statement:
		// both "error" and "one fallback attempt" are accepted.
		if len(fbCalls) == 1 {
			last = &fbCalls[0]
		}
	}

	cls := "main:" + mainClass
	if len(fbCalls) == 1 {
		if c17IsReply(fbCalls[0].outcome) {
			cls += ">fb:reply"
		} else {
			cls += ">fb:fail"
		}
	}
	if last != nil && last.resp != nil {
		// The last upstream consulted replied: that reply is the answer.
		if err != nil || got == nil || (got != last.resp && vdns.Canon(got, true) != vdns.Canon(last.resp, true)) {
			key := "query/main-reply-not-returned"
			if !last.ups.main {
				key = "query/fallback-reply-not-returned"
			}
			bad(key, "%s replied %s", last.ups.name, vdns.Canon(last.resp, true))

			return hit, fs
		}
		cls += "=answer"
	} else {
		// Nobody replied: the client gets SERVFAIL, i.e. at this seam the
		// handler returns an error and writes nothing.
		if got != nil {
			bad("query/response-without-valid-reply", "a response was written although no consulted upstream returned a valid reply")

			return hit, fs
		}
		if err == nil {
			bad("query/no-error-after-all-failed", "no error is returned although no upstream replied")

			return hit, fs
		}
		cls += "=error"
	}
	w.r.Class(cls)

	return hit, fs
}

func c17CallsString(calls []c17Call) string {
	if len(calls) == 0 {
		return "none"
	}
	var parts []string
	for _, c := range calls {
		p := c.ups.name
		if c.probe {
			p += "(probe)"
		}
		parts = append(parts, p+":"+c.outcome)
	}

	return strings.Join(parts, " -> ")
}

func (w *c17World) statusString(t time.Time) string {
	var parts []string
	for i := range w.ref.m {
		parts = append(parts, fmt.Sprintf("m%d=%s", i, [...]string{"in", "OUT", "any"}[w.ref.status(i, t)]))
	}

	return strings.Join(parts, " ")
}

// fanout runs the queries of one fan-out: every pair of draw values for the
// light outcome pairs, and (full only) every outcome pair with draws (0,0),
// (1,1)….  It also checks that every main in rotation is reachable by some
// draw and no excluded one is.
func (w *c17World) fanout(full bool) (fs []vrt.Finding) {
	p := max(w.c.Mains, w.c.Fallbacks, 1)
	now := time.Now()
	hitSet := make([]bool, w.c.Mains)
	for _, oo := range c17QueryOutcomesLight {
		for a := range p {
			for b := range p {
				hit, qfs := w.query(a, b, oo[0], oo[1])
				if len(qfs) > 0 {
					return qfs
				}
				if hit >= 0 {
					hitSet[hit] = true
				}
			}
		}
	}
	if time.Since(now) == 0 {
		for i := range w.ref.m {
			if w.ref.status(i, now) == c17In && !hitSet[i] {
				return vrt.F("query/healthy-main-never-picked",
					"at %s main upstream m%d is in rotation by the statement (reference status %s; %s) but no value of the random pick sends a query to it",
					c17T(now), i, w.statusString(now), w.dump())
			}
		}
	}
	if !full {
		return nil
	}
	for _, oo := range c17QueryOutcomesFull {
		for a := range p {
			_, qfs := w.query(a, a, oo[0], oo[1])
			if len(qfs) > 0 {
				return qfs
			}
		}
	}
	// Every up/down pattern over the individual upstreams that is not uniform
	// per role, with every pair of draws.
	all := append(append([]*c17Ups{}, w.env.mains...), w.env.fbs...)
	for bits := range 1 << len(all) {
		uniform := true
		for i, u := range all {
			u.queryOut = c17OK
			if bits>>i&1 == 1 {
				u.queryOut = c17NetErr
			}
			uniform = uniform && (i == 0 || i == w.c.Mains || u.queryOut == all[i-1].queryOut)
		}
		if uniform {
			continue
		}
		for a := range p {
			for b := range p {
				_, qfs := w.queryNow(a, b)
				if len(qfs) > 0 {
					return qfs
				}
			}
		}
	}

	return nil
}

// dump returns the state of the real handler in canonical form.
func (w *c17World) dump() string {
	var sb strings.Builder
	now := time.Now()
	sb.WriteString("active=[")
	for i, u := range w.h.activeUpstreams {
		if i > 0 {
			sb.WriteByte(' ')
		}
		sb.WriteString(u.String())
	}
	sb.WriteString("] lastFailedAgo=[")
	for i, s := range w.h.upstreams {
		if i > 0 {
			sb.WriteByte(' ')
		}
		if s.lastFailedHealthcheck.IsZero() {
			sb.WriteString("never")
		} else {
			sb.WriteString(now.Sub(s.lastFailedHealthcheck).String())
		}
	}
	sb.WriteString("]")

	return sb.String()
}

var (
	c17Local  = &net.UDPAddr{IP: net.IP{127, 0, 0, 1}, Port: 53}
	c17Remote = &net.UDPAddr{IP: net.IP{192, 0, 2, 1}, Port: 3333}
)

func c17RunHandlerCase(r *vrt.Run, c c17Case) (fs []vrt.Finding) {
	w := c17NewWorld(r, c)
	for step, ev := range c.Events {
		switch {
		case ev == "q":
			fs = w.fanout(false)
		case strings.HasPrefix(ev, "R:"):
			outs := strings.Split(ev[2:], ",")
			if len(outs) != c.Mains {
				vrt.Fatalf("c17: bad event %q", ev)
			}
			for i, u := range w.env.mains {
				u.probeOut = outs[i]
			}
			// Fallbacks are never probed by a round by the statement; if
			// they are, they answer.
			w.env.src.vals = []uint64{0xc17}
			w.env.calls = w.env.calls[:0]
			t0 := time.Now()
			// Like the refresh worker of the service, a round runs under a
			// deadline; only a silent upstream ever reaches it.
			rctx, cancel := context.WithTimeout(context.Background(), c17RoundTimeout)
			_ = w.h.Refresh(rctx)
			cancel()
			r.Trans(1)
			fs = w.ref.round(t0, w.env.calls, w.env.mains)
			probed := 0
			for _, cl := range w.env.calls {
				if cl.probe {
					probed++
				}
			}
			r.Class(fmt.Sprintf("round:%d-of-%d-probed", probed, c.Mains))
		case strings.HasPrefix(ev, "A:"):
			b := time.Duration(c.BackoffMs) * time.Millisecond
			switch ev[2:] {
			case "backoff-1ns":
				time.Sleep(b - 1)
			case "1ns":
				time.Sleep(1)
			case "backoff":
				time.Sleep(b)
			default:
				vrt.Fatalf("c17: bad event %q", ev)
			}
		default:
			vrt.Fatalf("c17: bad event %q", ev)
		}
		if len(fs) > 0 {
			for i := range fs {
				fs[i].Detail = fmt.Sprintf("after event %d (%s) of %v: %s", step, ev, c.Events, fs[i].Detail)
			}

			return fs
		}
	}
	// Digest of the reached state: real handler state plus reference state.
	r.State(fmt.Sprintf("%d/%d/%d %s %s", c.Mains, c.Fallbacks, c.BackoffMs, w.dump(), w.statusString(time.Now())))
	fs = w.fanout(true)
	for i := range fs {
		fs[i].Detail = fmt.Sprintf("after all events %v: %s", c.Events, fs[i].Detail)
	}

	return fs
}

// c17Config is one handler configuration to explore.
type c17Config struct {
	mains, fbs int
	backoffMs  int64
	kinds      []string
	maxLen     int
}

func c17HandlerConfigs(r *vrt.Run) (cfgs []c17Config) {
	d := vrt.Pick(r, 5, 6) // events before the final query fan-out
	r.Bound("handler_history_len", d)
	r.Bound("handler_depth_incl_final_queries", d+1)
	single := vrt.Pick(r, []string{c17NetErr, c17Servfail, c17Timeout},
		[]string{c17NetErr, c17Servfail, c17Timeout, c17BadReply, c17NXDomain, c17EOF})
	const backoff = 10_000
	for _, k := range single {
		cfgs = append(cfgs,
			c17Config{2, 2, backoff, []string{k}, d},
			c17Config{2, 1, backoff, []string{k}, d - 1},
			c17Config{1, 1, backoff, []string{k}, d + 1},
			c17Config{2, 1, 0, []string{k}, d},
		)
	}
	// A silent main upstream: the round's own deadline ends the probe (and,
	// for the upstreams after it, the round).
	cfgs = append(cfgs, c17Config{2, 1, backoff, []string{c17Silent}, d - 1}, c17Config{1, 1, backoff, []string{c17Silent}, d})
	// Without fallbacks.
	cfgs = append(cfgs, c17Config{2, 0, backoff, []string{c17NetErr}, d}, c17Config{1, 0, backoff, []string{c17Timeout}, d})
	// Mixed failure kinds in one history.
	pairs := [][]string{{c17NetErr, c17Servfail}, {c17NetErr, c17Timeout}, {c17Servfail, c17Timeout}}
	if r.Thorough() {
		pairs = append(pairs, []string{c17Timeout, c17BadReply}, []string{c17NXDomain, c17EOF})
	}
	for _, p := range pairs {
		cfgs = append(cfgs, c17Config{2, 2, backoff, p, d - 1})
	}
	if r.Thorough() {
		// A backoff equal to the time a timed-out probe blocks, and a tiny one.
		cfgs = append(cfgs, c17Config{2, 2, int64(c17UpsTimeout / time.Millisecond), []string{c17Timeout}, d},
			c17Config{2, 1, 1, []string{c17NetErr}, d})
		// One level deeper for the central configuration.
		cfgs = append(cfgs, c17Config{2, 2, backoff, []string{c17NetErr}, d + 1}, c17Config{2, 2, backoff, []string{c17Timeout}, d + 1})
	}

	return cfgs
}

func TestVerifC17Handler(t *testing.T) {
	r := vrt.Start("C17")
	synctest.Test(t, func(t *testing.T) {
		c17Epoch = time.Now()
		vrt.Part(r, "handler", func(emit func(c17Case)) {
			seen := map[string]int{}
			for _, cf := range c17HandlerConfigs(r) {
				alpha := c17Alphabet(cf.mains, cf.backoffMs, cf.kinds)
				key := fmt.Sprintf("%d/%d/%d/%v", cf.mains, cf.fbs, cf.backoffMs, cf.kinds)
				// A deeper run of the same configuration only adds the longer
				// histories.
				minLen := 0
				if l, ok := seen[key]; ok {
					minLen = l + 1
				}
				seen[key] = cf.maxLen
				vrt.Sequences(len(alpha), minLen, cf.maxLen, func(seq []int) {
					evs := make([]string, len(seq))
					for i, k := range seq {
						evs[i] = alpha[k]
					}
					emit(c17Case{Mains: cf.mains, Fallbacks: cf.fbs, BackoffMs: cf.backoffMs, Events: evs})
				})
			}
		}, func(c c17Case) []vrt.Finding { return c17RunHandlerCase(r, c) })
	})
	r.Finish()
	os.Exit(0)
}
