//go:build verif

package forward

// C17, part "race" (engine XS): one health-check round concurrently with one
// or two queries on the real forward.Handler, under the cooperative schedule
// explorer.  forward.go and healthcheck.go are instrumented (sync import ->
// shim locks, a scheduling point before every call statement of ServeDNS,
// exchange, pickActiveUpstream, Refresh, refresh, healthcheck,
// healthcheckUpstream, checkUpstream, reportChange); the scripted upstreams
// yield when an exchange begins and ends.  Every schedule with at most 2
// (thorough 3) preemptions is executed.
//
// Oracle: linearizability of this tiny case.  Each query must be what the
// reference machine allows in the state BEFORE the round or in the state
// AFTER it; after the execution the handler is in the AFTER state; no
// deadlock, no panic.

import (
	"context"
	"fmt"
	"os"
	"runtime"
	"runtime/debug"
	"strings"
	"testing"
	"time"

	"github.com/AdguardTeam/AdGuardDNS/internal/dnsserver"
	"github.com/AdguardTeam/AdGuardDNS/internal/dnsserver/zzverif/vdns"
	"github.com/AdguardTeam/AdGuardDNS/internal/dnsserver/zzverif/vrt"
	"github.com/AdguardTeam/AdGuardDNS/internal/dnsserver/zzverif/xsched"
	"github.com/miekg/dns"
	"golang.org/x/exp/rand"
)

// c17RaceScenario is one scenario: configuration, starting state, the round
// and the draws of the concurrent queries.
type c17RaceScenario struct {
	Fallbacks int   `json:"fallbacks"`
	BackoffMs int64 `json:"backoff_ms"`
	// Start is the probe-outcome vector of the round that is run, alone,
	// before the exploration ("ok,ok" = all mains in, "neterr,ok" = m0 out …).
	Start string `json:"start"`
	// Round is the probe-outcome vector of the concurrent round.
	Round string `json:"round"`
	// Draws are the two random draws of every concurrent query.
	Draws [][2]int `json:"draws"`
	// Pre is the preemption bound of the exploration of this scenario.
	Pre int `json:"preemption_bound"`
}

type c17RaceCase struct {
	Scenario c17RaceScenario `json:"scenario"`
	Choices  []int           `json:"choices"`
}

// c17TaskSrc is the random source of part "race": the values a task draws
// are fixed per task, so that the draws of a query do not depend on the
// schedule.  Outside the explorer it defers to base.
type c17TaskSrc struct {
	base *c17Src
	per  map[string][]uint64
}

func (s *c17TaskSrc) Seed(uint64) {}

func (s *c17TaskSrc) Uint64() (v uint64) {
	sc := xsched.Cur()
	if sc == nil || sc.Self() == nil {
		return s.base.Uint64()
	}
	name := sc.Self().Name
	if q := s.per[name]; len(q) > 0 {
		v, s.per[name] = q[0], q[1:]
	}

	return v
}

// c17RaceQuery is what one concurrent query did.
type c17RaceQuery struct {
	id   uint16
	done bool
	err  error
	got  *dns.Msg
}

type c17RaceEnv struct {
	sc      c17RaceScenario
	w       *c17World
	before  []c17RefMain
	t0      time.Time
	rDone   bool
	queries []*c17RaceQuery
	preFs   []vrt.Finding
}

const c17RaceMains = 2

func c17RaceSetup(r *vrt.Run, sc c17RaceScenario, s *xsched.Sched) (env *c17RaceEnv) {
	w := c17NewWorld(r, c17Case{Mains: c17RaceMains, Fallbacks: sc.Fallbacks, BackoffMs: sc.BackoffMs})
	env = &c17RaceEnv{sc: sc, w: w}
	src := &c17TaskSrc{base: w.env.src, per: map[string][]uint64{"R": {0xc17}}}
	w.h.rand = rand.New(src)
	setProbes := func(vec string) {
		outs := strings.Split(vec, ",")
		if len(outs) != c17RaceMains {
			vrt.Fatalf("c17: bad probe vector %q", vec)
		}
		for i, u := range w.env.mains {
			u.probeOut = outs[i]
		}
	}
	for _, u := range append(append([]*c17Ups{}, w.env.mains...), w.env.fbs...) {
		u.queryOut = c17OK
	}

	// Starting state: one round alone (the explorer is not running yet, the
	// shim locks fall through to the real ones).
	setProbes(sc.Start)
	w.env.src.vals = []uint64{0xc17}
	w.env.calls = w.env.calls[:0]
	t0 := time.Now()
	_ = w.h.Refresh(context.Background())
	env.preFs = w.ref.round(t0, w.env.calls, w.env.mains)
	env.before = append([]c17RefMain{}, w.ref.m...)
	w.env.calls = w.env.calls[:0]

	setProbes(sc.Round)
	for i, d := range sc.Draws {
		name := fmt.Sprintf("Q%d", i+1)
		src.per[name] = []uint64{uint64(d[0]), uint64(d[1])}
		q := &c17RaceQuery{id: uint16(7001 + i)}
		env.queries = append(env.queries, q)
		s.Go(name, func() {
			req := vdns.NewReq(q.id, c17QueryDom, dns.TypeA, dns.ClassINET)
			rw := dnsserver.NewNonWriterResponseWriter(c17Local, c17Remote)
			q.err = w.h.ServeDNS(context.Background(), rw, req)
			q.got = rw.Msg()
			q.done = true
		})
	}
	s.Go("R", func() {
		env.t0 = time.Now()
		_ = w.h.Refresh(context.Background())
		env.rDone = true
	})

	return env
}

func c17StatusVec(ref *c17Ref, m []c17RefMain, t time.Time) (st []int) {
	saved := ref.m
	ref.m = m
	for i := range m {
		st = append(st, ref.status(i, t))
	}
	ref.m = saved

	return st
}

func c17StatusVecString(st []int) string {
	var parts []string
	for i, x := range st {
		parts = append(parts, fmt.Sprintf("m%d=%s", i, [...]string{"in", "OUT", "any"}[x]))
	}

	return strings.Join(parts, " ")
}

// c17RaceCheck is the oracle of one execution.
func c17RaceCheck(r *vrt.Run, env *c17RaceEnv, x *xsched.Exec) (fs []vrt.Finding, obs string) {
	w := env.w
	sched := func() string { return "\nschedule:\n" + x.Sched.Describe() }
	if x.Sched.Panicked != "" {
		return vrt.F("race/panic", "%+v: %s%s", env.sc, x.Sched.Panicked, sched()), "panic"
	}
	if x.Sched.Deadlock {
		return vrt.F("race/deadlock", "%+v: blocked: %v%s", env.sc, x.Sched.Blocked, sched()), "deadlock"
	}
	if x.Sched.LimitHit {
		return vrt.F("race/livelock", "%+v: step limit reached%s", env.sc, sched()), "livelock"
	}
	if len(env.preFs) > 0 {
		return env.preFs, "prelude"
	}
	if !env.rDone {
		return vrt.F("race/round-did-not-finish", "%+v%s", env.sc, sched()), "unfinished"
	}

	// AFTER state: the reference consumes the probes of the concurrent round.
	var probes []c17Call
	byID := map[uint16][]c17Call{}
	for _, c := range w.env.calls {
		if c.probe {
			probes = append(probes, c)
		} else {
			byID[c.reqID] = append(byID[c.reqID], c)
		}
	}
	now := time.Now()
	before := c17StatusVec(w.ref, env.before, now)
	if rfs := w.ref.round(env.t0, probes, w.env.mains); len(rfs) > 0 {
		for i := range rfs {
			rfs[i].Detail = fmt.Sprintf("%+v (concurrent round): %s%s", env.sc, rfs[i].Detail, sched())
		}

		return rfs, "round"
	}
	after := c17StatusVec(w.ref, w.ref.m, now)

	var obsParts []string
	for qi, q := range env.queries {
		calls := byID[q.id]
		what := fmt.Sprintf("%+v: query Q%d (draws %v) consulted %s and returned err=%v resp=%s; reference before the round: %s, after it: %s; real handler now: %s",
			env.sc, qi+1, env.sc.Draws[qi], c17CallsString(calls), q.err, vdns.Canon(q.got, true),
			c17StatusVecString(before), c17StatusVecString(after), w.dump())
		if !q.done {
			return vrt.F("race/query-did-not-finish", "%s%s", what, sched()), "unfinished"
		}
		var mains, fbs []c17Call
		for _, c := range calls {
			if c.ups.main {
				mains = append(mains, c)
			} else {
				fbs = append(fbs, c)
			}
		}
		switch {
		case len(mains) > 1:
			return vrt.F("race/more-than-one-main-tried", "%s%s", what, sched()), "bad"
		case len(fbs) > 1:
			return vrt.F("race/fallback-tried-more-than-once", "%s%s", what, sched()), "bad"
		}
		// allowed reports whether the selection is what the reference allows
		// in the state st.
		allowed := func(st []int) bool {
			anyIn := false
			for _, x := range st {
				anyIn = anyIn || x == c17In
			}
			if len(mains) == 1 {
				return st[mains[0].ups.idx] != c17Out
			}

			return !anyIn
		}
		okB, okA := allowed(before), allowed(after)
		if !okB && !okA {
			if len(mains) == 1 {
				return vrt.F("race/main-used-that-is-out-before-and-after", "%s%s", what, sched()), "bad"
			}

			return vrt.F("race/no-main-used-although-one-is-in-before-and-after", "%s%s", what, sched()), "bad"
		}
		// The result: all upstreams answer queries in this part.
		var last *c17Call
		switch {
		case len(mains) == 1:
			if len(fbs) > 0 {
				return vrt.F("race/fallback-used-although-main-replied", "%s%s", what, sched()), "bad"
			}
			last = &mains[0]
		case len(fbs) == 1:
			last = &fbs[0]
		case env.sc.Fallbacks > 0:
			return vrt.F("race/no-fallback-attempt", "%s%s", what, sched()), "bad"
		}
		if last != nil {
			if q.err != nil || q.got == nil || (q.got != last.resp && vdns.Canon(q.got, true) != vdns.Canon(last.resp, true)) {
				return vrt.F("race/reply-not-returned", "%s%s", what, sched()), "bad"
			}
		} else if q.err == nil || q.got != nil {
			return vrt.F("race/no-error-although-nobody-replied", "%s%s", what, sched()), "bad"
		}
		lin := "both"
		switch {
		case okB && !okA:
			lin = "before"
		case okA && !okB:
			lin = "after"
		}
		obsParts = append(obsParts, fmt.Sprintf("Q%d:%s lin=%s", qi+1, c17CallsString(calls), lin))
	}

	// The handler must now be in the AFTER state.
	active := map[string]bool{}
	for _, u := range w.h.activeUpstreams {
		if active[u.String()] {
			return vrt.F("race/state-after-round-differs", "%+v: %s is twice in the active list; %s%s", env.sc, u, w.dump(), sched()), "bad"
		}
		active[u.String()] = true
	}
	for i, st := range after {
		name := w.env.mains[i].name
		if (st == c17In && !active[name]) || (st == c17Out && active[name]) {
			return vrt.F("race/state-after-round-differs",
				"%+v: after the round the reference has %s, the real handler %s%s", env.sc, c17StatusVecString(after), w.dump(), sched()), "bad"
		}
	}
	// And it must serve like that (sequential light query fan-out).
	if ffs := w.fanout(false); len(ffs) > 0 {
		for i := range ffs {
			ffs[i].Key = "race/after-round-" + strings.TrimPrefix(ffs[i].Key, "query/")
			ffs[i].Detail = fmt.Sprintf("%+v, after the concurrent execution: %s%s", env.sc, ffs[i].Detail, sched())
		}

		return ffs, "bad"
	}

	return nil, strings.Join(obsParts, " ") + " => " + c17StatusVecString(after)
}

func c17RaceScenarios(thorough bool) (scs []c17RaceScenario) {
	vecs := []string{"ok,ok", "neterr,ok", "ok,neterr", "neterr,neterr"}
	one := [][][2]int{{{0, 0}}, {{0, 1}}, {{1, 0}}, {{1, 1}}}
	add := func(nf int, backoff int64, starts, rounds []string, draws [][][2]int, pre int) {
		for _, st := range starts {
			for _, rd := range rounds {
				for _, d := range draws {
					scs = append(scs, c17RaceScenario{Fallbacks: nf, BackoffMs: backoff, Start: st, Round: rd, Draws: d, Pre: pre})
				}
			}
		}
	}
	// One query and the round: every starting state, every round, every
	// pair of draws.
	pre1 := 2
	if thorough {
		pre1 = 3
	}
	add(1, 0, vecs, vecs, one, pre1)
	add(1, 10_000, vecs, vecs, one, pre1)
	add(0, 10_000, vecs[:1], vecs, one, pre1)
	// Two queries and the round (three tasks), at most 2 preemptions.
	if !thorough {
		two := [][][2]int{{{0, 0}, {1, 0}}}
		add(1, 0, []string{"ok,ok"}, []string{"neterr,neterr"}, two, 2)
		add(1, 0, []string{"neterr,neterr"}, []string{"ok,ok"}, two, 2)
		add(1, 0, []string{"neterr,ok"}, []string{"ok,neterr"}, two, 2)
		add(1, 10_000, []string{"neterr,ok"}, []string{"neterr,neterr"}, two, 2)
		add(0, 10_000, vecs[:1], []string{"neterr,neterr"}, two, 2)

		return scs
	}
	var two [][][2]int
	for a := range 2 {
		for c := range 2 {
			// The two queries draw different main picks; the second draw
			// (fallback pick, or the pick when no main is active) varies.
			two = append(two, [][2]int{{a, c}, {1 - a, c}})
		}
	}
	add(1, 0, vecs, vecs, two, 2)
	add(1, 10_000, []string{"ok,ok", "neterr,ok", "neterr,neterr"}, vecs, two, 2)
	add(0, 10_000, vecs[:1], vecs, two[:2], 2)

	return scs
}

func TestVerifC17Race(t *testing.T) {
	r := vrt.Start("C17")
	c17Epoch = time.Now()
	var rc c17RaceCase
	if r.ReplayCase("race", &rc) {
		var env *c17RaceEnv
		x := xsched.Replay(rc.Choices, func(s *xsched.Sched) { env = c17RaceSetup(r, rc.Scenario, s) })
		r.Eval()
		fs, _ := c17RaceCheck(r, env, x)
		r.Report("race", rc, fs)
	}
	if r.ShouldRun() {
		debug.SetGCPercent(-1)
		shard, nshards := r.NShards()
		scs := c17RaceScenarios(r.Thorough())
		r.Bound("race_preemptions", fmt.Sprintf("round + 1 query: %d; round + 2 queries: 2", vrt.Pick(r, 2, 3)))
		r.Bound("race_scenarios", len(scs))
		r.Bound("race_tasks", "1 health-check round + 1 or 2 queries, 2 mains, 0/1 fallbacks, backoff 0 / 10 s")
		execs := 0
		for si, sc := range scs {
			if si%nshards != shard {
				continue
			}
			if r.Expired() {
				r.Note("race exploration stopped by internal deadline before scenario %d of %d", si, len(scs))

				break
			}
			var env *c17RaceEnv
			found := 0
			st := xsched.Explore(xsched.Config{MaxPreemptions: sc.Pre, MaxDeviations: 0, Stop: r.Expired},
				func(s *xsched.Sched) { env = c17RaceSetup(r, sc, s) },
				func(x *xsched.Exec) bool {
					execs++
					if execs%2000 == 0 {
						runtime.GC()
					}
					r.Eval()
					r.Trans(len(x.Sched.Trace))
					fs, obs := c17RaceCheck(r, env, x)
					r.Class("race " + obs)
					if r.State(fmt.Sprintf("race %+v %s", sc, obs)) {
						r.Sample(map[string]any{"scenario": sc, "observation": obs, "preemptions": x.Preemptions})
					}
					if len(fs) > 0 {
						r.Report("race", c17RaceCase{Scenario: sc, Choices: x.Choices}, fs)
						found++
					}

					return found < 1
				})
			r.Count("race_scheduling_points", st.Points)
			if st.Stopped {
				r.Note("race scenario %+v stopped by deadline after %d executions", sc, st.Executions)
			}
		}
	}
	r.Finish()
	os.Exit(0)
}
