//go:build verif

package forward

// C17, parts "upstream" and "e2e": the real UpstreamPlain (connection pools,
// retry, UDP->TCP switch, reply validation) over scripted in-memory
// connections, alone and below the real Handler.

import (
	"context"
	"encoding/binary"
	"errors"
	"fmt"
	"io"
	"net"
	"net/netip"
	"os"
	"strings"
	"syscall"
	"testing"
	"testing/synctest"
	"time"

	"github.com/AdguardTeam/AdGuardDNS/internal/dnsserver"
	"github.com/AdguardTeam/AdGuardDNS/internal/dnsserver/pool"
	"github.com/AdguardTeam/AdGuardDNS/internal/dnsserver/zzverif/vdns"
	"github.com/AdguardTeam/AdGuardDNS/internal/dnsserver/zzverif/vrt"
	"github.com/miekg/dns"
	"golang.org/x/exp/rand"
)

// Behaviours of a scripted connection for one request written to it.
const (
	bMatch     = "match"     // NOERROR reply with the request's ID and question
	bCaseName  = "casename"  // like match, question name in a different letter case
	bTC        = "tc"        // like match, TC=1 and no records
	bWrongID   = "wrongid"   // reply with ID+1
	bWrongName = "wrongname" // reply for another name
	bWrongType = "wrongtype" // reply for AAAA instead of A
	bTwoQ      = "twoq"      // reply with two questions
	bNoQ       = "noq"       // reply with an empty question section
	bJunk      = "junk"      // 20 bytes that are not a DNS message
	bShort     = "short"     // 12 bytes
	bStale     = "stale"     // the reply to the previous request of this connection
	bEOF       = "eof"       // peer closed: Read returns io.EOF
	bReset     = "reset"     // Read returns ECONNRESET
	bSilent    = "silent"    // no reply: Read times out at the deadline
	bRefuse    = "refuse"    // the dial fails with ECONNREFUSED
	bWriteFail = "writefail" // Write fails with EPIPE
	bServfail  = "servfail"  // matching SERVFAIL reply
	bDup       = "dup"       // the matching reply, sent twice (the copy stays unread on the connection)
	bHold      = "hold"      // the matching reply, delivered only when the harness releases it (keeps an exchange in flight)
)

var c17Behaviours = []string{
	bMatch, bCaseName, bTC, bWrongID, bWrongName, bWrongType, bTwoQ, bNoQ, bJunk, bShort, bEOF, bReset, bSilent,
	bRefuse, bWriteFail,
}

// Composite behaviours "established/dial": the upstream went away — its
// established connections end (EOF: closed gracefully; reset: RST) and it no
// longer listens (new dials are refused).
const (
	bGoneEOF   = bEOF + "/" + bRefuse
	bGoneReset = bReset + "/" + bRefuse
)

// c17BehAt resolves a composite behaviour for request nreq (-1: the dial).
func c17BehAt(beh string, nreq int) string {
	est, dial, ok := strings.Cut(beh, "/")
	if !ok {
		return beh
	}
	if nreq < 0 {
		return dial
	}

	return est
}

func bAccept(b string) bool { return b == bMatch || b == bCaseName || b == bServfail }

// bNetErr reports whether every attempt with behaviour b ends in a network
// failure.  A gone upstream is one: whatever the pooled connection says, the
// re-dial is refused.
func bNetErr(b string) bool {
	return b == bSilent || b == bReset || b == bRefuse || b == bWriteFail || b == bGoneEOF || b == bGoneReset
}
func bInvalid(b string) bool {
	switch b {
	case bWrongID, bWrongName, bWrongType, bTwoQ, bNoQ, bJunk, bShort:
		return true
	}

	return false
}

// c17Sent is one request seen by a scripted server together with what it
// sent back.
type c17Sent struct {
	conn  *c17Conn
	exch  int
	req   *dns.Msg
	beh   string
	reply *dns.Msg // nil when nothing decodable was sent
}

// c17Srv is the scripted server side of one upstream.
type c17Srv struct {
	name string
	// beh returns the behaviour of connection connIdx of transport nw for
	// its nreq-th request; nreq == -1 asks about the dial.
	beh   func(nw Network, connIdx, nreq int) string
	nconn map[Network]int
	exch  *int
	log   []c17Sent
	// holds are the release channels of the replies being held back, in the
	// order the requests arrived.
	holds []chan struct{}
	// conns are all connections dialled, in order.
	conns []*c17Conn
	// refused[e] is set when a dial was refused during exchange e.
	refused map[int]bool
}

func c17OpErr(op string, nw Network, errno syscall.Errno) error {
	sc := map[string]string{"dial": "connect", "read": "read", "write": "write"}[op]

	return &net.OpError{Op: op, Net: string(nw), Addr: &net.UDPAddr{IP: net.IP{192, 0, 2, 9}, Port: 53},
		Err: os.NewSyscallError(sc, errno)}
}

func c17TimeoutErr(op string, nw Network) error {
	return &net.OpError{Op: op, Net: string(nw), Addr: &net.UDPAddr{IP: net.IP{192, 0, 2, 9}, Port: 53},
		Err: os.ErrDeadlineExceeded}
}

// factory returns the pool factory of network nw.
func (s *c17Srv) factory(nw Network) pool.Factory {
	return func(ctx context.Context) (conn net.Conn, err error) {
		idx := s.nconn[nw]
		s.nconn[nw]++
		if s.beh(nw, idx, -1) == bRefuse {
			if s.refused == nil {
				s.refused = map[int]bool{}
			}
			s.refused[*s.exch] = true

			return nil, c17OpErr("dial", nw, syscall.ECONNREFUSED)
		}

		c := &c17Conn{srv: s, nw: nw, idx: idx}
		s.conns = append(s.conns, c)

		return c, nil
	}
}

// c17Conn is a scripted in-memory net.Conn: datagram semantics for UDP,
// stream semantics with length prefixes for TCP.  It is synchronous: the
// server side reacts inside Write.
type c17Conn struct {
	srv    *c17Srv
	nw     Network
	idx    int
	nreq   int
	rdl    time.Time
	wdl    time.Time
	dgrams [][]byte
	stream []byte
	wbuf   []byte
	rerr   error
	closed bool
	// hold, when not nil, blocks Read until it is closed.
	hold chan struct{}
	// dirtyAt[e] is set when a request of exchange e was written while
	// unread reply bytes of an earlier request were pending.
	dirtyAt map[int]bool
	prev   *dns.Msg
}

// type check
var _ net.Conn = (*c17Conn)(nil)

func (c *c17Conn) LocalAddr() net.Addr  { return &net.UDPAddr{IP: net.IP{192, 0, 2, 1}, Port: 40000 + c.idx} }
func (c *c17Conn) RemoteAddr() net.Addr { return &net.UDPAddr{IP: net.IP{192, 0, 2, 9}, Port: 53} }
func (c *c17Conn) Close() error {
	if c.closed {
		return net.ErrClosed
	}
	c.closed = true

	return nil
}
func (c *c17Conn) SetDeadline(t time.Time) error      { c.rdl, c.wdl = t, t; return nil }
func (c *c17Conn) SetReadDeadline(t time.Time) error  { c.rdl = t; return nil }
func (c *c17Conn) SetWriteDeadline(t time.Time) error { c.wdl = t; return nil }

func (c *c17Conn) Write(b []byte) (n int, err error) {
	if c.closed {
		return 0, &net.OpError{Op: "write", Net: string(c.nw), Err: net.ErrClosed}
	}
	if !c.wdl.IsZero() && !time.Now().Before(c.wdl) {
		return 0, c17TimeoutErr("write", c.nw)
	}
	if c.nw == NetworkUDP {
		if werr := c.serve(append([]byte{}, b...)); werr != nil {
			return 0, werr
		}

		return len(b), nil
	}
	c.wbuf = append(c.wbuf, b...)
	for len(c.wbuf) >= 2 {
		l := int(binary.BigEndian.Uint16(c.wbuf))
		if len(c.wbuf) < 2+l {
			break
		}
		msg := append([]byte{}, c.wbuf[2:2+l]...)
		c.wbuf = c.wbuf[2+l:]
		if werr := c.serve(msg); werr != nil {
			return 0, werr
		}
	}

	return len(b), nil
}

// serve is the scripted server: it reacts to one request.
func (c *c17Conn) serve(raw []byte) (werr error) {
	req := &dns.Msg{}
	if err := req.Unpack(raw); err != nil || len(req.Question) != 1 {
		vrt.Fatalf("c17: scripted server got an undecodable request: %v", err)
	}
	beh := c.srv.beh(c.nw, c.idx, c.nreq)
	c.nreq++
	sent := c17Sent{conn: c, exch: *c.srv.exch, req: req, beh: beh}
	if len(c.dgrams) > 0 || len(c.stream) > 0 {
		if c.dirtyAt == nil {
			c.dirtyAt = map[int]bool{}
		}
		c.dirtyAt[*c.srv.exch] = true
	}
	defer func() { c.srv.log = append(c.srv.log, sent) }()

	q := req.Question[0]
	mk := func() *dns.Msg {
		m := (&dns.Msg{}).SetReply(req)
		m.RecursionAvailable = true
		tr := byte(1)
		if c.nw == NetworkTCP {
			tr = 2
		}
		m.Answer = []dns.RR{&dns.A{
			Hdr: dns.RR_Header{Name: m.Question[0].Name, Rrtype: dns.TypeA, Class: dns.ClassINET, Ttl: 60},
			A:   net.IP{10, c.srv.name[0], tr, byte(c.idx)},
		}}

		return m
	}
	var reply *dns.Msg
	var rawReply []byte
	switch beh {
	case bMatch, bDup:
		reply = mk()
	case bHold:
		reply = mk()
		c.hold = make(chan struct{})
		c.srv.holds = append(c.srv.holds, c.hold)
	case bServfail:
		reply = mk()
		reply.Answer = nil
		reply.Rcode = dns.RcodeServerFailure
	case bCaseName:
		reply = mk()
		reply.Question[0].Name = c17SwapCase(q.Name)
		reply.Answer[0].Header().Name = reply.Question[0].Name
	case bTC:
		reply = mk()
		reply.Truncated = true
		reply.Answer = nil
	case bWrongID:
		reply = mk()
		reply.Id = req.Id + 1
	case bWrongName:
		reply = mk()
		reply.Question[0].Name = "other-" + q.Name
		reply.Answer[0].Header().Name = reply.Question[0].Name
	case bWrongType:
		reply = mk()
		reply.Question[0].Qtype = dns.TypeAAAA
		reply.Answer = []dns.RR{&dns.AAAA{
			Hdr:  dns.RR_Header{Name: q.Name, Rrtype: dns.TypeAAAA, Class: dns.ClassINET, Ttl: 60},
			AAAA: net.ParseIP("2001:db8::1"),
		}}
	case bTwoQ:
		reply = mk()
		reply.Question = append(reply.Question, dns.Question{Name: "second.example.", Qtype: q.Qtype, Qclass: q.Qclass})
	case bNoQ:
		reply = mk()
		reply.Question = nil
	case bStale:
		if c.prev != nil {
			reply = c.prev.Copy()
		} else {
			reply = mk()
			reply.Id = req.Id + 1
		}
	case bJunk:
		// Header announcing one question, then a label with the reserved
		// type bits 10: never decodable whatever follows.
		rawReply = make([]byte, 20)
		binary.BigEndian.PutUint16(rawReply, req.Id)
		rawReply[2] = 0x81
		rawReply[3] = 0x80
		rawReply[5] = 1
		rawReply[12] = 0x80
	case bShort:
		rawReply = make([]byte, 12)
		binary.BigEndian.PutUint16(rawReply, req.Id)
		rawReply[2] = 0x81
		rawReply[3] = 0x80
	case bEOF:
		c.rerr = io.EOF
	case bReset:
		c.rerr = c17OpErr("read", c.nw, syscall.ECONNRESET)
	case bRefuse:
		// On an established (pooled) connection: ICMP port unreachable.
		c.rerr = c17OpErr("read", c.nw, syscall.ECONNREFUSED)
	case bSilent:
	case bWriteFail:
		return c17OpErr("write", c.nw, syscall.EPIPE)
	default:
		vrt.Fatalf("c17: unknown behaviour %q", beh)
	}
	if reply != nil {
		var err error
		rawReply, err = reply.Pack()
		if err != nil {
			vrt.Fatalf("c17: packing scripted reply: %v", err)
		}
		// What the wire carries is what counts.
		sent.reply = &dns.Msg{}
		if err = sent.reply.Unpack(rawReply); err != nil {
			vrt.Fatalf("c17: unpacking scripted reply: %v", err)
		}
		if beh == bMatch || beh == bCaseName || beh == bServfail || beh == bDup || beh == bHold {
			c.prev = sent.reply
		}
	}
	copies := 1
	if beh == bDup {
		copies = 2
	}
	for range copies {
		if rawReply == nil {
			break
		}
		if c.nw == NetworkUDP {
			c.dgrams = append(c.dgrams, rawReply)
		} else {
			c.stream = binary.BigEndian.AppendUint16(c.stream, uint16(len(rawReply)))
			c.stream = append(c.stream, rawReply...)
		}
	}

	return nil
}

func (c *c17Conn) Read(b []byte) (n int, err error) {
	if c.closed {
		return 0, &net.OpError{Op: "read", Net: string(c.nw), Err: net.ErrClosed}
	}
	if !c.rdl.IsZero() && !time.Now().Before(c.rdl) {
		return 0, c17TimeoutErr("read", c.nw)
	}
	if c.hold != nil {
		// The reply is on its way: wait until the harness lets it arrive.
		var dl <-chan time.Time
		if !c.rdl.IsZero() {
			dl = time.After(time.Until(c.rdl))
		}
		select {
		case <-c.hold:
			c.hold = nil
		case <-dl:
			return 0, c17TimeoutErr("read", c.nw)
		}
	}
	if c.nw == NetworkUDP && len(c.dgrams) > 0 {
		n = copy(b, c.dgrams[0])
		c.dgrams = c.dgrams[1:]

		return n, nil
	}
	if c.nw == NetworkTCP && len(c.stream) > 0 {
		n = copy(b, c.stream)
		c.stream = c.stream[n:]

		return n, nil
	}
	if c.rerr != nil {
		return 0, c.rerr
	}
	if c.rdl.IsZero() {
		vrt.Fatalf("c17: Read without deadline on a silent connection would block forever")
	}
	time.Sleep(time.Until(c.rdl))

	return 0, c17TimeoutErr("read", c.nw)
}

func c17SwapCase(s string) string {
	b := []byte(s)
	for i, ch := range b {
		switch {
		case ch >= 'a' && ch <= 'z':
			b[i] = ch - 32
		case ch >= 'A' && ch <= 'Z':
			b[i] = ch + 32
		}
	}

	return string(b)
}

// c17NewPlain returns a real UpstreamPlain whose connection pools dial the
// scripted server.
func c17NewPlain(srv *c17Srv, nw Network, last byte) (u *UpstreamPlain) {
	u = NewUpstreamPlain(&UpstreamPlainConfig{
		Network: nw,
		Address: netip.AddrPortFrom(netip.AddrFrom4([4]byte{192, 0, 2, last}), 53),
		Timeout: time.Second,
	})
	// The pool's factory is private to package pool: rebuild the two pools
	// with the same capacity and idle timeout and a scripted factory.
	idleUDP, idleTCP := u.connsPoolUDP.IdleTimeout, u.connsPoolTCP.IdleTimeout
	u.connsPoolUDP = pool.NewPool(poolMaxCapacity, srv.factory(NetworkUDP))
	u.connsPoolUDP.IdleTimeout = idleUDP
	u.connsPoolTCP = pool.NewPool(poolMaxCapacity, srv.factory(NetworkTCP))
	u.connsPoolTCP.IdleTimeout = idleTCP

	return u
}

// c17Matches restates the acceptance rule: ID, question name
// (case-insensitively) and type match the query.
func c17Matches(req, resp *dns.Msg) bool {
	return resp != nil && resp.Id == req.Id && len(resp.Question) == 1 &&
		strings.EqualFold(resp.Question[0].Name, req.Question[0].Name) &&
		resp.Question[0].Qtype == req.Question[0].Qtype
}

// ---------------------------------------------------------------------------
// Part "upstream": histories of exchanges on one UpstreamPlain.

// c17UpCase is one history of exchanges.  UDP and TCP give the behaviour of
// the connections of either transport in order of creation (the last entry
// repeats).  GapS is the pause before the second and later exchanges.
type c17UpCase struct {
	Network   string   `json:"network"`
	UDP       []string `json:"udp_conns"`
	TCP       []string `json:"tcp_conns"`
	Exchanges int      `json:"exchanges"`
	GapS      int      `json:"gap_s"`
}

func c17RunUpCase(r *vrt.Run, c c17UpCase) (fs []vrt.Finding) {
	exch := 0
	srv := &c17Srv{name: "m", nconn: map[Network]int{}, exch: &exch}
	srv.beh = func(nw Network, idx, nreq int) string {
		l := c.UDP
		if nw == NetworkTCP {
			l = c.TCP
		}
		// "a|b": a for the dial and the first request, b afterwards.
		seq := strings.Split(l[min(idx, len(l)-1)], "|")

		return seq[min(max(nreq, 0), len(seq)-1)]
	}
	u := c17NewPlain(srv, Network(c.Network), 10)
	defer func() { _ = u.Close() }()
	var obs []string
	for e := range c.Exchanges {
		if e > 0 && c.GapS > 0 {
			time.Sleep(time.Duration(c.GapS) * time.Second)
		}
		exch = e
		req := vdns.NewReq(uint16(1000+7*e), fmt.Sprintf("Q%d-c17.Example.", e), dns.TypeA, dns.ClassINET)
		resp, nw, err := u.Exchange(context.Background(), req)
		r.Trans(1)

		var mine []c17Sent
		for _, s := range srv.log {
			if s.exch == e {
				mine = append(mine, s)
			}
		}
		var path []string
		for _, s := range mine {
			path = append(path, fmt.Sprintf("%s#%d:%s", s.conn.nw, s.conn.idx, s.beh))
		}
		what := fmt.Sprintf("exchange %d (query id=%d %s A) of %+v; connections used: %v; Exchange returned nw=%s err=%v resp=%s",
			e, req.Id, req.Question[0].Name, c, path, nw, err, vdns.Canon(resp, true))
		if err == nil {
			if !c17Matches(req, resp) {
				return vrt.F("upstream/mismatched-reply-accepted", "%s: the accepted reply does not match the query's ID, name and type", what)
			}
			found := false
			for _, s := range mine {
				found = found || (s.reply != nil && vdns.Canon(s.reply, true) == vdns.Canon(resp, true))
			}
			if !found {
				return vrt.F("upstream/accepted-reply-never-sent", "%s: the accepted reply was not sent by the upstream for this query", what)
			}
		}
		if len(mine) > 0 && (mine[0].beh == bMatch || mine[0].beh == bCaseName) && !c17Unread(mine[0].conn, e) {
			// The upstream replied with a matching reply at once.
			if err != nil || vdns.Canon(resp, true) != vdns.Canon(mine[0].reply, true) {
				return vrt.F("upstream/matching-reply-not-returned", "%s: the first connection answered with the matching reply %s",
					what, vdns.Canon(mine[0].reply, true))
			}
		}
		cls := "rejected"
		var ne net.Error
		if err != nil && srv.refused[e] && !errors.As(err, &ne) {
			// The exchange ended with a refused dial (nothing follows one):
			// the upstream does not listen any more.
			return vrt.F("upstream/upstream-gone-non-network-error",
				"%s: the last attempt of this exchange was a dial that the upstream refused — a network failure — but the error returned is not a network error, so the handler would not try a fallback", what)
		}
		switch {
		case err == nil && resp.Truncated:
			cls = "accepted-tc"
		case err == nil:
			cls = "accepted"
		case errors.As(err, &ne):
			cls = "neterr"
		}
		tcp := false
		for _, s := range mine {
			tcp = tcp || s.conn.nw == NetworkTCP
		}
		r.Class(fmt.Sprintf("up/%s/%s conns=%d tcp=%v", c.Network, cls, len(mine), tcp))
		obs = append(obs, cls+fmt.Sprint(path))
	}
	r.State("up " + c.Network + strings.Join(obs, ";"))

	return nil
}

// c17Unread reports whether conn still held unread bytes of an earlier
// exchange when exchange e began (a duplicate reply): then the first thing
// read in exchange e is not the reply to its request.
func c17Unread(c *c17Conn, e int) bool { return c.dirtyAt[e] }

func c17GenUpCases(r *vrt.Run, emit func(c17UpCase)) {
	nets := []string{string(NetworkAny), string(NetworkUDP), string(NetworkTCP)}
	all := c17Behaviours
	small := []string{bMatch, bWrongID, bEOF, bSilent, bRefuse}
	// One exchange: two connections per transport.
	second := vrt.Pick(r, small, all)
	for _, nw := range nets {
		for _, u0 := range all {
			for _, u1 := range second {
				for _, t0 := range all {
					for _, t1 := range second {
						emit(c17UpCase{Network: nw, UDP: []string{u0, u1}, TCP: []string{t0, t1}, Exchanges: 1})
					}
				}
			}
		}
	}
	// Two (thorough: three) exchanges: the first connection of a transport
	// works once and is pooled, then misbehaves.
	later := append(append([]string{}, all...), bStale)
	laterQ := vrt.Pick(r, []string{bMatch, bStale, bWrongID, bEOF, bReset, bSilent, bWriteFail}, later)
	nex := vrt.Pick(r, 2, 3)
	for _, nw := range nets {
		for _, first := range []string{bMatch, bTC, bDup} {
			for _, y := range laterQ {
				for _, u1 := range second {
					for _, yt := range laterQ {
						for _, t1 := range small {
							for _, gap := range []int{0, 31} {
								for n := 2; n <= nex; n++ {
									emit(c17UpCase{
										Network: nw, UDP: []string{first + "|" + y, u1}, TCP: []string{bMatch + "|" + yt, t1},
										Exchanges: n, GapS: gap,
									})
								}
							}
						}
					}
				}
			}
		}
	}
}

// ---------------------------------------------------------------------------
// Part "e2e": the real Handler over real UpstreamPlains over scripted
// connections: one main and one fallback upstream, an optional health-check
// round, one query.

type c17E2ECase struct {
	MainNet string `json:"main_network"`
	// MainUDP and MainTCP are the behaviours of all UDP and all TCP
	// connections of the main upstream for the query.
	MainUDP string `json:"main_udp"`
	MainTCP string `json:"main_tcp"`
	// Probe is the behaviour of all connections of the main upstream for the
	// health probe; "" means no health-check round before the query.
	Probe string `json:"probe,omitempty"`
	// Fallback is the behaviour of all connections of the fallback.
	Fallback string `json:"fallback"`
}

// c17Counting wraps an upstream and counts its exchanges.
type c17Counting struct {
	*UpstreamPlain
	n int
}

func (u *c17Counting) Exchange(ctx context.Context, req *dns.Msg) (*dns.Msg, Network, error) {
	u.n++

	return u.UpstreamPlain.Exchange(ctx, req)
}

func c17Transports(nw string) []Network {
	switch Network(nw) {
	case NetworkUDP:
		return []Network{NetworkUDP}
	case NetworkTCP:
		return []Network{NetworkTCP}
	}

	return []Network{NetworkUDP, NetworkTCP}
}

func c17RunE2ECase(r *vrt.Run, c c17E2ECase) (fs []vrt.Finding) {
	exch := 0 // 0: probe phase, 1: query phase
	msrv := &c17Srv{name: "m", nconn: map[Network]int{}, exch: &exch}
	fsrv := &c17Srv{name: "f", nconn: map[Network]int{}, exch: &exch}
	msrv.beh = func(nw Network, _, nreq int) string {
		if exch == 0 {
			return c.Probe
		}
		if nw == NetworkTCP {
			return c17BehAt(c.MainTCP, nreq)
		}

		return c17BehAt(c.MainUDP, nreq)
	}
	fsrv.beh = func(Network, int, int) string { return c.Fallback }

	mk := func(last byte) []*UpstreamPlainConfig {
		return []*UpstreamPlainConfig{{Address: netip.AddrPortFrom(netip.AddrFrom4([4]byte{192, 0, 2, last}), 53), Timeout: time.Second}}
	}
	h := NewHandler(&HandlerConfig{
		Logger:                     c17Logger,
		HealthcheckDomainTmpl:      "${RANDOM}." + c17ProbeDom,
		UpstreamsAddresses:         mk(10),
		FallbackAddresses:          mk(20),
		HealthcheckBackoffDuration: 10 * time.Second,
	})
	if len(h.upstreams) != 1 || len(h.activeUpstreams) != 1 || len(h.fallbacks) != 1 {
		vrt.Fatalf("c17: NewHandler slots")
	}
	main := &c17Counting{UpstreamPlain: c17NewPlain(msrv, Network(c.MainNet), 10)}
	fb := &c17Counting{UpstreamPlain: c17NewPlain(fsrv, NetworkAny, 20)}
	h.upstreams[0].upstream, h.activeUpstreams[0], h.fallbacks[0] = main, main, fb
	h.rand = rand.New(&c17Src{})
	defer func() { _ = h.Close() }()

	// Health of the main upstream by the statement: "in", "out" or "any".
	health := "in"
	if c.Probe != "" {
		_ = h.Refresh(context.Background())
		r.Trans(1)
		switch {
		case c.Probe == bMatch || c.Probe == bCaseName:
		case bNetErr(c.Probe) || bInvalid(c.Probe) || c.Probe == bServfail:
			// No acceptable NOERROR reply on any transport: the probe failed.
			health = "out"
		default:
			health = "any"
		}
		// Connections pooled by the probe follow the query behaviour of their
		// transport from now on.
		time.Sleep(time.Second)
	}
	exch = 1
	main.n, fb.n = 0, 0
	req := vdns.NewReq(4242, "Q-c17.Example.", dns.TypeA, dns.ClassINET)
	rw := dnsserver.NewNonWriterResponseWriter(c17Local, c17Remote)
	err := h.ServeDNS(context.Background(), rw, req)
	r.Trans(1)
	got := rw.Msg()

	var sentMain, sentFb []c17Sent
	for _, s := range msrv.log {
		if s.exch == 1 {
			sentMain = append(sentMain, s)
		}
	}
	for _, s := range fsrv.log {
		if s.exch == 1 {
			sentFb = append(sentFb, s)
		}
	}
	pathOf := func(ss []c17Sent) (p []string) {
		for _, s := range ss {
			p = append(p, fmt.Sprintf("%s#%d:%s", s.conn.nw, s.conn.idx, s.beh))
		}

		return p
	}
	what := fmt.Sprintf("%+v (main by the statement: %s): main connections used %v (%d exchanges), fallback connections used %v (%d exchanges); handler returned err=%v resp=%s",
		c, health, pathOf(sentMain), main.n, pathOf(sentFb), fb.n, err, vdns.Canon(got, true))

	if got != nil {
		ok := false
		for _, s := range append(append([]c17Sent{}, sentMain...), sentFb...) {
			ok = ok || (s.reply != nil && vdns.Canon(s.reply, true) == vdns.Canon(got, true))
		}
		if !c17Matches(req, got) || !ok {
			return vrt.F("e2e/client-got-unacceptable-reply", "%s: the response does not match the query's ID, name and type or was not sent by an upstream for it", what)
		}
	} else if err == nil {
		return vrt.F("e2e/no-response-and-no-error", "%s", what)
	}
	if fb.n > 1 {
		return vrt.F("e2e/fallback-tried-more-than-once", "%s", what)
	}

	// fbResult checks the outcome when the fallback decides.
	fbResult := func() []vrt.Finding {
		switch {
		case bAccept(c.Fallback):
			if err != nil || got == nil || len(sentFb) == 0 || vdns.Canon(got, true) != vdns.Canon(sentFb[0].reply, true) {
				return vrt.F("e2e/fallback-reply-not-returned", "%s", what)
			}
			r.Class("e2e/fallback-answer")
		case bNetErr(c.Fallback) || bInvalid(c.Fallback):
			if err == nil || got != nil {
				return vrt.F("e2e/no-error-after-both-failed", "%s", what)
			}
			r.Class("e2e/both-failed-error")
		default:
			r.Class("e2e/fallback-undecided")
		}

		return nil
	}

	tr := c17Transports(c.MainNet)
	behOf := func(nw Network) string {
		if nw == NetworkTCP {
			return c.MainTCP
		}

		return c.MainUDP
	}
	allNet := true
	for _, t := range tr {
		allNet = allNet && bNetErr(behOf(t))
	}
	switch {
	case health == "out":
		if len(sentMain) > 0 || main.n > 0 {
			return vrt.F("e2e/excluded-main-used", "%s: the health probe of the main upstream got no acceptable NOERROR reply, backoff 10s not elapsed", what)
		}
		if fb.n != 1 {
			return vrt.F("e2e/no-fallback-attempt", "%s", what)
		}
		r.Class("e2e/main-excluded")

		return fbResult()
	case health == "any":
		r.Class("e2e/probe-undecided")

		return nil
	case bAccept(behOf(tr[0])):
		if fb.n != 0 {
			return vrt.F("e2e/fallback-used-although-main-replied", "%s", what)
		}
		if err != nil || got == nil || len(sentMain) == 0 || vdns.Canon(got, true) != vdns.Canon(sentMain[0].reply, true) {
			return vrt.F("e2e/main-reply-not-returned", "%s", what)
		}
		r.Class("e2e/main-answer")

		return nil
	case allNet:
		// Timeouts, resets and refused connections on every transport of the
		// main upstream: a network error.
		if fb.n != 1 {
			return vrt.F("e2e/no-fallback-after-network-error", "%s", what)
		}
		r.Class("e2e/main-neterr")

		return fbResult()
	default:
		if err == nil {
			r.Class("e2e/other:answer")
		} else {
			r.Class("e2e/other:error")
		}
	}

	return nil
}

func c17GenE2ECases(r *vrt.Run, emit func(c17E2ECase)) {
	all := append(append([]string{}, c17Behaviours...), bServfail)
	probes := vrt.Pick(r, []string{"", bMatch, bWrongID, bSilent, bServfail, bTC}, append([]string{""}, all...))
	// For the query the main upstream may also have gone away: connections
	// pooled by a good probe end with EOF / RST and the re-dial is refused.
	mainQ := append(append([]string{}, all...), bGoneEOF, bGoneReset)
	fbs := vrt.Pick(r, []string{bMatch, bServfail, bWrongID, bSilent, bRefuse, bJunk, bTC, bEOF}, all)
	for _, nw := range []string{string(NetworkAny), string(NetworkUDP), string(NetworkTCP)} {
		for _, p := range probes {
			for _, mu := range mainQ {
				for _, mt := range mainQ {
					for _, f := range fbs {
						emit(c17E2ECase{MainNet: nw, MainUDP: mu, MainTCP: mt, Probe: p, Fallback: f})
					}
				}
			}
		}
	}
}

func TestVerifC17Upstream(t *testing.T) {
	r := vrt.Start("C17")
	r.Bound("upstream_exchanges_per_history", vrt.Pick(r, 2, 3))
	r.Bound("upstream_conn_behaviours", len(c17Behaviours)+2)
	r.Bound("upstream_conns_per_transport", 2)
	r.Bound("e2e_history", "optional health-check round, then one query; 1 main + 1 fallback")
	synctest.Test(t, func(t *testing.T) {
		c17Epoch = time.Now()
		vrt.Part(r, "upstream", func(emit func(c17UpCase)) { c17GenUpCases(r, emit) },
			func(c c17UpCase) []vrt.Finding { return c17RunUpCase(r, c) })
		vrt.Part(r, "e2e", func(emit func(c17E2ECase)) { c17GenE2ECases(r, emit) },
			func(c c17E2ECase) []vrt.Finding { return c17RunE2ECase(r, c) })
	})
	r.Bound("pool_histories", fmt.Sprintf("%v overlapping exchanges fill the pool, every subset of the pooled connections dies idle (5 ways), then exchanges / query / health-check round + query", vrt.Pick(r, []int{2}, []int{2, 3})))
	synctest.Test(t, func(t *testing.T) {
		vrt.Part(r, "pool", func(emit func(c17PoolCase)) { c17GenPoolCases(r, emit) },
			func(c c17PoolCase) []vrt.Finding { return c17RunPoolCase(r, c) })
	})
	// Real loopback sockets and real time: outside the bubble.
	r.Bound("init_cases", "fallbacks {0,1} x mains {1,2} x {ok, SERVFAIL, silent}^mains during NewHandler's initial health check, then queries, round, queries, round, queries")
	vrt.Part(r, "init", c17GenInitCases, func(c c17InitCase) []vrt.Finding { return c17RunInitCase(r, c) })
	r.Finish()
	os.Exit(0)
}
