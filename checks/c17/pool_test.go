//go:build verif

package forward

// C17, part "pool": histories that leave SEVERAL idle connections in the
// pool of an upstream (exchanges in flight at the same time), let a subset of
// them die while idle, and then send exchanges (level "upstream") or a query /
// a health-check round and a query through the real Handler (level "e2e").
//
// The exchanges overlap deterministically: inside the synctest bubble an
// exchange runs in its own goroutine until its scripted connection holds the
// reply back (behaviour "hold"); synctest.Wait tells the harness that it is
// parked; the next exchange is started; the held replies are released one by
// one, each exchange running to completion before the next is released.

import (
	"context"
	"errors"
	"fmt"
	"net"
	"net/netip"
	"testing/synctest"
	"time"

	"github.com/AdguardTeam/AdGuardDNS/internal/dnsserver"
	"github.com/AdguardTeam/AdGuardDNS/internal/dnsserver/zzverif/vdns"
	"github.com/AdguardTeam/AdGuardDNS/internal/dnsserver/zzverif/vrt"
	"github.com/miekg/dns"
	"golang.org/x/exp/rand"
)

// c17PoolCase is one history of part "pool".
type c17PoolCase struct {
	// Level is "upstream" (UpstreamPlain.Exchange alone) or "e2e" (real
	// Handler, one main and one healthy fallback).
	Level string `json:"level"`
	// Network of the (main) upstream.  With "" (any) every UDP reply is
	// truncated, so the exchange continues over TCP.
	Network string `json:"network"`
	// Pooled is the number of overlapping exchanges, i.e. of connections idle
	// in the pool afterwards.
	Pooled int `json:"pooled"`
	// Death is what a dead pooled connection does with the next request; Dead
	// is the bit mask of the pooled connections that die.
	Death string `json:"death"`
	Dead  int    `json:"dead_mask"`
	// Fresh is the behaviour of every connection dialled after the warm-up.
	Fresh string `json:"fresh"`
	// Then is what follows: "exchanges" (level upstream: two exchanges),
	// "query", or "round+query" (level e2e).
	Then string `json:"then"`
}

// poolTransport returns the transport whose pool the history fills.
func (c c17PoolCase) poolTransport() Network {
	if Network(c.Network) == NetworkUDP {
		return NetworkUDP
	}

	return NetworkTCP
}

// beh is the script of the (main) upstream's connections.
func (c c17PoolCase) beh(nw Network, idx, nreq int) string {
	if nw != c.poolTransport() {
		// Network any: UDP always answers truncated.
		return bTC
	}
	switch {
	case idx >= c.Pooled:
		return c.Fresh
	case nreq <= 0 && idx < c.Pooled-1:
		return bHold
	case nreq <= 0:
		return bMatch
	case c.Dead>>idx&1 == 1:
		return c.Death
	}

	return bMatch
}

func c17GenPoolCases(r *vrt.Run, emit func(c17PoolCase)) {
	deaths := []string{bEOF, bReset, bWriteFail, bRefuse, bSilent}
	for _, lvl := range []string{"upstream", "e2e"} {
		thens := []string{"exchanges"}
		if lvl == "e2e" {
			thens = []string{"query", "round+query"}
		}
		for _, nw := range []string{string(NetworkTCP), string(NetworkAny), string(NetworkUDP)} {
			for _, k := range vrt.Pick(r, []int{1, 2}, []int{1, 2, 3}) {
				for _, d := range deaths {
					for mask := 0; mask < 1<<k; mask++ {
						if mask == 0 && d != deaths[0] {
							continue
						}
						// refuse: the upstream no longer listens.
						for _, fresh := range []string{bMatch, bWrongID, bRefuse} {
							for _, th := range thens {
								emit(c17PoolCase{Level: lvl, Network: nw, Pooled: k, Death: d, Dead: mask, Fresh: fresh, Then: th})
							}
						}
					}
				}
			}
		}
	}
}

// c17Overlap runs n operations so that all of them are in flight at once:
// the first n-1 park on a held reply, the last completes, then the held ones
// are released in order.  srv is the scripted server whose connections hold.
func c17Overlap(srv *c17Srv, exch *int, n int, op func(i int)) {
	done := make([]chan struct{}, n-1)
	for i := 0; i < n-1; i++ {
		*exch = i
		done[i] = make(chan struct{})
		go func() {
			defer close(done[i])
			op(i)
		}()
		synctest.Wait()
		if len(srv.holds) != i+1 {
			// The exchange did not reach a holding connection (an edit
			// changed the path): run on, the oracle of the later steps and
			// the class "pool/not-filled" tell.
			break
		}
	}
	*exch = n - 1
	op(n - 1)
	for i, h := range srv.holds {
		close(h)
		if i < len(done) {
			<-done[i]
		}
	}
	for _, d := range done {
		if d != nil {
			<-d
		}
	}
	srv.holds = nil
}

func c17RunPoolCase(r *vrt.Run, c c17PoolCase) (fs []vrt.Finding) {
	exch := 0
	msrv := &c17Srv{name: "m", nconn: map[Network]int{}, exch: &exch}
	msrv.beh = c.beh
	k := c.Pooled
	pt := c.poolTransport()

	filled := func() bool {
		n := 0
		for _, cn := range msrv.conns {
			if cn.nw == pt {
				if cn.closed {
					return false
				}
				n++
			}
		}

		return n == k
	}
	sentIn := func(srv *c17Srv, e int) (out []c17Sent) {
		for _, s := range srv.log {
			if s.exch == e {
				out = append(out, s)
			}
		}

		return out
	}
	pathOf := func(ss []c17Sent) (p []string) {
		for _, s := range ss {
			p = append(p, fmt.Sprintf("%s#%d:%s", s.conn.nw, s.conn.idx, s.beh))
		}

		return p
	}

	if c.Level == "upstream" {
		u := c17NewPlain(msrv, Network(c.Network), 10)
		defer func() { _ = u.Close() }()
		warmErr := make([]error, k)
		c17Overlap(msrv, &exch, k, func(i int) {
			req := vdns.NewReq(uint16(500+i), fmt.Sprintf("W%d-c17.Example.", i), dns.TypeA, dns.ClassINET)
			resp, _, err := u.Exchange(context.Background(), req)
			r.Trans(1)
			if err == nil && !c17Matches(req, resp) {
				err = errors.New("mismatched reply accepted")
			}
			warmErr[i] = err
		})
		for i, err := range warmErr {
			if err != nil {
				return vrt.F("upstream/matching-reply-not-returned", "%+v: overlapping exchange %d, answered with a matching reply on its own connection, returned %v", c, i, err)
			}
		}
		cls := "pool/filled"
		if !filled() {
			cls = "pool/not-filled"
		}
		r.Class(fmt.Sprintf("%s %s k=%d", cls, c.Network, k))
		time.Sleep(time.Second)
		for e := k; e < k+2; e++ {
			exch = e
			req := vdns.NewReq(uint16(1000+7*e), fmt.Sprintf("Q%d-c17.Example.", e), dns.TypeA, dns.ClassINET)
			resp, nw, err := u.Exchange(context.Background(), req)
			r.Trans(1)
			mine := sentIn(msrv, e)
			what := fmt.Sprintf("%+v: after %d overlapping exchanges left %d idle %s connections and those in the mask died (%s), exchange %d used connections %v and returned nw=%s err=%v resp=%s",
				c, k, k, pt, c.Death, e-k, pathOf(mine), nw, err, vdns.Canon(resp, true))
			var ne net.Error
			// gone: every pooled connection is dead and new dials are
			// refused: a network failure of the upstream, nothing else.
			gone := c.Fresh == bRefuse && c.Dead == 1<<k-1
			switch {
			case gone && (err == nil || !errors.As(err, &ne)):
				return vrt.F("upstream/upstream-gone-non-network-error",
					"%s: the pooled connections are dead and the upstream refuses new connections — a network failure — but the exchange does not fail with a network error, so the handler would not try a fallback", what)
			case gone:
				r.Class("pool/up/gone-neterr")
			case err == nil:
				if !c17Matches(req, resp) {
					return vrt.F("upstream/mismatched-reply-accepted", "%s", what)
				}
				found := false
				for _, s := range mine {
					found = found || (s.reply != nil && vdns.Canon(s.reply, true) == vdns.Canon(resp, true))
				}
				if !found {
					return vrt.F("upstream/accepted-reply-never-sent", "%s", what)
				}
				r.Class("pool/up/answer")
			case c.Fresh != bMatch:
				r.Class("pool/up/fresh-conn-bad")
			case errors.As(err, &ne):
				// The upstream answers on every new connection; a network
				// error lets the handler fail over, which the statement allows.
				r.Class("pool/up/neterr")
			default:
				return vrt.F("upstream/healthy-upstream-stale-pool-error",
					"%s: the upstream accepts connections and answers every request on a new connection with a matching reply; only idle pooled connections are dead, yet the exchange neither returns the reply nor fails with a network error (so the handler would not even try a fallback)", what)
			}
		}
		r.State(fmt.Sprintf("pool %+v", c))

		return nil
	}

	// Level e2e.
	fsrv := &c17Srv{name: "f", nconn: map[Network]int{}, exch: &exch}
	fsrv.beh = func(Network, int, int) string { return bMatch }
	mk := func(last byte) []*UpstreamPlainConfig {
		return []*UpstreamPlainConfig{{Address: netip.AddrPortFrom(netip.AddrFrom4([4]byte{192, 0, 2, last}), 53), Timeout: time.Second}}
	}
	h := NewHandler(&HandlerConfig{
		Logger:                     c17Logger,
		HealthcheckDomainTmpl:      "${RANDOM}." + c17ProbeDom,
		UpstreamsAddresses:         mk(10),
		FallbackAddresses:          mk(20),
		HealthcheckBackoffDuration: 10 * time.Second,
	})
	if len(h.upstreams) != 1 || len(h.activeUpstreams) != 1 || len(h.fallbacks) != 1 {
		vrt.Fatalf("c17: NewHandler slots")
	}
	main := &c17Counting{UpstreamPlain: c17NewPlain(msrv, Network(c.Network), 10)}
	fb := &c17Counting{UpstreamPlain: c17NewPlain(fsrv, NetworkAny, 20)}
	h.upstreams[0].upstream, h.activeUpstreams[0], h.fallbacks[0] = main, main, fb
	h.rand = rand.New(&c17Src{})
	defer func() { _ = h.Close() }()

	serve := func(id uint16, name string) (got *dns.Msg, err error) {
		req := vdns.NewReq(id, name, dns.TypeA, dns.ClassINET)
		rw := dnsserver.NewNonWriterResponseWriter(c17Local, c17Remote)
		err = h.ServeDNS(context.Background(), rw, req)
		r.Trans(1)
		got = rw.Msg()
		if err == nil && !c17Matches(req, got) {
			err = errors.New("mismatched or missing response")
		}

		return got, err
	}
	warmErr := make([]error, k)
	c17Overlap(msrv, &exch, k, func(i int) {
		_, warmErr[i] = serve(uint16(500+i), fmt.Sprintf("W%d-c17.Example.", i))
	})
	for i, err := range warmErr {
		if err != nil || fb.n > 0 {
			return vrt.F("e2e/main-reply-not-returned", "%+v: overlapping query %d, answered by the main upstream on its own connection: err=%v, fallback exchanges %d", c, i, err, fb.n)
		}
	}
	cls := "pool/filled"
	if !filled() {
		cls = "pool/not-filled"
	}
	r.Class(fmt.Sprintf("%s e2e %s k=%d", cls, c.Network, k))
	time.Sleep(time.Second)

	// From here on the main upstream accepts connections and (Fresh ==
	// match) answers every request on a new connection; the fallback is fine.
	healthy := c.Fresh == bMatch
	gone := c.Fresh == bRefuse && c.Dead == 1<<k-1
	if c.Then == "round+query" {
		exch = k
		_ = h.Refresh(context.Background())
		r.Trans(1)
	}
	exch = k + 1
	main.n, fb.n = 0, 0
	got, err := serve(4242, "Q-c17.Example.")
	sm, sf := sentIn(msrv, k+1), sentIn(fsrv, k+1)
	what := fmt.Sprintf("%+v: %d overlapping queries left %d idle %s connections to the main upstream, those in the mask died (%s); probe used main connections %v; the query used main connections %v (%d exchanges) and fallback connections %v (%d exchanges); handler returned err=%v resp=%s; handler state %s",
		c, k, k, pt, c.Death, pathOf(sentIn(msrv, k)), pathOf(sm), main.n, pathOf(sf), fb.n, err, vdns.Canon(got, true), c17DumpHandler(h))
	if got != nil {
		ok := false
		for _, s := range append(append([]c17Sent{}, sm...), sf...) {
			ok = ok || (s.reply != nil && vdns.Canon(s.reply, true) == vdns.Canon(got, true))
		}
		if !ok {
			return vrt.F("e2e/client-got-unacceptable-reply", "%s", what)
		}
	}
	if fb.n > 1 {
		return vrt.F("e2e/fallback-tried-more-than-once", "%s", what)
	}
	if gone {
		// The main upstream went away (dead connections, refused dials): a
		// network failure, the healthy fallback answers.  After a round the
		// main upstream is out and must not even be tried.
		if c.Then == "round+query" && main.n > 0 {
			return vrt.F("e2e/excluded-main-used", "%s: the probe of the main upstream failed, backoff 10s not elapsed", what)
		}
		if fb.n != 1 || err != nil || got == nil || len(sf) == 0 {
			return vrt.F("e2e/no-fallback-after-network-error",
				"%s: the main upstream is gone (its pooled connections are dead and it refuses new ones), the fallback is healthy, so the client must be answered by the fallback", what)
		}
		r.Class("pool/e2e/main-gone-fallback-answer")
		r.State(fmt.Sprintf("pool %+v", c))

		return nil
	}
	if err != nil && healthy {
		// Main and fallback are healthy: the main upstream replies (on a new
		// connection) or, if the dead connections count as a network error,
		// the fallback does; "only if that also fails does the client get
		// SERVFAIL".
		return vrt.F("e2e/error-although-upstreams-healthy",
			"%s: the main upstream answers on every new connection or fails, and the fallback answers; still the client gets an error", what)
	}
	// A silently dead connection eats the whole probe timeout; whether that
	// is a failed probe the statement does not say.
	if healthy && c.Then == "round+query" && c.Death != bSilent && (main.n != 1 || fb.n != 0) {
		return vrt.F("e2e/healthy-main-excluded-by-stale-connections",
			"%s: the main upstream accepts new connections and answers the probe NOERROR on any of them — dead idle connections of the client are not a failed probe of the upstream — so the query must go to the main upstream", what)
	}
	switch {
	case err != nil:
		r.Class("pool/e2e/main-broken-error")
	case fb.n == 0:
		r.Class("pool/e2e/main-answer")
	default:
		r.Class("pool/e2e/fallback-answer")
	}
	r.State(fmt.Sprintf("pool %+v", c))

	return nil
}
