//go:build verif

package forward

// C17, part "init": NewHandler with HealthcheckInitDuration > 0 probes the
// real plain upstreams while it runs, before any slot can be scripted.  This
// part therefore uses scripted DNS servers on loopback UDP sockets (real time,
// no bubble): every combination of fallbacks {none, one} x mains {1, 2} x
// behaviour of each main during construction {ok, SERVFAIL, no answer}, all
// upstreams fine afterwards, then queries / round / queries / round / queries.

import (
	"context"
	"fmt"
	"net"
	"net/netip"
	"strings"
	"sync"
	"time"

	"github.com/AdguardTeam/AdGuardDNS/internal/dnsserver"
	"github.com/AdguardTeam/AdGuardDNS/internal/dnsserver/zzverif/vdns"
	"github.com/AdguardTeam/AdGuardDNS/internal/dnsserver/zzverif/vrt"
	"github.com/miekg/dns"
	"golang.org/x/exp/rand"
)

const (
	// c17LoopTimeout is the query timeout of the plain upstreams: what a
	// silent upstream costs in real time.  An answering server replies at
	// once, so it only has to beat scheduling noise.
	c17LoopTimeout = 1 * time.Second
	// c17InitDuration is HealthcheckInitDuration: long enough for every
	// main to be probed even when all of them are silent.
	c17InitDuration = 15 * time.Second
)

// c17LoopReq is one request seen by a loopback server.
type c17LoopReq struct {
	phase int
	probe bool
	beh   string
}

// c17Loop is a scripted DNS server on a loopback UDP socket.
type c17Loop struct {
	name string
	main bool
	idx  int
	pc   *net.UDPConn

	mu    sync.Mutex
	beh   string
	phase int
	log   []c17LoopReq
}

func c17NewLoop(name string, main bool, idx int, beh string) (s *c17Loop) {
	pc, err := net.ListenUDP("udp4", &net.UDPAddr{IP: net.IP{127, 0, 0, 1}})
	if err != nil {
		vrt.Fatalf("c17: listening on loopback: %v", err)
	}
	s = &c17Loop{name: name, main: main, idx: idx, pc: pc, beh: beh}
	go s.serve()

	return s
}

func (s *c17Loop) addr() netip.AddrPort { return s.pc.LocalAddr().(*net.UDPAddr).AddrPort() }

func (s *c17Loop) set(phase int, beh string) {
	s.mu.Lock()
	s.phase, s.beh = phase, beh
	s.mu.Unlock()
}

// seen returns the requests of the given phase.
func (s *c17Loop) seen(phase int, probe bool) (out []c17LoopReq) {
	s.mu.Lock()
	defer s.mu.Unlock()
	for _, r := range s.log {
		if r.phase == phase && r.probe == probe {
			out = append(out, r)
		}
	}

	return out
}

func (s *c17Loop) serve() {
	buf := make([]byte, 4096)
	for {
		n, from, err := s.pc.ReadFromUDP(buf)
		if err != nil {
			return
		}
		req := &dns.Msg{}
		if req.Unpack(buf[:n]) != nil || len(req.Question) != 1 {
			continue
		}
		probe := strings.HasSuffix(req.Question[0].Name, c17ProbeDom)
		s.mu.Lock()
		beh := s.beh
		s.log = append(s.log, c17LoopReq{phase: s.phase, probe: probe, beh: beh})
		s.mu.Unlock()
		if beh == bSilent {
			continue
		}
		resp := (&dns.Msg{}).SetReply(req)
		resp.RecursionAvailable = true
		if beh == bServfail {
			resp.Rcode = dns.RcodeServerFailure
		} else {
			role := byte(1)
			if !s.main {
				role = 2
			}
			resp.Answer = []dns.RR{&dns.A{
				Hdr: dns.RR_Header{Name: req.Question[0].Name, Rrtype: dns.TypeA, Class: dns.ClassINET, Ttl: 60},
				A:   net.IP{10, role, byte(s.idx), 1},
			}}
		}
		out, err := resp.Pack()
		if err != nil {
			vrt.Fatalf("c17: packing loopback reply: %v", err)
		}
		_, _ = s.pc.WriteToUDP(out, from)
	}
}

// c17InitCase is one case of part "init".
type c17InitCase struct {
	Fallbacks int `json:"fallbacks"`
	// During is the behaviour of every main upstream while NewHandler runs.
	During []string `json:"mains_during_construction"`
}

func c17GenInitCases(emit func(c17InitCase)) {
	behs := []string{bMatch, bServfail, bSilent}
	for _, nf := range []int{0, 1} {
		for _, nm := range []int{1, 2} {
			rad := make([]int, nm)
			for i := range rad {
				rad[i] = len(behs)
			}
			vrt.Odometer(rad, func(idx []int) {
				during := make([]string, nm)
				for i, k := range idx {
					during[i] = behs[k]
				}
				emit(c17InitCase{Fallbacks: nf, During: during})
			})
		}
	}
}

// c17RunInitCase runs the case up to three times and reports a finding only
// when every attempt produces one with the same key: the sockets are real,
// so a single deviating attempt may be scheduling noise, never a verdict.
func c17RunInitCase(r *vrt.Run, c c17InitCase) (fs []vrt.Finding) {
	for attempt := 0; attempt < 3; attempt++ {
		afs := c17RunInitOnce(r, c, attempt == 0)
		if len(afs) == 0 {
			if attempt > 0 {
				r.Count("init_attempts_repeated", 1)
			}

			return nil
		}
		if attempt > 0 && afs[0].Key != fs[0].Key {
			r.Count("init_attempts_unstable", 1)

			return nil
		}
		fs = afs
	}

	return fs
}

func c17RunInitOnce(r *vrt.Run, c c17InitCase, count bool) (fs []vrt.Finding) {
	nm := len(c.During)
	var mains, fbs, all []*c17Loop
	for i, b := range c.During {
		mains = append(mains, c17NewLoop(fmt.Sprintf("m%d", i), true, i, b))
	}
	for j := range c.Fallbacks {
		fbs = append(fbs, c17NewLoop(fmt.Sprintf("f%d", j), false, j, bMatch))
	}
	all = append(append(all, mains...), fbs...)
	defer func() {
		for _, s := range all {
			_ = s.pc.Close()
		}
	}()
	conf := func(ss []*c17Loop) (cs []*UpstreamPlainConfig) {
		for _, s := range ss {
			cs = append(cs, &UpstreamPlainConfig{Network: NetworkAny, Address: s.addr(), Timeout: c17LoopTimeout})
		}

		return cs
	}

	// Phase 0: construction with the initial health check.
	h := NewHandler(&HandlerConfig{
		Logger:                  c17Logger,
		HealthcheckDomainTmpl:   "${RANDOM}." + c17ProbeDom,
		UpstreamsAddresses:      conf(mains),
		FallbackAddresses:       conf(fbs),
		HealthcheckInitDuration: c17InitDuration,
		// With a zero backoff "the backoff period has elapsed" holds at
		// once: a main is out exactly until its next successful probe.
		HealthcheckBackoffDuration: 0,
	})
	defer func() { _ = h.Close() }()
	if count {
		r.Trans(1)
	}
	src := &c17Src{}
	h.rand = rand.New(src)

	// Reference status of the mains, from the probes the servers saw.
	status := make([]int, nm)
	learn := func(phase int) {
		for i, s := range mains {
			if c.Fallbacks == 0 {
				// Never taken out of rotation.
				status[i] = c17In

				continue
			}
			ps := s.seen(phase, true)
			if len(ps) == 0 {
				continue
			}
			if ps[len(ps)-1].beh == bMatch {
				status[i] = c17In
			} else {
				status[i] = c17Out
			}
		}
	}
	for i := range status {
		// Not probed during construction (cannot happen with these
		// durations): the statement does not decide.
		status[i] = c17Any
	}
	learn(0)

	statusString := func() string {
		var parts []string
		for i, st := range status {
			parts = append(parts, fmt.Sprintf("m%d=%s", i, [...]string{"in", "OUT", "any"}[st]))
		}

		return strings.Join(parts, " ")
	}

	qid := uint16(100)
	phase := 0
	queries := func(after string) (fs []vrt.Finding) {
		hitSet := make([]bool, nm)
		for a := range 2 {
			for b := range 2 {
				phase++
				for _, s := range all {
					s.set(phase, bMatch)
				}
				src.vals = []uint64{uint64(a), uint64(b)}
				qid++
				req := vdns.NewReq(qid, c17QueryDom, dns.TypeA, dns.ClassINET)
				rw := dnsserver.NewNonWriterResponseWriter(c17Local, c17Remote)
				err := h.ServeDNS(context.Background(), rw, req)
				if count {
					r.Trans(1)
				}
				got := rw.Msg()
				var mainHit []int
				fbHit := 0
				var path []string
				for _, s := range all {
					n := len(s.seen(phase, false))
					if n == 0 {
						continue
					}
					path = append(path, fmt.Sprintf("%s x%d", s.name, n))
					if s.main {
						mainHit = append(mainHit, s.idx)
					} else {
						fbHit += n
					}
				}
				what := fmt.Sprintf("%+v, %s, query with draws %d,%d (all upstreams answer now; reference status %s; real handler %s): upstreams that received it: %v; handler returned err=%v resp=%s",
					c, after, a, b, statusString(), c17DumpHandler(h), path, err, vdns.Canon(got, true))
				fromMain := func() int {
					if err != nil || got == nil || len(got.Answer) != 1 {
						return -1
					}
					ar, ok := got.Answer[0].(*dns.A)
					if !ok || ar.A.To4()[1] != 1 {
						return -1
					}

					return int(ar.A.To4()[2])
				}()
				anyIn, anyAny := false, false
				for _, st := range status {
					anyIn = anyIn || st == c17In
					anyAny = anyAny || st == c17Any
				}
				switch {
				case len(mainHit) > 1:
					return vrt.F("init/more-than-one-main-tried", "%s", what)
				case len(mainHit) == 1 && status[mainHit[0]] == c17Out:
					return vrt.F("init/excluded-main-used", "%s: m%d failed its last health probe and no probe has succeeded since", what, mainHit[0])
				case c.Fallbacks == 0 && (len(mainHit) != 1 || fromMain != mainHit[0]):
					return vrt.F("init/query-not-answered-by-main-without-fallbacks",
						"%s: without configured fallbacks main upstreams are never taken out of rotation, so a main upstream that answers must answer the query", what)
				case anyIn && (len(mainHit) != 1 || fromMain != mainHit[0] || fbHit > 0):
					return vrt.F("init/healthy-main-not-used", "%s: a main upstream is in rotation and answers", what)
				case !anyIn && !anyAny && c.Fallbacks > 0 && (fbHit != 1 || err != nil || got == nil):
					return vrt.F("init/no-single-fallback-answer", "%s: no main upstream is healthy, the fallback answers", what)
				}
				if len(mainHit) == 1 {
					hitSet[mainHit[0]] = true
					if count {
						r.Class("init/main-answer")
					}
				} else if count {
					r.Class("init/fallback-answer")
				}
			}
		}
		for i, st := range status {
			if st == c17In && !hitSet[i] {
				key := "init/healthy-main-never-picked"
				if c.Fallbacks == 0 {
					key = "init/main-out-of-rotation-without-fallbacks"
				}

				return vrt.F(key, "%+v, %s: main upstream m%d is in rotation by the statement (reference status %s) but no value of the random pick sends a query to it; real handler %s",
					c, after, i, statusString(), c17DumpHandler(h))
			}
		}

		return nil
	}

	if fs = queries("right after NewHandler"); len(fs) > 0 {
		return fs
	}
	for round := 1; round <= 2; round++ {
		phase++
		for _, s := range all {
			s.set(phase, bMatch)
		}
		src.vals = []uint64{0xc17}
		_ = h.Refresh(context.Background())
		if count {
			r.Trans(1)
		}
		learn(phase)
		if fs = queries(fmt.Sprintf("after health-check round %d", round)); len(fs) > 0 {
			return fs
		}
	}
	if count {
		r.State(fmt.Sprintf("init %+v %s", c, c17DumpHandler(h)))
	}

	return nil
}

// c17DumpHandler returns the active set and failure stamps of h.
func c17DumpHandler(h *Handler) string {
	var act, failed []string
	for _, u := range h.activeUpstreams {
		act = append(act, u.String())
	}
	for _, s := range h.upstreams {
		if !s.lastFailedHealthcheck.IsZero() {
			failed = append(failed, s.upstream.String())
		}
	}

	return fmt.Sprintf("active=%v failed-stamp=%v of %d mains", act, failed, len(h.upstreams))
}
