//go:build verif

package zzverifc03

import (
	"encoding/json"
	"fmt"
	"os"
	"reflect"
	"testing"

	"github.com/AdguardTeam/AdGuardDNS/internal/agdtest"
	"github.com/AdguardTeam/AdGuardDNS/internal/dnsserver/zzverif/vrt"
)

// Sequence part of C03: all ordered sequences of 2 (thorough: 2 and 3)
// requests over a reduced request alphabet are served by ONE stack instance
// (one real profile database, one real device finder, one real middleware
// with its single pool of agd.RequestInfo).  The oracle is differential: what
// is observed for every request of the sequence must equal what is observed
// for the same request alone on a fresh stack; the statement oracle of the
// single-request part (c03Oracle) is applied to every step as well.
//
// Pool reuse is made deterministic by the unit settings (GOMAXPROCS=1, GC
// only between cases through VERIF_DETGC): sync.Pool then hands the object
// Put by the previous request to the next Get.

// c03SeqCase is one sequence; all steps have the same settings part.
type c03SeqCase struct {
	Steps []c03Case `json:"steps"`
}

// c03SeqRequests returns the request alphabet of one transport; the settings
// part of every request is cfg.
func c03SeqRequests(cfg c03Case) (reqs []c03Case) {
	base := cfg
	base.Raddr, base.Laddr = c03RemoteOther+":12345", c03SrvAddr+":53"
	add := func(f func(c *c03Case)) {
		c := base
		f(&c)
		reqs = append(reqs, c)
	}
	switch cfg.Proto {
	case "doh":
		base.Path = "/dns-query"
		// anonymous: no identifier at all
		add(func(c *c03Case) {})
		// userinfo with the right password (recognised also when dev1 is DoH-only)
		add(func(c *c03Case) { c.UI, c.User, c.Pass = 2, c03Dev1, c03PW1 })
		// wrong password
		add(func(c *c03Case) { c.UI, c.User, c.Pass = 2, c03Dev1, "wrong" })
		// path ids
		add(func(c *c03Case) { c.Path = "/dns-query/dev3" })
		add(func(c *c03Case) { c.Path = "/dns-query/dev1" })
		add(func(c *c03Case) { c.Path = "/dns-query/auto1" })
		// SNI id
		add(func(c *c03Case) { c.SNI = "dev3.d.test" })
		// unknown id
		add(func(c *c03Case) { c.Path = "/dns-query/nosuch" })
		// malformed
		add(func(c *c03Case) { c.Path = "/x/dev1" })
	case "dot", "doq":
		add(func(c *c03Case) {})
		add(func(c *c03Case) { c.SNI = "dev1.d.test" })
		add(func(c *c03Case) { c.SNI = "dev3.d.test" })
		add(func(c *c03Case) { c.SNI = "nosuch.d.test" })
		add(func(c *c03Case) { c.SNI = "dev_1.d.test" })
		add(func(c *c03Case) { c.SNI = "dev1.other.test" })
		add(func(c *c03Case) { c.SNI = "auto1.d.test" })
	case "dns", "dnscrypt":
		add(func(c *c03Case) {})
		add(func(c *c03Case) { c03SetOpts(c, []string{"65074:dev1"}) })
		add(func(c *c03Case) { c03SetOpts(c, []string{"65074:dev3"}) })
		add(func(c *c03Case) { c03SetOpts(c, []string{"65074:nosuch"}) })
		if cfg.Proto == "dnscrypt" {
			break
		}
		add(func(c *c03Case) { c03SetOpts(c, []string{"65074:bad id!"}) })
		// linked IPs of dev1 and dev2
		add(func(c *c03Case) { c.Raddr = c03LinkedDev1 + ":12345" })
		add(func(c *c03Case) { c.Raddr = c03LinkedDev2 + ":12345" })
		// dedicated address of dev1, unknown dedicated address
		add(func(c *c03Case) { c.Laddr = c03DedicatedDev1 + ":53" })
		add(func(c *c03Case) { c.Laddr = c03DedicatedNone + ":53" })
		// id, linked IP and dedicated address of the human-id device auto1
		add(func(c *c03Case) { c03SetOpts(c, []string{"65074:auto1"}) })
		add(func(c *c03Case) { c.Raddr = c03LinkedAuto1 + ":12345" })
		add(func(c *c03Case) { c.Laddr = c03DedicatedAuto + ":53" })
	}

	return reqs
}

// c03SeqGen enumerates, per stack configuration, all sequences of the given
// lengths over the request alphabet of the transport.
func c03SeqGen(dbs []string, lens []int, emit func(c03SeqCase)) {
	for _, db := range dbs {
		for _, auth := range c03Auths {
			for _, proto := range []string{"doh", "dot", "doq", "dns", "dnscrypt"} {
				cfg := c03Case{
					Proto: proto, Linked: true, Ifaces: true, Domains: []string{"d.test"},
					Auth: auth, DB: db, Auto: true,
				}
				reqs := c03SeqRequests(cfg)
				for _, l := range lens {
					vrt.Sequences(len(reqs), l, l, func(seq []int) {
						sc := c03SeqCase{}
						for _, i := range seq {
							sc.Steps = append(sc.Steps, reqs[i])
						}
						emit(sc)
					})
				}
			}
		}
	}
}

// c03Solo returns the observation of c alone on a fresh stack, cached per
// process.
var c03SoloCache = map[string]*c03Obs{}

func c03Solo(c c03Case) (o *c03Obs) {
	k, err := json.Marshal(c)
	if err != nil {
		vrt.Fatalf("encoding case: %v", err)
	}
	if o = c03SoloCache[string(k)]; o == nil {
		o = c03Run(c)
		c03SoloCache[string(k)] = o
	}

	return o
}

func c03ObsString(o *c03Obs) (s string) {
	return fmt.Sprintf("finder=%s(%q,%q) find_calls=%d next_calls=%d next=(%q,%q from %s asking %s) err=%q panic=%q",
		o.Kind, o.Prof, o.Dev, o.FindCalls, o.NextCalls, o.NextProf, o.NextDev, o.NextRemoteIP, o.NextHost, o.MwErr, o.Panic)
}

func TestVerifC03Seq(t *testing.T) {
	r := vrt.Start("C03")
	c03Messages = agdtest.NewConstructor(t)

	dbs := vrt.Pick(r, []string{"normal", "deleted", "keys-removed", "auto-detached"}, []string{"normal", "deleted", "keys-removed", "auto-detached", "detached", "readdressed", "moved"})
	lens := vrt.Pick(r, []int{2}, []int{2, 3})
	r.Bound("seq_lengths", lens)
	r.Bound("seq_db_states", dbs)
	r.Bound("seq_requests_per_transport", map[string]int{
		"doh":      len(c03SeqRequests(c03Case{Proto: "doh"})),
		"dot":      len(c03SeqRequests(c03Case{Proto: "dot"})),
		"doq":      len(c03SeqRequests(c03Case{Proto: "doq"})),
		"dns":      len(c03SeqRequests(c03Case{Proto: "dns"})),
		"dnscrypt": len(c03SeqRequests(c03Case{Proto: "dnscrypt"})),
	})

	vrt.Part(r, "seq", func(emit func(c03SeqCase)) { c03SeqGen(dbs, lens, emit) }, func(sc c03SeqCase) (fs []vrt.Finding) {
		if len(sc.Steps) == 0 {
			vrt.Fatalf("empty sequence")
		}
		stack := c03NewStack(sc.Steps[0])
		hist, obsHist := "", ""
		var prevDevs []string
		for i, c := range sc.Steps {
			o := stack.serve(c)
			solo := c03Solo(c)
			r.Trans(2)
			hist += fmt.Sprintf("\n    step %d %s -> %s", i+1, c03Describe(c), c03ObsString(o))
			obsHist += "|" + c03ObsString(o)

			// The statement itself, per step.
			fs = append(fs, c03Oracle(c, o)...)

			// Differential: same observation as alone on a fresh stack.
			if !reflect.DeepEqual(o, solo) {
				key := "sequence/observation-differs-from-solo"
				soloRecognised := solo.NextDev != "" || solo.Kind == "ok"
				seqDev := o.NextDev
				if seqDev == "" && o.Kind == "ok" {
					seqDev = o.Dev
				}
				switch {
				case !soloRecognised && seqDev != "" && contains(prevDevs, seqDev):
					key = "sequence/anonymous-request-attributed-to-previous-device"
				case seqDev != "" && (seqDev != solo.NextDev || o.NextProf != solo.NextProf):
					key = "sequence/request-attributed-to-other-device"
				case soloRecognised && seqDev == "":
					key = "sequence/recognition-lost-after-previous-request"
				}
				fs = append(fs, vrt.F(key,
					"step %d of the sequence on one stack is observed as %s, but the same request alone on a fresh stack as %s; sequence:%s",
					i+1, c03ObsString(o), c03ObsString(solo), hist)...)
			}
			if o.NextDev != "" {
				prevDevs = append(prevDevs, o.NextDev)
			} else if o.Kind == "ok" {
				prevDevs = append(prevDevs, o.Dev)
			}
			r.Class(fmt.Sprintf("seq/%s/step%d/%s", c.Proto, i+1, o.Kind))
			r.State("seq|" + c.Proto + obsHist)
		}
		r.Count("seq-steps-seeing-the-previous-requestinfo-object", stack.reused)
		r.Count("seq-steps", len(sc.Steps))

		return fs
	})

	r.Finish()
	os.Exit(0)
}

func contains(l []string, s string) (ok bool) {
	for _, x := range l {
		if x == s {
			ok = true
		}
	}

	return ok
}
