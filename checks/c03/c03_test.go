//go:build verif

// Package zzverifc03 is the C03 check: exhaustive bounded enumeration of
// (transport, URL path, userinfo, TLS server name, EDNS options, addresses,
// server settings, profile-database state) run against the real
// devicefinder.Default (on a real profiledb.Default loaded through its Storage
// interface) inside the real ratelimitmw.Middleware, compared with an oracle
// that restates the property statement.
//
// The file has three parts: the case type and the enumeration (c03Gen*), the
// driver of the real code (c03Run), and the oracle (c03Oracle), which does not
// call any repository code.
package zzverifc03

import (
	"context"
	"fmt"
	"net"
	"net/netip"
	"net/url"
	"os"
	"sort"
	"strings"
	"sync"
	"testing"
	"time"

	"github.com/AdguardTeam/AdGuardDNS/internal/access"
	"github.com/AdguardTeam/AdGuardDNS/internal/agd"
	"github.com/AdguardTeam/AdGuardDNS/internal/agdnet"
	"github.com/AdguardTeam/AdGuardDNS/internal/agdpasswd"
	"github.com/AdguardTeam/AdGuardDNS/internal/agdtest"
	"github.com/AdguardTeam/AdGuardDNS/internal/dnsmsg"
	"github.com/AdguardTeam/AdGuardDNS/internal/dnsserver"
	"github.com/AdguardTeam/AdGuardDNS/internal/dnsserver/zzverif/vrt"
	"github.com/AdguardTeam/AdGuardDNS/internal/dnsserver/zzverif/xsched"
	"github.com/AdguardTeam/AdGuardDNS/internal/dnssvc/internal/devicefinder"
	"github.com/AdguardTeam/AdGuardDNS/internal/dnssvc/internal/ratelimitmw"
	"github.com/AdguardTeam/AdGuardDNS/internal/geoip"
	"github.com/AdguardTeam/AdGuardDNS/internal/profiledb"
	"github.com/AdguardTeam/golibs/logutil/slogutil"
	"github.com/c2h5oh/datasize"
	"github.com/miekg/dns"
	"golang.org/x/crypto/bcrypt"
)

// ---------------------------------------------------------------------------
// Case
// ---------------------------------------------------------------------------

// c03Case fully determines one execution.
type c03Case struct {
	// Proto is one of dns, dot, doq, doh, dnscrypt.
	Proto string `json:"proto"`

	// Path is the URL path of the request; "" means no URL at all.
	Path string `json:"path"`

	// UI is 0 for no userinfo, 1 for a user name without a password
	// (url.User), 2 for user name and password (url.UserPassword, what the
	// real DoH server builds from a basic-auth header).
	UI   int    `json:"ui"`
	User string `json:"user"`
	Pass string `json:"pass"`

	// SNI is the TLS server name as sent by the client.
	SNI string `json:"sni"`

	// OPT tells whether the request has an OPT record; Opts are its options
	// as "<code>:<data>".
	OPT  bool     `json:"opt"`
	Opts []string `json:"opts"`

	// Raddr and Laddr are the remote and local address of the request.
	Raddr string `json:"raddr"`
	Laddr string `json:"laddr"`

	// Host is the question name; "" means host.example.
	Host string `json:"host,omitempty"`

	// Server settings.
	Linked  bool     `json:"linked_ip_enabled"`
	Ifaces  bool     `json:"binds_to_interfaces"`
	Domains []string `json:"device_domains"`

	// Auth is the authentication policy of dev1: off, on, doh-only.
	Auth string `json:"dev1_auth"`

	// DB is the state of the profile database with regard to prof1 / dev1:
	// normal, deleted, deleted-nodevs, detached, moved, noprofile, readdressed,
	// reassigned, auto-moved, auth-changed (dev1 was synchronised first with
	// authentication off, then with the policy of the case), keys-removed
	// (dev1 keeps its profile but loses its linked IP and its dedicated IPs,
	// auto1 keeps its profile but loses its human id), auto-detached (prof1
	// does not list its human-id device auto1 any more).
	DB string `json:"db"`

	// Auto tells whether prof1 has automatic devices enabled.
	Auto bool `json:"auto_devices"`

	// Via tells how the change of the database state was delivered: "" by an
	// ordinary partial synchronisation; "fullfail" by a FULL synchronisation
	// whose file-cache write fails (full disk, removed directory), followed
	// by After successful partial synchronisations that report no change.
	Via   string `json:"via,omitempty"`
	After int    `json:"after,omitempty"`
}

// The fixed world.  prof1 owns dev1 (policy under test) and the automatic
// device auto1 (human id "myphone"); prof2 owns dev2 (authentication enabled,
// own password) and dev3 (authentication disabled).
const (
	c03Prof1 = "prof1"
	c03Prof2 = "prof2"

	c03Dev1    = "dev1"
	c03Dev2    = "dev2"
	c03Dev3    = "dev3"
	c03Auto1   = "auto1"
	c03AutoNew = "autonew"

	c03PW1 = "pw1"
	c03PW2 = "pw2"

	c03HumanAuto1 = "myphone"

	c03LinkedDev1  = "192.0.2.10"
	c03LinkedDev1B = "192.0.2.11"
	c03LinkedAuto1 = "192.0.2.30"
	c03LinkedDev2  = "192.0.2.20"
	c03RemoteOther = "192.0.2.99"

	c03SrvAddr       = "198.51.100.1"
	c03DedicatedDev1 = "198.51.100.9"
	c03DedicatedNone = "198.51.100.10"
	c03DedicatedAuto = "198.51.100.11"

	c03CPE = 65074
)

// ---------------------------------------------------------------------------
// Oracle (no repository code below this line until the next section)
// ---------------------------------------------------------------------------

// c03World is the reference view of the profile database for a case.
type c03World struct {
	owner     map[string]string // device id -> owning profile id; absent = none
	deleted   map[string]bool   // profile id -> deleted
	auth      map[string]string // device id -> off | on | doh-only
	pw        map[string]string // device id -> plaintext password
	human     map[string]string // device id -> lower-case human id
	linked    map[string]string // device id -> linked IP
	dedicated map[string]string // device id -> dedicated IP
}

// c03Created is an automatic device created through the storage during a
// request.
type c03Created struct {
	ID      string `json:"id"`
	Profile string `json:"profile"`
	Human   string `json:"human"`
}

func c03NewWorld(c c03Case, created []c03Created) (w *c03World) {
	w = &c03World{
		owner:     map[string]string{c03Dev1: c03Prof1, c03Auto1: c03Prof1, c03Dev2: c03Prof2, c03Dev3: c03Prof2},
		deleted:   map[string]bool{},
		auth:      map[string]string{c03Dev1: c.Auth, c03Auto1: "off", c03Dev2: "on", c03Dev3: "off"},
		pw:        map[string]string{c03Dev1: c03PW1, c03Dev2: c03PW2},
		human:     map[string]string{c03Auto1: c03HumanAuto1},
		linked:    map[string]string{c03Dev1: c03LinkedDev1, c03Dev2: c03LinkedDev2, c03Auto1: c03LinkedAuto1},
		dedicated: map[string]string{c03Dev1: c03DedicatedDev1, c03Auto1: c03DedicatedAuto},
	}
	switch c.DB {
	case "deleted", "deleted-nodevs":
		w.deleted[c03Prof1] = true
		if c.DB == "deleted-nodevs" {
			delete(w.owner, c03Dev1)
			delete(w.owner, c03Auto1)
		}
	case "detached", "noprofile":
		delete(w.owner, c03Dev1)
	case "moved":
		w.owner[c03Dev1] = c03Prof2
	case "auto-moved":
		w.owner[c03Auto1] = c03Prof2
	case "auto-detached":
		delete(w.owner, c03Auto1)
	case "auth-changed":
		// The latest synchronised policy is the one of the case.
	case "keys-removed":
		delete(w.linked, c03Dev1)
		delete(w.dedicated, c03Dev1)
		delete(w.human, c03Auto1)
	case "readdressed", "reassigned":
		// dev1 got a new linked IP and lost its dedicated address; in state
		// reassigned its old linked IP now belongs to dev3.
		w.linked[c03Dev1] = c03LinkedDev1B
		delete(w.dedicated, c03Dev1)
		if c.DB == "reassigned" {
			w.linked[c03Dev3] = c03LinkedDev1
		}
	}
	for _, cr := range created {
		w.owner[cr.ID] = cr.Profile
		w.auth[cr.ID] = "off"
		w.human[cr.ID] = cr.Human
	}

	return w
}

// c03Segments splits a URL path into its non-empty segments.
func c03Segments(p string) (segs []string) {
	for _, s := range strings.Split(p, "/") {
		if s != "" {
			segs = append(segs, s)
		}
	}

	return segs
}

// c03Endpoint reports whether seg names a DoH endpoint.  strict is true for
// the two documented names.  The server also routes every non-empty suffix of
// them (long-standing behaviour of dnsserver.isDoH); the statement is silent
// about those, so the oracle accepts them as carrying channels but demands
// nothing for them.
func c03Endpoint(seg string) (ok, strict bool) {
	if seg == "dns-query" || seg == "resolve" {
		return true, true
	}
	if seg != "" && (strings.HasSuffix("dns-query", seg) || strings.HasSuffix("resolve", seg)) {
		return true, false
	}

	return false, false
}

// c03IDStrings returns, per channel valid for the transport of c, the
// identifier strings the request carries.
func c03IDStrings(c c03Case) (ids map[string][]string) {
	ids = map[string][]string{}
	sni := func() {
		low := strings.ToLower(c.SNI)
		for _, d := range c.Domains {
			suf := "." + strings.ToLower(d)
			if strings.HasSuffix(low, suf) {
				x := c.SNI[:len(c.SNI)-len(suf)]
				if x != "" && !strings.Contains(x, ".") {
					ids["sni"] = append(ids["sni"], x)
				}
			}
		}
	}
	switch c.Proto {
	case "doh":
		if c.UI != 0 {
			ids["userinfo"] = append(ids["userinfo"], c.User)
		}
		segs := c03Segments(c.Path)
		if len(segs) >= 2 {
			if ok, _ := c03Endpoint(segs[0]); ok {
				ids["path"] = append(ids["path"], segs[1])
			}
		}
		sni()
	case "dot", "doq":
		sni()
	case "dns":
		if c.OPT {
			for _, o := range c.Opts {
				code, data, _ := strings.Cut(o, ":")
				if code == fmt.Sprint(c03CPE) {
					ids["cpe"] = append(ids["cpe"], data)
				}
			}
		}
	}

	return ids
}

// c03Names reports whether the identifier string s names device dev of
// profile prof: either the device id itself (case-insensitively) or the
// extended human-readable form <type>-<profile>-<human id>.
func c03Names(w *c03World, s, prof, dev string) (ok bool) {
	if strings.EqualFold(s, dev) {
		return true
	}
	parts := strings.SplitN(s, "-", 3)
	if len(parts) != 3 {
		return false
	}
	h, has := w.human[dev]

	return has && strings.EqualFold(parts[1], prof) && strings.ToLower(parts[2]) == h
}

// c03CarriedBy returns the channels, valid for the transport, through which
// the request carries the identifier of dev (of profile prof).
func c03CarriedBy(c c03Case, w *c03World, prof, dev string) (chans []string) {
	ids := c03IDStrings(c)
	for _, ch := range []string{"userinfo", "path", "sni", "cpe"} {
		for _, s := range ids[ch] {
			if c03Names(w, s, prof, dev) {
				chans = append(chans, ch)

				break
			}
		}
	}
	if c.Proto == "dns" {
		lip, _, _ := strings.Cut(c.Laddr, ":")
		if c.Ifaces && w.dedicated[dev] == lip {
			chans = append(chans, "dedicated")
		}
		rip, _, _ := strings.Cut(c.Raddr, ":")
		if c.Linked && w.linked[dev] == rip {
			chans = append(chans, "linked")
		}
	}

	return chans
}

// c03NearMiss names, for the finding key, what the request does carry when
// it does not carry the identifier of dev through a valid channel.
func c03NearMiss(c c03Case, w *c03World, prof, dev string) (what string) {
	for _, ch := range []string{"path", "sni"} {
		for _, s := range c03IDStrings(c)[ch] {
			parts := strings.SplitN(s, "-", 3)
			if h, has := w.human[dev]; has && len(parts) == 3 && strings.ToLower(parts[2]) == h {
				return "human-id-of-other-profile"
			}
		}
	}
	lip, _, _ := strings.Cut(c.Laddr, ":")
	rip, _, _ := strings.Cut(c.Raddr, ":")
	if w.linked[dev] == rip || w.dedicated[dev] == lip {
		return "address-channel-not-valid-here"
	}
	if dev == c03Dev1 && c.Proto == "dns" {
		// The addresses dev1 had after the first synchronisation.
		if c.Linked && rip == c03LinkedDev1 {
			return "formerly-linked-address"
		}
		if c.Ifaces && lip == c03DedicatedDev1 {
			return "formerly-dedicated-address"
		}
	}

	return "other"
}

// c03PasswordProblem returns "" when the userinfo of c holds the right
// password of dev, else what is wrong with it.
func c03PasswordProblem(c c03Case, w *c03World, dev string) (what string) {
	switch {
	case c.UI == 0:
		return "no-credentials"
	case c.UI == 1:
		return "no-password"
	case c.Pass == "":
		return "empty-password"
	case c.Pass != w.pw[dev]:
		return "wrong-password"
	default:
		return ""
	}
}

// c03FailedCredentials returns the device for which the request supplies a
// wrong, empty or missing password although it has authentication enabled, if
// any: DoH, userinfo whose user is exactly the id of a device attached to a
// non-deleted profile.
func c03FailedCredentials(c c03Case, w *c03World) (dev, what string) {
	if c.Proto != "doh" || c.UI == 0 {
		return "", ""
	}
	prof, ok := w.owner[c.User]
	if !ok || w.deleted[prof] || w.auth[c.User] == "off" {
		return "", ""
	}
	what = c03PasswordProblem(c, w, c.User)
	if what == "" {
		return "", ""
	}

	return c.User, what
}

// c03WellFormed reports whether the parts of a DoH request other than the
// userinfo are of the documented shape, so that no error response is excused.
func c03WellFormed(c c03Case) (ok bool) {
	segs := c03Segments(c.Path)
	if len(segs) == 0 || len(segs) > 2 {
		return false
	}
	if _, strict := c03Endpoint(segs[0]); !strict {
		return false
	}
	ids := c03IDStrings(c)
	for _, ch := range []string{"path", "sni"} {
		for _, s := range ids[ch] {
			if !c03PlainID(s) {
				return false
			}
		}
	}

	return true
}

// c03PlainID reports whether s is 1 to 8 letters and digits.
func c03PlainID(s string) (ok bool) {
	if len(s) < 1 || len(s) > 8 {
		return false
	}
	for _, r := range s {
		if !(r >= 'a' && r <= 'z' || r >= 'A' && r <= 'Z' || r >= '0' && r <= '9') {
			return false
		}
	}

	return true
}

// c03Obs is what was observed of the real code for a case.
type c03Obs struct {
	// Finder result.
	FindCalls int    `json:"find_calls"`
	Kind      string `json:"kind"` // anon, ok, authfail, drop, error, other
	Prof      string `json:"prof"`
	Dev       string `json:"dev"`

	// What the next handler saw.
	NextCalls int    `json:"next_calls"`
	NextHasRI bool   `json:"next_has_ri"`
	NextProf  string `json:"next_prof"`
	NextDev   string `json:"next_dev"`

	// The request data the next handler read from the agd.RequestInfo in its
	// context.
	NextRemoteIP string `json:"next_remote_ip"`
	NextHost     string `json:"next_host"`

	Created []c03Created `json:"created"`
	MwErr   string       `json:"mw_err"`
	Panic   string       `json:"panic"`
}

// c03Recognised checks one recognition (prof, dev) against the only-if part
// of the statement.  where is "finder" or "downstream".
func c03Recognised(c c03Case, w *c03World, where, prof, dev string) (fs []vrt.Finding) {
	desc := fmt.Sprintf("%s recognised profile %q device %q for %s", where, prof, dev, c03Describe(c))
	if c.Proto == "dnscrypt" {
		fs = append(fs, vrt.F(where+"/dnscrypt-recognised", "%s; DNSCrypt requests are always anonymous", desc)...)
	}
	if len(c03CarriedBy(c, w, prof, dev)) == 0 {
		fs = append(fs, vrt.F(where+"/identifier-not-carried:"+c03NearMiss(c, w, prof, dev),
			"%s, but the request does not carry that device's identifier through a channel valid for %s (carried: %v)",
			desc, c.Proto, c03IDStrings(c))...)
	}
	owner, attached := w.owner[dev]
	switch {
	case !attached:
		fs = append(fs, vrt.F(where+"/device-not-attached", "%s, but the device belongs to no profile (db state %s)", desc, c.DB)...)
	case owner != prof:
		fs = append(fs, vrt.F(where+"/wrong-profile", "%s, but the device belongs to profile %q (db state %s)", desc, owner, c.DB)...)
	case w.deleted[prof]:
		fs = append(fs, vrt.F(where+"/profile-deleted", "%s, but the profile is deleted", desc)...)
	}
	switch w.auth[dev] {
	case "doh-only":
		if c.Proto != "doh" {
			fs = append(fs, vrt.F(where+"/auth/doh-only-on-other-transport", "%s, but the device requires DoH-only authentication", desc)...)
		} else if what := c03PasswordProblem(c, w, dev); what != "" {
			fs = append(fs, vrt.F(where+"/auth/doh-only-"+what, "%s, but the device requires DoH-only authentication: %s", desc, what)...)
		}
	case "on":
		if c.Proto == "doh" && c.UI != 0 {
			if what := c03PasswordProblem(c, w, dev); what != "" {
				fs = append(fs, vrt.F(where+"/auth/"+what, "%s, but the device has authentication enabled: %s", desc, what)...)
			}
		}
	}
	if fdev, what := c03FailedCredentials(c, w); fdev != "" && fdev != dev {
		fs = append(fs, vrt.F(where+"/recognised-despite-failed-credentials",
			"%s, although the request supplies %s for device %q, which has authentication enabled", desc, what, fdev)...)
	}

	return fs
}

// c03Oracle compares the observation with the statement.
func c03Oracle(c c03Case, o *c03Obs) (fs []vrt.Finding) {
	if o.Panic != "" {
		return vrt.F("panic", "%s: %s", c03Describe(c), o.Panic)
	}
	w := c03NewWorld(c, o.Created)

	// Only-if part, at both observation points.
	if o.Kind == "ok" {
		fs = append(fs, c03Recognised(c, w, "finder", o.Prof, o.Dev)...)
	}
	downstream := o.NextDev != "" || o.NextProf != ""
	if downstream && (o.Kind != "ok" || o.NextProf != o.Prof || o.NextDev != o.Dev) {
		fs = append(fs, vrt.F("downstream/device-data-without-ok-result",
			"%s: finder returned %s (%q, %q) but the next handler saw profile %q device %q",
			c03Describe(c), o.Kind, o.Prof, o.Dev, o.NextProf, o.NextDev)...)
		fs = append(fs, c03Recognised(c, w, "downstream", o.NextProf, o.NextDev)...)
	}

	servedAnon := o.NextCalls == 1 && o.NextHasRI && !downstream && o.Kind != "ok"

	// A wrong or empty password never yields recognition: the request is
	// served as anonymous.
	if fdev, what := c03FailedCredentials(c, w); fdev != "" && c03WellFormed(c) && !servedAnon {
		if o.Kind != "ok" && !downstream {
			fs = append(fs, vrt.F("failed-credentials/not-served-as-anonymous",
				"%s supplies %s for device %q: finder result %s, next handler calls %d, error %q; want the request served as anonymous",
				c03Describe(c), what, fdev, o.Kind, o.NextCalls, o.MwErr)...)
		}
	}

	// DNSCrypt requests are always anonymous.
	if c.Proto == "dnscrypt" && !servedAnon {
		if o.Kind != "ok" && !downstream {
			fs = append(fs, vrt.F("dnscrypt/not-served-as-anonymous",
				"%s: finder result %s, next handler calls %d, error %q; want the request served as anonymous",
				c03Describe(c), o.Kind, o.NextCalls, o.MwErr)...)
		}
	}

	return fs
}

// c03Describe renders the request part of a case.
func c03Describe(c c03Case) (s string) {
	ui := "none"
	switch c.UI {
	case 1:
		ui = c.User
	case 2:
		ui = c.User + ":" + c.Pass
	}
	opts := "no OPT"
	if c.OPT {
		opts = fmt.Sprintf("opts %q", c.Opts)
	}
	via := ""
	if c.Via != "" {
		via = fmt.Sprintf(" (delivered by a full sync whose cache write failed, then %d partial syncs)", c.After)
	}

	return fmt.Sprintf(
		"[%s path=%q userinfo=%q sni=%q %s %s->%s | linked=%v ifaces=%v domains=%v | dev1 auth=%s db=%s%s auto=%v]",
		c.Proto, c.Path, ui, c.SNI, opts, c.Raddr, c.Laddr, c.Linked, c.Ifaces, c.Domains, c.Auth, c.DB, via, c.Auto,
	)
}

// ---------------------------------------------------------------------------
// Driver of the real code
// ---------------------------------------------------------------------------

var (
	c03HashMu sync.Mutex
	c03Hashes = map[string][]byte{}
)

// c03Hash returns a bcrypt hash of pw at the minimum cost, cached per
// process.
func c03Hash(pw string) (h []byte) {
	c03HashMu.Lock()
	defer c03HashMu.Unlock()
	if h = c03Hashes[pw]; h != nil {
		return h
	}
	h, err := bcrypt.GenerateFromPassword([]byte(pw), bcrypt.MinCost)
	if err != nil {
		vrt.Fatalf("bcrypt: %v", err)
	}
	c03Hashes[pw] = h

	return h
}

// c03Storage is a scripted profiledb.Storage: the first call to Profiles is
// the initial full synchronisation, the second one delivers the change of the
// case (partial, or full when the case says so), later ones report no change.
type c03Storage struct {
	full    *profiledb.StorageProfilesResponse
	partial *profiledb.StorageProfilesResponse
	calls   int
	created []c03Created

	// wasFull records, per call, whether the database asked for everything.
	wasFull []bool

	// queue, if not empty, holds the responses of the next calls after the
	// second one.
	queue []*profiledb.StorageProfilesResponse
}

func (s *c03Storage) Profiles(
	_ context.Context,
	req *profiledb.StorageProfilesRequest,
) (resp *profiledb.StorageProfilesResponse, err error) {
	s.calls++
	s.wasFull = append(s.wasFull, req.SyncTime.IsZero())
	switch s.calls {
	case 1:
		return s.full, nil
	case 2:
		if s.partial != nil {
			return s.partial, nil
		}

		fallthrough
	default:
		// The backend call is where a synchronisation waits.
		xsched.Yield("storage.Profiles")
		if len(s.queue) > 0 {
			resp, s.queue = s.queue[0], s.queue[1:]

			return resp, nil
		}

		return &profiledb.StorageProfilesResponse{SyncTime: time.Unix(1_000_100+int64(s.calls), 0)}, nil
	}
}

func (s *c03Storage) CreateAutoDevice(
	_ context.Context,
	req *profiledb.StorageCreateAutoDeviceRequest,
) (resp *profiledb.StorageCreateAutoDeviceResponse, err error) {
	low := strings.ToLower(string(req.HumanID))
	id := c03CreatedID(low)
	s.created = append(s.created, c03Created{ID: id, Profile: string(req.ProfileID), Human: low})

	// The backend call is where a request that creates a device waits.
	xsched.Yield("storage.CreateAutoDevice")

	return &profiledb.StorageCreateAutoDeviceResponse{
		Device: &agd.Device{
			Auth:             &agd.AuthSettings{Enabled: false, PasswordHash: agdpasswd.AllowAuthenticator{}},
			ID:               agd.DeviceID(id),
			Name:             agd.DeviceName(req.HumanID),
			HumanIDLower:     agd.HumanIDLower(low),
			FilteringEnabled: true,
		},
	}, nil
}

// c03ReqState is the harness state of one request in flight; it travels in
// the context of the request so that concurrent requests on one stack do not
// share it.
type c03ReqState struct {
	obs   *c03Obs
	calls int
	res   agd.DeviceResult
}

type c03ReqStateKey struct{}

func c03StateOf(ctx context.Context) (rs *c03ReqState) {
	rs, _ = ctx.Value(c03ReqStateKey{}).(*c03ReqState)
	if rs == nil {
		vrt.Fatalf("no request state in context")
	}

	return rs
}

// c03CreatedID is the id the scripted backend gives to the automatic device
// it creates for the lower-case human id low: "newphone" gets c03AutoNew.
func c03CreatedID(low string) (id string) {
	if low == "newphone" {
		return c03AutoNew
	}
	low = strings.ReplaceAll(low, "-", "")
	if len(low) > 6 {
		low = low[:6]
	}

	return "a" + low
}

// c03Finder records the result of the real finder for the request.
type c03Finder struct {
	real agd.DeviceFinder
}

func (f *c03Finder) Find(ctx context.Context, req *dns.Msg, raddr, laddr netip.AddrPort) (r agd.DeviceResult) {
	rs := c03StateOf(ctx)
	rs.calls++
	r = f.real.Find(ctx, req, raddr, laddr)
	rs.res = r

	return r
}

// c03YieldDB is the real profile database behind scheduling points: a
// lookup is where a real request waits (lock, cache miss), so the schedule
// explorer may run other requests before and after it.  The points are no-ops
// outside of a schedule exploration.
type c03YieldDB struct {
	db profiledb.Interface
}

func (y c03YieldDB) CreateAutoDevice(
	ctx context.Context,
	id agd.ProfileID,
	humanID agd.HumanID,
	devType agd.DeviceType,
) (p *agd.Profile, d *agd.Device, err error) {
	xsched.Yield("profiledb.CreateAutoDevice")
	defer xsched.Yield("profiledb.CreateAutoDevice done")

	return y.db.CreateAutoDevice(ctx, id, humanID, devType)
}

func (y c03YieldDB) ProfileByDedicatedIP(ctx context.Context, ip netip.Addr) (p *agd.Profile, d *agd.Device, err error) {
	xsched.Yield("profiledb.ProfileByDedicatedIP")
	defer xsched.Yield("profiledb.ProfileByDedicatedIP done")

	return y.db.ProfileByDedicatedIP(ctx, ip)
}

func (y c03YieldDB) ProfileByDeviceID(ctx context.Context, id agd.DeviceID) (p *agd.Profile, d *agd.Device, err error) {
	xsched.Yield("profiledb.ProfileByDeviceID")
	defer xsched.Yield("profiledb.ProfileByDeviceID done")

	return y.db.ProfileByDeviceID(ctx, id)
}

func (y c03YieldDB) ProfileByHumanID(
	ctx context.Context,
	id agd.ProfileID,
	humanIDLower agd.HumanIDLower,
) (p *agd.Profile, d *agd.Device, err error) {
	xsched.Yield("profiledb.ProfileByHumanID")
	defer xsched.Yield("profiledb.ProfileByHumanID done")

	return y.db.ProfileByHumanID(ctx, id, humanIDLower)
}

func (y c03YieldDB) ProfileByLinkedIP(ctx context.Context, ip netip.Addr) (p *agd.Profile, d *agd.Device, err error) {
	xsched.Yield("profiledb.ProfileByLinkedIP")
	defer xsched.Yield("profiledb.ProfileByLinkedIP done")

	return y.db.ProfileByLinkedIP(ctx, ip)
}

// c03PlainAuth, when set, replaces bcrypt by a plain comparison in the
// devices' authenticators (schedule exploration runs each password check
// thousands of times; bcrypt is trusted, see the assumptions).
var c03PlainAuth bool

type c03PlainAuthenticator string

func (a c03PlainAuthenticator) Authenticate(_ context.Context, passwd []byte) (ok bool) {
	return string(passwd) == string(a)
}

func c03Profile(id agd.ProfileID, devs []agd.DeviceID, deleted, auto bool) (p *agd.Profile) {
	return &agd.Profile{
		Access:              access.EmptyProfile{},
		BlockingMode:        &dnsmsg.BlockingModeNullIP{},
		Ratelimiter:         agd.GlobalRatelimiter{},
		ID:                  id,
		DeviceIDs:           devs,
		FilteredResponseTTL: 10 * time.Second,
		AutoDevicesEnabled:  auto,
		Deleted:             deleted,
		FilteringEnabled:    true,
	}
}

func c03Auth(policy, pw string) (a *agd.AuthSettings) {
	if policy == "off" {
		return &agd.AuthSettings{Enabled: false, PasswordHash: agdpasswd.AllowAuthenticator{}}
	}

	a = &agd.AuthSettings{
		Enabled:     true,
		DoHAuthOnly: policy == "doh-only",
	}
	if c03PlainAuth {
		a.PasswordHash = c03PlainAuthenticator(pw)
	} else {
		a.PasswordHash = agdpasswd.NewPasswordHashBcrypt(c03Hash(pw))
	}

	return a
}

// c03NewDB builds a real profile database in the state of the case through
// the Storage interface.
func c03NewDB(c c03Case) (db *profiledb.Default, st *c03Storage) {
	dev1Auth := c.Auth
	if c.DB == "auth-changed" {
		dev1Auth = "off"
	}
	dev1 := &agd.Device{
		Auth:             c03Auth(dev1Auth, c03PW1),
		ID:               c03Dev1,
		LinkedIP:         netip.MustParseAddr(c03LinkedDev1),
		Name:             "dev1",
		DedicatedIPs:     []netip.Addr{netip.MustParseAddr(c03DedicatedDev1)},
		FilteringEnabled: true,
	}
	auto1 := &agd.Device{
		Auth:             c03Auth("off", ""),
		ID:               c03Auto1,
		LinkedIP:         netip.MustParseAddr(c03LinkedAuto1),
		Name:             "MyPhone",
		HumanIDLower:     c03HumanAuto1,
		DedicatedIPs:     []netip.Addr{netip.MustParseAddr(c03DedicatedAuto)},
		FilteringEnabled: true,
	}
	dev2 := &agd.Device{
		Auth:             c03Auth("on", c03PW2),
		ID:               c03Dev2,
		LinkedIP:         netip.MustParseAddr(c03LinkedDev2),
		Name:             "dev2",
		FilteringEnabled: true,
	}
	dev3 := &agd.Device{
		Auth:             c03Auth("off", ""),
		ID:               c03Dev3,
		Name:             "dev3",
		FilteringEnabled: true,
	}

	prof1Devs := []agd.DeviceID{c03Dev1, c03Auto1}
	if c.DB == "noprofile" {
		prof1Devs = []agd.DeviceID{c03Auto1}
	}
	st = &c03Storage{
		full: &profiledb.StorageProfilesResponse{
			SyncTime: time.Unix(1_000_000, 0),
			Profiles: []*agd.Profile{
				c03Profile(c03Prof1, prof1Devs, false, c.Auto),
				c03Profile(c03Prof2, []agd.DeviceID{c03Dev2, c03Dev3}, false, false),
			},
			Devices: []*agd.Device{dev1, auto1, dev2, dev3},
		},
	}
	part := &profiledb.StorageProfilesResponse{SyncTime: time.Unix(1_000_100, 0)}
	switch c.DB {
	case "normal", "noprofile":
		part = nil
	case "deleted":
		part.Profiles = []*agd.Profile{c03Profile(c03Prof1, []agd.DeviceID{c03Dev1, c03Auto1}, true, c.Auto)}
	case "deleted-nodevs":
		part.Profiles = []*agd.Profile{c03Profile(c03Prof1, nil, true, c.Auto)}
	case "detached":
		part.Profiles = []*agd.Profile{c03Profile(c03Prof1, []agd.DeviceID{c03Auto1}, false, c.Auto)}
	case "moved":
		part.Profiles = []*agd.Profile{
			c03Profile(c03Prof1, []agd.DeviceID{c03Auto1}, false, c.Auto),
			c03Profile(c03Prof2, []agd.DeviceID{c03Dev2, c03Dev3, c03Dev1}, false, false),
		}
	case "auto-moved":
		part.Profiles = []*agd.Profile{
			c03Profile(c03Prof1, []agd.DeviceID{c03Dev1}, false, c.Auto),
			c03Profile(c03Prof2, []agd.DeviceID{c03Dev2, c03Dev3, c03Auto1}, false, false),
		}
		part.Devices = []*agd.Device{auto1}
	case "readdressed", "reassigned":
		dev1b, dev3b := *dev1, *dev3
		dev1b.LinkedIP, dev1b.DedicatedIPs = netip.MustParseAddr(c03LinkedDev1B), nil
		part.Profiles = []*agd.Profile{
			c03Profile(c03Prof1, []agd.DeviceID{c03Dev1, c03Auto1}, false, c.Auto),
			c03Profile(c03Prof2, []agd.DeviceID{c03Dev2, c03Dev3}, false, false),
		}
		part.Devices = []*agd.Device{&dev1b}
		if c.DB == "reassigned" {
			dev3b.LinkedIP = netip.MustParseAddr(c03LinkedDev1)
			part.Devices = append(part.Devices, &dev3b)
		}
	case "auto-detached":
		part.Profiles = []*agd.Profile{c03Profile(c03Prof1, []agd.DeviceID{c03Dev1}, false, c.Auto)}
	case "keys-removed":
		dev1b, auto1b := *dev1, *auto1
		dev1b.LinkedIP, dev1b.DedicatedIPs = netip.Addr{}, nil
		auto1b.HumanIDLower = ""
		part.Profiles = []*agd.Profile{c03Profile(c03Prof1, []agd.DeviceID{c03Dev1, c03Auto1}, false, c.Auto)}
		part.Devices = []*agd.Device{&dev1b, &auto1b}
	case "auth-changed":
		dev1b := *dev1
		dev1b.Auth = c03Auth(c.Auth, c03PW1)
		part.Profiles = []*agd.Profile{c03Profile(c03Prof1, []agd.DeviceID{c03Dev1, c03Auto1}, false, c.Auto)}
		part.Devices = []*agd.Device{&dev1b}
	default:
		vrt.Fatalf("bad db state %q", c.DB)
	}
	if c.Via == "fullfail" {
		if part == nil {
			vrt.Fatalf("db state %q has no change to deliver", c.DB)
		}
		part = c03FullResponse(st.full, part)
	} else if c.Via != "" {
		vrt.Fatalf("bad via %q", c.Via)
	}
	st.partial = part

	db, err := profiledb.New(&profiledb.Config{
		Logger:               slogutil.NewDiscardLogger(),
		Storage:              st,
		ErrColl:              c03DBErrColl,
		Metrics:              profiledb.EmptyMetrics{},
		CacheFilePath:        "none",
		FullSyncIvl:          100000 * time.Hour,
		FullSyncRetryIvl:     100000 * time.Hour,
		ResponseSizeEstimate: 1 * datasize.KB,
	})
	if err != nil {
		vrt.Fatalf("profiledb.New: %v", err)
	}
	ctx := context.Background()
	if err = db.Refresh(ctx); err != nil {
		vrt.Fatalf("full refresh: %v", err)
	}
	switch {
	case part == nil:
		// No change.
	case c.Via == "":
		if err = db.Refresh(ctx); err != nil {
			vrt.Fatalf("partial refresh: %v", err)
		}
		if st.calls != 2 || st.wasFull[1] {
			vrt.Fatalf("storage calls: %d, full: %v", st.calls, st.wasFull)
		}
	default:
		// The full-synchronisation interval passes; the file cache cannot be
		// written during the next synchronisation.  Refresh may report that,
		// the data has been received all the same.
		db.VerifC03ExpireFullSync()
		db.VerifC03FailCacheStore(true)
		err = db.Refresh(ctx)
		if err != nil && !strings.Contains(err.Error(), "saving cache") {
			vrt.Fatalf("full refresh with failing cache: %v", err)
		}
		db.VerifC03FailCacheStore(false)
		if st.calls != 2 || !st.wasFull[1] {
			vrt.Fatalf("second sync was not a full one: calls %d, full: %v", st.calls, st.wasFull)
		}
		for i := 0; i < c.After; i++ {
			if err = db.Refresh(ctx); err != nil {
				vrt.Fatalf("partial refresh %d after the full one: %v", i+1, err)
			}
		}
		if st.calls != 2+c.After {
			vrt.Fatalf("storage calls: %d", st.calls)
		}
	}

	return db, st
}

// c03FullResponse turns the partial update delta into the complete response
// of a full synchronisation: the records of base replaced by those of delta;
// deleted profiles, devices that no profile lists any more and records of
// devices of deleted profiles are absent from a full response.
func c03FullResponse(base, delta *profiledb.StorageProfilesResponse) (full *profiledb.StorageProfilesResponse) {
	full = &profiledb.StorageProfilesResponse{SyncTime: delta.SyncTime}
	profs := map[agd.ProfileID]*agd.Profile{}
	var order []agd.ProfileID
	for _, l := range [][]*agd.Profile{base.Profiles, delta.Profiles} {
		for _, p := range l {
			if _, ok := profs[p.ID]; !ok {
				order = append(order, p.ID)
			}
			profs[p.ID] = p
		}
	}
	listed := map[agd.DeviceID]bool{}
	for _, id := range order {
		if p := profs[id]; !p.Deleted {
			full.Profiles = append(full.Profiles, p)
			for _, d := range p.DeviceIDs {
				listed[d] = true
			}
		}
	}
	devs := map[agd.DeviceID]*agd.Device{}
	var devOrder []agd.DeviceID
	for _, l := range [][]*agd.Device{base.Devices, delta.Devices} {
		for _, d := range l {
			if _, ok := devs[d.ID]; !ok {
				devOrder = append(devOrder, d.ID)
			}
			devs[d.ID] = d
		}
	}
	for _, id := range devOrder {
		if listed[id] {
			full.Devices = append(full.Devices, devs[id])
		}
	}

	return full
}

var c03Protos = map[string]agd.Protocol{
	"dns":      agd.ProtoDNS,
	"dot":      agd.ProtoDoT,
	"doq":      agd.ProtoDoQ,
	"doh":      agd.ProtoDoH,
	"dnscrypt": agd.ProtoDNSCrypt,
}

// Shared immutable collaborators.
var (
	c03Messages *dnsmsg.Constructor
	c03ErrColl  = &agdtest.ErrorCollector{OnCollect: func(_ context.Context, err error) {
		vrt.Fatalf("unexpected collected error: %v", err)
	}}
	// c03DBErrColl collects the errors of the profile database: a failing
	// cache write is reported there.
	c03DBErrColl = &agdtest.ErrorCollector{OnCollect: func(_ context.Context, err error) {
		if !strings.Contains(err.Error(), "saving cache") {
			vrt.Fatalf("unexpected collected profiledb error: %v", err)
		}
	}}
	c03GeoIP = &agdtest.GeoIP{OnData: func(_ string, _ netip.Addr) (l *geoip.Location, err error) {
		return nil, nil
	}}
	c03Access = &agdtest.AccessManager{
		OnIsBlockedHost: func(_ string, _ uint16) (blocked bool) { return false },
		OnIsBlockedIP:   func(_ netip.Addr) (blocked bool) { return false },
	}
	c03Limiter = &agdtest.RateLimit{
		OnIsRateLimited: func(_ context.Context, _ *dns.Msg, _ netip.Addr) (drop, allow bool, err error) {
			return false, false, nil
		},
		OnCountResponses: func(_ context.Context, _ *dns.Msg, _ netip.Addr) {},
	}
)

func c03Req(c c03Case) (req *dns.Msg) {
	req = &dns.Msg{}
	host := c.Host
	if host == "" {
		host = "host.example."
	}
	req.SetQuestion(host, dns.TypeA)
	if !c.OPT {
		return req
	}
	opt := &dns.OPT{Hdr: dns.RR_Header{Name: ".", Rrtype: dns.TypeOPT, Class: 1232}}
	for _, o := range c.Opts {
		codeStr, data, _ := strings.Cut(o, ":")
		var code uint16
		if _, err := fmt.Sscan(codeStr, &code); err != nil {
			vrt.Fatalf("bad option %q", o)
		}
		opt.Option = append(opt.Option, &dns.EDNS0_LOCAL{Code: code, Data: []byte(data)})
	}
	req.Extra = append(req.Extra, opt)

	return req
}

// c03Run runs one case on fresh real objects.
func c03Run(c c03Case) (o *c03Obs) {
	return c03NewStack(c).serve(c)
}

// c03Stack is one instance of the real stack for the server settings and the
// database state of a case: profile database, device finder, middleware
// (with its pool of agd.RequestInfo) and the recording next handler.
type c03Stack struct {
	cfg     c03Case
	db      *profiledb.Default
	st      *c03Storage
	finder  *c03Finder
	handler dnsserver.Handler

	// lastRI is the agd.RequestInfo the next handler saw last; reused counts
	// the requests for which it saw the same object again.
	lastRI *agd.RequestInfo
	reused int
}

// c03SameStack reports whether two cases have the same server settings and
// database state, that is, can be served by the same stack.
func c03SameStack(a, b c03Case) (ok bool) {
	return a.Proto == b.Proto && a.Linked == b.Linked && a.Ifaces == b.Ifaces &&
		fmt.Sprint(a.Domains) == fmt.Sprint(b.Domains) && a.Auth == b.Auth && a.DB == b.DB && a.Auto == b.Auto &&
		a.Via == b.Via && a.After == b.After
}

// c03NewStack builds the real stack for the settings part of c.
func c03NewStack(c c03Case) (s *c03Stack) {
	s = &c03Stack{cfg: c}
	db, st := c03NewDB(c)
	s.db, s.st = db, st

	srv := &agd.Server{
		Name:            "srv",
		Protocol:        c03Protos[c.Proto],
		LinkedIPEnabled: c.Linked,
	}
	if srv.Protocol == 0 {
		vrt.Fatalf("bad proto %q", c.Proto)
	}
	if c.Ifaces {
		srv.SetBindData([]*agd.ServerBindData{{
			PrefixAddr: &agdnet.PrefixNetAddr{Prefix: netip.MustParsePrefix(c03SrvAddr + "/32"), Net: "udp", Port: 53},
		}, {
			PrefixAddr: &agdnet.PrefixNetAddr{Prefix: netip.MustParsePrefix("198.51.100.8/29"), Net: "udp", Port: 53},
		}})
	} else {
		srv.SetBindData([]*agd.ServerBindData{{
			AddrPort: netip.MustParseAddrPort(c03SrvAddr + ":53"),
		}})
	}

	s.finder = &c03Finder{real: devicefinder.NewDefault(&devicefinder.Config{
		Logger:        slogutil.NewDiscardLogger(),
		ProfileDB:     c03YieldDB{db: db},
		HumanIDParser: agd.NewHumanIDParser(),
		Server:        srv,
		DeviceDomains: c.Domains,
	})}

	mw := ratelimitmw.New(&ratelimitmw.Config{
		Logger:           slogutil.NewDiscardLogger(),
		Messages:         c03Messages,
		FilteringGroup:   &agd.FilteringGroup{},
		ServerGroup:      &agd.ServerGroup{},
		Server:           srv,
		StructuredErrors: agdtest.NewSDEConfig(true),
		AccessManager:    c03Access,
		DeviceFinder:     s.finder,
		ErrColl:          c03ErrColl,
		GeoIP:            c03GeoIP,
		Metrics:          ratelimitmw.EmptyMetrics{},
		Limiter:          c03Limiter,
		Protocols:        []agd.Protocol{agd.ProtoDNS, agd.ProtoDNSCrypt},
		EDEEnabled:       true,
	})

	next := dnsserver.HandlerFunc(func(ctx context.Context, _ dnsserver.ResponseWriter, _ *dns.Msg) (err error) {
		o := c03StateOf(ctx).obs
		o.NextCalls++

		// A later middleware reads the request information some time after
		// the rate-limit middleware has passed it on.
		xsched.Yield("next handler")
		ri, ok := agd.RequestInfoFromContext(ctx)
		if !ok {
			return nil
		}
		o.NextHasRI = true
		o.NextRemoteIP, o.NextHost = ri.RemoteIP.String(), ri.Host
		if ri == s.lastRI {
			s.reused++
		}
		s.lastRI = ri
		if p, d := ri.DeviceData(); p != nil || d != nil {
			if p != nil {
				o.NextProf = string(p.ID)
			}
			if d != nil {
				o.NextDev = string(d.ID)
			}
		}

		return nil
	})
	s.handler = mw.Wrap(next)

	return s
}

// serve sends the request part of c through the stack and returns what was
// observed for this request only.
func (s *c03Stack) serve(c c03Case) (o *c03Obs) {
	if !c03SameStack(s.cfg, c) {
		vrt.Fatalf("request %s does not belong to the stack of %s", c03Describe(c), c03Describe(s.cfg))
	}

	return s.serveAny(c)
}

// serveAny is serve without the check that the settings part of c is the one
// the stack was built for: only the request part of c is used.
func (s *c03Stack) serveAny(c c03Case) (o *c03Obs) {
	o = &c03Obs{}
	rs := &c03ReqState{obs: o}
	createdBefore := len(s.st.created)

	sri := &dnsserver.RequestInfo{StartTime: time.Now(), TLSServerName: c.SNI}
	if c.Path != "" {
		sri.URL = &url.URL{Scheme: "https", Host: "dns.example", Path: c.Path}
	}
	switch c.UI {
	case 1:
		sri.Userinfo = url.User(c.User)
	case 2:
		sri.Userinfo = url.UserPassword(c.User, c.Pass)
	}
	ctx := dnsserver.ContextWithRequestInfo(context.Background(), sri)
	ctx = context.WithValue(ctx, c03ReqStateKey{}, rs)

	rw := dnsserver.NewNonWriterResponseWriter(
		net.UDPAddrFromAddrPort(netip.MustParseAddrPort(c.Laddr)),
		net.UDPAddrFromAddrPort(netip.MustParseAddrPort(c.Raddr)),
	)
	req := c03Req(c)

	var err error
	o.Panic = vrt.Catch(func() { err = s.handler.ServeDNS(ctx, rw, req) })
	if err != nil {
		o.MwErr = err.Error()
	}
	o.Created = append([]c03Created(nil), s.st.created[createdBefore:]...)
	o.FindCalls = rs.calls
	switch res := rs.res.(type) {
	case nil:
		o.Kind = "anon"
	case *agd.DeviceResultOK:
		o.Kind = "ok"
		if res.Profile != nil {
			o.Prof = string(res.Profile.ID)
		}
		if res.Device != nil {
			o.Dev = string(res.Device.ID)
		}
	case *agd.DeviceResultAuthenticationFailure:
		o.Kind = "authfail"
	case *agd.DeviceResultUnknownDedicated:
		o.Kind = "drop"
	case *agd.DeviceResultError:
		o.Kind = "error"
	default:
		o.Kind = fmt.Sprintf("other:%T", res)
	}

	return o
}

// ---------------------------------------------------------------------------
// Enumeration
// ---------------------------------------------------------------------------

type c03UI struct {
	ui         int
	user, pass string
}

// Alphabets, simplest first.  The quick tier uses a prefix of each.
var (
	c03Paths = []string{
		"/dns-query",
		"/dns-query/dev1",
		"/dns-query/dev3",
		"/dns-query/dev2",
		"/dns-query/nosuch",
		"/resolve/dev1",
		"/dns-query/dev1/x",
		"/x/dev1",
		"/y/dev1",
		"/dns-query/otr-prof1-MyPhone",
		"/dns-query/auto1",
		// thorough only
		"/dns-query/DEV1",
		"/dns-query/otr-prof1-NewPhone",
		"/dns-query/otr-prof2-MyPhone",
		"/dns-query/bad id!",
		"/dns-query/dev1/",
		"/",
		"/dns-query/OTR-PROF1-MYPHONE",
		"/dns-query/xyz-prof1-myphone",
	}
	c03UIs = []c03UI{
		{0, "", ""},
		{1, c03Dev1, ""},
		{2, c03Dev1, ""},
		{2, c03Dev1, "wrong"},
		{2, c03Dev1, c03PW1},
		{2, c03Dev2, c03PW1},
		{2, c03Dev3, "any"},
		{2, "bad id!", "x"},
		// thorough only
		{2, c03Auto1, "any"},
		{2, c03Dev2, c03PW2},
		{2, "DEV1", c03PW1},
		{2, "nosuch", c03PW1},
		{2, c03Dev1, "PW1"},
		{1, c03Dev3, ""},
	}
	c03SNIs = []string{
		"",
		"dev1.d.test",
		"dev3.d.test",
		"dev1xd.test",
		"a.dev1.d.test",
		"dev1.other.test",
		"auto1.d.test",
		// thorough only
		"DEV1.D.Test",
		"d.test",
		"otr-prof1-myphone.d.test",
		"dev_1.d.test",
		"dev2.d.test",
		"dev1.x.test",
	}
	c03Opts = [][]string{
		nil, // no OPT
		{},  // OPT without options
		{"65074:dev1"},
		{"65074:dev3"},
		{"65074:bad id!"},
		{"1234:dev1"},
		{"1234:zz", "65074:dev1"},
		{"65074:auto1"},
		// thorough only
		{"65074:dev2"},
		{"65074:DEV1"},
		{"65074:dev1", "65074:dev3"},
		{"65074:nosuch"},
		{"65074:"},
	}
	c03Raddrs  = []string{c03LinkedDev1 + ":12345", c03RemoteOther + ":12345", c03LinkedDev2 + ":12345", c03LinkedDev1B + ":12345", c03LinkedAuto1 + ":12345"}
	c03Laddrs  = []string{c03SrvAddr + ":53", c03DedicatedDev1 + ":53", c03DedicatedNone + ":53", c03DedicatedAuto + ":53"}
	c03Domains = [][]string{nil, {"d.test"}, {"x.test", "d.test"}}
	c03Auths   = []string{"off", "on", "doh-only"}
	c03DBs     = []string{"normal", "deleted", "detached", "readdressed", "auto-moved", "keys-removed", "auto-detached", "moved", "deleted-nodevs", "noprofile", "reassigned", "auth-changed"}
	c03Bools   = []bool{false, true}
)

// c03Dims are the sizes of the alphabets of one tier.
type c03Dims struct {
	paths, uis, snis, opts, raddrs, laddrs, domains, dbs, autos int
}

func c03SetOpts(c *c03Case, o []string) {
	c.OPT = o != nil
	c.Opts = o
}

// c03GenDoH enumerates the DoH product: everything that the DoH channels
// depend on is varied in full; the plain-DNS channels (CPE-ID, linked and
// dedicated addresses) are either all absent or all pointing at dev1.
func c03GenDoH(d c03Dims, emit func(c03Case)) {
	for _, extras := range c03Bools {
		for _, auto := range c03Bools[2-d.autos:] {
			for _, db := range c03DBs[:d.dbs] {
				for _, auth := range c03Auths {
					for _, dom := range c03Domains[:min(d.domains, 2)] {
						for _, sni := range c03SNIs[:d.snis] {
							for _, ui := range c03UIs[:d.uis] {
								for _, p := range c03Paths[:d.paths] {
									c := c03Case{
										Proto: "doh", Path: p, UI: ui.ui, User: ui.user, Pass: ui.pass, SNI: sni,
										Raddr: c03RemoteOther + ":12345", Laddr: c03SrvAddr + ":443",
										Domains: dom, Auth: auth, DB: db, Auto: auto,
									}
									if extras {
										c03SetOpts(&c, []string{"65074:dev1"})
										c.Raddr = c03LinkedDev1 + ":12345"
										c.Laddr = c03DedicatedDev1 + ":443"
										c.Linked, c.Ifaces = true, true
									}
									emit(c)
								}
							}
						}
					}
				}
			}
		}
	}
}

// c03GenTLS enumerates the DoT / DoQ product.
func c03GenTLS(d c03Dims, emit func(c03Case)) {
	for _, proto := range []string{"dot", "doq"} {
		for _, db := range c03DBs[:d.dbs] {
			for _, auth := range c03Auths {
				for _, ifaces := range c03Bools {
					for _, linked := range c03Bools {
						for _, laddr := range c03Laddrs[:2] {
							for _, raddr := range c03Raddrs[:d.raddrs] {
								for _, opts := range [][]string{nil, {"65074:dev1"}} {
									for _, httpish := range c03Bools {
										for _, dom := range c03Domains[:d.domains] {
											for _, sni := range c03SNIs[:d.snis] {
												c := c03Case{
													Proto: proto, SNI: sni, Raddr: raddr, Laddr: laddr,
													Linked: linked, Ifaces: ifaces, Domains: dom,
													Auth: auth, DB: db, Auto: true,
												}
												c03SetOpts(&c, opts)
												if httpish {
													// Not producible by the real DoT / DoQ servers;
													// part of the product all the same.
													c.Path, c.UI, c.User, c.Pass = "/dns-query/dev1", 2, c03Dev1, c03PW1
												}
												emit(c)
											}
										}
									}
								}
							}
						}
					}
				}
			}
		}
	}
}

// c03GenPlain enumerates the plain-DNS and DNSCrypt product.
func c03GenPlain(d c03Dims, emit func(c03Case)) {
	for _, proto := range []string{"dns", "dnscrypt"} {
		dbs, autos := c03DBs[:d.dbs], c03Bools[2-d.autos:]
		if proto == "dnscrypt" {
			dbs, autos = c03DBs[:1], c03Bools[1:]
		}
		for _, auto := range autos {
			for _, db := range dbs {
				for _, auth := range c03Auths {
					for _, tlsish := range c03Bools {
						for _, ifaces := range c03Bools {
							for _, linked := range c03Bools {
								for _, laddr := range c03Laddrs[:d.laddrs] {
									for _, raddr := range c03Raddrs[:d.raddrs] {
										for _, opts := range c03Opts[:d.opts] {
											c := c03Case{
												Proto: proto, Raddr: raddr, Laddr: laddr,
												Linked: linked, Ifaces: ifaces,
												Auth: auth, DB: db, Auto: auto,
											}
											c03SetOpts(&c, opts)
											if tlsish {
												// Not producible by the real plain servers; part
												// of the product all the same.
												c.SNI, c.Domains = "dev1.d.test", []string{"d.test"}
												c.UI, c.User, c.Pass = 2, c03Dev1, c03PW1
											}
											emit(c)
										}
									}
								}
							}
						}
					}
				}
			}
		}
	}
}

// c03GenCacheFail enumerates the cases in which the change of the database
// state arrives through a full synchronisation whose file-cache write fails,
// followed by 0 to 2 partial synchronisations without changes: per
// transport the request alphabet of the sequence part x dev1 policy x every
// database state that is a change.  The oracle is the one of every other
// case: the data was synchronised.
func c03GenCacheFail(emit func(c03Case)) {
	for _, after := range []int{0, 1, 2} {
		for _, db := range []string{"deleted", "detached", "moved", "readdressed", "reassigned", "auto-moved", "auth-changed", "keys-removed", "auto-detached"} {
			for _, auth := range c03Auths {
				for _, proto := range []string{"doh", "dot", "doq", "dns", "dnscrypt"} {
					cfg := c03Case{
						Proto: proto, Linked: true, Ifaces: true, Domains: []string{"d.test"},
						Auth: auth, DB: db, Auto: true, Via: "fullfail", After: after,
					}
					for _, c := range c03SeqRequests(cfg) {
						emit(c)
					}
					if proto == "doh" {
						c := cfg
						c.Raddr, c.Laddr = c03RemoteOther+":12345", c03SrvAddr+":53"
						c.Path = "/dns-query/otr-prof1-MyPhone"
						emit(c)
					}
				}
			}
		}
	}
}

func TestVerifC03(t *testing.T) {
	r := vrt.Start("C03")
	c03Messages = agdtest.NewConstructor(t)

	q := c03Dims{paths: 11, uis: 8, snis: 7, opts: 8, raddrs: 2, laddrs: 3, domains: 2, dbs: 7, autos: 1}
	th := c03Dims{
		paths: len(c03Paths), uis: len(c03UIs), snis: len(c03SNIs), opts: len(c03Opts),
		raddrs: len(c03Raddrs), laddrs: len(c03Laddrs), domains: len(c03Domains), dbs: len(c03DBs), autos: 2,
	}
	d := vrt.Pick(r, q, th)
	r.Bound("doh_paths", c03Paths[:d.paths])
	r.Bound("doh_userinfo", fmt.Sprint(c03UIs[:d.uis]))
	r.Bound("tls_server_names", c03SNIs[:d.snis])
	r.Bound("edns_option_sets", fmt.Sprint(c03Opts[:d.opts]))
	r.Bound("remote_addrs", c03Raddrs[:d.raddrs])
	r.Bound("local_addrs", c03Laddrs[:d.laddrs])
	r.Bound("device_domain_sets", fmt.Sprint(c03Domains[:d.domains]))
	r.Bound("dev1_auth", c03Auths)
	r.Bound("db_states", c03DBs[:d.dbs])
	r.Bound("auto_devices_values", d.autos)
	r.Bound("server_flags", "linked_ip_enabled x binds_to_interfaces")

	run := func(c c03Case) (fs []vrt.Finding) {
		o := c03Run(c)
		r.Trans(2 + len(o.Created))
		fs = c03Oracle(c, o)

		class := c.Proto + "/" + o.Kind
		if o.Kind == "ok" {
			w := c03NewWorld(c, o.Created)
			chans := c03CarriedBy(c, w, o.Prof, o.Dev)
			sort.Strings(chans)
			via := "?"
			if len(chans) > 0 {
				via = chans[0]
			}
			class += ":" + o.Dev + "/via-" + via
		}
		switch {
		case o.NextCalls == 0:
			class += "/not-served"
		case o.NextDev != "":
			class += "/served-with-device"
		default:
			class += "/served-anonymous"
		}
		r.Class(class)
		r.State(fmt.Sprintf("%s|%s|%s|%s|%d|%d|%v|%s|%s|%d|%s", c.Proto, o.Kind, o.Prof, o.Dev, o.FindCalls,
			o.NextCalls, o.NextHasRI, o.NextProf, o.NextDev, len(o.Created), o.MwErr))

		return fs
	}

	vrt.Part(r, "doh", func(emit func(c03Case)) { c03GenDoH(d, emit) }, run)
	vrt.Part(r, "tls", func(emit func(c03Case)) { c03GenTLS(d, emit) }, run)
	vrt.Part(r, "plain", func(emit func(c03Case)) { c03GenPlain(d, emit) }, run)
	vrt.Part(r, "cachefail", c03GenCacheFail, run)

	r.Finish()
	os.Exit(0)
}
