//go:build verif

package zzverifc03

import (
	"context"
	"fmt"
	"net/netip"
	"os"
	"reflect"
	"runtime"
	"runtime/debug"
	"testing"
	"time"

	"github.com/AdguardTeam/AdGuardDNS/internal/agd"
	"github.com/AdguardTeam/AdGuardDNS/internal/agdtest"
	"github.com/AdguardTeam/AdGuardDNS/internal/dnsserver/zzverif/vrt"
	"github.com/AdguardTeam/AdGuardDNS/internal/dnsserver/zzverif/xsched"
	"github.com/AdguardTeam/AdGuardDNS/internal/profiledb"
)

// Schedule exploration (engine XS) of a request that is concurrent with a
// synchronisation which RE-ATTACHES the device the request names.
//
// Initial state: dev1 (authentication off, linked IP 192.0.2.10, dedicated
// address 198.51.100.9) was detached from prof1 by an earlier partial
// synchronisation; its record is still in the database.  Task B is
// profiledb.Default.Refresh delivering dev1 attached again, with a changed
// record: DoH-only authentication on / a new linked IP and no dedicated
// address / moved to prof2 with authentication on.  Task A (thorough: two
// such tasks) is a request by dev1's id over plain DNS (CPE-ID) or DoT
// (server name), from its old or its new linked IP, or to its dedicated
// address.  profiledb.go is instrumented with modelled mutexes and a
// scheduling point before every call-containing statement of Refresh,
// fetchProfiles, setProfiles, setDevices and the lookups.
//
// Oracle (linearizability against the two database states): what the
// concurrent request observes must be what the same request observes on a
// fresh stack in the state BEFORE the synchronisation or in the state AFTER
// it — never a mix (new profile record with the old device record); after
// everything has finished the same request must observe the AFTER state.

type c03SyncScenario struct {
	Proto    string `json:"proto"`    // dns, dot
	Variant  string `json:"variant"`  // dohonly, relinked, moved
	Requests []int  `json:"requests"` // indices into the request alphabet of the transport
}

type c03SyncCase struct {
	c03SyncScenario
	Choices []int `json:"choices"`
}

// c03SyncCfg is the settings part of the scenario's stack.
func c03SyncCfg(proto string) (cfg c03Case) {
	return c03Case{
		Proto: proto, Linked: true, Ifaces: true, Domains: []string{"d.test"},
		Auth: "off", DB: "detached", Auto: true,
	}
}

// c03SyncRequests is the request alphabet of a transport.
func c03SyncRequests(proto string) (reqs []c03Case) {
	base := c03SyncCfg(proto)
	base.Raddr, base.Laddr = c03RemoteOther+":12345", c03SrvAddr+":53"
	add := func(f func(c *c03Case)) {
		c := base
		f(&c)
		reqs = append(reqs, c)
	}
	switch proto {
	case "dns":
		add(func(c *c03Case) { c03SetOpts(c, []string{"65074:dev1"}) }) // by id
		add(func(c *c03Case) { c.Raddr = c03LinkedDev1 + ":12345" })    // old linked IP
		add(func(c *c03Case) { c.Raddr = c03LinkedDev1B + ":12345" })   // new linked IP
		add(func(c *c03Case) { c.Laddr = c03DedicatedDev1 + ":53" })    // dedicated address
	case "dot":
		add(func(c *c03Case) { c.SNI = "dev1.d.test" }) // by id
	default:
		vrt.Fatalf("syncrace: bad proto %q", proto)
	}

	return reqs
}

// c03SyncUpdate is the partial update of the variant.
func c03SyncUpdate(variant string) (upd *profiledb.StorageProfilesResponse) {
	dev1 := &agd.Device{
		Auth:             c03Auth("off", c03PW1),
		ID:               c03Dev1,
		LinkedIP:         netip.MustParseAddr(c03LinkedDev1),
		Name:             "dev1",
		DedicatedIPs:     []netip.Addr{netip.MustParseAddr(c03DedicatedDev1)},
		FilteringEnabled: true,
	}
	upd = &profiledb.StorageProfilesResponse{SyncTime: time.Unix(1_000_500, 0), Devices: []*agd.Device{dev1}}
	prof1 := c03Profile(c03Prof1, []agd.DeviceID{c03Dev1, c03Auto1}, false, true)
	switch variant {
	case "dohonly":
		dev1.Auth = c03Auth("doh-only", c03PW1)
		upd.Profiles = []*agd.Profile{prof1}
	case "relinked":
		dev1.LinkedIP, dev1.DedicatedIPs = netip.MustParseAddr(c03LinkedDev1B), nil
		upd.Profiles = []*agd.Profile{prof1}
	case "moved":
		dev1.Auth = c03Auth("on", c03PW1)
		upd.Profiles = []*agd.Profile{
			c03Profile(c03Prof1, []agd.DeviceID{c03Auto1}, false, true),
			c03Profile(c03Prof2, []agd.DeviceID{c03Dev2, c03Dev3, c03Dev1}, false, false),
		}
	default:
		vrt.Fatalf("syncrace: bad variant %q", variant)
	}

	return upd
}

// c03SyncRef returns what request ri observes on a fresh stack before and
// after the synchronisation of the variant, cached per process.
var c03SyncRefCache = map[string][2]*c03Obs{}

func c03SyncRef(proto, variant string, ri int) (before, after *c03Obs) {
	k := fmt.Sprintf("%s|%s|%d", proto, variant, ri)
	if v, ok := c03SyncRefCache[k]; ok {
		return v[0], v[1]
	}
	req := c03SyncRequests(proto)[ri]

	st := c03NewStack(c03SyncCfg(proto))
	before = st.serveAny(req)
	c03AutoRunPending()

	st = c03NewStack(c03SyncCfg(proto))
	st.st.queue = []*profiledb.StorageProfilesResponse{c03SyncUpdate(variant)}
	if err := st.db.Refresh(context.Background()); err != nil {
		vrt.Fatalf("syncrace: reference refresh: %v", err)
	}
	after = st.serveAny(req)
	c03AutoRunPending()

	c03SyncRefCache[k] = [2]*c03Obs{before, after}

	return before, after
}

type c03SyncEnv struct {
	sc      c03SyncScenario
	stack   *c03Stack
	reqs    []c03Case
	obs     []*c03Obs
	syncErr error
}

func c03SyncSetup(sc c03SyncScenario, s *xsched.Sched) (env *c03SyncEnv) {
	c03AutoPending = nil
	env = &c03SyncEnv{sc: sc, stack: c03NewStack(c03SyncCfg(sc.Proto))}
	env.stack.st.queue = []*profiledb.StorageProfilesResponse{c03SyncUpdate(sc.Variant)}
	all := c03SyncRequests(sc.Proto)
	env.obs = make([]*c03Obs, len(sc.Requests))
	for ti, ri := range sc.Requests {
		if ri < 0 || ri >= len(all) {
			vrt.Fatalf("syncrace: bad request index %d", ri)
		}
		env.reqs = append(env.reqs, all[ri])
		s.Go(fmt.Sprintf("A%d-request", ti+1), func() {
			env.obs[ti] = env.stack.serveAny(all[ri])
		})
	}
	s.Go("B-refresh", func() {
		env.syncErr = env.stack.db.Refresh(context.Background())
	})

	return env
}

func c03SyncCheck(env *c03SyncEnv, x *xsched.Exec) (fs []vrt.Finding) {
	desc := fmt.Sprintf("%s requests %v concurrent with a partial sync that re-attaches the detached dev1 (%s)", env.sc.Proto, env.sc.Requests, env.sc.Variant)
	if x.Sched.Panicked != "" {
		return vrt.F("syncrace/panic", "%s\npanicked: %s\nschedule:\n%s", desc, x.Sched.Panicked, x.Sched.Describe())
	}
	if x.Sched.Deadlock || x.Sched.LimitHit {
		return vrt.F("syncrace/deadlock", "%s\nblocked: %v\nschedule:\n%s", desc, x.Sched.Blocked, x.Sched.Describe())
	}
	if env.syncErr != nil || len(env.stack.st.queue) != 0 {
		vrt.Fatalf("syncrace: refresh: err %v, queue %d", env.syncErr, len(env.stack.st.queue))
	}
	// Clean-up goroutines the lookups started are not run: when they run
	// relative to a synchronisation is the subject of C14.
	c03AutoPending = nil
	seen := map[string]bool{}
	add := func(key, format string, args ...any) {
		if !seen[key] {
			seen[key] = true
			fs = append(fs, vrt.F(key, format, args...)...)
		}
	}
	for ti, ri := range env.sc.Requests {
		o := env.obs[ti]
		if o == nil {
			vrt.Fatalf("syncrace: task %d has no observation", ti+1)
		}
		before, after := c03SyncRef(env.sc.Proto, env.sc.Variant, ri)
		if !reflect.DeepEqual(o, before) && !reflect.DeepEqual(o, after) {
			add("syncrace/request-sees-a-mix-of-old-and-new-database-state",
				"%s\nrequest %s of task A%d is observed as %s;\n  the state before the sync gives %s,\n  the state after the sync gives  %s\nschedule:\n%s",
				desc, c03Describe(env.reqs[ti]), ti+1, c03ObsString(o), c03ObsString(before), c03ObsString(after), x.Sched.Describe())
		}
	}
	// Everything has finished: the latest synchronisation wins.
	for ti, ri := range env.sc.Requests {
		_, after := c03SyncRef(env.sc.Proto, env.sc.Variant, ri)
		o := env.stack.serveAny(env.reqs[ti])
		c03AutoPending = nil
		if !reflect.DeepEqual(o, after) {
			add("syncrace/after-sync/observation-differs-from-synchronised-state",
				"%s\nafter everything had finished request %s is observed as %s; the state after the sync gives %s\nschedule:\n%s",
				desc, c03Describe(env.reqs[ti]), c03ObsString(o), c03ObsString(after), x.Sched.Describe())
		}
	}

	return fs
}

func c03SyncScenarios(thorough bool) (scs []c03SyncScenario) {
	for _, proto := range []string{"dns", "dot"} {
		n := len(c03SyncRequests(proto))
		for _, v := range []string{"dohonly", "relinked", "moved"} {
			for i := 0; i < n; i++ {
				scs = append(scs, c03SyncScenario{Proto: proto, Variant: v, Requests: []int{i}})
			}
		}
	}
	if thorough {
		for _, v := range []string{"dohonly", "relinked", "moved"} {
			scs = append(scs,
				c03SyncScenario{Proto: "dns", Variant: v, Requests: []int{0, 1}},
				c03SyncScenario{Proto: "dns", Variant: v, Requests: []int{0, 0}},
			)
		}
	}

	return scs
}

func TestVerifC03SyncRace(t *testing.T) {
	r := vrt.Start("C03")
	debug.SetGCPercent(-1)
	c03PlainAuth = true
	c03Messages = agdtest.NewConstructor(t)
	xsched.SpawnHook = func(_ string, f func(), _ []any) { c03AutoPending = append(c03AutoPending, f) }

	// Harness self-check: for every variant some request distinguishes the
	// state before from the state after.
	for _, v := range []string{"dohonly", "relinked", "moved"} {
		differ := 0
		for _, proto := range []string{"dns", "dot"} {
			for ri := range c03SyncRequests(proto) {
				if b, a := c03SyncRef(proto, v, ri); !reflect.DeepEqual(b, a) {
					differ++
				}
			}
		}
		if differ == 0 {
			vrt.Fatalf("syncrace: no request distinguishes the states of variant %s", v)
		}
	}

	var rc c03SyncCase
	if r.ReplayCase("syncrace", &rc) {
		var env *c03SyncEnv
		x := xsched.Replay(rc.Choices, func(s *xsched.Sched) { env = c03SyncSetup(rc.c03SyncScenario, s) })
		r.Eval()
		r.Report("syncrace", rc, c03SyncCheck(env, x))
	}
	if r.ShouldRun() {
		shard, nshards := r.NShards()
		scs := c03SyncScenarios(r.Thorough())
		r.Bound("syncrace_scenarios", len(scs))
		r.Bound("syncrace_preemptions", vrt.Pick(r, "2", "one request: 3, two requests: 2"))
		execs := 0
		for si, sc := range scs {
			if si%nshards != shard {
				continue
			}
			if r.Expired() {
				r.Note("syncrace exploration stopped by internal deadline before scenario %d of %d", si, len(scs))

				break
			}
			pre := vrt.Pick(r, 2, 3)
			if len(sc.Requests) > 1 {
				pre = 2
			}
			var env *c03SyncEnv
			shown := map[string]bool{}
			st := xsched.Explore(xsched.Config{MaxPreemptions: pre, MaxDeviations: 0, Stop: r.Expired},
				func(s *xsched.Sched) {
					if execs++; execs%2000 == 0 {
						runtime.GC()
					}
					env = c03SyncSetup(sc, s)
				},
				func(x *xsched.Exec) bool {
					r.Eval()
					r.Trans(len(x.Sched.Trace))
					fs := c03SyncCheck(env, x)
					kinds := ""
					for _, o := range env.obs {
						if o != nil {
							kinds += " " + o.Kind + ":" + o.Prof
						}
					}
					r.Class(fmt.Sprintf("syncrace/%s/%s requests=%v%s", sc.Proto, sc.Variant, sc.Requests, kinds))
					r.State(fmt.Sprintf("syncrace|%v|%s", sc, kinds))
					var fresh []vrt.Finding
					for _, f := range fs {
						if !shown[f.Key] {
							shown[f.Key] = true
							fresh = append(fresh, f)
						}
					}
					if len(fresh) > 0 {
						r.Report("syncrace", c03SyncCase{c03SyncScenario: sc, Choices: x.Choices}, fresh)
					}

					return len(shown) < 2
				})
			r.Count("syncrace_scheduling_points", st.Points)
			r.Count("syncrace_schedules", st.Executions)
			if st.Stopped {
				r.Note("syncrace scenario %v stopped by deadline after %d executions", sc, st.Executions)
			}
		}
	}
	r.Finish()
	os.Exit(0)
}
