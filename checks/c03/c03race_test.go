//go:build verif

package zzverifc03

import (
	"fmt"
	"os"
	"reflect"
	"runtime"
	"runtime/debug"
	"strings"
	"testing"

	"github.com/AdguardTeam/AdGuardDNS/internal/agdtest"
	"github.com/AdguardTeam/AdGuardDNS/internal/dnsserver/zzverif/vrt"
	"github.com/AdguardTeam/AdGuardDNS/internal/dnsserver/zzverif/xsched"
)

// Schedule-exploration part of C03 (engine XS): 2 (thorough: also 3) requests
// are CONCURRENT tasks on ONE stack instance (one real profile database, one
// real device finder, one real middleware with its single pool of
// agd.RequestInfo).  The unit is built with instrumented copies of
// ratelimitmw/{ratelimitmw,requestinfo}.go and devicefinder/{devicefinder,
// device}.go: a scheduling point precedes every statement that contains a
// call in Middleware.Wrap (incl. its handler closure), newRequestInfo,
// handleDeviceResult, Default.Find, findDevice, deviceFromDB, newDeviceResult,
// deviceByAddrs, deviceByLocalAddr, authenticatedResult and authenticate;
// the harness adds a point before and after every profile-database lookup
// and one in the next handler before it reads the agd.RequestInfo from its
// context (as a later middleware would).  Everything between two points runs
// atomically (GOMAXPROCS 1, cooperative tasks), so every interleaving at
// that granularity with at most N preemptions is enumerated.
//
// Oracle: what every task observes (finder result, profile / device / remote
// IP / host seen by its next handler) equals what the same request observes
// alone on a fresh stack, and the statement oracle c03Oracle holds per task.

// c03RaceStack is a stack configuration with its request alphabet.
type c03RaceStack struct {
	name string
	cfg  c03Case
	reqs []c03Case
}

// c03RaceStacks returns the stack configurations and their request
// alphabets: per transport a recognised request per channel, an
// authentication failure, an anonymous request and an unknown id.
func c03RaceStacks() (stacks []c03RaceStack) {
	mk := func(name, proto, auth string, fs ...func(c *c03Case)) {
		cfg := c03Case{
			Proto: proto, Linked: true, Ifaces: true, Domains: []string{"d.test"},
			Auth: auth, DB: "normal", Auto: true,
		}
		st := c03RaceStack{name: name, cfg: cfg}
		for _, f := range fs {
			c := cfg
			c.Raddr, c.Laddr = "", c03SrvAddr+":53"
			if proto == "doh" {
				c.Path = "/dns-query"
			}
			f(&c)
			st.reqs = append(st.reqs, c)
		}
		stacks = append(stacks, st)
	}
	mk("doh", "doh", "doh-only",
		func(c *c03Case) {}, // anonymous
		func(c *c03Case) { c.UI, c.User, c.Pass = 2, c03Dev1, c03PW1 },  // recognised: userinfo, DoH-only device
		func(c *c03Case) { c.UI, c.User, c.Pass = 2, c03Dev1, "wrong" }, // authentication failure
		func(c *c03Case) { c.Path = "/dns-query/dev3" },                 // recognised: path
		func(c *c03Case) { c.Path = "/dns-query/nosuch" },               // unknown id
		func(c *c03Case) { c.SNI = "dev2.d.test" },                      // recognised: SNI
	)
	mk("dot", "dot", "doh-only",
		func(c *c03Case) {},                          // anonymous
		func(c *c03Case) { c.SNI = "dev3.d.test" },   // recognised: SNI
		func(c *c03Case) { c.SNI = "dev2.d.test" },   // recognised: SNI, other device
		func(c *c03Case) { c.SNI = "dev1.d.test" },   // authentication failure (DoH-only device)
		func(c *c03Case) { c.SNI = "nosuch.d.test" }, // unknown id
	)
	mk("dns", "dns", "on",
		func(c *c03Case) {}, // anonymous
		func(c *c03Case) { c03SetOpts(c, []string{"65074:dev3"}) },   // recognised: CPE-ID
		func(c *c03Case) { c.Raddr = c03LinkedDev2 + ":12345" },      // recognised: linked IP
		func(c *c03Case) { c.Laddr = c03DedicatedDev1 + ":53" },      // recognised: dedicated IP
		func(c *c03Case) { c03SetOpts(c, []string{"65074:nosuch"}) }, // unknown id
		func(c *c03Case) { c.Laddr = c03DedicatedNone + ":53" },      // unknown dedicated: dropped
	)
	mk("dns-dohonly", "dns", "doh-only",
		func(c *c03Case) {}, // anonymous
		func(c *c03Case) { c03SetOpts(c, []string{"65074:dev1"}) }, // authentication failure
		func(c *c03Case) { c03SetOpts(c, []string{"65074:dev3"}) }, // recognised: CPE-ID
	)
	mk("dnscrypt", "dnscrypt", "on",
		func(c *c03Case) {},
		func(c *c03Case) { c03SetOpts(c, []string{"65074:dev1"}) },
	)

	return stacks
}

// c03RaceScenario is one set of concurrent requests on one stack.
type c03RaceScenario struct {
	Stack string `json:"stack"`
	Reqs  []int  `json:"requests"`
}

// c03RaceScenarios enumerates, per stack, every unordered pair of requests
// (incl. a request with itself) and, for the thorough tier, every unordered
// triple over the first three requests of the stack.
func c03RaceScenarios(stacks []c03RaceStack, thorough bool) (scs []c03RaceScenario) {
	for _, st := range stacks {
		n := len(st.reqs)
		for i := 0; i < n; i++ {
			for j := i; j < n; j++ {
				scs = append(scs, c03RaceScenario{Stack: st.name, Reqs: []int{i, j}})
			}
		}
	}
	if !thorough {
		return scs
	}
	for _, st := range stacks {
		n := min(len(st.reqs), 3)
		for i := 0; i < n; i++ {
			for j := i; j < n; j++ {
				for k := j; k < n; k++ {
					scs = append(scs, c03RaceScenario{Stack: st.name, Reqs: []int{i, j, k}})
				}
			}
		}
	}

	return scs
}

// c03RaceRequest returns request ri of the stack as sent by task ti: every
// task asks for its own name, and from its own address unless the address is
// the identifier.
func c03RaceRequest(st c03RaceStack, ri, ti int) (c c03Case) {
	c = st.reqs[ri]
	c.Host = fmt.Sprintf("task%d.example.", ti+1)
	if c.Raddr == "" {
		c.Raddr = fmt.Sprintf("192.0.2.%d:12345", 101+ti)
	}

	return c
}

type c03RaceEnv struct {
	sc    c03RaceScenario
	st    c03RaceStack
	cases []c03Case
	obs   []*c03Obs
}

func c03RaceStackByName(name string) (st c03RaceStack) {
	for _, st = range c03RaceStacks() {
		if st.name == name {
			return st
		}
	}
	vrt.Fatalf("race: no stack %q", name)

	return st
}

func c03RaceSetup(sc c03RaceScenario, s *xsched.Sched) (env *c03RaceEnv) {
	env = &c03RaceEnv{sc: sc, st: c03RaceStackByName(sc.Stack)}
	stack := c03NewStack(env.st.cfg)
	env.cases = make([]c03Case, len(sc.Reqs))
	env.obs = make([]*c03Obs, len(sc.Reqs))
	for ti, ri := range sc.Reqs {
		if ri < 0 || ri >= len(env.st.reqs) {
			vrt.Fatalf("race: bad request index %d", ri)
		}
		env.cases[ti] = c03RaceRequest(env.st, ri, ti)
		s.Go(fmt.Sprintf("T%d", ti+1), func() {
			env.obs[ti] = stack.serve(env.cases[ti])
		})
	}

	return env
}

type c03RaceCase struct {
	Stack   string `json:"stack"`
	Reqs    []int  `json:"requests"`
	Choices []int  `json:"choices"`
}

func c03RaceDescribe(env *c03RaceEnv) (s string) {
	var parts []string
	for ti, c := range env.cases {
		parts = append(parts, fmt.Sprintf("T%d: %s asking %s", ti+1, c03Describe(c), c.Host))
	}

	return strings.Join(parts, "\n     ")
}

func c03RaceCheck(env *c03RaceEnv, x *xsched.Exec) (fs []vrt.Finding) {
	if x.Sched.Panicked != "" {
		return vrt.F("race/panic", "concurrent requests\n     %s\npanicked: %s\nschedule:\n%s", c03RaceDescribe(env), x.Sched.Panicked, x.Sched.Describe())
	}
	if x.Sched.Deadlock || x.Sched.LimitHit {
		return vrt.F("race/deadlock", "concurrent requests\n     %s\nblocked: %v\nschedule:\n%s", c03RaceDescribe(env), x.Sched.Blocked, x.Sched.Describe())
	}
	seen := map[string]bool{}
	add := func(f []vrt.Finding) {
		for _, x := range f {
			// One finding per key per execution is enough.
			if !seen[x.Key] {
				seen[x.Key] = true
				fs = append(fs, x)
			}
		}
	}
	for ti, c := range env.cases {
		o := env.obs[ti]
		if o == nil {
			vrt.Fatalf("race: task %d has no observation", ti+1)
		}
		solo := c03Solo(c)
		if !reflect.DeepEqual(o, solo) {
			key := "race/observation-differs-from-solo"
			switch {
			case o.NextProf != solo.NextProf || o.NextDev != solo.NextDev:
				key = "race/request-sees-another-requests-identity"
			case o.NextRemoteIP != solo.NextRemoteIP || o.NextHost != solo.NextHost:
				key = "race/request-sees-another-requests-address-or-host"
			}
			add(vrt.F(key,
				"request of task T%d is observed as %s while other requests are in flight on the same server, but alone on a fresh stack as %s\nconcurrent requests\n     %s\nschedule:\n%s",
				ti+1, c03ObsString(o), c03ObsString(solo), c03RaceDescribe(env), x.Sched.Describe()))
		}
		for _, f := range c03Oracle(c, o) {
			f.Key = "race/" + f.Key
			f.Detail += fmt.Sprintf("\nconcurrent requests\n     %s\nschedule:\n%s", c03RaceDescribe(env), x.Sched.Describe())
			add([]vrt.Finding{f})
		}
	}

	return fs
}

func TestVerifC03Race(t *testing.T) {
	r := vrt.Start("C03")
	debug.SetGCPercent(-1)
	c03PlainAuth = true
	c03Messages = agdtest.NewConstructor(t)

	stacks := c03RaceStacks()

	// Harness self-check: the solo observations of every alphabet have both
	// recognised and unrecognised requests (except DNSCrypt).
	for _, st := range stacks {
		rec := 0
		for ri := range st.reqs {
			if c03Solo(c03RaceRequest(st, ri, 0)).NextDev != "" {
				rec++
			}
		}
		if st.cfg.Proto != "dnscrypt" && (rec == 0 || rec == len(st.reqs)) {
			vrt.Fatalf("race alphabet of stack %s is one-sided: %d recognised of %d", st.name, rec, len(st.reqs))
		}
	}

	var rc c03RaceCase
	if r.ReplayCase("race", &rc) {
		var env *c03RaceEnv
		x := xsched.Replay(rc.Choices, func(s *xsched.Sched) {
			env = c03RaceSetup(c03RaceScenario{Stack: rc.Stack, Reqs: rc.Reqs}, s)
		})
		r.Eval()
		r.Report("race", rc, c03RaceCheck(env, x))
	}
	if r.ShouldRun() {
		shard, nshards := r.NShards()
		scs := c03RaceScenarios(stacks, r.Thorough())
		r.Bound("race_preemptions", vrt.Pick(r, "2", "pairs: 3, triples: 2"))
		r.Bound("race_scenarios", len(scs))
		nreq := map[string]int{}
		for _, st := range stacks {
			nreq[st.name] = len(st.reqs)
		}
		r.Bound("race_requests_per_stack", nreq)
		execs := 0
		for si, sc := range scs {
			if si%nshards != shard {
				continue
			}
			if r.Expired() {
				r.Note("race exploration stopped by internal deadline before scenario %d of %d", si, len(scs))

				break
			}
			pre := vrt.Pick(r, 2, 3)
			if len(sc.Reqs) > 2 {
				pre = 2
			}
			var env *c03RaceEnv
			// A scenario is explored until it shows the identity finding (or
			// is exhausted); an execution is reported when it shows a key
			// the scenario has not shown yet.
			shown := map[string]bool{}
			st := xsched.Explore(xsched.Config{MaxPreemptions: pre, MaxDeviations: 0, Stop: r.Expired},
				func(s *xsched.Sched) {
					if execs++; execs%2000 == 0 {
						runtime.GC()
					}
					env = c03RaceSetup(sc, s)
				},
				func(x *xsched.Exec) bool {
					r.Eval()
					r.Trans(len(x.Sched.Trace))
					fs := c03RaceCheck(env, x)
					var obs []string
					for ti, o := range env.obs {
						if o != nil {
							obs = append(obs, fmt.Sprintf("T%d:%s", ti+1, c03ObsString(o)))
						}
					}
					r.Class(fmt.Sprintf("race/%s tasks=%d preemptions=%d", sc.Stack, len(sc.Reqs), x.Preemptions))
					if r.State(fmt.Sprintf("race|%s|%v|%v", sc.Stack, sc.Reqs, obs)) {
						r.Sample(map[string]any{"stack": sc.Stack, "requests": sc.Reqs, "observation": obs, "preemptions": x.Preemptions})
					}
					var fresh []vrt.Finding
					for _, f := range fs {
						if !shown[f.Key] {
							shown[f.Key] = true
							fresh = append(fresh, f)
						}
					}
					if len(fresh) > 0 {
						r.Report("race", c03RaceCase{Stack: sc.Stack, Reqs: sc.Reqs, Choices: x.Choices}, fresh)
					}

					return !shown["race/request-sees-another-requests-identity"] && len(shown) < 6
				})
			r.Count("race_scheduling_points", st.Points)
			if st.MaxTrace > 0 {
				r.Count("race_scenarios_explored", 1)
			}
			if st.Stopped {
				r.Note("race scenario %s %v stopped by deadline after %d executions", sc.Stack, sc.Reqs, st.Executions)
			}
		}
	}
	r.Finish()
	os.Exit(0)
}
