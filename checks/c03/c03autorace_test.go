//go:build verif

package zzverifc03

import (
	"context"
	"fmt"
	"os"
	"runtime"
	"runtime/debug"
	"strings"
	"testing"
	"time"

	"github.com/AdguardTeam/AdGuardDNS/internal/agd"
	"github.com/AdguardTeam/AdGuardDNS/internal/agdtest"
	"github.com/AdguardTeam/AdGuardDNS/internal/dnsserver/zzverif/vrt"
	"github.com/AdguardTeam/AdGuardDNS/internal/dnsserver/zzverif/xsched"
	"github.com/AdguardTeam/AdGuardDNS/internal/profiledb"
)

// Schedule exploration (engine XS) of an automatic-device creation that is
// concurrent with a synchronisation of the profile database.
//
// Task A is a request with a not yet known extended human-readable id
// (DoT server name otr-prof1-NewPhone.d.test, or the DoH path form) for a
// profile with automatic devices enabled: the real device finder asks the
// real profiledb.Default, which calls the backend (the scripted storage
// yields inside CreateAutoDevice).  Task B is profiledb.Default.Refresh
// delivering a partial update of that profile: deleted, deleted with an empty
// device list, dev1 detached, or automatic devices switched off.  Thorough
// adds task C, a concurrent request by dev1's own id.  The unit is built with
// an instrumented copy of internal/profiledb/profiledb.go (modelled
// sync.Mutex / RWMutex, a scheduling point before every call-containing
// statement of Refresh, fetchProfiles, setProfiles, setDevices,
// CreateAutoDevice, ProfileByHumanID, ProfileByDeviceID, profileByDeviceID)
// and of devicefinder/device.go (findDevice, deviceFromDB, deviceByExtID,
// newDeviceResult).
//
// Oracle, after everything has finished ("the latest synchronisation wins"):
// requests by dev1's id, by the existing automatic device's extended id, by
// the new device's id, and a second request with the new extended id are
// served on the same stack and judged by the statement oracle c03Oracle for
// the database state the synchronisation delivered: a device of a deleted
// profile is not recognised, a detached device is not recognised.  What task
// A itself observes is not judged (it may legitimately finish before the
// synchronisation).

type c03AutoScenario struct {
	Proto   string `json:"proto"`   // dot, doh
	Variant string `json:"variant"` // deleted, deleted-nodevs, detached, auto-off
	Tasks   int    `json:"tasks"`   // 2, or 3 with the concurrent dev1 request
}

type c03AutoCase struct {
	c03AutoScenario
	Choices []int `json:"choices"`
}

type c03AutoEnv struct {
	sc      c03AutoScenario
	stack   *c03Stack
	cfg     c03Case
	obsA    *c03Obs
	obsC    *c03Obs
	syncErr error
}

// c03AutoRequest returns a request of the scenario's transport that carries
// id (a device id or an extended human-readable id).
func c03AutoRequest(cfg c03Case, id string) (c c03Case) {
	c = cfg
	c.Raddr, c.Laddr = c03RemoteOther+":12345", c03SrvAddr+":53"
	if cfg.Proto == "doh" {
		c.Path = "/dns-query/" + id
	} else {
		c.SNI = id + ".d.test"
	}

	return c
}

func c03AutoSetup(sc c03AutoScenario, s *xsched.Sched) (env *c03AutoEnv) {
	env = &c03AutoEnv{sc: sc}
	c03AutoPending = nil
	env.cfg = c03Case{
		Proto: sc.Proto, Linked: true, Ifaces: true, Domains: []string{"d.test"},
		Auth: "on", DB: "normal", Auto: true,
	}
	env.stack = c03NewStack(env.cfg)

	upd := &profiledb.StorageProfilesResponse{SyncTime: time.Unix(1_000_500, 0)}
	switch sc.Variant {
	case "deleted":
		upd.Profiles = []*agd.Profile{c03Profile(c03Prof1, []agd.DeviceID{c03Dev1, c03Auto1}, true, true)}
	case "deleted-nodevs":
		upd.Profiles = []*agd.Profile{c03Profile(c03Prof1, nil, true, true)}
	case "detached":
		upd.Profiles = []*agd.Profile{c03Profile(c03Prof1, []agd.DeviceID{c03Auto1}, false, true)}
	case "auto-detached":
		upd.Profiles = []*agd.Profile{c03Profile(c03Prof1, []agd.DeviceID{c03Dev1}, false, true)}
	case "auto-off":
		upd.Profiles = []*agd.Profile{c03Profile(c03Prof1, []agd.DeviceID{c03Dev1, c03Auto1}, false, false)}
	default:
		vrt.Fatalf("autorace: bad variant %q", sc.Variant)
	}
	env.stack.st.queue = []*profiledb.StorageProfilesResponse{upd}

	s.Go("A-create", func() {
		env.obsA = env.stack.serveAny(c03AutoRequest(env.cfg, "otr-prof1-NewPhone"))
	})
	s.Go("B-refresh", func() {
		env.syncErr = env.stack.db.Refresh(context.Background())
	})
	if sc.Tasks >= 3 {
		s.Go("C-lookup", func() {
			env.obsC = env.stack.serveAny(c03AutoRequest(env.cfg, c03Dev1))
		})
	}

	return env
}

// c03AutoFinalDB maps the variant to the database state of the oracle.
func c03AutoFinalDB(variant string) (db string) {
	switch variant {
	case "auto-off":
		return "normal"
	default:
		return variant
	}
}

func c03AutoCheck(env *c03AutoEnv, x *xsched.Exec) (fs []vrt.Finding) {
	desc := fmt.Sprintf("%s request otr-prof1-NewPhone (automatic-device creation) concurrent with a partial sync delivering prof1 as %q", env.sc.Proto, env.sc.Variant)
	if x.Sched.Panicked != "" {
		return vrt.F("autorace/panic", "%s\npanicked: %s\nschedule:\n%s", desc, x.Sched.Panicked, x.Sched.Describe())
	}
	if x.Sched.Deadlock || x.Sched.LimitHit {
		return vrt.F("autorace/deadlock", "%s\nblocked: %v\nschedule:\n%s", desc, x.Sched.Blocked, x.Sched.Describe())
	}
	if env.syncErr != nil {
		vrt.Fatalf("autorace: refresh: %v", env.syncErr)
	}
	if env.obsA == nil || len(env.stack.st.queue) != 0 {
		vrt.Fatalf("autorace: tasks did not finish: obsA=%v queue=%d", env.obsA, len(env.stack.st.queue))
	}

	// Everything has finished; the explorer is idle, so the stack runs free.
	c03AutoRunPending()
	created := append([]c03Created(nil), env.stack.st.created...)
	final := env.cfg
	final.DB = c03AutoFinalDB(env.sc.Variant)
	seen := map[string]bool{}
	for _, id := range []string{c03Dev1, c03Auto1, "otr-prof1-MyPhone", c03AutoNew, "otr-prof1-NewPhone", c03Dev1, c03Auto1} {
		c := c03AutoRequest(final, id)
		o := env.stack.serveAny(c)
		c03AutoRunPending()
		// The world of the oracle knows every device the backend created.
		oo := *o
		oo.Created = append(append([]c03Created(nil), created...), o.Created...)
		created = oo.Created
		for _, f := range c03Oracle(c, &oo) {
			f.Key = "autorace/after-sync/" + f.Key
			if seen[f.Key] {
				continue
			}
			seen[f.Key] = true
			f.Detail = fmt.Sprintf("after (%s) had finished, a request by %q on the same server: %s\ntask A observed %s\nschedule:\n%s",
				desc, id, f.Detail, c03ObsString(env.obsA), x.Sched.Describe())
			fs = append(fs, f)
		}
	}

	return fs
}

// c03AutoPending are the clean-up goroutines (`go db.remove…`) that the
// instrumented profile database started while no exploration was running.
// They are run right after the request that started them: left alone they
// would wake up inside the next exploration.
var c03AutoPending []func()

func c03AutoRunPending() {
	for len(c03AutoPending) > 0 {
		f := c03AutoPending[0]
		c03AutoPending = c03AutoPending[1:]
		f()
	}
}

func c03AutoScenarios(thorough bool) (scs []c03AutoScenario) {
	for _, proto := range []string{"dot", "doh"} {
		for _, v := range []string{"deleted", "deleted-nodevs", "detached", "auto-detached", "auto-off"} {
			scs = append(scs, c03AutoScenario{Proto: proto, Variant: v, Tasks: 2})
		}
	}
	if thorough {
		for _, v := range []string{"deleted", "deleted-nodevs", "detached", "auto-detached", "auto-off"} {
			scs = append(scs, c03AutoScenario{Proto: "dot", Variant: v, Tasks: 3})
		}
	}

	return scs
}

func TestVerifC03AutoRace(t *testing.T) {
	r := vrt.Start("C03")
	debug.SetGCPercent(-1)
	c03PlainAuth = true
	c03Messages = agdtest.NewConstructor(t)

	xsched.SpawnHook = func(_ string, f func(), _ []any) { c03AutoPending = append(c03AutoPending, f) }

	var rc c03AutoCase
	if r.ReplayCase("autorace", &rc) {
		var env *c03AutoEnv
		x := xsched.Replay(rc.Choices, func(s *xsched.Sched) { env = c03AutoSetup(rc.c03AutoScenario, s) })
		r.Eval()
		r.Report("autorace", rc, c03AutoCheck(env, x))
	}
	if r.ShouldRun() {
		shard, nshards := r.NShards()
		scs := c03AutoScenarios(r.Thorough())
		r.Bound("autorace_scenarios", len(scs))
		r.Bound("autorace_preemptions", vrt.Pick(r, "2", "two tasks: 3, three tasks: 2"))
		execs := 0
		for si, sc := range scs {
			if si%nshards != shard {
				continue
			}
			if r.Expired() {
				r.Note("autorace exploration stopped by internal deadline before scenario %d of %d", si, len(scs))

				break
			}
			pre := vrt.Pick(r, 2, 3)
			if sc.Tasks > 2 {
				pre = 2
			}
			var env *c03AutoEnv
			shown := map[string]bool{}
			st := xsched.Explore(xsched.Config{MaxPreemptions: pre, MaxDeviations: 0, Stop: r.Expired},
				func(s *xsched.Sched) {
					if execs++; execs%2000 == 0 {
						runtime.GC()
					}
					env = c03AutoSetup(sc, s)
				},
				func(x *xsched.Exec) bool {
					r.Eval()
					r.Trans(len(x.Sched.Trace))
					fs := c03AutoCheck(env, x)
					a := "A:" + env.obsA.Kind
					if strings.HasPrefix(env.obsA.Kind, "ok") {
						a += ":" + env.obsA.Dev
					}
					r.Class(fmt.Sprintf("autorace/%s/%s tasks=%d %s preemptions=%d", sc.Proto, sc.Variant, sc.Tasks, a, x.Preemptions))
					r.State(fmt.Sprintf("autorace|%v|%s|%d", sc, c03ObsString(env.obsA), len(env.stack.st.created)))
					var fresh []vrt.Finding
					for _, f := range fs {
						if !shown[f.Key] {
							shown[f.Key] = true
							fresh = append(fresh, f)
						}
					}
					if len(fresh) > 0 {
						r.Report("autorace", c03AutoCase{c03AutoScenario: sc, Choices: x.Choices}, fresh)
					}

					return len(shown) < 4
				})
			r.Count("autorace_scheduling_points", st.Points)
			r.Count("autorace_schedules", st.Executions)
			if st.Stopped {
				r.Note("autorace scenario %v stopped by deadline after %d executions", sc, st.Executions)
			}
		}
	}
	r.Finish()
	os.Exit(0)
}
