//go:build verif

package profiledb

import (
	"context"
	"errors"

	"github.com/AdguardTeam/AdGuardDNS/internal/profiledb/internal"
)

// Export helpers of the C03 check (overlaid, never part of a normal build).

// verifC03Cache is a file-cache storage that stores nothing and fails on
// demand, as a removed directory, a full disk or a read-only file system
// makes the real one fail.
type verifC03Cache struct {
	fail bool
}

// Load implements the [internal.FileCacheStorage] interface for
// *verifC03Cache.
func (c *verifC03Cache) Load(_ context.Context) (fc *internal.FileCache, err error) {
	return nil, nil
}

// Store implements the [internal.FileCacheStorage] interface for
// *verifC03Cache.
func (c *verifC03Cache) Store(_ context.Context, _ *internal.FileCache) (err error) {
	if c.fail {
		return errors.New("write profilecache.pb: no space left on device")
	}

	return nil
}

// VerifC03FailCacheStore makes the following writes of the file cache fail
// (or succeed again).
func (db *Default) VerifC03FailCacheStore(fail bool) {
	db.refreshMu.Lock()
	defer db.refreshMu.Unlock()

	c, ok := db.cache.(*verifC03Cache)
	if !ok {
		c = &verifC03Cache{}
		db.cache = c
	}
	c.fail = fail
}

// VerifC03ExpireFullSync lets the full-synchronisation interval pass: the
// time of the last full synchronisation is moved back by the interval, so
// that the next Refresh is a full one exactly when it would be after waiting.
func (db *Default) VerifC03ExpireFullSync() {
	db.refreshMu.Lock()
	defer db.refreshMu.Unlock()

	db.lastFullSync = db.lastFullSync.Add(-db.fullSyncIvl)
}
