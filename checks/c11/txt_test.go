//go:build verif

package preservice

// C11, unit B: TXT hash-prefix queries.  Every case is served by the REAL
// preservice middleware over the REAL hashprefix.Matcher and two REAL
// hashprefix.Storage instances (one per safe-browsing suffix, as wired in
// internal/cmd/builder.go) and compared with an independent model: std
// crypto/sha256 over the explicit listed sets and a hand-written prefix
// syntax.

import (
	"context"
	"crypto/sha256"
	"encoding/hex"
	"fmt"
	"log/slog"
	"net"
	"net/url"
	"os"
	"sort"
	"strings"
	"testing"
	"time"

	"github.com/AdguardTeam/AdGuardDNS/internal/agd"
	"github.com/AdguardTeam/AdGuardDNS/internal/agdnet"
	"github.com/AdguardTeam/AdGuardDNS/internal/dnsmsg"
	"github.com/AdguardTeam/AdGuardDNS/internal/dnsserver"
	"github.com/AdguardTeam/AdGuardDNS/internal/dnsserver/zzverif/vrt"
	"github.com/AdguardTeam/AdGuardDNS/internal/filter"
	"github.com/AdguardTeam/AdGuardDNS/internal/filter/hashprefix"
	"github.com/miekg/dns"
)

// c11TXTNames are the candidate list entries of this unit.  a.x.co.uk and
// a.www.www.com share the hash prefix 080b.
var c11TXTNames = []string{"a.com", "a.x.co.uk", "a.www.www.com", "co.uk", "x.b.a.com", "a.github.io"}

// c11TXTTails are the endings of the question name.  The first two are the
// real suffixes; under the others the query is not a hash-prefix query.
var c11TXTTails = []string{
	filter.GeneralTXTSuffix,
	filter.AdultBlockingTXTSuffix,
	".dns.adguard.com",
	".xsb.dns.adguard.com",
	filter.GeneralTXTSuffix + ".example",
}

func c11TXTSum(name string) (h string) {
	sum := sha256.Sum256([]byte(name))

	return hex.EncodeToString(sum[:])
}

// c11TXTRender renders a list; mult is the number of occurrences of each
// listed name.
func c11TXTRender(names []string, mask, render int) (text string, mult int) {
	b := &strings.Builder{}
	if render == 0 {
		for i, n := range names {
			if mask&(1<<i) != 0 {
				b.WriteString(n + "\n")
			}
		}

		return b.String(), 1
	}
	b.WriteString("# header a.com\n\n")
	for i, n := range names {
		if mask&(1<<i) != 0 {
			b.WriteString(n + "\r\n\n" + n + "\n")
		} else {
			b.WriteString("#" + n + "\n")
		}
	}

	return b.String(), 2
}

// c11TXTTokens returns the label alphabet, simplest first.
func c11TXTTokens(thorough bool) (toks []string) {
	hA := c11TXTSum("a.com")
	hB := c11TXTSum("a.x.co.uk")
	hC := c11TXTSum("co.uk")
	toks = []string{
		hA[:4],                  // prefix of a name
		hB[:4],                  // prefix shared by two names
		"0000",                  // prefix of no name
		hA[:8],                  // legacy form, true tail
		hB[:4] + "0000",         // legacy form, tail that is not the hash's
		strings.ToUpper(hA[:4]), // upper case in the question
		c11TXTSum("#a.com")[:4], // prefix of a commented-out line
		hA[:3],                  // 3 characters
		hA[:5],                  // 5 characters
		"ghij",                  // 4, not hex
		"zzzz" + hA[4:8],        // 8, head not hex
		hA[:4] + "zzzz",         // 8, head hex, ignored tail not hex
		hA[:16],                 // 16 characters
	}
	if thorough {
		toks = append(toks,
			hC[:4],
			hC[:8],
			strings.ToUpper(hB[:4])+"0000",
			c11TXTSum("")[:4],
			hA[:1], hA[:2], hA[:6], hA[:7], hA[:9],
			hA[:3]+"g",
			hA[:3]+"-",
			"g"+hA[1:4],
			hA[:32],
		)
	}

	return toks
}

func c11IsHex(s string) bool {
	for i := 0; i < len(s); i++ {
		c := s[i]
		if !(c >= '0' && c <= '9' || c >= 'a' && c <= 'f') {
			return false
		}
	}

	return true
}

// c11ParseLabel is the prefix syntax of the statement: four hex characters, or
// the legacy eight characters of which the first four count.
func c11ParseLabel(l string) (pref string, ok, ambiguous bool) {
	switch len(l) {
	case 4:
		return l, c11IsHex(l), false
	case 8:
		if !c11IsHex(l[:4]) {
			return "", false, false
		}

		// The tail is "truncated"; whether a non-hex tail makes the label
		// malformed is not said: accept both.
		return l[:4], true, !c11IsHex(l[4:])
	default:
		return "", false, false
	}
}

// c11TXTCase is one query against one pair of lists.
type c11TXTCase struct {
	// Mask selects the names listed in the storage of suffix
	// .sb.dns.adguard.com; the storage of .pc.dns.adguard.com gets the
	// complement.
	Mask   int      `json:"mask"`
	Render int      `json:"render"`
	Labels []string `json:"labels"`
	Tail   int      `json:"tail"`
}

type c11TXTRig struct {
	h     dnsserver.Handler
	nextN int
	mult  int
}

var c11TXTMarker = net.IP{203, 0, 113, 77}

func c11NewRig(names []string, mask, render int) (rig *c11TXTRig) {
	rig = &c11TXTRig{}
	full := 1<<len(names) - 1
	sbText, mult := c11TXTRender(names, mask, render)
	pcText, _ := c11TXTRender(names, full&^mask, render)
	rig.mult = mult
	sb, err := hashprefix.NewStorage(sbText)
	if err != nil {
		vrt.Fatalf("NewStorage: %v", err)
	}
	pc, err := hashprefix.NewStorage(pcText)
	if err != nil {
		vrt.Fatalf("NewStorage: %v", err)
	}
	msgs, err := dnsmsg.NewConstructor(&dnsmsg.ConstructorConfig{
		Cloner:       dnsmsg.NewCloner(dnsmsg.EmptyClonerStat{}),
		BlockingMode: &dnsmsg.BlockingModeNullIP{},
		StructuredErrors: &dnsmsg.StructuredDNSErrorsConfig{
			Contact:       []*url.URL{{Scheme: "mailto", Opaque: "support@dns.example"}},
			Justification: "Filtering",
			Organization:  "Verif",
			Enabled:       true,
		},
		FilteredResponseTTL: 10 * time.Second,
		EDEEnabled:          true,
	})
	if err != nil {
		vrt.Fatalf("constructor: %v", err)
	}
	mw := New(&Config{
		Logger:   slog.New(slog.NewTextHandler(os.Stderr, &slog.HandlerOptions{Level: slog.Level(100)})),
		Messages: msgs,
		HashMatcher: hashprefix.NewMatcher(map[string]*hashprefix.Storage{
			filter.GeneralTXTSuffix:       sb,
			filter.AdultBlockingTXTSuffix: pc,
		}),
		Checker: c11Checker{},
	})
	next := dnsserver.HandlerFunc(func(ctx context.Context, rw dnsserver.ResponseWriter, req *dns.Msg) (err error) {
		rig.nextN++
		resp := (&dns.Msg{}).SetReply(req)
		resp.Answer = append(resp.Answer, &dns.A{
			Hdr: dns.RR_Header{Name: req.Question[0].Name, Rrtype: dns.TypeA, Class: dns.ClassINET, Ttl: 77},
			A:   c11TXTMarker,
		})

		return rw.WriteMsg(ctx, req, resp)
	})
	rig.h = mw.Wrap(next)

	return rig
}

// c11Checker is the DNS-check stub; TXT questions never reach it.
type c11Checker struct{}

func (c11Checker) Check(_ context.Context, _ *dns.Msg, _ *agd.RequestInfo) (resp *dns.Msg, err error) {
	return nil, nil
}

func TestVerifC11TXT(t *testing.T) {
	r := vrt.Start("C11")
	nNames := vrt.Pick(r, 4, 6)
	names := c11TXTNames[:nNames]
	toks := c11TXTTokens(r.Thorough())
	maxLabels := 3
	r.Bound("txt_list_names", nNames)
	r.Bound("txt_tokens", len(toks))
	r.Bound("txt_max_prefix_labels", maxLabels)
	r.Bound("txt_tails", len(c11TXTTails))
	if c11TXTSum("a.x.co.uk")[:4] != c11TXTSum("a.www.www.com")[:4] {
		vrt.Fatalf("alphabet: a.x.co.uk and a.www.www.com no longer share a hash prefix")
	}

	rigs := map[[2]int]*c11TXTRig{}
	vrt.Part(r, "txt", func(emit func(c11TXTCase)) {
		for mask := 0; mask < 1<<nNames; mask++ {
			for render := 0; render < 2; render++ {
				for tail := range c11TXTTails {
					// Under a non-suffix the labels do not matter to the
					// statement: two labels are enough there.
					ml := maxLabels
					if tail >= 2 {
						ml = 2
					}
					if tail == 0 {
						// The bare suffix domain itself, no prefix labels.
						emit(c11TXTCase{Mask: mask, Render: render, Labels: nil, Tail: tail})
					}
					vrt.Sequences(len(toks), 1, ml, func(seq []int) {
						labels := make([]string, len(seq))
						for i, k := range seq {
							labels[i] = toks[k]
						}
						emit(c11TXTCase{Mask: mask, Render: render, Labels: labels, Tail: tail})
					})
				}
			}
		}
	}, func(c c11TXTCase) (fs []vrt.Finding) {
		key := [2]int{c.Mask, c.Render}
		rig := rigs[key]
		if rig == nil {
			rig = c11NewRig(names, c.Mask, c.Render)
			rigs[key] = rig
		}
		tail := c11TXTTails[c.Tail]
		qname := strings.Join(c.Labels, ".") + tail + "."
		if len(c.Labels) == 0 {
			qname = strings.TrimPrefix(qname, ".")
		}
		req := &dns.Msg{}
		req.Id = 4321
		req.RecursionDesired = true
		req.Question = []dns.Question{{Name: qname, Qtype: dns.TypeTXT, Qclass: dns.ClassINET}}
		// The request information exactly as ratelimitmw.newRequestInfo
		// derives it from the question.
		ri := &agd.RequestInfo{
			Host:   agdnet.NormalizeDomain(qname),
			QType:  dns.TypeTXT,
			QClass: dns.ClassINET,
		}
		ctx := agd.ContextWithRequestInfo(context.Background(), ri)
		rw := dnsserver.NewNonWriterResponseWriter(
			&net.TCPAddr{IP: net.IP{192, 0, 2, 1}, Port: 53},
			&net.TCPAddr{IP: net.IP{192, 0, 2, 2}, Port: 12345},
		)
		rig.nextN = 0
		var err error
		if p := vrt.Catch(func() { err = rig.h.ServeDNS(ctx, rw, req) }); p != "" {
			return vrt.F("txt/panic", "TXT %s: panic: %s", qname, p)
		}
		r.Trans(1)
		resp := rw.Msg()
		desc := func() string {
			return fmt.Sprintf("TXT %s (sb list %v, pc list %v, rendering %d)", qname,
				c11Sel(names, c.Mask), c11Sel(names, (1<<len(names)-1)&^c.Mask), c.Render)
		}
		if err != nil {
			return vrt.F("txt/error", "%s: %v", desc(), err)
		}
		if resp == nil {
			return vrt.F("txt/no-response", "%s: nothing written", desc())
		}
		var got []string
		marker := false
		for _, rr := range resp.Answer {
			switch rr := rr.(type) {
			case *dns.TXT:
				got = append(got, rr.Txt...)
			case *dns.A:
				marker = marker || rr.A.Equal(c11TXTMarker)
			}
		}
		forwarded := rig.nextN > 0
		refused := resp.Rcode == dns.RcodeRefused && len(resp.Answer) == 0

		if len(c.Labels) == 0 {
			// The statement is silent about the suffix domain itself.
			r.Class("bare-suffix/" + c11Outcome(forwarded, refused, got))

			return nil
		}
		if c.Tail >= 2 {
			// Not under a safe-browsing suffix: not a hash-prefix query.
			r.Class("not-under-suffix/" + c11Outcome(forwarded, refused, got))
			r.State(fmt.Sprintf("txt|pass|%d|%v|%v", c.Tail, forwarded, marker))
			if rig.nextN != 1 || !marker || len(got) > 0 {
				return vrt.F("txt/non-suffix-not-passed-through",
					"%s: not under a safe-browsing suffix, but next was called %d time(s) and the response is\n%s", desc(), rig.nextN, resp)
			}

			return nil
		}

		// Model.
		listMask := c.Mask
		if c.Tail == 1 {
			listMask = (1<<len(names) - 1) &^ c.Mask
		}
		malformed, ambiguous := false, false
		prefs := map[string]bool{}
		for _, l := range strings.Split(strings.TrimSuffix(ri.Host, tail), ".") {
			p, ok, amb := c11ParseLabel(l)
			if !ok {
				malformed = true

				continue
			}
			ambiguous = ambiguous || amb
			prefs[p] = true
		}
		want := map[string]string{}
		for i, n := range names {
			if h := c11TXTSum(n); listMask&(1<<i) != 0 && prefs[h[:4]] {
				want[h] = n
			}
		}

		kind := "valid"
		if malformed {
			kind = "malformed"
		} else if ambiguous {
			kind = "legacy-nonhex-tail"
		}
		r.Class(kind + "/" + c11Outcome(forwarded, refused, got))
		sort.Strings(got)
		r.State(fmt.Sprintf("txt|%s|%d|%d|%v|%v|%s", kind, c.Tail, listMask, forwarded, refused, strings.Join(got, ",")))

		if forwarded {
			if malformed {
				return vrt.F("txt/malformed-forwarded", "%s: malformed prefix, but the query was forwarded to the next handler", desc())
			}

			return vrt.F("txt/hash-query-forwarded", "%s: a hash-prefix query was forwarded to the next handler", desc())
		}
		if malformed {
			if !refused {
				return vrt.F("txt/malformed-not-refused", "%s: malformed prefix, want REFUSED without answers, got\n%s", desc(), resp)
			}

			return nil
		}
		if ambiguous && refused {
			return nil
		}
		if refused {
			return vrt.F("txt/valid-refused", "%s: well-formed prefixes were refused", desc())
		}
		cnt := map[string]int{}
		for _, h := range got {
			cnt[h]++
		}
		for _, h := range got {
			n, ok := want[h]
			switch {
			case !ok:
				fs = append(fs, vrt.F("txt/hashes-extra", "%s: answer contains %q, which is not the SHA-256 of a listed name starting with a requested prefix; want %v", desc(), h, want)...)
			case cnt[h] > rig.mult:
				fs = append(fs, vrt.F("txt/hashes-duplicated", "%s: answer contains the hash of %q %d times; it is listed %d time(s)", desc(), n, cnt[h], rig.mult)...)
			}
			if len(fs) > 0 {
				return fs
			}
		}
		var missing []string
		for h, n := range want {
			if cnt[h] == 0 {
				missing = append(missing, n)
			}
		}
		if len(missing) > 0 {
			sort.Strings(missing)

			return vrt.F("txt/hashes-missing", "%s: answer %v lacks the hashes of listed %v", desc(), got, missing)
		}

		return nil
	})

	r.Finish()
	os.Exit(0)
}

func c11Sel(names []string, mask int) (sel []string) {
	for i, n := range names {
		if mask&(1<<i) != 0 {
			sel = append(sel, n)
		}
	}

	return sel
}

func c11Outcome(forwarded, refused bool, got []string) string {
	switch {
	case forwarded:
		return "forwarded"
	case refused:
		return "refused"
	case len(got) == 0:
		return "answered-0"
	case len(got) == 1:
		return "answered-1"
	default:
		return "answered-many"
	}
}
