//go:build verif

package hashprefix

import (
	"crypto/sha256"
	"encoding/hex"
	"fmt"
	"os"
	"sort"
	"strings"
	"testing"

	"github.com/AdguardTeam/AdGuardDNS/internal/dnsserver/zzverif/vrt"
	"github.com/AdguardTeam/AdGuardDNS/internal/dnsserver/zzverif/xsched"
)

// A lookup that runs while the list is being replaced must answer from one
// complete list version: exactly the hashes of the old list or exactly those
// of the new one.

type c11rScenario struct {
	Name string `json:"name"`
	A, B string
}

var c11rScenarios = []c11rScenario{
	{Name: "grow", A: "a.com\n", B: "a.com\nb.com\nc.com\nd.com\n"},
	{Name: "shrink", A: "a.com\nb.com\nc.com\nd.com\n", B: "c.com\n"},
	{Name: "disjoint", A: "a.com\nb.com\n", B: "c.com\nd.com\n"},
}

func c11rExpected(list string, prefs []Prefix) string {
	var out []string
	for _, h := range strings.Fields(list) {
		sum := sha256.Sum256([]byte(h))
		for _, p := range prefs {
			if Prefix(sum[:PrefixLen]) == p {
				out = append(out, hex.EncodeToString(sum[:]))
			}
		}
	}
	sort.Strings(out)

	return strings.Join(out, ",")
}

type c11rEnv struct {
	sc      c11rScenario
	prefs   []Prefix
	hashes  string
	matches []bool
	panicked string
}

func c11rSetup(sc c11rScenario, s *xsched.Sched) *c11rEnv {
	env := &c11rEnv{sc: sc}
	seen := map[Prefix]bool{}
	for _, h := range strings.Fields(sc.A + sc.B) {
		sum := sha256.Sum256([]byte(h))
		p := Prefix(sum[:PrefixLen])
		if !seen[p] {
			seen[p] = true
			env.prefs = append(env.prefs, p)
		}
	}
	strg, err := NewStorage(sc.A)
	if err != nil {
		vrt.Fatalf("storage: %v", err)
	}
	s.Go("H", func() {
		env.panicked = vrt.Catch(func() {
			hs := strg.Hashes(env.prefs)
			sort.Strings(hs)
			env.hashes = strings.Join(hs, ",")
		})
	})
	s.Go("M", func() {
		for _, h := range []string{"a.com", "c.com"} {
			env.matches = append(env.matches, strg.Matches(h))
		}
	})
	s.Go("R", func() {
		if _, rerr := strg.Reset(sc.B); rerr != nil {
			vrt.Fatalf("reset: %v", rerr)
		}
	})

	return env
}

type c11rCase struct {
	Scenario int   `json:"scenario"`
	Choices  []int `json:"choices"`
}

func c11rCheck(env *c11rEnv, x *xsched.Exec) []vrt.Finding {
	if x.Sched.Panicked != "" || env.panicked != "" {
		return vrt.F("reset-race/lookup-panics", "scenario %s: hash lookup during a list reset panicked: %s %s\nschedule:\n%s", env.sc.Name, env.panicked, x.Sched.Panicked, x.Sched.Describe())
	}
	if x.Sched.Deadlock {
		return vrt.F("reset-race/deadlock", "blocked: %v", x.Sched.Blocked)
	}
	wa, wb := c11rExpected(env.sc.A, env.prefs), c11rExpected(env.sc.B, env.prefs)
	if env.hashes != wa && env.hashes != wb {
		return vrt.F("reset-race/hashes-of-no-list-version", "scenario %s: hash lookup during a list reset returned\n   %s\nwhich is neither the old list's\n   %s\nnor the new list's\n   %s\nschedule:\n%s", env.sc.Name, env.hashes, wa, wb, x.Sched.Describe())
	}

	return nil
}

func TestVerifC11ResetRace(t *testing.T) {
	// The unit also serves C13 (during an update a hash list serves its
	// previous or its new complete content): the driver then sets VERIF_PROP.
	prop := "C11"
	if p := os.Getenv("VERIF_PROP"); p != "" {
		prop = p
	}
	r := vrt.Start(prop)
	var rc c11rCase
	if r.ReplayCase("reset-race", &rc) {
		var env *c11rEnv
		x := xsched.Replay(rc.Choices, func(s *xsched.Sched) { env = c11rSetup(c11rScenarios[rc.Scenario], s) })
		r.Eval()
		r.Report("reset-race", rc, c11rCheck(env, x))
	}
	if r.ShouldRun() {
		shard, nshards := r.NShards()
		pre := vrt.Pick(r, 3, -1)
		r.Bound("reset_race_preemptions", vrt.Pick(r, "3", "unbounded"))
		for si, sc := range c11rScenarios {
			if si%nshards != shard {
				continue
			}
			var env *c11rEnv
			found := 0
			st := xsched.Explore(xsched.Config{MaxPreemptions: pre, MaxDeviations: 0, Stop: r.Expired},
				func(s *xsched.Sched) { env = c11rSetup(sc, s) },
				func(x *xsched.Exec) bool {
					r.Eval()
					r.Trans(len(x.Sched.Trace))
					fs := c11rCheck(env, x)
					obs := fmt.Sprintf("race %s hashes=%s matches=%v", sc.Name, vrt.Hash(env.hashes), env.matches)
					r.Class("reset-race " + sc.Name)
					if r.State(obs) {
						r.Sample(map[string]any{"scenario": sc.Name, "hashes": env.hashes, "matches": env.matches})
					}
					if len(fs) > 0 {
						r.Report("reset-race", c11rCase{Scenario: si, Choices: x.Choices}, fs)
						found++
					}

					return found < 1
				})
			if st.Stopped {
				r.Note("reset race %s stopped by deadline after %d executions", sc.Name, st.Executions)
			}
		}
	}
	r.Finish()
	os.Exit(0)
}
