//go:build verif

package hashprefix

// C11, unit A: host lookups.  Every case drives the REAL hashprefix.Storage
// (NewStorage / Reset / Matches / Hashes) and the REAL hashprefix.Filter
// (NewFilter / FilterRequest / Refresh) and compares the verdict with an
// independent model: std crypto/sha256 over an explicit set of listed names,
// and a hand-written public-suffix table for the alphabet (cross-checked once
// per process against golang.org/x/net/publicsuffix, which the repository
// already depends on).

import (
	"context"
	"crypto/sha256"
	"encoding/hex"
	"fmt"
	"log/slog"
	"net/url"
	"os"
	"path/filepath"
	"slices"
	"sort"
	"strings"
	"syscall"
	"testing"
	"time"

	"github.com/AdguardTeam/AdGuardDNS/internal/agdcache"
	"github.com/AdguardTeam/AdGuardDNS/internal/dnsmsg"
	"github.com/AdguardTeam/AdGuardDNS/internal/dnsserver/zzverif/vrt"
	"github.com/AdguardTeam/AdGuardDNS/internal/filter/internal"
	"github.com/miekg/dns"
	"golang.org/x/net/publicsuffix"
)

// ---------------------------------------------------------------------------
// Alphabet

// c11Pool is the label pool of the host universe.
var c11Pool = []string{"a", "b", "www", "x"}

// c11Suffixes are the endings of the host universe: an ICANN TLD, an ICANN
// two-label suffix and its own TLD, a TLD unknown to the PSL, and a private
// PSL suffix.
var c11Suffixes = []string{"com", "co.uk", "uk", "test", "github.io"}

// c11Rules is the hand-written public-suffix table sufficient for the
// universe: rule -> is it in the ICANN section.  Names with no matching rule
// fall under the PSL default rule "*" (last label, not ICANN).
var c11Rules = map[string]bool{
	"com":       true,
	"uk":        true,
	"co.uk":     true,
	"io":        true,
	"github.io": false,
}

// c11Names are the candidate list entries; a list is a subset of a prefix of
// this slice (6 names in the quick tier, 8 in the thorough tier).
//
//	a.com          two labels under an ICANN TLD
//	x.b.a.com      exactly four labels
//	www.x.b.a.com  five labels: never a parent "of up to four labels"
//	co.uk          an ICANN public suffix: must not block anything below it
//	a.x.co.uk      \ SHA-256 of these two names starts with the same two
//	a.www.www.com  / bytes (080b): same bucket of Storage.hashSuffixes
//	a.github.io    below a private PSL suffix
//	github.io      a private PSL suffix itself
var c11Names = []string{
	"a.com",
	"x.b.a.com",
	"www.x.b.a.com",
	"co.uk",
	"a.x.co.uk",
	"a.www.www.com",
	"a.github.io",
	"github.io",
}

// c11QTypes are the question types; only the first three may be filtered.
var c11QTypes = []uint16{
	dns.TypeA, dns.TypeAAAA, dns.TypeHTTPS,
	dns.TypeTXT, dns.TypeCNAME, dns.TypeSVCB, dns.TypeANY,
	// Types that differ from the filterable ones in the high octet only.
	dns.TypeCAA, dns.TypeAAAA + 256, dns.TypeHTTPS + 256,
}

// c11IDs are the three hash-prefix filters of the statement ("dangerous,
// adult or newly registered").
var c11IDs = []internal.ID{internal.IDSafeBrowsing, internal.IDAdultBlocking, internal.IDNewRegDomains}

// c11Repls are the replacement settings: an IP (modified response) and a
// host (modified request).
var c11Repls = []string{"192.0.2.1", "repl.example"}

// c11Renders are the names of the list renderings, see [c11Render].
var c11Renders = []string{"plain", "nofinalnl", "crlf", "messy", "dupblank"}

// c11Render renders the list selected by mask over names.  mult is how many
// times each listed name occurs in text.
func c11Render(names []string, mask, render int) (text string, mult int) {
	var listed, unlisted []string
	for i, n := range names {
		if mask&(1<<i) != 0 {
			listed = append(listed, n)
		} else {
			unlisted = append(unlisted, n)
		}
	}
	b := &strings.Builder{}
	switch c11Renders[render] {
	case "plain":
		for _, n := range listed {
			b.WriteString(n + "\n")
		}

		return b.String(), 1
	case "nofinalnl":
		return strings.Join(listed, "\n"), 1
	case "crlf":
		for _, n := range listed {
			b.WriteString(n + "\r\n")
		}

		return b.String(), 1
	case "messy":
		// Comments (also commented-out names), blank lines, duplicates.
		b.WriteString("# header a.com\n#\n\n")
		for i, n := range names {
			if mask&(1<<i) != 0 {
				b.WriteString(n + "\n")
			} else {
				b.WriteString("#" + n + "\n")
			}
		}
		b.WriteString("\n# duplicates\n")
		for i := len(listed) - 1; i >= 0; i-- {
			b.WriteString(listed[i] + "\n")
		}
		b.WriteString("\n\n")

		return b.String(), 2
	case "dupblank":
		b.WriteString("\n\n")
		for _, n := range listed {
			b.WriteString(n + "\n\n" + n + "\r\n")
		}
		for _, n := range unlisted {
			b.WriteString("# " + n + "\n")
		}

		return b.String(), 2
	}
	panic("bad render")
}

// c11Junk are strings that are never listed: texts of comment lines, the
// empty line, names with line-ending residue.
func c11Junk(names []string) (junk []string) {
	junk = []string{"", "#", "# header a.com", "# duplicates", "\r", "0000"}
	for _, n := range names {
		junk = append(junk, "#"+n, "# "+n, n+"\r", n+".")
	}

	return junk
}

// c11Hosts enumerates the host universe: every suffix alone and every name of
// 1..maxLabels pool labels followed by a suffix, shortest first.
func c11Hosts(maxLabels int, f func(host string)) {
	for _, s := range c11Suffixes {
		f(s)
	}
	vrt.Sequences(len(c11Pool), 1, maxLabels, func(seq []int) {
		parts := make([]string, len(seq)+1)
		for i, p := range seq {
			parts[i] = c11Pool[p]
		}
		for _, s := range c11Suffixes {
			parts[len(seq)] = s
			f(strings.Join(parts, "."))
		}
	})
}

// ---------------------------------------------------------------------------
// Reference model

// c11PublicSuffix is the PSL algorithm over [c11Rules].
func c11PublicSuffix(host string) (suffix string, icann bool) {
	labels := strings.Split(host, ".")
	for i := range labels {
		s := strings.Join(labels[i:], ".")
		if ic, ok := c11Rules[s]; ok {
			return s, ic
		}
	}

	return labels[len(labels)-1], false
}

// Candidate classes of a dot-suffix of a host.
const (
	c11None      = iota // not a parent the statement speaks about
	c11Definite         // the host or a parent of <= 4 labels, longer than the public suffix
	c11Ambiguous        // the statement can be read both ways
)

// c11Classify classifies the dot-suffix of host that starts at label i.
//
// Definite: at most four labels and strictly longer than the public suffix.
//
// Ambiguous (either verdict accepted): (1) the host itself when it is not
// definite - "the host itself OR one of its parent domains (up to four
// labels, excluding the public suffix)" can be read with the parenthesis
// applying to parents only; (2) names at or above a public suffix that is
// not in the ICANN section (private suffixes such as github.io, TLDs unknown
// to the PSL): the repository deliberately checks "the full private domain
// space" there and the statement does not say which PSL section it means.
//
// None: longer than four labels; an ICANN public suffix or one of its parents.
func c11Classify(labels []string, i, psLabels int, icann bool) (class int) {
	n := len(labels) - i
	switch {
	case n <= 4 && n > psLabels:
		return c11Definite
	case i == 0:
		return c11Ambiguous
	case n > 4:
		return c11None
	case !icann:
		return c11Ambiguous
	default:
		return c11None
	}
}

// c11Expect returns whether host must be matched by a list with the given
// names (must), and whether a match is acceptable (may).  why names the
// listed name that decided.
func c11Expect(host string, listed map[string]bool) (must, may bool, why string) {
	labels := strings.Split(host, ".")
	ps, icann := c11PublicSuffix(host)
	psLabels := strings.Count(ps, ".") + 1
	for i := range labels {
		s := strings.Join(labels[i:], ".")
		if !listed[s] {
			continue
		}
		switch c11Classify(labels, i, psLabels, icann) {
		case c11Definite:
			return true, true, s
		case c11Ambiguous:
			may, why = true, s
		}
	}

	return false, may, why
}

// c11Relation describes, for finding keys, how the listed names relate to
// host when the verdict is wrong.
func c11Relation(host string, listed map[string]bool) (rel string) {
	labels := strings.Split(host, ".")
	ps, _ := c11PublicSuffix(host)
	psLabels := strings.Count(ps, ".") + 1
	rel = "no-listed-parent"
	for i := range labels {
		s := strings.Join(labels[i:], ".")
		if !listed[s] {
			continue
		}
		n := len(labels) - i
		switch {
		case n <= psLabels:
			return "public-suffix-listed"
		case n > 4:
			rel = "listed-parent-longer-than-four-labels"
		default:
			return fmt.Sprintf("listed-parent-of-%d-labels", n)
		}
	}

	return rel
}

// c11Sum is the reference hash.
func c11Sum(name string) (h string) {
	sum := sha256.Sum256([]byte(name))

	return hex.EncodeToString(sum[:])
}

// c11CheckPSL cross-checks the hand-written table with the PSL the repository
// is built with.  A mismatch means the alphabet no longer exercises what it is
// meant to: a harness error, not a verdict.
func c11CheckPSL(maxLabels int) {
	c11Hosts(maxLabels, func(host string) {
		ps, icann := c11PublicSuffix(host)
		ps2, icann2 := publicsuffix.PublicSuffix(host)
		if ps != ps2 || icann != icann2 {
			vrt.Fatalf("psl table: %q: table says (%q, %v), x/net/publicsuffix says (%q, %v)", host, ps, icann, ps2, icann2)
		}
	})
	if c11Sum("a.x.co.uk")[:4] != c11Sum("a.www.www.com")[:4] {
		vrt.Fatalf("alphabet: a.x.co.uk and a.www.www.com no longer share a hash prefix")
	}
}

// ---------------------------------------------------------------------------
// Driving the real code

type c11ErrColl struct{ errs []error }

func (c *c11ErrColl) Collect(_ context.Context, err error) { c.errs = append(c.errs, err) }

var (
	c11Logger = slog.New(slog.NewTextHandler(os.Stderr, &slog.HandlerOptions{Level: slog.Level(100)}))
	c11Cloner = dnsmsg.NewCloner(dnsmsg.EmptyClonerStat{})
	c11Msgs   *dnsmsg.Constructor
)

func c11Init() {
	var err error
	c11Msgs, err = dnsmsg.NewConstructor(&dnsmsg.ConstructorConfig{
		Cloner:       c11Cloner,
		BlockingMode: &dnsmsg.BlockingModeNullIP{},
		StructuredErrors: &dnsmsg.StructuredDNSErrorsConfig{
			Contact:       []*url.URL{{Scheme: "mailto", Opaque: "support@dns.example"}},
			Justification: "Filtering",
			Organization:  "Verif",
			Enabled:       true,
		},
		FilteredResponseTTL: 10 * time.Second,
		EDEEnabled:          true,
	})
	if err != nil {
		vrt.Fatalf("constructor: %v", err)
	}
}

// c11NewFilter builds a fresh real filter over strg.  The result cache is
// fresh too, so no lookup of a case is ever served from it (C12's subject).
func c11NewFilter(strg *Storage, id internal.ID, repl, file string) (f *Filter) {
	return c11NewFilterN(strg, id, repl, file, 16)
}

// c11NewFilterN is [c11NewFilter] with a result cache of count items.
func c11NewFilterN(strg *Storage, id internal.ID, repl, file string, count int) (f *Filter) {
	f, err := NewFilter(&FilterConfig{
		Logger:          c11Logger,
		Cloner:          c11Cloner,
		CacheManager:    agdcache.EmptyManager{},
		Hashes:          strg,
		URL:             &url.URL{Scheme: "file", Path: file},
		ErrColl:         &c11ErrColl{},
		Metrics:         internal.EmptyMetrics{},
		ID:              id,
		CachePath:       file,
		ReplacementHost: repl,
		Staleness:       time.Hour,
		CacheTTL:        time.Hour,
		RefreshTimeout:  time.Second,
		CacheCount:      count,
		MaxSize:         1 << 20,
	})
	if err != nil {
		vrt.Fatalf("NewFilter: %v", err)
	}

	return f
}

// c11Lookup asks the real filter once.  matched is whether the host was
// treated as listed; rule is the name the filter says it matched.
func c11Lookup(f *Filter, host string, qt uint16) (matched bool, rule string, fs []vrt.Finding) {
	req := &dns.Msg{}
	req.Id = 4321
	req.RecursionDesired = true
	req.Question = []dns.Question{{Name: dns.Fqdn(host), Qtype: qt, Qclass: dns.ClassINET}}
	var res internal.Result
	var err error
	if p := vrt.Catch(func() {
		res, err = f.FilterRequest(context.Background(), &internal.Request{
			DNS:      req,
			Messages: c11Msgs,
			Host:     host,
			QType:    qt,
			QClass:   dns.ClassINET,
		})
	}); p != "" {
		return false, "", vrt.F("filter/panic", "FilterRequest(%q, %s) panicked: %s", host, dns.Type(qt), p)
	}
	if err != nil {
		return false, "", vrt.F("filter/error", "FilterRequest(%q, %s): %v", host, dns.Type(qt), err)
	}
	if res == nil {
		return false, "", nil
	}
	id, text := res.MatchedRule()
	if id != f.id {
		fs = vrt.F("filter/wrong-list-id", "FilterRequest(%q, %s) of filter %q reports list %q", host, dns.Type(qt), f.id, id)
	}

	return true, string(text), fs
}

func c11Filterable(qt uint16) bool {
	return qt == dns.TypeA || qt == dns.TypeAAAA || qt == dns.TypeHTTPS
}

// c11CheckHost asks f about host for every question type and compares with
// the model.  vec is the verdict vector for state digests.
func c11CheckHost(r *vrt.Run, f *Filter, host string, qtypes []uint16, listed map[string]bool, ctxt func() string) (fs []vrt.Finding, vec string) {
	must, may, why := c11Expect(host, listed)
	v := make([]byte, len(qtypes))
	for i, qt := range qtypes {
		matched, rule, lfs := c11Lookup(f, host, qt)
		r.Trans(1)
		fs = append(fs, lfs...)
		v[i] = '-'
		if matched {
			v[i] = '+'
		}
		switch {
		case !c11Filterable(qt):
			if matched {
				fs = append(fs, vrt.F("filter/filtered-other-qtype",
					"%s: %s question for %q was filtered (rule %q); only A, AAAA and HTTPS questions may be", ctxt(), dns.Type(qt), host, rule)...)
			}
		case must && !matched:
			fs = append(fs, vrt.F("filter/missed-listed-host:"+c11Relation(host, listed),
				"%s: %s %q not matched although %q is listed", ctxt(), dns.Type(qt), host, why)...)
		case !may && matched:
			fs = append(fs, vrt.F("filter/matched-unlisted-host:"+c11Relation(host, listed),
				"%s: %s %q matched (rule %q) although neither it nor a parent of up to four labels above the public suffix is listed", ctxt(), dns.Type(qt), host, rule)...)
		}
	}
	oc := "mustnot"
	if must {
		oc = "must"
	} else if may {
		oc = "either"
	}
	vec = string(v)
	r.Class(oc + "/" + vec)

	return fs, vec
}

func c11Listed(names []string, mask int) (listed map[string]bool) {
	listed = map[string]bool{}
	for i, n := range names {
		if mask&(1<<i) != 0 {
			listed[n] = true
		}
	}

	return listed
}

// c11CheckStorage probes the real storage with every string of probes and
// every prefix of prefs and compares with the listed set.  mult is the
// number of occurrences of each listed name in the text.
func c11CheckStorage(r *vrt.Run, s *Storage, listed map[string]bool, mult int, probes []string, prefs []Prefix, ctxt string) (fs []vrt.Finding, digest string) {
	nm := 0
	for _, p := range probes {
		got := s.Matches(p)
		r.Trans(1)
		if got {
			nm++
		}
		if got && !listed[p] {
			fs = append(fs, vrt.F("storage/matches-unlisted", "%s: Matches(%q) is true, listed: %v", ctxt, p, c11Keys(listed))...)
		} else if !got && listed[p] {
			fs = append(fs, vrt.F("storage/misses-listed", "%s: Matches(%q) is false, listed: %v", ctxt, p, c11Keys(listed))...)
		}
	}
	check := func(ps []Prefix) {
		got := s.Hashes(ps)
		r.Trans(1)
		fs = append(fs, c11CompareHashes("storage", ctxt, got, ps, listed, mult)...)
	}
	for _, p := range prefs {
		check([]Prefix{p})
	}
	check(prefs)
	check(nil)

	return fs, fmt.Sprintf("%d/%d", nm, len(s.Hashes(prefs)))
}

// c11CompareHashes compares the hashes returned for prefixes ps with the
// model: exactly the SHA-256 of every listed name that starts with one of the
// prefixes; each at least once and at most as often as the name is listed.
func c11CompareHashes(comp, ctxt string, got []string, ps []Prefix, listed map[string]bool, mult int) (fs []vrt.Finding) {
	want := map[string]string{}
	for n := range listed {
		h := c11Sum(n)
		for _, p := range ps {
			if h[:4] == hex.EncodeToString(p[:]) {
				want[h] = n
			}
		}
	}
	cnt := map[string]int{}
	for _, h := range got {
		cnt[h]++
	}
	for _, h := range c11SortedKeys(cnt) {
		n, ok := want[h]
		switch {
		case !ok:
			fs = append(fs, vrt.F(comp+"/hashes-extra", "%s: prefixes %x returned %q, which is not the hash of a listed name with such a prefix; listed: %v", ctxt, ps, h, c11Keys(listed))...)
		case cnt[h] > mult:
			fs = append(fs, vrt.F(comp+"/hashes-duplicated", "%s: prefixes %x returned the hash of %q %d times; it is listed %d time(s)", ctxt, ps, n, cnt[h], mult)...)
		}
	}
	for _, h := range c11SortedStrKeys(want) {
		if cnt[h] == 0 {
			fs = append(fs, vrt.F(comp+"/hashes-missing", "%s: prefixes %x did not return the hash of listed %q (%s)", ctxt, ps, want[h], h)...)
		}
	}

	return fs
}

func c11Keys(m map[string]bool) (ks []string) {
	for k := range m {
		ks = append(ks, k)
	}
	sort.Strings(ks)

	return ks
}

func c11SortedKeys(m map[string]int) (ks []string) {
	for k := range m {
		ks = append(ks, k)
	}
	sort.Strings(ks)

	return ks
}

func c11SortedStrKeys(m map[string]string) (ks []string) {
	for k := range m {
		ks = append(ks, k)
	}
	sort.Strings(ks)

	return ks
}

func c11Prefix(s string) (p Prefix) {
	sum := sha256.Sum256([]byte(s))

	return Prefix(sum[:PrefixLen])
}

// c11CPUms returns the CPU time consumed by the process so far; recorded per
// part because wall time on a shared machine says little.
func c11CPUms() (ms int) {
	var ru syscall.Rusage
	_ = syscall.Getrusage(syscall.RUSAGE_SELF, &ru)

	return int(ru.Utime.Sec+ru.Stime.Sec)*1000 + int(ru.Utime.Usec+ru.Stime.Usec)/1000
}

// ---------------------------------------------------------------------------
// Cases

// c11StorageCase: one list text given to the real storage.
type c11StorageCase struct {
	Mask   int    `json:"mask"`
	Render int    `json:"render"`
	Ctor   string `json:"ctor"` // "new": NewStorage(text); "reset": NewStorage("") then Reset(text)
}

// c11SingleCase: a list made of exactly one dot-suffix of the host.
type c11SingleCase struct {
	Host string `json:"host"`
	From int    `json:"from"` // the list is the suffix of Host starting at this label
	ID   int    `json:"id"`
	Repl int    `json:"repl"`
}

// c11SubsetCase: a list that is a subset of the candidate names.
type c11SubsetCase struct {
	Mask   int    `json:"mask"`
	Render int    `json:"render"`
	Host   string `json:"host"`
	ID     int    `json:"id"`
	Repl   int    `json:"repl"`
}

// c11Step is one list version.
type c11Step struct {
	Mask   int `json:"mask"`
	Render int `json:"render"`
}

// c11ResetCase: a history of list versions; the first is given to NewStorage,
// the others to Reset (Via "storage") or all are loaded by the real
// Filter.RefreshInitial / Filter.Refresh from a file (Via "refresh").
type c11ResetCase struct {
	Via   string    `json:"via"`
	Steps []c11Step `json:"steps"`
}

// c11FailStep is one document given to Reset / Refresh in a "failedresets"
// history.  Bad == "" is a well-formed list (messy rendering); otherwise the
// document is the plain rendering of Mask with ONE line longer than
// bufio.Scanner's 64 KiB token limit at position Bad: "begin", "middle"
// (between the host lines), "end", or "endnonl" (last line, no final newline).
type c11FailStep struct {
	Mask int    `json:"mask"`
	Bad  string `json:"bad,omitempty"`
}

// c11FailCase: a history of documents of which some cannot be scanned.
type c11FailCase struct {
	Via   string        `json:"via"` // "storage": Storage.Reset; "refresh": Filter.RefreshInitial / Refresh from a file
	Steps []c11FailStep `json:"steps"`
}

// c11FailNames are the list candidates of the "failedresets" part; the last
// two share a bucket of Storage.hashSuffixes.
var c11FailNames = []string{"a.com", "x.b.a.com", "a.x.co.uk", "a.www.www.com"}

// c11BadPositions are the positions of the over-long line.
var c11BadPositions = []string{"begin", "middle", "end", "endnonl"}

// c11LongLine is longer than bufio.MaxScanTokenSize.
var c11LongLine = strings.Repeat("a", 70000)

// c11FailDoc renders the document of a step.  mult is the multiplicity of
// every listed name in a well-formed document.
func c11FailDoc(names []string, st c11FailStep) (text string, mult int) {
	if st.Bad == "" {
		return c11Render(names, st.Mask, 3)
	}
	var lines []string
	for i, n := range names {
		if st.Mask&(1<<i) != 0 {
			lines = append(lines, n)
		}
	}
	at := len(lines)
	switch st.Bad {
	case "begin":
		at = 0
	case "middle":
		at = (len(lines) + 1) / 2
	}
	lines = slices.Insert(lines, at, c11LongLine)
	text = strings.Join(lines, "\n")
	if st.Bad != "endnonl" {
		text += "\n"
	}

	return text, 1
}

func TestVerifC11Hosts(t *testing.T) {
	r := vrt.Start("C11")
	c11Init()

	nNames := vrt.Pick(r, 6, 8)
	names := c11Names[:nNames]
	maxLabels := vrt.Pick(r, 4, 6)
	singleLabels := vrt.Pick(r, 5, 6)
	r.Bound("list_candidate_names", nNames)
	r.Bound("lists", 1<<nNames)
	r.Bound("host_pool_labels_max_subsets", maxLabels)
	r.Bound("host_pool_labels_max_single", singleLabels)
	r.Bound("qtypes", len(c11QTypes))
	c11CheckPSL(6)
	lastCPU := c11CPUms()
	mark := func(part string) {
		now := c11CPUms()
		r.Count("cpu_ms:"+part, now-lastCPU)
		lastCPU = now
	}

	// Probe strings for the storage: every dot-suffix of every host of up
	// to four pool labels, the list names and junk.
	probeSet := map[string]bool{}
	c11Hosts(4, func(h string) {
		labels := strings.Split(h, ".")
		for i := range labels {
			probeSet[strings.Join(labels[i:], ".")] = true
		}
	})
	for _, n := range c11Names {
		probeSet[n] = true
	}
	junk := c11Junk(c11Names)
	for _, j := range junk {
		probeSet[j] = true
	}
	probes := c11Keys(probeSet)
	prefSet := map[Prefix]bool{}
	for _, n := range c11Names {
		prefSet[c11Prefix(n)] = true
	}
	for _, j := range junk {
		prefSet[c11Prefix(j)] = true
	}
	prefSet[Prefix{0, 0}] = true
	var prefs []Prefix
	for p := range prefSet {
		prefs = append(prefs, p)
	}
	sort.Slice(prefs, func(i, j int) bool { return string(prefs[i][:]) < string(prefs[j][:]) })
	r.Bound("storage_probe_strings", len(probes))
	r.Bound("storage_probe_prefixes", len(prefs))

	// Part 1: list text -> storage contents, for every list and rendering.
	vrt.Part(r, "storage", func(emit func(c11StorageCase)) {
		for mask := 0; mask < 1<<nNames; mask++ {
			for render := range c11Renders {
				emit(c11StorageCase{Mask: mask, Render: render, Ctor: "new"})
				emit(c11StorageCase{Mask: mask, Render: render, Ctor: "reset"})
			}
		}
	}, func(c c11StorageCase) (fs []vrt.Finding) {
		text, mult := c11Render(names, c.Mask, c.Render)
		ctxt := fmt.Sprintf("list %q (%s)", text, c.Ctor)
		var s *Storage
		var err error
		if c.Ctor == "new" {
			s, err = NewStorage(text)
		} else {
			s, err = NewStorage("")
			if err == nil {
				_, err = s.Reset(text)
			}
		}
		r.Trans(1)
		if err != nil {
			return vrt.F("storage/reset-error", "%s: %v", ctxt, err)
		}
		fs, digest := c11CheckStorage(r, s, c11Listed(names, c.Mask), mult, probes, prefs, ctxt)
		r.Class("storage/" + c11Renders[c.Render] + "/" + c.Ctor)
		r.State(fmt.Sprintf("storage|%d|%s", c.Mask, digest))

		return fs
	})

	mark("storage")

	// Part 2: for every host, every list consisting of exactly one of its
	// dot-suffixes (the host itself, every parent, down to the TLD).
	vrt.Part(r, "single", func(emit func(c11SingleCase)) {
		c11Hosts(singleLabels, func(h string) {
			n := strings.Count(h, ".") + 1
			for from := 0; from < n; from++ {
				for id := range c11IDs {
					for repl := range c11Repls {
						emit(c11SingleCase{Host: h, From: from, ID: id, Repl: repl})
					}
				}
			}
		})
	}, func(c c11SingleCase) (fs []vrt.Finding) {
		labels := strings.Split(c.Host, ".")
		name := strings.Join(labels[c.From:], ".")
		s, err := NewStorage(name + "\n")
		if err != nil {
			return vrt.F("storage/reset-error", "list %q: %v", name, err)
		}
		f := c11NewFilter(s, c11IDs[c.ID], c11Repls[c.Repl], "/nonexistent/c11")
		fs, vec := c11CheckHost(r, f, c.Host, c11QTypes, map[string]bool{name: true}, func() string {
			return fmt.Sprintf("list [%s], filter %s -> %s", name, c11IDs[c.ID], c11Repls[c.Repl])
		})
		ps, _ := c11PublicSuffix(c.Host)
		r.State(fmt.Sprintf("single|%d|%s|%d|%s", len(labels), ps, c.From, vec))

		return fs
	})

	mark("single")

	// Part 3: every subset of the candidate names x every host.
	hostRenders := []int{3}
	if r.Thorough() {
		hostRenders = []int{0, 3}
	}
	vrt.Part(r, "subsets", func(emit func(c11SubsetCase)) {
		for mask := 0; mask < 1<<nNames; mask++ {
			for _, render := range hostRenders {
				ml := maxLabels
				if render != 3 && ml > 5 {
					// The plain rendering differs from the messy one only in
					// Storage.Reset (part 1); five pool labels are already
					// two beyond every cut.
					ml = 5
				}
				c11Hosts(ml, func(h string) {
					for id := range c11IDs {
						for repl := range c11Repls {
							emit(c11SubsetCase{Mask: mask, Render: render, Host: h, ID: id, Repl: repl})
						}
					}
				})
			}
		}
	}, func(c c11SubsetCase) (fs []vrt.Finding) {
		text, _ := c11Render(names, c.Mask, c.Render)
		s, err := NewStorage(text)
		if err != nil {
			return vrt.F("storage/reset-error", "list %q: %v", text, err)
		}
		listed := c11Listed(names, c.Mask)
		f := c11NewFilter(s, c11IDs[c.ID], c11Repls[c.Repl], "/nonexistent/c11")
		fs, vec := c11CheckHost(r, f, c.Host, c11QTypes, listed, func() string {
			return fmt.Sprintf("list %v, filter %s -> %s", c11Keys(listed), c11IDs[c.ID], c11Repls[c.Repl])
		})
		ps, _ := c11PublicSuffix(c.Host)
		r.State(fmt.Sprintf("subsets|%d|%d|%s|%s", c.Mask, strings.Count(c.Host, "."), ps, vec))

		return fs
	})

	mark("subsets")

	// Part 4: histories of list versions.  After every version the storage
	// must describe exactly the current list.
	resetProbes := append(append([]string{}, c11Names...), junk...)
	resetQTypes := []uint16{dns.TypeA, dns.TypeTXT}
	// Distinct prefixes only: Storage.Hashes is specified per prefix, the
	// de-duplication of requested prefixes is the Matcher's job (unit B).
	var resetPrefs []Prefix
	for _, n := range append(append([]string{}, c11Names...), "", "#a.com", "# header a.com") {
		if p := c11Prefix(n); !slices.Contains(resetPrefs, p) {
			resetPrefs = append(resetPrefs, p)
		}
	}
	resetHosts := []string{"www.x.b.a.com", "a.www.x.b.a.com", "b.a.com", "a.x.co.uk", "a.www.www.com", "x.co.uk", "b.a.github.io", "b.github.io"}
	tmp := filepath.Join(t.TempDir(), "list.txt")
	depth := 3
	resetRenders := []int{3}
	if r.Thorough() {
		resetRenders = []int{0, 3}
	}
	refreshNames := 4
	r.Bound("reset_history_depth", depth)
	r.Bound("reset_alphabet", (1<<6)*len(resetRenders))
	r.Bound("refresh_alphabet", 1<<refreshNames)
	vrt.Part(r, "resets", func(emit func(c11ResetCase)) {
		// Lists over the first six names, every rendering of the tier.
		var alpha []c11Step
		for mask := 0; mask < 1<<6; mask++ {
			for _, render := range resetRenders {
				alpha = append(alpha, c11Step{Mask: mask, Render: render})
			}
		}
		vrt.Sequences(len(alpha), 1, depth, func(seq []int) {
			steps := make([]c11Step, len(seq))
			for i, k := range seq {
				steps[i] = alpha[k]
			}
			emit(c11ResetCase{Via: "storage", Steps: steps})
		})
		// The same through the real Filter.RefreshInitial / Refresh, over
		// the lists of the first four names.
		vrt.Sequences(1<<refreshNames, 1, depth, func(seq []int) {
			steps := make([]c11Step, len(seq))
			for i, k := range seq {
				steps[i] = c11Step{Mask: k, Render: []int{3, 0, 2}[i%3]}
			}
			emit(c11ResetCase{Via: "refresh", Steps: steps})
		})
	}, func(c c11ResetCase) (fs []vrt.Finding) {
		var s *Storage
		var refr *Filter
		var err error
		for i, st := range c.Steps {
			text, mult := c11Render(c11Names[:6], st.Mask, st.Render)
			ctxt := ""
			if i == len(c.Steps)-1 {
				ctxt = fmt.Sprintf("%s history %v, after the last version", c.Via, c.Steps)
			}
			switch {
			case c.Via == "refresh":
				if err = os.WriteFile(tmp, []byte(text), 0o600); err != nil {
					vrt.Fatalf("writing %s: %v", tmp, err)
				}
				if i == 0 {
					s, _ = NewStorage("")
					refr = c11NewFilter(s, internal.IDSafeBrowsing, c11Repls[0], tmp)
					err = refr.RefreshInitial(context.Background())
				} else {
					err = refr.Refresh(context.Background())
				}
			case i == 0:
				s, err = NewStorage(text)
			default:
				_, err = s.Reset(text)
			}
			r.Trans(1)
			if err != nil {
				return append(fs, vrt.F("reset/error", "%s history %v, version %d: %v", c.Via, c.Steps, i+1, err)...)
			}
			if i < len(c.Steps)-1 {
				// The state after a proper prefix of this history is probed
				// by the shorter history that ends there (all are enumerated).
				continue
			}
			listed := c11Listed(c11Names[:6], st.Mask)
			sfs, digest := c11CheckStorage(r, s, listed, mult, resetProbes, resetPrefs, ctxt)
			for _, f := range sfs {
				f.Key = "reset/" + strings.TrimPrefix(f.Key, "storage/")
				fs = append(fs, f)
			}
			f := c11NewFilter(s, internal.IDSafeBrowsing, c11Repls[i%2], "/nonexistent/c11")
			vecs := ""
			for _, h := range resetHosts {
				hfs, vec := c11CheckHost(r, f, h, resetQTypes, listed, func() string { return ctxt })
				for _, hf := range hfs {
					hf.Key = "reset/" + hf.Key
					fs = append(fs, hf)
				}
				vecs += vec[:1]
			}
			r.State(fmt.Sprintf("reset|%s|%d|%s|%s", c.Via, st.Mask, digest, vecs))
		}

		return fs
	})

	mark("resets")

	// Part 5: histories in which some documents cannot be scanned (one line
	// longer than bufio.Scanner's token limit: a corrupted download, an HTML
	// page served with 200).  Whatever Reset / Refresh does with such a
	// document, afterwards the hosts and hashes that match must be those of
	// ONE list: the document's, if it was accepted (no error), else those of
	// the last accepted list - a rejected update must not change which hosts
	// are treated as listed.  A later good document must be fully in force.
	failN := vrt.Pick(r, 3, 4)
	failRefreshN := vrt.Pick(r, 2, 3)
	failProbes := append(append([]string{}, c11FailNames...), c11Junk(c11FailNames)...)
	var failPrefs []Prefix
	for _, n := range append(append([]string{}, c11FailNames...), "", "#a.com", "# header a.com") {
		if p := c11Prefix(n); !slices.Contains(failPrefs, p) {
			failPrefs = append(failPrefs, p)
		}
	}
	if slices.Contains(failPrefs, c11Prefix(c11LongLine)) {
		vrt.Fatalf("alphabet: the over-long line shares a hash prefix with a probe")
	}
	failHosts := []string{"b.com", "x.co.uk"}
	for _, n := range c11FailNames {
		failHosts = append(failHosts, n, "b."+n)
	}
	shm := os.Getenv("VERIF_C11_TMP")
	if shm == "" {
		shm = "/dev/shm"
	}
	if fi, err := os.Stat(shm); err != nil || !fi.IsDir() {
		shm = t.TempDir()
	}
	failDir, err := os.MkdirTemp(shm, "c11-")
	if err != nil {
		vrt.Fatalf("scratch dir: %v", err)
	}
	failTmp := filepath.Join(failDir, "list.txt")
	failAlphabet := func(n int) (alpha []c11FailStep) {
		for mask := 0; mask < 1<<n; mask++ {
			alpha = append(alpha, c11FailStep{Mask: mask})
		}
		for _, bad := range c11BadPositions {
			for mask := 0; mask < 1<<n; mask++ {
				alpha = append(alpha, c11FailStep{Mask: mask, Bad: bad})
			}
		}

		return alpha
	}
	r.Bound("failedreset_history_depth", depth)
	r.Bound("failedreset_alphabet_storage", len(failAlphabet(failN)))
	r.Bound("failedreset_alphabet_refresh", len(failAlphabet(failRefreshN)))
	docCache := map[c11FailStep]string{}
	vrt.Part(r, "failedresets", func(emit func(c11FailCase)) {
		for _, via := range []string{"storage", "refresh"} {
			alpha := failAlphabet(failN)
			if via == "refresh" {
				alpha = failAlphabet(failRefreshN)
			}
			vrt.Sequences(len(alpha), 1, depth, func(seq []int) {
				steps := make([]c11FailStep, len(seq))
				anyBad := false
				for i, k := range seq {
					steps[i] = alpha[k]
					anyBad = anyBad || alpha[k].Bad != ""
				}
				if anyBad {
					// Histories of good documents only are part 4.
					emit(c11FailCase{Via: via, Steps: steps})
				}
			})
		}
	}, func(c c11FailCase) (fs []vrt.Finding) {
		names := c11FailNames
		s, _ := NewStorage("")
		var refr *Filter
		if c.Via == "refresh" {
			// Large enough to keep every (host, qtype) asked in a history.
			refr = c11NewFilterN(s, internal.IDSafeBrowsing, c11Repls[0], failTmp, 1024)
		}
		inForce, inForceMult := 0, 1
		outcome := ""
		for i, st := range c.Steps {
			text, ok := docCache[st]
			mult := 1
			if st.Bad == "" {
				mult = 2
			}
			if !ok {
				text, _ = c11FailDoc(names, st)
				docCache[st] = text
			}
			var err error
			if c.Via == "refresh" {
				if err = os.WriteFile(failTmp, []byte(text), 0o600); err != nil {
					vrt.Fatalf("writing %s: %v", failTmp, err)
				}
				if i == 0 {
					err = refr.RefreshInitial(context.Background())
				} else {
					err = refr.Refresh(context.Background())
				}
			} else {
				_, err = s.Reset(text)
			}
			r.Trans(1)
			switch {
			case err == nil:
				inForce, inForceMult = st.Mask, mult
				if st.Bad != "" {
					outcome += "A"
				} else {
					outcome += "g"
				}
			case st.Bad == "":
				return append(fs, vrt.F("failedreset/good-document-rejected", "%s history %+v, document %d: %v", c.Via, c.Steps, i+1, err)...)
			default:
				outcome += "R"
			}
			last := i == len(c.Steps)-1
			listed := c11Listed(names, inForce)
			ctxt := func() string {
				return fmt.Sprintf("%s history %+v (outcomes %s; g good, R rejected with an error, A over-long line accepted), after document %d; list in force %v",
					c.Via, c.Steps, outcome, i+1, c11Keys(listed))
			}
			if c.Via == "refresh" {
				// Lookups through the refreshing filter itself: after every
				// document the even hosts (so that at the end they have been
				// asked before), after the last one all hosts.
				for k, h := range failHosts {
					if !last && k%2 != 0 {
						continue
					}
					hfs, _ := c11CheckHost(r, refr, h, c11QTypes, listed, ctxt)
					for _, hf := range hfs {
						hf.Key = "failedreset/same-" + hf.Key
						fs = append(fs, hf)
					}
				}
			}
			if !last {
				continue
			}
			sfs, digest := c11CheckStorage(r, s, listed, inForceMult, failProbes, failPrefs, ctxt())
			for _, f := range sfs {
				f.Key = "failedreset/" + strings.TrimPrefix(f.Key, "storage/")
				fs = append(fs, f)
			}
			f := c11NewFilter(s, internal.IDAdultBlocking, c11Repls[i%2], "/nonexistent/c11")
			vecs := ""
			for _, h := range failHosts {
				hfs, vec := c11CheckHost(r, f, h, c11QTypes, listed, ctxt)
				for _, hf := range hfs {
					hf.Key = "failedreset/" + hf.Key
					fs = append(fs, hf)
				}
				vecs += vec[:1]
			}
			r.Class("failedreset/" + c.Via + "/" + outcome)
			r.State(fmt.Sprintf("failedreset|%s|%s|%d|%s|%s", c.Via, outcome, inForce, digest, vecs))
		}
		return fs
	})

	mark("failedresets")
	_ = os.RemoveAll(failDir)

	r.Finish()
	os.Exit(0)
}
