//go:build verif

package cmd

// DDR stage: the Discovery of Designated Resolvers answers built from the
// ddr section of an accepted configuration must be servable: the real
// per-server handler chain (ratelimitmw + devicefinder + initial middleware)
// answers "_dns.resolver.arpa SVCB" and the "_dns.<target>" forms, and the
// answer can be packed into a wire message.

import (
	"context"
	"fmt"
	"net"
	"net/netip"
	"net/url"
	"sort"
	"time"

	"github.com/AdguardTeam/AdGuardDNS/internal/access"
	"github.com/AdguardTeam/AdGuardDNS/internal/agd"
	"github.com/AdguardTeam/AdGuardDNS/internal/agdtest"
	"github.com/AdguardTeam/AdGuardDNS/internal/dnsmsg"
	"github.com/AdguardTeam/AdGuardDNS/internal/dnsserver"
	"github.com/AdguardTeam/AdGuardDNS/internal/dnsserver/ratelimit"
	"github.com/AdguardTeam/AdGuardDNS/internal/dnssvc"
	"github.com/AdguardTeam/AdGuardDNS/internal/profiledb"
	"github.com/AdguardTeam/golibs/netutil"
	"github.com/c2h5oh/datasize"
	"github.com/miekg/dns"
	"github.com/prometheus/client_golang/prometheus"
)

const c20DDRDevice agd.DeviceID = "c20devdd"

// c20DDRProfileDB knows one device, by the dedicated address c20DedCustom.
func c20DDRProfileDB() (db *agdtest.ProfileDB) {
	prof := &agd.Profile{
		Access:       access.EmptyProfile{},
		BlockingMode: &dnsmsg.BlockingModeNullIP{},
		// The device has its own generous limit, so that the few DDR queries
		// of this stage never meet a rate limit of the configuration.
		Ratelimiter: agd.NewDefaultRatelimiter(
			&agd.RatelimitConfig{RPS: 10_000, Enabled: true},
			1*datasize.KB,
		),
		ID:                  "c20prfdd",
		DeviceIDs:           []agd.DeviceID{c20DDRDevice},
		FilteredResponseTTL: 10 * time.Second,
		FilteringEnabled:    true,
	}
	dev := &agd.Device{
		Auth:             &agd.AuthSettings{Enabled: false},
		ID:               c20DDRDevice,
		DedicatedIPs:     []netip.Addr{c20DedCustom},
		FilteringEnabled: true,
	}
	notFound := func() (*agd.Profile, *agd.Device, error) { return nil, nil, profiledb.ErrDeviceNotFound }
	db = agdtest.NewProfileDB()
	db.OnProfileByDedicatedIP = func(_ context.Context, ip netip.Addr) (*agd.Profile, *agd.Device, error) {
		if ip == c20DedCustom {
			return prof, dev, nil
		}

		return notFound()
	}
	db.OnProfileByDeviceID = func(_ context.Context, _ agd.DeviceID) (*agd.Profile, *agd.Device, error) {
		return notFound()
	}
	db.OnProfileByHumanID = func(_ context.Context, _ agd.ProfileID, _ agd.HumanIDLower) (*agd.Profile, *agd.Device, error) {
		return notFound()
	}
	db.OnProfileByLinkedIP = func(_ context.Context, _ netip.Addr) (*agd.Profile, *agd.Device, error) {
		return notFound()
	}

	return db
}

func c20SortedTargets(g *agd.ServerGroup, device bool) (ts []string) {
	set := g.DDR.PublicTargets
	if device {
		set = g.DDR.DeviceTargets
	}
	if set == nil {
		return nil
	}
	ts = set.Values()
	sort.Strings(ts)

	return ts
}

// buildDDR runs the DDR queries.  main is the builder of the case after
// buildServers.
func (w *c20World) buildDDR(ctx context.Context, main *builder, o *c20Outcome) {
	conf := main.conf
	if len(main.serverGroups) == 0 || main.messages == nil || main.access == nil {
		return
	}
	var hs dnssvc.Handlers
	var err error
	ok := o.step("dnssvc.newHandlersForServers+initial.New", func() {
		al := ratelimit.NewDynamicAllowlist(netutil.UnembedPrefixes(conf.RateLimit.Allowlist.List), nil)
		hs, err = dnssvc.VerifNewHandlersForServers(&dnssvc.HandlersConfig{
			BaseLogger:           main.baseLogger,
			Cloner:               main.cloner,
			HumanIDParser:        agd.NewHumanIDParser(),
			Messages:             main.messages,
			StructuredErrors:     main.sdeConf,
			AccessManager:        main.access,
			ErrColl:              main.errColl,
			GeoIP:                c20FakeGeoIP(),
			ProfileDB:            c20DDRProfileDB(),
			PrometheusRegisterer: prometheus.NewRegistry(),
			RateLimit:            ratelimit.NewBackoff(conf.RateLimit.toInternal(al)),
			MetricsNamespace:     main.mtrcNamespace,
			FilteringGroups:      main.filteringGroups,
			ServerGroups:         main.serverGroups,
			EDEEnabled:           conf.Filters.EDEEnabled,
		}, dnssvc.VerifWrapInitial(main.baseLogger, c20Upstream()))
		if err != nil {
			panic(err)
		}
	})
	if !ok {
		return
	}

	type ddrQ struct {
		key   dnssvc.HandlerKey
		local netip.Addr
		name  string
		who   string
	}
	var qs []ddrQ
	for _, g := range main.serverGroups {
		// A device of a server that recognises devices by their dedicated
		// address, and an anonymous client of a server bound to addresses.
		var devKey, anonKey *dnssvc.HandlerKey
		for _, srv := range g.Servers {
			k := dnssvc.HandlerKey{Server: srv, ServerGroup: g}
			switch {
			case srv.BindsToInterfaces() && g.ProfilesEnabled && srv.Protocol == agd.ProtoDNS:
				if devKey == nil || srv.Name < devKey.Server.Name {
					devKey = &k
				}
			case !srv.BindsToInterfaces():
				if anonKey == nil || srv.Name < anonKey.Server.Name {
					anonKey = &k
				}
			}
		}
		if devKey != nil {
			qs = append(qs, ddrQ{*devKey, c20DedCustom, "_dns.resolver.arpa.", "device " + string(c20DDRDevice)})
			for _, t := range c20SortedTargets(g, true) {
				qs = append(qs, ddrQ{*devKey, c20DedCustom, "_dns." + string(c20DDRDevice) + "." + dns.Fqdn(t),
					"device " + string(c20DDRDevice)})
			}
		}
		if anonKey != nil {
			local := netip.MustParseAddr("127.0.0.1")
			qs = append(qs, ddrQ{*anonKey, local, "_dns.resolver.arpa.", "anonymous client"})
			for _, t := range c20SortedTargets(g, false) {
				qs = append(qs, ddrQ{*anonKey, local, "_dns." + dns.Fqdn(t), "anonymous client"})
			}
		}
	}
	answered := 0
	for _, q := range qs {
		h := hs[q.key]
		if h == nil {
			continue
		}
		req := c20Query(q.name, dns.TypeSVCB)
		rctx := dnsserver.ContextWithServerInfo(ctx, &dnsserver.ServerInfo{
			Name: string(q.key.Server.Name), Addr: "127.0.0.1:53", Proto: dnsserver.ProtoDNS,
		})
		rctx = dnsserver.ContextWithRequestInfo(rctx, &dnsserver.RequestInfo{
			StartTime: time.Now(),
			// What a DoH request always carries; ignored by the other servers.
			URL: &url.URL{Path: "/dns-query"},
		})
		rw := dnsserver.NewNonWriterResponseWriter(
			net.UDPAddrFromAddrPort(netip.AddrPortFrom(q.local, 53)),
			net.UDPAddrFromAddrPort(netip.AddrPortFrom(c20Clients[0], 40200)),
		)
		var serr, perr error
		var wire []byte
		where := fmt.Sprintf("DDR query %s SVCB of the %s (server %q of group %q, ddr.enabled=%v)",
			q.name, q.who, q.key.Server.Name, q.key.ServerGroup.Name, q.key.ServerGroup.DDR.Enabled)
		if !o.step(where, func() {
			serr = h.ServeDNS(rctx, rw, req)
			if serr == nil && rw.Msg() != nil {
				wire, perr = rw.Msg().Pack()
			}
		}) {
			return
		}
		switch {
		case serr != nil || rw.Msg() == nil:
			o.bad("unserviceable", "ddr", "%s is not answered: err %v", where, serr)

			return
		case perr != nil:
			o.bad("unserviceable", "ddr", "%s: the answer (%d records) cannot be packed, so no transport can write it: %v",
				where, len(rw.Msg().Answer), perr)

			return
		}
		_ = wire
		answered++
	}
	o.obs("ddr %d/%d", answered, len(qs))
}
