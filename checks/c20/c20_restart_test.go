//go:build verif

package cmd

// Restart history: the profile database is built twice from the same accepted
// configuration and the same on-disk profile cache, the way cmd does it
// (builder.initGRPCMetrics + builder.initProfileDB), against a scripted
// loopback gRPC backend; the second "process" restores the profiles from the
// cache file while the backend reports no change, and then serves queries of
// the profiles' devices through the real per-server handler chain
// (ratelimitmw + devicefinder).

import (
	"context"
	"fmt"
	"net"
	"net/netip"
	"net/url"
	"os"
	"path/filepath"
	"strconv"
	"sync"
	"sync/atomic"
	"syscall"
	"time"

	"github.com/AdguardTeam/AdGuardDNS/internal/agd"
	"github.com/AdguardTeam/AdGuardDNS/internal/agdcache"
	"github.com/AdguardTeam/AdGuardDNS/internal/agdtest"
	"github.com/AdguardTeam/AdGuardDNS/internal/backendpb"
	"github.com/AdguardTeam/AdGuardDNS/internal/debugsvc"
	"github.com/AdguardTeam/AdGuardDNS/internal/dnsmsg"
	"github.com/AdguardTeam/AdGuardDNS/internal/dnsserver"
	"github.com/AdguardTeam/AdGuardDNS/internal/dnsserver/ratelimit"
	"github.com/AdguardTeam/AdGuardDNS/internal/dnsserver/zzverif/vrt"
	"github.com/AdguardTeam/AdGuardDNS/internal/dnssvc"
	"github.com/AdguardTeam/AdGuardDNS/internal/geoip"
	"github.com/AdguardTeam/AdGuardDNS/internal/metrics"
	"github.com/AdguardTeam/AdGuardDNS/internal/profiledb"
	"github.com/AdguardTeam/golibs/logutil/slogutil"
	"github.com/AdguardTeam/golibs/netutil"
	"github.com/AdguardTeam/golibs/netutil/urlutil"
	"github.com/AdguardTeam/golibs/service"
	"github.com/c2h5oh/datasize"
	"github.com/miekg/dns"
	"github.com/prometheus/client_golang/prometheus"
	"google.golang.org/grpc"
	"google.golang.org/grpc/credentials/insecure"
	"google.golang.org/grpc/metadata"
)

// Keys of the findings of this stage: defects of the start-up sequence for
// configurations that are valid by any reading, hence fixed keys.
const (
	c20KeyRestartPanic = "panic/restart-from-profile-cache"
	c20KeyRestartUnsrv = "unserviceable/restart-from-profile-cache"
)

// Devices of the scripted backend.  The plain-DNS server of the example binds
// to interface prefixes, so its devices are recognised by the dedicated
// (local) address.
var (
	c20DedCustom = netip.MustParseAddr("127.0.0.77") // profile with a custom rate limit
	c20DedPlain  = netip.MustParseAddr("127.0.0.78") // profile without one
)

// c20Backend is the scripted profile backend: a full synchronisation (zero
// sync time) receives both profiles, an incremental one "no change".
type c20Backend struct {
	backendpb.UnimplementedDNSServiceServer

	calls       atomic.Int32
	incremental atomic.Int32
	addr        string
}

func (s *c20Backend) GetDNSProfiles(
	req *backendpb.DNSProfilesRequest,
	srv grpc.ServerStreamingServer[backendpb.DNSProfile],
) (err error) {
	s.calls.Add(1)
	srv.SetTrailer(metadata.MD{
		"sync_time": []string{strconv.FormatInt(time.Now().UnixMilli(), 10)},
	})
	if req.GetSyncTime().AsTime().After(time.Unix(0, 0)) {
		// Incremental synchronisation: no change since the given time.
		s.incremental.Add(1)

		return nil
	}
	// Full synchronisation (zero sync time): everything.
	err = srv.Send(&backendpb.DNSProfile{
		DnsId:            "c20prfa1",
		FilteringEnabled: true,
		Devices: []*backendpb.DeviceSettings{{
			Id:               "c20deva1",
			Name:             "custom-limit device",
			FilteringEnabled: true,
			DedicatedIps:     [][]byte{c20DedCustom.AsSlice()},
		}},
		RateLimit: &backendpb.RateLimitSettings{Enabled: true, Rps: 100},
	})
	if err != nil {
		return err
	}

	return srv.Send(&backendpb.DNSProfile{
		DnsId:            "c20prfb2",
		FilteringEnabled: true,
		Devices: []*backendpb.DeviceSettings{{
			Id:               "c20devb2",
			Name:             "plain device",
			FilteringEnabled: true,
			DedicatedIps:     [][]byte{c20DedPlain.AsSlice()},
		}},
	})
}

var (
	c20BackendOnce sync.Once
	c20BackendInst *c20Backend
)

// c20TheBackend starts the process-wide scripted backend on a loopback port.
func c20TheBackend() (b *c20Backend) {
	c20BackendOnce.Do(func() {
		l, err := net.Listen("tcp", "127.0.0.1:0")
		if err != nil {
			vrt.Fatalf("listening for the scripted profile backend: %v", err)
		}
		c20BackendInst = &c20Backend{addr: l.Addr().String()}
		srv := grpc.NewServer(grpc.Creds(insecure.NewCredentials()))
		backendpb.RegisterDNSServiceServer(srv, c20BackendInst)
		go func() { _ = srv.Serve(l) }()
	})

	return c20BackendInst
}

// c20Notifier is a signal notifier without OS signals: it lets the harness
// deliver the shutdown signal to one builder's signal handler only.
type c20Notifier struct {
	ch chan<- os.Signal
}

func (n *c20Notifier) Notify(c chan<- os.Signal, _ ...os.Signal) { n.ch = c }
func (n *c20Notifier) Stop(_ chan<- os.Signal)                   {}

// c20Proc is the profile-database part of one server process.
type c20Proc struct {
	b   *builder
	ntf *c20Notifier
}

// stop shuts the services of the process down through its signal handler, as
// a SIGTERM does in cmd.
func (p *c20Proc) stop() {
	if p == nil || p.ntf.ch == nil {
		return
	}
	p.ntf.ch <- syscall.SIGTERM
	_ = p.b.sigHdlr.Handle(context.Background())
}

// startProc runs builder.initGRPCMetrics and builder.initProfileDB of a fresh
// builder for conf.
func (w *c20World) startProc(
	ctx context.Context,
	conf *configuration,
	cachePath string,
	o *c20Outcome,
) (p *c20Proc, err error) {
	logger := slogutil.NewDiscardLogger()
	ntf := &c20Notifier{}
	envs := w.envs()
	envs.ProfilesURL = &urlutil.URL{URL: url.URL{Scheme: "grpc", Host: c20TheBackend().addr}}
	envs.ProfilesCachePath = cachePath
	envs.ProfilesMaxRespSize = 64 * datasize.MB
	b := &builder{
		baseLogger:      logger,
		cacheManager:    agdcache.NewDefaultManager(),
		cloner:          dnsmsg.NewCloner(metrics.ClonerStat{}),
		conf:            conf,
		debugRefrs:      debugsvc.Refreshers{},
		env:             envs,
		errColl:         &agdtest.ErrorCollector{OnCollect: func(_ context.Context, _ error) {}},
		logger:          logger,
		mtrcNamespace:   metrics.Namespace(),
		promRegisterer:  prometheus.NewRegistry(),
		profilesEnabled: true,
		bindSet:         netip.MustParsePrefix("0.0.0.0/0"),
		sigHdlr: service.NewSignalHandler(&service.SignalHandlerConfig{
			SignalNotifier:  ntf,
			Logger:          logger,
			ShutdownTimeout: shutdownTimeout,
		}),
	}
	p = &c20Proc{b: b, ntf: ntf}
	pan := c20Catch(func() {
		err = b.initGRPCMetrics(ctx)
		if err == nil {
			err = b.initProfileDB(ctx)
		}
	})
	o.Steps += 2
	if pan != "" {
		o.Problems = append(o.Problems, c20Pb{
			Kind: "panic", Where: "builder.initProfileDB", Key: c20KeyRestartPanic,
			Detail: "builder.initProfileDB: " + pan,
		})

		return p, fmt.Errorf("panic")
	}

	return p, err
}

// buildRestart runs the restart history.  main is the builder of the case, of
// which the server groups, messages and access manager are reused.
func (w *c20World) buildRestart(ctx context.Context, main *builder, o *c20Outcome) {
	conf := main.conf
	if len(main.serverGroups) == 0 || main.messages == nil || main.access == nil {
		o.obs("restart skipped: no servers")

		return
	}
	cachePath := filepath.Join(w.tmp, "profilecache.pb")
	_ = os.Remove(cachePath)
	c20TheBackend()

	// First process: no cache file, full synchronisation, cache written.
	p1, err := w.startProc(ctx, conf, cachePath, o)
	defer p1.stop()
	if err != nil {
		o.obs("restart skipped: first start")

		return
	}
	_, _, err = p1.b.profileDB.ProfileByDedicatedIP(ctx, c20DedCustom)
	_, statErr := os.Stat(cachePath)
	if err != nil || statErr != nil {
		// The initial synchronisation did not get through (e.g. a tiny
		// backend.timeout): nothing was cached, nothing to restart from.
		o.obs("restart skipped: nothing cached")

		return
	}
	p1.stop()
	p1 = nil

	// Second process: same configuration, same cache file, backend reports no
	// change.
	p2, err := w.startProc(ctx, conf, cachePath, o)
	defer p2.stop()
	if err != nil {
		o.obs("restart skipped: second start")

		return
	}

	var rl *ratelimit.Backoff
	var hs dnssvc.Handlers
	pan := c20Catch(func() {
		c := conf.RateLimit
		al := ratelimit.NewDynamicAllowlist(netutil.UnembedPrefixes(c.Allowlist.List), nil)
		rl = ratelimit.NewBackoff(c.toInternal(al))
		hs, err = dnssvc.VerifNewHandlersForServers(&dnssvc.HandlersConfig{
			BaseLogger:           main.baseLogger,
			Cloner:               main.cloner,
			HumanIDParser:        agd.NewHumanIDParser(),
			Messages:             main.messages,
			StructuredErrors:     main.sdeConf,
			AccessManager:        main.access,
			ErrColl:              main.errColl,
			GeoIP:                c20FakeGeoIP(),
			ProfileDB:            p2.b.profileDB,
			PrometheusRegisterer: prometheus.NewRegistry(),
			RateLimit:            rl,
			MetricsNamespace:     main.mtrcNamespace,
			FilteringGroups:      main.filteringGroups,
			ServerGroups:         main.serverGroups,
			EDEEnabled:           conf.Filters.EDEEnabled,
		}, c20Upstream())
		if err != nil {
			panic(err)
		}
	})
	o.Steps++
	if pan != "" {
		o.Problems = append(o.Problems, c20Pb{
			Kind: "panic", Where: "dnssvc.newHandlersForServers", Key: c20KeyRestartPanic,
			Detail: "dnssvc.newHandlersForServers: " + pan,
		})

		return
	}
	var h dnsserver.Handler
	var srvName agd.ServerName
	for k, v := range hs {
		if k.Server.Protocol == agd.ProtoDNS && k.ServerGroup.ProfilesEnabled && k.Server.BindsToInterfaces() &&
			(h == nil || k.Server.Name < srvName) {
			h, srvName = v, k.Server.Name
		}
	}
	if h == nil {
		o.obs("restart skipped: no plain-DNS server with profiles")

		return
	}

	restored := "none"
	if prof, _, perr := p2.b.profileDB.ProfileByDedicatedIP(ctx, c20DedCustom); perr == nil {
		restored = fmt.Sprintf("%T", prof.Ratelimiter)
	}
	served := 0
	for _, local := range []netip.Addr{c20DedCustom, c20DedPlain} {
		for i := 0; i < 2; i++ {
			req := c20Query("example.org", dns.TypeA)
			rctx := dnsserver.ContextWithServerInfo(ctx, &dnsserver.ServerInfo{
				Name: string(srvName), Addr: "127.0.0.1:53", Proto: dnsserver.ProtoDNS,
			})
			rctx = dnsserver.ContextWithRequestInfo(rctx, &dnsserver.RequestInfo{StartTime: time.Now()})
			rw := dnsserver.NewNonWriterResponseWriter(
				net.UDPAddrFromAddrPort(netip.AddrPortFrom(local, 53)),
				net.UDPAddrFromAddrPort(netip.AddrPortFrom(c20Clients[0], 40100)),
			)
			var serr error
			pan = c20Catch(func() { serr = h.ServeDNS(rctx, rw, req) })
			o.Steps++
			what := fmt.Sprintf("query %d of the device with dedicated address %s (profile limiter restored from the cache file: %s) "+
				"through the handler of server %q after a restart from the profile cache", i+1, local, restored, srvName)
			if pan != "" {
				o.Problems = append(o.Problems, c20Pb{
					Kind: "panic", Where: "restart", Key: c20KeyRestartPanic,
					Detail: what + ": " + pan,
				})

				return
			}
			if serr == nil && rw.Msg() != nil && len(rw.Msg().Answer) == 1 {
				served++
			} else if i == 0 {
				// The first query of a device cannot be over any limit.
				o.Problems = append(o.Problems, c20Pb{
					Kind: "unserviceable", Where: "restart", Key: c20KeyRestartUnsrv,
					Detail: fmt.Sprintf("%s was not answered: err %v resp %v", what, serr, rw.Msg()),
				})

				return
			}
		}
	}
	o.obs("restart %s served %d", restored, served)
}

// c20FakeGeoIP is a GeoIP database that knows nothing.
func c20FakeGeoIP() (g *agdtest.GeoIP) {
	return &agdtest.GeoIP{
		OnData: func(_ string, _ netip.Addr) (*geoip.Location, error) { return nil, nil },
		OnSubnetByLocation: func(_ *geoip.Location, fam netutil.AddrFamily) (netip.Prefix, error) {
			if fam == netutil.AddrFamilyIPv6 {
				return netip.MustParsePrefix("2001:db8::/48"), nil
			}

			return netip.MustParsePrefix("192.0.2.0/24"), nil
		},
	}
}

var _ profiledb.Interface = (*profiledb.Disabled)(nil)
