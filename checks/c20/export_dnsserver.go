//go:build verif

package dnsserver

// VerifRelease stops the worker-pool goroutines of a server that was
// constructed but is not going to be started (the C20 harness constructs every
// configured server and starts only the plain-DNS one).
func VerifRelease(s Server) {
	switch v := s.(type) {
	case *ServerDNS:
		v.workerPool.Release()
	case *ServerTLS:
		v.workerPool.Release()
	case *ServerQUIC:
		v.pool.Release()
	}
}
