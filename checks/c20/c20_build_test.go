//go:build verif

package cmd

// Construction of the real objects from an accepted configuration and the
// representative traffic pushed through them.

import (
	"context"
	"crypto/ecdsa"
	"crypto/elliptic"
	"crypto/rand"
	"crypto/x509"
	"crypto/x509/pkix"
	"encoding/binary"
	"encoding/pem"
	"errors"
	"fmt"
	"io"
	"math/big"
	"net"
	"net/netip"
	"net/url"
	"os"
	"path/filepath"
	"runtime/debug"
	"strings"
	"sync"
	"testing"
	"testing/synctest"
	"time"

	"github.com/AdguardTeam/AdGuardDNS/internal/agd"
	"github.com/AdguardTeam/AdGuardDNS/internal/agdcache"
	"github.com/AdguardTeam/AdGuardDNS/internal/agdservice"
	"github.com/AdguardTeam/AdGuardDNS/internal/agdtest"
	"github.com/AdguardTeam/AdGuardDNS/internal/connlimiter"
	"github.com/AdguardTeam/AdGuardDNS/internal/debugsvc"
	"github.com/AdguardTeam/AdGuardDNS/internal/dnsmsg"
	"github.com/AdguardTeam/AdGuardDNS/internal/dnsserver"
	"github.com/AdguardTeam/AdGuardDNS/internal/dnsserver/forward"
	"github.com/AdguardTeam/AdGuardDNS/internal/dnsserver/netext"
	"github.com/AdguardTeam/AdGuardDNS/internal/dnsserver/ratelimit"
	"github.com/AdguardTeam/AdGuardDNS/internal/dnsserver/zzverif/vrt"
	"github.com/AdguardTeam/AdGuardDNS/internal/dnssvc"
	"github.com/AdguardTeam/AdGuardDNS/internal/filter"
	"github.com/AdguardTeam/AdGuardDNS/internal/geoip"
	"github.com/AdguardTeam/AdGuardDNS/internal/metrics"
	"github.com/AdguardTeam/golibs/logutil/slogutil"
	"github.com/AdguardTeam/golibs/netutil"
	"github.com/AdguardTeam/golibs/netutil/urlutil"
	"github.com/miekg/dns"
	"github.com/prometheus/client_golang/prometheus"
)

// prepareBaseline redirects the file paths of the distributed example to files
// generated in the scratch directory (the example refers to ./test/…, which is
// not part of the repository).  Nothing else is changed.
func (w *c20World) prepareBaseline(lines []string) (out []string) {
	certFn := filepath.Join(w.tmp, "cert.crt")
	keyFn := filepath.Join(w.tmp, "cert.key")
	c20WriteCert(certFn, keyFn)

	dcFn := filepath.Join(w.tmp, "dnscrypt.yml")
	dc := "provider_name: '2.dnscrypt-cert.example.org'\n" +
		"public_key: 'F11DDBCC4817E543845FDDD4CB881849B64226F3DE397625669D87B919BC4FB0'\n" +
		"private_key: '5752095FFA56D963569951AFE70FE1690F378D13D8AD6F8054DFAA100907F8B6F11DDBCC4817E543845FDDD4CB881849B64226F3DE397625669D87B919BC4FB0'\n" +
		"resolver_secret: '9E46E79FEB3AB3D45F4EB3EA957DEAF5D9639A0179F1850AFABA7E58F87C74C4'\n" +
		"resolver_public: '9327C5E64783E19C339BD6B680A56DB85521CC6E4E0CA5DF5274E2D3CE026C6B'\n" +
		"es_version: 1\ncertificate_ttl: 8760h\n"
	if err := os.WriteFile(dcFn, []byte(dc), 0o600); err != nil {
		panic(err)
	}
	for _, fn := range []string{"tls_key_1", "tls_key_2"} {
		if err := os.WriteFile(filepath.Join(w.tmp, fn), make([]byte, 32), 0o600); err != nil {
			panic(err)
		}
	}

	repl := strings.NewReplacer(
		"./test/cert.crt", certFn,
		"./test/cert.key", keyFn,
		"./test/dnscrypt.yml", dcFn,
		"./test/tls_key_1", filepath.Join(w.tmp, "tls_key_1"),
		"./test/tls_key_2", filepath.Join(w.tmp, "tls_key_2"),
		// The sandbox has no eth0; the loopback interface carries the
		// 127.0.0.0/8 subnet that the example binds to.
		"interface: 'eth0'", "interface: 'lo'",
		// forward.NewHandler performs the initial upstream health check over
		// the network; a closed loopback port refuses at once, public
		// resolvers would block for the whole (possibly huge) timeout.
		"'tcp://1.1.1.1:53'", "'tcp://127.0.0.1:1'",
		"'8.8.4.4:53'", "'127.0.0.1:1'",
		"'1.1.1.1:53'", "'127.0.0.1:1'",
		"address: '8.8.8.8:53'", "address: '127.0.0.1:1'",
	)
	for _, l := range lines {
		out = append(out, repl.Replace(l))
	}

	return out
}

func c20WriteCert(certFn, keyFn string) {
	key, err := ecdsa.GenerateKey(elliptic.P256(), rand.Reader)
	if err != nil {
		panic(err)
	}
	tmpl := &x509.Certificate{
		SerialNumber: big.NewInt(1),
		Subject:      pkix.Name{CommonName: "dns.example.com"},
		DNSNames:     []string{"dns.example.com", "*.dns.example.com"},
		NotBefore:    time.Now().Add(-time.Hour),
		NotAfter:     time.Now().Add(24 * time.Hour),
		KeyUsage:     x509.KeyUsageDigitalSignature,
		ExtKeyUsage:  []x509.ExtKeyUsage{x509.ExtKeyUsageServerAuth},
	}
	der, err := x509.CreateCertificate(rand.Reader, tmpl, tmpl, &key.PublicKey, key)
	if err != nil {
		panic(err)
	}
	kder, err := x509.MarshalECPrivateKey(key)
	if err != nil {
		panic(err)
	}
	certPEM := pem.EncodeToMemory(&pem.Block{Type: "CERTIFICATE", Bytes: der})
	keyPEM := pem.EncodeToMemory(&pem.Block{Type: "EC PRIVATE KEY", Bytes: kder})
	if err = os.WriteFile(certFn, certPEM, 0o600); err != nil {
		panic(err)
	}
	if err = os.WriteFile(keyFn, keyPEM, 0o600); err != nil {
		panic(err)
	}
}

// step runs f as one step of real code and records a panic as a problem.
func (o *c20Outcome) step(where string, f func()) (ok bool) {
	o.Steps++
	if p := c20Catch(f); p != "" {
		o.Problems = append(o.Problems, c20Pb{Kind: "panic", Where: where, Detail: p})

		return false
	}

	return true
}

// c20Catch is vrt.Catch that also keeps the innermost frames of the stack.
func c20Catch(f func()) (panicked string) {
	defer func() {
		if v := recover(); v != nil {
			panicked = fmt.Sprint(v)
			if os.Getenv("VERIF_C20_STACK") != "" {
				panicked += "\n" + string(debug.Stack())
			}
		}
	}()
	f()

	return ""
}

func (o *c20Outcome) bad(kind, where, format string, args ...any) {
	o.Problems = append(o.Problems, c20Pb{Kind: kind, Where: where, Detail: fmt.Sprintf(format, args...)})
}

// rejectedAtBuild records that a constructor of the start-up sequence returned
// an error: the server does not start with this configuration, i.e. it is
// rejected (without a crash) after validate().
func (o *c20Outcome) rejectedAtBuild(where string, err error) {
	if o.Class == "accepted" {
		o.Class = "rejected/build"
		o.Err = where + ": " + err.Error()
	}
}

func (o *c20Outcome) obs(format string, args ...any) {
	o.Obs = append(o.Obs, fmt.Sprintf(format, args...))
}

func c20Query(name string, qt uint16) (m *dns.Msg) {
	m = &dns.Msg{}
	m.SetQuestion(dns.Fqdn(name), qt)
	m.Id = 4242

	return m
}

// c20BigResp returns a response of about 3 KiB.
func c20BigResp(req *dns.Msg) (m *dns.Msg) {
	m = &dns.Msg{}
	m.SetReply(req)
	for i := 0; i < 12; i++ {
		m.Answer = append(m.Answer, &dns.TXT{
			Hdr: dns.RR_Header{
				Name:   req.Question[0].Name,
				Rrtype: dns.TypeTXT,
				Class:  dns.ClassINET,
				Ttl:    30,
			},
			Txt: []string{strings.Repeat("x", 240)},
		})
	}

	return m
}

// c20Envs is the environment part of the configuration; only what the used
// constructors read is set.
func (w *c20World) envs() (e *environment) {
	// A file:// URL that cannot be read (a directory) makes every initial
	// refresh fail right after the objects have been constructed, before any
	// background worker is started and without any network access.
	missing := &urlutil.URL{URL: url.URL{Scheme: "file", Path: w.tmp}}
	unreach := &urlutil.URL{URL: url.URL{Scheme: "http", Host: "127.0.0.1:1", Path: "/x"}}

	return &environment{
		AdultBlockingURL:       missing,
		SafeBrowsingURL:        missing,
		NewRegDomainsURL:       missing,
		FilterIndexURL:         missing,
		BlockedServiceIndexURL: missing,
		GeneralSafeSearchURL:   unreach,
		YoutubeSafeSearchURL:   unreach,
		FilterCachePath:        filepath.Join(w.tmp, "filters"),
		GeoIPASNPath:           w.geoASN,
		GeoIPCountryPath:       w.geoCtry,
		DNSCheckCacheKVSize:    1000,

		GeneralSafeSearchEnabled: true,
		YoutubeSafeSearchEnabled: true,
	}
}

// build constructs the real objects from the accepted configuration conf with
// the conversion functions of package cmd and pushes representative traffic
// through them.
func (w *c20World) build(conf *configuration, o *c20Outcome) {
	// Several constructors register their metrics in the default registry;
	// use a fresh one per configuration, like a fresh process would.
	reg := prometheus.NewRegistry()
	prometheus.DefaultRegisterer = reg
	prometheus.DefaultGatherer = reg

	ctx := context.Background()
	logger := slogutil.NewDiscardLogger()
	errColl := &agdtest.ErrorCollector{OnCollect: func(_ context.Context, _ error) {}}

	b := &builder{
		baseLogger:     logger,
		cacheManager:   agdcache.NewDefaultManager(),
		cloner:         dnsmsg.NewCloner(metrics.ClonerStat{}),
		conf:           conf,
		debugRefrs:     debugsvc.Refreshers{},
		env:            w.envs(),
		errColl:        errColl,
		geoIPError:     make(chan error, 1),
		logger:         logger,
		mtrcNamespace:  metrics.Namespace(),
		promRegisterer: reg,
	}

	w.buildRateLimit(ctx, conf, o)
	w.buildConnLimit(conf, o)
	w.buildMessages(ctx, b, o)
	w.buildCache(ctx, b, o)
	w.buildServers(ctx, b, o)
	w.buildDDR(ctx, b, o)
	if w.restart {
		w.buildRestart(ctx, b, o)
	}
	w.buildFilters(ctx, b, o)
	w.buildMisc(ctx, b, o)
	w.buildWorkers(conf, o)
}

// ---------------------------------------------------------------------------
// Rate limiter.
// ---------------------------------------------------------------------------

var c20Clients = []netip.Addr{
	netip.MustParseAddr("192.0.2.7"),
	netip.MustParseAddr("2001:db8:1::7"),
	netip.MustParseAddr("10.20.30.9"),
	netip.MustParseAddr("a001:db8:2::9"),
}

// c20Bucket is the harness's own notion of the rate-limit bucket of ip: the
// documented "subnet defined by subnet_key_len".  ok is false if the length
// does not fit the family.
func c20Bucket(ip netip.Addr, v4len, v6len int) (b netip.Prefix, ok bool) {
	l := v4len
	if ip.Is6() {
		l = v6len
	}
	if l < 0 || l > ip.BitLen() {
		return netip.Prefix{}, false
	}

	return netip.PrefixFrom(ip, l).Masked(), true
}

func (w *c20World) buildRateLimit(ctx context.Context, conf *configuration, o *c20Outcome) {
	const where = "ratelimit.Backoff"
	var bo *ratelimit.Backoff
	ok := o.step(where+" (NewBackoff)", func() {
		c := conf.RateLimit
		al := ratelimit.NewDynamicAllowlist(netutil.UnembedPrefixes(c.Allowlist.List), nil)
		bo = ratelimit.NewBackoff(c.toInternal(al))
	})
	if !ok {
		return
	}
	seen := map[netip.Prefix]bool{}
	for _, ip := range c20Clients {
		req := c20Query("example.org", dns.TypeA)
		var drop bool
		var err error
		ok = o.step(where+".IsRateLimited", func() {
			drop, _, err = bo.IsRateLimited(ctx, req, ip)
		})
		if !ok {
			return
		}
		bucket, bok := c20Bucket(ip, conf.RateLimit.IPv4.SubnetKeyLen, conf.RateLimit.IPv6.SubnetKeyLen)
		fresh := bok && !seen[bucket]
		seen[bucket] = true
		if !fresh {
			// Shares its bucket with an earlier client (short key length):
			// nothing is demanded for it.
		} else if err != nil {
			o.bad("unserviceable", where+".IsRateLimited", "first request of %s: error %v", ip, err)
		} else if drop {
			o.bad("unserviceable", where+".IsRateLimited",
				"the very first request of the fresh client %s is rate limited", ip)
		}
		ok = o.step(where+".CountResponses", func() {
			bo.CountResponses(ctx, c20BigResp(req), ip)
		})
		if !ok {
			return
		}
	}
	o.obs("rl ok")
}

// ---------------------------------------------------------------------------
// Connection limiter.
// ---------------------------------------------------------------------------

// c20Listener is an in-memory net.Listener; every Accept returns the server
// side of a fresh net.Pipe and publishes the client side.
type c20Listener struct {
	conns  chan net.Conn
	closed chan struct{}
	once   sync.Once

	// failClose makes the Close of the connections handed out from now on
	// close the connection and then report an error, like a tls.Conn that
	// cannot send close_notify to a peer that has gone away.
	failClose bool
}

func newC20Listener() *c20Listener {
	return &c20Listener{conns: make(chan net.Conn), closed: make(chan struct{})}
}

func (l *c20Listener) Accept() (c net.Conn, err error) {
	select {
	case c = <-l.conns:
		return c, nil
	case <-l.closed:
		return nil, net.ErrClosed
	}
}

func (l *c20Listener) Close() (err error) {
	l.once.Do(func() { close(l.closed) })

	return nil
}

func (l *c20Listener) Addr() net.Addr {
	return &net.TCPAddr{IP: net.IPv4(127, 0, 0, 1), Port: 53}
}

// dial hands a new connection to the accepting side; ok is false if nobody
// accepts (the caller decides inside a bubble after synctest.Wait).
func (l *c20Listener) dial() (client net.Conn, offer func() bool) {
	srv, cli := net.Pipe()

	return cli, func() bool {
		select {
		case l.conns <- c20Conn{Conn: srv, failClose: l.failClose}:
			return true
		default:
			return false
		}
	}
}

// c20PacketConn is an in-memory net.PacketConn.
type c20PacketConn struct {
	in     chan []byte
	out    chan []byte
	closed chan struct{}
	once   sync.Once
}

func newC20PacketConn() *c20PacketConn {
	return &c20PacketConn{
		in:     make(chan []byte),
		out:    make(chan []byte, 8),
		closed: make(chan struct{}),
	}
}

func (c *c20PacketConn) ReadFrom(b []byte) (n int, addr net.Addr, err error) {
	select {
	case p := <-c.in:
		return copy(b, p), &net.UDPAddr{IP: net.IPv4(192, 0, 2, 7), Port: 40001}, nil
	case <-c.closed:
		return 0, nil, net.ErrClosed
	}
}

func (c *c20PacketConn) WriteTo(b []byte, _ net.Addr) (n int, err error) {
	select {
	case c.out <- append([]byte{}, b...):
		return len(b), nil
	case <-c.closed:
		return 0, net.ErrClosed
	}
}

func (c *c20PacketConn) Close() (err error) {
	c.once.Do(func() { close(c.closed) })

	return nil
}

func (c *c20PacketConn) LocalAddr() net.Addr {
	return &net.UDPAddr{IP: net.IPv4(127, 0, 0, 1), Port: 53}
}

func (c *c20PacketConn) SetDeadline(time.Time) error      { return nil }
func (c *c20PacketConn) SetReadDeadline(time.Time) error  { return nil }
func (c *c20PacketConn) SetWriteDeadline(time.Time) error { return nil }

// c20Conn gives the pipe TCP addresses, which the servers expect.
type c20Conn struct {
	net.Conn
	failClose bool
}

// errC20Close is what crypto/tls reports when the peer is gone.
var errC20Close = errors.New("tls: failed to send closeNotify alert (but connection was closed anyway)")

func (c c20Conn) Close() (err error) {
	err = c.Conn.Close()
	if err == nil && c.failClose {
		err = errC20Close
	}

	return err
}

func (c c20Conn) LocalAddr() net.Addr {
	return &net.TCPAddr{IP: net.IPv4(127, 0, 0, 1), Port: 53}
}

func (c c20Conn) RemoteAddr() net.Addr {
	return &net.TCPAddr{IP: net.IPv4(192, 0, 2, 7), Port: 40000}
}

func (w *c20World) buildConnLimit(conf *configuration, o *c20Outcome) {
	const where = "connlimiter"
	var lim *connlimiter.Limiter
	ok := o.step(where+" (connLimitConfig.toInternal)", func() {
		lim = conf.RateLimit.ConnectionLimit.toInternal(slogutil.NewDiscardLogger())
	})
	if !ok || lim == nil {
		o.obs("cl off")

		return
	}
	accepted := 0
	var pan string
	synctest.Test(w.t, func(t *testing.T) {
		inner := newC20Listener()
		var l net.Listener
		pan = vrt.Catch(func() {
			l = lim.Limit(inner, &dnsserver.ServerInfo{Name: "verif", Addr: "127.0.0.1:53", Proto: dnsserver.ProtoDNS})
		})
		if pan != "" {
			return
		}
		done := make(chan struct{})
		go func() {
			defer close(done)
			pan = vrt.Catch(func() {
				for i := 0; i < 3; i++ {
					c, err := l.Accept()
					if err != nil {
						return
					}
					accepted++
					_ = c.Close()
				}
			})
		}()
		for i := 0; i < 3; i++ {
			synctest.Wait()
			_, offer := inner.dial()
			if !offer() {
				break
			}
		}
		synctest.Wait()
		_ = l.Close()
		<-done
	})
	o.Steps += 3
	if pan != "" {
		o.bad("panic", where+".Accept", "%s", pan)
	} else if accepted != 3 {
		o.bad("unserviceable", where+".Accept",
			"only %d of 3 sequential connections (each closed before the next) were accepted with stop=%d resume=%d",
			accepted, conf.RateLimit.ConnectionLimit.Stop, conf.RateLimit.ConnectionLimit.Resume)
	}
	o.obs("cl %d", accepted)
}

// ---------------------------------------------------------------------------
// Message constructor, access, bind-to-device, TLS manager, server groups.
// ---------------------------------------------------------------------------

func (w *c20World) buildMessages(ctx context.Context, b *builder, o *c20Outcome) {
	var err error
	if !o.step("builder.initMsgConstructor", func() { err = b.initMsgConstructor(ctx) }) {
		return
	}
	if err != nil {
		o.rejectedAtBuild("builder.initMsgConstructor", err)

		return
	}
	o.step("dnsmsg.Constructor.NewBlockedResp", func() {
		req := c20Query("blocked.example", dns.TypeA)
		resp, rerr := b.messages.NewBlockedResp(req)
		if rerr != nil {
			panic(fmt.Errorf("NewBlockedResp: %w", rerr))
		}
		if _, perr := resp.Pack(); perr != nil {
			panic(fmt.Errorf("packing blocked response: %w", perr))
		}
	})
	o.step("builder.initAccess", func() { err = b.initAccess(ctx) })
	if err != nil {
		o.rejectedAtBuild("builder.initAccess", err)
	}
}

// c20MidName is the name whose scripted answer is about 1.3 KB on the wire.
const c20MidName = "mid.example.org."

// c20MidResp returns the scripted answer for c20MidName: 80 A records.
func c20MidResp(req *dns.Msg) (m *dns.Msg) {
	m = &dns.Msg{}
	m.SetReply(req)
	for i := 0; i < 80; i++ {
		m.Answer = append(m.Answer, &dns.A{
			Hdr: dns.RR_Header{Name: req.Question[0].Name, Rrtype: dns.TypeA, Class: dns.ClassINET, Ttl: 10},
			A:   net.IPv4(192, 0, 2, byte(i+1)),
		})
	}

	return m
}

// c20FullSize is the harness's own computation of the wire size of the
// complete, compressed answer to q (with an OPT record if q has one).
func c20FullSize(q *dns.Msg) (n, answers int) {
	var m *dns.Msg
	switch {
	case q.Question[0].Qtype == dns.TypeTXT:
		m = c20BigResp(q)
	case q.Question[0].Name == c20MidName:
		m = c20MidResp(q)
	default:
		m = &dns.Msg{}
		m.SetReply(q)
		m.Answer = append(m.Answer, &dns.A{
			Hdr: dns.RR_Header{Name: q.Question[0].Name, Rrtype: dns.TypeA, Class: dns.ClassINET, Ttl: 10},
			A:   net.IPv4(192, 0, 2, 55),
		})
	}
	if opt := q.IsEdns0(); opt != nil {
		m.SetEdns0(opt.UDPSize(), false)
	}
	m.Compress = true
	b, err := m.Pack()
	if err != nil {
		panic(err)
	}

	return len(b), len(m.Answer)
}

// c20CheckUDPSize is the two-sided size oracle for one UDP exchange: the
// response must not be larger than the limit in force, min(advertised EDNS
// buffer, configured max_udp_response_size) and never below the 512 bytes
// every client accepts (512 without EDNS), and it must be complete, not
// truncated, when the complete answer fits that limit.  A margin of 16 bytes
// around the harness's own size computation is left undecided.
func c20CheckUDPSize(q *dns.Msg, raw []byte, resp *dns.Msg, configured uint64) (problem string) {
	limit := uint64(dns.MinMsgSize)
	edns := 0
	if opt := q.IsEdns0(); opt != nil {
		edns = int(opt.UDPSize())
		limit = max(limit, min(uint64(edns), configured))
	}
	full, answers := c20FullSize(q)
	switch {
	case uint64(len(raw)) > limit:
		return fmt.Sprintf("the response to %s (EDNS buffer %d) has %d bytes, above the limit of %d",
			q.Question[0].Name, edns, len(raw), limit)
	case uint64(full)+16 <= limit && (resp.Truncated || len(resp.Answer) != answers):
		return fmt.Sprintf("the complete answer to %s (%d records, %d bytes) fits the limit of %d bytes "+
			"(EDNS buffer %d), but the response is truncated: TC=%v, %d answer records, %d bytes",
			q.Question[0].Name, answers, full, limit, edns, resp.Truncated, len(resp.Answer), len(raw))
	}

	return ""
}

// c20Upstream is the final handler: it answers every query with one A record.
func c20Upstream() dnsserver.Handler {
	return dnsserver.HandlerFunc(func(ctx context.Context, rw dnsserver.ResponseWriter, req *dns.Msg) error {
		if req.Question[0].Qtype == dns.TypeTXT {
			return rw.WriteMsg(ctx, req, c20BigResp(req))
		}
		if req.Question[0].Name == c20MidName {
			return rw.WriteMsg(ctx, req, c20MidResp(req))
		}
		resp := &dns.Msg{}
		resp.SetReply(req)
		resp.Answer = append(resp.Answer, &dns.A{
			Hdr: dns.RR_Header{Name: req.Question[0].Name, Rrtype: dns.TypeA, Class: dns.ClassINET, Ttl: 10},
			A:   net.IPv4(192, 0, 2, 55),
		})

		return rw.WriteMsg(ctx, req, resp)
	})
}

// ---------------------------------------------------------------------------
// Cache (+ DNSDB), through the pre-upstream wiring of dnssvc.
// ---------------------------------------------------------------------------

func (w *c20World) buildCache(ctx context.Context, b *builder, o *c20Outcome) {
	conf := b.conf
	var h dnsserver.Handler
	gi := &agdtest.GeoIP{
		OnData: func(_ string, _ netip.Addr) (*geoip.Location, error) { return nil, nil },
		OnSubnetByLocation: func(_ *geoip.Location, fam netutil.AddrFamily) (netip.Prefix, error) {
			if fam == netutil.AddrFamilyIPv6 {
				return netip.MustParsePrefix("2001:db8::/48"), nil
			}

			return netip.MustParsePrefix("192.0.2.0/24"), nil
		},
	}
	ok := o.step("cacheConfig.toInternal+dnsDBConfig.toInternal+dnssvc.wrapPreUpstreamMw", func() {
		h = dnssvc.VerifWrapPreUpstreamMw(ctx, &dnssvc.HandlersConfig{
			BaseLogger:   b.baseLogger,
			Cache:        conf.Cache.toInternal(),
			Cloner:       b.cloner,
			CacheManager: b.cacheManager,
			DNSDB:        conf.DNSDB.toInternal(b.baseLogger, b.errColl),
			GeoIP:        gi,
			Handler:      c20Upstream(),
		})
	})
	if !ok {
		return
	}
	answered := 0
	for i, ip := range []netip.Addr{c20Clients[0], c20Clients[0], c20Clients[1]} {
		req := c20Query("cached.example.org", dns.TypeA)
		ri := &agd.RequestInfo{
			Messages: b.messages,
			RemoteIP: ip,
			Host:     "cached.example.org",
			QType:    dns.TypeA,
			QClass:   dns.ClassINET,
			Proto:    agd.ProtoDNS,
			Location: &geoip.Location{Country: geoip.CountryNL, ASN: 1},
		}
		rctx := agd.ContextWithRequestInfo(ctx, ri)
		rctx = dnsserver.ContextWithServerInfo(rctx, &dnsserver.ServerInfo{Name: "verif", Addr: "127.0.0.1:53", Proto: dnsserver.ProtoDNS})
		rctx = dnsserver.ContextWithRequestInfo(rctx, &dnsserver.RequestInfo{StartTime: time.Now()})
		rw := dnsserver.NewNonWriterResponseWriter(
			&net.UDPAddr{IP: net.IPv4(127, 0, 0, 1), Port: 53},
			net.UDPAddrFromAddrPort(netip.AddrPortFrom(ip, 40000)),
		)
		var err error
		if !o.step(fmt.Sprintf("cache.ServeDNS#%d", i), func() { err = h.ServeDNS(rctx, rw, req) }) {
			return
		}
		if err == nil && rw.Msg() != nil && len(rw.Msg().Answer) == 1 {
			answered++
		} else {
			o.bad("unserviceable", "cache.ServeDNS", "query %d through the cache: err %v resp %v", i, err, rw.Msg())
		}
	}
	o.obs("cache %d", answered)
}

// ---------------------------------------------------------------------------
// Servers.
// ---------------------------------------------------------------------------

// c20Metrics observes panics recovered inside server goroutines.
type c20Metrics struct {
	dnsserver.EmptyMetricsListener
	mu     sync.Mutex
	panics []string
}

func (m *c20Metrics) OnPanic(_ context.Context, v any) {
	m.mu.Lock()
	defer m.mu.Unlock()
	m.panics = append(m.panics, fmt.Sprint(v))
}

func (w *c20World) buildServers(ctx context.Context, b *builder, o *c20Outcome) {
	conf := b.conf
	var err error
	if !o.step("builder.initBindToDevice", func() { err = b.initBindToDevice(ctx) }) {
		return
	}
	if err != nil {
		o.rejectedAtBuild("builder.initBindToDevice", err)

		return
	}
	if !o.step("builder.initTLSManager", func() { err = b.initTLSManager(ctx) }) || err != nil {
		if err != nil {
			o.rejectedAtBuild("builder.initTLSManager", err)
		}

		return
	}
	b.filteringGroups = map[agd.FilteringGroupID]*agd.FilteringGroup{}
	for _, g := range conf.FilteringGroups {
		b.filteringGroups[agd.FilteringGroupID(g.ID)] = &agd.FilteringGroup{ID: agd.FilteringGroupID(g.ID)}
	}
	if b.messages == nil {
		return
	}
	if !o.step("builder.initServerGroups", func() { err = b.initServerGroups(ctx) }) {
		return
	}
	if err != nil {
		o.rejectedAtBuild("builder.initServerGroups", err)

		return
	}
	var lim *connlimiter.Limiter
	if !o.step("connLimitConfig.toInternal", func() {
		lim = conf.RateLimit.ConnectionLimit.toInternal(b.baseLogger)
	}) {
		return
	}

	mtrc := &c20Metrics{}
	answered, udpAnswered, plain := 0, 0, 0
	var pan, where, limPb, lostPb, udpPb string
	limConns := c20HistoryConns(conf)
	synctest.Test(w.t, func(t *testing.T) {
		for _, g := range b.serverGroups {
			for _, srv := range g.Servers {
				inner := newC20Listener()
				pconn := newC20PacketConn()
				var lc netext.ListenConfig = &agdtest.ListenConfig{
					OnListen: func(_ context.Context, _, _ string) (net.Listener, error) {
						return inner, nil
					},
					OnListenPacket: func(_ context.Context, _, _ string) (net.PacketConn, error) {
						return pconn, nil
					},
				}
				if lim != nil {
					lc = connlimiter.NewListenConfig(lc, lim)
				}
				baseConf := dnsserver.ConfigBase{
					Network:  dnsserver.NetworkAny,
					Handler:  c20Upstream(),
					Metrics:  mtrc,
					Disposer: b.cloner,
					RequestContext: &c20CtxCons{
						inner:  dnssvc.VerifNewContextConstructor(conf.DNS.HandleTimeout.Duration),
						maxUDP: conf.DNS.MaxUDPResponseSize.Bytes(),
					},
					ListenConfig: lc,
					Name:         string(srv.Name),
					Addr:         "127.0.0.1:53",
				}
				var l dnssvc.Listener
				where = fmt.Sprintf("dnssvc.NewListener(%s)", srv.Protocol)
				pan = vrt.Catch(func() {
					var lerr error
					l, lerr = dnssvc.NewListener(srv, baseConf, nil)
					if lerr != nil {
						panic(lerr)
					}
				})
				if pan != "" {
					return
				}
				if srv.Protocol != agd.ProtoDNS || plain > 0 {
					dnsserver.VerifRelease(l)

					continue
				}
				plain++
				where = "ServerDNS exchange"
				pan = vrt.Catch(func() {
					hist := 0
					if lim != nil {
						hist = limConns
					}
					lost := 0
					if cl := conf.RateLimit.ConnectionLimit; lim != nil && cl.Stop <= c20MaxHistoryConns {
						lost = int(cl.Stop)
					}
					answered, udpAnswered, limPb, lostPb, udpPb = c20Exchange(ctx, l, inner, pconn,
						baseConf.RequestContext.(*c20CtxCons), hist, lost)
				})
				if pan != "" {
					dnsserver.VerifRelease(l)

					return
				}
			}
		}
	})
	o.Steps += 8
	mtrc.mu.Lock()
	defer mtrc.mu.Unlock()
	switch {
	case pan != "":
		o.bad("panic", where, "%s", pan)
	case len(mtrc.panics) > 0:
		o.bad("panic", "ServerDNS exchange", "recovered in a server goroutine: %s", mtrc.panics[0])
	case plain > 0 && answered != 2:
		o.bad("unserviceable", "ServerDNS tcp exchange",
			"%d of 2 pipelined TCP queries were answered (max_pipeline_count=%d enabled=%v); virtual clock, client never idle",
			answered, conf.RateLimit.TCP.MaxPipelineCount, conf.RateLimit.TCP.Enabled)
	}
	if pan == "" && len(mtrc.panics) == 0 && plain > 0 && udpAnswered != 4 {
		o.bad("unserviceable", "ServerDNS udp exchange",
			"%d of 4 UDP queries were answered (max_udp_response_size=%s)",
			udpAnswered, conf.DNS.MaxUDPResponseSize)
	}
	if pan == "" && len(mtrc.panics) == 0 && limPb != "" {
		cl := conf.RateLimit.ConnectionLimit
		o.Problems = append(o.Problems, c20Pb{
			Kind:  "unserviceable",
			Where: "connlimiter history",
			Key:   "unserviceable/connection_limit-blocks-below-stop",
			Detail: fmt.Sprintf("connection_limit stop=%d resume=%d, plain-DNS server behind the real limiter: "+
				"%d connections opened (plus the listener's pending accept, %d < stop counted), one closed, then %s",
				cl.Stop, cl.Resume, limConns, limConns+1, limPb),
		})
	}
	if pan == "" && len(mtrc.panics) == 0 && udpPb != "" {
		o.Problems = append(o.Problems, c20Pb{
			Kind:  "unserviceable",
			Where: "ServerDNS udp size",
			Key:   "unserviceable/dns.max_udp_response_size-ineffective",
			Detail: fmt.Sprintf("max_udp_response_size=%s (%d bytes) is accepted, but the plain-DNS server does not apply it: %s",
				conf.DNS.MaxUDPResponseSize, conf.DNS.MaxUDPResponseSize.Bytes(), udpPb),
		})
	}
	if pan == "" && len(mtrc.panics) == 0 && lostPb != "" {
		cl := conf.RateLimit.ConnectionLimit
		o.Problems = append(o.Problems, c20Pb{
			Kind:  "unserviceable",
			Where: "connlimiter close-error history",
			Key:   "unserviceable/connection_limit-slot-lost-on-close-error",
			Detail: fmt.Sprintf("connection_limit stop=%d resume=%d, plain-DNS server behind the real limiter: "+
				"%d connections opened and closed one after the other, the close of the underlying connection "+
				"reporting %q each time; nothing is active any more, but %s",
				cl.Stop, cl.Resume, cl.Stop, errC20Close, lostPb),
		})
	}
	o.obs("tcp %d udp %d /%d lim %d %q lost %q", answered, udpAnswered, plain, limConns, limPb, lostPb)
}

// c20MaxHistoryConns bounds the number of simultaneously open connections of
// the limiter history.
const c20MaxHistoryConns = 1024

// c20HistoryConns returns the number j of connections that the limiter history
// keeps open before it closes one: together with the accept that the server's
// listener always has pending (which the limiter counts as well) j+1 must stay
// below stop, so that the limiter never legitimately stops, and after one
// close the count j must still be above resume whenever the thresholds leave
// room for that (stop-resume >= 3).  Zero means that no history is run.
func c20HistoryConns(conf *configuration) (j int) {
	cl := conf.RateLimit.ConnectionLimit
	if !cl.Enabled || cl.Stop < 3 {
		return 0
	}
	n := min(cl.Stop-2, cl.Resume+1)
	if n > c20MaxHistoryConns {
		return 0
	}

	return int(n)
}

// c20LimiterHistory opens j connections to the started server, closes the
// first one and then requires two more connections to be accepted and a query
// over the last one to be answered: the limiter is below stop all the time.
// It runs in the bubble and decides "never accepted" by synctest.Wait followed
// by a non-blocking hand-over, i.e. without letting virtual time pass (idle
// connections would otherwise be closed by the server's read timeout).
func c20LimiterHistory(inner *c20Listener, j int) (problem string) {
	var open []net.Conn
	defer func() {
		for _, c := range open {
			_ = c.Close()
		}
	}()
	for i := 0; i < j; i++ {
		synctest.Wait()
		cli, offer := inner.dial()
		if !offer() {
			return fmt.Sprintf("connection %d of the first %d was never accepted", i+1, j)
		}
		open = append(open, cli)
	}
	synctest.Wait()
	_ = open[0].Close()
	for i, name := range []string{"next", "second next"} {
		synctest.Wait()
		cli, offer := inner.dial()
		if !offer() {
			return fmt.Sprintf("the %s connection was never accepted (%d active connections)", name, j-1+i)
		}
		open = append(open, cli)
	}
	if n := c20TCPQueries(open[len(open)-1], 1); n != 1 {
		return "the query over the newly accepted connection was not answered"
	}

	return ""
}

// c20CloseErrorHistory opens and closes n = stop connections one after the
// other; the Close of the underlying connection (below the limiter's wrapper)
// closes it and then reports an error.  Every slot must be given back all the
// same: a further connection must be accepted and a query over it answered.
// Same decision technique as in c20LimiterHistory.
func c20CloseErrorHistory(inner *c20Listener, n int) (problem string) {
	inner.failClose = true
	for i := 0; i < n; i++ {
		synctest.Wait()
		cli, offer := inner.dial()
		if !offer() {
			_ = cli.Close()
			inner.failClose = false

			return fmt.Sprintf("connection %d of these was never accepted", i+1)
		}
		synctest.Wait()
		_ = cli.Close()
	}
	inner.failClose = false
	synctest.Wait()
	cli, offer := inner.dial()
	defer cli.Close()
	if !offer() {
		return "the next connection was never accepted"
	}
	if c20TCPQueries(cli, 1) != 1 {
		return "the query over the next connection was not answered"
	}

	return ""
}

// c20CtxCons is the real request-context constructor of dnssvc that
// additionally remembers the cancel functions for the teardown.
type c20CtxCons struct {
	inner dnsserver.ContextConstructor

	// maxUDP is the configured max_udp_response_size, for the size oracle.
	maxUDP uint64

	mu      sync.Mutex
	cancels []context.CancelFunc
}

func (c *c20CtxCons) New() (ctx context.Context, cancel context.CancelFunc) {
	ctx, cancel = c.inner.New()
	c.mu.Lock()
	defer c.mu.Unlock()
	c.cancels = append(c.cancels, cancel)

	return ctx, cancel
}

func (c *c20CtxCons) cancelAll() {
	c.mu.Lock()
	defer c.mu.Unlock()
	for _, f := range c.cancels {
		f()
	}
}

// c20Exchange starts the server on the in-memory listeners, sends two UDP
// queries, then two pipelined queries over one TCP connection, and counts the
// answers.  It runs in a
// synctest bubble: no virtual time passes while the client is active, so even
// 1 ns timeouts do not fire before the server has read and answered; time only
// advances if the server blocks for good.
func c20Exchange(
	ctx context.Context,
	l dnssvc.Listener,
	inner *c20Listener,
	pconn *c20PacketConn,
	cc *c20CtxCons,
	histConns int,
	lostConns int,
) (answered, udpAnswered int, limPb, lostPb, udpPb string) {
	if err := l.Start(ctx); err != nil {
		panic(fmt.Errorf("starting: %w", err))
	}
	defer func() {
		// Tear down: requests that are still waiting (e.g. for a pipeline slot
		// that never comes) are cancelled so that the bubble can end.
		cc.cancelAll()
		sctx, cancel := context.WithTimeout(context.Background(), time.Hour)
		defer cancel()
		_ = l.Shutdown(sctx)
	}()

	// UDP: a small query and a 1.3 KB answer without EDNS, then the 1.3 KB and
	// a 3 KiB answer with an EDNS buffer of 4096.
	udpQs := []*dns.Msg{
		c20Query("example.org", dns.TypeA),
		c20Query(c20MidName, dns.TypeA),
		c20Query(c20MidName, dns.TypeA),
		c20Query("big.example.org", dns.TypeTXT),
	}
	udpQs[2].SetEdns0(4096, false)
	udpQs[3].SetEdns0(4096, false)
	for i, q := range udpQs {
		q.Id = uint16(200 + i)
		p, err := q.Pack()
		if err != nil {
			panic(err)
		}
		synctest.Wait()
		select {
		case pconn.in <- p:
		default:
			// Nobody reads.
			continue
		}
		synctest.Wait()
		select {
		case rp := <-pconn.out:
			m := &dns.Msg{}
			if uerr := m.Unpack(rp); uerr == nil && m.Response && m.Id == q.Id {
				udpAnswered++
				if pb := c20CheckUDPSize(q, rp, m, cc.maxUDP); pb != "" && udpPb == "" {
					udpPb = pb
				}
			}
		default:
		}
	}

	synctest.Wait()
	cli, offer := inner.dial()
	if !offer() {
		return 0, udpAnswered, "", "", udpPb
	}
	defer cli.Close()

	answered = c20TCPQueries(cli, 2)
	_ = cli.Close()
	if answered == 2 && histConns > 0 {
		limPb = c20LimiterHistory(inner, histConns)
	}
	if answered == 2 && limPb == "" && lostConns > 0 {
		lostPb = c20CloseErrorHistory(inner, lostConns)
	}

	return answered, udpAnswered, limPb, lostPb, udpPb
}

// c20TCPQueries writes n pipelined queries to cli and counts the answers.
func c20TCPQueries(cli net.Conn, n int) (answered int) {
	var buf []byte
	for i := 0; i < n; i++ {
		q := c20Query("example.org", dns.TypeA)
		q.Id = uint16(100 + i)
		p, err := q.Pack()
		if err != nil {
			panic(err)
		}
		buf = binary.BigEndian.AppendUint16(buf, uint16(len(p)))
		buf = append(buf, p...)
	}
	werr := make(chan error, 1)
	go func() {
		_, err := cli.Write(buf)
		werr <- err
	}()
	// The handler answers at once; ten minutes of *virtual* time only pass if
	// every goroutine of the server is blocked for good.
	_ = cli.SetReadDeadline(time.Now().Add(10 * time.Minute))
	for i := 0; i < n; i++ {
		var ln uint16
		if err := binary.Read(cli, binary.BigEndian, &ln); err != nil {
			break
		}
		p := make([]byte, ln)
		if _, err := io.ReadFull(cli, p); err != nil {
			break
		}
		m := &dns.Msg{}
		if err := m.Unpack(p); err != nil || !m.Response || len(m.Answer) != 1 {
			break
		}
		answered++
	}
	if answered != n {
		_ = cli.Close()
	}
	<-werr

	return answered
}

// ---------------------------------------------------------------------------
// Filters.
// ---------------------------------------------------------------------------

func (w *c20World) buildFilters(ctx context.Context, b *builder, o *c20Outcome) {
	// initHashPrefixFilters builds each hash-prefix filter with the real
	// mapping and then tries the initial refresh, which fails on the missing
	// file:// URL before any background worker is started.
	for _, which := range []string{"adult", "safe_browsing"} {
		e := *b.env
		e.AdultBlockingEnabled = which == "adult"
		e.SafeBrowsingEnabled = which == "safe_browsing"
		e.NewRegDomainsEnabled = false
		b.env = &e
		b.cacheManager = agdcache.NewDefaultManager()
		b.promRegisterer = prometheus.NewRegistry()
		var err error
		if !o.step("builder.initHashPrefixFilters("+which+")", func() { err = b.initHashPrefixFilters(ctx) }) {
			continue
		}
		if err == nil || !strings.Contains(err.Error(), "initial refresh") {
			if err == nil {
				err = fmt.Errorf("initial refresh unexpectedly succeeded")
			}
			o.rejectedAtBuild("builder.initHashPrefixFilters("+which+")", err)

			continue
		}
		f := b.adultBlocking
		if which == "safe_browsing" {
			f = b.safeBrowsing
		}
		if f == nil || b.messages == nil {
			continue
		}
		o.step("hashprefix.Filter.FilterRequest("+which+")", func() {
			for i := 0; i < 2; i++ {
				req := c20Query("host.example.org", dns.TypeA)
				_, ferr := f.FilterRequest(ctx, &filter.Request{
					DNS:      req,
					Messages: b.messages,
					RemoteIP: c20Clients[0],
					Host:     "host.example.org",
					QType:    dns.TypeA,
					QClass:   dns.ClassINET,
				})
				if ferr != nil {
					panic(ferr)
				}
			}
		})
	}

	// initFilterStorage: same idea, the real mapping into filterstorage.New,
	// then a failing initial refresh.
	e := *b.env
	e.AdultBlockingEnabled, e.SafeBrowsingEnabled = false, false
	b.env = &e
	b.cacheManager = agdcache.NewDefaultManager()
	b.filterMtrc = filter.EmptyMetrics{}
	var err error
	if !o.step("builder.initFilterStorage", func() { err = b.initFilterStorage(ctx) }) {
		return
	}
	if err == nil || !strings.Contains(err.Error(), "refreshing default filter storage") {
		o.rejectedAtBuild("builder.initFilterStorage", err)
	}
}

// ---------------------------------------------------------------------------
// Upstream handler, GeoIP.
// ---------------------------------------------------------------------------

func (w *c20World) buildMisc(ctx context.Context, b *builder, o *c20Outcome) {
	conf := b.conf
	o.step("upstreamConfig.toInternal+forward.NewHandler", func() {
		h := forward.NewHandler(conf.Upstream.toInternal(b.baseLogger))
		_ = h.Close()
	})
	o.step("geoip.NewFile+Refresh+Data", func() {
		c := conf.GeoIP
		g := geoip.NewFile(&geoip.FileConfig{
			Logger:         b.baseLogger,
			CacheManager:   agdcache.NewDefaultManager(),
			ASNPath:        b.env.GeoIPASNPath,
			CountryPath:    b.env.GeoIPCountryPath,
			HostCacheCount: c.HostCacheSize,
			IPCacheCount:   c.IPCacheSize,
			AllTopASNs:     geoip.DefaultTopASNs,
			CountryTopASNs: geoip.DefaultCountryTopASNs,
		})
		if err := g.Refresh(ctx); err != nil {
			panic(fmt.Errorf("geoip refresh: %w", err))
		}
		for i := 0; i < 2; i++ {
			for _, ip := range []string{"2.125.160.216", "2001:218::1", "192.0.2.1"} {
				if _, err := g.Data("www.example.org", netip.MustParseAddr(ip)); err != nil {
					panic(fmt.Errorf("geoip data: %w", err))
				}
			}
		}
	})
}

// ---------------------------------------------------------------------------
// Periodic workers: every (interval, timeout) pair that the builder passes to
// agdservice.NewRefreshWorker.
// ---------------------------------------------------------------------------

func (w *c20World) buildWorkers(conf *configuration, o *c20Outcome) {
	type wk struct {
		name      string
		ivl, tout time.Duration
		random    bool
	}
	wks := []wk{
		{"adult_blocking", conf.AdultBlocking.RefreshIvl.Duration, conf.AdultBlocking.RefreshTimeout.Duration, false},
		{"safe_browsing", conf.SafeBrowsing.RefreshIvl.Duration, conf.SafeBrowsing.RefreshTimeout.Duration, false},
		{"filters", conf.Filters.RefreshIvl.Duration, conf.Filters.RefreshTimeout.Duration, false},
		{"billstat", conf.Backend.BillStatIvl.Duration, conf.Backend.Timeout.Duration, false},
		{"profiledb", conf.Backend.RefreshIvl.Duration, conf.Backend.Timeout.Duration, true},
		{"allowlist", conf.RateLimit.Allowlist.RefreshIvl.Duration, defaultTimeout, false},
		{"geoip", conf.GeoIP.RefreshIvl.Duration, defaultTimeout, false},
	}
	if conf.Upstream.Healthcheck.Enabled {
		wks = append(wks, wk{"upstream_healthcheck", conf.Upstream.Healthcheck.Interval.Duration,
			conf.Upstream.Healthcheck.Timeout.Duration, false})
	}
	for _, k := range wks {
		refreshed, expired := 0, 0
		// Intervals of more than two days are only constructed, started and
		// shut down: the first tick is far beyond anything the statement
		// speaks about (and beyond the range of the virtual clock).
		wait := k.ivl <= 48*time.Hour
		var pan string
		synctest.Test(w.t, func(t *testing.T) {
			pan = vrt.Catch(func() {
				rw := agdservice.NewRefreshWorker(&agdservice.RefreshWorkerConfig{
					Context: newCtxWithTimeoutCons(k.tout),
					Refresher: agdservice.RefresherFunc(func(ctx context.Context) error {
						refreshed++
						if ctx.Err() != nil {
							// Already expired before any work could be done.
							expired++
						}

						return nil
					}),
					Logger:         slogutil.NewDiscardLogger(),
					Interval:       k.ivl,
					RandomizeStart: k.random,
				})
				_ = rw.Start(context.Background())
				if wait {
					// One interval (plus the random start delay, which is
					// below a tenth of it) must be enough for one refresh.
					time.Sleep(k.ivl)
					synctest.Wait()
					if k.random {
						time.Sleep(k.ivl / 10)
						synctest.Wait()
					}
				}
				_ = rw.Shutdown(context.Background())
			})
		})
		o.Steps++
		where := "agdservice.RefreshWorker(" + k.name + ")"
		switch {
		case pan != "":
			o.bad("panic", where, "%s", pan)
		case wait && refreshed == 0:
			o.bad("unserviceable", where, "no refresh after one interval of %s", k.ivl)
		case expired > 0:
			o.bad("unserviceable", where,
				"the refresh context (timeout %s) is already expired when the refresh starts, so no refresh can ever succeed",
				k.tout)
		}
	}
}
