//go:build verif

package dnssvc

import (
	"context"
	"log/slog"
	"time"

	"github.com/AdguardTeam/AdGuardDNS/internal/dnsserver"
	"github.com/AdguardTeam/AdGuardDNS/internal/dnssvc/internal/initial"
)

// VerifWrapPreUpstreamMw exposes the real cache / DNSDB wiring of the handler
// chain to the C20 harness, which lives in package cmd.
func VerifWrapPreUpstreamMw(ctx context.Context, c *HandlersConfig) (h dnsserver.Handler) {
	return wrapPreUpstreamMw(ctx, c)
}

// VerifNewContextConstructor exposes the request-context constructor that
// [New] installs into every listener.
func VerifNewContextConstructor(timeout time.Duration) (c dnsserver.ContextConstructor) {
	return newContextConstructor(timeout)
}

// VerifNewHandlersForServers exposes the real construction of the per-server
// handlers (rate-limit middleware with the device finder) around h.
func VerifNewHandlersForServers(c *HandlersConfig, h dnsserver.Handler) (hs Handlers, err error) {
	return newHandlersForServers(c, h)
}

// VerifWrapInitial wraps h into the real initial middleware, which answers the
// DDR and other special-domain queries.
func VerifWrapInitial(l *slog.Logger, h dnsserver.Handler) (wrapped dnsserver.Handler) {
	return initial.New(&initial.Config{Logger: l}).Wrap(h)
}
