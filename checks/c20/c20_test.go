//go:build verif

package cmd

// C20 — a configuration that passes validation cannot make request handling
// fail.
//
// The check enumerates ALL configurations obtained from config.dist.yaml by
// changing one field (quick and thorough), one cross-referenced pair of fields
// (quick and thorough) or any two fields of the same top-level section
// (thorough) to every value of a small boundary alphabet.  The YAML *text* is
// mutated (no YAML library is involved in producing the input), every mutated
// text is parsed by the real parseConfig, validated by the real
// configuration.validate and, if accepted, converted with the real toInternal
// / builder methods into the real rate limiter, connection limiter, caches,
// DNS servers, filters, … which then receive representative traffic.
//
// Oracle (restates the property, nothing more):
//
//	accepted  => no panic / division by zero in constructors or traffic, the
//	             first request of a fresh client is served (no unserviceable
//	             limit), and no value that the repository documents as
//	             positive is zero or negative;
//	rejected  => no panic, and the error text of validate() names the YAML
//	             property that was changed.
//
// Where the statement is silent the oracle is indifferent: tiny positive
// timeouts, rejected-at-YAML-level inputs (only "no panic" is required there)
// and fields whose documentation allows zero are never alarmed on.

import (
	"fmt"
	"io"
	"os"
	"path/filepath"
	"regexp"
	"runtime"
	"sort"
	"strings"
	"testing"

	"github.com/AdguardTeam/AdGuardDNS/internal/dnsserver/zzverif/vrt"
	"github.com/AdguardTeam/golibs/log"
)

// ---------------------------------------------------------------------------
// YAML text indexer and mutator (independent of any YAML library).
// ---------------------------------------------------------------------------

// c20Leaf is one "key: scalar" line of the baseline configuration.
type c20Leaf struct {
	Path string // dotted path, list items as [i]
	Key  string // last key (the YAML property name)
	Val  string // scalar text without quotes
	Kind string // int | duration | size | enum | bool | hint4 | hint6 | section | other
	Line int    // 0-based line index in the baseline

	// End is the line after the last line of the block, for sections.
	End int

	Col  int    // column where the value text starts
	Sect string // top-level section
}

var (
	c20ReInt  = regexp.MustCompile(`^-?[0-9]+$`)
	c20ReDur  = regexp.MustCompile(`^[0-9]+(ns|us|ms|s|m|h|d)$`)
	c20ReSize = regexp.MustCompile(`^[0-9]+(B|KB|MB|GB|TB)$`)
)

// c20SizeTyped lists the integer-looking baseline values whose Go type is
// datasize.ByteSize.
var c20SizeTyped = map[string]bool{
	"network.so_sndbuf": true,
	"network.so_rcvbuf": true,
}

// c20Enums lists the enum-typed fields together with the values documented in
// doc/configuration.md.
var c20Enums = map[string][]string{
	"ratelimit.allowlist.type":             {"backend", "consul"},
	"cache.type":                           {"simple", "ecs"},
	"check.kv.type":                        {"backend", "cache", "consul", "redis"},
	"server_groups[0].servers[0].protocol": {"dns", "dnscrypt", "https", "quic", "tls"},
	"server_groups[0].servers[1].protocol": {"dns", "dnscrypt", "https", "quic", "tls"},
	"server_groups[0].servers[4].protocol": {"dns", "dnscrypt", "https", "quic", "tls"},
}

// c20SplitKey splits "key: value" (key may be quoted).  ok is false if the
// line has no key.
func c20SplitKey(s string) (key, rest string, restOff int, ok bool) {
	if s == "" {
		return "", "", 0, false
	}
	if s[0] == '\'' || s[0] == '"' {
		q := s[0]
		end := strings.IndexByte(s[1:], q)
		if end < 0 {
			return "", "", 0, false
		}
		end++
		if end+1 >= len(s) || s[end+1] != ':' {
			return "", "", 0, false
		}
		key = s[1:end]
		after := end + 2
		rest = s[after:]
		trim := strings.TrimLeft(rest, " ")
		return key, trim, after + len(rest) - len(trim), true
	}
	for i := 0; i < len(s); i++ {
		if s[i] == ':' && (i+1 == len(s) || s[i+1] == ' ') {
			key = s[:i]
			rest = s[i+1:]
			trim := strings.TrimLeft(rest, " ")
			return key, trim, i + 1 + len(rest) - len(trim), true
		}
	}

	return "", "", 0, false
}

func c20Unquote(s string) string {
	s = strings.TrimSpace(s)
	if len(s) >= 2 && (s[0] == '\'' || s[0] == '"') && s[len(s)-1] == s[0] {
		return s[1 : len(s)-1]
	}

	return s
}

// c20Index returns all "key: scalar" leaves of the YAML text.
func c20Index(lines []string) (leaves []c20Leaf) {
	type frame struct {
		indent int
		name   string
	}
	var stack []frame
	path := func() string {
		var sb strings.Builder
		for i, f := range stack {
			if i > 0 && !strings.HasPrefix(f.name, "[") {
				sb.WriteByte('.')
			}
			sb.WriteString(f.name)
		}

		return sb.String()
	}
	listIdx := map[string]int{}
	for li, line := range lines {
		trimmed := strings.TrimLeft(line, " ")
		if trimmed == "" || trimmed[0] == '#' {
			continue
		}
		indent := len(line) - len(trimmed)
		body := trimmed
		if strings.HasPrefix(trimmed, "- ") {
			for len(stack) > 0 && stack[len(stack)-1].indent >= indent {
				stack = stack[:len(stack)-1]
			}
			parent := path()
			idx := listIdx[parent]
			listIdx[parent] = idx + 1
			stack = append(stack, frame{indent: indent, name: fmt.Sprintf("[%d]", idx)})
			body = trimmed[2:]
			indent += 2
			if _, _, _, ok := c20SplitKey(body); !ok {
				// Scalar list item; only the DDR address hints are fields
				// of the enumeration.
				pkey := ""
				if len(stack) >= 2 {
					pkey = stack[len(stack)-2].name
				}
				kind := map[string]string{"ipv4_hints": "hint4", "ipv6_hints": "hint6"}[pkey]
				if kind != "" {
					p := path()
					sect := p
					if i := strings.IndexAny(p, ".["); i >= 0 {
						sect = p[:i]
					}
					leaves = append(leaves, c20Leaf{
						Path: p, Key: pkey, Val: c20Unquote(body), Kind: kind, Line: li,
						Col: indent, Sect: sect,
					})
				}

				continue
			}
		} else {
			for len(stack) > 0 && stack[len(stack)-1].indent >= indent {
				stack = stack[:len(stack)-1]
			}
		}
		key, rest, off, ok := c20SplitKey(body)
		if !ok {
			continue
		}
		stack = append(stack, frame{indent: indent, name: key})
		if rest == "" {
			// A mapping or a list follows.  A mapping is a field of the
			// enumeration as a whole ("section missing"), unless it is
			// itself the first key of a list item.
			if end, isMap := c20Block(lines, li, indent); isMap && !strings.HasPrefix(trimmed, "- ") {
				p := path()
				sect := p
				if i := strings.IndexAny(p, ".["); i >= 0 {
					sect = p[:i]
				}
				leaves = append(leaves, c20Leaf{
					Path: p + "{}", Key: key, Kind: "section", Line: li, End: end, Col: indent, Sect: sect,
				})
			}

			continue
		}
		p := path()
		val := c20Unquote(rest)
		kind := "other"
		switch {
		case c20Enums[p] != nil:
			kind = "enum"
		case c20SizeTyped[p] || c20ReSize.MatchString(val):
			kind = "size"
		case c20ReInt.MatchString(val):
			kind = "int"
		case c20ReDur.MatchString(val):
			kind = "duration"
		case val == "true" || val == "false":
			kind = "bool"
		}
		sect := p
		if i := strings.IndexAny(p, ".["); i >= 0 {
			sect = p[:i]
		}
		leaves = append(leaves, c20Leaf{
			Path: p, Key: key, Val: val, Kind: kind, Line: li,
			Col: indent + off, Sect: sect,
		})
	}

	return leaves
}

// c20Block returns the end (exclusive) of the block of more-indented lines
// below the key line li and whether the block is a mapping (not a list, not
// empty).  Trailing blank and comment lines are not part of the block.
func c20Block(lines []string, li, indent int) (end int, isMap bool) {
	end = li + 1
	first := true
	for j := li + 1; j < len(lines); j++ {
		t := strings.TrimLeft(lines[j], " ")
		if t == "" || t[0] == '#' {
			continue
		}
		if len(lines[j])-len(t) <= indent {
			break
		}
		if first {
			isMap = !strings.HasPrefix(t, "- ")
			first = false
		}
		end = j + 1
	}

	return end, isMap
}

// c20Missing is the pseudo-value that removes the line.
const c20Missing = "<missing>"

// Value alphabets per kind ("boundary, zero, negative, huge or missing").
//
// 2^31 is in the alphabet only for byte sizes (the documented maximum of the
// socket buffer sizes is 2^31-1): as an *entry count* it would make the real
// constructors allocate multi-gigabyte tables in every shard, which is not a
// failure class of the statement.
var (
	c20IntVals = []string{"0", "-1", "1", "32", "33", "128", "129", "65535", "65536",
		"9223372036854775807", "9223372036854775808", "18446744073709551615", c20Missing}
	// DDR address hints: an address of the other family, an IPv4-mapped IPv6
	// address, the unspecified address, no hint.
	c20Hint4Vals = []string{"::1", "::ffff:1.2.3.4", "0.0.0.0", c20Missing}
	c20Hint6Vals = []string{"1.2.3.4", "::ffff:1.2.3.4", "::", c20Missing}
	c20DurVals   = []string{"0s", "-1s", "1ns", "1s", "2562047h47m16.854775807s", c20Missing}
	c20SizeVals  = []string{"0B", "-1B", "1B", "65535B", "65536B", "64KB", "65537B", "2147483647B",
		"2147483648B", "2GB", "18446744073709551615B", c20Missing}
	c20BoolVals = []string{"true", "false", c20Missing}
)

// c20ExtraVals are additional values of single fields: small stop / resume
// thresholds, so that the cross-referenced pair contains (stop, resume) =
// (4,1), (10,0), (3,1), (2,2), … and the limiter history stays short.
//
// Both sides of the documented bounds that are not in the general alphabets:
// dns.tcp_idle_timeout <= 65535 * 100 ms, check.kv.ttl in [10s, 1d] for consul
// and >= 1ms for redis.  (Sizes: 65535 B / 65536 B = 64KB / 65537 B for the
// maximum DNS message, 2^31-1 / 2^31 B = 2GB for the socket buffers; ports
// 65535 / 65536; key lengths 32 / 33 and 128 / 129 are in the general
// alphabets.  The 2^31-1 bound of ratelimit.*.count and channel_buffer_size is
// not approached from below: an accepted 2^31-1 makes the real constructors
// allocate 16 GiB tables.)
var c20ExtraVals = map[string][]string{
	"ratelimit.connection_limit.stop":   {"2", "3", "4", "10"},
	"ratelimit.connection_limit.resume": {"2"},
	// A chan struct{} buffer costs no memory per slot, so these are safe to
	// build; 2^63 and 2^64-1 are in the general integer alphabet.
	"ratelimit.tcp.max_pipeline_count": {"2147483648", "4294967296", "4611686018427387904"},
	"dns.tcp_idle_timeout":             {"1h49m13.5s", "1h49m13.6s"},
	"dns.max_udp_response_size":        {"511B", "512B", "513B", "2048B", "4096B", "4097B"},
	"check.kv.ttl":                     {"999us", "1ms", "9s", "10s", "24h", "24h0m1s"},
}

func c20Values(l *c20Leaf) (vals []string) {
	defer func() {
		for _, v := range c20ExtraVals[l.Path] {
			if v != l.Val {
				vals = append(vals, v)
			}
		}
	}()
	switch l.Kind {
	case "section":
		return []string{c20Missing}
	case "int":
		vals = c20IntVals
	case "duration":
		vals = c20DurVals
	case "size":
		vals = c20SizeVals
	case "bool":
		vals = c20BoolVals
	case "hint4":
		vals = c20Hint4Vals
	case "hint6":
		vals = c20Hint6Vals
	case "enum":
		vals = append([]string{}, c20Enums[l.Path]...)
		vals = append(vals, "", "bogus", c20Missing)
	default:
		return nil
	}
	out := make([]string, 0, len(vals))
	for _, v := range vals {
		if v != l.Val {
			out = append(out, v)
		}
	}

	return out
}

// c20Mut is one changed field.
type c20Mut struct {
	Path  string `json:"path"`
	Value string `json:"value"`
}

// c20Case is one mutated configuration; it fully determines the execution.
type c20Case struct {
	Muts []c20Mut `json:"muts"`

	// Variant, if not empty, names a structural variant of the example (see
	// c20Variants); it is not combined with field changes.
	Variant string `json:"variant,omitempty"`
}

func (c c20Case) String() string {
	if c.Variant != "" {
		return "config.dist.yaml, variant " + c.Variant + " (" + c20Variants[c.Variant] + ")"
	}
	if len(c.Muts) == 0 {
		return "the unchanged config.dist.yaml"
	}
	var parts []string
	for _, m := range c.Muts {
		parts = append(parts, m.Path+"="+m.Value)
	}

	return strings.Join(parts, " & ")
}

// c20World is the per-process state: baseline text and index.
type c20World struct {
	t      *testing.T
	lines  []string
	leaves []c20Leaf
	byPath map[string]*c20Leaf
	tmp    string

	// restart tells build to run the restart-from-profile-cache history; it
	// is set for the unchanged example and all single-field cases.
	restart bool
	confFn  string
	geoASN  string
	geoCtry string
}

// c20Apply returns the mutated YAML text.
func (w *c20World) apply(c c20Case) (text string, err error) {
	if c.Variant != "" {
		if len(c.Muts) > 0 {
			return "", fmt.Errorf("variant %q combined with field changes", c.Variant)
		}
		lines, verr := c20ApplyVariant(w.lines, c.Variant)
		if verr != nil {
			return "", verr
		}

		return strings.Join(lines, "\n") + "\n", nil
	}
	lines := append([]string{}, w.lines...)
	drop := map[int]bool{}
	for _, m := range c.Muts {
		l := w.byPath[m.Path]
		if l == nil {
			return "", fmt.Errorf("unknown path %q", m.Path)
		}
		if l.Kind == "section" {
			if m.Value != c20Missing {
				return "", fmt.Errorf("section %q can only be removed", m.Path)
			}
			for i := l.Line; i < l.End; i++ {
				drop[i] = true
			}

			continue
		}
		if m.Value == c20Missing {
			drop[l.Line] = true

			continue
		}
		v := m.Value
		if l.Kind == "enum" || l.Kind == "hint4" || l.Kind == "hint6" || v == "" {
			v = "'" + v + "'"
		}
		lines[l.Line] = lines[l.Line][:l.Col] + v
	}
	var sb strings.Builder
	for i, ln := range lines {
		if drop[i] {
			continue
		}
		sb.WriteString(ln)
		sb.WriteByte('\n')
	}

	return sb.String(), nil
}

// c20Variants are structural variants of the example that doc/configuration.md
// allows ("The tls object is optional unless the servers array contains at
// least one item with an encrypted protocol").
var c20Variants = map[string]string{
	"plain-dns-only-group-without-tls":  "the server group keeps only its plain-DNS server, its tls section is removed",
	"extra-plain-dns-group-without-tls": "a second server group with one plain-DNS server and no tls section is added",
}

// c20ApplyVariant returns the lines of the example changed to the variant.
func c20ApplyVariant(base []string, name string) (lines []string, err error) {
	find := func(from int, prefix string) int {
		for i := from; i < len(base); i++ {
			if strings.HasPrefix(base[i], prefix) {
				return i
			}
		}

		return -1
	}
	sg := find(0, "server_groups:")
	tls := find(sg, "    tls:")
	servers := find(sg, "    servers:")
	dot := find(servers, "      - name: 'default_dot'")
	prof := find(servers, "    profiles_enabled:")
	if sg < 0 || tls < 0 || servers < tls || dot < servers || prof < dot {
		return nil, fmt.Errorf("variant %s: unexpected layout of config.dist.yaml", name)
	}
	switch name {
	case "plain-dns-only-group-without-tls":
		lines = append(lines, base[:tls]...)
		lines = append(lines, base[servers:dot]...)
		lines = append(lines, base[prof:]...)
	case "extra-plain-dns-group-without-tls":
		lines = append(lines, base[:prof+1]...)
		lines = append(lines,
			"  - name: 'verif_plain_group'",
			"    filtering_group: 'default'",
			"    ddr:",
			"        enabled: false",
			"    servers:",
			"      - name: 'verif_plain_dns'",
			"        protocol: 'dns'",
			"        linked_ip_enabled: false",
			"        bind_addresses:",
			"          - '127.0.0.1:5354'",
			"    profiles_enabled: false",
		)
		lines = append(lines, base[prof+1:]...)
	default:
		return nil, fmt.Errorf("unknown variant %q", name)
	}

	return lines, nil
}

// sections returns the "section" leaves.
func (w *c20World) sections() (ls []*c20Leaf) {
	for i := range w.leaves {
		if w.leaves[i].Kind == "section" {
			ls = append(ls, &w.leaves[i])
		}
	}

	return ls
}

// c20Parent returns the path of the mapping that directly contains l, "" for
// top-level keys, and ok=false for list items.
func c20Parent(l *c20Leaf) (parent string, ok bool) {
	p := strings.TrimSuffix(l.Path, "{}")
	if p == l.Key {
		return "", true
	}
	if !strings.HasSuffix(p, "."+l.Key) {
		return "", false
	}

	return strings.TrimSuffix(p, "."+l.Key), true
}

// genSectionMissing removes every nested mapping of the example on its own.
func (w *c20World) genSectionMissing(emit func(c20Case)) {
	for _, sec := range w.sections() {
		emit(c20Case{Muts: []c20Mut{{Path: sec.Path, Value: c20Missing}}})
	}
}

// genSectionMissingPairs combines every removed section with every value of
// every scalar field that is a direct child of the same parent mapping.
func (w *c20World) genSectionMissingPairs(emit func(c20Case)) {
	for _, sec := range w.sections() {
		sp, ok := c20Parent(sec)
		if !ok {
			continue
		}
		for i := range w.leaves {
			l := &w.leaves[i]
			lp, lok := c20Parent(l)
			if l.Kind == "section" || !lok || lp != sp {
				continue
			}
			for _, v := range c20Values(l) {
				emit(c20Case{Muts: []c20Mut{{Path: l.Path, Value: v}, {Path: sec.Path, Value: c20Missing}}})
			}
		}
	}
}

func (w *c20World) genVariants(emit func(c20Case)) {
	names := make([]string, 0, len(c20Variants))
	for n := range c20Variants {
		names = append(names, n)
	}
	sort.Strings(names)
	for _, n := range names {
		emit(c20Case{Variant: n})
	}
}

// ---------------------------------------------------------------------------
// "Documented as positive" table (hand-made from the repository's
// documentation, NOT computed from the code under test).
// ---------------------------------------------------------------------------

// c20Pos describes one field that the repository documents as positive.
type c20Pos struct {
	// Src quotes where the repository says so.
	Src string

	// Cond, if not nil, restricts the requirement to configurations in which
	// the field is in use.
	Cond func(c *configuration) bool
}

const (
	c20SrcVP  = "validate() passes it to validatePositive (\"returns an error if v is not a positive number\")"
	c20SrcNP  = "validate() reports it with newNotPositiveError"
	c20SrcLRU = "agdcache.LRUConfig.Count: \"It must be positive\""
)

var c20Positive = map[string]c20Pos{
	"ratelimit.ipv4.count":          {Src: "ratelimit.BackoffConfig.IPv4Count: \"It must be greater than zero\"; " + c20SrcVP},
	"ratelimit.ipv6.count":          {Src: "ratelimit.BackoffConfig.IPv6Count: \"It must be greater than zero\"; " + c20SrcVP},
	"ratelimit.ipv4.subnet_key_len": {Src: "ratelimit.BackoffConfig.IPv4SubnetKeyLen: \"Must be greater than zero\"; " + c20SrcVP},
	"ratelimit.ipv6.subnet_key_len": {Src: "ratelimit.BackoffConfig.IPv6SubnetKeyLen: \"Must be greater than zero\"; " + c20SrcVP},
	"ratelimit.ipv4.interval":       {Src: c20SrcVP},
	"ratelimit.ipv6.interval":       {Src: c20SrcVP},
	"ratelimit.backoff_count":       {Src: c20SrcVP},
	"ratelimit.backoff_duration":    {Src: c20SrcVP},
	"ratelimit.backoff_period":      {Src: c20SrcVP},
	"ratelimit.response_size_estimate": {
		Src: c20SrcVP + "; used as a divisor in Backoff.CountResponses",
	},
	"ratelimit.allowlist.refresh_interval": {Src: c20SrcVP},
	"ratelimit.connection_limit.stop": {
		Src:  "connLimitConfig.Stop: \"Stop must be greater than zero\"",
		Cond: func(c *configuration) bool { return c.RateLimit.ConnectionLimit.Enabled },
	},
	"ratelimit.tcp.max_pipeline_count": {
		Src:  "dnsserver.ConfigDNS.MaxPipelineCount: \"If MaxPipelineEnabled is true, it must be greater than zero\"; " + c20SrcVP,
		Cond: func(c *configuration) bool { return c.RateLimit.TCP.Enabled },
	},
	"ratelimit.quic.max_streams_per_peer": {
		Src:  c20SrcVP,
		Cond: func(c *configuration) bool { return c.RateLimit.QUIC.Enabled },
	},
	"cache.ecs_size": {
		Src:  "doc/configuration.md cache.type: \"If set to ecs, ecs_size must be greater than zero\"",
		Cond: func(c *configuration) bool { return c.Cache.Type == cacheTypeECS && c.Cache.Size != 0 },
	},
	"cache.ttl_override.min": {
		Src:  c20SrcNP,
		Cond: func(c *configuration) bool { return c.Cache.TTLOverride.Enabled },
	},
	"dns.read_timeout":          {Src: c20SrcNP},
	"dns.tcp_idle_timeout":      {Src: c20SrcNP},
	"dns.write_timeout":         {Src: c20SrcNP},
	"dns.handle_timeout":        {Src: "dnssvc.Config.HandleTimeout: \"It must be greater than zero\""},
	"dns.max_udp_response_size": {Src: c20SrcNP},
	"dnsdb.max_size": {
		Src:  c20SrcNP,
		Cond: func(c *configuration) bool { return c.DNSDB.Enabled },
	},
	"upstream.servers[0].timeout":          {Src: c20SrcNP},
	"upstream.servers[1].timeout":          {Src: c20SrcNP},
	"upstream.fallback.servers[0].timeout": {Src: c20SrcNP},
	"upstream.fallback.servers[1].timeout": {Src: c20SrcNP},
	"upstream.healthcheck.interval": {
		Src:  c20SrcNP,
		Cond: func(c *configuration) bool { return c.Upstream.Healthcheck.Enabled },
	},
	"upstream.healthcheck.timeout": {
		Src:  c20SrcNP,
		Cond: func(c *configuration) bool { return c.Upstream.Healthcheck.Enabled },
	},
	"upstream.healthcheck.backoff_duration": {
		Src:  c20SrcNP,
		Cond: func(c *configuration) bool { return c.Upstream.Healthcheck.Enabled },
	},
	"backend.refresh_interval":            {Src: c20SrcNP},
	"backend.full_refresh_interval":       {Src: c20SrcNP},
	"backend.full_refresh_retry_interval": {Src: c20SrcNP},
	"backend.bill_stat_interval":          {Src: c20SrcNP},
	"geoip.host_cache_size":               {Src: c20SrcNP},
	"geoip.ip_cache_size":                 {Src: c20SrcNP + "; " + c20SrcLRU},
	"geoip.refresh_interval":              {Src: c20SrcNP},
	"check.kv.ttl": {
		Src:  "doc/configuration.md check.kv.ttl: \"For backend, the TTL must be greater than 0s\"",
		Cond: func(c *configuration) bool { return c.Check.RemoteKV.Type == kvModeBackend },
	},
	"web.timeout":                       {Src: c20SrcNP},
	"safe_browsing.cache_size":          {Src: c20SrcNP + "; " + c20SrcLRU},
	"safe_browsing.cache_ttl":           {Src: c20SrcNP},
	"safe_browsing.refresh_interval":    {Src: c20SrcNP},
	"safe_browsing.refresh_timeout":     {Src: c20SrcNP},
	"adult_blocking.cache_size":         {Src: c20SrcNP + "; " + c20SrcLRU},
	"adult_blocking.cache_ttl":          {Src: c20SrcNP},
	"adult_blocking.refresh_interval":   {Src: c20SrcNP},
	"adult_blocking.refresh_timeout":    {Src: c20SrcNP},
	"filters.safe_search_cache_size":    {Src: c20SrcVP + "; " + c20SrcLRU},
	"filters.response_ttl":              {Src: c20SrcVP},
	"filters.refresh_interval":          {Src: c20SrcVP},
	"filters.refresh_timeout":           {Src: c20SrcVP},
	"filters.index_refresh_timeout":     {Src: c20SrcVP},
	"filters.rule_list_refresh_timeout": {Src: c20SrcVP},
	"filters.max_size":                  {Src: c20SrcVP},
	"filters.rule_list_cache.size": {
		Src:  c20SrcNP + "; " + c20SrcLRU,
		Cond: func(c *configuration) bool { return c.Filters.RuleListCache.Enabled },
	},
	"interface_listeners.channel_buffer_size": {Src: c20SrcNP},
	// NOT listed on purpose (oracle indifferent):
	//  - filters.custom_filter_cache_size: doc/configuration.md says "Zero means
	//    no caching", the code passes it to validatePositive;
	//  - ratelimit.connection_limit.resume: the struct comment says "greater
	//    than zero" but zero is a serviceable setting (resume when idle);
	//  - backend.timeout: "Zero means no timeout";
	//  - cache.size: "If zero, cache is disabled"; network.so_*buf; DDR ports.
}

// c20NonPositive reports whether the mutation value is zero, negative or
// absent.
func c20NonPositive(v string) bool {
	switch v {
	case "0", "-1", "0s", "-1s", "0B", "-1B", c20Missing:
		return true
	}

	return false
}

// ---------------------------------------------------------------------------
// Case execution and oracle.
// ---------------------------------------------------------------------------

// c20Outcome is the observation of one configuration.
type c20Outcome struct {
	Class    string   // rejected/parse | rejected/validate | accepted
	Err      string   // error text if rejected
	Problems []c20Pb  // behavioural problems of an accepted configuration
	Steps    int      // real-code steps executed
	Obs      []string // per-component observations
}

// c20Pb is one behavioural problem.
type c20Pb struct {
	Kind   string // panic | unserviceable
	Where  string // component
	Detail string

	// Key, if not empty, is the complete finding key: the problem is a defect
	// of the component for configurations that are valid by any reading, not
	// of the validation of the changed fields.
	Key string
}

// eval runs one configuration against the real code.
func (w *c20World) eval(c c20Case) (o c20Outcome, fs []vrt.Finding) {
	text, err := w.apply(c)
	if err != nil {
		vrt.Fatalf("applying %v: %v", c, err)
	}
	if err = os.WriteFile(w.confFn, []byte(text), 0o600); err != nil {
		vrt.Fatalf("writing config: %v", err)
	}
	var conf *configuration
	var perr error
	if p := vrt.Catch(func() { conf, perr = parseConfig(w.confFn) }); p != "" {
		o.Class = "panic/parse"
		o.Problems = append(o.Problems, c20Pb{Kind: "panic", Where: "parseConfig", Detail: p})

		return o, nil
	}
	o.Steps++
	if perr != nil {
		o.Class = "rejected/parse"
		o.Err = perr.Error()

		return o, nil
	}
	var verr error
	if p := vrt.Catch(func() { verr = conf.validate() }); p != "" {
		o.Class = "panic/validate"
		o.Problems = append(o.Problems, c20Pb{Kind: "panic", Where: "validate", Detail: p})

		return o, nil
	}
	o.Steps++
	if verr != nil {
		o.Class = "rejected/validate"
		o.Err = verr.Error()

		return o, nil
	}
	o.Class = "accepted"
	for _, m := range c.Muts {
		pos, ok := c20Positive[m.Path]
		if !ok || !c20NonPositive(m.Value) {
			continue
		}
		if pos.Cond != nil && !pos.Cond(conf) {
			continue
		}
		fs = append(fs, vrt.Finding{
			Key: "accepted-nonpositive/" + m.Path,
			Detail: fmt.Sprintf("%s is accepted by validate() with value %s although it is documented as positive (%s)",
				m.Path, m.Value, pos.Src),
		})
	}
	w.restart = len(c.Muts) <= 1
	w.build(conf, &o)
	if o.Class != "accepted" {
		// Rejected by a constructor of the start-up sequence after all.
		fs = nil
	}

	return o, fs
}

// c20Named reports whether the validation error names one of the changed
// properties.  If a case removes every property of a mapping, the mapping
// itself has become empty and its own name is the offending property.
func (w *c20World) named(c c20Case, errText string) bool {
	removed := map[string]bool{}
	for _, m := range c.Muts {
		if m.Value == c20Missing {
			removed[m.Path] = true
		}
	}
	for _, m := range c.Muts {
		l := w.byPath[m.Path]
		if c20ContainsWord(errText, l.Key) {
			return true
		}
		if m.Value != c20Missing {
			continue
		}
		parent := strings.TrimSuffix(strings.TrimSuffix(l.Path, "{}"), "."+l.Key)
		if parent == strings.TrimSuffix(l.Path, "{}") {
			continue
		}
		empty := true
		for i := range w.leaves {
			o := &w.leaves[i]
			if strings.HasPrefix(o.Path, parent+".") && !removed[o.Path] && !w.inRemovedSection(o, removed) {
				empty = false
			}
		}
		pk := parent
		if i := strings.LastIndexByte(parent, '.'); i >= 0 {
			pk = parent[i+1:]
		}
		if empty && c20ContainsWord(errText, pk) {
			return true
		}
	}

	return false
}

// inRemovedSection reports whether o lies inside a section removed by the case.
func (w *c20World) inRemovedSection(o *c20Leaf, removed map[string]bool) bool {
	for p := range removed {
		if sec := w.byPath[p]; sec != nil && sec.Kind == "section" &&
			strings.HasPrefix(o.Path, strings.TrimSuffix(p, "{}")+".") {
			return true
		}
	}

	return false
}

// c20ContainsWord reports whether s contains the YAML name as a whole word
// ("size" does not name "max_size").
func c20ContainsWord(s, name string) bool {
	isW := func(b byte) bool {
		return b == '_' || b >= '0' && b <= '9' || b >= 'a' && b <= 'z' || b >= 'A' && b <= 'Z'
	}
	for i := 0; ; {
		j := strings.Index(s[i:], name)
		if j < 0 {
			return false
		}
		j += i
		e := j + len(name)
		if (j == 0 || !isW(s[j-1])) && (e == len(s) || !isW(s[e])) {
			return true
		}
		i = j + 1
	}
}

// sameRejection reports whether the rejection of a pair is the rejection of
// one of its two single changes (same error text), which is a case of its own
// in every tier.
func (w *c20World) sameRejection(c c20Case, errText string) bool {
	if len(c.Muts) < 2 {
		return false
	}
	for _, m := range c.Muts {
		so, _ := w.eval(c20Case{Muts: []c20Mut{m}})
		if so.Class == "rejected/validate" && so.Err == errText {
			return true
		}
	}

	return false
}

func c20Field(c c20Case) string {
	if c.Variant != "" {
		return "structure." + c.Variant
	}
	if len(c.Muts) == 0 {
		return "baseline"
	}
	var ps []string
	for _, m := range c.Muts {
		ps = append(ps, m.Path)
	}

	return strings.Join(ps, "+")
}

// runCase evaluates one case and applies the oracle.
func (w *c20World) runCase(r *vrt.Run, c c20Case) (fs []vrt.Finding) {
	o, fs := w.eval(c)
	if os.Getenv("VERIF_C20_TRACE") != "" {
		fmt.Fprintf(os.Stderr, "  -> %s %q %v\n", o.Class, o.Err, o.Obs)
	}
	r.Trans(o.Steps)
	r.Class(o.Class)
	r.State(o.Class + "|" + o.Err + "|" + strings.Join(o.Obs, ";"))
	if o.Class == "rejected/validate" && !w.named(c, o.Err) && !w.sameRejection(c, o.Err) {
		fs = append(fs, vrt.Finding{
			Key: "rejected-unnamed/" + c20Field(c),
			Detail: fmt.Sprintf("%v is rejected, but the error does not name the changed property: %q",
				c, o.Err),
		})
	}
	if len(o.Problems) == 0 {
		return fs
	}
	// Attribute behavioural problems to the smallest set of changed fields: a
	// problem of a pair that one of its two single changes reproduces on its
	// own belongs to that single change, which is a case of its own in every
	// tier.
	var problems []c20Pb
	for _, p := range o.Problems {
		if p.Key == "" {
			problems = append(problems, p)

			continue
		}
		fs = append(fs, vrt.Finding{
			Key:    p.Key,
			Detail: fmt.Sprintf("%v is %s, then %s: %s", c, o.Class, p.Kind, c20Short(p.Detail)),
		})
	}
	if len(c.Muts) > 1 && len(problems) > 0 {
		explained := map[string]bool{}
		for _, m := range c.Muts {
			so, _ := w.eval(c20Case{Muts: []c20Mut{m}})
			for _, p := range so.Problems {
				explained[p.Kind+"/"+p.Where] = true
			}
		}
		all := problems
		problems = nil
		for _, p := range all {
			if explained[p.Kind+"/"+p.Where] {
				r.Count("pair-problems-explained-by-single", 1)

				continue
			}
			problems = append(problems, p)
		}
	}
	seen := map[string]bool{}
	for _, p := range problems {
		key := p.Kind + "/" + c20Field(c)
		if seen[key] {
			continue
		}
		seen[key] = true
		fs = append(fs, vrt.Finding{
			Key: key,
			Detail: fmt.Sprintf("%v is %s, then %s: %s: %s", c, o.Class, p.Kind, p.Where,
				c20Short(p.Detail)),
		})
	}

	return fs
}

func c20Short(s string) string {
	s = strings.ReplaceAll(s, "\n", " ")
	if len(s) > 300 {
		s = s[:300] + "…"
	}

	return s
}

// ---------------------------------------------------------------------------
// Enumeration.
// ---------------------------------------------------------------------------

// c20CrossRefs are the cross-referenced field pairs (both tiers): every value
// of the first field is combined with every value of the second one.
var c20CrossRefs = [][2]string{
	{"ratelimit.connection_limit.stop", "ratelimit.connection_limit.resume"},
	{"ratelimit.connection_limit.enabled", "ratelimit.connection_limit.stop"},
	{"ratelimit.connection_limit.enabled", "ratelimit.connection_limit.resume"},
	{"ratelimit.tcp.enabled", "ratelimit.tcp.max_pipeline_count"},
	{"ratelimit.quic.enabled", "ratelimit.quic.max_streams_per_peer"},
	{"ratelimit.ipv4.subnet_key_len", "ratelimit.ipv6.subnet_key_len"},
	{"ratelimit.ipv4.count", "ratelimit.backoff_count"},
	{"cache.type", "cache.size"},
	{"cache.type", "cache.ecs_size"},
	{"cache.size", "cache.ecs_size"},
	{"cache.ttl_override.enabled", "cache.ttl_override.min"},
	{"check.kv.type", "check.kv.ttl"},
	{"dnsdb.enabled", "dnsdb.max_size"},
	{"upstream.healthcheck.enabled", "upstream.healthcheck.interval"},
	{"upstream.healthcheck.enabled", "upstream.healthcheck.timeout"},
	{"upstream.healthcheck.enabled", "upstream.healthcheck.backoff_duration"},
	{"filters.rule_list_cache.enabled", "filters.rule_list_cache.size"},
	{"filters.ede_enabled", "filters.sde_enabled"},
	{"dns.read_timeout", "dns.tcp_idle_timeout"},
	{"dns.handle_timeout", "ratelimit.tcp.max_pipeline_count"},
	{"server_groups[0].ddr.public_records.dns.example.com.https_port",
		"server_groups[0].ddr.public_records.dns.example.com.tls_port"},
}

// mutable returns the leaves that are mutated on their own.
func (w *c20World) mutable() (ls []*c20Leaf) {
	for i := range w.leaves {
		l := &w.leaves[i]
		switch l.Kind {
		case "int", "duration", "size", "enum", "hint4", "hint6":
			ls = append(ls, l)
		}
	}

	return ls
}

func (w *c20World) genSingles(emit func(c20Case)) {
	// Baseline first.
	emit(c20Case{})
	for _, l := range w.mutable() {
		for _, v := range c20Values(l) {
			emit(c20Case{Muts: []c20Mut{{Path: l.Path, Value: v}}})
		}
	}
}

func (w *c20World) genPair(a, b *c20Leaf, emit func(c20Case)) {
	for _, va := range c20Values(a) {
		for _, vb := range c20Values(b) {
			emit(c20Case{Muts: []c20Mut{{Path: a.Path, Value: va}, {Path: b.Path, Value: vb}}})
		}
	}
}

func (w *c20World) genCross(emit func(c20Case)) {
	for _, cr := range c20CrossRefs {
		a, b := w.byPath[cr[0]], w.byPath[cr[1]]
		if a == nil || b == nil {
			vrt.Fatalf("cross reference %v: no such field in config.dist.yaml", cr)
		}
		w.genPair(a, b, emit)
	}
}

func (w *c20World) genSectionPairs(emit func(c20Case)) {
	cross := map[[2]string]bool{}
	for _, cr := range c20CrossRefs {
		cross[cr] = true
		cross[[2]string{cr[1], cr[0]}] = true
	}
	ls := w.mutable()
	for i, a := range ls {
		for _, b := range ls[i+1:] {
			if a.Sect != b.Sect || cross[[2]string{a.Path, b.Path}] {
				continue
			}
			w.genPair(a, b, emit)
		}
	}
}

// c20Reduced is the reduced alphabet used for pairs of fields of different
// sections: zero, smallest positive, largest and missing.
func c20Reduced(l *c20Leaf) (vals []string) {
	var keep map[string]bool
	switch l.Kind {
	case "int":
		keep = map[string]bool{"0": true, "1": true, "9223372036854775807": true, c20Missing: true}
	case "duration":
		keep = map[string]bool{"0s": true, "1ns": true, "2562047h47m16.854775807s": true, c20Missing: true}
	case "size":
		keep = map[string]bool{"0B": true, "1B": true, "18446744073709551615B": true, c20Missing: true}
	default:
		return c20Values(l)
	}
	for _, v := range c20Values(l) {
		if keep[v] {
			vals = append(vals, v)
		}
	}

	return vals
}

func (w *c20World) genCrossSectionPairs(emit func(c20Case)) {
	cross := map[[2]string]bool{}
	for _, cr := range c20CrossRefs {
		cross[cr] = true
		cross[[2]string{cr[1], cr[0]}] = true
	}
	ls := w.mutable()
	for i, a := range ls {
		for _, b := range ls[i+1:] {
			if a.Sect == b.Sect || cross[[2]string{a.Path, b.Path}] {
				continue
			}
			for _, va := range c20Reduced(a) {
				for _, vb := range c20Reduced(b) {
					emit(c20Case{Muts: []c20Mut{{Path: a.Path, Value: va}, {Path: b.Path, Value: vb}}})
				}
			}
		}
	}
}

// ---------------------------------------------------------------------------
// Test entry point.
// ---------------------------------------------------------------------------

func c20RepoRoot() string {
	wd, err := os.Getwd()
	if err != nil {
		vrt.Fatalf("getwd: %v", err)
	}
	for d := wd; d != "/"; d = filepath.Dir(d) {
		if _, err = os.Stat(filepath.Join(d, "config.dist.yaml")); err == nil {
			return d
		}
	}
	vrt.Fatalf("config.dist.yaml not found above %s", wd)

	return ""
}

func TestVerifC20(t *testing.T) {
	r := vrt.Start("C20")
	log.SetOutput(io.Discard)

	root := c20RepoRoot()
	data, err := os.ReadFile(filepath.Join(root, "config.dist.yaml"))
	if err != nil {
		vrt.Fatalf("reading baseline: %v", err)
	}
	w := &c20World{
		t:       t,
		tmp:     t.TempDir(),
		byPath:  map[string]*c20Leaf{},
		geoASN:  filepath.Join(root, "internal/geoip/testdata/GeoIP2-ISP-Test.mmdb"),
		geoCtry: filepath.Join(root, "internal/geoip/testdata/GeoIP2-City-Test.mmdb"),
	}
	w.confFn = filepath.Join(w.tmp, "config.yaml")
	w.lines = w.prepareBaseline(strings.Split(strings.TrimRight(string(data), "\n"), "\n"))
	w.leaves = c20Index(w.lines)
	for i := range w.leaves {
		l := &w.leaves[i]
		if w.byPath[l.Path] != nil {
			vrt.Fatalf("duplicate path %s", l.Path)
		}
		w.byPath[l.Path] = l
	}
	for p, pos := range c20Positive {
		if w.byPath[p] == nil {
			vrt.Fatalf("documented-positive table: no field %s in config.dist.yaml (%s)", p, pos.Src)
		}
	}
	kinds := map[string]int{}
	var names []string
	for _, l := range w.mutable() {
		kinds[l.Kind]++
		names = append(names, l.Path)
	}
	sort.Strings(names)
	r.Bound("mutated_fields", len(names))
	var secs []string
	for _, sec := range w.sections() {
		secs = append(secs, sec.Path)
	}
	r.Bound("removable_sections", len(secs))
	r.Note("removable sections: %s", strings.Join(secs, " "))
	r.Bound("fields_by_kind", kinds)
	r.Bound("values_int", c20IntVals)
	r.Bound("values_duration", c20DurVals)
	r.Bound("values_size", c20SizeVals)
	r.Bound("cross_referenced_pairs", len(c20CrossRefs))
	r.Bound("extra_values", c20ExtraVals)
	r.Bound("structural_variants", len(c20Variants))
	r.Bound("deviations", vrt.Pick(r, "1 field; 2 cross-referenced fields", "1 field; 2 cross-referenced fields; any 2 fields of one section (full alphabet); any 2 fields of different sections (reduced alphabet: zero, smallest positive, largest, missing)"))
	r.Note("mutated fields: %s", strings.Join(names, " "))

	// The baseline must be accepted, otherwise the harness misrepresents the
	// code.  Behavioural problems of the accepted baseline are findings like
	// those of any other case (the baseline is the first case of part
	// "single", key suffix "baseline").
	if !r.Replaying() {
		o, _ := w.eval(c20Case{})
		if o.Class != "accepted" {
			vrt.Fatalf("baseline config.dist.yaml: class %s err %q problems %+v", o.Class, o.Err, o.Problems)
		}
	}

	n := 0
	run := func(c c20Case) (fs []vrt.Finding) {
		n++
		if os.Getenv("VERIF_C20_TRACE") != "" {
			fmt.Fprintf(os.Stderr, "case %d: %v\n", n, c)
		}
		if n%128 == 0 {
			// Reap the go-cache janitors of the rate limiters built so far.
			runtime.GC()
		}

		return w.runCase(r, c)
	}
	vrt.Part(r, "single", w.genSingles, run)
	vrt.Part(r, "structure", w.genVariants, run)
	vrt.Part(r, "section-missing", w.genSectionMissing, run)
	vrt.Part(r, "section-missing-pairs", w.genSectionMissingPairs, run)
	vrt.Part(r, "crossref", w.genCross, run)
	if r.Thorough() {
		vrt.Part(r, "section-pairs", w.genSectionPairs, run)
		vrt.Part(r, "cross-section-pairs", w.genCrossSectionPairs, run)
	}
	r.Finish()
	os.Exit(0)
}
