//go:build verif

package rulelist

import (
	"context"
	"fmt"
	"io"
	"log/slog"
	"net/http"
	"net/netip"
	"net/url"
	"os"
	"path/filepath"
	"strings"
	"testing"
	"time"

	"github.com/AdguardTeam/AdGuardDNS/internal/dnsserver/zzverif/vrt"
	"github.com/AdguardTeam/AdGuardDNS/internal/dnsserver/zzverif/xsched"
	"github.com/AdguardTeam/AdGuardDNS/internal/filter/internal/refreshable"
	"github.com/miekg/dns"
)

var c12lText string

type c12lTransport struct{}

func (c12lTransport) RoundTrip(r *http.Request) (*http.Response, error) {
	return &http.Response{StatusCode: 200, Status: "200 OK", Proto: "HTTP/1.1", ProtoMajor: 1, ProtoMinor: 1,
		Body: io.NopCloser(strings.NewReader(c12lText)), ContentLength: int64(len(c12lText)), Header: http.Header{}, Request: r}, nil
}

type c12lScenario struct {
	Name   string `json:"name"`
	V1, V2 string
	Host   string `json:"host"`
}

var c12lScenarios = []c12lScenario{
	{Name: "rule-removed", V1: "||blocked.test^\n", V2: "||other.test^\n", Host: "blocked.test"},
	{Name: "rule-added", V1: "||other.test^\n", V2: "||blocked.test^\n", Host: "blocked.test"},
}

type c12lEnv struct {
	f         *Refreshable
	refreshed bool
	during    bool
	after     *bool
	sc        c12lScenario
}

var (
	c12lDir string
	c12lSeq int
)

func c12lSetup(sc c12lScenario, s *xsched.Sched) *c12lEnv {
	c12lSeq++
	env := &c12lEnv{sc: sc}
	c12lText = sc.V1
	var err error
	env.f, err = NewRefreshable(&refreshable.Config{
		Logger: slog.New(slog.NewTextHandler(io.Discard, nil)), URL: &url.URL{Scheme: "http", Host: "lists.test", Path: "/rl"},
		ID: "rl_list", CachePath: filepath.Join(c12lDir, fmt.Sprintf("rl-%d.txt", c12lSeq%4)), Staleness: time.Nanosecond,
		Timeout: 5 * time.Second, MaxSize: 1 << 20,
	}, NewResultCache(100, true))
	if err != nil {
		vrt.Fatalf("rulelist: %v", err)
	}
	if err = env.f.Refresh(context.Background(), false); err != nil {
		vrt.Fatalf("initial refresh: %v", err)
	}
	ask := func() bool {
		return env.f.DNSResult(netip.MustParseAddr("192.0.2.1"), "", sc.Host, dns.TypeA, false) != nil
	}
	s.Go("Q1", func() { env.during = ask() })
	s.Go("R", func() {
		c12lText = sc.V2
		if rerr := env.f.Refresh(context.Background(), false); rerr != nil {
			vrt.Fatalf("refresh: %v", rerr)
		}
		env.refreshed = true
	})
	s.Go("Qafter", func() {
		s.Point("wait until Refresh has returned", func() bool { return env.refreshed })
		m := ask()
		env.after = &m
	})

	return env
}

type c12lCase struct {
	Scenario int   `json:"scenario"`
	Choices  []int `json:"choices"`
}

func c12lCheck(env *c12lEnv, x *xsched.Exec) []vrt.Finding {
	if x.Sched.Panicked != "" {
		return vrt.F("rulelist-race/panic", "%s", x.Sched.Panicked)
	}
	if x.Sched.Deadlock {
		return vrt.F("rulelist-race/deadlock", "blocked: %v", x.Sched.Blocked)
	}
	listed := strings.Contains(env.sc.V2, env.sc.Host)
	if env.after == nil || *env.after != listed {
		return vrt.F("rulelist-race/stale-result-after-refresh", "scenario %s: a lookup of %s started after Refresh returned matched=%v although the new list version says %v\nschedule:\n%s", env.sc.Name, env.sc.Host, env.after != nil && *env.after, listed, x.Sched.Describe())
	}

	return nil
}

func TestVerifC12RuleListRace(t *testing.T) {
	// The unit also serves C13 (a refresh never leaves a list serving a mix of
	// its previous and its new version): the driver then sets VERIF_PROP.
	prop := "C12"
	if p := os.Getenv("VERIF_PROP"); p != "" {
		prop = p
	}
	r := vrt.Start(prop)
	c12lDir = t.TempDir()
	// Refreshes replace their cache files with fsync; a tmpfs directory keeps
	// that cheap.  The files are real files either way.
	if d, derr := os.MkdirTemp("/dev/shm", "verif-c12-"); derr == nil {
		c12lDir = d
	}
	http.DefaultTransport = c12lTransport{}
	var rc c12lCase
	if r.ReplayCase("rulelist-race", &rc) {
		var env *c12lEnv
		x := xsched.Replay(rc.Choices, func(s *xsched.Sched) { env = c12lSetup(c12lScenarios[rc.Scenario], s) })
		r.Eval()
		r.Report("rulelist-race", rc, c12lCheck(env, x))
	}
	if r.ShouldRun() {
		shard, nshards := r.NShards()
		pre := vrt.Pick(r, 2, 3)
		r.Bound("rulelist_race_preemptions", pre)
		for si, sc := range c12lScenarios {
			if si%nshards != shard {
				continue
			}
			var env *c12lEnv
			found := 0
			st := xsched.Explore(xsched.Config{MaxPreemptions: pre, MaxDeviations: 0, Stop: r.Expired},
				func(s *xsched.Sched) { env = c12lSetup(sc, s) },
				func(x *xsched.Exec) bool {
					r.Eval()
					r.Trans(len(x.Sched.Trace))
					fs := c12lCheck(env, x)
					obs := fmt.Sprintf("rl %s during=%v after=%v", sc.Name, env.during, env.after != nil && *env.after)
					r.Class(obs)
					if r.State(obs) {
						r.Sample(map[string]any{"scenario": sc.Name, "observation": obs, "preemptions": x.Preemptions})
					}
					if len(fs) > 0 {
						r.Report("rulelist-race", c12lCase{Scenario: si, Choices: x.Choices}, fs)
						found++
					}

					return found < 2
				})
			if st.Stopped {
				r.Note("rulelist race scenario %s stopped by deadline after %d executions", sc.Name, st.Executions)
			}
		}
	}
	r.Finish()
	if strings.HasPrefix(c12lDir, "/dev/shm/") {
		_ = os.RemoveAll(c12lDir)
	}
	os.Exit(0)
}
