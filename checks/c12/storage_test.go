//go:build verif

package c13

// C12, unit "storage": the result caches of the rule lists, blocked services
// and safe search behind the real filterstorage.Default, across storage
// refreshes, with filters taken BEFORE a refresh still in use AFTER it (an
// in-flight request holds the filter it got from ForConfig).  The scripted
// network and the marker-host probes are those of the C13 world
// (../c13/world_test.go); the oracle is C12's: whatever was asked before and
// through whichever filter object, a filter taken from the storage now answers
// every marker host exactly as the list versions now being served demand, and
// the answer for a name that was asked before equals the answer for a
// never-asked name of the same list (a cache hit equals a fresh evaluation).

import (
	"context"
	"fmt"
	"net/http"
	"os"
	"path/filepath"
	"strings"
	"testing"
	"testing/synctest"
	"time"

	"github.com/AdguardTeam/AdGuardDNS/internal/dnsserver/zzverif/vrt"
	"github.com/AdguardTeam/AdGuardDNS/internal/filter"
)

// Events of a storage history.
const (
	evRefresh     = "refresh"           // every download succeeds: all lists advance
	evRefreshFail = "refresh-l1-fails"  // list 1 answers 500: it keeps its version, the others advance
	evQueryFresh  = "query-fresh"       // take a filter now and ask every marker host
	evHold        = "hold"              // take a filter and keep it
	evQueryHeld   = "query-held-filter" // ask every marker host through the kept filter
)

var c12sEvents = []string{evRefresh, evRefreshFail, evQueryFresh, evHold, evQueryHeld}

type c12sCase struct {
	Events []string `json:"events"`
}

const c12sRoundGap = time.Hour

func c12sScratch(t *testing.T) (dir string) {
	root := t.TempDir()
	if fi, err := os.Stat("/dev/shm"); err == nil && fi.IsDir() {
		if d, perr := os.MkdirTemp("/dev/shm", "verif-c12s-"); perr == nil {
			root = d
		}
	}
	tmp := filepath.Join(root, "tmp")
	if err := os.MkdirAll(tmp, 0o700); err != nil {
		vrt.Fatalf("creating scratch tmp dir: %v", err)
	}
	// renameio puts its temporary files into $TMPDIR when that is on the same
	// file system as the cache directory.
	_ = os.Setenv("TMPDIR", tmp)

	return root
}

func c12sRun(r *vrt.Run, dir string, c c12sCase) (out []vrt.Finding) {
	ctx := context.Background()
	w := newWorld()
	tr := w.transport()
	http.DefaultTransport = tr
	defer func() {
		tr.CloseIdleConnections()
		w.wg.Wait()
	}()
	s, err := newStorage(dir, storageParams{staleness: staleness, timeout: dlTimeout})
	if err != nil {
		vrt.Fatalf("building storage: %v", err)
	}
	nref := 0
	for _, e := range c.Events {
		if e == evRefresh || e == evRefreshFail {
			nref++
		}
	}
	versions := nref + 1
	w.setRound(0, nil)
	if err = s.RefreshInitial(ctx); err != nil {
		vrt.Fatalf("initial refresh with a healthy network failed: %v", err)
	}
	// served is the version every logical list must be serving now.
	served := map[string]int{}
	for _, lst := range storageLists {
		served[lst] = 0
	}
	var held filter.Interface
	heldAt := map[string]int{}
	round := 0
	var log []string
	for step, e := range c.Events {
		r.Trans(1)
		switch e {
		case evRefresh, evRefreshFail:
			round++
			time.Sleep(c12sRoundGap)
			plan := map[string]string{}
			if e == evRefreshFail {
				plan[posL1] = k500
			}
			w.setRound(round, plan)
			_ = s.Refresh(ctx)
			for _, lst := range storageLists {
				if !(e == evRefreshFail && lst == lstL1) {
					served[lst] = round
				}
			}
			log = append(log, fmt.Sprintf("%s->v%d", e, round))
		case evHold:
			held = s.ForConfig(ctx, clientConf())
			for k, v := range served {
				heldAt[k] = v
			}
			log = append(log, e)
		case evQueryHeld:
			if held == nil {
				continue
			}
			for _, lst := range storageLists {
				st, n := servedState(ctx, held, lst, versions)
				r.Trans(n)
				// An in-flight filter may answer by the versions of the moment
				// it was taken or by the current ones; anything else is wrong.
				if st != fmt.Sprintf("v%d", heldAt[lst]) && st != fmt.Sprintf("v%d", served[lst]) {
					return vrt.F("storage/held-filter-answers-neither-old-nor-current/"+lst,
						"history %v, step %d: the filter taken when list %s served v%d (now v%d) answers the marker hosts as %q", c.Events, step, lst, heldAt[lst], served[lst], st)
				}
				log = append(log, fmt.Sprintf("held:%s=%s", lst, st))
			}
		case evQueryFresh:
			obs, n := probeStorage(ctx, s, versions)
			r.Trans(n)
			for _, lst := range storageLists {
				if want := fmt.Sprintf("v%d", served[lst]); obs[lst] != want {
					what := "stale-or-wrong-version"
					if strings.Contains(obs[lst], "cached(") {
						what = "cached-answer-differs-from-fresh-evaluation"
					}

					return vrt.F("storage/"+what+"/"+lst,
						"history %v, step %d: a filter taken from the storage now must answer list %s by v%d; the marker hosts are answered as %q (log %v)", c.Events, step, lst, served[lst], obs[lst], log)
				}
			}
			log = append(log, "fresh:ok")
		}
	}
	// Every history ends with a fresh probe.
	obs, n := probeStorage(ctx, s, versions)
	r.Trans(n)
	for _, lst := range storageLists {
		if want := fmt.Sprintf("v%d", served[lst]); obs[lst] != want {
			what := "stale-or-wrong-version"
			if strings.Contains(obs[lst], "cached(") {
				what = "cached-answer-differs-from-fresh-evaluation"
			}

			return vrt.F("storage/"+what+"/"+lst,
				"history %v, final probe: a filter taken from the storage now must answer list %s by v%d; the marker hosts are answered as %q (log %v)", c.Events, lst, served[lst], obs[lst], log)
		}
	}
	r.Class(fmt.Sprintf("storage refreshes=%d held-queries=%t", nref, held != nil))
	r.State(strings.Join(log, " ") + " | " + fmtObs(obs))

	return nil
}

func TestVerifC12Storage(t *testing.T) {
	r := vrt.Start("C12")
	base := c12sScratch(t)
	maxLen := vrt.Pick(r, 4, 5)
	r.Bound("storage_history_length", maxLen)
	r.Bound("storage_events", len(c12sEvents))
	seq := 0
	vrt.Part(r, "storage",
		func(emit func(c12sCase)) {
			vrt.Sequences(len(c12sEvents), 1, maxLen, func(idx []int) {
				c := c12sCase{}
				refs, holds := 0, 0
				for i, k := range idx {
					e := c12sEvents[k]
					// Skip histories that are executions of shorter ones: a
					// held-filter query without a held filter, two holds in a
					// row, a hold that is never used, a trailing fresh query
					// (every history ends with one anyway).
					if e == evQueryHeld && holds == 0 {
						return
					}
					if e == evHold {
						if i > 0 && c12sEvents[idx[i-1]] == evHold {
							return
						}
						holds++
					}
					if e == evRefresh || e == evRefreshFail {
						refs++
					}
					c.Events = append(c.Events, e)
				}
				last := c.Events[len(c.Events)-1]
				if refs == 0 || last == evQueryFresh || last == evHold {
					return
				}
				emit(c)
			})
		},
		func(c c12sCase) (fs []vrt.Finding) {
			seq++
			dir := filepath.Join(base, fmt.Sprintf("case-%d", seq))
			if err := os.MkdirAll(dir, 0o700); err != nil {
				vrt.Fatalf("creating case dir: %v", err)
			}
			defer os.RemoveAll(dir)
			synctest.Test(t, func(_ *testing.T) {
				defer func() {
					if p := recover(); p != nil {
						fs = vrt.F("storage/panic", "history %v: %v", c.Events, p)
					}
				}()
				fs = c12sRun(r, dir, c)
			})

			return fs
		})
	r.Finish()
	_ = os.RemoveAll(base)
	os.Exit(0)
}
