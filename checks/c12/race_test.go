//go:build verif

package hashprefix

import (
	"context"
	"fmt"
	"io"
	"log/slog"
	"net/netip"
	"net/url"
	"os"
	"path/filepath"
	"strings"
	"testing"
	"time"

	"github.com/AdguardTeam/AdGuardDNS/internal/agdcache"
	"github.com/AdguardTeam/AdGuardDNS/internal/agdtest"
	"github.com/AdguardTeam/AdGuardDNS/internal/dnsmsg"
	"github.com/AdguardTeam/AdGuardDNS/internal/dnsserver/zzverif/vrt"
	"github.com/AdguardTeam/AdGuardDNS/internal/dnsserver/zzverif/xsched"
	"github.com/AdguardTeam/AdGuardDNS/internal/filter/internal"
	"github.com/miekg/dns"
)

type c12rErrColl struct{}

func (c12rErrColl) Collect(_ context.Context, err error) {}

type c12rScenario struct {
	// Name of the scenario; V1 and V2 are the list versions; Host is asked.
	Name   string `json:"name"`
	V1, V2 string
	Host   string `json:"host"`
	// Queriers is the number of tasks that query concurrently with the
	// refresh.
	Queriers int `json:"queriers"`
}

var c12rScenarios = []c12rScenario{
	{Name: "host-removed", V1: "danger.test\n", V2: "other.test\n", Host: "danger.test", Queriers: 1},
	{Name: "host-added", V1: "other.test\n", V2: "danger.test\n", Host: "danger.test", Queriers: 1},
	{Name: "host-removed-2q", V1: "danger.test\n", V2: "other.test\n", Host: "danger.test", Queriers: 2},
}

type c12rEnv struct {
	f         *Filter
	refreshed bool
	during    []bool // results of the concurrent queries: matched?
	after     *bool  // result of the query started after Refresh returned
	file      string
	sc        c12rScenario
}

var (
	c12rDir    string
	c12rSeq    int
	c12rCloner = dnsmsg.NewCloner(dnsmsg.EmptyClonerStat{})
	c12rMsgs   *dnsmsg.Constructor
)

func c12rSetup(sc c12rScenario, s *xsched.Sched) *c12rEnv {
	c12rSeq++
	env := &c12rEnv{sc: sc, file: filepath.Join(c12rDir, fmt.Sprintf("list-%d.txt", c12rSeq%4))}
	if err := os.WriteFile(env.file, []byte(sc.V1), 0o644); err != nil {
		vrt.Fatalf("write: %v", err)
	}
	strg, err := NewStorage("")
	if err != nil {
		vrt.Fatalf("storage: %v", err)
	}
	env.f, err = NewFilter(&FilterConfig{
		Logger: slog.New(slog.NewTextHandler(io.Discard, nil)), Cloner: c12rCloner, CacheManager: agdcache.EmptyManager{},
		Hashes: strg, URL: &url.URL{Scheme: "file", Path: env.file}, ErrColl: c12rErrColl{}, Metrics: internal.EmptyMetrics{},
		ID: internal.IDSafeBrowsing, CachePath: env.file, ReplacementHost: "192.0.2.66", Staleness: time.Hour,
		CacheTTL: time.Hour, RefreshTimeout: time.Second, CacheCount: 16, MaxSize: 1 << 20,
	})
	if err != nil {
		vrt.Fatalf("filter: %v", err)
	}
	if err = env.f.RefreshInitial(context.Background()); err != nil {
		vrt.Fatalf("initial refresh: %v", err)
	}
	ask := func() bool {
		m := &dns.Msg{}
		m.SetQuestion(dns.Fqdn(sc.Host), dns.TypeA)
		r, ferr := env.f.FilterRequest(context.Background(), &internal.Request{
			DNS: m, Messages: c12rMsgs, RemoteIP: netip.MustParseAddr("192.0.2.1"), Host: sc.Host, QType: dns.TypeA, QClass: dns.ClassINET,
		})
		if ferr != nil {
			vrt.Fatalf("filter request: %v", ferr)
		}

		return r != nil
	}
	for i := 0; i < sc.Queriers; i++ {
		s.Go(fmt.Sprintf("Q%d", i+1), func() { env.during = append(env.during, ask()) })
	}
	s.Go("R", func() {
		if werr := os.WriteFile(env.file, []byte(sc.V2), 0o644); werr != nil {
			vrt.Fatalf("write: %v", werr)
		}
		if rerr := env.f.Refresh(context.Background()); rerr != nil {
			vrt.Fatalf("refresh: %v", rerr)
		}
		env.refreshed = true
	})
	s.Go("Qafter", func() {
		s.Point("wait until Refresh has returned", func() bool { return env.refreshed })
		m := ask()
		env.after = &m
	})

	return env
}

type c12rCase struct {
	Scenario int   `json:"scenario"`
	Choices  []int `json:"choices"`
}

func c12rCheck(env *c12rEnv, x *xsched.Exec) []vrt.Finding {
	if x.Sched.Panicked != "" {
		return vrt.F("hashprefix-race/panic", "%s", x.Sched.Panicked)
	}
	if x.Sched.Deadlock {
		return vrt.F("hashprefix-race/deadlock", "blocked: %v", x.Sched.Blocked)
	}
	listedInV2 := env.sc.V2 == env.sc.Host+"\n"
	if env.after == nil || *env.after != listedInV2 {
		return vrt.F("hashprefix-race/stale-result-after-refresh", "scenario %s: a query for %s started after Refresh returned was answered matched=%v although the new list version says %v (a result computed with the old version survived the refresh)\nschedule:\n%s", env.sc.Name, env.sc.Host, env.after != nil && *env.after, listedInV2, x.Sched.Describe())
	}

	return nil
}

func TestVerifC12Race(t *testing.T) {
	// The unit also serves C11 (a query during a list refresh is classified
	// by the previous or the new list, and afterwards by the new one): the
	// driver then sets VERIF_PROP.
	prop := "C12"
	if p := os.Getenv("VERIF_PROP"); p != "" {
		prop = p
	}
	r := vrt.Start(prop)
	c12rDir = t.TempDir()
	// Refreshes replace their cache files with fsync; a tmpfs directory keeps
	// that cheap.  The files are real files either way.
	if d, derr := os.MkdirTemp("/dev/shm", "verif-c12-"); derr == nil {
		c12rDir = d
	}
	var err error
	c12rMsgs, err = dnsmsg.NewConstructor(&dnsmsg.ConstructorConfig{
		Cloner: c12rCloner, BlockingMode: &dnsmsg.BlockingModeNullIP{}, StructuredErrors: agdtest.NewSDEConfig(true),
		FilteredResponseTTL: 10 * time.Second, EDEEnabled: true,
	})
	if err != nil {
		t.Fatal(err)
	}
	var rc c12rCase
	if r.ReplayCase("race", &rc) {
		var env *c12rEnv
		x := xsched.Replay(rc.Choices, func(s *xsched.Sched) { env = c12rSetup(c12rScenarios[rc.Scenario], s) })
		r.Eval()
		r.Report("race", rc, c12rCheck(env, x))
	}
	if r.ShouldRun() {
		shard, nshards := r.NShards()
		pre := vrt.Pick(r, 2, 3)
		r.Bound("race_preemptions", pre)
		for si, sc := range c12rScenarios {
			if si%nshards != shard || (sc.Queriers > 1 && !r.Thorough()) {
				continue
			}
			var env *c12rEnv
			found := 0
			st := xsched.Explore(xsched.Config{MaxPreemptions: pre, MaxDeviations: 0, Stop: r.Expired},
				func(s *xsched.Sched) { env = c12rSetup(sc, s) },
				func(x *xsched.Exec) bool {
					r.Eval()
					r.Trans(len(x.Sched.Trace))
					fs := c12rCheck(env, x)
					obs := fmt.Sprintf("%s during=%v after=%v", sc.Name, env.during, env.after != nil && *env.after)
					r.Class(obs)
					if r.State(obs) {
						r.Sample(map[string]any{"scenario": sc.Name, "observation": obs, "preemptions": x.Preemptions})
					}
					if len(fs) > 0 {
						r.Report("race", c12rCase{Scenario: si, Choices: x.Choices}, fs)
						found++
					}

					return found < 2
				})
			if st.Stopped {
				r.Note("race scenario %s stopped by deadline after %d executions", sc.Name, st.Executions)
			}
		}
	}
	r.Finish()
	if strings.HasPrefix(c12rDir, "/dev/shm/") {
		_ = os.RemoveAll(c12rDir)
	}
	os.Exit(0)
}
