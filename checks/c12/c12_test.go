//go:build verif

package zzverifc12

import (
	"context"
	"fmt"
	"io"
	"log/slog"
	"net"
	"net/http"
	"net/netip"
	"net/url"
	"os"
	"path/filepath"
	"sort"
	"strings"
	"testing"
	"time"

	"github.com/AdguardTeam/AdGuardDNS/internal/agdcache"
	"github.com/AdguardTeam/AdGuardDNS/internal/agdtest"
	"github.com/AdguardTeam/AdGuardDNS/internal/dnsmsg"
	"github.com/AdguardTeam/AdGuardDNS/internal/dnsserver/zzverif/vdns"
	"github.com/AdguardTeam/AdGuardDNS/internal/dnsserver/zzverif/vrt"
	"github.com/AdguardTeam/AdGuardDNS/internal/filter/hashprefix"
	"github.com/AdguardTeam/AdGuardDNS/internal/filter/internal"
	"github.com/AdguardTeam/AdGuardDNS/internal/filter/internal/custom"
	"github.com/AdguardTeam/AdGuardDNS/internal/filter/internal/refreshable"
	"github.com/AdguardTeam/AdGuardDNS/internal/filter/internal/rulelist"
	"github.com/AdguardTeam/AdGuardDNS/internal/filter/internal/safesearch"
	"github.com/AdguardTeam/urlfilter"
	"github.com/miekg/dns"
)

// ---- Scripted list server ---------------------------------------------------

// c12Lists holds the current text of every list; the scripted transport
// serves it, so "the list was updated upstream" is one assignment.
var c12Lists = map[string]string{}

type c12Transport struct{}

func (c12Transport) RoundTrip(r *http.Request) (*http.Response, error) {
	text, ok := c12Lists[strings.TrimPrefix(r.URL.Path, "/")]
	if !ok {
		return &http.Response{StatusCode: 404, Status: "404 Not Found", Body: io.NopCloser(strings.NewReader("")), Header: http.Header{}, Request: r}, nil
	}

	return &http.Response{StatusCode: 200, Status: "200 OK", Proto: "HTTP/1.1", ProtoMajor: 1, ProtoMinor: 1,
		Body: io.NopCloser(strings.NewReader(text)), ContentLength: int64(len(text)), Header: http.Header{}, Request: r}, nil
}

var (
	c12Logger = slog.New(slog.NewTextHandler(io.Discard, nil))
	c12Cloner = dnsmsg.NewCloner(dnsmsg.EmptyClonerStat{})
	c12Dir    string
	c12Seq    int
)

type c12ErrColl struct{}

func (c12ErrColl) Collect(_ context.Context, err error) {
	if !c12ExpectErr {
		vrt.Fatalf("collected error: %v", err)
	}
}

// c12ExpectErr is set while a refresh that is meant to fail runs.
var c12ExpectErr bool

// c12Files are the cache files created for the current case; they are removed
// when the case is over, so that the scratch directory stays small however
// many cases a process runs.
var c12Files []string

func c12Cleanup() {
	for _, f := range c12Files {
		_ = os.Remove(f)
	}
	c12Files = c12Files[:0]
}

func c12RefrConf(id internal.ID, name string) *refreshable.Config {
	c12Seq++
	c12Files = append(c12Files, filepath.Join(c12Dir, fmt.Sprintf("%s-%d.txt", name, c12Seq)))

	return &refreshable.Config{
		Logger:    c12Logger,
		URL:       &url.URL{Scheme: "http", Host: "lists.test", Path: "/" + name},
		ID:        id,
		CachePath: filepath.Join(c12Dir, fmt.Sprintf("%s-%d.txt", name, c12Seq)),
		Staleness: time.Nanosecond,
		Timeout:   5 * time.Second,
		MaxSize:   1 << 20,
	}
}

// ---- Requesters ---------------------------------------------------------------

type c12Requester struct {
	name string
	msgs *dnsmsg.Constructor
	edns bool
	do   bool
	ecs  bool
	id   uint16
	ip   netip.Addr
}

var c12Requesters []*c12Requester

func c12Init() {
	mk := func(mode dnsmsg.BlockingMode, ttl time.Duration) *dnsmsg.Constructor {
		c, err := dnsmsg.NewConstructor(&dnsmsg.ConstructorConfig{
			Cloner:              c12Cloner,
			BlockingMode:        mode,
			StructuredErrors:    agdtest.NewSDEConfig(true),
			FilteredResponseTTL: ttl,
			EDEEnabled:          true,
		})
		if err != nil {
			vrt.Fatalf("constructor: %v", err)
		}

		return c
	}
	c12Requesters = []*c12Requester{
		{name: "P1", msgs: mk(&dnsmsg.BlockingModeNullIP{}, 10*time.Second), id: 0x101, ip: netip.MustParseAddr("192.0.2.1")},
		{name: "P2", msgs: mk(&dnsmsg.BlockingModeREFUSED{}, 3600*time.Second), edns: true, do: true, ecs: true, id: 0x202, ip: netip.MustParseAddr("192.0.2.2")},
		{name: "G", msgs: mk(&dnsmsg.BlockingModeCustomIP{IPv4: []netip.Addr{netip.MustParseAddr("198.51.100.9")}}, 60*time.Second), edns: true, id: 0x303, ip: netip.MustParseAddr("192.0.2.3")},
	}
}

func (rq *c12Requester) request(host string, qt uint16) *internal.Request {
	m := vdns.NewReq(rq.id, dns.Fqdn(host), qt, dns.ClassINET)
	if rq.edns {
		m.SetEdns0(1232, rq.do)
		if rq.ecs {
			o := m.IsEdns0()
			o.Option = append(o.Option, &dns.EDNS0_SUBNET{Code: dns.EDNS0SUBNET, Family: 1, SourceNetmask: 24, Address: net.IP{203, 0, 113, 0}})
		}
	}

	return &internal.Request{DNS: m, Messages: rq.msgs, RemoteIP: rq.ip, Host: host, QType: qt, QClass: dns.ClassINET}
}

// c12Canon is the canonical form of a filtering result, with everything a
// client could observe: kind, list, rule and the filtered message.
func c12Canon(r internal.Result) string {
	switch r := r.(type) {
	case nil:
		return "none"
	case *internal.ResultAllowed:
		return fmt.Sprintf("allowed %s %q", r.List, r.Rule)
	case *internal.ResultBlocked:
		return fmt.Sprintf("blocked %s %q", r.List, r.Rule)
	case *internal.ResultModifiedResponse:
		return fmt.Sprintf("modified-response %s %q %s opt={%s}", r.List, r.Rule, vdns.Canon(r.Msg, true), vdns.OPTString(r.Msg))
	case *internal.ResultModifiedRequest:
		return fmt.Sprintf("modified-request %s %q %s q=[%s] opt={%s}", r.List, r.Rule, vdns.Flags(r.Msg), vdns.Question(r.Msg), vdns.OPTString(r.Msg))
	default:
		return fmt.Sprintf("%T", r)
	}
}

// ---- Subjects -------------------------------------------------------------------

// c12Subject is one real filter with a result cache; the twin of a subject is
// a freshly built one at the current list versions.
type c12Subject interface {
	query(rq *c12Requester, host string, qt uint16) string
	refresh()
}

// Hash-prefix filter.
type c12HP struct {
	f    *hashprefix.Filter
	strg *hashprefix.Storage
	repl string
}

func c12NewHP(repl string) c12Subject {
	strg, err := hashprefix.NewStorage("")
	if err != nil {
		vrt.Fatalf("storage: %v", err)
	}
	s := c12NewHPOver(strg, repl)
	s.refresh()

	return s
}

// c12NewHPOver returns a hash-prefix filter over strg that has not been
// refreshed: its result cache is empty and it has changed nothing in strg.
func c12NewHPOver(strg *hashprefix.Storage, repl string) *c12HP {
	rc := c12RefrConf(internal.IDSafeBrowsing, "hp")
	f, err := hashprefix.NewFilter(&hashprefix.FilterConfig{
		Logger: c12Logger, Cloner: c12Cloner, CacheManager: agdcache.EmptyManager{}, Hashes: strg,
		URL: rc.URL, ErrColl: c12ErrColl{}, Metrics: internal.EmptyMetrics{}, ID: internal.IDSafeBrowsing,
		CachePath: rc.CachePath, ReplacementHost: repl, Staleness: rc.Staleness, CacheTTL: time.Hour,
		RefreshTimeout: rc.Timeout, CacheCount: 100, MaxSize: rc.MaxSize,
	})
	if err != nil {
		vrt.Fatalf("hashprefix filter: %v", err)
	}
	return &c12HP{f: f, strg: strg, repl: repl}
}

// coldTwin returns a filter with an empty result cache over the same hashes.
func (s *c12HP) coldTwin() *c12HP { return c12NewHPOver(s.strg, s.repl) }

// tryRefresh is refresh for list data that may be rejected.
func (s *c12HP) tryRefresh() error { return s.f.Refresh(context.Background()) }

func (s *c12HP) refresh() {
	if err := s.f.Refresh(context.Background()); err != nil {
		vrt.Fatalf("hashprefix refresh: %v", err)
	}
}

func (s *c12HP) query(rq *c12Requester, host string, qt uint16) string {
	r, err := s.f.FilterRequest(context.Background(), rq.request(host, qt))
	if err != nil {
		return "error " + err.Error()
	}

	return c12Canon(r)
}

// Safe search.
type c12SS struct {
	f *safesearch.Filter
}

func c12NewSS() c12Subject {
	f, err := safesearch.New(&safesearch.Config{Refreshable: c12RefrConf(internal.IDGeneralSafeSearch, "ss"), CacheTTL: time.Hour}, rulelist.NewResultCache(100, true))
	if err != nil {
		vrt.Fatalf("safesearch: %v", err)
	}
	s := &c12SS{f: f}
	s.refresh()

	return s
}

func (s *c12SS) refresh() {
	if err := s.f.Refresh(context.Background(), false); err != nil {
		vrt.Fatalf("safesearch refresh: %v", err)
	}
}

func (s *c12SS) query(rq *c12Requester, host string, qt uint16) string {
	r, err := s.f.FilterRequest(context.Background(), rq.request(host, qt))
	if err != nil {
		return "error " + err.Error()
	}

	return c12Canon(r)
}

// Rule list with a result cache.
type c12RL struct {
	f *rulelist.Refreshable
}

func c12NewRL() c12Subject {
	f, err := rulelist.NewRefreshable(c12RefrConf("rl_list", "rl"), rulelist.NewResultCache(100, true))
	if err != nil {
		vrt.Fatalf("rulelist: %v", err)
	}
	s := &c12RL{f: f}
	s.refresh()

	return s
}

func (s *c12RL) refresh() {
	if err := s.f.Refresh(context.Background(), false); err != nil {
		vrt.Fatalf("rulelist refresh: %v", err)
	}
}

func c12DNSResult(res *urlfilter.DNSResult) string {
	if res == nil {
		return "none"
	}
	var parts []string
	if res.NetworkRule != nil {
		parts = append(parts, "net:"+res.NetworkRule.Text())
	}
	for _, r := range res.NetworkRules {
		parts = append(parts, "nets:"+r.Text())
	}
	for _, r := range res.HostRulesV4 {
		parts = append(parts, "h4:"+r.Text())
	}
	for _, r := range res.HostRulesV6 {
		parts = append(parts, "h6:"+r.Text())
	}
	sort.Strings(parts)

	return strings.Join(parts, " | ")
}

func (s *c12RL) query(rq *c12Requester, host string, qt uint16) string {
	// isAns is folded into the host alphabet: hosts starting with "ans-" are
	// looked up as answer names.
	isAns := strings.HasPrefix(host, "ans-")
	host = strings.TrimPrefix(host, "ans-")

	return c12DNSResult(s.f.DNSResult(rq.ip, "", host, qt, isAns))
}

// ---- Histories --------------------------------------------------------------------

type c12Part struct {
	name     string
	list     string // key in c12Lists
	versions []string
	hosts    []string
	qtypes   []uint16
	newSubj  func() c12Subject
}

type c12Event struct {
	// Refresh >= 0 switches the list to that version and refreshes.
	Refresh int    `json:"refresh"`
	Req     int    `json:"requester,omitempty"`
	Host    string `json:"host,omitempty"`
	QType   uint16 `json:"qtype,omitempty"`
}

type c12Case struct {
	Part   string     `json:"part"`
	Events []c12Event `json:"events"`
}

func c12Parts() []c12Part {
	hp1 := "danger.test\n# comment\nother-danger.test\n"
	hp2 := "fresh2.test\nother-danger.test\n"

	return []c12Part{{
		name: "hashprefix-ip", list: "hp", versions: []string{hp1, hp2},
		hosts: []string{"danger.test", "fresh2.test"}, qtypes: []uint16{dns.TypeA, dns.TypeAAAA, dns.TypeHTTPS, dns.TypeTXT, dns.TypeCAA},
		newSubj: func() c12Subject { return c12NewHP("192.0.2.66") },
	}, {
		name: "hashprefix-host", list: "hp", versions: []string{hp1, hp2},
		hosts: []string{"danger.test", "fresh2.test"}, qtypes: []uint16{dns.TypeA, dns.TypeHTTPS, dns.TypeMX, dns.TypeCAA},
		newSubj: func() c12Subject { return c12NewHP("blocked.example") },
	}, {
		name: "safesearch", list: "ss",
		versions: []string{"|engine.test^$dnsrewrite=NOERROR;A;192.0.2.77\n|video.test^$dnsrewrite=NOERROR;CNAME;safe.video.test\n", "|engine.test^$dnsrewrite=NOERROR;A;192.0.2.88\n"},
		hosts:    []string{"engine.test", "video.test"}, qtypes: []uint16{dns.TypeA, dns.TypeAAAA, dns.TypeHTTPS, dns.TypeTXT, dns.TypeCAA},
		newSubj: c12NewSS,
	}, {
		name: "rulelist", list: "rl",
		versions: []string{"||blocked.test^\n||rw.test^$dnsrewrite=1.2.3.4\n@@||allowed.test^\n||only4.test^$dnstype=A\n", "||other.test^\n||rw.test^$dnsrewrite=5.6.7.8\n||allowed.test^\n"},
		hosts:    []string{"blocked.test", "rw.test", "allowed.test", "only4.test", "ans-blocked.test"}, qtypes: []uint16{dns.TypeA, dns.TypeAAAA, dns.TypeCAA},
		newSubj: c12NewRL,
	}}
}

func c12RunCase(r *vrt.Run, parts map[string]c12Part, c c12Case) []vrt.Finding {
	defer c12Cleanup()
	p := parts[c.Part]
	c12Lists[p.list] = p.versions[0]
	warm := p.newSubj()
	var obs []string
	for i, e := range c.Events {
		if e.Refresh >= 0 {
			c12Lists[p.list] = p.versions[e.Refresh]
			warm.refresh()
			r.Trans(1)

			continue
		}
		rq := c12Requesters[e.Req]
		got := warm.query(rq, e.Host, e.QType)
		want := p.newSubj().query(rq, e.Host, e.QType)
		r.Trans(2)
		obs = append(obs, got)
		r.Class(p.name + " " + strings.SplitN(got, " ", 2)[0])
		if got != want {
			what := "result"
			gf, wf := strings.Fields(got), strings.Fields(want)
			if len(gf) > 0 && len(wf) > 0 && gf[0] == wf[0] {
				what = "message"
			}

			return vrt.F(p.name+"/warm-differs-from-fresh/"+what, "%s: step %d, requester %s asks %s %s:\n   warm filter : %s\n   fresh filter: %s\n   history: %+v", p.name, i, rq.name, e.Host, dns.Type(e.QType), got, want, c.Events)
		}
	}
	r.State(p.name + strings.Join(obs, "\n"))

	return nil
}

// ---- Custom filters -------------------------------------------------------------------

type c12CustomEvent struct {
	Profile string `json:"profile"`
	Version int    `json:"version"`
}

type c12CustomCase struct {
	Events []c12CustomEvent `json:"events"`
}

// Versions of the custom rules of a profile: version i was saved at time i.
var c12CustomRules = [][]internal.RuleText{
	{"||one.test^"},
	{"||two.test^"},
	{"||one.test^", "||three.test^"},
}

func c12RunCustom(r *vrt.Run, c c12CustomCase) []vrt.Finding {
	f := custom.New(&custom.Config{Logger: c12Logger, ErrColl: c12ErrColl{}, CacheConf: &agdcache.LRUConfig{Count: 10}, CacheManager: agdcache.EmptyManager{}})
	base := time.Date(2024, 1, 1, 0, 0, 0, 0, time.UTC)
	newest := map[string]int{}
	var obs []string
	for i, e := range c.Events {
		conf := &custom.ClientConfig{ID: e.Profile, UpdateTime: base.Add(time.Duration(e.Version) * time.Hour), Rules: c12CustomRules[e.Version], Enabled: true}
		rl := f.Get(context.Background(), conf)
		r.Trans(1)
		var got []string
		for _, h := range []string{"one.test", "two.test", "three.test"} {
			if rl != nil && rl.DNSResult(netip.Addr{}, "", h, dns.TypeA, false) != nil {
				got = append(got, h)
			}
		}
		obs = append(obs, fmt.Sprint(got))
		prev, seen := newest[e.Profile]
		if seen && e.Version < prev {
			// A configuration older than one already seen: either answer is
			// within the statement.
			continue
		}
		newest[e.Profile] = e.Version
		var want []string
		for _, h := range []string{"one.test", "two.test", "three.test"} {
			for _, rule := range c12CustomRules[e.Version] {
				if string(rule) == "||"+h+"^" {
					want = append(want, h)
				}
			}
		}
		if fmt.Sprint(got) != fmt.Sprint(want) {
			return vrt.F("custom/old-rules-served", "step %d: profile %s with custom rules version %d %v: hosts blocked %v, want %v; history %+v", i, e.Profile, e.Version, c12CustomRules[e.Version], got, want, c.Events)
		}
	}
	r.Class("custom")
	r.State("custom" + strings.Join(obs, ";"))

	return nil
}

func TestVerifC12(t *testing.T) {
	r := vrt.Start("C12")
	c12Init()
	c12Dir = t.TempDir()
	// Refreshes replace their cache files with fsync; a tmpfs directory keeps
	// that cheap.  The files are real files either way.
	if d, derr := os.MkdirTemp("/dev/shm", "verif-c12-"); derr == nil {
		c12Dir = d
	}
	http.DefaultTransport = c12Transport{}
	parts := map[string]c12Part{}
	for _, p := range c12Parts() {
		parts[p.name] = p
	}
	depth := vrt.Pick(r, 3, 4)
	r.Bound("history_depth", depth)
	vrt.Part(r, "history", func(emit func(c12Case)) {
		for _, p := range c12Parts() {
			var alpha []c12Event
			for vi := range p.versions {
				alpha = append(alpha, c12Event{Refresh: vi})
			}
			for _, h := range p.hosts {
				for _, qt := range p.qtypes {
					for ri := range c12Requesters {
						alpha = append(alpha, c12Event{Refresh: -1, Req: ri, Host: h, QType: qt})
					}
				}
			}
			vrt.Sequences(len(alpha), 1, depth, func(seq []int) {
				if alpha[seq[len(seq)-1]].Refresh >= 0 {
					return
				}
				c := c12Case{Part: p.name}
				for _, i := range seq {
					c.Events = append(c.Events, alpha[i])
				}
				emit(c)
			})
		}
	}, func(c c12Case) []vrt.Finding { return c12RunCase(r, parts, c) })

	// Refreshes that FAIL part-way (some valid lines, then a line longer than
	// the scanner accepts): whatever such a refresh leaves in the hash storage,
	// the result cache must not show: every answer of the warm filter equals
	// the answer of a filter with an empty cache over the same storage.
	fdepth := vrt.Pick(r, 4, 5)
	r.Bound("failed_refresh_history_depth", fdepth)
	hpVersions := []string{"danger.test\n# comment\nother-danger.test\n", "fresh2.test\nother-danger.test\n", "fresh2.test\n" + strings.Repeat("a", 70000) + "\ndanger.test\n"}
	vrt.Part(r, "hashprefix-failed-refresh", func(emit func(c12Case)) {
		alpha := []c12Event{{Refresh: 0}, {Refresh: 1}, {Refresh: 2}}
		for _, h := range []string{"danger.test", "fresh2.test"} {
			for _, qt := range []uint16{dns.TypeA, dns.TypeTXT} {
				for ri := 0; ri < 2; ri++ {
					alpha = append(alpha, c12Event{Refresh: -1, Req: ri, Host: h, QType: qt})
				}
			}
		}
		vrt.Sequences(len(alpha), 2, fdepth, func(seq []int) {
			if alpha[seq[len(seq)-1]].Refresh >= 0 {
				return
			}
			bad := false
			c := c12Case{Part: "hashprefix-failed-refresh"}
			for _, i := range seq {
				bad = bad || alpha[i].Refresh == 2
				c.Events = append(c.Events, alpha[i])
			}
			if bad {
				emit(c)
			}
		})
	}, func(c c12Case) []vrt.Finding {
		defer c12Cleanup()
		c12Lists["hp"] = hpVersions[0]
		warm := c12NewHP("192.0.2.66").(*c12HP)
		var obs []string
		for i, e := range c.Events {
			if e.Refresh >= 0 {
				c12Lists["hp"] = hpVersions[e.Refresh]
				c12ExpectErr = e.Refresh == 2
				err := warm.tryRefresh()
				c12ExpectErr = false
				r.Trans(1)
				if (err != nil) != (e.Refresh == 2) {
					vrt.Fatalf("c12: refresh to version %d: unexpected outcome %v", e.Refresh, err)
				}

				continue
			}
			rq := c12Requesters[e.Req]
			got := warm.query(rq, e.Host, e.QType)
			want := warm.coldTwin().query(rq, e.Host, e.QType)
			r.Trans(2)
			obs = append(obs, got)
			r.Class("hashprefix-failed-refresh " + strings.SplitN(got, " ", 2)[0])
			if got != want {
				return vrt.F("hashprefix-failed-refresh/warm-differs-from-cold-cache", "step %d, requester %s asks %s %s:\n   filter with its cache       : %s\n   empty cache, same storage: %s\n   history (refresh 2 is the one that fails): %+v", i, rq.name, e.Host, dns.Type(e.QType), got, want, c.Events)
			}
		}
		r.State("hpfail" + strings.Join(obs, "\n"))

		return nil
	})

	cdepth := vrt.Pick(r, 5, 6)
	r.Bound("custom_history_depth", cdepth)
	vrt.Part(r, "custom", func(emit func(c12CustomCase)) {
		var alpha []c12CustomEvent
		for _, p := range []string{"p1", "p2"} {
			for v := range c12CustomRules {
				alpha = append(alpha, c12CustomEvent{Profile: p, Version: v})
			}
		}
		vrt.Sequences(len(alpha), 1, cdepth, func(seq []int) {
			c := c12CustomCase{}
			for _, i := range seq {
				c.Events = append(c.Events, alpha[i])
			}
			emit(c)
		})
	}, func(c c12CustomCase) []vrt.Finding { return c12RunCustom(r, c) })
	r.Finish()
	if strings.HasPrefix(c12Dir, "/dev/shm/") {
		_ = os.RemoveAll(c12Dir)
	}
	os.Exit(0)
}
