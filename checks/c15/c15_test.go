//go:build verif

package zzverifc15

import (
	"fmt"
	"os"
	"path/filepath"
	"strings"
	"testing"
	"time"

	"github.com/AdguardTeam/AdGuardDNS/internal/dnsserver/zzverif/vrt"
	"github.com/miekg/dns"
)

// ---- Alphabet ------------------------------------------------------------------

var (
	c15Requesters = []string{"anonymous", "profile", "authfail", "deleted"}
	c15Protos     = []string{"dns", "dot", "doh", "doq"}
	c15QTypes     = []uint16{dns.TypeA, dns.TypeAAAA, dns.TypeHTTPS}
	c15Names      = []string{"example-one.test.", "MiXed.Case.Example.ORG."}
	c15Fams       = []string{"v4", "v6"}
	c15Modes      = []string{"null_ip", "nxdomain", "refused"}
	c15Warms      = []string{"", "other-profile", "same-question"}
	c15Idents     = []string{"primary", "alt"}
)

// c15SpecialNames are question names that a middleware of the chain treats
// specially: Android private-DNS probe names (preupstream resolves them under
// one shared replacement name), DDR and other resolver.arpa names, the
// Firefox canary, Chrome prefetch and Apple Private Relay names (initial).
var c15SpecialNames = []string{
	"a1b2c3d4-dnsotls-ds.metric.gstatic.com.",
	"0f9e8d-dnsohttps-ds.metric.gstatic.com.",
	"A1B2C3D4-DnsOTLS-ds.Metric.GStatic.COM.",
	"00ff11-DNSOHTTPS-DS.metric.gstatic.com.",
	"_dns.resolver.arpa.",
	"foo.Resolver.ARPA.",
	"use-application-dns.net.",
	"Mask.iCloud.com.",
	"mask-h2.icloud.com.",
	"dns-tunnel-check.googlezip.net.",
}

// c15Case is one (configuration, request) pair.
type c15Case struct {
	Conf  c15Config `json:"conf"`
	Proto string    `json:"proto"`
	QType uint16    `json:"qtype"`
	// Name is the question name as the client sends it.
	Name string `json:"name"`
	// Fam is the address family of the client: v4 | v6.
	Fam string `json:"fam"`
	// Warm, if not empty, makes another request go through the same stack
	// first.  "other-profile": a request of ANOTHER profile (query and IP
	// logging on, other client, name, type and verdict), so that every pooled
	// object has another request's data in it.  "same-question": the same
	// question from an anonymous client, so that the answer of the request
	// under test may come from the cache.
	Warm string `json:"warm,omitempty"`
	// Ident selects how the request carries its identity.  "primary": linked
	// IP for plain DNS, URL path for DoH, TLS server name for DoT and DoQ.
	// "alt": the dnsmasq CPE-ID EDNS option for plain DNS, the TLS server name
	// for DoH.  An anonymous requester with "alt" carries the id of a device
	// nobody knows.
	Ident string `json:"ident,omitempty"`
}

// c15Admissible drops combinations that repeat another one.
func c15Admissible(c c15Case) bool {
	if c.Ident == "alt" && (c.Proto == "dot" || c.Proto == "doq") && c.Conf.Requester != "anonymous" {
		return false
	}

	return true
}

// query derives the request under test.
func (c c15Case) query() (q c15Query) {
	q = c15Query{Name: c.Name, QType: c.QType, QClass: dns.ClassINET, Proto: c.Proto}
	switch {
	case c.Conf.Outcome == "access-global-ip" && c.Fam == "v4":
		q.Client = "198.18.0.5"
	case c.Conf.Outcome == "access-global-ip":
		q.Client = "2001:db8:bad::5"
	case c.Fam == "v4":
		q.Client = "192.0.2.10"
	default:
		q.Client = "2001:db8::10"
	}
	switch c.Conf.Outcome {
	case "access-global-name":
		q.Name = "Globally-Denied.Test."
	case "debug", "debug-blocked":
		q.QClass = dns.ClassCHAOS
	}
	q.Alt = c.Ident == "alt"
	switch {
	case c.Conf.Requester != "anonymous":
		q.Dev = c15DevID
	case q.Alt:
		q.Dev = "ghost"
	}

	return q
}

func (c c15Case) String() string {
	q := c.query()
	warm := ""
	switch c.Warm {
	case "other-profile":
		warm = " after a logged request of another profile"
	case "same-question":
		warm = " after the same question from an anonymous client"
	}
	if c.Ident == "alt" {
		warm += " (identity carried the alternative way)"
	}

	return fmt.Sprintf("%s %s %s from %s over %s, requester %s (QueryLogEnabled=%v IPLogEnabled=%v mode %s), outcome %s%s",
		q.Name, dns.Class(q.QClass), dns.Type(q.QType), q.Client, q.Proto, c.Conf.Requester, c.Conf.QL, c.Conf.IP, c.Conf.Mode,
		c.Conf.Outcome, warm)
}

// ---- Oracle ---------------------------------------------------------------------
//
// Written from the statement and doc/querylog.md only.

// c15DocProto is the "p" table of doc/querylog.md.
var c15DocProto = map[string]int{"doh": 3, "doq": 4, "dot": 5, "dns": 8}

// c15DocVerdict returns the "f", "l" and "m" values doc/querylog.md prescribes
// for the filtering results the scripted filter gives to the request under
// test.
func c15DocVerdict(outcome, host string) (code int, list, rule string) {
	// With a result at both stages the entry reports the one that determined
	// what the client received: the request result (cross-checked against
	// the client's answer by c15VerdictApplies).
	if reqPart, _, both := strings.Cut(outcome, "+"); both {
		outcome = reqPart
	}
	switch outcome {
	case "req-blocked", "debug-blocked":
		id, r := c15ReqRule(host)

		return 2, string(id), string(r)
	case "resp-blocked":
		id, r := c15RespRule(host)

		return 3, string(id), string(r)
	case "req-allowed":
		id, r := c15AllowRule(host)

		return 4, string(id), string(r)
	case "resp-allowed":
		id, r := c15AllowRule(host)

		return 5, string(id), string(r)
	case "rewritten-resp", "rewritten-cname":
		id, r := c15RewriteRule(host)

		return 6, string(id), string(r)
	}

	return 1, "", ""
}

// c15UpstreamData are the record data only the scripted upstream hands out;
// c15RewriteData those of the scripted $dnsrewrite.
var (
	c15UpstreamData = []string{"100.64.1.1", "2001:db8:ffff::1", "100.64.1.2"}
	c15RewriteData  = []string{"100.64.9.9", "2001:db8:ffff::99"}
)

func c15Has(answer []string, data []string) bool {
	for _, a := range answer {
		for _, d := range data {
			if strings.Contains(a, d) {
				return true
			}
		}
	}

	return false
}

// c15VerdictApplies cross-checks, for the outcomes with a result at both
// stages, the reference "the request result decides" against what the client
// actually received: allowed => the real upstream answer; rewritten into a
// response => the rewritten data, not the upstream's; rewritten to another
// name => the upstream answer; blocked => not the upstream answer.  If the
// client got something else the verdict clause is not applied (which result
// decides is C02's subject, not C15's).
func c15VerdictApplies(c c15Case, o *c15Obs) bool {
	reqPart, _, both := strings.Cut(c.Conf.Outcome, "+")
	if !both || o.Wrote == 0 {
		return true
	}
	up := c15Has(o.Answer, c15UpstreamData)
	switch reqPart {
	case "req-allowed", "rewritten-cname":
		return up && o.RCode == dns.RcodeSuccess
	case "rewritten-resp":
		return !up && o.RCode == dns.RcodeSuccess && (c.QType == dns.TypeHTTPS || c15Has(o.Answer, c15RewriteData))
	case "req-blocked":
		return !up
	}

	return false
}

// c15AccessBlocked tells whether the statement calls the request
// access-blocked: the client address is inside the blocked networks (or the
// name is blocked) of the global settings, or of the settings of the profile
// the request is attributed to.
func c15AccessBlocked(c c15Case) bool {
	switch c.Conf.Outcome {
	case "access-global-ip", "access-global-name":
		return true
	case "access-profile":
		return c.Conf.Requester == "profile"
	}

	return false
}

type c15Findings struct {
	fs   []vrt.Finding
	seen map[string]bool
}

func (f *c15Findings) add(key, format string, args ...any) {
	if f.seen == nil {
		f.seen = map[string]bool{}
	}
	if f.seen[key] {
		return
	}
	f.seen[key] = true
	f.fs = append(f.fs, vrt.F(key, format, args...)...)
}

// c15Judge applies the "only if" clauses of the statement to what the request
// under test produced.
func c15Judge(c c15Case, o *c15Obs) (fs []vrt.Finding) {
	var f c15Findings
	q := c.query()
	attributed := c.Conf.Requester == "profile"
	// A dropped request: the client got nothing and the server was not told
	// of an error either.
	dropped := o.Wrote == 0 && o.Err == ""
	desc := c.String()

	var logged []c15Logged
	for i := range o.Entries {
		logged = append(logged, c15FromEntry(&o.Entries[i]))
	}
	// The real file.
	if len(o.Tail) > 0 {
		f.add("querylog-file/last-line-not-terminated", "%s: the log file does not end with a newline: %q", desc, o.Tail)
	}
	nfile := 0
	for _, line := range o.Lines {
		l, err := c15FromLine(line)
		if err != nil {
			f.add("querylog-file/line-not-a-complete-json-object", "%s: line %q of the log file: %v", desc, line, err)

			continue
		}
		nfile++
		logged = append(logged, l)
	}
	if len(o.WriteErrs) == 0 && len(o.Lines) != len(o.Entries) {
		f.add("querylog-file/line-count-differs", "%s: %d entr(ies) handed to the query log, %d line(s) in its file", desc, len(o.Entries), len(o.Lines))
	}
	show := func() string {
		var sb strings.Builder
		for _, l := range logged {
			sb.WriteString("\n   " + l.String())
		}
		for _, b := range o.Bills {
			fmt.Fprintf(&sb, "\n   [billing] dev=%s proto=%d", b.Dev, b.Proto)
		}

		return sb.String()
	}

	nlog, nbill := len(logged), len(o.Bills)

	// 1. Billing record or log entry only if attributed to a profile.
	if !attributed {
		if nbill > 0 {
			f.add("billing/record-for-unattributed-request", "%s: not attributed to a profile but billed:%s", desc, show())
		}
		if nlog > 0 {
			f.add("querylog/entry-for-unattributed-request", "%s: not attributed to a profile but logged:%s", desc, show())
		}
	}
	// 2. Log entry only if the profile has query logging enabled.
	if attributed && !c.Conf.QL && nlog > 0 {
		f.add("querylog/entry-although-query-logging-disabled", "%s: the profile has QueryLogEnabled=false but the request is logged:%s", desc, show())
	}
	// 3. Client address only if the profile has IP logging enabled.
	for _, l := range logged {
		if l.IP != "" && !(attributed && c.Conf.IP) {
			f.add("querylog/client-address-although-ip-logging-disabled", "%s: the log record carries the client address %s:%s", desc, l.IP, show())
		}
	}
	// 4. Dropped and access-blocked requests leave neither.
	why := ""
	switch {
	case c15AccessBlocked(c):
		why = "access-blocked"
	case dropped && strings.HasPrefix(c.Conf.Outcome, "rl-"):
		why = "rate-limited"
	case dropped:
		why = "dropped"
	}
	if why != "" {
		if nlog > 0 {
			f.add("querylog/entry-for-"+why+"-request", "%s: the request is %s (responses written: %d) but logged:%s", desc, why, o.Wrote, show())
		}
		if nbill > 0 {
			f.add("billing/record-for-"+why+"-request", "%s: the request is %s (responses written: %d) but billed:%s", desc, why, o.Wrote, show())
		}
	}
	// 5. One entry per logged request, never two.
	if len(o.Entries) > 1 || nfile > 1 {
		f.add("querylog/more-than-one-entry-for-a-request", "%s: one request produced %d entries and %d file lines:%s", desc, len(o.Entries), nfile, show())
	}
	// 6. Each entry describes its own request.
	host := strings.ToLower(strings.TrimSuffix(q.Name, "."))
	code, list, rule := c15DocVerdict(c.Conf.Outcome, host)
	verdictApplies := c15VerdictApplies(c, o)
	cli := q.Client
	for _, l := range logged {
		if l.Name != q.Name {
			f.add("querylog/entry-name-differs", "%s: the record names %q, the client asked %q:%s", desc, l.Name, q.Name, show())
		}
		if l.QType != int(q.QType) {
			f.add("querylog/entry-type-differs", "%s: the record has type %d, asked %d:%s", desc, l.QType, q.QType, show())
		}
		if o.Wrote > 0 && l.RCode != o.RCode {
			f.add("querylog/entry-rcode-differs", "%s: the record has rcode %d, the client was sent %d:%s", desc, l.RCode, o.RCode, show())
		}
		if verdictApplies && l.Code != code {
			f.add("querylog/entry-verdict-differs", "%s: the record has result code f=%d, doc/querylog.md prescribes %d for this filtering outcome:%s", desc, l.Code, code, show())
		}
		if verdictApplies && (l.List != list || l.Rule != rule) {
			f.add("querylog/entry-rule-differs", "%s: the record has list %q rule %q, the rule that matched this request is %q %q:%s", desc, l.List, l.Rule, list, rule, show())
		}
		if l.Proto != c15DocProto[q.Proto] {
			f.add("querylog/entry-protocol-differs", "%s: the record has protocol %d, the request came over %s (%d):%s", desc, l.Proto, q.Proto, c15DocProto[q.Proto], show())
		}
		if l.Profile != string(c15ProfID) || l.Device != string(c15DevID) {
			f.add("querylog/entry-profile-or-device-differs", "%s: the record belongs to %s/%s, the request to %s/%s:%s", desc, l.Profile, l.Device, c15ProfID, c15DevID, show())
		}
		if l.IP != "" && l.IP != cli {
			f.add("querylog/entry-client-address-differs", "%s: the record carries the address %s, the client is %s:%s", desc, l.IP, cli, show())
		}
	}
	for _, b := range o.Bills {
		if b.Dev != c15DevID || int(b.Proto) != c15DocProto[q.Proto] {
			f.add("billing/record-describes-another-request", "%s: billed to device %s protocol %d:%s", desc, b.Dev, b.Proto, show())
		}
	}

	return f.fs
}

// ---- Running one case -------------------------------------------------------------

var (
	// Vacuity guard: entries seen for requests of the profile under test, and
	// the number of cases (attributed, query log on, passed) run.
	c15SeenEntries, c15Eligible, c15WarmEntries int
	c15Noted                                    = map[string]bool{}
)

func c15Run(r *vrt.Run, c c15Case) (fs []vrt.Finding) {
	q := c.query()
	host := strings.ToLower(strings.TrimSuffix(q.Name, "."))
	s := c15NewStack(c.Conf, host)

	switch c.Warm {
	case "":
	case "other-profile":
		wq := c15Query{Client: c15WarmClient, Name: c15WarmName, QType: c15WarmQType, QClass: dns.ClassINET, Proto: c.Proto, Dev: c15WarmDevID}
		wo := s.serve(wq, 7001, 0xEE)
		r.Trans(1)
		if wo.Wrote != 1 || wo.Err != "" {
			vrt.Fatalf("the warm-up request was not answered: wrote=%d err=%q", wo.Wrote, wo.Err)
		}
		if len(wo.Entries) > 0 {
			c15WarmEntries++
		}
	case "same-question":
		wq := c15Query{Client: c15WarmClient, Name: q.Name, QType: q.QType, QClass: dns.ClassINET, Proto: c.Proto}
		s.serve(wq, 7002, 0xEF)
		r.Trans(1)
	default:
		vrt.Fatalf("bad warm-up %q", c.Warm)
	}
	o := s.serve(q, 4242, 0x42)
	r.Trans(1)

	fs = c15Judge(c, o)
	if strings.Contains(c.Conf.Outcome, "+") && len(o.Entries) > 0 {
		if c15VerdictApplies(c, o) {
			r.Count("two_stage_entries_judged", 1)
		} else {
			r.Count("two_stage_entries_reference_not_applicable", 1)
		}
		if o.Entries[0].RequestResult != nil && o.Entries[0].ResponseResult != nil {
			r.Count("two_stage_entries_with_both_results", 1)
		}
	}

	// Bookkeeping: classes, states, vacuity.
	if c.Conf.Requester == "profile" && c.Conf.QL && c.Conf.Outcome == "passed" {
		c15Eligible++
	}
	c15SeenEntries += len(o.Entries)
	if o.Wrote > 0 && o.Upstream == 0 && len(o.Entries) > 0 {
		r.Count("logged_requests_answered_without_upstream", 1)
	}
	if len(o.Errors) > 0 {
		r.Count("cases_with_collected_errors", 1)
	}
	res := fmt.Sprintf("answered rcode %d", o.RCode)
	switch {
	case o.Err != "":
		res = "error"
	case o.Wrote == 0:
		res = "dropped"
	}
	var what []string
	var obs []string
	for i := range o.Entries {
		l := c15FromEntry(&o.Entries[i])
		if l.IP != "" {
			what = append(what, fmt.Sprintf("entry(f=%d)+ip", l.Code))
		} else {
			what = append(what, fmt.Sprintf("entry(f=%d)", l.Code))
		}
		obs = append(obs, l.String())
	}
	for _, line := range o.Lines {
		obs = append(obs, "file:"+c15MaskRandom(string(line)))
	}
	for _, b := range o.Bills {
		what = append(what, "bill")
		obs = append(obs, fmt.Sprintf("bill %s %d", b.Dev, b.Proto))
	}
	if len(what) == 0 {
		what = []string{"nothing recorded"}
	}
	cls := fmt.Sprintf("%s ql=%v ip=%v %s: %s, %s", c.Conf.Requester, c.Conf.QL, c.Conf.IP, c.Conf.Outcome, res, strings.Join(what, " "))
	r.Class(cls)
	r.State(fmt.Sprintf("%s|%s|%d|%s|%s|%v|%s", c.Conf.Requester, c.Proto, c.QType, res, o.Err, obs, c.Conf.Outcome))
	if !c15Noted[cls] && len(c15Noted) < 1 && len(o.Lines) > 0 {
		c15Noted[cls] = true
		r.Note("example: %s => %s; file line %s", c, cls, c15MaskRandom(string(o.Lines[0])))
	}

	return fs
}

// c15MaskRandom removes the parts of a line that differ between runs.
func c15MaskRandom(line string) string {
	for _, k := range []string{`"rn":`, `"t":`, `"e":`} {
		i := strings.Index(line, k)
		if i < 0 {
			continue
		}
		j := i + len(k)
		for j < len(line) && line[j] >= '0' && line[j] <= '9' {
			j++
		}
		line = line[:i+len(k)] + "#" + line[j:]
	}

	return line
}

// c15Scratch returns the directory of the log files.  The harness creates and
// removes a log file per execution (hundreds of thousands of times); on the
// ext4 root file system of the build machine (mounted with online discard and
// shared with other jobs) a single openat/unlink was seen to stall for more
// than a minute, which trips the explorer's watchdog.  A tmpfs directory is a
// real file system with the same write(2)/O_APPEND semantics, so it is used
// when there is one; otherwise t.TempDir().  The directory is private to the
// process and removed by cleanup.
func c15Scratch(t *testing.T) (dir string, cleanup func()) {
	for _, base := range []string{os.Getenv("VERIF_SCRATCH"), "/dev/shm"} {
		if base == "" {
			continue
		}
		// Sweep what crashed processes left behind long ago.
		old, _ := filepath.Glob(filepath.Join(base, "verif-c15-*"))
		for _, o := range old {
			if fi, serr := os.Stat(o); serr == nil && time.Since(fi.ModTime()) > 6*time.Hour {
				_ = os.RemoveAll(o)
			}
		}
		d, err := os.MkdirTemp(base, "verif-c15-")
		if err == nil {
			return d, func() { _ = os.RemoveAll(d) }
		}
	}

	return t.TempDir(), func() {}
}

func TestVerifC15(t *testing.T) {
	r := vrt.Start("C15")
	dir, cleanup := c15Scratch(t)
	defer cleanup()
	c15Init(dir)

	thorough := r.Thorough()
	names, fams, modes, idents := c15Names, c15Fams[:1], c15Modes, c15Idents[:1]
	if thorough {
		fams, idents = c15Fams, c15Idents
	}
	r.Bound("requesters", strings.Join(c15Requesters, " "))
	r.Bound("flags", "QueryLogEnabled x IPLogEnabled (4)")
	r.Bound("outcomes", strings.Join(c15Outcomes, " "))
	r.Bound("protocols", strings.Join(c15Protos, " "))
	r.Bound("qtypes", "A AAAA HTTPS")
	r.Bound("names", len(names))
	r.Bound("client_families", len(fams))
	r.Bound("blocking_modes", len(modes))
	r.Bound("identity_carriers", len(idents))
	r.Bound("warm_up", "none / a logged request of another profile / the same question from an anonymous client")

	vrt.Part(r, "stack",
		func(emit func(c15Case)) {
			// Simplest first: no warm-up, first name, first mode.
			for _, ident := range idents {
				for _, warm := range c15Warms {
					for _, mode := range modes {
						for _, name := range names {
							for _, fam := range fams {
								for _, outcome := range c15Outcomes {
									for _, proto := range c15Protos {
										for _, qt := range c15QTypes {
											for _, req := range c15Requesters {
												for _, ql := range []bool{false, true} {
													for _, ip := range []bool{false, true} {
														c := c15Case{
															Conf:  c15Config{Requester: req, QL: ql, IP: ip, Outcome: outcome, Mode: mode},
															Proto: proto, QType: qt, Name: name, Fam: fam, Warm: warm, Ident: ident,
														}
														if c15Admissible(c) {
															emit(c)
														}
													}
												}
											}
										}
									}
								}
							}
						}
					}
				}
			}
		},
		func(c c15Case) []vrt.Finding { return c15Run(r, c) },
	)

	// Part 2: question names that a middleware of the chain special-cases on
	// the way in.  The oracle is the same: whatever the chain does with such
	// a name internally, a record carries the name, type and rcode of its own
	// request as the client sent / received them.
	spOutcomes := []string{"passed", "req-blocked", "resp-blocked", "rewritten-cname", "req-allowed+resp-ip-blocked", "upstream-nxdomain"}
	spWarms := []string{"", "same-question"}
	if thorough {
		spWarms = c15Warms
	}
	r.Bound("special_names", strings.Join(c15SpecialNames, " "))
	r.Bound("special_qtypes", "A AAAA HTTPS SVCB")
	vrt.Part(r, "special-names",
		func(emit func(c15Case)) {
			for _, warm := range spWarms {
				for _, block := range []bool{false, true} {
					for _, outcome := range spOutcomes {
						for _, name := range c15SpecialNames {
							for _, proto := range c15Protos {
								for _, qt := range []uint16{dns.TypeA, dns.TypeAAAA, dns.TypeHTTPS, dns.TypeSVCB} {
									for _, req := range []string{"anonymous", "profile"} {
										for _, ql := range []bool{false, true} {
											for _, ip := range []bool{false, true} {
												emit(c15Case{
													Conf:  c15Config{Requester: req, QL: ql, IP: ip, Outcome: outcome, Mode: "null_ip", BlockSpecial: block},
													Proto: proto, QType: qt, Name: name, Fam: "v4", Warm: warm, Ident: "primary",
												})
											}
										}
									}
								}
							}
						}
					}
				}
			}
		},
		func(c c15Case) []vrt.Finding {
			fs := c15Run(r, c)
			r.Count("special_name_cases", 1)

			return fs
		},
	)

	if !r.Replaying() {
		r.Count("entries_seen", c15SeenEntries)
		r.Count("warm_up_entries_seen", c15WarmEntries)
		r.Count("cases_attributed_logging_passed", c15Eligible)
		if c15Eligible > 0 && c15SeenEntries == 0 {
			// The converse direction is only a vacuity guard.
			vrt.Fatalf("vacuous run: %d requests of a profile with query logging were served and passed, but the stack produced no query-log entry at all; the harness (or the logging path as a whole) is broken", c15Eligible)
		}
	}
	r.Finish()
	cleanup()
	os.Exit(0)
}
