//go:build verif

// Unit 2 of check C15: schedule exploration (engine XS) of concurrent
// querylog.FileSystem.Write calls on one real FileSystem that appends to one
// real file.
//
// fs.go is rebuilt with a scheduling point before every call statement of
// Write (and of the closures it defers), so that every interleaving of the
// steps "take a buffer from the pool / fill the entry / open / encode / write /
// close / put the buffer back" of 2-3 writers is executed, up to the
// preemption bound.  After each execution the file must consist of exactly one
// complete single-line JSON object per Write call, each equal (the random
// "rn" aside) to the object doc/querylog.md prescribes for one of the written
// entries, as a multiset.
package querylog

import (
	"bytes"
	"context"
	"encoding/json"
	"fmt"
	"net/netip"
	"os"
	"path/filepath"
	"runtime"
	"runtime/debug"
	"sort"
	"strings"
	"testing"
	"time"

	"github.com/AdguardTeam/AdGuardDNS/internal/agd"
	"github.com/AdguardTeam/AdGuardDNS/internal/dnsserver/zzverif/vrt"
	"github.com/AdguardTeam/AdGuardDNS/internal/dnsserver/zzverif/xsched"
	"github.com/AdguardTeam/AdGuardDNS/internal/filter"
	"github.com/AdguardTeam/AdGuardDNS/internal/geoip"
	"github.com/AdguardTeam/golibs/logutil/slogutil"
	"github.com/miekg/dns"
)

// c15wSpec is the harness-level description of one logged request.  Both the
// querylog.Entry handed to the real code and the JSON object expected in the
// file are derived from it, the latter by hand from doc/querylog.md.
type c15wSpec struct {
	ReqID   byte
	Profile string
	Device  string
	Name    string
	CC, RC  string
	// Res is none | req-blocked | resp-blocked | req-allowed | resp-allowed |
	// mod-resp | mod-req.
	Res        string
	List, Rule string
	IP         string
	TimeMs     int64
	ASN        uint32
	ElapsedMs  uint32
	QType      uint16
	RCode      uint16
	Proto      agd.Protocol
	DNSSEC     bool
}

// c15wSpecs differ in every field and, on purpose, in encoded length: a
// shared encode buffer or entry struct shows as a line that is a mixture, a
// duplicate or a truncation.
var c15wSpecs = []c15wSpec{{
	ReqID: 0x11, Profile: "prof1111", Device: "dev1111", Name: "a.example.", CC: "AU", RC: "US",
	Res: "req-blocked", List: "adguard_dns_filter", Rule: "||a.example^",
	IP: "192.0.2.1", TimeMs: 1628590394000, ASN: 1111, ElapsedMs: 1, QType: dns.TypeA, RCode: dns.RcodeSuccess,
	Proto: agd.ProtoDNS, DNSSEC: false,
}, {
	ReqID: 0x22, Profile: "prof2222", Device: "dev2222",
	Name: "a-rather-long-label-to-make-this-line-very-much-longer.sub.domain.second-writer.example.org.",
	CC:   "DE", RC: "",
	Res: "none",
	IP:  "", TimeMs: 1628590395111, ASN: 0, ElapsedMs: 22, QType: dns.TypeAAAA, RCode: dns.RcodeNameError,
	Proto: agd.ProtoDoT, DNSSEC: true,
}, {
	ReqID: 0x33, Profile: "prof3333", Device: "dev3333", Name: "Mixed.Case.Third.Example.", CC: "", RC: "JP",
	Res: "mod-resp", List: "general_safe_search", Rule: "|mixed.case.third.example^$dnsrewrite=NOERROR;CNAME;safe.example",
	IP: "2001:db8::33", TimeMs: 1628590396222, ASN: 33333, ElapsedMs: 333, QType: dns.TypeHTTPS, RCode: dns.RcodeSuccess,
	Proto: agd.ProtoDoH, DNSSEC: false,
}, {
	ReqID: 0x44, Profile: "prof4444", Device: "dev4444", Name: "x.test.", CC: "NL", RC: "QN",
	Res: "resp-blocked", List: "blocked_service", Rule: "svc",
	IP: "", TimeMs: 1628590397333, ASN: 4, ElapsedMs: 0, QType: dns.TypeA, RCode: dns.RcodeRefused,
	Proto: agd.ProtoDoQ, DNSSEC: false,
}, {
	ReqID: 0x55, Profile: "prof5555", Device: "dev5555", Name: "fifth.allowed.example.net.", CC: "FR", RC: "FR",
	Res: "req-allowed", List: "custom", Rule: "@@||fifth.allowed.example.net^",
	IP: "198.51.100.55", TimeMs: 1628590398444, ASN: 55, ElapsedMs: 5, QType: dns.TypeAAAA, RCode: dns.RcodeServerFailure,
	Proto: agd.ProtoDNSCrypt, DNSSEC: true,
}, {
	ReqID: 0x66, Profile: "prof6666", Device: "dev6666", Name: "six.example.", CC: "", RC: "",
	Res: "mod-req", List: "custom", Rule: "|six.example^$dnsrewrite=other.example",
	IP: "", TimeMs: 1628590399555, ASN: 0, ElapsedMs: 66, QType: dns.TypeA, RCode: dns.RcodeSuccess,
	Proto: agd.ProtoDoT, DNSSEC: false,
}, {
	// 6: a line just under 1024 bytes (long but valid rule text).
	ReqID: 0x77, Profile: "prof7777", Device: "dev7777", Name: "seven.under-one-kib.example.", CC: "SE", RC: "SE",
	Res: "req-blocked", List: "list_seven", Rule: c15wLongRule("||seven.under-one-kib.example^$", 760),
	IP: "192.0.2.7", TimeMs: 1628590400666, ASN: 7, ElapsedMs: 7, QType: dns.TypeA, RCode: dns.RcodeSuccess,
	Proto: agd.ProtoDNS, DNSSEC: false,
}, {
	// 7: a line of about 1100 bytes.
	ReqID: 0x88, Profile: "prof8888", Device: "dev8888", Name: "eight.over-one-kib.example.", CC: "NO", RC: "",
	Res: "resp-blocked", List: "list_eight", Rule: c15wLongRule("||eight.over-one-kib.example^$", 900),
	IP: "", TimeMs: 1628590401777, ASN: 88, ElapsedMs: 8, QType: dns.TypeAAAA, RCode: dns.RcodeSuccess,
	Proto: agd.ProtoDoH, DNSSEC: true,
}, {
	// 8: a line of about 4 KiB: a 253-octet name and a rule text of the
	// maximum length (1024 runes) whose runes take 3 or, escaped, 6 bytes.
	ReqID: 0x99, Profile: "prof9999", Device: "dev9999", Name: c15wLongName(), CC: "FI", RC: "FI",
	Res: "req-allowed", List: "custom", Rule: c15wWideRule(1024),
	IP: "2001:db8::99", TimeMs: 1628590402888, ASN: 999, ElapsedMs: 9, QType: dns.TypeHTTPS, RCode: dns.RcodeNameError,
	Proto: agd.ProtoDoQ, DNSSEC: false,
}}

// c15wLongRule pads prefix with a valid-looking modifier list to n bytes.
func c15wLongRule(prefix string, n int) string {
	var sb strings.Builder
	sb.WriteString(prefix)
	for i := 0; sb.Len() < n; i++ {
		fmt.Fprintf(&sb, "client=~host%d|", i)
	}

	return sb.String()[:n]
}

// c15wWideRule is a rule text of n runes made of 3-byte runes and of
// characters that encoding/json escapes as \u00XX.
func c15wWideRule(n int) string {
	rs := []rune(strings.Repeat("日本&", n/3+1))

	return string(rs[:n])
}

// c15wLongName is a 253-octet domain name (without the trailing dot).
func c15wLongName() string {
	l := strings.Repeat("a", 61)
	name := l + "." + strings.Repeat("b", 61) + "." + strings.Repeat("c", 61) + "." + strings.Repeat("d", 61) + ".tests"
	if len(name) != 253 {
		panic(fmt.Sprintf("long name has %d octets", len(name)))
	}

	return name + "."
}

func (sp c15wSpec) reqID() (id agd.RequestID) {
	for i := range id {
		id[i] = sp.ReqID
	}

	return id
}

// entry builds the fresh querylog.Entry of one request.
func (sp c15wSpec) entry() (e *Entry) {
	e = &Entry{
		Time:            time.UnixMilli(sp.TimeMs),
		ProfileID:       agd.ProfileID(sp.Profile),
		DeviceID:        agd.DeviceID(sp.Device),
		ClientCountry:   geoip.Country(sp.CC),
		ResponseCountry: geoip.Country(sp.RC),
		DomainFQDN:      sp.Name,
		RequestID:       sp.reqID(),
		Elapsed:         time.Duration(sp.ElapsedMs) * time.Millisecond,
		ClientASN:       geoip.ASN(sp.ASN),
		RequestType:     sp.QType,
		ResponseCode:    sp.RCode,
		Protocol:        sp.Proto,
		DNSSEC:          sp.DNSSEC,
	}
	if sp.IP != "" {
		e.RemoteIP = netip.MustParseAddr(sp.IP)
	}
	id, rule := filter.ID(sp.List), filter.RuleText(sp.Rule)
	switch sp.Res {
	case "none":
	case "req-blocked":
		e.RequestResult = &filter.ResultBlocked{List: id, Rule: rule}
	case "resp-blocked":
		e.ResponseResult = &filter.ResultBlocked{List: id, Rule: rule}
	case "req-allowed":
		e.RequestResult = &filter.ResultAllowed{List: id, Rule: rule}
	case "resp-allowed":
		e.ResponseResult = &filter.ResultAllowed{List: id, Rule: rule}
	case "mod-resp":
		e.RequestResult = &filter.ResultModifiedResponse{Msg: &dns.Msg{}, List: id, Rule: rule}
	case "mod-req":
		e.RequestResult = &filter.ResultModifiedRequest{Msg: &dns.Msg{}, List: id, Rule: rule}
	default:
		vrt.Fatalf("bad result kind %q", sp.Res)
	}

	return e
}

// c15wDocCodes is the "f" table of doc/querylog.md.
var c15wDocCodes = map[string]int{
	"none": 1, "req-blocked": 2, "resp-blocked": 3, "req-allowed": 4, "resp-allowed": 5, "mod-resp": 6, "mod-req": 6,
}

// want is the JSON object doc/querylog.md prescribes, without "rn", in
// canonical form (sorted keys).
func (sp c15wSpec) want() string {
	m := map[string]any{
		"u": sp.reqID().String(),
		"b": sp.Profile,
		"i": sp.Device,
		"n": sp.Name,
		"t": sp.TimeMs,
		"e": sp.ElapsedMs,
		"q": sp.QType,
		"r": sp.RCode,
		"f": c15wDocCodes[sp.Res],
		"s": 0,
		"p": int(sp.Proto),
	}
	if sp.DNSSEC {
		m["s"] = 1
	}
	// "If none could be detected, this property is absent".
	if sp.CC != "" {
		m["c"] = sp.CC
	}
	if sp.RC != "" {
		m["d"] = sp.RC
	}
	if sp.ASN != 0 {
		m["a"] = sp.ASN
	}
	// "If no rules matched, this property is omitted".
	if sp.Res != "none" {
		m["l"] = sp.List
		m["m"] = sp.Rule
	}
	// "This field is omitted in case the IP logging is turned off".
	if sp.IP != "" {
		m["ip"] = sp.IP
	}

	return c15wCanon(m)
}

func c15wCanon(m map[string]any) string {
	b, err := json.Marshal(m)
	if err != nil {
		vrt.Fatalf("canon: %v", err)
	}

	return string(b)
}

// c15wScenario lists, per writer task, the indexes of the specs it writes in
// order.
type c15wScenario struct {
	Name    string
	Writers [][]int
	// PreQuick and PreThorough are the preemption bounds of the two tiers; a
	// negative bound means that the scenario does not run in that tier.
	PreQuick, PreThorough int
	// FailedWrites is the number of sequential Writes that precede the
	// concurrent writers on the same FileSystem while the log path is a
	// symbolic link to /dev/full: the open succeeds, write(2) fails with
	// ENOSPC, Write must return an error and leave no line.  The link is
	// removed before the writers start.
	FailedWrites int
	// Prelude lists entries that are written sequentially and successfully on
	// the same FileSystem before the concurrent writers start; their lines
	// belong into the file as well.
	Prelude []int
	// FailedOpens is the number of sequential Writes that precede the
	// concurrent writers on the same FileSystem while the directory of the log
	// path does not exist yet: os.OpenFile fails, Write must return an error
	// and leave no line.  The directory is created before the writers start.
	FailedOpens int
}

var c15wScenarios = []c15wScenario{
	{Name: "2w-1+1", Writers: [][]int{{0}, {1}}, PreQuick: 2, PreThorough: 3},
	{Name: "2w-2+1", Writers: [][]int{{0, 2}, {1}}, PreQuick: 2, PreThorough: 3},
	{Name: "2w-2+2", Writers: [][]int{{0, 2}, {1, 3}}, PreQuick: 2, PreThorough: 3},
	{Name: "3w-1+1+1", Writers: [][]int{{0}, {1}, {2}}, PreQuick: -1, PreThorough: 3},
	{Name: "3w-2+1+1", Writers: [][]int{{0, 3}, {1}, {2}}, PreQuick: -1, PreThorough: 3},
	// The largest shapes are explored with one preemption less (measured: 2.4
	// and >2.9 million executions with 3).
	{Name: "3w-2+2+1", Writers: [][]int{{0, 3}, {1, 4}, {2}}, PreQuick: -1, PreThorough: 2},
	{Name: "3w-2+2+2", Writers: [][]int{{0, 3}, {1, 4}, {2, 5}}, PreQuick: -1, PreThorough: 2},
	// A failed open FOLLOWED by concurrent writers: whatever the error path
	// did to the pooled buffer meets two writers in flight.
	{Name: "fo1-2w-1+1", FailedOpens: 1, Writers: [][]int{{0}, {1}}, PreQuick: 2, PreThorough: 3},
	{Name: "fo2-2w-2+1", FailedOpens: 2, Writers: [][]int{{0, 2}, {1}}, PreQuick: 2, PreThorough: 3},
	{Name: "fo1-2w-2+2", FailedOpens: 1, Writers: [][]int{{0, 2}, {1, 3}}, PreQuick: 2, PreThorough: 3},
	{Name: "fo1-3w-1+1+1", FailedOpens: 1, Writers: [][]int{{0}, {1}, {2}}, PreQuick: -1, PreThorough: 3},
	{Name: "fo2-3w-2+1+1", FailedOpens: 2, Writers: [][]int{{0, 3}, {1}, {2}}, PreQuick: -1, PreThorough: 2},
}

// c15wSizeScenarios: a large record goes through the pooled buffer first.
func init() {
	c15wScenarios = append(c15wScenarios,
		c15wScenario{Name: "big4k-2w-1+1", Prelude: []int{8}, Writers: [][]int{{0}, {1}}, PreQuick: 2, PreThorough: 3},
		c15wScenario{Name: "big1100+4k-2w-2+1", Prelude: []int{7, 8}, Writers: [][]int{{0, 2}, {1}}, PreQuick: -1, PreThorough: 3},
	)
}

// A failed write(2) after a successful open FOLLOWED by concurrent writers.
func init() {
	c15wScenarios = append(c15wScenarios,
		c15wScenario{Name: "fw1-2w-1+1", FailedWrites: 1, Writers: [][]int{{0}, {1}}, PreQuick: 2, PreThorough: 3},
		c15wScenario{Name: "fw2-2w-2+1", FailedWrites: 2, Writers: [][]int{{0, 2}, {1}}, PreQuick: 2, PreThorough: 3},
		c15wScenario{Name: "fw1-2w-2+2", FailedWrites: 1, Writers: [][]int{{0, 2}, {1, 3}}, PreQuick: 2, PreThorough: 3},
		c15wScenario{Name: "fw1-3w-1+1+1", FailedWrites: 1, Writers: [][]int{{0}, {1}, {2}}, PreQuick: -1, PreThorough: 3},
		c15wScenario{Name: "fw2-3w-2+1+1", FailedWrites: 2, Writers: [][]int{{0, 3}, {1}, {2}}, PreQuick: -1, PreThorough: 2},
	)
}

// c15wFailedOpenSpecs are the entries of the Writes whose open fails.
var c15wFailedOpenSpecs = []int{5, 4}

type c15wEnv struct {
	sc   c15wScenario
	path string
	errs []string
	// pre are the complaints about the sequential prelude.
	pre []string
}

var (
	c15wDir string
	c15wSeq int
)

func c15wSetup(sc c15wScenario, s *xsched.Sched) (env *c15wEnv) {
	c15wSeq++
	sub := filepath.Join(c15wDir, fmt.Sprintf("xs-%d", c15wSeq%2))
	env = &c15wEnv{sc: sc, path: filepath.Join(sub, "ql.jsonl")}
	if err := os.RemoveAll(sub); err != nil {
		vrt.Fatalf("remove: %v", err)
	}
	l := NewFileSystem(&FileSystemConfig{
		Logger:   slogutil.NewDiscardLogger(),
		Path:     env.path,
		RandSeed: 1,
	})
	ctx := context.Background()
	// Sequential prelude (no task runs yet, the scheduling points are
	// no-ops): Writes whose open fails because the directory is missing.
	for k := 0; k < sc.FailedOpens; k++ {
		si := c15wFailedOpenSpecs[k%len(c15wFailedOpenSpecs)]
		if err := l.Write(ctx, c15wSpecs[si].entry()); err == nil {
			env.pre = append(env.pre, fmt.Sprintf("prelude Write %d (entry %d) returned nil although the directory of the log path does not exist", k+1, si))
		}
	}
	if err := os.MkdirAll(sub, 0o755); err != nil {
		vrt.Fatalf("mkdir: %v", err)
	}
	if sc.FailedWrites > 0 {
		if err := os.Symlink("/dev/full", env.path); err != nil {
			vrt.Fatalf("symlink: %v", err)
		}
		for k := 0; k < sc.FailedWrites; k++ {
			si := c15wFailedOpenSpecs[k%len(c15wFailedOpenSpecs)]
			if err := l.Write(ctx, c15wSpecs[si].entry()); err == nil {
				env.pre = append(env.pre, fmt.Sprintf("prelude Write %d (entry %d) returned nil although the log path leads to /dev/full, where every write fails with ENOSPC", k+1, si))
			}
		}
		if err := os.Remove(env.path); err != nil {
			vrt.Fatalf("remove link: %v", err)
		}
	}
	for _, si := range sc.Prelude {
		if err := l.Write(ctx, c15wSpecs[si].entry()); err != nil {
			env.errs = append(env.errs, fmt.Sprintf("prelude spec %d: %v", si, err))
		}
	}
	for i, idxs := range sc.Writers {
		s.Go(fmt.Sprintf("W%d", i+1), func() {
			for _, si := range idxs {
				// Every request has its own fresh Entry, like in mainmw.
				e := c15wSpecs[si].entry()
				if err := l.Write(ctx, e); err != nil {
					env.errs = append(env.errs, fmt.Sprintf("W%d spec %d: %v", i+1, si, err))
				}
			}
		})
	}

	return env
}

// c15wCheck is the oracle of the file content.  order is the sequence of
// spec indexes in file order ("?" for unmatched lines), for classes.
func c15wCheck(env *c15wEnv, x *xsched.Exec) (fs []vrt.Finding, order string) {
	if x.Sched.Panicked != "" {
		return vrt.F("querylog-file/panic", "%s", x.Sched.Panicked), "panic"
	}
	if x.Sched.Deadlock {
		return vrt.F("querylog-file/deadlock", "blocked: %v", x.Sched.Blocked), "deadlock"
	}
	if x.Sched.LimitHit {
		return vrt.F("querylog-file/livelock", "step limit hit"), "livelock"
	}
	if len(env.pre) > 0 {
		return vrt.F("querylog-file/failed-write-reported-success", "%q", env.pre), "prelude"
	}
	if len(env.errs) > 0 {
		return vrt.F("querylog-file/write-failed", "Write returned an error: %q", env.errs), "error"
	}
	data, err := os.ReadFile(env.path)
	if err != nil {
		if !os.IsNotExist(err) {
			vrt.Fatalf("reading the log file: %v", err)
		}
		data = nil
	}
	// Expected multiset.
	remaining := map[string][]int{}
	n := 0
	for _, idxs := range append([][]int{env.sc.Prelude}, env.sc.Writers...) {
		for _, si := range idxs {
			w := c15wSpecs[si].want()
			remaining[w] = append(remaining[w], si)
			n++
		}
	}
	show := func() string { return fmt.Sprintf("file content (%d bytes):\n%s", len(data), data) }
	if len(data) > 0 && data[len(data)-1] != '\n' {
		return vrt.F("querylog-file/last-line-not-terminated", "the file does not end with a newline\n%s", show()), "unterminated"
	}
	var lines [][]byte
	if len(data) > 0 {
		lines = bytes.Split(data[:len(data)-1], []byte("\n"))
	}
	var ord []string
	for li, line := range lines {
		var m map[string]any
		dec := json.NewDecoder(bytes.NewReader(line))
		dec.UseNumber()
		derr := dec.Decode(&m)
		if derr == nil && dec.More() {
			derr = fmt.Errorf("more than one JSON value in the line")
		}
		if derr == nil && !json.Valid(line) {
			derr = fmt.Errorf("not a valid JSON text")
		}
		if derr != nil || m == nil {
			fs = append(fs, vrt.F("querylog-file/line-not-a-complete-json-object",
				"line %d of the file is not one complete JSON object (%v): %q\n%s", li+1, derr, line, show())...)
			ord = append(ord, "?")

			continue
		}
		delete(m, "rn")
		got := c15wCanon(m)
		if sis := remaining[got]; len(sis) > 0 {
			ord = append(ord, fmt.Sprint(sis[0]))
			remaining[got] = sis[1:]

			continue
		}
		ord = append(ord, "?")
		fs = append(fs, vrt.F("querylog-file/line-matches-no-logged-request",
			"line %d of the file is a JSON object that equals none of the (remaining) written entries: it is a mixture, a duplicate or a corrupted copy\n   line: %s\n%s",
			li+1, got, show())...)
	}
	if len(lines) != n {
		fs = append(fs, vrt.F("querylog-file/line-count-differs",
			"%d entries were written without error but the file has %d line(s)\n%s", n, len(lines), show())...)
	}
	if len(fs) == 0 {
		for w, sis := range remaining {
			if len(sis) > 0 {
				fs = append(fs, vrt.F("querylog-file/entry-missing", "no line for entry %s\n%s", w, show())...)
			}
		}
	}
	if len(fs) > 1 {
		// One finding per execution is enough; keep the first (lowest line).
		fs = fs[:1]
	}

	return fs, strings.Join(ord, ",")
}

// c15wScratch returns the directory of the log files.  The harness creates and
// removes a log file per execution (hundreds of thousands of times); on the
// ext4 root file system of the build machine (mounted with online discard and
// shared with other jobs) a single openat/unlink was seen to stall for more
// than a minute, which trips the explorer's watchdog.  A tmpfs directory is a
// real file system with the same write(2)/O_APPEND semantics, so it is used
// when there is one; otherwise t.TempDir().  The directory is private to the
// process and removed by cleanup.
func c15wScratch(t *testing.T) (dir string, cleanup func()) {
	for _, base := range []string{os.Getenv("VERIF_SCRATCH"), "/dev/shm"} {
		if base == "" {
			continue
		}
		// Sweep what crashed processes left behind long ago.
		old, _ := filepath.Glob(filepath.Join(base, "verif-c15-*"))
		for _, o := range old {
			if fi, serr := os.Stat(o); serr == nil && time.Since(fi.ModTime()) > 6*time.Hour {
				_ = os.RemoveAll(o)
			}
		}
		d, err := os.MkdirTemp(base, "verif-c15-")
		if err == nil {
			return d, func() { _ = os.RemoveAll(d) }
		}
	}

	return t.TempDir(), func() {}
}

type c15wCase struct {
	Scenario int   `json:"scenario"`
	Choices  []int `json:"choices"`
}

func TestVerifC15File(t *testing.T) {
	r := vrt.Start("C15")
	var cleanup func()
	c15wDir, cleanup = c15wScratch(t)
	defer cleanup()
	// The buffer pool is a sync.Pool: a collection in the middle of an
	// execution would empty it and hide a reuse.  Collections are run between
	// executions instead.
	debug.SetGCPercent(-1)

	// Self-check of the reference objects: all different, all different in
	// length.
	seen := map[string]bool{}
	lens := map[int]bool{}
	for _, sp := range c15wSpecs {
		w := sp.want()
		if seen[w] || lens[len(w)] {
			vrt.Fatalf("specs must differ in content and length (%d bytes): %s", len(w), w)
		}
		seen[w], lens[len(w)] = true, true
	}

	// Sequential histories with write faults (fsfault_test.go).
	c15fPart(r)

	var rc c15wCase
	if r.ReplayCase("file", &rc) {
		var env *c15wEnv
		x := xsched.Replay(rc.Choices, func(s *xsched.Sched) { env = c15wSetup(c15wScenarios[rc.Scenario], s) })
		r.Eval()
		fs, _ := c15wCheck(env, x)
		if len(fs) > 0 {
			fs[0].Detail += "\nschedule:\n" + x.Sched.Describe()
		}
		r.Report("file", rc, fs)
	}
	if r.ShouldRun() {
		shard, nshards := r.NShards()
		devFull, devFullWhy := c15fDevFull()
		var names []string
		ji := 0
		for si, sc := range c15wScenarios {
			pre := vrt.Pick(r, sc.PreQuick, sc.PreThorough)
			if pre < 0 {
				continue
			}
			if sc.FailedWrites > 0 && !devFull {
				r.Note("file scenario %s SKIPPED: /dev/full is not usable in this sandbox (%s)", sc.Name, devFullWhy)

				continue
			}
			names = append(names, fmt.Sprintf("%s(preemptions<=%d)", sc.Name, pre))
			mine := ji%nshards == shard
			ji++
			if !mine {
				continue
			}
			var env *c15wEnv
			found := 0
			nexec := 0
			st := xsched.Explore(xsched.Config{MaxPreemptions: pre, MaxDeviations: 0, Stop: r.Expired},
				func(s *xsched.Sched) { env = c15wSetup(sc, s) },
				func(x *xsched.Exec) bool {
					nexec++
					if nexec%512 == 0 {
						runtime.GC()
					}
					r.Eval()
					r.Trans(len(x.Sched.Trace))
					fs, order := c15wCheck(env, x)
					r.Class(sc.Name + " file order " + order)
					if r.State(sc.Name + "|" + order) {
						r.Sample(map[string]any{"scenario": sc.Name, "file_order_of_entries": order, "preemptions": x.Preemptions})
					}
					if len(fs) > 0 {
						fs[0].Detail += "\nschedule:\n" + x.Sched.Describe()
						r.Report("file", c15wCase{Scenario: si, Choices: x.Choices}, fs)
						found++
					}

					return found < 3
				})
			r.Note("file scenario %s preemptions<=%d: executions=%d points=%d max_trace=%d stopped=%v", sc.Name, pre, st.Executions, st.Points, st.MaxTrace, st.Stopped)
			if st.Stopped {
				r.NotExhaustive("file scenario " + sc.Name + " stopped by the internal deadline")
			}
		}
		sort.Strings(names)
		r.Bound("file_scenarios", strings.Join(names, " "))
	}
	r.Finish()
	cleanup()
	os.Exit(0)
}
