//go:build verif

// Package zzverifc15 is the harness of unit 1 of check C15: only requests that
// were attributed to a profile are billed, only those of profiles with query
// logging are logged, the client address appears only with IP logging, and
// every entry describes its own request.
//
// stack_test.go builds the production handler chain with dnssvc.NewHandlers
// (real ratelimitmw with the real devicefinder and the real access engines,
// initial, preservice, mainmw, preupstream, ecscache) for four servers (plain
// DNS, DoT, DoH, DoQ).  Behind mainmw sit a recording billstat.Recorder and a
// query log that records every querylog.Entry it is given AND hands it to a
// real querylog.FileSystem writing to a temporary file, which the harness
// parses back.  (Design adapted from checks/c10/rig_test.go.)
package zzverifc15

import (
	"bytes"
	"context"
	"encoding/json"
	"errors"
	"fmt"
	"net"
	"net/netip"
	"net/url"
	"os"
	"path/filepath"
	"strings"
	"time"

	"github.com/AdguardTeam/AdGuardDNS/internal/access"
	"github.com/AdguardTeam/AdGuardDNS/internal/agd"
	"github.com/AdguardTeam/AdGuardDNS/internal/agdcache"
	"github.com/AdguardTeam/AdGuardDNS/internal/agdpasswd"
	"github.com/AdguardTeam/AdGuardDNS/internal/agdtest"
	"github.com/AdguardTeam/AdGuardDNS/internal/dnsmsg"
	"github.com/AdguardTeam/AdGuardDNS/internal/dnsserver"
	"github.com/AdguardTeam/AdGuardDNS/internal/dnsserver/zzverif/vdns"
	"github.com/AdguardTeam/AdGuardDNS/internal/dnsserver/zzverif/vrt"
	"github.com/AdguardTeam/AdGuardDNS/internal/dnssvc"
	"github.com/AdguardTeam/AdGuardDNS/internal/filter"
	"github.com/AdguardTeam/AdGuardDNS/internal/geoip"
	"github.com/AdguardTeam/AdGuardDNS/internal/profiledb"
	"github.com/AdguardTeam/AdGuardDNS/internal/querylog"
	"github.com/AdguardTeam/golibs/container"
	"github.com/AdguardTeam/golibs/logutil/slogutil"
	"github.com/AdguardTeam/golibs/netutil"
	"github.com/miekg/dns"
)

// ---- World -------------------------------------------------------------------

const (
	// The profile and device under test.
	c15ProfID agd.ProfileID = "prof1"
	c15DevID  agd.DeviceID  = "dev1"

	// The profile and device of the warm-up request that precedes the request
	// under test on the same stack.  It always has query and IP logging on.
	c15WarmProfID agd.ProfileID = "prof2"
	c15WarmDevID  agd.DeviceID  = "dev2"
	c15WarmClient               = "203.0.113.77"
	c15WarmName                 = "Warmup.Other.Test."
	c15WarmQType                = dns.TypeMX
	c15WarmList                 = "warm_list"
	c15WarmRule                 = "||warmup.other.test^"

	c15DevDomain = "d.test"
	c15FltGrpID  = agd.FilteringGroupID("fg")

	c15RewriteTarget = "rewrite-target.test."

	// Names and networks of the access outcomes.
	c15GlobalBlockedName = "globally-denied.test"
	c15GlobalBlockedNet4 = "198.18.0.0/24"
	c15GlobalBlockedNet6 = "2001:db8:bad::/48"
	c15ProfBlockedNet4   = "192.0.2.0/24"
	c15ProfBlockedNet6   = "2001:db8::/64"
)

// c15Servers are the four servers of the server group.
var c15Servers = map[string]struct {
	name  string
	addr  string
	agd   agd.Protocol
	proto dnsserver.Protocol
	tcp   bool
}{
	"dns": {"srv_dns", "192.0.2.53:53", agd.ProtoDNS, dnsserver.ProtoDNS, false},
	"dot": {"srv_dot", "192.0.2.53:853", agd.ProtoDoT, dnsserver.ProtoDoT, true},
	"doh": {"srv_doh", "192.0.2.53:443", agd.ProtoDoH, dnsserver.ProtoDoH, true},
	"doq": {"srv_doq", "192.0.2.53:784", agd.ProtoDoQ, dnsserver.ProtoDoQ, false},
}

// ---- What the stack recorded -------------------------------------------------

// c15Bill is one call of billstat.Recorder.Record.
type c15Bill struct {
	Dev   agd.DeviceID
	Ctry  geoip.Country
	ASN   geoip.ASN
	Start time.Time
	Proto agd.Protocol
}

type c15Rec struct {
	// Entries are copies of the entries handed to querylog.Interface.Write.
	Entries []querylog.Entry
	Bills   []c15Bill
	Errors  []string
	// WriteErrs are the errors of the real querylog.FileSystem.
	WriteErrs []string
	// Upstream counts the calls of the scripted upstream.
	Upstream int
}

// c15QueryLog records the entry and passes it to the real file query log.
type c15QueryLog struct {
	rec *c15Rec
	fs  *querylog.FileSystem
}

var _ querylog.Interface = (*c15QueryLog)(nil)

func (l *c15QueryLog) Write(ctx context.Context, e *querylog.Entry) (err error) {
	l.rec.Entries = append(l.rec.Entries, *e)
	err = l.fs.Write(ctx, e)
	if err != nil {
		l.rec.WriteErrs = append(l.rec.WriteErrs, err.Error())
	}

	return err
}

// c15Ratelimiter is a profile ratelimiter with a scripted verdict.
type c15Ratelimiter struct {
	res agd.RatelimitResult
}

var _ agd.Ratelimiter = (*c15Ratelimiter)(nil)

func (r *c15Ratelimiter) Check(_ context.Context, _ *dns.Msg, _ netip.Addr) agd.RatelimitResult {
	return r.res
}
func (r *c15Ratelimiter) Config() *agd.RatelimitConfig { return &agd.RatelimitConfig{} }
func (r *c15Ratelimiter) CountResponses(_ context.Context, _ *dns.Msg, _ netip.Addr) {
}

// ---- Configuration of one stack ----------------------------------------------

// c15Config is everything that is fixed when a stack is built.
type c15Config struct {
	// Requester is anonymous | profile | authfail | deleted.
	Requester string `json:"requester"`
	// QL and IP are the profile's QueryLogEnabled and IPLogEnabled flags.
	QL bool `json:"querylog"`
	IP bool `json:"iplog"`
	// Outcome names what happens to the request; see c15Outcomes.
	Outcome string `json:"outcome"`
	// Mode is the profile's blocking mode: null_ip | nxdomain | refused.
	Mode string `json:"mode"`
	// BlockSpecial sets BlockChromePrefetch, BlockFirefoxCanary and
	// BlockPrivateRelay of the profile and of the filtering group, so that the
	// initial middleware answers those names itself.
	BlockSpecial bool `json:"block_special,omitempty"`
}

// c15Outcomes lists the outcomes, simplest first.
var c15Outcomes = []string{
	"passed",
	"req-blocked",        // blocked by a request rule
	"resp-blocked",       // blocked by a response rule
	"rewritten-resp",     // request rewritten into a response (dnsrewrite / safe search)
	"rewritten-cname",    // request rewritten to another name which is then resolved
	"req-allowed",        // allowed by an allowlist rule matching the request
	"resp-allowed",       // allowed by an allowlist rule matching the response
	"access-profile",     // client address in the profile's blocked networks
	"access-global-ip",   // client address in the globally blocked networks
	"access-global-name", // question name blocked by the global access rules
	"rl-global",          // dropped by the global rate limiter
	"rl-profile",         // dropped by the profile's rate limiter
	"debug",              // CHAOS-class debug query
	"debug-blocked",      // CHAOS-class debug query for a name blocked by a request rule
	"upstream-error",     // the upstream handler fails
	"upstream-servfail",  // the upstream answers SERVFAIL
	"upstream-nxdomain",  // the upstream answers NXDOMAIN

	// Outcomes in which BOTH filtering stages return a result ("request part
	// + response part").  mainmw.setFilteredResponse lets the request result
	// decide what the client receives whenever there is one.
	"req-allowed+resp-ip-blocked",     // allowlist rule of list A; the answer's IP matches a blocking rule of list B
	"req-allowed+resp-cname-blocked",  // allowlist rule; the answer's CNAME target matches a blocking rule
	"req-allowed+resp-allowed",        // allowlist rules at both stages
	"rewritten-resp+resp-ip-blocked",  // $dnsrewrite into a response; the upstream answer matches a response rule
	"rewritten-cname+resp-ip-blocked", // CNAME rewrite; a response rule exists for the rewritten name's answer
	"req-blocked+resp-allowed",        // blocked by a request rule; the upstream answer matches an allowlist rule
}

// c15Parts splits an outcome into what the request stage and what the response
// stage of the scripted filter do.
func c15Parts(outcome string) (reqPart, respPart string) {
	if a, b, ok := strings.Cut(outcome, "+"); ok {
		return a, b
	}

	return outcome, outcome
}

const c15CNAMETarget = "cname-target.test."

// c15Stack is one freshly built production chain.
type c15Stack struct {
	conf c15Config
	rec  *c15Rec
	h    map[string]dnsserver.Handler
	path string

	prof, warmProf *agd.Profile
	dev, warmDev   *agd.Device

	// ident says whom the profile database recognises behind the current
	// request when it is looked up by linked IP: "" (nobody), "p1", "p2".
	ident string
	// name is the lower-case host of the request under test (the filter and
	// the upstream are scripted on it).
	host string
}

var (
	c15Cloner   = dnsmsg.NewCloner(dnsmsg.EmptyClonerStat{})
	c15Messages *dnsmsg.Constructor
	c15Dir      string
	c15Seq      int
)

func c15Init(dir string) {
	var err error
	c15Messages, err = dnsmsg.NewConstructor(&dnsmsg.ConstructorConfig{
		Cloner:              c15Cloner,
		BlockingMode:        &dnsmsg.BlockingModeNullIP{},
		StructuredErrors:    agdtest.NewSDEConfig(true),
		FilteredResponseTTL: 10 * time.Second,
		EDEEnabled:          true,
	})
	if err != nil {
		vrt.Fatalf("constructor: %v", err)
	}
	c15Dir = dir
}

func c15Prefixes(ss ...string) (ps []netip.Prefix) {
	for _, s := range ss {
		ps = append(ps, netip.MustParsePrefix(s))
	}

	return ps
}

// c15Answer is the scripted upstream: a pure function of the question and of
// the outcome.
func (s *c15Stack) upstream() dnsserver.Handler {
	return dnsserver.HandlerFunc(func(ctx context.Context, rw dnsserver.ResponseWriter, req *dns.Msg) (err error) {
		s.rec.Upstream++
		q := req.Question[0]
		resp := &dns.Msg{}
		resp.SetReply(req)
		resp.RecursionAvailable = true
		own := strings.EqualFold(strings.TrimSuffix(q.Name, "."), s.host) || strings.EqualFold(q.Name, c15RewriteTarget)
		if own {
			switch s.conf.Outcome {
			case "upstream-error":
				return errors.New("c15: upstream is down")
			case "upstream-servfail":
				resp.Rcode = dns.RcodeServerFailure

				return rw.WriteMsg(ctx, req, resp)
			case "upstream-nxdomain":
				resp.Rcode = dns.RcodeNameError
				resp.Ns = []dns.RR{vdns.MustRR("test. 30 IN SOA ns.test. hm.test. 1 3600 600 86400 30")}

				return rw.WriteMsg(ctx, req, resp)
			}
		}
		owner := q.Name
		if _, respPart := c15Parts(s.conf.Outcome); own && respPart == "resp-cname-blocked" && q.Qtype != dns.TypeHTTPS {
			resp.Answer = []dns.RR{vdns.MustRR(q.Name + " 60 IN CNAME " + c15CNAMETarget)}
			owner = c15CNAMETarget
		}
		switch q.Qtype {
		case dns.TypeA:
			resp.Answer = append(resp.Answer, vdns.MustRR(owner+" 60 IN A 100.64.1.1"))
		case dns.TypeAAAA:
			resp.Answer = append(resp.Answer, vdns.MustRR(owner+" 60 IN AAAA 2001:db8:ffff::1"))
		case dns.TypeHTTPS:
			resp.Answer = []dns.RR{vdns.MustRR(q.Name + ` 60 IN HTTPS 1 . alpn="h2" ipv4hint=100.64.1.2`)}
		default:
			resp.Ns = []dns.RR{vdns.MustRR("test. 30 IN SOA ns.test. hm.test. 1 3600 600 86400 30")}
		}
		if opt := req.IsEdns0(); opt != nil {
			resp.SetEdns0(1232, opt.Do())
		}

		return rw.WriteMsg(ctx, req, resp)
	})
}

// Filter lists and rules returned by the scripted filter.
func c15ReqRule(host string) (filter.ID, filter.RuleText) {
	return "list_req", filter.RuleText("||" + host + "^")
}

func c15RespRule(host string) (filter.ID, filter.RuleText) {
	return "list_resp", filter.RuleText("||" + host + "^$dnstype=~TXT")
}

func c15RespIPRule() (filter.ID, filter.RuleText) { return "list_resp_ip", "||100.64.1.1^" }

func c15RespCNAMERule() (filter.ID, filter.RuleText) {
	return "list_resp_cname", filter.RuleText("||" + strings.TrimSuffix(c15CNAMETarget, ".") + "^")
}

// c15RespAllowRule is the allowlist rule of the response stage (another list
// and text than the request stage's).
func c15RespAllowRule(host string) (filter.ID, filter.RuleText) {
	return "list_resp_allow", filter.RuleText("@@||" + host + "^$important")
}

func c15AllowRule(host string) (filter.ID, filter.RuleText) {
	return "custom", filter.RuleText("@@||" + host + "^")
}

func c15RewriteRule(host string) (filter.ID, filter.RuleText) {
	return "general_safe_search", filter.RuleText("|" + host + "^$dnsrewrite=" + c15RewriteTarget)
}

// filter returns the scripted filter: the warm-up name is always blocked by
// its own rule; the name under test gets the result the outcome asks for.
func (s *c15Stack) filter() *agdtest.Filter {
	return &agdtest.Filter{
		OnFilterRequest: func(_ context.Context, req *filter.Request) (r filter.Result, err error) {
			if strings.EqualFold(req.Host, strings.TrimSuffix(c15WarmName, ".")) {
				return &filter.ResultBlocked{List: c15WarmList, Rule: c15WarmRule}, nil
			}
			if req.Host != s.host {
				return nil, nil
			}
			reqPart, _ := c15Parts(s.conf.Outcome)
			switch reqPart {
			case "req-blocked", "debug-blocked":
				id, rule := c15ReqRule(s.host)

				return &filter.ResultBlocked{List: id, Rule: rule}, nil
			case "req-allowed":
				id, rule := c15AllowRule(s.host)

				return &filter.ResultAllowed{List: id, Rule: rule}, nil
			case "rewritten-resp":
				id, rule := c15RewriteRule(s.host)
				resp := &dns.Msg{}
				resp.SetReply(req.DNS)
				resp.RecursionAvailable = true
				name := req.DNS.Question[0].Name
				switch req.QType {
				case dns.TypeA:
					resp.Answer = []dns.RR{vdns.MustRR(name + " 10 IN A 100.64.9.9")}
				case dns.TypeAAAA:
					resp.Answer = []dns.RR{vdns.MustRR(name + " 10 IN AAAA 2001:db8:ffff::99")}
				}

				return &filter.ResultModifiedResponse{Msg: resp, List: id, Rule: rule}, nil
			case "rewritten-cname":
				id, rule := c15RewriteRule(s.host)
				mod := req.DNS.Copy()
				mod.Question[0].Name = c15RewriteTarget

				return &filter.ResultModifiedRequest{Msg: mod, List: id, Rule: rule}, nil
			}

			return nil, nil
		},
		OnFilterResponse: func(_ context.Context, resp *filter.Response) (r filter.Result, err error) {
			if len(resp.DNS.Question) == 0 || !strings.EqualFold(strings.TrimSuffix(resp.DNS.Question[0].Name, "."), s.host) {
				return nil, nil
			}
			_, respPart := c15Parts(s.conf.Outcome)
			if respPart == "resp-allowed" && s.conf.Outcome != "resp-allowed" {
				id, rule := c15RespAllowRule(s.host)

				return &filter.ResultAllowed{List: id, Rule: rule}, nil
			}
			switch respPart {
			case "resp-ip-blocked":
				id, rule := c15RespIPRule()

				return &filter.ResultBlocked{List: id, Rule: rule}, nil
			case "resp-cname-blocked":
				id, rule := c15RespCNAMERule()

				return &filter.ResultBlocked{List: id, Rule: rule}, nil
			case "resp-blocked":
				id, rule := c15RespRule(s.host)

				return &filter.ResultBlocked{List: id, Rule: rule}, nil
			case "resp-allowed":
				id, rule := c15AllowRule(s.host)

				return &filter.ResultAllowed{List: id, Rule: rule}, nil
			}

			return nil, nil
		},
	}
}

func c15BlockingMode(mode string) dnsmsg.BlockingMode {
	switch mode {
	case "", "null_ip":
		return &dnsmsg.BlockingModeNullIP{}
	case "nxdomain":
		return &dnsmsg.BlockingModeNXDOMAIN{}
	case "refused":
		return &dnsmsg.BlockingModeREFUSED{}
	}
	vrt.Fatalf("bad blocking mode %q", mode)

	return nil
}

func c15NewProfile(id agd.ProfileID, dev agd.DeviceID, ql, ip bool) *agd.Profile {
	return &agd.Profile{
		FilterConfig: &filter.ConfigClient{
			Custom:       &filter.ConfigCustom{},
			Parental:     &filter.ConfigParental{},
			RuleList:     &filter.ConfigRuleList{Enabled: true},
			SafeBrowsing: &filter.ConfigSafeBrowsing{},
		},
		Access:              access.EmptyProfile{},
		BlockingMode:        &dnsmsg.BlockingModeNullIP{},
		Ratelimiter:         agd.GlobalRatelimiter{},
		ID:                  id,
		DeviceIDs:           []agd.DeviceID{dev},
		FilteredResponseTTL: 10 * time.Second,
		FilteringEnabled:    true,
		IPLogEnabled:        ip,
		QueryLogEnabled:     ql,
	}
}

// c15NewStack builds a fresh production chain for conf; host is the
// lower-case name (without the trailing dot) of the request under test.
func c15NewStack(conf c15Config, host string) (s *c15Stack) {
	c15Seq++
	rec := &c15Rec{}
	s = &c15Stack{
		conf: conf,
		rec:  rec,
		h:    map[string]dnsserver.Handler{},
		host: host,
		path: filepath.Join(c15Dir, fmt.Sprintf("querylog-%d.jsonl", c15Seq%4)),
	}
	s.truncate()

	// The profile under test.
	s.prof = c15NewProfile(c15ProfID, c15DevID, conf.QL, conf.IP)
	s.prof.BlockingMode = c15BlockingMode(conf.Mode)
	s.dev = &agd.Device{
		Auth:             &agd.AuthSettings{Enabled: false, PasswordHash: agdpasswd.AllowAuthenticator{}},
		ID:               c15DevID,
		Name:             "dev1",
		FilteringEnabled: true,
	}
	switch conf.Requester {
	case "anonymous", "profile":
	case "authfail":
		// Authentication is required over DoH with a password; the requests of
		// this harness never carry one, so the device is found but the request
		// is not attributed to it.
		s.dev.Auth = &agd.AuthSettings{Enabled: true, DoHAuthOnly: true, PasswordHash: agdpasswd.AllowAuthenticator{}}
	case "deleted":
		s.prof.Deleted = true
	default:
		vrt.Fatalf("bad requester %q", conf.Requester)
	}
	var gRules []string
	var gNets []netip.Prefix
	switch conf.Outcome {
	case "access-profile":
		s.prof.Access = access.NewDefaultProfile(&access.ProfileConfig{
			BlockedNets: c15Prefixes(c15ProfBlockedNet4, c15ProfBlockedNet6),
		})
	case "access-global-ip":
		gNets = c15Prefixes(c15GlobalBlockedNet4, c15GlobalBlockedNet6)
	case "access-global-name":
		gRules = []string{"||" + c15GlobalBlockedName + "^"}
	case "rl-profile":
		s.prof.Ratelimiter = &c15Ratelimiter{res: agd.RatelimitResultDrop}
	}
	global, err := access.NewGlobal(gRules, gNets)
	if err != nil {
		vrt.Fatalf("access.NewGlobal: %v", err)
	}

	// The warm-up profile.
	s.warmProf = c15NewProfile(c15WarmProfID, c15WarmDevID, true, true)
	s.warmDev = &agd.Device{
		Auth:             &agd.AuthSettings{Enabled: false, PasswordHash: agdpasswd.AllowAuthenticator{}},
		ID:               c15WarmDevID,
		Name:             "dev2",
		FilteringEnabled: true,
	}

	notFound := func() (*agd.Profile, *agd.Device, error) { return nil, nil, profiledb.ErrDeviceNotFound }
	db := agdtest.NewProfileDB()
	db.OnProfileByLinkedIP = func(_ context.Context, _ netip.Addr) (*agd.Profile, *agd.Device, error) {
		switch s.ident {
		case "p1":
			return s.prof, s.dev, nil
		case "p2":
			return s.warmProf, s.warmDev, nil
		}

		return notFound()
	}
	db.OnProfileByDeviceID = func(_ context.Context, id agd.DeviceID) (*agd.Profile, *agd.Device, error) {
		switch id {
		case c15DevID:
			return s.prof, s.dev, nil
		case c15WarmDevID:
			return s.warmProf, s.warmDev, nil
		}

		return notFound()
	}

	geo := &agdtest.GeoIP{
		OnData: func(host string, ip netip.Addr) (l *geoip.Location, err error) {
			if host == "" {
				if ip == netip.MustParseAddr(c15WarmClient) {
					return &geoip.Location{Country: geoip.Country("WC"), Continent: geoip.ContinentAS, ASN: 64999}, nil
				}

				return &geoip.Location{Country: geoip.Country("XA"), Continent: geoip.ContinentEU, ASN: 64496}, nil
			}

			return &geoip.Location{Country: geoip.Country("RC"), ASN: 65000}, nil
		},
		OnSubnetByLocation: func(_ *geoip.Location, fam netutil.AddrFamily) (netip.Prefix, error) {
			return netutil.ZeroPrefix(fam), nil
		},
	}

	flt := s.filter()
	fltGrp := &agd.FilteringGroup{
		FilterConfig: &filter.ConfigGroup{
			Parental:     &filter.ConfigParental{},
			RuleList:     &filter.ConfigRuleList{Enabled: true},
			SafeBrowsing: &filter.ConfigSafeBrowsing{},
		},
		ID: c15FltGrpID,

		BlockChromePrefetch: conf.BlockSpecial,
		BlockFirefoxCanary:  conf.BlockSpecial,
		BlockPrivateRelay:   conf.BlockSpecial,
	}
	s.prof.BlockChromePrefetch = conf.BlockSpecial
	s.prof.BlockFirefoxCanary = conf.BlockSpecial
	s.prof.BlockPrivateRelay = conf.BlockSpecial

	var srvs []*agd.Server
	byName := map[string]string{}
	for _, k := range []string{"dns", "dot", "doh", "doq"} {
		d := c15Servers[k]
		srv := &agd.Server{Name: agd.ServerName(d.name), Protocol: d.agd, LinkedIPEnabled: d.agd == agd.ProtoDNS}
		srv.SetBindData([]*agd.ServerBindData{{AddrPort: netip.MustParseAddrPort(d.addr)}})
		srvs = append(srvs, srv)
		byName[d.name] = k
	}
	srvGrp := &agd.ServerGroup{
		DDR: &agd.DDR{
			DeviceTargets: container.NewMapSet[string](),
			PublicTargets: container.NewMapSet[string](),
		},
		DeviceDomains:   []string{c15DevDomain},
		Name:            "sg",
		FilteringGroup:  c15FltGrpID,
		Servers:         srvs,
		ProfilesEnabled: true,
	}

	ql := &c15QueryLog{rec: rec, fs: querylog.NewFileSystem(&querylog.FileSystemConfig{
		Logger:   slogutil.NewDiscardLogger(),
		Path:     s.path,
		RandSeed: 7,
	})}

	handlers, err := dnssvc.NewHandlers(context.Background(), &dnssvc.HandlersConfig{
		BaseLogger: slogutil.NewDiscardLogger(),
		Cloner:     c15Cloner,
		Cache: &dnssvc.CacheConfig{
			MinTTL:     10 * time.Second,
			ECSCount:   100,
			NoECSCount: 100,
			Type:       dnssvc.CacheTypeECS,
		},
		HumanIDParser:    agd.NewHumanIDParser(),
		Messages:         c15Messages,
		PluginRegistry:   nil,
		StructuredErrors: agdtest.NewSDEConfig(true),
		AccessManager:    global,
		BillStat: &agdtest.BillStatRecorder{OnRecord: func(
			_ context.Context, id agd.DeviceID, ctry geoip.Country, asn geoip.ASN, start time.Time, proto agd.Protocol,
		) {
			rec.Bills = append(rec.Bills, c15Bill{Dev: id, Ctry: ctry, ASN: asn, Start: start, Proto: proto})
		}},
		CacheManager: agdcache.EmptyManager{},
		DNSCheck: &agdtest.DNSCheck{OnCheck: func(_ context.Context, _ *dns.Msg, _ *agd.RequestInfo) (*dns.Msg, error) {
			return nil, nil
		}},
		DNSDB: &agdtest.DNSDB{OnRecord: func(_ context.Context, _ *dns.Msg, _ *agd.RequestInfo) {}},
		ErrColl: &agdtest.ErrorCollector{OnCollect: func(_ context.Context, err error) {
			rec.Errors = append(rec.Errors, err.Error())
		}},
		FilterStorage: &agdtest.FilterStorage{
			OnForConfig: func(_ context.Context, _ filter.Config) (f filter.Interface) { return flt },
			OnHasListID: func(_ filter.ID) (ok bool) { return true },
		},
		GeoIP:   geo,
		Handler: s.upstream(),
		HashMatcher: &agdtest.HashMatcher{OnMatchByPrefix: func(_ context.Context, _ string) ([]string, bool, error) {
			return nil, false, nil
		}},
		ProfileDB:            db,
		PrometheusRegisterer: agdtest.NewTestPrometheusRegisterer(),
		QueryLog:             ql,
		RateLimit: &agdtest.RateLimit{
			OnIsRateLimited: func(_ context.Context, req *dns.Msg, _ netip.Addr) (drop, allow bool, err error) {
				own := strings.EqualFold(strings.TrimSuffix(req.Question[0].Name, "."), s.host)

				return own && conf.Outcome == "rl-global", false, nil
			},
			OnCountResponses: func(_ context.Context, _ *dns.Msg, _ netip.Addr) {},
		},
		RuleStat:         &agdtest.RuleStat{OnCollect: func(_ context.Context, _ filter.ID, _ filter.RuleText) {}},
		MetricsNamespace: "c15",
		FilteringGroups:  map[agd.FilteringGroupID]*agd.FilteringGroup{c15FltGrpID: fltGrp},
		ServerGroups:     []*agd.ServerGroup{srvGrp},
		EDEEnabled:       true,
	})
	if err != nil {
		vrt.Fatalf("dnssvc.NewHandlers: %v", err)
	}
	for k, h := range handlers {
		s.h[byName[string(k.Server.Name)]] = h
	}
	if len(s.h) != 4 {
		vrt.Fatalf("expected four handlers, got %d", len(handlers))
	}

	return s
}

// truncate removes the log file.
func (s *c15Stack) truncate() {
	if err := os.Remove(s.path); err != nil && !os.IsNotExist(err) {
		vrt.Fatalf("remove: %v", err)
	}
}

// ---- One request -------------------------------------------------------------

type c15Writer struct {
	laddr, raddr net.Addr
	writes       []*dns.Msg
}

func (w *c15Writer) LocalAddr() net.Addr  { return w.laddr }
func (w *c15Writer) RemoteAddr() net.Addr { return w.raddr }
func (w *c15Writer) WriteMsg(_ context.Context, _, resp *dns.Msg) error {
	w.writes = append(w.writes, resp.Copy())

	return nil
}

// c15Query is one client request.
type c15Query struct {
	Client string `json:"client"`
	Name   string `json:"name"`
	QType  uint16 `json:"qtype"`
	QClass uint16 `json:"qclass"`
	// Proto is dns | dot | doh | doq.
	Proto string `json:"proto"`
	// Dev, if not empty, is the device ID the request carries (TLS server
	// name for DoT and DoQ, URL path for DoH); for plain DNS it selects whom
	// the profile database finds by linked IP.
	Dev agd.DeviceID `json:"dev,omitempty"`
	// Alt makes the request carry Dev the alternative way: in the dnsmasq
	// CPE-ID EDNS option for plain DNS, in the TLS server name for DoH.
	Alt bool `json:"alt,omitempty"`
}

// c15Obs is what one request produced.
type c15Obs struct {
	// Wrote tells whether the server's response writer got a response; RCode
	// is its response code.
	Wrote int
	RCode int
	Err   string
	// Answer is the answer section of the response the client got.
	Answer []string

	Entries []querylog.Entry
	Bills   []c15Bill
	// Lines are the lines of the real log file; Tail is what follows the last
	// newline (must be empty).
	Lines [][]byte
	Tail  []byte

	Errors    []string
	WriteErrs []string
	// Upstream is the number of calls of the upstream during this request.
	Upstream int

	Start time.Time
	ReqID agd.RequestID
}

// serve sends q through the stack and returns what happened during this
// request only.
func (s *c15Stack) serve(q c15Query, id uint16, reqID byte) (o *c15Obs) {
	h := s.h[q.Proto]
	d, ok := c15Servers[q.Proto]
	if h == nil || !ok {
		vrt.Fatalf("bad proto %q", q.Proto)
	}
	addr := netip.MustParseAddr(q.Client)
	ip := net.IP(addr.AsSlice())
	w := &c15Writer{}
	o = &c15Obs{Start: time.Now()}
	for i := range o.ReqID {
		o.ReqID[i] = reqID
	}
	sri := &dnsserver.RequestInfo{StartTime: o.Start}
	if d.tcp {
		w.laddr = net.TCPAddrFromAddrPort(netip.MustParseAddrPort(d.addr))
		w.raddr = &net.TCPAddr{IP: ip, Port: 40000}
	} else {
		w.laddr = net.UDPAddrFromAddrPort(netip.MustParseAddrPort(d.addr))
		w.raddr = &net.UDPAddr{IP: ip, Port: 40000}
	}
	s.ident = ""
	var cpeID string
	switch q.Proto {
	case "dns":
		switch {
		case q.Alt:
			cpeID = string(q.Dev)
		case q.Dev == c15DevID:
			s.ident = "p1"
		case q.Dev == c15WarmDevID:
			s.ident = "p2"
		}
	case "dot", "doq":
		if q.Dev != "" {
			sri.TLSServerName = string(q.Dev) + "." + c15DevDomain
		}
	case "doh":
		sri.URL = &url.URL{Path: dnsserver.PathDoH}
		switch {
		case q.Dev == "":
		case q.Alt:
			sri.TLSServerName = string(q.Dev) + "." + c15DevDomain
		default:
			sri.URL.Path = dnsserver.PathDoH + "/" + string(q.Dev)
		}
	}
	si := &dnsserver.ServerInfo{Name: d.name, Addr: d.addr, Proto: d.proto}
	ctx := dnsserver.ContextWithRequestInfo(context.Background(), sri)
	ctx = dnsserver.ContextWithServerInfo(ctx, si)
	ctx = agd.WithRequestID(ctx, o.ReqID)

	*s.rec = c15Rec{}
	s.truncate()
	req := vdns.NewReq(id, q.Name, q.QType, q.QClass)
	if cpeID != "" {
		req.SetEdns0(1232, false)
		opt := req.IsEdns0()
		opt.Option = append(opt.Option, &dns.EDNS0_LOCAL{Code: 65074, Data: []byte(cpeID)})
	}
	var err error
	if p := vrt.Catch(func() { err = h.ServeDNS(ctx, w, req) }); p != "" {
		err = fmt.Errorf("PANIC: %s", p)
	}
	o.Wrote = len(w.writes)
	o.RCode = -1
	if o.Wrote > 0 {
		o.RCode = w.writes[o.Wrote-1].Rcode
		for _, rr := range w.writes[o.Wrote-1].Answer {
			o.Answer = append(o.Answer, vdns.RRString(rr, false))
		}
	}
	if err != nil {
		o.Err = err.Error()
	}
	o.Entries, o.Bills, o.Errors, o.WriteErrs = s.rec.Entries, s.rec.Bills, s.rec.Errors, s.rec.WriteErrs
	o.Upstream = s.rec.Upstream
	data, rerr := os.ReadFile(s.path)
	if rerr != nil && !os.IsNotExist(rerr) {
		vrt.Fatalf("reading the log file: %v", rerr)
	}
	if len(data) > 0 {
		parts := bytes.Split(data, []byte("\n"))
		o.Lines, o.Tail = parts[:len(parts)-1], parts[len(parts)-1]
	}

	return o
}

// ---- Normalised form of a logged record ---------------------------------------

// c15Logged is a log record reduced to the fields the property names.  It is
// built from a querylog.Entry (what mainmw handed over) and from a line of the
// real file (what querylog.FileSystem wrote).
type c15Logged struct {
	Src     string
	Profile string
	Device  string
	Name    string
	QType   int
	RCode   int
	// Code is the "f" value of doc/querylog.md.
	Code  int
	List  string
	Rule  string
	Proto int
	// IP is empty when the record carries no client address.
	IP     string
	ReqID  string
	TimeMs int64
}

func (l c15Logged) String() string {
	ip := l.IP
	if ip == "" {
		ip = "-"
	}

	return fmt.Sprintf("[%s] b=%s i=%s n=%s q=%d r=%d f=%d l=%q m=%q p=%d ip=%s", l.Src, l.Profile, l.Device, l.Name, l.QType,
		l.RCode, l.Code, l.List, l.Rule, l.Proto, ip)
}

// c15FromEntry converts an entry by the table of doc/querylog.md ("f": 2/3
// blocked request/response, 4/5 allowed request/response, 6 modified, 1 none;
// "l"/"m": the first rule that matched).
func c15FromEntry(e *querylog.Entry) (l c15Logged) {
	l = c15Logged{
		Src: "entry", Profile: string(e.ProfileID), Device: string(e.DeviceID), Name: e.DomainFQDN, QType: int(e.RequestType),
		RCode: int(e.ResponseCode), Proto: int(e.Protocol), ReqID: e.RequestID.String(), TimeMs: e.Time.UnixMilli(),
	}
	if e.RemoteIP != (netip.Addr{}) {
		l.IP = e.RemoteIP.String()
	}
	res, resp := e.RequestResult, false
	if res == nil {
		res, resp = e.ResponseResult, true
	}
	l.Code = 1
	if res != nil {
		id, rule := res.MatchedRule()
		l.List, l.Rule = string(id), string(rule)
		switch res.(type) {
		case *filter.ResultBlocked:
			l.Code = 2
		case *filter.ResultAllowed:
			l.Code = 4
		case *filter.ResultModifiedRequest, *filter.ResultModifiedResponse:
			l.Code = 6
			resp = false
		default:
			l.Code = 0
		}
		if resp {
			l.Code++
		}
	}

	return l
}

// c15FromLine parses one line of the log file.
func c15FromLine(line []byte) (l c15Logged, err error) {
	var m struct {
		IP *string `json:"ip"`
		U  *string `json:"u"`
		B  *string `json:"b"`
		I  *string `json:"i"`
		N  *string `json:"n"`
		L  string  `json:"l"`
		M  string  `json:"m"`
		T  *int64  `json:"t"`
		Q  *int    `json:"q"`
		R  *int    `json:"r"`
		F  *int    `json:"f"`
		P  *int    `json:"p"`
	}
	if !json.Valid(line) {
		return l, fmt.Errorf("not a JSON text")
	}
	dec := json.NewDecoder(bytes.NewReader(line))
	if err = dec.Decode(&m); err != nil {
		return l, err
	}
	if m.U == nil || m.B == nil || m.I == nil || m.N == nil || m.T == nil || m.Q == nil || m.R == nil || m.F == nil || m.P == nil {
		return l, fmt.Errorf("a mandatory property of doc/querylog.md is missing")
	}
	l = c15Logged{
		Src: "file", Profile: *m.B, Device: *m.I, Name: *m.N, QType: *m.Q, RCode: *m.R, Code: *m.F, List: m.L, Rule: m.M,
		Proto: *m.P, ReqID: *m.U, TimeMs: *m.T,
	}
	if m.IP != nil {
		l.IP = *m.IP
		if l.IP == "" {
			l.IP = "(empty)"
		}
	}

	return l, nil
}
