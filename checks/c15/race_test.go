//go:build verif

package zzverifc15

// Unit 3 of check C15: schedule exploration (engine XS) of CONCURRENT requests
// through one production chain (dnssvc.NewHandlers: real ratelimitmw,
// devicefinder, initial, preservice, mainmw, preupstream, ecscache) with a
// recording query log and billing recorder.
//
// The unit is built with instrumented copies of mainmw/{mainmw,filter,record}.go
// and ratelimitmw/{ratelimitmw,requestinfo}.go: a scheduling point precedes
// every statement containing a call in the request path of these files, and
// the scripted upstream yields when the exchange begins and when it ends.
// Everything between two points runs atomically (GOMAXPROCS 1, cooperative
// tasks; the sync.Pool free lists of the middlewares then hand out the most
// recently returned object), so every interleaving of 2 (thorough: also 3)
// requests at that granularity with at most N preemptions is executed.
//
// One execution = one freshly built stack that first serves a sequential
// prelude (each request of the scenario alone; a request whose upstream
// FAILS; each request alone again - so the failure both follows and precedes
// solo traffic) and then the requests of the scenario as concurrent tasks.
//
// Oracle: the statement, per request (entry only for a profile with query
// logging, client address only with IP logging, nothing for anonymous
// clients, every field describes the entry's own request), applied to the
// multiset of records of the concurrent phase - which thereby equals the
// union of what each request produces alone, and the solo phases are held to
// the same expectation.

import (
	"context"
	"errors"
	"fmt"
	"net"
	"net/netip"
	"net/url"
	"os"
	"runtime"
	"runtime/debug"
	"sort"
	"strings"
	"testing"
	"time"

	"github.com/AdguardTeam/AdGuardDNS/internal/access"
	"github.com/AdguardTeam/AdGuardDNS/internal/agd"
	"github.com/AdguardTeam/AdGuardDNS/internal/agdcache"
	"github.com/AdguardTeam/AdGuardDNS/internal/agdpasswd"
	"github.com/AdguardTeam/AdGuardDNS/internal/agdtest"
	"github.com/AdguardTeam/AdGuardDNS/internal/dnsserver"
	"github.com/AdguardTeam/AdGuardDNS/internal/dnsserver/zzverif/vdns"
	"github.com/AdguardTeam/AdGuardDNS/internal/dnsserver/zzverif/vrt"
	"github.com/AdguardTeam/AdGuardDNS/internal/dnsserver/zzverif/xsched"
	"github.com/AdguardTeam/AdGuardDNS/internal/dnssvc"
	"github.com/AdguardTeam/AdGuardDNS/internal/filter"
	"github.com/AdguardTeam/AdGuardDNS/internal/geoip"
	"github.com/AdguardTeam/AdGuardDNS/internal/profiledb"
	"github.com/AdguardTeam/AdGuardDNS/internal/querylog"
	"github.com/AdguardTeam/golibs/container"
	"github.com/AdguardTeam/golibs/logutil/slogutil"
	"github.com/AdguardTeam/golibs/netutil"
	"github.com/miekg/dns"
)

// ---- World ----------------------------------------------------------------------

// c15rWho are the requesters: three profiles with different logging flags and
// the anonymous client.
var c15rWho = map[string]struct {
	prof   agd.ProfileID
	dev    agd.DeviceID
	ql, ip bool
}{
	"p1":   {"prof1", "dev1", true, true},
	"p2":   {"prof2", "dev2", true, false},
	"p3":   {"prof3", "dev3", false, true},
	"anon": {},
}

// c15rLinked is the linked-IP table of the profile database (plain DNS).
var c15rLinked = map[string]string{"192.0.2.11": "p1", "192.0.2.22": "p2", "192.0.2.33": "p3"}

// c15rReq is one request of the alphabet.  The scripted filter and upstream
// are pure functions of the name: a host containing "ads" is blocked by a
// request rule, one containing "respblock" by a response rule, one
// containing "nx" does not exist, "upstream-fails.test" makes the upstream
// return an error.
type c15rReq struct {
	Who    string `json:"who"`
	Name   string `json:"name"`
	QType  uint16 `json:"qtype"`
	Proto  string `json:"proto"`
	Client string `json:"client"`
}

// c15rPool: every request has its own name; pairs differ in profile, logging
// flags, verdict, type and protocol.
var c15rPool = []c15rReq{
	0: {Who: "p1", Name: "P1-Clean.test.", QType: dns.TypeA, Proto: "dot", Client: "192.0.2.11"},
	1: {Who: "p1", Name: "p1-ads.test.", QType: dns.TypeAAAA, Proto: "doh", Client: "2001:db8::11"},
	2: {Who: "p3", Name: "p3-clean.test.", QType: dns.TypeAAAA, Proto: "dot", Client: "192.0.2.33"},
	3: {Who: "p3", Name: "p3-ads.test.", QType: dns.TypeA, Proto: "dns", Client: "192.0.2.33"},
	4: {Who: "anon", Name: "anon-clean.test.", QType: dns.TypeHTTPS, Proto: "dns", Client: "198.51.100.7"},
	5: {Who: "anon", Name: "anon-ads.test.", QType: dns.TypeA, Proto: "dot", Client: "198.51.100.8"},
	6: {Who: "p2", Name: "p2-nx.test.", QType: dns.TypeA, Proto: "doq", Client: "192.0.2.22"},
	7: {Who: "p2", Name: "p2-respblock.test.", QType: dns.TypeAAAA, Proto: "dns", Client: "192.0.2.22"},
}

// c15rFailing is the prelude request whose upstream fails.
var c15rFailing = c15rReq{Who: "p3", Name: "upstream-fails.test.", QType: dns.TypeA, Proto: "dot", Client: "192.0.2.33"}

func c15rHost(name string) string { return strings.ToLower(strings.TrimSuffix(name, ".")) }

// ---- Expectation (statement + doc/querylog.md, no repository code) ------------------

// c15rExpect returns the records the statement allows request i (request id
// byte id) to produce: at most one entry, at most one billing record.
func c15rExpect(q c15rReq, id byte) (entries, bills []string) {
	w := c15rWho[q.Who]
	if w.prof == "" {
		// Anonymous: neither.
		return nil, nil
	}
	bills = []string{fmt.Sprintf("bill dev=%s proto=%d", w.dev, c15DocProto[q.Proto])}
	if !w.ql {
		return nil, bills
	}
	host := c15rHost(q.Name)
	l := c15Logged{
		Profile: string(w.prof), Device: string(w.dev), Name: q.Name, QType: int(q.QType), Code: 1, Proto: c15DocProto[q.Proto],
	}
	switch {
	case strings.Contains(host, "ads"):
		id, rule := c15ReqRule(host)
		l.Code, l.List, l.Rule = 2, string(id), string(rule)
	case strings.Contains(host, "respblock"):
		id, rule := c15RespRule(host)
		l.Code, l.List, l.Rule = 3, string(id), string(rule)
	case strings.Contains(host, "nx"):
		l.RCode = dns.RcodeNameError
	}
	if w.ip {
		l.IP = q.Client
	}
	var rid agd.RequestID
	for i := range rid {
		rid[i] = id
	}
	l.ReqID = rid.String()

	return []string{c15rEntryKey(l)}, bills
}

func c15rEntryKey(l c15Logged) string {
	ip := l.IP
	if ip == "" {
		ip = "-"
	}

	return fmt.Sprintf("entry b=%s i=%s u=%s n=%s q=%d r=%d f=%d l=%q m=%q p=%d ip=%s", l.Profile, l.Device, l.ReqID, l.Name,
		l.QType, l.RCode, l.Code, l.List, l.Rule, l.Proto, ip)
}

// ---- The stack ---------------------------------------------------------------------

type c15rStack struct {
	h       map[string]dnsserver.Handler
	entries []querylog.Entry
	bills   []c15Bill
}

func (s *c15rStack) take() (entries []c15Logged, bills []string) {
	for i := range s.entries {
		entries = append(entries, c15FromEntry(&s.entries[i]))
	}
	for _, b := range s.bills {
		bills = append(bills, fmt.Sprintf("bill dev=%s proto=%d", b.Dev, b.Proto))
	}
	s.entries, s.bills = nil, nil

	return entries, bills
}

func c15rNewStack() (s *c15rStack) {
	s = &c15rStack{h: map[string]dnsserver.Handler{}}

	profs := map[string]*agd.Profile{}
	devs := map[string]*agd.Device{}
	byDev := map[agd.DeviceID]string{}
	for k, w := range c15rWho {
		if w.prof == "" {
			continue
		}
		profs[k] = c15NewProfile(w.prof, w.dev, w.ql, w.ip)
		devs[k] = &agd.Device{
			Auth:             &agd.AuthSettings{Enabled: false, PasswordHash: agdpasswd.AllowAuthenticator{}},
			ID:               w.dev,
			Name:             agd.DeviceName(w.dev),
			FilteringEnabled: true,
		}
		byDev[w.dev] = k
	}
	notFound := func() (*agd.Profile, *agd.Device, error) { return nil, nil, profiledb.ErrDeviceNotFound }
	db := agdtest.NewProfileDB()
	db.OnProfileByLinkedIP = func(_ context.Context, ip netip.Addr) (*agd.Profile, *agd.Device, error) {
		if k, ok := c15rLinked[ip.String()]; ok {
			return profs[k], devs[k], nil
		}

		return notFound()
	}
	db.OnProfileByDeviceID = func(_ context.Context, id agd.DeviceID) (*agd.Profile, *agd.Device, error) {
		if k, ok := byDev[id]; ok {
			return profs[k], devs[k], nil
		}

		return notFound()
	}

	geo := &agdtest.GeoIP{
		OnData: func(host string, _ netip.Addr) (l *geoip.Location, err error) {
			if host == "" {
				return &geoip.Location{Country: geoip.Country("XA"), Continent: geoip.ContinentEU, ASN: 64496}, nil
			}

			return &geoip.Location{Country: geoip.Country("RC"), ASN: 65000}, nil
		},
		OnSubnetByLocation: func(_ *geoip.Location, fam netutil.AddrFamily) (netip.Prefix, error) {
			return netutil.ZeroPrefix(fam), nil
		},
	}

	flt := &agdtest.Filter{
		OnFilterRequest: func(_ context.Context, req *filter.Request) (r filter.Result, err error) {
			if strings.Contains(req.Host, "ads") {
				id, rule := c15ReqRule(req.Host)

				return &filter.ResultBlocked{List: id, Rule: rule}, nil
			}

			return nil, nil
		},
		OnFilterResponse: func(_ context.Context, resp *filter.Response) (r filter.Result, err error) {
			if resp.DNS == nil || len(resp.DNS.Question) == 0 {
				return nil, nil
			}
			if host := c15rHost(resp.DNS.Question[0].Name); strings.Contains(host, "respblock") {
				id, rule := c15RespRule(host)

				return &filter.ResultBlocked{List: id, Rule: rule}, nil
			}

			return nil, nil
		},
	}

	upstream := dnsserver.HandlerFunc(func(ctx context.Context, rw dnsserver.ResponseWriter, req *dns.Msg) (err error) {
		xsched.Yield("upstream: exchange begins")
		defer xsched.Yield("upstream: exchange ends")
		q := req.Question[0]
		host := c15rHost(q.Name)
		if host == c15rHost(c15rFailing.Name) {
			return errors.New("c15: upstream is down")
		}
		resp := &dns.Msg{}
		resp.SetReply(req)
		resp.RecursionAvailable = true
		switch {
		case strings.Contains(host, "nx"):
			resp.Rcode = dns.RcodeNameError
			resp.Ns = []dns.RR{vdns.MustRR("test. 30 IN SOA ns.test. hm.test. 1 3600 600 86400 30")}
		case q.Qtype == dns.TypeA:
			resp.Answer = []dns.RR{vdns.MustRR(q.Name + " 60 IN A 100.64.1.1")}
		case q.Qtype == dns.TypeAAAA:
			resp.Answer = []dns.RR{vdns.MustRR(q.Name + " 60 IN AAAA 2001:db8:ffff::1")}
		case q.Qtype == dns.TypeHTTPS:
			resp.Answer = []dns.RR{vdns.MustRR(q.Name + ` 60 IN HTTPS 1 . alpn="h2" ipv4hint=100.64.1.2`)}
		}

		return rw.WriteMsg(ctx, req, resp)
	})

	fltGrp := &agd.FilteringGroup{
		FilterConfig: &filter.ConfigGroup{
			Parental:     &filter.ConfigParental{},
			RuleList:     &filter.ConfigRuleList{Enabled: true},
			SafeBrowsing: &filter.ConfigSafeBrowsing{},
		},
		ID: c15FltGrpID,
	}
	var srvs []*agd.Server
	byName := map[string]string{}
	for _, k := range []string{"dns", "dot", "doh", "doq"} {
		d := c15Servers[k]
		srv := &agd.Server{Name: agd.ServerName(d.name), Protocol: d.agd, LinkedIPEnabled: d.agd == agd.ProtoDNS}
		srv.SetBindData([]*agd.ServerBindData{{AddrPort: netip.MustParseAddrPort(d.addr)}})
		srvs = append(srvs, srv)
		byName[d.name] = k
	}
	srvGrp := &agd.ServerGroup{
		DDR: &agd.DDR{
			DeviceTargets: container.NewMapSet[string](),
			PublicTargets: container.NewMapSet[string](),
		},
		DeviceDomains:   []string{c15DevDomain},
		Name:            "sg",
		FilteringGroup:  c15FltGrpID,
		Servers:         srvs,
		ProfilesEnabled: true,
	}

	handlers, err := dnssvc.NewHandlers(context.Background(), &dnssvc.HandlersConfig{
		BaseLogger: slogutil.NewDiscardLogger(),
		Cloner:     c15Cloner,
		Cache: &dnssvc.CacheConfig{
			MinTTL:     10 * time.Second,
			ECSCount:   100,
			NoECSCount: 100,
			Type:       dnssvc.CacheTypeECS,
		},
		HumanIDParser:    agd.NewHumanIDParser(),
		Messages:         c15Messages,
		PluginRegistry:   nil,
		StructuredErrors: agdtest.NewSDEConfig(true),
		AccessManager:    c15rGlobal,
		BillStat: &agdtest.BillStatRecorder{OnRecord: func(
			_ context.Context, id agd.DeviceID, ctry geoip.Country, asn geoip.ASN, start time.Time, proto agd.Protocol,
		) {
			s.bills = append(s.bills, c15Bill{Dev: id, Ctry: ctry, ASN: asn, Start: start, Proto: proto})
		}},
		CacheManager: agdcache.EmptyManager{},
		DNSCheck: &agdtest.DNSCheck{OnCheck: func(_ context.Context, _ *dns.Msg, _ *agd.RequestInfo) (*dns.Msg, error) {
			return nil, nil
		}},
		DNSDB:   &agdtest.DNSDB{OnRecord: func(_ context.Context, _ *dns.Msg, _ *agd.RequestInfo) {}},
		ErrColl: &agdtest.ErrorCollector{OnCollect: func(_ context.Context, _ error) {}},
		FilterStorage: &agdtest.FilterStorage{
			OnForConfig: func(_ context.Context, _ filter.Config) (f filter.Interface) { return flt },
			OnHasListID: func(_ filter.ID) (ok bool) { return true },
		},
		GeoIP:   geo,
		Handler: upstream,
		HashMatcher: &agdtest.HashMatcher{OnMatchByPrefix: func(_ context.Context, _ string) ([]string, bool, error) {
			return nil, false, nil
		}},
		ProfileDB:            db,
		PrometheusRegisterer: agdtest.NewTestPrometheusRegisterer(),
		QueryLog: &agdtest.QueryLog{OnWrite: func(_ context.Context, e *querylog.Entry) (err error) {
			s.entries = append(s.entries, *e)

			return nil
		}},
		RateLimit: &agdtest.RateLimit{
			OnIsRateLimited: func(_ context.Context, _ *dns.Msg, _ netip.Addr) (drop, allow bool, err error) {
				return false, false, nil
			},
			OnCountResponses: func(_ context.Context, _ *dns.Msg, _ netip.Addr) {},
		},
		RuleStat:         &agdtest.RuleStat{OnCollect: func(_ context.Context, _ filter.ID, _ filter.RuleText) {}},
		MetricsNamespace: "c15r",
		FilteringGroups:  map[agd.FilteringGroupID]*agd.FilteringGroup{c15FltGrpID: fltGrp},
		ServerGroups:     []*agd.ServerGroup{srvGrp},
		EDEEnabled:       true,
	})
	if err != nil {
		vrt.Fatalf("dnssvc.NewHandlers: %v", err)
	}
	for k, h := range handlers {
		s.h[byName[string(k.Server.Name)]] = h
	}
	if len(s.h) != 4 {
		vrt.Fatalf("expected four handlers, got %d", len(handlers))
	}

	return s
}

var c15rGlobal *access.Global

// c15rResult is what the client of one request saw.
type c15rResult struct {
	wrote int
	rcode int
	err   string
}

// serve sends q with request id byte id through the stack.  It touches no
// shared harness state, so it may run as a task.
func (s *c15rStack) serve(q c15rReq, id byte) (res c15rResult) {
	d := c15Servers[q.Proto]
	addr := netip.MustParseAddr(q.Client)
	ip := net.IP(addr.AsSlice())
	w := &c15Writer{}
	sri := &dnsserver.RequestInfo{StartTime: time.Now()}
	if d.tcp {
		w.laddr = net.TCPAddrFromAddrPort(netip.MustParseAddrPort(d.addr))
		w.raddr = &net.TCPAddr{IP: ip, Port: 40000}
	} else {
		w.laddr = net.UDPAddrFromAddrPort(netip.MustParseAddrPort(d.addr))
		w.raddr = &net.UDPAddr{IP: ip, Port: 40000}
	}
	dev := c15rWho[q.Who].dev
	switch q.Proto {
	case "dot", "doq":
		if dev != "" {
			sri.TLSServerName = string(dev) + "." + c15DevDomain
		}
	case "doh":
		sri.URL = &url.URL{Path: dnsserver.PathDoH}
		if dev != "" {
			sri.URL.Path = dnsserver.PathDoH + "/" + string(dev)
		}
	}
	var rid agd.RequestID
	for i := range rid {
		rid[i] = id
	}
	ctx := dnsserver.ContextWithRequestInfo(context.Background(), sri)
	ctx = dnsserver.ContextWithServerInfo(ctx, &dnsserver.ServerInfo{Name: d.name, Addr: d.addr, Proto: d.proto})
	ctx = agd.WithRequestID(ctx, rid)

	err := s.h[q.Proto].ServeDNS(ctx, w, vdns.NewReq(uint16(0x1000)+uint16(id), q.Name, q.QType, dns.ClassINET))
	res = c15rResult{wrote: len(w.writes), rcode: -1}
	if res.wrote > 0 {
		res.rcode = w.writes[res.wrote-1].Rcode
	}
	if err != nil {
		res.err = err.Error()
	}

	return res
}

// ---- Scenarios ---------------------------------------------------------------------

type c15rScenario struct {
	Reqs []int `json:"reqs"`
}

func c15rScenarios(thorough bool) (scs []c15rScenario) {
	n := len(c15rPool)
	for i := 0; i < n; i++ {
		for j := i + 1; j < n; j++ {
			scs = append(scs, c15rScenario{Reqs: []int{i, j}})
		}
	}
	if thorough {
		// Three concurrent requests: a logging profile with every pair of
		// requests that must leave no entry, and mixed triples.
		for _, tr := range [][]int{{0, 3, 5}, {1, 2, 4}, {0, 4, 7}, {1, 5, 6}, {6, 3, 4}, {0, 1, 2}, {7, 2, 5}, {0, 6, 3}} {
			scs = append(scs, c15rScenario{Reqs: tr})
		}
	}

	return scs
}

type c15rEnv struct {
	sc  c15rScenario
	st  *c15rStack
	pre []vrt.Finding
	res []c15rResult
}

func c15rDescribe(sc c15rScenario) string {
	var parts []string
	for i, ri := range sc.Reqs {
		q := c15rPool[ri]
		w := c15rWho[q.Who]
		who := "anonymous"
		if w.prof != "" {
			who = fmt.Sprintf("%s/%s QueryLogEnabled=%v IPLogEnabled=%v", w.prof, w.dev, w.ql, w.ip)
		}
		parts = append(parts, fmt.Sprintf("T%d: %s %s from %s over %s (%s)", i+1, q.Name, dns.Type(q.QType), q.Client, q.Proto, who))
	}

	return strings.Join(parts, "\n     ")
}

// c15rCompare compares the records of a phase with what the statement allows
// for the requests (pool indexes) served in it.  strict also demands that the
// allowed records exist (they do when each request is served alone).
func c15rCompare(phase string, reqs []int, entries []c15Logged, bills []string, sc c15rScenario, sched string) (fs []vrt.Finding) {
	wantE := map[string]int{}
	wantB := map[string]int{}
	logging := map[string]bool{}
	for _, ri := range reqs {
		es, bs := c15rExpect(c15rPool[ri], byte(ri+1))
		for _, e := range es {
			wantE[e]++
			w := c15rWho[c15rPool[ri].Who]
			logging[string(w.prof)+"/"+string(w.dev)] = true
		}
		for _, b := range bs {
			wantB[b]++
		}
	}
	var got []string
	for _, l := range entries {
		got = append(got, c15rEntryKey(l))
	}
	ctxt := func() string {
		var want []string
		for e, n := range wantE {
			for ; n > 0; n-- {
				want = append(want, e)
			}
		}
		for b, n := range wantB {
			for ; n > 0; n-- {
				want = append(want, b)
			}
		}
		sort.Strings(want)
		s := fmt.Sprintf("%s of\n     %s\nrecorded:\n     %s\nthe requests alone produce (and the statement allows) exactly:\n     %s",
			phase, c15rDescribe(sc), strings.Join(append(append([]string{}, got...), bills...), "\n     "), strings.Join(want, "\n     "))
		if sched != "" {
			s += "\nschedule:\n" + sched
		}

		return s
	}
	var f c15Findings
	for i, l := range entries {
		k := got[i]
		if wantE[k] > 0 {
			wantE[k]--

			continue
		}
		if logging[l.Profile+"/"+l.Device] {
			f.add("chain-race/entry-describes-another-request",
				"an entry under profile %s device %s does not describe that profile's own request (or is a second entry for it): %s\n%s",
				l.Profile, l.Device, k, ctxt())
		} else {
			f.add("chain-race/entry-for-request-that-must-not-be-logged",
				"an entry was written although no request of a profile with query logging accounts for it: %s\n%s", k, ctxt())
		}
	}
	for _, b := range bills {
		if wantB[b] > 0 {
			wantB[b]--

			continue
		}
		f.add("chain-race/billing-record-for-no-attributed-request", "billing record %q belongs to no request attributed to a profile (or is a second one)\n%s", b, ctxt())
	}
	if len(f.fs) == 0 {
		for e, n := range wantE {
			if n > 0 {
				f.add("chain-race/records-differ-from-solo", "the entry %s, which the request produces alone, is missing\n%s", e, ctxt())
			}
		}
		for b, n := range wantB {
			if n > 0 {
				f.add("chain-race/records-differ-from-solo", "the billing record %q, which the request produces alone, is missing\n%s", b, ctxt())
			}
		}
	}

	return f.fs
}

// c15rSetup builds a fresh stack, serves the sequential prelude and registers
// the concurrent tasks.
func c15rSetup(sc c15rScenario, s *xsched.Sched) (env *c15rEnv) {
	st := c15rNewStack()
	env = &c15rEnv{sc: sc, st: st, res: make([]c15rResult, len(sc.Reqs))}
	solo := func(phase string) {
		for _, ri := range sc.Reqs {
			res := st.serve(c15rPool[ri], byte(ri+1))
			if res.wrote != 1 || res.err != "" {
				vrt.Fatalf("race prelude: request %d alone was not answered: %+v", ri, res)
			}
			es, bs := st.take()
			fs := c15rCompare(phase, []int{ri}, es, bs, sc, "")
			for i := range fs {
				fs[i].Key = strings.Replace(fs[i].Key, "chain-race/", "chain-sequential/", 1)
			}
			env.pre = append(env.pre, fs...)
		}
	}
	solo("sequential prelude (before the upstream failure)")
	if res := st.serve(c15rFailing, 0xFA); res.err == "" {
		vrt.Fatalf("race prelude: the failing upstream did not fail: %+v", res)
	}
	st.take()
	solo("sequential prelude (after an upstream failure)")
	for i, ri := range sc.Reqs {
		s.Go(fmt.Sprintf("T%d:%s", i+1, c15rPool[ri].Name), func() {
			env.res[i] = st.serve(c15rPool[ri], byte(ri+1))
		})
	}

	return env
}

func c15rCheck(env *c15rEnv, x *xsched.Exec) (fs []vrt.Finding) {
	if x.Sched.Panicked != "" {
		return vrt.F("chain-race/panic", "concurrent requests\n     %s\npanicked: %s\nschedule:\n%s", c15rDescribe(env.sc), x.Sched.Panicked, x.Sched.Describe())
	}
	if x.Sched.Deadlock || x.Sched.LimitHit {
		return vrt.F("chain-race/deadlock", "concurrent requests\n     %s\nblocked: %v limit=%v\nschedule:\n%s", c15rDescribe(env.sc), x.Sched.Blocked, x.Sched.LimitHit, x.Sched.Describe())
	}
	if len(env.pre) > 0 {
		return env.pre[:1]
	}
	es, bs := env.st.take()
	fs = c15rCompare("the concurrent execution", env.sc.Reqs, es, bs, env.sc, x.Sched.Describe())
	if len(fs) > 1 {
		fs = fs[:1]
	}

	return fs
}

type c15rCase struct {
	Reqs    []int `json:"reqs"`
	Choices []int `json:"choices"`
}

func TestVerifC15Race(t *testing.T) {
	r := vrt.Start("C15")
	c15Init("")
	var err error
	c15rGlobal, err = access.NewGlobal(nil, nil)
	if err != nil {
		vrt.Fatalf("access.NewGlobal: %v", err)
	}
	// The middlewares' free lists are sync.Pools: a collection in the middle of
	// an execution would empty them and hide a reuse.
	debug.SetGCPercent(-1)

	var rc c15rCase
	if r.ReplayCase("chain-race", &rc) {
		var env *c15rEnv
		x := xsched.Replay(rc.Choices, func(s *xsched.Sched) { env = c15rSetup(c15rScenario{Reqs: rc.Reqs}, s) })
		r.Eval()
		r.Report("chain-race", rc, c15rCheck(env, x))
	}
	if r.ShouldRun() {
		shard, nshards := r.NShards()
		pre := vrt.Pick(r, 2, 3)
		scs := c15rScenarios(r.Thorough())
		r.Bound("chain_race_preemptions", pre)
		r.Bound("chain_race_scenarios", len(scs))
		r.Bound("chain_race_pool_requests", len(c15rPool))
		execs, recorded := 0, 0
		for si, sc := range scs {
			if si%nshards != shard {
				continue
			}
			if r.Expired() {
				r.Note("chain-race exploration stopped by the internal deadline before scenario %d of %d", si, len(scs))

				break
			}
			p := pre
			if len(sc.Reqs) > 2 {
				p = 2
			}
			var env *c15rEnv
			found := 0
			st := xsched.Explore(xsched.Config{MaxPreemptions: p, MaxDeviations: 0, Stop: r.Expired},
				func(s *xsched.Sched) {
					execs++
					if execs%2000 == 0 {
						runtime.GC()
					}
					env = c15rSetup(sc, s)
				},
				func(x *xsched.Exec) bool {
					r.Eval()
					r.Trans(len(x.Sched.Trace))
					recorded += len(env.st.entries)
					var obs []string
					for i := range env.st.entries {
						obs = append(obs, c15rEntryKey(c15FromEntry(&env.st.entries[i])))
					}
					for _, b := range env.st.bills {
						obs = append(obs, fmt.Sprintf("bill %s/%d", b.Dev, b.Proto))
					}
					ne, nb := len(env.st.entries), len(env.st.bills)
					fs := c15rCheck(env, x)
					r.Class(fmt.Sprintf("chain-race %d tasks, %d entries, %d billing records", len(sc.Reqs), ne, nb))
					if r.State(fmt.Sprintf("race|%v|%v", sc.Reqs, obs)) {
						r.Sample(map[string]any{"concurrent_requests": sc.Reqs, "records_in_order": obs, "preemptions": x.Preemptions})
					}
					if len(fs) > 0 {
						r.Report("chain-race", c15rCase{Reqs: sc.Reqs, Choices: x.Choices}, fs)
						found++
					}

					return found < 1
				})
			r.Count("chain_race_scheduling_points", st.Points)
			if st.Stopped {
				r.Note("chain-race scenario %v stopped by the deadline after %d executions", sc.Reqs, st.Executions)
			}
		}
		r.Count("chain_race_entries_recorded", recorded)
	}
	r.Finish()
	os.Exit(0)
}
