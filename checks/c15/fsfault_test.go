//go:build verif

// Write faults on the query-log file (part "file-faults" of unit 2 of check
// C15): every sequential history, up to a stated length, of
//
//	w0 w1 w2  write entry i (with / without client address, different lengths)
//	          with the ONE querylog.FileSystem of the history,
//	full      make the log path a symbolic link to /dev/full: the open
//	          succeeds, the write fails with ENOSPC and writes nothing (a
//	          regular file at the path is renamed away first),
//	heal      remove that link, so that the next Write creates a fresh
//	          regular file,
//	rotate    rename the regular file at the path away (external rotation).
//
// Oracle: a Write while the path leads to /dev/full returns an error; every
// regular file that ever was at the log path contains exactly the lines of
// the Writes that RETURNED NIL while it was there, in order, each one
// complete JSON object equal (rn aside) to the record doc/querylog.md
// prescribes for that entry - nothing of a failed Write, no fragment.
//
// The history runs on one goroutine with GOMAXPROCS=1 and collections
// disabled, so the sync.Pool behind the buffer pool hands the buffer of the
// previous Write back.  No process-wide fault (RLIMIT_FSIZE etc.) is used.
package querylog

import (
	"bytes"
	"context"
	"encoding/json"
	"fmt"
	"os"
	"path/filepath"
	"sort"
	"strings"

	"github.com/AdguardTeam/AdGuardDNS/internal/dnsserver/zzverif/vrt"
	"github.com/AdguardTeam/golibs/logutil/slogutil"
)

// c15fEvents is the alphabet; the writes use specs 0 (with address), 1
// (without, the longest) and 2 (IPv6 address).
var c15fEvents = []string{"w0", "w1", "w2", "full", "heal", "rotate"}

var c15fSpecOf = map[string]int{"w0": 0, "w1": 1, "w2": 2, "w6": 6, "w7": 7, "w8": 8}

// c15fSizeEvents is the alphabet of the part "file-sizes": records of about
// 230 B, just under 1024 B, about 1100 B and about 4 KiB, in every order, on
// one FileSystem (one pooled buffer).
var c15fSizeEvents = []string{"w0", "w6", "w7", "w8"}

type c15fCase struct {
	Events []string `json:"events"`
}

// c15fFile is the model of one regular file that was at the log path.
type c15fFile struct {
	path string
	// want are the spec indexes of the Writes that returned nil for it.
	want []int
}

// c15fDevFull reports whether /dev/full behaves as needed: it can be opened
// for appending and a write to it fails without writing.
func c15fDevFull() (ok bool, why string) {
	f, err := os.OpenFile("/dev/full", os.O_APPEND|os.O_WRONLY, 0)
	if err != nil {
		return false, err.Error()
	}
	defer f.Close()
	n, err := f.Write([]byte("x\n"))
	if err == nil || n != 0 {
		return false, fmt.Sprintf("write to /dev/full: n=%d err=%v", n, err)
	}

	return true, ""
}

// c15fLine returns the canonical form (without rn) of one line, or an error
// if it is not one complete JSON object.
func c15fLine(line []byte) (canon string, err error) {
	var m map[string]any
	dec := json.NewDecoder(bytes.NewReader(line))
	dec.UseNumber()
	if err = dec.Decode(&m); err != nil {
		return "", err
	}
	if dec.More() || !json.Valid(line) || m == nil {
		return "", fmt.Errorf("not exactly one JSON object")
	}
	delete(m, "rn")

	return c15wCanon(m), nil
}

var c15fSeq int

func c15fRun(r *vrt.Run, c c15fCase) (fs []vrt.Finding) {
	c15fSeq++
	dir := filepath.Join(c15wDir, fmt.Sprintf("faults-%d", c15fSeq%2))
	if err := os.RemoveAll(dir); err != nil {
		vrt.Fatalf("faults: %v", err)
	}
	if err := os.MkdirAll(dir, 0o755); err != nil {
		vrt.Fatalf("faults: %v", err)
	}
	path := filepath.Join(dir, "querylog.jsonl")
	l := NewFileSystem(&FileSystemConfig{Logger: slogutil.NewDiscardLogger(), Path: path, RandSeed: 3})
	ctx := context.Background()

	// mode: "none" (nothing at the path), "file", "full".
	mode := "none"
	var cur *c15fFile
	var files []*c15fFile
	nrot := 0
	away := func() {
		nrot++
		np := fmt.Sprintf("%s.%d", path, nrot)
		if err := os.Rename(path, np); err != nil {
			vrt.Fatalf("faults: rotate: %v", err)
		}
		cur.path = np
		cur = nil
	}
	okW, failW := 0, 0
	hist := strings.Join(c.Events, " ")
	add := func(key, format string, args ...any) {
		if len(fs) == 0 {
			fs = vrt.F(key, "history [%s]: %s", hist, fmt.Sprintf(format, args...))
		}
	}
	for step, ev := range c.Events {
		switch ev {
		case "full":
			if mode == "file" {
				away()
			}
			if mode != "full" {
				if err := os.Symlink("/dev/full", path); err != nil {
					vrt.Fatalf("faults: symlink: %v", err)
				}
			}
			mode = "full"
		case "heal":
			if mode == "full" {
				if err := os.Remove(path); err != nil {
					vrt.Fatalf("faults: remove link: %v", err)
				}
				mode = "none"
			}
		case "rotate":
			if mode == "file" {
				away()
				mode = "none"
			}
		default:
			si, ok := c15fSpecOf[ev]
			if !ok {
				vrt.Fatalf("faults: bad event %q", ev)
			}
			err := l.Write(ctx, c15wSpecs[si].entry())
			r.Trans(1)
			switch {
			case mode == "full" && err == nil:
				add("querylog-file/failed-write-reported-success",
					"step %d: Write of entry %d returned nil although the log path leads to /dev/full, where every write fails with ENOSPC", step+1, si)
			case mode == "full":
				failW++
			default:
				if mode == "none" {
					cur = &c15fFile{path: path}
					files = append(files, cur)
					mode = "file"
				}
				if err != nil {
					add("querylog-file/write-failed", "step %d: Write of entry %d to a healthy file returned %v", step+1, si, err)
				} else {
					cur.want = append(cur.want, si)
					okW++
				}
			}
		}
	}

	// Every regular file must hold exactly the lines of its successful Writes.
	var obs []string
	for fi, f := range files {
		data, err := os.ReadFile(f.path)
		if err != nil {
			if !os.IsNotExist(err) {
				vrt.Fatalf("faults: reading %s: %v", f.path, err)
			}
			data = nil
		}
		show := fmt.Sprintf("file #%d (%s), successful Writes in order: entries %v; content (%d bytes):\n%s", fi+1, filepath.Base(f.path), f.want, len(data), data)
		if len(data) > 0 && data[len(data)-1] != '\n' {
			add("querylog-file/last-line-not-terminated", "%s", show)

			continue
		}
		var lines [][]byte
		if len(data) > 0 {
			lines = bytes.Split(data[:len(data)-1], []byte("\n"))
		}
		var got []string
		for li, line := range lines {
			canon, lerr := c15fLine(line)
			if lerr != nil {
				add("querylog-file/line-not-a-complete-json-object", "line %d is not one complete JSON object (%v): %q\n%s", li+1, lerr, line, show)
				canon = "?"
			}
			got = append(got, canon)
		}
		obs = append(obs, fmt.Sprintf("%d:%v", fi, got))
		for li := 0; li < len(got) || li < len(f.want); li++ {
			switch {
			case li >= len(f.want):
				add("querylog-file/line-of-no-successful-write",
					"line %d belongs to no Write that returned nil for this file (leftover of a failed Write, a duplicate or a fragment): %s\n%s", li+1, got[li], show)
			case li >= len(got):
				add("querylog-file/entry-missing", "the Write of entry %d returned nil but the file has no line %d for it\n%s", f.want[li], li+1, show)
			case got[li] != c15wSpecs[f.want[li]].want():
				add("querylog-file/line-of-no-successful-write",
					"line %d should be the record of entry %d (the Write number %d that returned nil for this file) but is: %s\n%s", li+1, f.want[li], li+1, got[li], show)
			}
		}
	}
	// Nothing else may have appeared in the directory.
	names, _ := filepath.Glob(filepath.Join(dir, "*"))
	known := map[string]bool{}
	for _, f := range files {
		known[f.path] = true
	}
	sort.Strings(names)
	for _, n := range names {
		if fi, err := os.Lstat(n); err == nil && fi.Mode().IsRegular() && !known[n] {
			add("querylog-file/unexpected-file", "regular file %s was created although no Write targeted a healthy path", filepath.Base(n))
		}
	}

	r.Class(fmt.Sprintf("faults: %d events, %d successful writes, %d failed writes, %d files", len(c.Events), okW, failW, len(files)))
	r.State("faults|" + hist + "|" + strings.Join(obs, ";"))

	return fs
}

// c15fPart runs the fault histories; maxLen is the history length bound.
func c15fPart(r *vrt.Run) {
	maxLen := vrt.Pick(r, 4, 5)
	if ok, why := c15fDevFull(); !ok {
		if !r.Replaying() {
			r.Note("part file-faults SKIPPED: /dev/full is not usable in this sandbox (%s)", why)
			r.Bound("file_fault_history_length", "skipped: no /dev/full")
		}

		return
	}
	if !r.Replaying() {
		r.Bound("file_fault_history_length", maxLen)
		r.Bound("file_fault_events", strings.Join(c15fEvents, " "))
	}
	c15fSizesPart(r)
	vrt.Part(r, "file-faults",
		func(emit func(c15fCase)) {
			vrt.Sequences(len(c15fEvents), 1, maxLen, func(seq []int) {
				evs := make([]string, len(seq))
				for i, k := range seq {
					evs[i] = c15fEvents[k]
				}
				emit(c15fCase{Events: evs})
			})
		},
		func(c c15fCase) []vrt.Finding { return c15fRun(r, c) },
	)
}

// c15fSizesPart runs every order of records of the four sizes.
func c15fSizesPart(r *vrt.Run) {
	maxLen := vrt.Pick(r, 3, 4)
	// Harness self-check: the encoded sizes are the intended ones.
	for ev, rng := range map[string][2]int{"w0": {150, 400}, "w6": {900, 1023}, "w7": {1050, 1400}, "w8": {3900, 6000}} {
		sp := c15wSpecs[c15fSpecOf[ev]]
		b, err := json.Marshal(json.RawMessage(sp.want()))
		if err != nil {
			vrt.Fatalf("sizes: %v", err)
		}
		// The real line also has "rn" (at most 11 bytes) and the newline.
		if n := len(b) + 12; n < rng[0] || n > rng[1] {
			vrt.Fatalf("sizes: the record of %s has about %d bytes, want %d..%d", ev, n, rng[0], rng[1])
		}
	}
	if !r.Replaying() {
		r.Bound("file_size_history_length", maxLen)
		r.Bound("file_size_events", "about 230 B / just under 1024 B / about 1100 B / about 4 KiB")
	}
	vrt.Part(r, "file-sizes",
		func(emit func(c15fCase)) {
			vrt.Sequences(len(c15fSizeEvents), 1, maxLen, func(seq []int) {
				evs := make([]string, len(seq))
				for i, k := range seq {
					evs[i] = c15fSizeEvents[k]
				}
				emit(c15fCase{Events: evs})
			})
		},
		func(c c15fCase) []vrt.Finding { return c15fRun(r, c) },
	)
}
