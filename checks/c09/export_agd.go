//go:build verif

package agd

import "github.com/AdguardTeam/AdGuardDNS/internal/dnsserver/ratelimit"

// VerifCounter returns the request counter of r, for the state dump of check
// C09.  This file is overlaid into the package, never committed.
func VerifCounter(r *DefaultRatelimiter) (c *ratelimit.RequestCounter) { return r.counter }
