//go:build verif

package ratelimit

import (
	"context"
	"fmt"
	"net/netip"
	"os"
	"slices"
	"testing"
	"time"

	"github.com/AdguardTeam/AdGuardDNS/internal/dnsserver/zzverif/vrt"
	"github.com/AdguardTeam/AdGuardDNS/internal/dnsserver/zzverif/xsched"
	"github.com/c2h5oh/datasize"
	"github.com/miekg/dns"
)

// Schedule exploration (XS): a refresh of the dynamic allowlist racing with
// queries.
//
// allowlist.go is built from an instrumented copy: its sync import is
// redirected to the scheduler shims (Lock / RLock / Unlock are scheduling
// points) and a scheduling point is inserted before every statement with a
// call inside IsAllowed and Update (so also between two elements of a scan).
// Every interleaving of the tasks within the preemption bound is executed on
// the real DynamicAllowlist behind a real Backoff.
//
// Oracle (statement: "allowlisted clients are otherwise never dropped by the
// limiter"): a client whose subnet is in EVERY version of the dynamic list is
// reported allowlisted and is not dropped by every query, whatever refresh
// runs concurrently; a client whose subnet is in NO version is never reported
// allowlisted.

const (
	c09rKeyNotAllowed = "allowlist-race/allowlisted-client-not-allowed"
	c09rKeyUnlisted   = "allowlist-race/unlisted-client-allowed"
)

var (
	c09rClient   = netip.MustParseAddr("198.51.100.7")
	c09rUnlisted = netip.MustParseAddr("203.0.113.9")

	c09rC  = netip.MustParsePrefix("198.51.100.0/24")
	c09rF1 = netip.MustParsePrefix("192.0.2.0/25")
	c09rF2 = netip.MustParsePrefix("192.0.2.128/25")
	c09rF3 = netip.MustParsePrefix("10.1.0.0/16")
	c09rF4 = netip.MustParsePrefix("10.2.0.0/16")
)

// c09rScenario is one racing scenario.  The list starts as Versions[0]; task
// U updates it to Versions[1], Versions[2], ... in turn.  The client's subnet
// c09rC is in every version.
type c09rScenario struct {
	Name     string
	Versions [][]netip.Prefix

	// Queriers is the number of concurrent query tasks of the allowlisted
	// client; each makes Queries queries.
	Queriers int
	Queries  int

	// Unlisted adds a task that queries from an address in no version.
	Unlisted bool

	// Thorough marks scenarios of the thorough tier only.
	Thorough bool

	// MaxPre, if not zero, caps the preemption bound for this scenario.
	MaxPre int
}

var c09rScenarios = []c09rScenario{{
	Name:     "rotate",
	Versions: [][]netip.Prefix{{c09rF1, c09rF2, c09rF3, c09rC}, {c09rC, c09rF1, c09rF2, c09rF3}},
	Queriers: 1, Queries: 2,
}, {
	Name:     "shrink",
	Versions: [][]netip.Prefix{{c09rF1, c09rC, c09rF2}, {c09rC, c09rF3}},
	Queriers: 1, Queries: 2, Unlisted: true,
}, {
	Name: "swap-and-back",
	Versions: [][]netip.Prefix{
		{c09rF1, c09rC, c09rF2, c09rF3}, {c09rC, c09rF1, c09rF3, c09rF2}, {c09rF1, c09rC, c09rF2, c09rF3},
	},
	Queriers: 1, Queries: 1,
}, {
	Name:     "grow",
	Versions: [][]netip.Prefix{{c09rF1, c09rC}, {c09rC, c09rF1, c09rF2, c09rF4}},
	Queriers: 1, Queries: 2, Unlisted: true,
}, {
	Name:     "rotate-2-queriers",
	Versions: [][]netip.Prefix{{c09rF1, c09rF2, c09rF3, c09rC}, {c09rC, c09rF1, c09rF2, c09rF3}},
	Queriers: 2, Queries: 1, Thorough: true,
}, {
	Name: "three-versions-2-queriers",
	Versions: [][]netip.Prefix{
		{c09rF1, c09rF2, c09rC}, {c09rC, c09rF3, c09rF4}, {c09rF2, c09rC, c09rF1},
	},
	Queriers: 2, Queries: 2, Unlisted: true, Thorough: true, MaxPre: 3,
}}

// c09rObs is the observation of one query.
type c09rObs struct {
	who      string
	drop     bool
	allow    bool
	err      error
	panicked string
	unlisted bool
}

type c09rEnv struct {
	sc  c09rScenario
	al  *DynamicAllowlist
	l   *Backoff
	obs []c09rObs
}

func c09rSetup(sc c09rScenario, s *xsched.Sched) (env *c09rEnv) {
	env = &c09rEnv{sc: sc}

	// Always hand over private copies: the limiter may keep (or, in a broken
	// tree, overwrite) the slices it is given.
	env.al = NewDynamicAllowlist(nil, slices.Clone(sc.Versions[0]))
	env.l = NewBackoff(&BackoffConfig{
		Allowlist:            env.al,
		Count:                1,
		ResponseSizeEstimate: 64 * datasize.B,
		IPv4Count:            1,
		IPv4Interval:         time.Hour,
		IPv4SubnetKeyLen:     24,
		IPv6Count:            1,
		IPv6Interval:         time.Hour,
		IPv6SubnetKeyLen:     48,
	})
	ctx := context.Background()
	ask := func(who string, ip netip.Addr, unlisted bool) {
		req := &dns.Msg{}
		req.SetQuestion("a.test.", dns.TypeA)
		o := c09rObs{who: who, unlisted: unlisted}
		o.panicked = vrt.Catch(func() {
			o.drop, o.allow, o.err = env.l.IsRateLimited(ctx, req, ip)
		})
		env.obs = append(env.obs, o)
	}
	for q := 1; q <= sc.Queriers; q++ {
		name := fmt.Sprintf("Q%d", q)
		s.Go(name, func() {
			for range sc.Queries {
				ask(name, c09rClient, false)
			}
		})
	}
	s.Go("U", func() {
		for _, v := range sc.Versions[1:] {
			env.al.Update(slices.Clone(v))
		}
	})
	if sc.Unlisted {
		s.Go("N", func() { ask("N", c09rUnlisted, true) })
	}

	return env
}

type c09rCase struct {
	Scenario int    `json:"scenario"`
	Name     string `json:"name"`
	Choices  []int  `json:"choices"`
}

func c09rCheck(env *c09rEnv, x *xsched.Exec) (fs []vrt.Finding, obs string) {
	if x.Sched.Panicked != "" {
		return vrt.F("allowlist-race/panic", "%s", x.Sched.Panicked), ""
	}
	if x.Sched.Deadlock {
		return vrt.F("allowlist-race/deadlock", "scenario %s: blocked: %v\nschedule:\n%s", env.sc.Name,
			x.Sched.Blocked, x.Sched.Describe()), ""
	}
	if x.Sched.LimitHit {
		vrt.Fatalf("allowlist race: step limit hit in scenario %s", env.sc.Name)
	}

	// After everything has finished (no exploration is running any more, the
	// shims use the real primitives), the list must be the last version.
	last := env.sc.Versions[len(env.sc.Versions)-1]
	for _, p := range []netip.Prefix{c09rC, c09rF1, c09rF2, c09rF3, c09rF4} {
		ok, err := env.al.IsAllowed(context.Background(), p.Addr().Next())
		if err != nil || ok != slices.Contains(last, p) {
			fs = append(fs, vrt.F("allowlist-race/final-list-wrong",
				"scenario %s: after all updates have returned, an address of %s is allowlisted=%v (err %v) but the last version is %v\nschedule:\n%s",
				env.sc.Name, p, ok, err, last, x.Sched.Describe())...)

			break
		}
	}
	for _, o := range env.obs {
		obs += fmt.Sprintf("%s:%v/%v ", o.who, o.allow, o.drop)
		switch {
		case o.panicked != "" || o.err != nil:
			fs = append(fs, vrt.F("allowlist-race/query-failed", "scenario %s: query of %s: panic %q, error %v\nschedule:\n%s",
				env.sc.Name, o.who, o.panicked, o.err, x.Sched.Describe())...)
		case o.unlisted && o.allow:
			fs = append(fs, vrt.F(c09rKeyUnlisted,
				"scenario %s (versions %v): a query from %s, which is in no version of the dynamic allowlist, was reported allowlisted\nschedule:\n%s",
				env.sc.Name, env.sc.Versions, c09rUnlisted, x.Sched.Describe())...)
		case !o.unlisted && (!o.allow || o.drop):
			fs = append(fs, vrt.F(c09rKeyNotAllowed,
				"scenario %s (versions %v): a query of task %s from %s, whose subnet %s is in every version of the dynamic allowlist, "+
					"was reported allowlisted=%v dropped=%v while the list was being refreshed (all query outcomes who:allowlisted/dropped: %s)\nschedule (%d preemptions):\n%s",
				env.sc.Name, env.sc.Versions, o.who, c09rClient, c09rC, o.allow, o.drop, c09rAll(env), x.Preemptions, x.Sched.Describe())...)
		}
		if len(fs) > 0 {
			break
		}
	}

	return fs, obs
}

func c09rAll(env *c09rEnv) (s string) {
	for _, o := range env.obs {
		s += fmt.Sprintf("%s:%v/%v ", o.who, o.allow, o.drop)
	}

	return s
}

func TestVerifC09AllowlistRace(t *testing.T) {
	r := vrt.Start("C09")
	var rc c09rCase
	if r.ReplayCase("allowlist-race", &rc) {
		var env *c09rEnv
		x := xsched.Replay(rc.Choices, func(s *xsched.Sched) { env = c09rSetup(c09rScenarios[rc.Scenario], s) })
		r.Eval()
		fs, _ := c09rCheck(env, x)
		r.Report("allowlist-race", rc, fs)
	}
	if r.ShouldRun() {
		shard, nshards := r.NShards()
		pre := vrt.Pick(r, 2, 4)
		r.Bound("allowlist_race_preemptions", pre)
		n := 0
		for si, sc := range c09rScenarios {
			if sc.Thorough && !r.Thorough() {
				continue
			}
			n++
			if si%nshards != shard {
				continue
			}
			var env *c09rEnv
			found := 0
			pre := pre
			if sc.MaxPre > 0 && sc.MaxPre < pre {
				pre = sc.MaxPre
				r.Bound("allowlist_race_preemptions/"+sc.Name, pre)
			}
			st := xsched.Explore(xsched.Config{MaxPreemptions: pre, MaxDeviations: 0, Stop: r.Expired},
				func(s *xsched.Sched) { env = c09rSetup(sc, s) },
				func(x *xsched.Exec) bool {
					r.Eval()
					r.Trans(len(x.Sched.Trace))
					fs, obs := c09rCheck(env, x)
					obs = "race/" + sc.Name + " " + obs
					r.Class(obs)
					if r.State(obs) {
						r.Sample(map[string]any{"scenario": sc.Name, "observation": obs, "preemptions": x.Preemptions})
					}
					if len(fs) > 0 {
						r.Report("allowlist-race", c09rCase{Scenario: si, Name: sc.Name, Choices: x.Choices}, fs)
						found++
					}

					return found < 2
				})
			r.Count("allowlist_race_schedules/"+sc.Name, st.Executions)
			r.Count("allowlist_race_max_points/"+sc.Name, st.MaxTrace)
			if st.Stopped {
				r.Note("allowlist race scenario %s stopped by deadline after %d executions", sc.Name, st.Executions)
			}
		}
		r.Bound("allowlist_race_scenarios", n)
	}
	r.Finish()
	os.Exit(0)
}
