//go:build verif

package ratelimit

import (
	"context"
	"crypto/sha256"
	"fmt"
	"strconv"
	"sync/atomic"
	"time"

	"github.com/AdguardTeam/AdGuardDNS/internal/dnsserver/zzverif/c09ref"
	"github.com/AdguardTeam/AdGuardDNS/internal/dnsserver/zzverif/vrt"
	"github.com/c2h5oh/datasize"
	"github.com/miekg/dns"
)

// Part "hits": excesses over the limit that are spread over MORE than one
// backoff period.
//
// The statement puts a subnet into backoff when it "has exceeded the limit
// often enough within the backoff period".  Here backoff_period ==
// backoff_duration == D (so the documentation's and the code's reading of the
// two settings name the same length), D is a few intervals long, and the time
// steps are fractions of D.  Whatever the reading (window of D counted from the
// first excess, as the code does, or any D-long span), a subnet whose excesses
// never number `backoff count` within ANY span of D has never been in backoff,
// so each of its queries is decided by the sliding window alone: drop iff the
// subnet already had `count` events within the interval.  That is the oracle.
// As soon as `backoff count` excesses do fit into a span of D the subnet MAY be
// in backoff (entry is then checked by the part "backoff", exit is open): the
// reference accepts either outcome for that query and the history is not
// extended.
//
// The alphabet has a macro event "burst": count+1 queries at one instant, i.e.
// exactly one excess, which keeps [burst +0.6D burst +0.6D burst +ivl+1ns query]
// within depth 7.

const c09HitsKey = "backoff/in-backoff-without-enough-excesses-in-one-period"

// c09HitsCfg is a configuration of the part.
type c09HitsCfg struct {
	N4  uint `json:"ipv4_count"`
	BC  uint `json:"backoff_count"`
	DMs int  `json:"backoff_period_and_duration_ms"`
}

const c09HitsIvl = time.Second

// c09HitsEv is an event of the part.
type c09HitsEv struct {
	// Client sends Queries queries at one instant; Queries == 0 means a burst
	// of count+1 queries (exactly one excess when the window is empty).
	Client  string `json:"client,omitempty"`
	Queries int    `json:"queries,omitempty"`
	Burst   bool   `json:"burst,omitempty"`

	// Adv is "0.6D", "0.3D" or "ivl+1ns".
	Adv string `json:"advance,omitempty"`
}

func (e c09HitsEv) String() (s string) {
	switch {
	case e.Adv != "":
		return "+" + e.Adv
	case e.Burst:
		return e.Client + "-burst"
	}

	return e.Client
}

var c09HitsAlphabet = []c09HitsEv{
	{Client: "A1", Burst: true},
	{Adv: "0.6D"},
	{Client: "A1", Queries: 1},
	{Adv: "ivl+1ns"},
	{Adv: "0.3D"},
	{Client: "B", Burst: true},
	// Thorough tier only.
	{Client: "A2", Queries: 1},
	{Client: "B", Queries: 1},
}

const c09HitsQuickAlpha = 6

func c09HitsConfigs(thorough bool) (cfgs []c09HitsCfg) {
	cfgs = []c09HitsCfg{{N4: 1, BC: 3, DMs: 5000}, {N4: 1, BC: 2, DMs: 5000}}
	if thorough {
		cfgs = append(cfgs,
			c09HitsCfg{N4: 2, BC: 3, DMs: 5000},
			c09HitsCfg{N4: 1, BC: 4, DMs: 5000},
			c09HitsCfg{N4: 1, BC: 3, DMs: 10000},
			c09HitsCfg{N4: 2, BC: 2, DMs: 10000},
		)
	}

	return cfgs
}

type c09HitsCase struct {
	Cfg    c09HitsCfg `json:"cfg"`
	Events []int      `json:"events"`
	Trace  string     `json:"trace,omitempty"`
}

func c09HitsTrace(events []int) (s string) {
	for i, ei := range events {
		if i > 0 {
			s += " "
		}
		s += c09HitsAlphabet[ei].String()
	}

	return s
}

// c09HitsSub is the reference state of one subnet.
type c09HitsSub struct {
	w        c09ref.Window
	excesses []int64
}

// mayBackoff reports whether bc excesses fit into some span of d.
func (s *c09HitsSub) mayBackoff(bc int, d int64) (ok bool) {
	for i := 0; i+bc-1 < len(s.excesses); i++ {
		if s.excesses[i+bc-1]-s.excesses[i] <= d {
			return true
		}
	}

	return false
}

// c09RunHits runs one history.  digest is empty when the history must not be
// extended (a subnet may be in backoff).
func c09RunHits(r *vrt.Run, c c09HitsCase) (fs []vrt.Finding, digest string) {
	d := time.Duration(c.Cfg.DMs) * time.Millisecond
	l := NewBackoff(&BackoffConfig{
		Allowlist:            NewDynamicAllowlist(nil, nil),
		Period:               d,
		Duration:             d,
		Count:                c.Cfg.BC,
		ResponseSizeEstimate: c09Est * datasize.B,
		IPv4Count:            c.Cfg.N4,
		IPv4Interval:         c09HitsIvl,
		IPv4SubnetKeyLen:     24,
		IPv6Count:            c.Cfg.N4,
		IPv6Interval:         c09HitsIvl,
		IPv6SubnetKeyLen:     48,
	})
	defer VerifStop(l)
	m := c09ref.New(c09ref.Config{Len4: 24, Len6: 48})
	ctx := context.Background()
	n, bc := int(c.Cfg.N4), int(c.Cfg.BC)
	subs := map[string]*c09HitsSub{}
	start := time.Now()
	ambiguous := false
	for step, ei := range c.Events {
		e := c09HitsAlphabet[ei]
		switch e.Adv {
		case "":
		case "0.6D":
			time.Sleep(d * 6 / 10)
		case "0.3D":
			time.Sleep(d * 3 / 10)
		case "ivl+1ns":
			time.Sleep(c09HitsIvl + 1)
		default:
			vrt.Fatalf("bad advance %q", e.Adv)
		}
		if e.Adv != "" {
			continue
		}
		ip := c09Clients[e.Client]
		sk, _, _ := m.SubnetKey(ip)
		sub := subs[sk]
		if sub == nil {
			sub = &c09HitsSub{}
			subs[sk] = sub
		}
		queries := e.Queries
		if e.Burst {
			queries = n + 1
		}
		for q := 0; q < queries; q++ {
			now := time.Now()
			nowNs := now.UnixNano()
			may := sub.mayBackoff(bc, int64(d))
			want := sub.w.Above(nowNs, n, int64(c09HitsIvl))
			realBackoff := l.isBackoff(l.subnetKey(ip))
			req := c09ref.Req(uint16(step+1), dns.TypeA)
			drop, _, err := l.IsRateLimited(ctx, req, ip)
			r.Trans(1)
			if err != nil {
				return vrt.F("backoff/error", "step %d %s: IsRateLimited error: %v", step, e, err), ""
			}
			if !drop {
				l.CountResponses(ctx, c09ref.Resp(req, c09Est-1), ip)
			}
			if may {
				// The subnet may be in backoff: either outcome, and the
				// reference cannot follow the history any further.
				r.Class("hits/may-be-in-backoff")
				ambiguous = true

				break
			}
			switch {
			case drop && want:
				r.Class("hits/window-full/drop")
			case !drop && !want:
				r.Class("hits/below-limit/pass")
			}
			if drop != want {
				key := "backoff/passed-late/window-full"
				if drop {
					key = "backoff/dropped-early"
					if realBackoff {
						key = c09HitsKey
					}
				}

				return vrt.F(key,
					"cfg %+v (limit %d per %s, backoff period = duration = %s), history [%s]: step %d %s, query %d at +%s: dropped=%v but "+
						"the sliding-window log says %v; the excesses of subnet %s so far were at %s of the history, so no %d of them lie "+
						"within one backoff period and the subnet cannot be in backoff; the real limiter considered it in backoff: %v\n   real state: %s",
					c.Cfg, n, c09HitsIvl, d, c09HitsTrace(c.Events), step, e, q+1, now.Sub(start), drop, want, sk,
					c09HitsRel(sub.excesses, start.UnixNano()), bc, realBackoff, VerifDump(l, now)), ""
			}
			sub.w.Add(nowNs)
			if want {
				sub.excesses = append(sub.excesses, nowNs)
			}
		}
		if ambiguous {
			return nil, ""
		}
	}
	for _, sub := range subs {
		if sub.mayBackoff(bc, int64(d)) {
			return nil, ""
		}
	}
	now := time.Now()
	nowNs := now.UnixNano()
	b := []byte(VerifDump(l, now))
	for _, name := range []string{"A1", "B"} {
		k, _, _ := m.SubnetKey(c09Clients[name])
		b = append(b, "\n#"...)
		b = append(b, k...)
		sub := subs[k]
		if sub == nil {
			continue
		}
		log := sub.w.Log
		if len(log) > n+1 {
			log = log[len(log)-n-1:]
		}
		for _, t := range log {
			b = append(b, ' ')
			b = strconv.AppendInt(b, t-nowNs, 10)
		}
		b = append(b, " x"...)
		for _, t := range sub.excesses {
			// An excess older than one period cannot share a span of one
			// period with a future one.
			if nowNs-t > int64(d) {
				continue
			}
			b = append(b, ' ')
			b = strconv.AppendInt(b, t-nowNs, 10)
		}
	}

	return nil, string(b)
}

func c09HitsRel(ts []int64, start int64) (s string) {
	for _, t := range ts {
		s += "+" + time.Duration(t-start).String() + " "
	}
	if s == "" {
		return "(none)"
	}

	return s
}

// c09HitsBFS explores all histories of at most depth events breadth first,
// merging histories that lead to the same full state.
func c09HitsBFS(r *vrt.Run, expired *atomic.Bool, cfg c09HitsCfg, depth, nAlpha int) {
	seen := map[[20]byte]struct{}{}
	frontier := [][]uint8{{}}
	cfgID := fmt.Sprintf("hits %+v\n", cfg)
	for d := 1; d <= depth && len(frontier) > 0; d++ {
		var next [][]uint8
		for _, h := range frontier {
			if expired.Load() {
				r.Note("hits BFS stopped by internal deadline at depth %d", d)

				return
			}
			for ei := 0; ei < nAlpha; ei++ {
				if c09HitsAlphabet[ei].Adv != "" && (d == 1 || d == depth) {
					continue
				}
				events := make([]int, 0, d)
				for _, x := range h {
					events = append(events, int(x))
				}
				events = append(events, ei)
				c := c09HitsCase{Cfg: cfg, Events: events}
				r.Eval()
				fs, digest := c09RunHits(r, c)
				c.Trace = c09HitsTrace(events)
				r.Sample(c)
				if len(fs) > 0 {
					r.Report("hits", c, fs)

					continue
				}
				if digest == "" {
					r.Count("hits_histories_not_extended", 1)

					continue
				}
				k := sha256.Sum256([]byte(digest))
				var k20 [20]byte
				copy(k20[:], k[:20])
				if _, ok := seen[k20]; ok {
					r.Count("hits_histories_merged", 1)

					continue
				}
				seen[k20] = struct{}{}
				r.State(cfgID + digest)
				if d < depth {
					nh := make([]uint8, d)
					copy(nh, h)
					nh[d-1] = uint8(ei)
					next = append(next, nh)
				}
			}
		}
		frontier = next
	}
}

// c09HitsPart runs the part (or replays one of its cases) inside the bubble.
func c09HitsPart(r *vrt.Run, expired *atomic.Bool) {
	depth := vrt.Pick(r, 7, 9)
	nAlpha := vrt.Pick(r, c09HitsQuickAlpha, len(c09HitsAlphabet))
	cfgs := c09HitsConfigs(r.Thorough())
	r.Bound("hits_depth", depth)
	r.Bound("hits_alphabet", nAlpha)
	r.Bound("hits_configs", len(cfgs))
	var c c09HitsCase
	switch {
	case r.ReplayCase("hits", &c):
		r.Eval()
		fs, _ := c09RunHits(r, c)
		r.Report("hits", c, fs)
	case r.ShouldRun():
		for _, cfg := range cfgs {
			if r.Mine() {
				c09HitsBFS(r, expired, cfg, depth, nAlpha)
			}
		}
	}
}
