//go:build verif

package ratelimitmw

import (
	"fmt"
	"sync/atomic"

	"github.com/AdguardTeam/AdGuardDNS/internal/dnsserver/zzverif/vrt"
	"github.com/miekg/dns"
)

// Part "mw-any": ANY queries of allowlisted and other clients through the real
// serveWithRatelimiting + real Backoff (RefuseANY on and off) + real
// DynamicAllowlist that contains W's subnet, over plain-DNS UDP and TCP
// connections, in every small history: before and after the subnet's window is
// exhausted / the subnet is in backoff.  Oracle of the part "mw" (statement:
// "ANY queries are dropped for everyone when refusal is configured" and
// "allowlisted clients are otherwise never dropped"): with refusal configured
// nothing may be written to the client for an ANY query, whoever asks; without
// it an ANY query is an ordinary query.
var mwANYAlphabet = []mwEv{
	{Client: "W", QType: dns.TypeANY, Size: mwEst - 1},
	{Client: "G1", QType: dns.TypeA, Size: mwEst - 1},
	{Client: "W", QType: dns.TypeANY, Size: mwEst - 1, TCP: true},
	{Client: "G1", QType: dns.TypeANY, Size: mwEst - 1},
	{Client: "W", QType: dns.TypeA, Size: mwEst - 1},
	{Adv: "ivl+1ns"},
	{Client: "G1", QType: dns.TypeANY, Size: mwEst - 1, TCP: true},
	{Client: "W", QType: dns.TypeA, Size: mwEst - 1, TCP: true},
	{Client: "G1", QType: dns.TypeA, Size: 3*mwEst + 1, TCP: true},
	{Client: "W", QType: dns.TypeANY, Size: 3*mwEst + 1},
}

func mwANYPart(r *vrt.Run, expired *atomic.Bool) {
	depth := vrt.Pick(r, 4, 5)
	r.Bound("mw_any_depth", depth)
	r.Bound("mw_any_alphabet", len(mwANYAlphabet))
	cfgs := mwConfigs(false)
	r.Bound("mw_any_configs", len(cfgs))
	vrt.Part(r, "mw-any", func(emit func(mwCase)) {
		for _, cfg := range cfgs {
			vrt.Sequences(len(mwANYAlphabet), 1, depth, func(seq []int) {
				if mwANYAlphabet[seq[0]].Adv != "" || mwANYAlphabet[seq[len(seq)-1]].Adv != "" {
					return
				}
				emit(mwCase{Cfg: cfg, Events: append([]int{}, seq...)})
			})
		}
	}, func(c mwCase) []vrt.Finding {
		if expired.Load() {
			return nil
		}
		fs, _ := mwRunOn(r, c, mwANYAlphabet)
		r.State(fmt.Sprint("any ", c.Cfg, c.Events))

		return fs
	})
}
