//go:build verif

package ratelimit

// Accessors for check C09.  This file is overlaid into the ratelimit package
// (never committed to the repository) so that harnesses living in other
// packages can dump the complete state of a *Backoff and stop the go-cache
// janitor goroutines it starts.

import (
	"fmt"
	"reflect"
	"runtime"
	"sort"
	"strings"
	"sync/atomic"
	"time"
	"unsafe"

	cache "github.com/patrickmn/go-cache"
)

// VerifDumpCounter returns the complete state of r in canonical form:
// timestamps are printed relative to now, oldest first; never written slots
// are not printed.
func VerifDumpCounter(r *RequestCounter, now time.Time) (s string) {
	r.mu.Lock()
	defer r.mu.Unlock()

	nowNs := now.UnixNano()
	sb := &strings.Builder{}
	fmt.Fprintf(sb, "cap=%d ivl=%d len=%d [", r.ringCap(), int64(r.ivl), r.ring.Len())
	r.ring.Range(func(ts int64) (cont bool) {
		fmt.Fprintf(sb, "%d ", ts-nowNs)

		return true
	})
	sb.WriteString("]")

	return sb.String()
}

// ringCap returns the capacity of the ring of r.
func (r *RequestCounter) ringCap() (n int) {
	// The ring has no capacity accessor; count the slots through Range of a
	// full buffer or, for a buffer that is not full yet, through reflection.
	v := reflect.ValueOf(r.ring).Elem().FieldByName("buf")

	return v.Len()
}

// VerifDump returns every field of l that future behaviour depends on, in
// canonical (sorted, time relative to now) form.
func VerifDump(l *Backoff, now time.Time) (s string) {
	nowNs := now.UnixNano()
	var lines []string
	for k, it := range l.reqCounters.Items() {
		lines = append(lines, fmt.Sprintf(
			"req %s exp=%d %s",
			k,
			it.Expiration-nowNs,
			VerifDumpCounter(it.Object.(*RequestCounter), now),
		))
	}
	for k, it := range l.hitCounters.Items() {
		lines = append(lines, fmt.Sprintf(
			"hit %s exp=%d n=%d",
			k,
			it.Expiration-nowNs,
			it.Object.(*atomic.Uint64).Load(),
		))
	}
	sort.Strings(lines)

	return strings.Join(lines, "\n")
}

// VerifStop stops the janitor goroutines of the two go-cache instances of l
// and clears their finalizers.  It must be called from the goroutine (bubble)
// that created l.  l must not be used afterwards.
func VerifStop(l *Backoff) {
	verifStopCache(l.reqCounters)
	verifStopCache(l.hitCounters)
}

// verifStopCache stops the janitor of c, if any.
func verifStopCache(c *cache.Cache) {
	// The finalizer set by go-cache would send on the stop channel from the
	// finalizer goroutine; the janitor is stopped here instead.
	runtime.SetFinalizer(c, nil)

	inner := reflect.ValueOf(c).Elem().Field(0).Elem()
	jan := inner.FieldByName("janitor")
	if jan.IsNil() {
		return
	}

	stop := jan.Elem().FieldByName("stop")
	ch := reflect.NewAt(stop.Type(), unsafe.Pointer(stop.UnsafeAddr())).Elem()
	ch.Send(reflect.ValueOf(true))
}
