//go:build verif

package ratelimit

// Accessors for check C09.  This file is overlaid into the ratelimit package
// (never committed to the repository) so that harnesses living in other
// packages can dump the complete state of a *Backoff and stop the go-cache
// janitor goroutines it starts.

import (
	"reflect"
	"runtime"
	"sort"
	"strconv"
	"strings"
	"sync/atomic"
	"time"
	"unsafe"

	cache "github.com/patrickmn/go-cache"
)

// VerifDumpCounter returns the complete state of r in canonical form:
// timestamps are printed relative to now, oldest first; never written slots
// are not printed.
func VerifDumpCounter(r *RequestCounter, now time.Time) (s string) {
	return string(verifAppendCounter(nil, r, now.UnixNano()))
}

func verifAppendCounter(b []byte, r *RequestCounter, nowNs int64) (res []byte) {
	r.mu.Lock()
	defer r.mu.Unlock()

	b = append(b, "ivl="...)
	b = strconv.AppendInt(b, int64(r.ivl), 10)
	b = append(b, " len="...)
	b = strconv.AppendUint(b, uint64(r.ring.Len()), 10)
	b = append(b, " ["...)
	r.ring.Range(func(ts int64) (cont bool) {
		b = strconv.AppendInt(b, ts-nowNs, 10)
		b = append(b, ' ')

		return true
	})

	return append(b, ']')
}

// VerifDump returns every field of l that future behaviour depends on, in
// canonical (sorted, time relative to now) form.  (The configuration fields
// are constant and are not printed.)
func VerifDump(l *Backoff, now time.Time) (s string) {
	nowNs := now.UnixNano()
	var lines []string
	for k, it := range l.reqCounters.Items() {
		b := make([]byte, 0, 96)
		b = append(b, "req "...)
		b = append(b, k...)
		b = append(b, " exp="...)
		b = strconv.AppendInt(b, it.Expiration-nowNs, 10)
		b = append(b, ' ')
		b = verifAppendCounter(b, it.Object.(*RequestCounter), nowNs)
		lines = append(lines, string(b))
	}
	for k, it := range l.hitCounters.Items() {
		b := make([]byte, 0, 64)
		b = append(b, "hit "...)
		b = append(b, k...)
		b = append(b, " exp="...)
		b = strconv.AppendInt(b, it.Expiration-nowNs, 10)
		b = append(b, " n="...)
		b = strconv.AppendUint(b, it.Object.(*atomic.Uint64).Load(), 10)
		lines = append(lines, string(b))
	}
	sort.Strings(lines)

	return strings.Join(lines, "\n")
}

// VerifStop stops the janitor goroutines of the two go-cache instances of l
// and clears their finalizers.  It must be called from the goroutine (bubble)
// that created l.  l must not be used afterwards.
func VerifStop(l *Backoff) {
	verifStopCache(l.reqCounters)
	verifStopCache(l.hitCounters)
}

// verifStopCache stops the janitor of c, if any.
func verifStopCache(c *cache.Cache) {
	// The finalizer set by go-cache would send on the stop channel from the
	// finalizer goroutine; the janitor is stopped here instead.
	runtime.SetFinalizer(c, nil)

	inner := reflect.ValueOf(c).Elem().Field(0).Elem()
	jan := inner.FieldByName("janitor")
	if jan.IsNil() {
		return
	}

	stop := jan.Elem().FieldByName("stop")
	ch := reflect.NewAt(stop.Type(), unsafe.Pointer(stop.UnsafeAddr())).Elem()
	ch.Send(reflect.ValueOf(true))
}
