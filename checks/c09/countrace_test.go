//go:build verif

package ratelimit

import (
	"context"
	"fmt"
	"net/netip"
	"os"
	"runtime"
	"runtime/debug"
	"sync/atomic"
	"testing"
	"testing/synctest"
	"time"

	"github.com/AdguardTeam/AdGuardDNS/internal/dnsserver/zzverif/vrt"
	"github.com/AdguardTeam/AdGuardDNS/internal/dnsserver/zzverif/xatomic"
	"github.com/AdguardTeam/AdGuardDNS/internal/dnsserver/zzverif/xsched"
	"github.com/c2h5oh/datasize"
	"github.com/miekg/dns"
)

// Schedule exploration (XS) of the counting itself: concurrent queries of one
// subnet at ONE instant through the real Backoff.
//
// backoff.go and counter.go are built from instrumented copies: their sync and
// sync/atomic imports are redirected to the scheduler shims (the mutex of
// RequestCounter and the atomic hit counter are scheduling points) and a
// scheduling point is put before every statement with a call inside
// IsRateLimited, hasHitRateLimit, incBackoff, isBackoff, CountResponses and
// RequestCounter.Add, i.e. between any two cache / ring operations.  go-cache
// itself stays real (each of its operations is one atomic step); period and
// duration are 0 = no expiry and no janitor goroutine.  Everything runs in a
// testing/synctest bubble, so all queries of an execution happen at the same
// virtual instant and the warm-up can be aged by more than one interval.
//
// Oracle (statement: a query is dropped exactly when its subnet has already had
// the configured number of countable events within the interval, or is in
// backoff; other subnets unaffected; allowlisted never dropped).  All n queries
// of the subnet are identical and simultaneous, so every sequential order
// gives the same totals; whatever the interleaving:
//   - exactly min(n, L) queries are admitted;
//   - afterwards the subnet is in backoff iff the number of dropped queries
//     plus the excesses recorded before is >= backoff count, and no more
//     excesses are recorded than queries were dropped (the exact hit count is
//     not demanded: a query that passed the backoff test just before another
//     one completed the count is legitimately recorded as one more excess);
//   - L sequential follow-up queries at the same instant admit exactly
//     L - min(n, L) more (the window remembers every concurrent event);
//   - the other subnet's and the allowlisted client's queries are admitted.
//
// Scenarios differ in whether the subnet's request counter / hit counter entry
// already exists.  The creation of a missing entry is a get-then-set on the
// cache in the code under test; anomalies in scenarios where the entry is
// missing are reported under their own keys.

const (
	crIvl = time.Second

	crKeyOver      = "counting-race/over-admission"
	crKeyOverCold  = "counting-race/first-contact-counter-lost"
	crKeyUnder     = "counting-race/under-admission"
	crKeyHitsLost  = "counting-race/excesses-lost"
	crKeyHitsCold  = "counting-race/first-excess-hit-counter-lost"
	crKeyHitsExtra = "counting-race/backoff-without-excesses"
	crKeyFollowUp  = "counting-race/window-forgot-concurrent-events"
	crKeyOther     = "counting-race/other-subnet-dropped"
	crKeyAllowed   = "counting-race/allowlisted-dropped"
)

var (
	crA1 = netip.MustParseAddr("10.0.0.1")
	crA2 = netip.MustParseAddr("10.0.0.2")
	crA3 = netip.MustParseAddr("10.0.0.3")
	crW  = netip.MustParseAddr("10.0.0.77")
	crB  = netip.MustParseAddr("10.0.1.1")

	crAllow = []netip.Prefix{netip.MustParsePrefix("10.0.0.64/26")}
)

// crTask is one concurrent task: Queries queries from Client.
type crTask struct {
	Client  string
	Queries int
}

// crScenario is one scenario.
type crScenario struct {
	Name string
	L    uint
	BC   uint

	// Warm: the subnet's request-counter entry exists (one query more than
	// an interval ago).  PreHits: excesses recorded before (the hit-counter
	// entry exists iff PreHits > 0); they are produced by real queries more
	// than an interval ago.
	Warm    bool
	PreHits int

	Tasks    []crTask
	Thorough bool
}

var crScenarios = []crScenario{{
	Name: "cold-2x1-L1", L: 1, BC: 100,
	Tasks: []crTask{{"A1", 1}, {"A2", 1}},
}, {
	Name: "warm-2x1-L1-bc1", L: 1, BC: 1, Warm: true,
	Tasks: []crTask{{"A1", 1}, {"A2", 1}},
}, {
	Name: "warm-2+1-L1-bc2-hitcold", L: 1, BC: 2, Warm: true,
	Tasks: []crTask{{"A1", 2}, {"A2", 1}},
}, {
	Name: "warm-2+1-L1-bc3-prehit1", L: 1, BC: 3, Warm: true, PreHits: 1,
	Tasks: []crTask{{"A1", 2}, {"A2", 1}},
}, {
	Name: "warm-2+1-L2-bc2-prehit1-other", L: 2, BC: 2, Warm: true, PreHits: 1,
	Tasks: []crTask{{"A1", 2}, {"A2", 1}, {"B", 1}},
}, {
	Name: "warm-1+1-L1-bc1-allowlisted", L: 1, BC: 1, Warm: true,
	Tasks: []crTask{{"A1", 1}, {"A2", 1}, {"W", 1}},
}, {
	Name: "warm-3x1-L2-bc1", L: 2, BC: 1, Warm: true, Thorough: true,
	Tasks: []crTask{{"A1", 1}, {"A2", 1}, {"A3", 1}},
}, {
	Name: "warm-2+2-L2-bc2-prehit1", L: 2, BC: 2, Warm: true, PreHits: 1, Thorough: true,
	Tasks: []crTask{{"A1", 2}, {"A2", 2}},
}, {
	Name: "cold-3x1-L2", L: 2, BC: 100, Thorough: true,
	Tasks: []crTask{{"A1", 1}, {"A2", 1}, {"A3", 1}},
}, {
	Name: "warm-3x1-L1-bc2-hitcold", L: 1, BC: 2, Warm: true, Thorough: true,
	Tasks: []crTask{{"A1", 1}, {"A2", 1}, {"A3", 1}},
}}

func crAddr(name string) (ip netip.Addr) {
	switch name {
	case "A1":
		return crA1
	case "A2":
		return crA2
	case "A3":
		return crA3
	case "W":
		return crW
	case "B":
		return crB
	}
	vrt.Fatalf("bad client %q", name)

	return ip
}

type crObs struct {
	who   string
	drop  bool
	allow bool
	err   error
	panic string
}

type crEnv struct {
	sc  crScenario
	l   *Backoff
	obs []crObs
}

func crQuery(l *Backoff, ip netip.Addr) (o crObs) {
	ctx := context.Background()
	req := &dns.Msg{}
	req.SetQuestion("a.test.", dns.TypeA)
	o.panic = vrt.Catch(func() {
		o.drop, o.allow, o.err = l.IsRateLimited(ctx, req, ip)
		if !o.drop && !o.allow && o.err == nil {
			// What the middlewares do with a query that passed; the
			// response is smaller than the estimate: no extra events.
			resp := &dns.Msg{}
			resp.SetReply(req)
			l.CountResponses(ctx, resp, ip)
		}
	})

	return o
}

// crSetup builds a fresh limiter, warms it up sequentially (no exploration is
// running: the shims use the real primitives) and registers the tasks.
func crSetup(sc crScenario, s *xsched.Sched) (env *crEnv) {
	env = &crEnv{sc: sc}
	env.l = NewBackoff(&BackoffConfig{
		Allowlist:            NewDynamicAllowlist(crAllow, nil),
		Count:                sc.BC,
		ResponseSizeEstimate: 1024 * datasize.B,
		IPv4Count:            sc.L,
		IPv4Interval:         crIvl,
		IPv4SubnetKeyLen:     24,
		IPv6Count:            sc.L,
		IPv6Interval:         crIvl,
		IPv6SubnetKeyLen:     48,
	})
	if sc.Warm {
		// L admitted queries and PreHits excesses, then more than one
		// interval of silence.
		for i := 0; i < int(sc.L)+sc.PreHits; i++ {
			o := crQuery(env.l, crA1)
			if o.panic != "" || o.err != nil || o.drop != (i >= int(sc.L)) {
				vrt.Fatalf("warm-up query %d of scenario %s: %+v", i, sc.Name, o)
			}
		}
		time.Sleep(crIvl + 1)
	} else if sc.PreHits != 0 {
		vrt.Fatalf("scenario %s: pre-hits need a warm counter", sc.Name)
	}
	for ti, tk := range sc.Tasks {
		name := fmt.Sprintf("T%d-%s", ti+1, tk.Client)
		ip := crAddr(tk.Client)
		s.Go(name, func() {
			for range tk.Queries {
				o := crQuery(env.l, ip)
				o.who = tk.Client
				env.obs = append(env.obs, o)
			}
		})
	}

	return env
}

type crCase struct {
	Scenario int    `json:"scenario"`
	Name     string `json:"name"`
	Choices  []int  `json:"choices"`
}

// crHits returns the recorded excesses of A's subnet.
func crHits(l *Backoff) (n int) {
	v, ok := l.hitCounters.Get("10.0.0.0/24")
	if !ok {
		return 0
	}

	return int(v.(*xatomic.Uint64).Load())
}

func crCheck(env *crEnv, x *xsched.Exec) (fs []vrt.Finding, obs string) {
	sc := env.sc
	sched := func() string { return fmt.Sprintf("schedule (%d preemptions):\n%s", x.Preemptions, x.Sched.Describe()) }
	if x.Sched.Panicked != "" {
		return vrt.F("counting-race/panic", "scenario %s: %s", sc.Name, x.Sched.Panicked), ""
	}
	if x.Sched.Deadlock {
		return vrt.F("counting-race/deadlock", "scenario %s: blocked: %v\n%s", sc.Name, x.Sched.Blocked, sched()), ""
	}
	if x.Sched.LimitHit {
		vrt.Fatalf("counting race: step limit hit in scenario %s", sc.Name)
	}
	n, admitted := 0, 0
	for _, o := range env.obs {
		obs += fmt.Sprintf("%s:%v ", o.who, !o.drop)
		if o.panic != "" || o.err != nil {
			return vrt.F("counting-race/query-failed", "scenario %s: query of %s: panic %q, error %v\n%s", sc.Name, o.who,
				o.panic, o.err, sched()), obs
		}
		switch o.who {
		case "B":
			if o.drop {
				return vrt.F(crKeyOther, "scenario %s: the only query of subnet 10.0.1.0/24 was dropped (outcomes %s)\n%s",
					sc.Name, obs, sched()), obs
			}
		case "W":
			if o.drop || !o.allow {
				return vrt.F(crKeyAllowed, "scenario %s: the allowlisted client's query: dropped=%v allowlisted=%v\n%s",
					sc.Name, o.drop, o.allow, sched()), obs
			}
		default:
			n++
			if !o.drop {
				admitted++
			}
		}
	}
	l := int(sc.L)
	want := min(n, l)
	drops := n - admitted

	// State afterwards, read sequentially.
	hits := crHits(env.l) - sc.PreHits
	inBackoff := env.l.isBackoff("10.0.0.0/24")
	more := 0
	for range l {
		if o := crQuery(env.l, crA3); !o.drop {
			more++
		}
	}
	obs += fmt.Sprintf("| hits+%d backoff=%v followups=%d", hits, inBackoff, more)
	desc := func() string {
		return fmt.Sprintf("scenario %s (limit %d per %s, backoff count %d, counter entry exists: %v, excesses recorded before: %d): "+
			"%d simultaneous queries of subnet 10.0.0.0/24: admitted %d (every sequential order admits %d); afterwards: "+
			"excesses recorded by these queries %d, in backoff %v, %d of %d sequential follow-up queries at the same instant admitted; outcomes %s\n%s",
			sc.Name, l, crIvl, sc.BC, sc.Warm, sc.PreHits, n, admitted, want, hits, inBackoff, more, l, obs, sched())
	}
	switch {
	case admitted > want && !sc.Warm:
		return vrt.F(crKeyOverCold, "%s", desc()), obs
	case admitted > want:
		return vrt.F(crKeyOver, "%s", desc()), obs
	case admitted < want:
		return vrt.F(crKeyUnder, "%s", desc()), obs
	}
	wantBackoff := drops+sc.PreHits >= int(sc.BC)
	switch {
	case !wantBackoff && inBackoff, hits > drops:
		return vrt.F(crKeyHitsExtra, "%s", desc()), obs
	case wantBackoff && !inBackoff && sc.PreHits == 0:
		return vrt.F(crKeyHitsCold, "%s", desc()), obs
	case wantBackoff && !inBackoff:
		return vrt.F(crKeyHitsLost, "%s", desc()), obs
	case !wantBackoff && hits < drops && sc.PreHits == 0:
		return vrt.F(crKeyHitsCold, "%s", desc()), obs
	case !wantBackoff && hits < drops:
		return vrt.F(crKeyHitsLost, "%s", desc()), obs
	}
	if !inBackoff && more != l-want {
		key := crKeyFollowUp
		if !sc.Warm {
			key = crKeyOverCold
		}

		return vrt.F(key, "%s", desc()), obs
	}
	if inBackoff && more != 0 {
		return vrt.F(crKeyHitsLost, "%s", desc()), obs
	}

	return nil, obs
}

func TestVerifC09CountingRace(t *testing.T) {
	r := vrt.Start("C09")
	debug.SetGCPercent(-1)

	// The internal deadline is a wall-clock matter; inside the bubble the
	// clock is virtual, so it is watched from outside.
	expired := &atomic.Bool{}
	go func() {
		for !r.Expired() {
			time.Sleep(time.Second)
		}
		expired.Store(true)
	}()

	synctest.Test(t, func(t *testing.T) {
		var rc crCase
		if r.ReplayCase("counting-race", &rc) {
			var env *crEnv
			x := xsched.Replay(rc.Choices, func(s *xsched.Sched) { env = crSetup(crScenarios[rc.Scenario], s) })
			r.Eval()
			fs, _ := crCheck(env, x)
			r.Report("counting-race", rc, fs)
		}
		if !r.ShouldRun() {
			return
		}
		shard, nshards := r.NShards()
		pre := vrt.Pick(r, 2, 3)
		r.Bound("counting_race_preemptions", pre)
		n, execs := 0, 0
		for si, sc := range crScenarios {
			if sc.Thorough && !r.Thorough() {
				continue
			}
			n++
			if si%nshards != shard {
				continue
			}
			var env *crEnv
			found := map[string]int{}
			st := xsched.Explore(xsched.Config{MaxPreemptions: pre, MaxDeviations: 0, Stop: expired.Load},
				func(s *xsched.Sched) { env = crSetup(sc, s) },
				func(x *xsched.Exec) bool {
					execs++
					if execs%2000 == 0 {
						runtime.GC()
					}
					r.Eval()
					r.Trans(len(x.Sched.Trace))
					fs, obs := crCheck(env, x)
					obs = "count-race/" + sc.Name + " " + obs
					r.Class(obs)
					if r.State(obs) {
						r.Sample(map[string]any{"scenario": sc.Name, "observation": obs, "preemptions": x.Preemptions})
					}
					if len(fs) > 0 {
						if found[fs[0].Key] < 2 {
							r.Report("counting-race", crCase{Scenario: si, Name: sc.Name, Choices: x.Choices}, fs)
						}
						found[fs[0].Key]++
						r.Count("counting_race_violating_schedules/"+fs[0].Key, 1)
					}

					return true
				})
			r.Count("counting_race_schedules/"+sc.Name, st.Executions)
			r.Count("counting_race_max_points/"+sc.Name, st.MaxTrace)
			if st.Stopped {
				r.Note("counting race scenario %s stopped by deadline after %d executions", sc.Name, st.Executions)
			}
		}
		r.Bound("counting_race_scenarios", n)
	})
	r.Finish()
	os.Exit(0)
}
