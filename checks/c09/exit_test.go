//go:build verif

package ratelimit

import (
	"context"
	"fmt"
	"sync/atomic"
	"time"

	"github.com/AdguardTeam/AdGuardDNS/internal/dnsserver/zzverif/c09ref"
	"github.com/AdguardTeam/AdGuardDNS/internal/dnsserver/zzverif/vrt"
	"github.com/c2h5oh/datasize"
	"github.com/miekg/dns"
)

// Part "exit": how long a backoff lasts when backoff_period != backoff_duration.
//
// With backoff count 1 every reading of the two settings agrees: the first
// excess of a subnet puts it into backoff at once (one excess lies within any
// period), and the backoff lasts for the backoff duration from that excess.
// So a query is dropped exactly when the subnet's window is full or its last
// backoff-starting excess is less than one duration old; queries dropped by a
// backoff are not events of the window.  The time steps (1.3 s, 2.1 s) are
// longer than the interval and no sum of them equals a period or a duration
// (2.05 s, 3.05 s, 6.05 s), so no query sits on an expiry boundary.

type c09ExitCfg struct {
	PMs int `json:"backoff_period_ms"`
	DMs int `json:"backoff_duration_ms"`
}

type c09ExitCase struct {
	Cfg    c09ExitCfg `json:"cfg"`
	Events []int      `json:"events"`
	Trace  string     `json:"trace,omitempty"`
}

var c09ExitAlphabet = []string{"A1", "+1.3s", "+2.1s", "B", "A2"}

func c09ExitTrace(events []int) (s string) {
	for i, ei := range events {
		if i > 0 {
			s += " "
		}
		s += c09ExitAlphabet[ei]
	}

	return s
}

func c09RunExit(r *vrt.Run, c c09ExitCase) (fs []vrt.Finding) {
	p, d := time.Duration(c.Cfg.PMs)*time.Millisecond, time.Duration(c.Cfg.DMs)*time.Millisecond
	const n = 1
	l := NewBackoff(&BackoffConfig{
		Allowlist:            NewDynamicAllowlist(nil, nil),
		Period:               p,
		Duration:             d,
		Count:                1,
		ResponseSizeEstimate: c09Est * datasize.B,
		IPv4Count:            n,
		IPv4Interval:         time.Second,
		IPv4SubnetKeyLen:     24,
		IPv6Count:            n,
		IPv6Interval:         time.Second,
		IPv6SubnetKeyLen:     48,
	})
	defer VerifStop(l)
	m := c09ref.New(c09ref.Config{Len4: 24, Len6: 48})
	ctx := context.Background()
	type sub struct {
		w     c09ref.Window
		until int64
		in    bool
	}
	subs := map[string]*sub{}
	start := time.Now()
	for step, ei := range c.Events {
		switch e := c09ExitAlphabet[ei]; e {
		case "+1.3s":
			time.Sleep(1300 * time.Millisecond)

			continue
		case "+2.1s":
			time.Sleep(2100 * time.Millisecond)

			continue
		}
		ip := c09Clients[c09ExitAlphabet[ei]]
		sk, _, _ := m.SubnetKey(ip)
		s := subs[sk]
		if s == nil {
			s = &sub{}
			subs[sk] = s
		}
		now := time.Now()
		nowNs := now.UnixNano()
		inBackoff := s.in && nowNs < s.until
		want := inBackoff || s.w.Above(nowNs, n, int64(time.Second))
		req := c09ref.Req(uint16(step+1), dns.TypeA)
		drop, _, err := l.IsRateLimited(ctx, req, ip)
		r.Trans(1)
		if err != nil {
			return vrt.F("backoff/error", "step %d: IsRateLimited error: %v", step, err)
		}
		if !drop {
			l.CountResponses(ctx, c09ref.Resp(req, c09Est-1), ip)
		}
		if drop != want {
			key := "backoff-exit/left-backoff-before-duration"
			switch {
			case drop && s.in:
				key = "backoff-exit/still-in-backoff-after-duration"
			case drop:
				key = "backoff-exit/dropped-early"
			case !inBackoff:
				key = "backoff-exit/passed-late/window-full"
			}

			return vrt.F(key, "cfg %+v (limit 1 per 1s, backoff count 1), history [%s]: step %d at +%s: dropped=%v, want %v (subnet %s in backoff until +%s: %v)\n   real state: %s",
				c.Cfg, c09ExitTrace(c.Events), step, now.Sub(start), drop, want, sk, time.Duration(s.until-start.UnixNano()), inBackoff, VerifDump(l, now))
		}
		switch {
		case inBackoff:
			r.Class("exit/in-backoff/drop")
		case want:
			r.Class("exit/window-full/drop+enter")
		case s.in:
			r.Class("exit/after-backoff/pass")
		default:
			r.Class("exit/below-limit/pass")
		}
		if inBackoff {
			continue
		}
		excess := s.w.Above(nowNs, n, int64(time.Second))
		s.w.Add(nowNs)
		if excess {
			s.in, s.until = true, nowNs+int64(d)
		}
	}
	r.State(fmt.Sprintf("exit %+v %s", c.Cfg, c09ExitTrace(c.Events)))

	return nil
}

// c09ExitPart runs the part inside the bubble.
func c09ExitPart(r *vrt.Run, expired *atomic.Bool) {
	depth := vrt.Pick(r, 6, 8)
	nAlpha := vrt.Pick(r, 4, len(c09ExitAlphabet))
	cfgs := []c09ExitCfg{{PMs: 2050, DMs: 6050}, {PMs: 6050, DMs: 2050}, {PMs: 3050, DMs: 3050}}
	r.Bound("exit_depth", depth)
	r.Bound("exit_alphabet", nAlpha)
	r.Bound("exit_configs", len(cfgs))
	vrt.Part(r, "exit", func(emit func(c09ExitCase)) {
		for _, cfg := range cfgs {
			vrt.Sequences(nAlpha, 2, depth, func(seq []int) {
				if last := c09ExitAlphabet[seq[len(seq)-1]]; last[0] == '+' {
					return
				}
				emit(c09ExitCase{Cfg: cfg, Events: append([]int{}, seq...), Trace: c09ExitTrace(seq)})
			})
		}
	}, func(c c09ExitCase) []vrt.Finding {
		if expired.Load() {
			return nil
		}

		return c09RunExit(r, c)
	})
}
