//go:build verif

package c09ref

import (
	"fmt"
	"strings"

	"github.com/miekg/dns"
)

// QName is the question name used by all C09 harnesses.
const QName = "a.test."

// Req returns a query for [QName] with the given type.
func Req(id, qtype uint16) (m *dns.Msg) {
	m = &dns.Msg{}
	m.SetQuestion(QName, qtype)
	m.Id = id

	return m
}

// Resp returns a reply to req whose (uncompressed) wire length, as reported by
// Len, is exactly size.  It panics if size is not reachable.
func Resp(req *dns.Msg, size int) (m *dns.Msg) {
	m = &dns.Msg{}
	m.SetReply(req)
	base := m.Len()
	if size == base {
		return m
	}

	// One TXT record: owner name + 10 bytes of fixed fields + one length
	// byte per string.
	pad := size - base - len(QName) - 1 - 10 - 1
	if pad < 0 || pad > 255 {
		panic(fmt.Errorf("c09ref: response size %d not reachable (base %d)", size, base))
	}
	m.Answer = append(m.Answer, &dns.TXT{
		Hdr: dns.RR_Header{Name: QName, Rrtype: dns.TypeTXT, Class: dns.ClassINET, Ttl: 10},
		Txt: []string{strings.Repeat("x", pad)},
	})
	if got := m.Len(); got != size {
		panic(fmt.Errorf("c09ref: built response of %d bytes, want %d", got, size))
	}

	return m
}
