//go:build verif

package ratelimit

import (
	"context"
	"crypto/sha256"
	"fmt"
	"net/netip"
	"os"
	"sync/atomic"
	"testing"
	"testing/synctest"
	"time"

	"github.com/AdguardTeam/AdGuardDNS/internal/dnsserver/zzverif/c09ref"
	"github.com/AdguardTeam/AdGuardDNS/internal/dnsserver/zzverif/vrt"
	"github.com/c2h5oh/datasize"
	"github.com/miekg/dns"
)

// Seam (b): the real Backoff (IsRateLimited / CountResponses, go-cache expiry)
// under the virtual clock of testing/synctest, driven the way the rate-limit
// middlewares drive it: IsRateLimited for the query and, when the query is
// neither dropped nor allowlisted, CountResponses for the response.

const (
	c09Est  = 64
	c09Ivl4 = time.Second
	c09Ivl6 = 2 * time.Second
)

// c09Clients are the client addresses.  A1, A2 and W share a /24; B is in
// another /24 of the same /8; D is in a third /24; C1 and C2 share a /48 but
// not a /128.  W is allowlisted persistently, D dynamically.
var c09Clients = map[string]netip.Addr{
	"A1": netip.MustParseAddr("10.0.0.1"),
	"A2": netip.MustParseAddr("10.0.0.2"),
	"W":  netip.MustParseAddr("10.0.0.77"),
	"B":  netip.MustParseAddr("10.0.1.1"),
	"D":  netip.MustParseAddr("10.0.2.9"),
	"C1": netip.MustParseAddr("2001:db8:1::1"),
	"C2": netip.MustParseAddr("2001:db8:1:1::2"),
}

var (
	c09Persistent = []netip.Prefix{netip.MustParsePrefix("10.0.0.64/26")}
	c09Dynamic    = []netip.Prefix{netip.MustParsePrefix("10.0.2.0/24")}
)

// c09Ev is one event of a history.
type c09Ev struct {
	Client string `json:"client,omitempty"`
	QType  uint16 `json:"qtype,omitempty"`
	Size   int    `json:"resp_size,omitempty"`

	// Adv is a time step: "ivl/2", "ivl", "ivl+1ns" (of the IPv4 interval) or
	// "long" (longer than interval + backoff period + backoff duration).
	Adv string `json:"advance,omitempty"`

	// Toggle replaces the dynamic allowlist by the empty list, or restores it.
	Toggle bool `json:"toggle_dynamic_allowlist,omitempty"`
}

func (e c09Ev) String() (s string) {
	switch {
	case e.Adv != "":
		return "+" + e.Adv
	case e.Toggle:
		return "toggle-dyn"
	}

	return fmt.Sprintf("%s/%s/%d", e.Client, dns.Type(e.QType), e.Size)
}

// c09Alphabet is the event alphabet, simplest first.  The quick tier uses the
// first c09QuickAlpha events.
var c09Alphabet = []c09Ev{
	{Client: "A1", QType: dns.TypeA, Size: c09Est - 1},
	{Adv: "ivl+1ns"},
	{Client: "A2", QType: dns.TypeA, Size: c09Est - 1},
	{Adv: "ivl/2"},
	{Client: "B", QType: dns.TypeA, Size: c09Est - 1},
	{Client: "W", QType: dns.TypeA, Size: c09Est - 1},
	{Client: "A1", QType: dns.TypeANY, Size: c09Est - 1},
	{Client: "A1", QType: dns.TypeA, Size: 3*c09Est + 1},
	{Adv: "ivl"},
	{Adv: "long"},
	{Client: "C1", QType: dns.TypeA, Size: c09Est - 1},
	{Client: "A1", QType: dns.TypeA, Size: c09Est},
	{Client: "D", QType: dns.TypeA, Size: c09Est - 1},
	{Client: "W", QType: dns.TypeANY, Size: c09Est - 1},
	// Thorough tier only.
	{Client: "C2", QType: dns.TypeA, Size: c09Est - 1},
	{Client: "B", QType: dns.TypeA, Size: 3*c09Est + 1},
	{Toggle: true},
	{Client: "C1", QType: dns.TypeA, Size: 3*c09Est + 1},
}

const c09QuickAlpha = 14

// c09Cfg is one limiter configuration.
type c09Cfg struct {
	Len4      int  `json:"ipv4_subnet_key_len"`
	Len6      int  `json:"ipv6_subnet_key_len"`
	N4        uint `json:"ipv4_count"`
	N6        uint `json:"ipv6_count"`
	BC        uint `json:"backoff_count"`
	Refuse    bool `json:"refuse_any"`
	PeriodS   int  `json:"backoff_period_s"`
	DurationS int  `json:"backoff_duration_s"`
}

// c09Configs returns the configurations: key lengths x counts x backoff
// counts x refuse-ANY.  Period and duration are always far longer than any
// explored history without the "long" step and far shorter than that step.
func c09Configs(counts []uint) (cfgs []c09Cfg) {
	lens := [][4]int{{24, 48, 30, 30}, {32, 128, 30, 60}, {8, 16, 60, 30}}
	for _, deep := range []bool{true, false} {
		for _, l := range lens {
			for _, n := range counts {
				for _, bc := range []uint{1, 2} {
					for _, refuse := range []bool{true, false} {
						c := c09Cfg{
							Len4: l[0], Len6: l[1], N4: n, N6: n%3 + 1, BC: bc, Refuse: refuse,
							PeriodS: l[2], DurationS: l[3],
						}
						if c.deep() == deep {
							cfgs = append(cfgs, c)
						}
					}
				}
			}
		}
	}

	return cfgs
}

// deep reports whether c is one of the configurations that the thorough tier
// explores one event deeper; they come first so that they are spread over the
// shards.
func (c c09Cfg) deep() (ok bool) { return c.Len4 != 8 && c.N4 <= 2 }

// c09Long is the "long quiet gap".  It is kept small in absolute terms because
// all histories of a process share one virtual clock.
const c09Long = 200 * time.Second

func c09AdvDur(name string) (d time.Duration) {
	switch name {
	case "ivl/2":
		return c09Ivl4 / 2
	case "ivl":
		return c09Ivl4
	case "ivl+1ns":
		return c09Ivl4 + 1
	case "long":
		return c09Long
	}
	vrt.Fatalf("bad advance %q", name)

	return 0
}

// c09BkCase is one history on one configuration.
type c09BkCase struct {
	Cfg    c09Cfg `json:"cfg"`
	Events []int  `json:"events"`
	Trace  string `json:"trace,omitempty"`
}

func c09Trace(events []int) (s string) {
	for i, ei := range events {
		if i > 0 {
			s += " "
		}
		s += c09Alphabet[ei].String()
	}

	return s
}

func c09Contains(ps []netip.Prefix, ip netip.Addr) (ok bool) {
	for _, p := range ps {
		if p.Contains(ip) {
			return true
		}
	}

	return false
}

func c09NewBackoff(cfg c09Cfg) (l *Backoff, al *DynamicAllowlist, m *c09ref.Model) {
	al = NewDynamicAllowlist(c09Persistent, c09Dynamic)
	l = NewBackoff(&BackoffConfig{
		Allowlist:            al,
		Period:               time.Duration(cfg.PeriodS) * time.Second,
		Duration:             time.Duration(cfg.DurationS) * time.Second,
		Count:                cfg.BC,
		ResponseSizeEstimate: c09Est * datasize.B,
		IPv4Count:            cfg.N4,
		IPv4Interval:         c09Ivl4,
		IPv4SubnetKeyLen:     cfg.Len4,
		IPv6Count:            cfg.N6,
		IPv6Interval:         c09Ivl6,
		IPv6SubnetKeyLen:     cfg.Len6,
		RefuseANY:            cfg.Refuse,
	})

	return l, al, c09NewModel(cfg)
}

func c09NewModel(cfg c09Cfg) (m *c09ref.Model) {
	return c09ref.New(c09ref.Config{
		N4: int(cfg.N4), N6: int(cfg.N6),
		Ivl4: int64(c09Ivl4), Ivl6: int64(c09Ivl6),
		Len4: cfg.Len4, Len6: cfg.Len6,
		BackoffCount: int(cfg.BC),
		Est:          c09Est,
		RefuseANY:    cfg.Refuse,
	})
}

// c09RunBackoff runs one history on a fresh real Backoff in lock-step with the
// reference model.  outcomes gets one byte per query event: 'd' dropped, 'p'
// passed.  digest is the canonical full state of the real object and of the
// model after the history.
func c09RunBackoff(r *vrt.Run, c c09BkCase, classes bool) (fs []vrt.Finding, outcomes []byte, digest string) {
	l, al, m := c09NewBackoff(c.Cfg)
	defer VerifStop(l)
	ctx := context.Background()
	dynOn := true
	for step, ei := range c.Events {
		e := c09Alphabet[ei]
		switch {
		case e.Adv == "long":
			time.Sleep(c09Long)
			m.Quiet()

			continue
		case e.Adv != "":
			time.Sleep(c09AdvDur(e.Adv))

			continue
		case e.Toggle:
			dynOn = !dynOn
			if dynOn {
				al.Update(c09Dynamic)
			} else {
				al.Update(nil)
			}

			continue
		}
		ip := c09Clients[e.Client]
		allow := c09Contains(c09Persistent, ip) || (dynOn && c09Contains(c09Dynamic, ip))
		now := time.Now()
		req := c09ref.Req(uint16(step+1), e.QType)
		v := m.Query(now.UnixNano(), ip, e.QType == dns.TypeANY, allow)
		drop, allowFlag, err := l.IsRateLimited(ctx, req, ip)
		r.Trans(1)
		if err != nil {
			return vrt.F("backoff/error", "step %d %s: IsRateLimited error: %v", step, e, err), outcomes, ""
		}
		if !drop && !allowFlag {
			// What the middlewares do with a query that passed.
			l.CountResponses(ctx, c09ref.Resp(req, e.Size), ip)
			r.Trans(1)
		}
		out := byte('p')
		if drop {
			out = 'd'
		}
		outcomes = append(outcomes, out)
		if classes {
			if drop {
				r.Class(v.Why + "/drop")
			} else {
				r.Class(v.Why + "/pass")
			}
		}
		if (drop && !v.MayDrop) || (!drop && !v.MayPass) {
			key := ""
			switch {
			case v.Why == "any-refused":
				key = "backoff/any-not-refused"
			case v.Why == "allowlisted":
				key = "backoff/allowlisted-dropped"
			case drop:
				key = "backoff/dropped-early"
			default:
				key = "backoff/passed-late/" + v.Why
			}
			sk, n, ivl := m.SubnetKey(ip)

			return vrt.F(key,
				"cfg %+v, history [%s]: step %d query %s at virtual +%s: dropped=%v but the statement admits only %s "+
					"(reference: subnet %s, limit %d per %s, reason %s; model %s)\n   real state: %s",
				c.Cfg, c09Trace(c.Events), step, e, now.Sub(c09T0), drop, c09Admits(v),
				sk, n, time.Duration(ivl), v.Why, m.Key(now.UnixNano()), VerifDump(l, now)), outcomes, ""
		}
		m.Observe(drop, e.Size)
	}
	now := time.Now()
	digest = VerifDump(l, now) + "\n#" + m.Key(now.UnixNano())
	if !dynOn {
		digest += "\ndyn-off"
	}

	return nil, outcomes, digest
}

// c09T0 is the origin of the synctest clock.
var c09T0 = time.Date(2000, 1, 1, 0, 0, 0, 0, time.UTC)

func c09Admits(v c09ref.Verdict) (s string) {
	switch {
	case v.MayDrop && v.MayPass:
		return "either"
	case v.MayDrop:
		return "a drop"
	}

	return "a pass"
}

func c09IsStep(ei int) (ok bool) {
	e := c09Alphabet[ei]

	return e.Adv != "" || e.Toggle
}

// c09BFS explores all histories of at most depth events over the first nAlpha
// events on configuration cfg, breadth first, merging histories that lead to
// the same full state (real object dump + model).
func c09BFS(r *vrt.Run, expired *atomic.Bool, cfg c09Cfg, depth, nAlpha int) {
	seen := map[[20]byte]struct{}{}
	frontier := [][]uint8{{}}
	cfgID := fmt.Sprintf("%+v\n", cfg)
	for d := 1; d <= depth && len(frontier) > 0; d++ {
		var next [][]uint8
		for _, h := range frontier {
			if expired.Load() {
				r.Note("backoff BFS stopped by internal deadline at depth %d", d)

				return
			}
			for ei := 0; ei < nAlpha; ei++ {
				if c09IsStep(ei) {
					// A leading time step changes nothing; a trailing step
					// is observed by nothing.
					if c09Alphabet[ei].Adv != "" && d == 1 {
						continue
					}
					if d == depth {
						continue
					}
				}
				events := make([]int, 0, d)
				for _, x := range h {
					events = append(events, int(x))
				}
				events = append(events, ei)
				c := c09BkCase{Cfg: cfg, Events: events}
				r.Eval()
				fs, outcomes, digest := c09RunBackoff(r, c, true)
				c.Trace = c09Trace(events)
				r.Sample(c)
				if len(fs) > 0 {
					r.Report("backoff", c, fs)

					continue
				}
				_ = outcomes
				k := sha256.Sum256([]byte(digest))
				var k20 [20]byte
				copy(k20[:], k[:20])
				if _, ok := seen[k20]; ok {
					r.Count("backoff_histories_merged", 1)

					continue
				}
				seen[k20] = struct{}{}
				r.State(cfgID + digest)
				if d < depth {
					nh := make([]uint8, d)
					copy(nh, h)
					nh[d-1] = uint8(ei)
					next = append(next, nh)
				}
			}
		}
		frontier = next
	}
}

// c09IsoAlphabet are the events (indices into c09Alphabet) of the isolation
// differential.
var c09IsoAlphabet = []int{0, 1, 4, 7, 2, 15, 3, 10, 5, 6, 17}

// c09RunIso checks that the outcomes of the queries of A1's subnet are the
// same with and without the events of the other subnets.
func c09RunIso(r *vrt.Run, c c09BkCase) (fs []vrt.Finding) {
	m := c09NewModel(c.Cfg)
	group, _, _ := m.SubnetKey(c09Clients["A1"])
	var proj []int
	var inGroup []bool
	others := 0
	members := 0
	for _, ei := range c.Events {
		e := c09Alphabet[ei]
		if e.Client == "" {
			proj = append(proj, ei)

			continue
		}
		k, _, _ := m.SubnetKey(c09Clients[e.Client])
		inGroup = append(inGroup, k == group)
		if k == group {
			proj = append(proj, ei)
			members++
		} else {
			others++
		}
	}
	if others == 0 || members == 0 {
		r.Class("isolation/nothing-to-compare")

		return nil
	}
	fs, full, _ := c09RunBackoff(r, c, false)
	if len(fs) > 0 {
		// Reported by the backoff part; the differential needs a clean run.
		return nil
	}
	fs, solo, _ := c09RunBackoff(r, c09BkCase{Cfg: c.Cfg, Events: proj}, false)
	if len(fs) > 0 {
		return nil
	}
	var mine []byte
	for i, g := range inGroup {
		if g {
			mine = append(mine, full[i])
		}
	}
	r.State("iso " + fmt.Sprint(c.Cfg) + string(mine))
	r.Class("isolation/compared/" + string(mine[len(mine)-1:]))
	if string(mine) != string(solo) {
		return vrt.F("isolation/outcome-depends-on-other-subnets",
			"cfg %+v: outcomes of subnet %s are %q in history [%s] but %q in the same history without the other subnets' events [%s]",
			c.Cfg, group, mine, c09Trace(c.Events), solo, c09Trace(proj))
	}

	return nil
}

func TestVerifC09Backoff(t *testing.T) {
	r := vrt.Start("C09")
	depth := vrt.Pick(r, 5, 6)
	deepDepth := vrt.Pick(r, 5, 7)
	nAlpha := vrt.Pick(r, c09QuickAlpha, len(c09Alphabet))
	isoDepth := vrt.Pick(r, 4, 5)
	cfgs := c09Configs([]uint{1, 2, 3})
	r.Bound("backoff_depth", depth)
	r.Bound("backoff_depth_for_the_16_configs_with_key_lengths_24/48_or_32/128_and_count<=2", deepDepth)
	r.Bound("backoff_alphabet", nAlpha)
	r.Bound("backoff_configs", len(cfgs))
	r.Bound("isolation_depth", isoDepth)

	// The internal deadline is a wall-clock matter; inside the bubble the
	// clock is virtual, so it is watched from outside.
	expired := &atomic.Bool{}
	go func() {
		for !r.Expired() {
			time.Sleep(time.Second)
		}
		expired.Store(true)
	}()

	synctest.Test(t, func(t *testing.T) {
		var c c09BkCase
		switch {
		case r.ReplayCase("backoff", &c):
			r.Eval()
			fs, _, _ := c09RunBackoff(r, c, true)
			r.Report("backoff", c, fs)
		case r.ShouldRun():
			for _, cfg := range cfgs {
				if r.Mine() {
					if cfg.deep() {
						c09BFS(r, expired, cfg, deepDepth, nAlpha)
					} else {
						c09BFS(r, expired, cfg, depth, nAlpha)
					}
				}
			}
		}
		vrt.Part(r, "isolation", func(emit func(c09BkCase)) {
			for _, cfg := range cfgs {
				if !cfg.Refuse || cfg.N4 == 3 {
					continue
				}
				vrt.Sequences(len(c09IsoAlphabet), 2, isoDepth, func(seq []int) {
					last := c09IsoAlphabet[seq[len(seq)-1]]
					if c09IsStep(last) || c09IsStep(c09IsoAlphabet[seq[0]]) {
						return
					}
					events := make([]int, len(seq))
					for i, x := range seq {
						events[i] = c09IsoAlphabet[x]
					}
					emit(c09BkCase{Cfg: cfg, Events: events})
				})
			}
		}, func(c c09BkCase) []vrt.Finding {
			if expired.Load() {
				return nil
			}

			return c09RunIso(r, c)
		})
		c09ExpiryPart(r, expired)
		c09HitsPart(r, expired)
		c09ExitPart(r, expired)
	})
	r.Finish()
	os.Exit(0)
}
