//go:build verif

package ratelimit

import (
	"fmt"
	"os"
	"testing"
	"time"

	"github.com/AdguardTeam/AdGuardDNS/internal/dnsserver/zzverif/c09ref"
	"github.com/AdguardTeam/AdGuardDNS/internal/dnsserver/zzverif/vrt"
)

// Seam (a): RequestCounter.Add against a sliding-window LOG.
//
// Every sequence of gaps over {0, 1ns, ivl/2, ivl-1ns, ivl, ivl+1ns, 2*ivl} up
// to the stated length is fed, with explicit timestamps, to a fresh real
// RequestCounter; after every Add the result must equal the reference: the
// event is above the limit iff the n-th previous event exists and is at most
// one interval old (every call counts).

// c09Base is the timestamp of the first event of every sequence (2000-01-01
// UTC, the origin of the testing/synctest clock), in Unix nanoseconds.
const c09Base int64 = 946684800_000000000

// c09Gaps returns the gap alphabet for an interval.
func c09Gaps(ivl int64) (gaps []int64) {
	return []int64{0, 1, ivl / 2, ivl - 1, ivl, ivl + 1, 2 * ivl}
}

var c09GapNames = []string{"0", "1ns", "ivl/2", "ivl-1ns", "ivl", "ivl+1ns", "2ivl"}

// c09CntCase is a block of sequences: all sequences of exactly Len events
// (Len-1 gaps; the gap before the first event is fixed to 0) that start with
// Prefix.  (Checking every position of every sequence of length Len
// covers all shorter sequences, because the check is prefix-closed.)
type c09CntCase struct {
	N      uint  `json:"n"`
	IvlNs  int64 `json:"ivl_ns"`
	Len    int   `json:"len"`
	Prefix []int `json:"prefix"`
}

// c09CntSeen de-duplicates observation vectors before they are handed to
// vrt.State (which hashes).
var c09CntSeen = map[uint64]struct{}{}

func c09RunCounterSeq(r *vrt.Run, c c09CntCase, gaps []int64, seq []int) (fs []vrt.Finding) {
	rc := NewRequestCounter(c.N, time.Duration(c.IvlNs))
	var ref c09ref.Window
	now := c09Base
	var bits uint64
	for i, gi := range seq {
		if i > 0 {
			now += gaps[gi]
		}
		got := rc.Add(time.Unix(0, now))
		want := ref.Above(now, int(c.N), c.IvlNs)
		ref.Add(now)
		if got {
			bits |= 1 << uint(i)
		}
		if got == want {
			continue
		}
		key := "counter/passed-late"
		if got {
			key = "counter/dropped-early"
		}
		if n := int(c.N); n > 0 && len(ref.Log) > n && now-ref.Log[len(ref.Log)-1-n] == c.IvlNs {
			key += "-at-exact-interval"
		}
		names := make([]string, 0, i+1)
		for _, g := range seq[1 : i+1] {
			names = append(names, c09GapNames[g])
		}

		return vrt.F(key,
			"RequestCounter(n=%d, ivl=%s): event %d of the sequence with gaps %v: Add reported above=%v, "+
				"the sliding-window log says %v (events so far, ns after the first: %s; real ring: %s)",
			c.N, time.Duration(c.IvlNs), i+1, names, got, want, c09RelLog(ref.Log),
			VerifDumpCounter(rc, time.Unix(0, now)))
	}
	k := bits | uint64(len(seq))<<32 | uint64(c.N)<<40 | uint64(c.IvlNs%251)<<48
	if _, ok := c09CntSeen[k]; !ok {
		c09CntSeen[k] = struct{}{}
		r.State(fmt.Sprintf("cnt %d %d %x", c.N, c.IvlNs, bits))
		if bits == 0 {
			r.Class("counter/never-above")
		} else if bits&1 != 0 {
			r.Class("counter/first-event-above")
		} else {
			r.Class("counter/some-above")
		}
	}

	return nil
}

func c09RelLog(log []int64) (s string) {
	for _, t := range log {
		s += fmt.Sprintf("%d ", t-c09Base)
	}

	return s
}

func c09RunCounterCase(r *vrt.Run, c c09CntCase) (fs []vrt.Finding) {
	gaps := c09Gaps(c.IvlNs)
	seq := make([]int, c.Len)
	copy(seq, c.Prefix)
	free := c.Len - len(c.Prefix)
	// The gap before the first event is meaningless: fix it to 0.
	first := true
	vrt.Sequences(len(gaps), free, free, func(suffix []int) {
		if len(fs) > 0 {
			return
		}
		copy(seq[len(c.Prefix):], suffix)
		if seq[0] != 0 {
			return
		}
		if !first {
			r.Eval()
		}
		first = false
		r.Trans(c.Len)
		fs = c09RunCounterSeq(r, c, gaps, seq)
	})

	return fs
}

func TestVerifC09Counter(t *testing.T) {
	r := vrt.Start("C09")
	// (interval, gaps per sequence) pairs.
	type ivlLen struct {
		ivl  int64
		gaps int
	}
	plans := vrt.Pick(r,
		[]ivlLen{{int64(time.Second), 7}},
		[]ivlLen{{int64(time.Second), 10}, {7, 8}},
	)
	for _, p := range plans {
		r.Bound(fmt.Sprintf("counter_gaps_per_sequence_ivl_%s", time.Duration(p.ivl)), p.gaps)
	}
	r.Bound("counter_n", "0..3")
	r.Bound("counter_gap_alphabet", c09GapNames)
	plen := 4
	vrt.Part(r, "counter", func(emit func(c09CntCase)) {
		for _, p := range plans {
			for n := uint(0); n <= 3; n++ {
				vrt.Sequences(len(c09GapNames), plen-1, plen-1, func(pre []int) {
					emit(c09CntCase{N: n, IvlNs: p.ivl, Len: p.gaps + 1, Prefix: append([]int{0}, pre...)})
				})
			}
		}
	}, func(c c09CntCase) []vrt.Finding { return c09RunCounterCase(r, c) })
	r.Finish()
	os.Exit(0)
}
