//go:build verif

// Package c09ref is the reference model of property C09, written from the
// property statement only (no repository code is used):
//
//   - a query of a client outside the allowlist is dropped exactly when its
//     subnet (address masked to the configured IPv4/IPv6 key length) has
//     already had the configured number of countable events within the
//     configured interval (sliding-window LOG: event i is above the limit iff
//     event i-n exists and t(i) - t(i-n) <= interval; every event counts), or
//     has exceeded the limit often enough to be in backoff;
//   - large responses count as several events;
//   - ANY queries are dropped for everyone when refusal is configured;
//   - allowlisted clients are otherwise never dropped.
//
// Where the statement is silent the model is INDIFFERENT: it keeps a set of
// candidate states, one per admissible reading, and a real outcome is accepted
// when at least one candidate predicts it.  The readings left open are:
//
//   - whether a refused ANY query of a non-allowlisted client is itself a
//     countable event;
//   - whether a response whose size is an exact multiple k of the estimate
//     counts as k or as k+1 events in total (otherwise the total is
//     floor(size/estimate)+1 == ceil(size/estimate));
//   - whether the additional events of a large response that lie above the
//     limit count as "exceeding the limit" for the purpose of backoff.
//
// Events of a subnet that is in backoff are not recorded: nothing leaves
// backoff inside the explored horizon except the long quiet gap, which resets
// everything (see [Model.Quiet]).
package c09ref

import (
	"fmt"
	"net/netip"
	"sort"
	"strconv"
	"strings"
)

// Config is the configuration of the reference limiter.
type Config struct {
	N4, N6       int   // events allowed per interval
	Ivl4, Ivl6   int64 // interval, ns
	Len4, Len6   int   // subnet key lengths
	BackoffCount int   // over-limit events needed to enter backoff
	Est          int   // response size estimate, bytes
	RefuseANY    bool
}

// Window is a plain sliding-window log.
type Window struct {
	Log []int64
}

// Above reports whether an event at time now is above a limit of n events per
// ivl: the n-th previous event exists and is at most ivl old.
func (w *Window) Above(now int64, n int, ivl int64) (above bool) {
	if n == 0 {
		return true
	}
	if len(w.Log) < n {
		return false
	}

	return now-w.Log[len(w.Log)-n] <= ivl
}

// Add records an event.
func (w *Window) Add(now int64) { w.Log = append(w.Log, now) }

// sub is the state of one subnet.
type sub struct {
	w    Window
	hits int
}

// cand is one candidate state.
type cand struct {
	subs map[string]*sub
}

func (c *cand) clone() (d *cand) {
	d = &cand{subs: make(map[string]*sub, len(c.subs))}
	for k, s := range c.subs {
		d.subs[k] = &sub{w: Window{Log: append([]int64(nil), s.w.Log...)}, hits: s.hits}
	}

	return d
}

func (c *cand) sub(key string) (s *sub) {
	s = c.subs[key]
	if s == nil {
		s = &sub{}
		c.subs[key] = s
	}

	return s
}

func (c *cand) key(now int64) (k string) {
	keys := make([]string, 0, len(c.subs))
	for k := range c.subs {
		keys = append(keys, k)
	}
	sort.Strings(keys)
	b := make([]byte, 0, 128)
	for _, k := range keys {
		s := c.subs[k]
		b = append(b, k...)
		b = append(b, " h="...)
		b = strconv.AppendInt(b, int64(s.hits), 10)
		b = append(b, " ["...)
		for _, t := range s.w.Log {
			b = strconv.AppendInt(b, t-now, 10)
			b = append(b, ' ')
		}
		b = append(b, "];"...)
	}

	return string(b)
}

// Verdict is the set of outcomes the statement admits for a query.
type Verdict struct {
	MayDrop bool
	MayPass bool

	// Why is the reason of the first candidate: "any-refused", "allowlisted",
	// "in-backoff", "window-full" or "below-limit".
	Why string
}

// pending is the query between [Model.Query] and [Model.Observe].
type pending struct {
	key         string
	now         int64
	n           int
	ivl         int64
	anyRefused  bool
	allowlisted bool
}

// Model is the reference limiter.
type Model struct {
	Cfg   Config
	cands []*cand
	pend  *pending
	keys  map[netip.Addr]string
}

// New returns a new model.
func New(cfg Config) (m *Model) {
	return &Model{Cfg: cfg, cands: []*cand{{subs: map[string]*sub{}}}}
}

// SubnetKey returns the subnet of ip: the address masked to the key length
// of its family.
func (m *Model) SubnetKey(ip netip.Addr) (key string, n int, ivl int64) {
	bits, n, ivl := m.Cfg.Len6, m.Cfg.N6, m.Cfg.Ivl6
	if ip.Is4() {
		bits, n, ivl = m.Cfg.Len4, m.Cfg.N4, m.Cfg.Ivl4
	}
	if key, ok := m.keys[ip]; ok {
		return key, n, ivl
	}
	raw := ip.AsSlice()
	for i := range raw {
		keep := bits - 8*i
		switch {
		case keep >= 8:
		case keep <= 0:
			raw[i] = 0
		default:
			raw[i] &= byte(0xff << (8 - keep))
		}
	}
	masked, _ := netip.AddrFromSlice(raw)
	key = fmt.Sprintf("%s/%d", masked, bits)
	if m.keys == nil {
		m.keys = map[netip.Addr]string{}
	}
	m.keys[ip] = key

	return key, n, ivl
}

func (m *Model) predict(c *cand, p *pending) (drop bool, why string) {
	s := c.sub(p.key)
	if s.hits >= m.Cfg.BackoffCount {
		return true, "in-backoff"
	}
	if s.w.Above(p.now, p.n, p.ivl) {
		return true, "window-full"
	}

	return false, "below-limit"
}

// Query returns the outcomes admitted for a query from ip at time now.
func (m *Model) Query(now int64, ip netip.Addr, isANY, allowlisted bool) (v Verdict) {
	key, n, ivl := m.SubnetKey(ip)
	p := &pending{key: key, now: now, n: n, ivl: ivl, allowlisted: allowlisted}
	m.pend = p
	if isANY && m.Cfg.RefuseANY {
		p.anyRefused = true

		return Verdict{MayDrop: true, Why: "any-refused"}
	}
	if allowlisted {
		return Verdict{MayPass: true, Why: "allowlisted"}
	}
	for i, c := range m.cands {
		drop, why := m.predict(c, p)
		if i == 0 {
			v.Why = why
		}
		if drop {
			v.MayDrop = true
		} else {
			v.MayPass = true
		}
	}

	return v
}

// event records one countable event in s; it reports whether the event was
// above the limit.
func (m *Model) event(s *sub, p *pending, countHit bool) {
	if s.hits >= m.Cfg.BackoffCount {
		return
	}
	above := s.w.Above(p.now, p.n, p.ivl)
	s.w.Add(p.now)
	if above && countHit {
		s.hits++
	}
}

// Observe commits the real outcome of the pending query.  respSize is the
// size of the response produced for a query that was not dropped (0: none).
func (m *Model) Observe(dropped bool, respSize int) {
	p := m.pend
	m.pend = nil
	var next []*cand
	switch {
	case p.anyRefused:
		if p.allowlisted {
			return
		}
		// Open: the refused query may or may not be a countable event.
		for _, c := range m.cands {
			next = append(next, c)
			d := c.clone()
			m.event(d.sub(p.key), p, true)
			next = append(next, d)
		}
	case p.allowlisted:
		// Allowlisted clients are excluded from limiting: no event.
		return
	default:
		for _, c := range m.cands {
			drop, _ := m.predict(c, p)
			if drop != dropped {
				continue
			}
			m.event(c.sub(p.key), p, true)
			if dropped || respSize <= 0 || m.Cfg.Est <= 0 {
				next = append(next, c)

				continue
			}
			k := respSize / m.Cfg.Est
			extras := []int{k}
			if k >= 1 && respSize%m.Cfg.Est == 0 {
				extras = []int{k - 1, k}
			}
			for _, x := range extras {
				if x == 0 {
					next = append(next, c.clone())

					continue
				}
				for _, hit := range []bool{true, false} {
					d := c.clone()
					for range x {
						m.event(d.sub(p.key), p, hit)
					}
					next = append(next, d)
				}
			}
		}
		if len(next) == 0 {
			// The outcome was not admitted; the caller reports it.  Go on
			// with the candidates as they are so that the model stays usable.
			for _, c := range m.cands {
				m.event(c.sub(p.key), p, true)
			}

			return
		}
	}
	m.cands = dedupe(next, p.now)
}

func dedupe(cs []*cand, now int64) (out []*cand) {
	if len(cs) <= 1 {
		return cs
	}
	seen := map[string]struct{}{}
	for _, c := range cs {
		k := c.key(now)
		if _, ok := seen[k]; ok {
			continue
		}
		seen[k] = struct{}{}
		out = append(out, c)
	}

	return out
}

// Quiet models a quiet gap longer than the interval, the backoff period and
// the backoff duration together: every window has slid past all events, every
// over-limit count is older than the backoff period and every backoff has
// lasted longer than the backoff duration, so all subnets are as new.
func (m *Model) Quiet() {
	m.cands = []*cand{{subs: map[string]*sub{}}}
}

// Key returns the canonical form of the model state, times relative to now.
func (m *Model) Key(now int64) (k string) {
	ks := make([]string, 0, len(m.cands))
	for _, c := range m.cands {
		ks = append(ks, c.key(now))
	}
	sort.Strings(ks)

	return strings.Join(ks, "|")
}

// Candidates returns the number of candidate states.
func (m *Model) Candidates() (n int) { return len(m.cands) }
