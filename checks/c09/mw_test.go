//go:build verif

package ratelimitmw

import (
	"context"
	"crypto/sha256"
	"fmt"
	"net"
	"net/netip"
	"os"
	"sync/atomic"
	"testing"
	"testing/synctest"
	"time"

	"github.com/AdguardTeam/AdGuardDNS/internal/agd"
	"github.com/AdguardTeam/AdGuardDNS/internal/dnsserver"
	"github.com/AdguardTeam/AdGuardDNS/internal/dnsserver/ratelimit"
	"github.com/AdguardTeam/AdGuardDNS/internal/dnsserver/zzverif/c09ref"
	"github.com/AdguardTeam/AdGuardDNS/internal/dnsserver/zzverif/vrt"
	"github.com/AdguardTeam/golibs/logutil/slogutil"
	"github.com/c2h5oh/datasize"
	"github.com/miekg/dns"
)

// Seams (c) and (d): the real Middleware.serveWithRatelimiting with a real
// ratelimit.Backoff as the global limiter, real agd.DefaultRatelimiter /
// agd.GlobalRatelimiter instances in the profiles, a recording next handler
// and a recording response writer, under the virtual clock.

const (
	mwEst  = 64
	mwIvl  = time.Second
	mwLong = 200 * time.Second
)

// mwClient is a plain-DNS client: its address and the profile its device
// belongs to ("" for an anonymous client).
type mwClient struct {
	IP   netip.Addr
	Prof string
}

// mwClients: G1, Q, Z and W share the global /24 subnet 10.0.0.0/24.  Q is a
// device of profile X outside X's client subnets, Z a device of a profile
// without a custom limit, W is allowlisted.  P1 and P2 are devices of profile
// X inside its client subnet 10.9.0.0/24.  R is a device of profile Y, which
// has a custom limit and no client subnets (= all clients).
var mwClients = map[string]mwClient{
	"G1": {IP: netip.MustParseAddr("10.0.0.1")},
	"Q":  {IP: netip.MustParseAddr("10.0.0.2"), Prof: "X"},
	"Z":  {IP: netip.MustParseAddr("10.0.0.3"), Prof: "Z"},
	"W":  {IP: netip.MustParseAddr("10.0.0.77")},
	"P1": {IP: netip.MustParseAddr("10.9.0.5"), Prof: "X"},
	"P2": {IP: netip.MustParseAddr("10.9.0.6"), Prof: "X"},
	"R":  {IP: netip.MustParseAddr("10.7.0.5"), Prof: "Y"},
}

var (
	mwAllow    = []netip.Prefix{netip.MustParsePrefix("10.0.0.64/26")}
	mwXSubnets = []netip.Prefix{netip.MustParsePrefix("10.9.0.0/24")}
)

// mwEv is one event.
type mwEv struct {
	Client string `json:"client,omitempty"`
	QType  uint16 `json:"qtype,omitempty"`

	// Size is the size of the response written by the next handler; 0 means
	// that the next handler writes nothing.
	Size int `json:"resp_size,omitempty"`

	// Adv is a time step: "ivl/2", "ivl", "ivl+1ns" or "long".
	Adv string `json:"advance,omitempty"`

	// TCP makes the client's connection a plain-DNS TCP one instead of UDP.
	TCP bool `json:"tcp,omitempty"`
}

func (e mwEv) String() (s string) {
	if e.Adv != "" {
		return "+" + e.Adv
	}

	if e.TCP {
		return fmt.Sprintf("%s/%s/%d/tcp", e.Client, dns.Type(e.QType), e.Size)
	}

	return fmt.Sprintf("%s/%s/%d", e.Client, dns.Type(e.QType), e.Size)
}

// mwAlphabet is the event alphabet, simplest first; the quick tier uses the
// first mwQuickAlpha events.
var mwAlphabet = []mwEv{
	{Client: "G1", QType: dns.TypeA, Size: mwEst - 1},
	{Client: "P1", QType: dns.TypeA, Size: mwEst - 1},
	{Adv: "ivl+1ns"},
	{Client: "P2", QType: dns.TypeA, Size: mwEst - 1},
	{Client: "Q", QType: dns.TypeA, Size: mwEst - 1},
	{Adv: "ivl/2"},
	{Client: "R", QType: dns.TypeA, Size: mwEst - 1},
	{Client: "P1", QType: dns.TypeA, Size: 3*mwEst + 1},
	{Client: "Z", QType: dns.TypeA, Size: mwEst - 1},
	{Client: "W", QType: dns.TypeA, Size: mwEst - 1},
	{Client: "P1", QType: dns.TypeANY, Size: mwEst - 1},
	{Client: "G1", QType: dns.TypeA, Size: 3*mwEst + 1},
	{Adv: "ivl"},
	{Client: "G1", QType: dns.TypeANY, Size: mwEst - 1},
	{Client: "G1", QType: dns.TypeA},
	{Client: "P1", QType: dns.TypeA},
	// Thorough tier only.
	{Adv: "long"},
	{Client: "W", QType: dns.TypeANY, Size: mwEst - 1},
}

const mwQuickAlpha = 16

// mwCfg is one configuration.
type mwCfg struct {
	N4     uint   `json:"global_ipv4_count"`
	RPS    uint32 `json:"profile_rps"`
	BC     uint   `json:"backoff_count"`
	Refuse bool   `json:"refuse_any"`
}

func mwConfigs(thorough bool) (cfgs []mwCfg) {
	pairs := [][2]uint{{1, 2}, {2, 1}}
	if thorough {
		pairs = append(pairs, [2]uint{2, 2}, [2]uint{1, 3})
	}
	for _, n := range pairs {
		for _, bc := range []uint{1, 2} {
			for _, refuse := range []bool{true, false} {
				cfgs = append(cfgs, mwCfg{N4: n[0], RPS: uint32(n[1]), BC: bc, Refuse: refuse})
			}
		}
	}

	return cfgs
}

// mwCase is one history on one configuration.
type mwCase struct {
	Cfg    mwCfg  `json:"cfg"`
	Events []int  `json:"events"`
	Trace  string `json:"trace,omitempty"`
}

func mwTrace(events []int) (s string) { return mwTraceOn(mwAlphabet, events) }

func mwTraceOn(alphabet []mwEv, events []int) (s string) {
	for i, ei := range events {
		if i > 0 {
			s += " "
		}
		s += alphabet[ei].String()
	}

	return s
}

// mwNext is the recording next handler.
type mwNext struct {
	calls int
	size  int
	wrote *dns.Msg

	// build, if not nil, builds the response of the given size.
	build func(req *dns.Msg, size int) (resp *dns.Msg)
}

func (n *mwNext) ServeDNS(ctx context.Context, rw dnsserver.ResponseWriter, req *dns.Msg) (err error) {
	n.calls++
	if n.size == 0 {
		return nil
	}
	if n.build != nil {
		n.wrote = n.build(req, n.size)
	} else {
		n.wrote = c09ref.Resp(req, n.size)
	}

	return rw.WriteMsg(ctx, req, n.wrote)
}

// mwRW is the recording response writer of the client connection.
type mwRW struct {
	local, remote net.Addr
	writes        []*dns.Msg
}

func (w *mwRW) LocalAddr() net.Addr  { return w.local }
func (w *mwRW) RemoteAddr() net.Addr { return w.remote }
func (w *mwRW) WriteMsg(_ context.Context, _, resp *dns.Msg) (err error) {
	w.writes = append(w.writes, resp)

	return nil
}

// mwWorld is the real system under test plus the reference.
type mwWorld struct {
	cfg     mwCfg
	mw      *Middleware
	backoff *ratelimit.Backoff
	profs   map[string]*agd.Profile
	dev     *agd.Device

	global *c09ref.Model
	win    map[string]*c09ref.Window
}

func mwNewWorld(cfg mwCfg) (w *mwWorld) { return mwNewWorldEst(cfg, mwEst) }

// mwNewWorldEst is mwNewWorld with the response size estimate est.
func mwNewWorldEst(cfg mwCfg, est int) (w *mwWorld) {
	w = &mwWorld{cfg: cfg}
	w.backoff = ratelimit.NewBackoff(&ratelimit.BackoffConfig{
		Allowlist:            ratelimit.NewDynamicAllowlist(mwAllow, nil),
		Period:               30 * time.Second,
		Duration:             60 * time.Second,
		Count:                cfg.BC,
		ResponseSizeEstimate: datasize.ByteSize(est) * datasize.B,
		IPv4Count:            cfg.N4,
		IPv4Interval:         mwIvl,
		IPv4SubnetKeyLen:     24,
		IPv6Count:            cfg.N4,
		IPv6Interval:         mwIvl,
		IPv6SubnetKeyLen:     48,
		RefuseANY:            cfg.Refuse,
	})
	w.mw = &Middleware{
		logger:  slogutil.NewDiscardLogger(),
		limiter: w.backoff,
		metrics: EmptyMetrics{},
		protos:  []dnsserver.Protocol{agd.ProtoDNS},
	}
	w.profs = map[string]*agd.Profile{
		"X": {ID: "profx", Ratelimiter: agd.NewDefaultRatelimiter(&agd.RatelimitConfig{
			ClientSubnets: mwXSubnets, RPS: cfg.RPS, Enabled: true,
		}, datasize.ByteSize(est)*datasize.B)},
		"Y": {ID: "profy", Ratelimiter: agd.NewDefaultRatelimiter(&agd.RatelimitConfig{
			RPS: cfg.RPS, Enabled: true,
		}, datasize.ByteSize(est)*datasize.B)},
		"Z": {ID: "profz", Ratelimiter: agd.GlobalRatelimiter{}},
	}
	w.dev = &agd.Device{ID: "dev1"}
	w.global = c09ref.New(c09ref.Config{
		N4: int(cfg.N4), N6: int(cfg.N4), Ivl4: int64(mwIvl), Ivl6: int64(mwIvl), Len4: 24, Len6: 48,
		BackoffCount: int(cfg.BC), Est: est, RefuseANY: cfg.Refuse,
	})
	w.win = map[string]*c09ref.Window{"X": {}, "Y": {}}

	return w
}

// mwOwnLimit reports, from the statement, whether the profile's own limit
// applies to c: the profile has one and c's address is in its configured client
// subnets (no configured subnets: all clients, as documented on
// agd.RatelimitConfig).
func mwOwnLimit(c mwClient) (ok bool) {
	switch c.Prof {
	case "X":
		for _, p := range mwXSubnets {
			if p.Contains(c.IP) {
				return true
			}
		}
	case "Y":
		return true
	}

	return false
}

func (w *mwWorld) digest(now time.Time) (s string) {
	nowNs := now.UnixNano()
	s = fmt.Sprintf("%s\nX %s\nY %s\n#%s", ratelimit.VerifDump(w.backoff, now),
		ratelimit.VerifDumpCounter(agd.VerifCounter(w.profs["X"].Ratelimiter.(*agd.DefaultRatelimiter)), now),
		ratelimit.VerifDumpCounter(agd.VerifCounter(w.profs["Y"].Ratelimiter.(*agd.DefaultRatelimiter)), now),
		w.global.Key(nowNs))
	for _, p := range []string{"X", "Y"} {
		s += "\n#" + p
		for _, t := range w.win[p].Log {
			s += fmt.Sprint(" ", t-nowNs)
		}
	}

	return s
}

var mwT0 = time.Date(2000, 1, 1, 0, 0, 0, 0, time.UTC)

// mwRun runs one history.
func mwRun(r *vrt.Run, c mwCase) (fs []vrt.Finding, digest string) {
	return mwRunOn(r, c, mwAlphabet)
}

// mwRunOn runs one history whose events index alphabet.
func mwRunOn(r *vrt.Run, c mwCase, alphabet []mwEv) (fs []vrt.Finding, digest string) {
	w := mwNewWorld(c.Cfg)
	defer ratelimit.VerifStop(w.backoff)
	ctx := context.Background()
	for step, ei := range c.Events {
		e := alphabet[ei]
		switch e.Adv {
		case "":
		case "long":
			time.Sleep(mwLong)
			w.global.Quiet()
			w.win = map[string]*c09ref.Window{"X": {}, "Y": {}}

			continue
		case "ivl/2":
			time.Sleep(mwIvl / 2)

			continue
		case "ivl":
			time.Sleep(mwIvl)

			continue
		case "ivl+1ns":
			time.Sleep(mwIvl + 1)

			continue
		default:
			vrt.Fatalf("bad advance %q", e.Adv)
		}
		cl := mwClients[e.Client]
		now := time.Now()
		nowNs := now.UnixNano()
		isANY := e.QType == dns.TypeANY
		own := mwOwnLimit(cl)

		// Reference verdict.
		allow := false
		var v c09ref.Verdict
		which := "global"
		switch {
		case own && isANY && c.Cfg.Refuse:
			which = "profile"
			v = c09ref.Verdict{MayDrop: true, Why: "any-refused"}
		case own:
			which = "profile"
			if w.win[cl.Prof].Above(nowNs, int(c.Cfg.RPS), int64(time.Second)) {
				v = c09ref.Verdict{MayDrop: true, Why: "window-full"}
			} else {
				v = c09ref.Verdict{MayPass: true, Why: "below-limit"}
			}
		default:
			for _, p := range mwAllow {
				allow = allow || p.Contains(cl.IP)
			}
			v = w.global.Query(nowNs, cl.IP, isANY, allow)
		}

		// Real code.
		req := c09ref.Req(uint16(step+1), e.QType)
		ri := &agd.RequestInfo{RemoteIP: cl.IP, Proto: agd.ProtoDNS}
		if cl.Prof != "" {
			ri.DeviceResult = &agd.DeviceResultOK{Device: w.dev, Profile: w.profs[cl.Prof]}
		}
		rw := &mwRW{
			local:  &net.UDPAddr{IP: net.IP{192, 0, 2, 53}, Port: 53},
			remote: &net.UDPAddr{IP: cl.IP.AsSlice(), Port: 33333},
		}
		if e.TCP {
			rw.local = &net.TCPAddr{IP: net.IP{192, 0, 2, 53}, Port: 53}
			rw.remote = &net.TCPAddr{IP: cl.IP.AsSlice(), Port: 33333}
		}
		next := &mwNext{size: e.Size}
		err := w.mw.serveWithRatelimiting(agd.ContextWithRequestInfo(ctx, ri), rw, req, ri, next)
		r.Trans(1)

		desc := func() string {
			return fmt.Sprintf("cfg %+v, history [%s]: step %d query %s (%s limit, reference reason %s) at virtual +%s: "+
				"next handler calls=%d, responses written to the client=%d, err=%v",
				c.Cfg, mwTraceOn(alphabet, c.Events), step, e, which, v.Why, now.Sub(mwT0), next.calls, len(rw.writes), err)
		}
		if err != nil {
			return vrt.F("mw/error", "%s", desc()), ""
		}
		dropped := next.calls == 0
		out := "pass"
		if dropped {
			out = "drop"
		}
		r.Class(which + "/" + v.Why + "/" + out)
		switch {
		case dropped && len(rw.writes) > 0:
			return vrt.F("mw/response-without-next-handler", "%s", desc()), ""
		case dropped && !v.MayDrop:
			key := "mw/dropped-early/" + which
			if v.Why == "allowlisted" {
				key = "mw/allowlisted-dropped"
			}

			return vrt.F(key, "%s; the statement admits only a pass\n   global state: %s", desc(),
				ratelimit.VerifDump(w.backoff, now)), ""
		case !dropped && !v.MayPass && len(rw.writes) > 0:
			key := "mw/passed-late/" + which + "/" + v.Why
			if v.Why == "any-refused" {
				key = "mw/any-not-refused/" + which + "-limited-client"
				if allow {
					key = "mw/any-not-refused/allowlisted-client"
				}
			}

			return vrt.F(key, "%s; the statement demands a drop without any response\n   global state: %s", desc(),
				ratelimit.VerifDump(w.backoff, now)), ""
		case !dropped && !v.MayPass:
			// The next handler ran although the query had to be dropped, but
			// nothing reached the client.  Not a violation of the statement
			// ("dropped without any response"), but the real limiter and the
			// reference may now disagree about what was counted: stop here.
			return nil, ""
		case !dropped && v.MayPass:
			if next.calls != 1 {
				return vrt.F("mw/next-handler-called-twice", "%s", desc()), ""
			}
			if e.Size > 0 && (len(rw.writes) != 1 || rw.writes[0].String() != next.wrote.String()) {
				return vrt.F("mw/response-not-forwarded", "%s; the response of the next handler must reach the client unchanged",
					desc()), ""
			}
			if e.Size == 0 && len(rw.writes) != 0 {
				return vrt.F("mw/response-invented", "%s", desc()), ""
			}
		}

		// Commit to the reference.
		if which == "profile" {
			win := w.win[cl.Prof]
			if v.Why == "any-refused" {
				// Dropped as demanded.  Whether a refused ANY query is a
				// countable event of the profile's window is open, so the
				// reference cannot follow this history any further.
				return nil, ""
			}
			win.Add(nowNs)
			if !dropped {
				for range e.Size / mwEst {
					win.Add(nowNs)
				}
			}
		} else {
			w.global.Observe(dropped, e.Size)
		}
	}

	return nil, w.digest(time.Now())
}

func mwIsStep(ei int) (ok bool) { return mwAlphabet[ei].Adv != "" }

// mwBFS explores all histories of at most depth events breadth first, merging
// histories that lead to the same full state (real objects + reference).
func mwBFS(r *vrt.Run, expired *atomic.Bool, cfg mwCfg, depth, nAlpha int) {
	seen := map[[20]byte]struct{}{}
	frontier := [][]uint8{{}}
	cfgID := fmt.Sprintf("%+v\n", cfg)
	for d := 1; d <= depth && len(frontier) > 0; d++ {
		var next [][]uint8
		for _, h := range frontier {
			if expired.Load() {
				r.Note("mw BFS stopped by internal deadline at depth %d", d)

				return
			}
			for ei := 0; ei < nAlpha; ei++ {
				if mwIsStep(ei) && (d == 1 || d == depth) {
					continue
				}
				events := make([]int, 0, d)
				for _, x := range h {
					events = append(events, int(x))
				}
				events = append(events, ei)
				c := mwCase{Cfg: cfg, Events: events}
				r.Eval()
				fs, digest := mwRun(r, c)
				c.Trace = mwTrace(events)
				r.Sample(c)
				if len(fs) > 0 {
					r.Report("mw", c, fs)

					continue
				}
				if digest == "" {
					// Real limiter and reference diverged invisibly (see
					// mwRun); do not extend.
					r.Count("mw_histories_not_extended", 1)

					continue
				}
				k := sha256.Sum256([]byte(digest))
				var k20 [20]byte
				copy(k20[:], k[:20])
				if _, ok := seen[k20]; ok {
					r.Count("mw_histories_merged", 1)

					continue
				}
				seen[k20] = struct{}{}
				r.State(cfgID + digest)
				if d < depth {
					nh := make([]uint8, d)
					copy(nh, h)
					nh[d-1] = uint8(ei)
					next = append(next, nh)
				}
			}
		}
		frontier = next
	}
}

func TestVerifC09MW(t *testing.T) {
	r := vrt.Start("C09")
	depth := vrt.Pick(r, 5, 7)
	nAlpha := vrt.Pick(r, mwQuickAlpha, len(mwAlphabet))
	cfgs := mwConfigs(r.Thorough())
	r.Bound("mw_depth", depth)
	r.Bound("mw_alphabet", nAlpha)
	r.Bound("mw_configs", len(cfgs))

	// The internal deadline is a wall-clock matter; inside the bubble the
	// clock is virtual, so it is watched from outside.
	expired := &atomic.Bool{}
	go func() {
		for !r.Expired() {
			time.Sleep(time.Second)
		}
		expired.Store(true)
	}()

	synctest.Test(t, func(t *testing.T) {
		var c mwCase
		switch {
		case r.ReplayCase("mw", &c):
			r.Eval()
			fs, _ := mwRun(r, c)
			r.Report("mw", c, fs)
		case r.ShouldRun():
			for _, cfg := range cfgs {
				if r.Mine() {
					mwBFS(r, expired, cfg, depth, nAlpha)
				}
			}
		}
		mwWriterPart(r, expired)
		mwANYPart(r, expired)
	})
	r.Finish()
	os.Exit(0)
}
