//go:build verif

package ratelimit

import (
	"context"
	"crypto/sha256"
	"fmt"
	"net/netip"
	"strconv"
	"sync/atomic"
	"time"

	"github.com/AdguardTeam/AdGuardDNS/internal/dnsserver/zzverif/c09ref"
	"github.com/AdguardTeam/AdGuardDNS/internal/dnsserver/zzverif/vrt"
	"github.com/c2h5oh/datasize"
	"github.com/miekg/dns"
)

// Part "expiry": histories that are LONGER than the backoff period.
//
// The other parts keep the backoff period and duration longer than every
// history (DESIGN.md §5 C09).  This part does the opposite for the period: it
// is as short as 1..3 intervals, so the go-cache entry that holds a subnet's
// RequestCounter expires in the middle of a busy history.  The oracle is the
// plain exact sliding-window log of the statement: a query is dropped iff its
// subnet already had `count` countable events within the interval.  Backoff is
// kept out of the picture (backoff count far above anything a history can
// reach, duration far longer than any history, no allowlist, no ANY), so no
// reading of backoff_period / backoff_duration matters for the verdicts.
//
// A late pass whose deciding event (the count-th previous event of the subnet)
// predates an observed re-creation of the subnet's counter entry is reported
// under the single key backoff/window-forgotten-on-counter-expiry; any other
// disagreement keeps the generic keys of the backoff part.

const c09ExpiryKey = "backoff/window-forgotten-on-counter-expiry"

// c09ExpCfg is a configuration of the expiry part.
type c09ExpCfg struct {
	N4       uint `json:"ipv4_count"`
	IvlMs    int  `json:"ipv4_interval_ms"`
	PeriodMs int  `json:"backoff_period_ms"`
	Len4     int  `json:"ipv4_subnet_key_len"`
}

// c09ExpEv is an event of the expiry part.
type c09ExpEv struct {
	Client string `json:"client,omitempty"`
	Size   int    `json:"resp_size,omitempty"`

	// Adv is "ivl/2", "ivl/2+1ns", "ivl" or "ivl+1ns".
	Adv string `json:"advance,omitempty"`
}

func (e c09ExpEv) String() (s string) {
	if e.Adv != "" {
		return "+" + e.Adv
	}

	return fmt.Sprintf("%s/A/%d", e.Client, e.Size)
}

// c09ExpAlphabet is the alphabet of the expiry part; the quick tier uses the
// first c09ExpQuickAlpha events.
var c09ExpAlphabet = []c09ExpEv{
	{Client: "A1", Size: c09Est - 1},
	{Adv: "ivl/2"},
	{Adv: "ivl/2+1ns"},
	{Adv: "ivl"},
	{Adv: "ivl+1ns"},
	{Client: "A2", Size: c09Est - 1},
	{Client: "B", Size: c09Est - 1},
	// Thorough tier only.
	{Client: "A1", Size: 3*c09Est + 1},
}

const c09ExpQuickAlpha = 7

func c09ExpConfigs(thorough bool) (cfgs []c09ExpCfg) {
	for _, n := range []uint{1, 2} {
		for _, p := range []int{1000, 3000} {
			cfgs = append(cfgs, c09ExpCfg{N4: n, IvlMs: 1000, PeriodMs: p, Len4: 24})
		}
	}
	if thorough {
		cfgs = append(cfgs,
			c09ExpCfg{N4: 1, IvlMs: 1000, PeriodMs: 2000, Len4: 24},
			c09ExpCfg{N4: 2, IvlMs: 1000, PeriodMs: 2000, Len4: 8},
			c09ExpCfg{N4: 3, IvlMs: 1000, PeriodMs: 1000, Len4: 24},
			c09ExpCfg{N4: 1, IvlMs: 1000, PeriodMs: 1000, Len4: 32},
		)
	}

	return cfgs
}

// c09ExpCase is one history of the expiry part.
type c09ExpCase struct {
	Cfg    c09ExpCfg `json:"cfg"`
	Events []int     `json:"events"`
	Trace  string    `json:"trace,omitempty"`
}

func c09ExpTrace(events []int) (s string) {
	for i, ei := range events {
		if i > 0 {
			s += " "
		}
		s += c09ExpAlphabet[ei].String()
	}

	return s
}

// c09RunExpiry runs one history of the expiry part.
func c09RunExpiry(r *vrt.Run, c c09ExpCase) (fs []vrt.Finding, digest string) {
	ivl := time.Duration(c.Cfg.IvlMs) * time.Millisecond
	l := NewBackoff(&BackoffConfig{
		Allowlist:            NewDynamicAllowlist(nil, nil),
		Period:               time.Duration(c.Cfg.PeriodMs) * time.Millisecond,
		Duration:             1000 * time.Second,
		Count:                1000,
		ResponseSizeEstimate: c09Est * datasize.B,
		IPv4Count:            c.Cfg.N4,
		IPv4Interval:         ivl,
		IPv4SubnetKeyLen:     c.Cfg.Len4,
		IPv6Count:            c.Cfg.N4,
		IPv6Interval:         ivl,
		IPv6SubnetKeyLen:     48,
	})
	defer VerifStop(l)
	m := c09ref.New(c09ref.Config{Len4: c.Cfg.Len4, Len6: 48})
	ctx := context.Background()
	n := int(c.Cfg.N4)
	wins := map[string]*c09ref.Window{}

	// recreated[subnet] is the time at which the real limiter was last seen
	// without a live counter entry for a subnet that has had events.  It is
	// used only to name the finding, never to decide one.
	recreated := map[string]int64{}
	for step, ei := range c.Events {
		e := c09ExpAlphabet[ei]
		switch e.Adv {
		case "":
		case "ivl/2":
			time.Sleep(ivl / 2)
		case "ivl/2+1ns":
			time.Sleep(ivl/2 + 1)
		case "ivl":
			time.Sleep(ivl)
		case "ivl+1ns":
			time.Sleep(ivl + 1)
		default:
			vrt.Fatalf("bad advance %q", e.Adv)
		}
		if e.Adv != "" {
			continue
		}
		ip := c09Clients[e.Client]
		sk, _, _ := m.SubnetKey(ip)
		w := wins[sk]
		if w == nil {
			w = &c09ref.Window{}
			wins[sk] = w
		}
		now := time.Now()
		nowNs := now.UnixNano()
		if _, live := l.reqCounters.Get(l.subnetKey(ip)); !live && len(w.Log) > 0 {
			recreated[sk] = nowNs
		}
		want := w.Above(nowNs, n, int64(ivl))
		req := c09ref.Req(uint16(step+1), dns.TypeA)
		drop, _, err := l.IsRateLimited(ctx, req, ip)
		r.Trans(1)
		if err != nil {
			return vrt.F("backoff/error", "step %d %s: IsRateLimited error: %v", step, e, err), ""
		}
		if !drop {
			l.CountResponses(ctx, c09ref.Resp(req, e.Size), ip)
			r.Trans(1)
		}
		forgotten := false
		if t, ok := recreated[sk]; ok && want && w.Log[len(w.Log)-n] < t {
			forgotten = true
		}
		switch {
		case drop && want:
			r.Class("expiry/window-full/drop")
		case !drop && !want:
			r.Class("expiry/below-limit/pass")
		case drop:
			r.Class("expiry/below-limit/drop")
		default:
			r.Class("expiry/window-full/pass")
		}
		if drop != want {
			key := "backoff/dropped-early"
			switch {
			case !drop && forgotten:
				key = c09ExpiryKey
			case !drop:
				key = "backoff/passed-late/window-full"
			}

			return vrt.F(key,
				"cfg %+v (backoff never reached), history [%s]: step %d query %s at +%s of the history: dropped=%v, but the "+
					"sliding-window log of subnet %s (limit %d per %s) says %v; events of the subnet (ns before now): %s; "+
					"counter entry of the subnet last seen missing (expired, backoff period %dms after its creation) at %s\n   real state: %s",
				c.Cfg, c09ExpTrace(c.Events), step, e, c09ExpElapsed(c, step), drop, sk, n, ivl, want,
				c09ExpRel(w.Log, nowNs), c.Cfg.PeriodMs, c09ExpRecreated(recreated, sk, nowNs), VerifDump(l, now)), ""
		}
		w.Add(nowNs)
		if !drop {
			for range e.Size / c09Est {
				w.Add(nowNs)
			}
		}
	}
	now := time.Now()
	nowNs := now.UnixNano()
	b := []byte(VerifDump(l, now))
	for _, sk := range []string{"A1", "B"} {
		k, _, _ := m.SubnetKey(c09Clients[sk])
		b = append(b, "\n#"...)
		b = append(b, k...)
		if w := wins[k]; w != nil {
			// Only the last n+1 events can matter to the log.
			log := w.Log
			if len(log) > n+1 {
				log = log[len(log)-n-1:]
			}
			for _, t := range log {
				b = append(b, ' ')
				b = strconv.AppendInt(b, t-nowNs, 10)
			}
		}
		if t, ok := recreated[k]; ok {
			b = append(b, " r="...)
			b = strconv.AppendInt(b, t-nowNs, 10)
		}
	}

	return nil, string(b)
}

func c09ExpRel(log []int64, now int64) (s string) {
	for _, t := range log {
		s += strconv.FormatInt(now-t, 10) + " "
	}

	return s
}

func c09ExpRecreated(rec map[string]int64, sk string, now int64) (s string) {
	t, ok := rec[sk]
	if !ok {
		return "never"
	}

	return fmt.Sprintf("%dns before now", now-t)
}

// c09ExpElapsed returns the virtual time elapsed in the history before step.
func c09ExpElapsed(c c09ExpCase, step int) (d time.Duration) {
	ivl := time.Duration(c.Cfg.IvlMs) * time.Millisecond
	for _, ei := range c.Events[:step] {
		switch c09ExpAlphabet[ei].Adv {
		case "ivl/2":
			d += ivl / 2
		case "ivl/2+1ns":
			d += ivl/2 + 1
		case "ivl":
			d += ivl
		case "ivl+1ns":
			d += ivl + 1
		}
	}

	return d
}

// c09ExpBFS explores all histories of at most depth events, breadth first,
// merging histories that lead to the same full state.
func c09ExpBFS(r *vrt.Run, expired *atomic.Bool, cfg c09ExpCfg, depth, nAlpha int) {
	seen := map[[20]byte]struct{}{}
	frontier := [][]uint8{{}}
	cfgID := fmt.Sprintf("exp %+v\n", cfg)
	for d := 1; d <= depth && len(frontier) > 0; d++ {
		var next [][]uint8
		for _, h := range frontier {
			if expired.Load() {
				r.Note("expiry BFS stopped by internal deadline at depth %d", d)

				return
			}
			for ei := 0; ei < nAlpha; ei++ {
				if c09ExpAlphabet[ei].Adv != "" && (d == 1 || d == depth) {
					continue
				}
				events := make([]int, 0, d)
				for _, x := range h {
					events = append(events, int(x))
				}
				events = append(events, ei)
				c := c09ExpCase{Cfg: cfg, Events: events}
				r.Eval()
				fs, digest := c09RunExpiry(r, c)
				c.Trace = c09ExpTrace(events)
				r.Sample(c)
				if len(fs) > 0 {
					r.Report("expiry", c, fs)

					continue
				}
				k := sha256.Sum256([]byte(digest))
				var k20 [20]byte
				copy(k20[:], k[:20])
				if _, ok := seen[k20]; ok {
					r.Count("expiry_histories_merged", 1)

					continue
				}
				seen[k20] = struct{}{}
				r.State(cfgID + digest)
				if d < depth {
					nh := make([]uint8, d)
					copy(nh, h)
					nh[d-1] = uint8(ei)
					next = append(next, nh)
				}
			}
		}
		frontier = next
	}
}

// c09ExpiryPart runs the expiry part (or replays one of its cases).  It must
// be called inside the bubble.
func c09ExpiryPart(r *vrt.Run, expired *atomic.Bool) {
	depth := vrt.Pick(r, 7, 9)
	nAlpha := vrt.Pick(r, c09ExpQuickAlpha, len(c09ExpAlphabet))
	cfgs := c09ExpConfigs(r.Thorough())
	r.Bound("expiry_depth", depth)
	r.Bound("expiry_alphabet", nAlpha)
	r.Bound("expiry_configs", len(cfgs))
	var c c09ExpCase
	switch {
	case r.ReplayCase("expiry", &c):
		r.Eval()
		fs, _ := c09RunExpiry(r, c)
		r.Report("expiry", c, fs)
	case r.ShouldRun():
		for _, cfg := range cfgs {
			if r.Mine() {
				c09ExpBFS(r, expired, cfg, depth, nAlpha)
			}
		}
	}
}

var _ = netip.Addr{}
