//go:build verif

package ratelimitmw

import (
	"context"
	"fmt"
	"net"
	"net/netip"
	"strings"
	"sync/atomic"
	"syscall"
	"time"

	"github.com/AdguardTeam/AdGuardDNS/internal/agd"
	"github.com/AdguardTeam/AdGuardDNS/internal/dnsserver/ratelimit"
	"github.com/AdguardTeam/AdGuardDNS/internal/dnsserver/zzverif/c09ref"
	"github.com/AdguardTeam/AdGuardDNS/internal/dnsserver/zzverif/vrt"
	"github.com/miekg/dns"
)

// Part "mw-writer": what the client's response writer does with a large
// response must not change what the limiter counts.
//
// The real serveWithRatelimiting (global path and profile path) is driven with
// response writers that (ok) record the message, (fail) return a network error,
// (trunc512 / truncEDNS) cut the message they are given down to the client's
// UDP buffer IN PLACE before recording it — a model of the real
// udpResponseWriter.WriteMsg -> normalize -> truncate of internal/dnsserver,
// which lives in another module and is unexported, so it cannot be put in
// front of the middleware here — and with generated responses of 1, 2.5 and 6
// times the size estimate.  Oracle as in the part "mw": a query that was
// admitted counts 1 + floor(size of the GENERATED response / estimate) events
// (k or k+1 at exact multiples), whatever the writer did with it; all following
// queries are dropped / answered as the reference says; the other subnet and
// the allowlisted client are unaffected.

const (
	mwwEst  = 256
	mwwEDNS = 1232
)

var mwwSizes = map[string]int{"small": mwwEst - 1, "1x": mwwEst, "2.5x": mwwEst*5/2 + 1, "6x": 6*mwwEst + 1}

// mwwEv is one event of the part.
type mwwEv struct {
	Client string `json:"client,omitempty"`
	Size   string `json:"generated_response,omitempty"`

	// Writer is "ok", "fail", "trunc512" or "truncEDNS" (the request then
	// advertises a UDP buffer of 1232 bytes).
	Writer string `json:"writer,omitempty"`
	Adv    string `json:"advance,omitempty"`
}

func (e mwwEv) String() (s string) {
	if e.Adv != "" {
		return "+" + e.Adv
	}

	return fmt.Sprintf("%s/%s/%s", e.Client, e.Size, e.Writer)
}

var mwwAlphabet = func() (evs []mwwEv) {
	for _, cl := range []string{"G1", "P1"} {
		evs = append(evs, mwwEv{Client: cl, Size: "small", Writer: "ok"})
		for _, sz := range []string{"2.5x", "6x", "1x"} {
			for _, wr := range []string{"fail", "trunc512", "ok", "truncEDNS"} {
				evs = append(evs, mwwEv{Client: cl, Size: sz, Writer: wr})
			}
		}
	}
	evs = append(evs,
		mwwEv{Client: "G2", Size: "small", Writer: "ok"},
		mwwEv{Client: "W", Size: "small", Writer: "ok"},
		mwwEv{Adv: "ivl/2"},
		mwwEv{Adv: "ivl+1ns"},
	)

	return evs
}()

var mwwG2 = mwClient{IP: netip.MustParseAddr("10.0.5.1")}

type mwwCase struct {
	Cfg    mwCfg  `json:"cfg"`
	Events []int  `json:"events"`
	Trace  string `json:"trace,omitempty"`
}

func mwwTrace(events []int) (s string) {
	parts := make([]string, 0, len(events))
	for _, ei := range events {
		parts = append(parts, mwwAlphabet[ei].String())
	}

	return strings.Join(parts, " ")
}

// mwwBuild builds a reply of exactly size bytes made of several TXT records,
// so that truncation removes whole records.
func mwwBuild(req *dns.Msg, size int) (resp *dns.Msg) {
	resp = &dns.Msg{}
	resp.SetReply(req)
	resp.Extra = nil
	const over = len(c09ref.QName) + 1 + 10 + 1
	for {
		left := size - resp.Len()
		if left == 0 {
			return resp
		}
		pad := left - over
		if pad > 100 && left-(100+over) >= over {
			pad = 100
		}
		if pad < 0 || pad > 255 {
			panic(fmt.Errorf("mwwBuild: cannot reach %d bytes (left %d)", size, left))
		}
		resp.Answer = append(resp.Answer, &dns.TXT{
			Hdr: dns.RR_Header{Name: c09ref.QName, Rrtype: dns.TypeTXT, Class: dns.ClassINET, Ttl: 10},
			Txt: []string{strings.Repeat("x", pad)},
		})
	}
}

// mwwRW is the response writer of the client connection.
type mwwRW struct {
	mwRW
	kind  string
	req   *dns.Msg
	calls int
}

func (w *mwwRW) WriteMsg(ctx context.Context, req, resp *dns.Msg) (err error) {
	w.calls++
	switch w.kind {
	case "fail":
		return &net.OpError{Op: "write", Net: "udp", Addr: w.remote, Err: syscall.ECONNREFUSED}
	case "trunc512":
		resp.Truncate(dns.MinMsgSize)
	case "truncEDNS":
		resp.Truncate(mwwEDNS)
	}

	return w.mwRW.WriteMsg(ctx, req, resp)
}

// mwwRun runs one history.
func mwwRun(r *vrt.Run, c mwwCase) (fs []vrt.Finding) {
	w := mwNewWorldEst(c.Cfg, mwwEst)
	defer ratelimit.VerifStop(w.backoff)
	prof := c09ref.New(c09ref.Config{
		N4: int(c.Cfg.RPS), N6: int(c.Cfg.RPS), Ivl4: int64(time.Second), Ivl6: int64(time.Second),
		BackoffCount: 1 << 30, Est: mwwEst,
	})
	ctx := context.Background()
	for step, ei := range c.Events {
		e := mwwAlphabet[ei]
		switch e.Adv {
		case "":
		case "ivl/2":
			time.Sleep(mwIvl / 2)

			continue
		case "ivl+1ns":
			time.Sleep(mwIvl + 1)

			continue
		default:
			vrt.Fatalf("bad advance %q", e.Adv)
		}
		cl, ok := mwClients[e.Client]
		if e.Client == "G2" {
			cl, ok = mwwG2, true
		}
		if !ok {
			vrt.Fatalf("bad client %q", e.Client)
		}
		now := time.Now()
		nowNs := now.UnixNano()
		size := mwwSizes[e.Size]
		which := "global"
		model := w.global
		allow := false
		if mwOwnLimit(cl) {
			which, model = "profile", prof
		} else {
			for _, p := range mwAllow {
				allow = allow || p.Contains(cl.IP)
			}
		}
		v := model.Query(nowNs, cl.IP, false, allow)

		req := c09ref.Req(uint16(step+1), dns.TypeA)
		if e.Writer == "truncEDNS" {
			req.SetEdns0(mwwEDNS, false)
		}
		ri := &agd.RequestInfo{RemoteIP: cl.IP, Proto: agd.ProtoDNS}
		if cl.Prof != "" {
			ri.DeviceResult = &agd.DeviceResultOK{Device: w.dev, Profile: w.profs[cl.Prof]}
		}
		rw := &mwwRW{kind: e.Writer, mwRW: mwRW{
			local:  &net.UDPAddr{IP: net.IP{192, 0, 2, 53}, Port: 53},
			remote: &net.UDPAddr{IP: cl.IP.AsSlice(), Port: 33333},
		}}
		next := &mwNext{size: size, build: mwwBuild}
		err := w.mw.serveWithRatelimiting(agd.ContextWithRequestInfo(ctx, ri), rw, req, ri, next)
		r.Trans(1)

		dropped := next.calls == 0
		out := "pass"
		if dropped {
			out = "drop"
		}
		r.Class("writer/" + which + "/" + v.Why + "/" + out + "/" + e.Writer)
		desc := func() string {
			return fmt.Sprintf("cfg %+v (size estimate %d), history [%s] (client/generated response/writer): step %d query %s "+
				"(%s limit, reference reason %s): next handler calls=%d, writer calls=%d, responses recorded=%d, err=%v; reference %s\n   global state: %s",
				c.Cfg, mwwEst, mwwTrace(c.Events), step, e, which, v.Why, next.calls, rw.calls, len(rw.writes), err,
				model.Key(nowNs), ratelimit.VerifDump(w.backoff, now))
		}
		switch {
		case err != nil && (dropped || e.Writer != "fail"):
			return vrt.F("mw/error", "%s", desc())
		case dropped && rw.calls > 0:
			return vrt.F("mw/response-without-next-handler", "%s", desc())
		case dropped && !v.MayDrop:
			key := "mw/dropped-early/" + which
			if v.Why == "allowlisted" {
				key = "mw/allowlisted-dropped"
			}

			return vrt.F(key, "%s; the statement admits only a pass", desc())
		case !dropped && !v.MayPass:
			return vrt.F("mw/passed-late/"+which+"/"+v.Why, "%s; the statement demands a drop", desc())
		case !dropped && rw.calls != 1:
			return vrt.F("mw/response-not-forwarded", "%s", desc())
		}
		model.Observe(dropped, size)
	}

	return nil
}

// mwWriterPart runs the part inside the bubble.
func mwWriterPart(r *vrt.Run, expired *atomic.Bool) {
	depth := vrt.Pick(r, 3, 4)
	r.Bound("mw_writer_depth", depth)
	r.Bound("mw_writer_alphabet", len(mwwAlphabet))
	var cfgs []mwCfg
	for _, n := range vrt.Pick(r, []uint{2, 4}, []uint{2, 4, 6}) {
		for _, bc := range []uint{1, 100} {
			cfgs = append(cfgs, mwCfg{N4: n, RPS: uint32(n), BC: bc})
		}
	}
	r.Bound("mw_writer_configs", len(cfgs))
	vrt.Part(r, "mw-writer", func(emit func(mwwCase)) {
		for _, cfg := range cfgs {
			vrt.Sequences(len(mwwAlphabet), 2, depth, func(seq []int) {
				if mwwAlphabet[seq[0]].Adv != "" || mwwAlphabet[seq[len(seq)-1]].Adv != "" {
					return
				}
				// Nothing to learn without a large response.
				big := false
				for _, ei := range seq[:len(seq)-1] {
					e := mwwAlphabet[ei]
					big = big || (e.Size != "" && e.Size != "small")
				}
				if !big {
					return
				}
				emit(mwwCase{Cfg: cfg, Events: append([]int{}, seq...)})
			})
		}
	}, func(c mwwCase) []vrt.Finding {
		if expired.Load() {
			return nil
		}
		c.Trace = mwwTrace(c.Events)
		fs := mwwRun(r, c)
		r.State(fmt.Sprint(c.Cfg.N4, c.Cfg.BC, c.Events))

		return fs
	})
}
