//go:build verif

package billstat

import (
	"context"
	"errors"
	"fmt"
	"io"
	"log/slog"
	"os"
	"sort"
	"strings"
	"testing"
	"time"

	"github.com/AdguardTeam/AdGuardDNS/internal/agd"
	"github.com/AdguardTeam/AdGuardDNS/internal/dnsserver/zzverif/vrt"
	"github.com/AdguardTeam/AdGuardDNS/internal/dnsserver/zzverif/xsched"
	"github.com/AdguardTeam/AdGuardDNS/internal/dnsserver/zzverif/xsync"
	"github.com/AdguardTeam/AdGuardDNS/internal/geoip"
)

// c16Meta is the metadata of one Record call; Tag is unique per call.
type c16Meta struct {
	Dev string
	Tag int
}

// c16Scenario describes the tasks of one harness.
type c16Scenario struct {
	Name       string
	Recorders  [][]c16Meta
	Refreshers []int // number of Refresh calls per refresher task
}

var c16Scenarios = []c16Scenario{{
	Name:       "2rec-1ref",
	Recorders:  [][]c16Meta{{{"dA", 1}, {"dA", 2}}, {{"dB", 3}, {"dA", 4}}},
	Refreshers: []int{2},
}, {
	Name:       "1rec-1ref3",
	Recorders:  [][]c16Meta{{{"dA", 1}, {"dA", 2}, {"dA", 3}}},
	Refreshers: []int{3},
}, {
	Name:       "2rec-2ref",
	Recorders:  [][]c16Meta{{{"dA", 1}, {"dA", 2}}, {{"dB", 3}, {"dA", 4}}},
	Refreshers: []int{2, 1},
}}

// c16Event is an entry of the total-order log.  Entries are appended by the
// harness with no scheduling point between the real critical section's
// unlock and the append, so the log order is the real order.
type c16Event struct {
	Kind  string // "record", "reset", "ok", "fail"
	Task  int
	Meta  c16Meta
	Batch map[string][2]int // dev -> (queries, tag) as received by the uploader
}

type c16Env struct {
	rec *RuntimeRecorder
	log []c16Event

	// hlock serialises (take the next tick, Record) so that the order of
	// Record calls equals the order of their query times; Record is one
	// critical section anyway, so no interleaving with Refresh is lost.
	hlock xsync.Mutex
	tick  int
}

type c16Uploader struct {
	env *c16Env
}

func c16Snapshot(records Records) map[string][2]int {
	out := map[string][2]int{}
	for id, r := range records {
		out[string(id)] = [2]int{int(r.Queries), int(r.ASN)}
	}

	return out
}

func (u *c16Uploader) Upload(_ context.Context, records Records) (err error) {
	s := xsched.Cur()
	tid := s.Self().ID
	u.env.log = append(u.env.log, c16Event{Kind: "reset", Task: tid, Batch: c16Snapshot(records)})
	xsched.Yield("upload in flight")
	if xsched.Choose(2, "upload result") == 1 {
		return errors.New("upload failed")
	}
	// The batch is delivered; log it atomically with the decision.
	u.env.log = append(u.env.log, c16Event{Kind: "ok", Task: tid, Batch: c16Snapshot(records)})

	return nil
}

type c16ErrColl struct{}

func (c16ErrColl) Collect(context.Context, error) {}

func c16Digest(env *c16Env) string {
	var sb strings.Builder
	for _, e := range env.log {
		fmt.Fprintf(&sb, "%s%d%v%v;", e.Kind, e.Task, e.Meta, c16Fmt(e.Batch))
	}
	sb.WriteString(c16Fmt(c16Snapshot(env.rec.records)))

	return sb.String()
}

func c16Fmt(m map[string][2]int) string {
	var ks []string
	for k := range m {
		ks = append(ks, k)
	}
	sort.Strings(ks)
	var sb strings.Builder
	for _, k := range ks {
		fmt.Fprintf(&sb, "%s=%dq/tag%d ", k, m[k][0], m[k][1])
	}

	return "{" + strings.TrimSpace(sb.String()) + "}"
}

func c16Setup(sc c16Scenario, s *xsched.Sched) (env *c16Env) {
	env = &c16Env{}
	env.rec = NewRuntimeRecorder(&RuntimeRecorderConfig{
		Logger:   slog.New(slog.NewTextHandler(io.Discard, nil)),
		ErrColl:  c16ErrColl{},
		Uploader: &c16Uploader{env: env},
		Metrics:  EmptyMetrics{},
	})
	ctx := context.Background()
	for i, metas := range sc.Recorders {
		s.Go(fmt.Sprintf("R%d", i+1), func() {
			for _, m := range metas {
				env.hlock.Lock()
				env.tick++
				m.Tag = env.tick
				env.rec.Record(ctx, agd.DeviceID(m.Dev), geoip.Country("C"+fmt.Sprint(m.Tag)), geoip.ASN(m.Tag), time.Unix(int64(m.Tag), 0), agd.Protocol(m.Tag))
				env.log = append(env.log, c16Event{Kind: "record", Meta: m})
				env.hlock.Unlock()
			}
		})
	}
	for i, n := range sc.Refreshers {
		s.Go(fmt.Sprintf("U%d", i+1), func() {
			tid := s.Self().ID
			for j := 0; j < n; j++ {
				err := env.rec.Refresh(ctx)
				if err != nil {
					env.log = append(env.log, c16Event{Kind: "fail", Task: tid})
				}
			}
		})
	}
	s.KeyFunc = func() string { return c16Digest(env) }

	return env
}

// c16Check runs the reference model over the total-order log and compares it
// with what the uploader received and with what is still pending.
func c16Check(env *c16Env) (fs []vrt.Finding) {
	type pend struct{ n, tag int }
	pending := map[string]pend{}
	recorded := map[string]int{}
	delivered := map[string]int{}
	inflight := map[int]map[string]pend{} // refresher task -> batch by the reference
	for i, e := range env.log {
		switch e.Kind {
		case "record":
			p := pending[e.Meta.Dev]
			pending[e.Meta.Dev] = pend{p.n + 1, e.Meta.Tag}
			recorded[e.Meta.Dev]++
		case "reset":
			inflight[e.Task] = pending
			pending = map[string]pend{}
			// What the uploader received must be what the reference holds.
			want := map[string][2]int{}
			for d, p := range inflight[e.Task] {
				want[d] = [2]int{p.n, p.tag}
			}
			if c16Fmt(want) != c16Fmt(e.Batch) {
				key := "billstat/batch-count-differs"
				for d, w := range want {
					if g, ok := e.Batch[d]; ok && g[0] == w[0] && g[1] != w[1] {
						key = "billstat/batch-metadata-not-latest"
					}
				}
				fs = append(fs, vrt.F(key, "log entry %d: upload attempt received %s, reference (counts conserved, metadata of the latest query) expects %s", i, c16Fmt(e.Batch), c16Fmt(want))...)

				return fs
			}
		case "ok":
			for d, g := range e.Batch {
				delivered[d] += g[0]
			}
			delete(inflight, e.Task)
		case "fail":
			for d, p := range inflight[e.Task] {
				// Tags are query times: the most recent query has the
				// largest one.
				cur := pending[d]
				pending[d] = pend{cur.n + p.n, max(cur.tag, p.tag)}
			}
			delete(inflight, e.Task)
		}
	}
	got := c16Snapshot(env.rec.records)
	want := map[string][2]int{}
	for d, p := range pending {
		want[d] = [2]int{p.n, p.tag}
	}
	for d, n := range recorded {
		if delivered[d]+got[d][0] != n {
			fs = append(fs, vrt.F("billstat/count-not-conserved", "device %s: recorded %d, delivered in successful uploads %d, pending %d", d, n, delivered[d], got[d][0])...)
		}
	}
	if len(fs) == 0 && c16Fmt(got) != c16Fmt(want) {
		fs = append(fs, vrt.F("billstat/pending-metadata-not-latest", "pending records %s, reference expects %s", c16Fmt(got), c16Fmt(want))...)
	}

	return fs
}

type c16Case struct {
	Scenario int   `json:"scenario"`
	Choices  []int `json:"choices"`
}

func TestVerifC16(t *testing.T) {
	r := vrt.Start("C16")
	run := func(c c16Case) (fs []vrt.Finding, x *xsched.Exec) {
		var env *c16Env
		x = xsched.Replay(c.Choices, func(s *xsched.Sched) { env = c16Setup(c16Scenarios[c.Scenario], s) })
		if x.Sched.Deadlock {
			return vrt.F("billstat/deadlock", "blocked: %v", x.Sched.Blocked), x
		}
		if x.Sched.Panicked != "" {
			return vrt.F("billstat/panic", "%s", x.Sched.Panicked), x
		}

		return c16Check(env), x
	}
	var rc c16Case
	if r.ReplayCase("schedules", &rc) {
		fs, x := run(rc)
		r.Eval()
		if len(fs) > 0 {
			fs[0].Detail += "\nschedule:\n" + x.Sched.Describe()
		}
		r.Report("schedules", rc, fs)
	}
	if r.ShouldRun() {
		shard, nshards := r.NShards()
		// (scenario, preemption bound, prune) jobs, one per shard slot.
		type job struct {
			sc, pre int
		}
		var jobs []job
		for sc := range c16Scenarios {
			jobs = append(jobs, job{sc, vrt.Pick(r, 2, -1)})
		}
		r.Bound("preemptions", vrt.Pick(r, "2", "unbounded (state-key pruning)"))
		r.Bound("upload_failures", "unbounded")
		for ji, j := range jobs {
			if ji%nshards != shard {
				continue
			}
			sc := c16Scenarios[j.sc]
			var env *c16Env
			found := 0
			st := xsched.Explore(xsched.Config{MaxPreemptions: j.pre, MaxDeviations: -1, Prune: true, Stop: r.Expired},
				func(s *xsched.Sched) { env = c16Setup(sc, s) },
				func(x *xsched.Exec) bool {
					r.Eval()
					r.Trans(len(x.Sched.Trace))
					var fs []vrt.Finding
					switch {
					case x.Sched.Deadlock:
						fs = vrt.F("billstat/deadlock", "blocked: %v", x.Sched.Blocked)
					case x.Sched.Panicked != "":
						fs = vrt.F("billstat/panic", "%s", x.Sched.Panicked)
					case x.Sched.LimitHit:
						fs = vrt.F("billstat/livelock", "step limit hit")
					default:
						fs = c16Check(env)
					}
					d := c16Digest(env)
					if r.State(sc.Name + d) {
						r.Sample(map[string]any{"scenario": sc.Name, "final": d, "preemptions": x.Preemptions, "upload_failures": x.Deviations})
					}
					r.Class(fmt.Sprintf("%s fails=%d", sc.Name, x.Deviations))
					if len(fs) > 0 {
						fs[0].Detail += "\nschedule:\n" + x.Sched.Describe()
						r.Report("schedules", c16Case{Scenario: j.sc, Choices: x.Choices}, fs)
						found++
					}

					return found < 3
				})
			r.Count("pruned", st.Pruned)
			r.Note("scenario %s: executions=%d points=%d pruned=%d max_trace=%d stopped=%v", sc.Name, st.Executions, st.Points, st.Pruned, st.MaxTrace, st.Stopped)
		}
	}
	r.Finish()
	os.Exit(0)
}
