//go:build verif

package backendpb

import (
	"context"
	"errors"
	"fmt"
	"io"
	"log/slog"
	"os"
	"sort"
	"strings"
	"testing"
	"time"

	"github.com/AdguardTeam/AdGuardDNS/internal/agd"
	"github.com/AdguardTeam/AdGuardDNS/internal/billstat"
	"github.com/AdguardTeam/AdGuardDNS/internal/dnsserver/zzverif/vrt"
	"github.com/AdguardTeam/AdGuardDNS/internal/dnsserver/zzverif/xsched"
	"github.com/AdguardTeam/AdGuardDNS/internal/geoip"
	"google.golang.org/grpc"
	"google.golang.org/protobuf/types/known/emptypb"
)

// The real recorder with the REAL uploader (backendpb.BillStat) over a
// scripted gRPC stream: a batch is delivered only when the stream is closed
// successfully; every Send and the close may fail, and the server may end the
// stream early (Send returns io.EOF, the close reports the status).

type c16uBackend struct {
	delivered map[string]int
	lastTag   map[string]int
}

type c16uClient struct {
	DNSServiceClient
	be *c16uBackend
}

type c16uStream struct {
	grpc.ClientStream
	be    *c16uBackend
	batch map[string][2]int
}

func (c *c16uClient) SaveDevicesBillingStat(_ context.Context, _ ...grpc.CallOption) (grpc.ClientStreamingClient[DeviceBillingStat, emptypb.Empty], error) {
	xsched.Yield("upload: stream opened")
	if xsched.Choose(2, "opening the stream fails") == 1 {
		return nil, errors.New("unavailable")
	}

	return &c16uStream{be: c.be, batch: map[string][2]int{}}, nil
}

func (s *c16uStream) Send(m *DeviceBillingStat) error {
	xsched.Yield("upload: record sent")
	// A send may fail with an error, or with io.EOF: the server has already
	// ended the stream (this record was not received), and the status of the
	// call is what CloseAndRecv reports - possibly OK.
	switch xsched.Choose(3, "send fails / stream already ended by the server") {
	case 1:
		return errors.New("stream broken")
	case 2:
		return io.EOF
	}
	s.batch[m.DeviceId] = [2]int{int(m.Queries), int(m.Asn)}

	return nil
}

func (s *c16uStream) CloseAndRecv() (*emptypb.Empty, error) {
	xsched.Yield("upload: closing the stream")
	if xsched.Choose(2, "close fails") == 1 {
		return nil, errors.New("unavailable")
	}
	for d, v := range s.batch {
		s.be.delivered[d] += v[0]
		s.be.lastTag[d] = v[1]
	}

	return &emptypb.Empty{}, nil
}

type c16uErrColl struct{}

func (c16uErrColl) Collect(context.Context, error) {}

type c16uEnv struct {
	be       *c16uBackend
	rec      *billstat.RuntimeRecorder
	recorded map[string]int
	tick     int
	latest   map[string]int
}

func c16uSetup(s *xsched.Sched) *c16uEnv {
	env := &c16uEnv{be: &c16uBackend{delivered: map[string]int{}, lastTag: map[string]int{}}, recorded: map[string]int{}, latest: map[string]int{}}
	logger := slog.New(slog.NewTextHandler(io.Discard, nil))
	up := &BillStat{logger: logger, errColl: c16uErrColl{}, grpcMetrics: EmptyGRPCMetrics{}, client: &c16uClient{be: env.be}, apiKey: "k"}
	env.rec = billstat.NewRuntimeRecorder(&billstat.RuntimeRecorderConfig{Logger: logger, ErrColl: c16uErrColl{}, Uploader: up, Metrics: billstat.EmptyMetrics{}})
	ctx := context.Background()
	record := func(dev string) {
		env.tick++
		env.recorded[dev]++
		env.latest[dev] = env.tick
		env.rec.Record(ctx, agd.DeviceID(dev), geoip.Country("XX"), geoip.ASN(env.tick), time.Unix(int64(env.tick), 0), agd.ProtoDNS)
	}
	// Something to upload before the race starts.
	record("dA")
	record("dB")
	record("dC")
	s.Go("R", func() {
		record("dA")
		record("dD")
	})
	s.Go("U", func() {
		_ = env.rec.Refresh(ctx)
		_ = env.rec.Refresh(ctx)
	})

	return env
}

func c16uFmt(m map[string]int) string {
	var ks []string
	for k := range m {
		ks = append(ks, k)
	}
	sort.Strings(ks)
	var sb strings.Builder
	for _, k := range ks {
		fmt.Fprintf(&sb, "%s=%d ", k, m[k])
	}

	return strings.TrimSpace(sb.String())
}

// c16uCheck flushes what is still pending with an upload that succeeds and
// compares the totals.
func c16uCheck(env *c16uEnv, x *xsched.Exec) []vrt.Finding {
	if x.Sched.Panicked != "" {
		return vrt.F("billstat-uploader/panic", "%s", x.Sched.Panicked)
	}
	if x.Sched.Deadlock || x.Sched.LimitHit {
		return vrt.F("billstat-uploader/deadlock", "blocked %v", x.Sched.Blocked)
	}
	before := c16uFmt(env.be.delivered)
	if err := env.rec.Refresh(context.Background()); err != nil {
		return vrt.F("billstat-uploader/final-upload-failed", "%v", err)
	}
	if got, want := c16uFmt(env.be.delivered), c16uFmt(env.recorded); got != want {
		return vrt.F("billstat-uploader/count-not-conserved", "after the uploads of the schedule (delivered %s) and one final successful upload the backend has %s, but %s were recorded\nschedule:\n%s", before, got, want, x.Sched.Describe())
	}
	for d, tag := range env.latest {
		if env.be.lastTag[d] != tag {
			return vrt.F("billstat-uploader/metadata-not-latest", "device %s: last delivered metadata is of query %d, its most recent query is %d\nschedule:\n%s", d, env.be.lastTag[d], tag, x.Sched.Describe())
		}
	}

	return nil
}

type c16uCase struct {
	Choices []int `json:"choices"`
}

func TestVerifC16Uploader(t *testing.T) {
	r := vrt.Start("C16")
	var rc c16uCase
	if r.ReplayCase("uploader", &rc) {
		var env *c16uEnv
		x := xsched.Replay(rc.Choices, func(s *xsched.Sched) { env = c16uSetup(s) })
		r.Eval()
		r.Report("uploader", rc, c16uCheck(env, x))
	}
	if r.ShouldRun() {
		shard, _ := r.NShards()
		if shard == 0 {
			pre := vrt.Pick(r, 2, 3)
			dev := vrt.Pick(r, 2, 3)
			r.Bound("uploader_preemptions", pre)
			r.Bound("uploader_failures", dev)
			var env *c16uEnv
			found := 0
			st := xsched.Explore(xsched.Config{MaxPreemptions: pre, MaxDeviations: dev, Stop: r.Expired},
				func(s *xsched.Sched) { env = c16uSetup(s) },
				func(x *xsched.Exec) bool {
					r.Eval()
					r.Trans(len(x.Sched.Trace))
					fs := c16uCheck(env, x)
					r.Class(fmt.Sprintf("real-uploader fails=%d", x.Deviations))
					if obs := "up " + c16uFmt(env.be.delivered) + fmt.Sprint(x.Deviations); r.State(obs) {
						r.Sample(map[string]any{"delivered": c16uFmt(env.be.delivered), "failures": x.Deviations, "preemptions": x.Preemptions})
					}
					if len(fs) > 0 {
						r.Report("uploader", c16uCase{Choices: x.Choices}, fs)
						found++
					}

					return found < 2
				})
			if st.Stopped {
				r.Note("uploader exploration stopped by deadline after %d executions", st.Executions)
			}
		}
	}
	r.Finish()
	os.Exit(0)
}
