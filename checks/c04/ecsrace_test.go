//go:build verif

package zzverifecs

import (
	"fmt"
	"os"
	"runtime"
	"runtime/debug"
	"strings"
	"testing"
	"testing/synctest"

	"github.com/AdguardTeam/AdGuardDNS/internal/dnsserver/zzverif/vdns"
	"github.com/AdguardTeam/AdGuardDNS/internal/dnsserver/zzverif/vrt"
	"github.com/AdguardTeam/AdGuardDNS/internal/dnsserver/zzverif/xsched"
	"github.com/miekg/dns"
)

// Concurrent cache misses: requests that are in flight at the same time, and
// the same questions asked again afterwards, must each be answered as on a
// fresh cache.

var c04rQueries = []ecsQuery{
	{Client: c04X1, Name: "dep.", QType: dns.TypeA, QClass: dns.ClassINET},
	{Client: c04Y1, Name: "dep.", QType: dns.TypeA, QClass: dns.ClassINET},
	{Client: c04X1, Name: "s0.", QType: dns.TypeA, QClass: dns.ClassINET},
	{Client: c04X1, Name: "s0.", QType: dns.TypeAAAA, QClass: dns.ClassINET, DO: true},
	{Client: c04X1, Name: "p.", QType: dns.TypeA, QClass: dns.ClassINET, ECS: "0.0.0.0/0"},
	{Client: c04Y1, Name: "o.", QType: dns.TypeA, QClass: dns.ClassCHAOS},
}

type c04rCase struct {
	Queries []int `json:"queries"`
	Choices []int `json:"choices"`
}

type c04rEnv struct {
	rig *ecsRig
	got []string
}

func c04rCanon(m *dns.Msg) string {
	if m == nil {
		return "<no response>"
	}

	return vdns.Canon(m, false) + " ecs=" + ecsRespOpt(m)
}

func c04rSetup(qs []int, s *xsched.Sched) *c04rEnv {
	env := &c04rEnv{rig: ecsNewRig("ok", false), got: make([]string, len(qs))}
	for i, qi := range qs {
		t := s.Go(fmt.Sprintf("T%d", i), func() {
			resp, _, _ := env.rig.query(c04rQueries[qi], uint16(0x100+i))
			env.got[i] = c04rCanon(resp)
		})
		// In the four-request scenarios only the first and the third request
		// are preempted (the miss that is overtaken and the hit that holds an
		// entry); the other two run from start to end wherever they are
		// scheduled.
		t.Atomic = len(qs) == 4 && (i == 1 || i == 3)
		if len(qs) == 4 {
			// ... and only inside the cache operations and around the
			// upstream exchange: the interleavings of the rest of the request
			// path are covered by the pairs and triples.
			t.Only = func(label string) bool {
				return strings.HasPrefix(label, "cache.go:") || strings.HasPrefix(label, "upstream:")
			}
		}
	}

	return env
}

func c04rCheck(qs []int, fresh map[int]string, env *c04rEnv, x *xsched.Exec) []vrt.Finding {
	if x.Sched.Panicked != "" {
		return vrt.F("ecs-race/panic", "%s", x.Sched.Panicked)
	}
	if x.Sched.Deadlock || x.Sched.LimitHit {
		return vrt.F("ecs-race/deadlock", "blocked %v", x.Sched.Blocked)
	}
	id := func(s string, v int) string { return strings.Replace(s, "id=256 ", fmt.Sprintf("id=%d ", v), 1) }
	for i, qi := range qs {
		if want := id(fresh[qi], 0x100+i); env.got[i] != want {
			return vrt.F("ecs-race/concurrent-answer-differs-from-fresh", "query %+v in flight together with %v:\n   got  : %s\n   fresh: %s\nschedule:\n%s", c04rQueries[qi], qs, env.got[i], want, x.Sched.Describe())
		}
	}
	// The same questions again, now from the cache.
	for i, qi := range qs {
		resp, _, _ := env.rig.query(c04rQueries[qi], uint16(0x300+i))
		if got, want := c04rCanon(resp), id(fresh[qi], 0x300+i); got != want {
			return vrt.F("ecs-race/answer-cached-under-wrong-key", "query %+v asked again after the concurrent misses of %v:\n   got  : %s\n   fresh: %s\nschedule:\n%s", c04rQueries[qi], qs, got, want, x.Sched.Describe())
		}
	}

	return nil
}

func TestVerifC04ECSRace(t *testing.T) {
	// The unit also serves C07 (a message still in use is never recycled): the
	// driver then sets VERIF_PROP.
	prop := "C04"
	if p := os.Getenv("VERIF_PROP"); p != "" {
		prop = p
	}
	r := vrt.Start(prop)
	ecsInit()
	debug.SetGCPercent(-1)
	synctest.Test(t, func(t *testing.T) {
		fresh := map[int]string{}
		for i, q := range c04rQueries {
			resp, _, _ := ecsNewRig("ok", false).query(q, 0x100)
			fresh[i] = c04rCanon(resp)
		}
		var rc c04rCase
		if r.ReplayCase("ecs-race", &rc) {
			var env *c04rEnv
			x := xsched.Replay(rc.Choices, func(s *xsched.Sched) { env = c04rSetup(rc.Queries, s) })
			r.Eval()
			r.Report("ecs-race", rc, c04rCheck(rc.Queries, fresh, env, x))
		}
		if r.ShouldRun() {
			shard, nshards := r.NShards()
			execs := 0
			pre := vrt.Pick(r, 2, 3)
			r.Bound("ecs_race_preemptions", pre)
			var scenarios [][]int
			for a := range c04rQueries {
				for b := a; b < len(c04rQueries); b++ {
					scenarios = append(scenarios, []int{a, b})
				}
			}
			// Four requests, three of them for one key: two concurrent misses
			// (the second store replaces the entry of the first), a hit that
			// has fetched the entry but not yet copied it, and a request for
			// another name that takes objects from the pools in between.
			scenarios = append(scenarios, []int{0, 0, 0, 2})
			if r.Thorough() {
				scenarios = append(scenarios, []int{0, 1, 2}, []int{2, 3, 4}, []int{0, 4, 5}, []int{2, 2, 2, 0}, []int{3, 3, 3, 0}, []int{0, 0, 1, 2})
			}
			for si, qs := range scenarios {
				if si%nshards != shard {
					continue
				}
				p := pre
				if len(qs) > 2 {
					p = 2
				}
				var env *c04rEnv
				found := 0
				st := xsched.Explore(xsched.Config{MaxPreemptions: p, MaxDeviations: 0, Stop: r.Expired},
					func(s *xsched.Sched) {
						if execs++; execs%2000 == 0 {
							runtime.GC()
						}
						env = c04rSetup(qs, s)
					},
					func(x *xsched.Exec) bool {
						r.Eval()
						r.Trans(len(x.Sched.Trace))
						fs := c04rCheck(qs, fresh, env, x)
						r.Class(fmt.Sprintf("race %d queries", len(qs)))
						if obs := fmt.Sprint(qs, env.got); r.State(obs) {
							r.Sample(map[string]any{"queries": qs, "answers": env.got, "preemptions": x.Preemptions})
						}
						if len(fs) > 0 {
							r.Report("ecs-race", c04rCase{Queries: qs, Choices: x.Choices}, fs)
							found++
						}

						return found < 1
					})
				if st.Stopped {
					r.Note("ecs race %v stopped by deadline after %d executions", qs, st.Executions)
				}
			}
		}
		r.Finish()
		os.Exit(0)
	})
}
