//go:build verif

package cache

import (
	"context"
	"fmt"
	"os"
	"runtime"
	"runtime/debug"
	"testing"

	"github.com/AdguardTeam/AdGuardDNS/internal/dnsserver"
	"github.com/AdguardTeam/AdGuardDNS/internal/dnsserver/zzverif/vdns"
	"github.com/AdguardTeam/AdGuardDNS/internal/dnsserver/zzverif/vrt"
	"github.com/AdguardTeam/AdGuardDNS/internal/dnsserver/zzverif/xsched"
	"github.com/miekg/dns"
)

// C04, unit "simple-race": requests that are in flight together through one
// simple cache middleware (one goroutine per request in the server).  Names of
// equal length and different types, so that keys built in any shared scratch
// space collide.  Every interleaving within the preemption bound; each answer,
// and the same questions asked again afterwards (now from the cache), must be
// the answer of the scripted upstream for that very question.

var c04sQueries = []c04Event{
	{Name: "aa.test.", QType: dns.TypeA, QClass: dns.ClassINET},
	{Name: "bb.test.", QType: dns.TypeA, QClass: dns.ClassINET},
	{Name: "aa.test.", QType: dns.TypeAAAA, QClass: dns.ClassINET},
	{Name: "bb.test.", QType: dns.TypeA, QClass: dns.ClassINET, DO: true},
	{Name: "longer-name.test.", QType: dns.TypeA, QClass: dns.ClassCHAOS},
}

type c04sUpstream struct{}

func (c04sUpstream) ServeDNS(ctx context.Context, rw dnsserver.ResponseWriter, req *dns.Msg) (err error) {
	xsched.Yield("upstream: request sent")
	defer xsched.Yield("upstream: answer received")

	return rw.WriteMsg(ctx, req, c04Answer("ok", req))
}

type c04sEnv struct {
	h   dnsserver.Handler
	got []string
}

func c04sAsk(h dnsserver.Handler, q c04Event, id uint16) string {
	rw := dnsserver.NewNonWriterResponseWriter(c04Local, c04Remote)
	if err := h.ServeDNS(context.Background(), rw, q.req(id)); err != nil {
		return "error: " + err.Error()
	}
	if rw.Msg() == nil {
		return "<no response>"
	}

	return vdns.Canon(rw.Msg(), false)
}

func c04sSetup(qs []int, s *xsched.Sched) *c04sEnv {
	mw := NewMiddleware(&MiddlewareConfig{Count: 100, MinTTL: c04MinTTL})
	env := &c04sEnv{h: mw.Wrap(c04sUpstream{}), got: make([]string, len(qs))}
	for i, qi := range qs {
		s.Go(fmt.Sprintf("T%d:%s/%d", i, c04sQueries[qi].Name, c04sQueries[qi].QType), func() {
			env.got[i] = c04sAsk(env.h, c04sQueries[qi], uint16(0x100+i))
		})
	}

	return env
}

// c04sWant is the answer a question must get: the upstream's, whether it comes
// from the cache or not (TTLs are not compared here).
func c04sWant(q c04Event, id uint16) string {
	resp := c04Answer("ok", q.req(id))
	resp.Id = id

	return vdns.Canon(resp, false)
}

func c04sCheck(qs []int, env *c04sEnv, x *xsched.Exec) []vrt.Finding {
	if x.Sched.Panicked != "" {
		return vrt.F("simple-race/panic", "%s", x.Sched.Panicked)
	}
	if x.Sched.Deadlock || x.Sched.LimitHit {
		return vrt.F("simple-race/deadlock", "blocked %v", x.Sched.Blocked)
	}
	for i, qi := range qs {
		if want := c04sWant(c04sQueries[qi], uint16(0x100+i)); env.got[i] != want {
			return vrt.F("simple-race/concurrent-answer-differs-from-fresh", "query %+v in flight together with %v:\n   got  : %s\n   fresh: %s\nschedule:\n%s", c04sQueries[qi], qs, env.got[i], want, x.Sched.Describe())
		}
	}
	for i, qi := range qs {
		if got, want := c04sAsk(env.h, c04sQueries[qi], uint16(0x300+i)), c04sWant(c04sQueries[qi], uint16(0x300+i)); got != want {
			return vrt.F("simple-race/answer-cached-under-wrong-key", "query %+v asked again after the concurrent requests %v:\n   got  : %s\n   fresh: %s\nschedule:\n%s", c04sQueries[qi], qs, got, want, x.Sched.Describe())
		}
	}

	return nil
}

type c04sCase struct {
	Queries []int `json:"queries"`
	Choices []int `json:"choices"`
}

func TestVerifC04SimpleRace(t *testing.T) {
	r := vrt.Start("C04")
	debug.SetGCPercent(-1)
	// The canonical form of a fresh answer and of a served one must agree for
	// a single request, or the oracle is wrong.
	for i, q := range c04sQueries {
		mw := NewMiddleware(&MiddlewareConfig{Count: 100, MinTTL: c04MinTTL})
		if got, want := c04sAsk(mw.Wrap(c04sUpstream{}), q, 0x100), c04sWant(q, 0x100); got != want {
			vrt.Fatalf("simple-race: query %d alone: got %s want %s", i, got, want)
		}
	}
	var rc c04sCase
	if r.ReplayCase("simple-race", &rc) {
		var env *c04sEnv
		x := xsched.Replay(rc.Choices, func(s *xsched.Sched) { env = c04sSetup(rc.Queries, s) })
		r.Eval()
		r.Report("simple-race", rc, c04sCheck(rc.Queries, env, x))
	}
	if r.ShouldRun() {
		shard, nshards := r.NShards()
		execs := 0
		var scenarios [][]int
		for a := range c04sQueries {
			for b := a; b < len(c04sQueries); b++ {
				scenarios = append(scenarios, []int{a, b})
			}
		}
		if r.Thorough() {
			scenarios = append(scenarios, []int{0, 1, 2}, []int{1, 2, 3}, []int{0, 3, 4})
		}
		r.Bound("simple_race_scenarios", len(scenarios))
		r.Bound("simple_race_preemptions", vrt.Pick(r, "2", "pairs: 3, triples: 2"))
		for si, qs := range scenarios {
			if si%nshards != shard {
				continue
			}
			pre := vrt.Pick(r, 2, 3)
			if len(qs) > 2 {
				pre = 2
			}
			var env *c04sEnv
			found := 0
			st := xsched.Explore(xsched.Config{MaxPreemptions: pre, MaxDeviations: 0, Stop: r.Expired},
				func(s *xsched.Sched) {
					if execs++; execs%2000 == 0 {
						runtime.GC()
					}
					env = c04sSetup(qs, s)
				},
				func(x *xsched.Exec) bool {
					r.Eval()
					r.Trans(len(x.Sched.Trace))
					fs := c04sCheck(qs, env, x)
					r.Class(fmt.Sprintf("simple-race %d queries", len(qs)))
					r.State(fmt.Sprint("simple-race", qs, env.got))
					if len(fs) > 0 {
						r.Report("simple-race", c04sCase{Queries: qs, Choices: x.Choices}, fs)
						found++
					}

					return found < 1
				})
			if st.Stopped {
				r.Note("simple race %v stopped by deadline after %d executions", qs, st.Executions)
			}
		}
	}
	r.Finish()
	os.Exit(0)
}
