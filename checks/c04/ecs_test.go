//go:build verif

package zzverifecs

import (
	"errors"
	"fmt"
	"math"
	"net/netip"
	"os"
	"strings"
	"testing"
	"testing/synctest"
	"time"

	"github.com/AdguardTeam/AdGuardDNS/internal/agdcache"
	"github.com/AdguardTeam/AdGuardDNS/internal/agdtest"
	"github.com/AdguardTeam/AdGuardDNS/internal/dnsmsg"
	"github.com/AdguardTeam/AdGuardDNS/internal/dnsserver/zzverif/vdns"
	"github.com/AdguardTeam/AdGuardDNS/internal/dnsserver/zzverif/vrt"
	"github.com/AdguardTeam/AdGuardDNS/internal/geoip"
	"github.com/AdguardTeam/golibs/netutil"
	"github.com/miekg/dns"
)

var c04Kinds = []string{"ok", "nodatasoa", "nodatanosoa", "nx", "nxsoahi", "servfail", "refused", "tc", "ttl0", "cname"}

// c04eEvent is a query or a time step.
type c04eEvent struct {
	Q       *ecsQuery `json:"q,omitempty"`
	Advance float64   `json:"advance,omitempty"`
}

const (
	c04X1 = "10.1.0.5"
	c04Y1 = "10.2.0.5"
)

func q(client, name string, qt, qc uint16, do, ad bool, ecs string) *ecsQuery {
	return &ecsQuery{Client: client, Name: name, QType: qt, QClass: qc, DO: do, AD: ad, CD: ad, ECS: ecs}
}

var c04eAlphabet = []c04eEvent{
	{Q: q(c04X1, "p.", dns.TypeA, dns.ClassINET, false, false, "")},
	{Advance: 0.41},
	{Advance: 9.62},
	{Q: q(c04X1, "p.", dns.TypeA, dns.ClassINET, true, false, "")},
	{Q: q(c04X1, "p.", dns.TypeAAAA, dns.ClassINET, false, false, "")},
	{Q: q(c04X1, "P.", dns.TypeA, dns.ClassINET, false, true, "")},
	{Advance: 4.07},
	{Q: q(c04X1, "p.", dns.TypeA, dns.ClassCHAOS, false, false, "")},
	{Q: q(c04Y1, "dep.", dns.TypeA, dns.ClassINET, false, false, "")},
	{Q: q(c04X1, "dep.", dns.TypeA, dns.ClassINET, false, false, "")},
	{Q: q("10.3.0.5", "dep.", dns.TypeA, dns.ClassINET, false, false, "")},
	{Q: q(c04X1, "p.", dns.TypeA, dns.ClassINET, false, false, "0.0.0.0/0")},
	{Advance: 29.03},
	{Advance: 301.3},
}

type c04eCase struct {
	Kind     string `json:"kind"`
	Override bool   `json:"override_min_ttl_20s"`
	// MinTTL, when set, replaces the 20 s minimum TTL of the cache.
	MinTTL float64 `json:"min_ttl_s,omitempty"`
	Events []int   `json:"events"`
}

func c04eUncacheable(src *dns.Msg) bool {
	if src.Truncated {
		return true
	}
	switch src.Rcode {
	case dns.RcodeSuccess, dns.RcodeNameError, dns.RcodeServerFailure:
	default:
		return true
	}
	for _, rrs := range [][]dns.RR{src.Answer, src.Ns, src.Extra} {
		for _, rr := range rrs {
			if rr.Header().Rrtype != dns.TypeOPT && rr.Header().Ttl == 0 {
				return true
			}
		}
	}
	if src.Rcode == dns.RcodeSuccess && len(src.Answer) == 0 {
		for _, rr := range src.Ns {
			if rr.Header().Rrtype == dns.TypeSOA {
				return false
			}
		}

		return true
	}

	return false
}

// c04eSig is the TTL-free signature of the non-DNSSEC records of a message.
func c04eSig(m *dns.Msg) string {
	var parts []string
	for _, rrs := range [][]dns.RR{m.Answer, m.Ns} {
		for _, rr := range rrs {
			switch rr.Header().Rrtype {
			case dns.TypeOPT, dns.TypeRRSIG:
				continue
			}
			parts = append(parts, vdns.RRString(rr, false))
		}
	}

	return fmt.Sprintf("%s|%s|%s", strings.ToLower(m.Question[0].Name), dns.RcodeToString[m.Rcode], strings.Join(parts, ";"))
}

func c04eRun(r *vrt.Run, c c04eCase) (fs []vrt.Finding) {
	if c.MinTTL > 0 {
		defer func(d time.Duration) { ecsMinTTL = d }(ecsMinTTL)
		ecsMinTTL = time.Duration(c.MinTTL * float64(time.Second))
	}
	rig := ecsNewRig(c.Kind, c.Override)
	var obs []string
	zeroAsked := map[string]bool{}
	for step, ei := range c.Events {
		e := c04eAlphabet[ei]
		if e.Q == nil {
			time.Sleep(time.Duration(e.Advance * float64(time.Second)))

			continue
		}
		qq := *e.Q
		id := uint16(1000 + step)
		resp, calls, err := rig.query(qq, id)
		r.Trans(1)
		fresh, _, ferr := ecsNewRig(c.Kind, c.Override).query(qq, id)
		if (err != nil) != (ferr != nil) || (resp == nil) != (fresh == nil) {
			return vrt.F("ecs/error-differs-from-fresh", "kind=%s step %d %+v: warm err=%v resp=%v; fresh err=%v resp=%v", c.Kind, step, qq, err, resp != nil, ferr, fresh != nil)
		}
		if resp == nil {
			continue
		}
		generic := ""
		if zeroAsked[c05Key(qq)] {
			gq := qq
			gq.ECS, gq.Client = "", "172.16.0.9"
			g, _, _ := ecsNewRig(c.Kind, c.Override).query(gq, id)
			generic = vdns.Canon(g, false)
		}
		for _, cl := range calls {
			if strings.HasSuffix(cl.subnet, "/0") {
				zeroAsked[c05Key(qq)] = true
			}
		}
		gs, ws := vdns.Canon(resp, false), vdns.Canon(fresh, false)
		consulted := len(calls) > 0
		obs = append(obs, fmt.Sprintf("%v:%s", consulted, gs))
		if gs != ws && !(generic != "" && gs == generic) {
			what := "records"
			switch {
			case vdns.Flags(resp) != vdns.Flags(fresh):
				what = "flags"
			case vdns.Question(resp) != vdns.Question(fresh):
				what = "question"
			}

			return vrt.F("ecs/cached-differs-from-fresh/"+what, "kind=%s override=%v step %d query %+v (upstream consulted: %v):\n   warm : %s\n   fresh: %s\n   history: %v", c.Kind, c.Override, step, qq, consulted, gs, ws, c.Events)
		}
		if consulted {
			r.Class("miss " + c.Kind)

			continue
		}
		r.Class("hit " + c.Kind)
		// Find the upstream exchange this answer stems from: the latest one
		// with the same records.
		sig := c04eSig(resp)
		var src *ecsCall
		for i := len(rig.up.calls) - 1; i >= 0; i-- {
			cl := &rig.up.calls[i]
			if c04eSig(cl.resp) == sig && cl.req.Question[0].Qtype == qq.QType && cl.req.Question[0].Qclass == qq.QClass {
				src = cl

				break
			}
		}
		if src == nil {
			return vrt.F("ecs/served-without-upstream", "step %d query %+v answered with %s, which no upstream exchange of this history produced", step, qq, gs)
		}
		if c04eUncacheable(src.resp) {
			return vrt.F("ecs/uncacheable-answer-cached", "kind=%s step %d query %+v: answer %s was served from cache", c.Kind, step, qq, gs)
		}
		age := time.Since(src.at).Seconds()
		var maxOrig float64
		for si, sec := range [][2][]dns.RR{{resp.Answer, src.resp.Answer}, {resp.Ns, src.resp.Ns}} {
			var gl, sl []dns.RR
			for _, rr := range sec[0] {
				if t := rr.Header().Rrtype; t != dns.TypeOPT && t != dns.TypeRRSIG {
					gl = append(gl, rr)
				}
			}
			for _, rr := range sec[1] {
				if t := rr.Header().Rrtype; t != dns.TypeOPT && t != dns.TypeRRSIG {
					sl = append(sl, rr)
				}
			}
			for i := range gl {
				orig := float64(sl[i].Header().Ttl)
				if c.Override {
					orig = math.Max(orig, ecsMinTTL.Seconds())
				}
				maxOrig = math.Max(maxOrig, orig)
				bound := math.Max(0, math.Floor(orig-age+0.5+1e-6))
				if float64(gl[i].Header().Ttl) > bound {
					return vrt.F(fmt.Sprintf("ecs/ttl-exceeds-remaining/%s", []string{"answer", "authority"}[si]),
						"record %q served from cache with TTL %d at age %.2fs; original TTL %.0f allows at most %.0f", vdns.RRString(gl[i], false), gl[i].Header().Ttl, age, orig, bound)
				}
			}
		}
		if src.resp.Rcode == dns.RcodeServerFailure {
			// "Short-lived SERVFAIL": whatever its records say and whatever
			// the minimum-TTL override is, a SERVFAIL lives for at most
			// dnsmsg.ServFailMaxCacheTTL seconds.
			maxOrig = dnsmsg.ServFailMaxCacheTTL
		}
		if age > maxOrig+1e-6 {
			return vrt.F("ecs/served-after-expiry", "answer %s served from cache at age %.2fs, after the largest TTL (%.0fs) of the stored answer", gs, age, maxOrig)
		}
	}
	r.State(c.Kind + fmt.Sprint(c.Override) + strings.Join(obs, "\n"))

	return nil
}

func TestVerifC04ECS(t *testing.T) {
	r := vrt.Start("C04")
	ecsInit()
	depth := vrt.Pick(r, 4, 5)
	r.Bound("ecs_depth", depth)
	synctest.Test(t, func(t *testing.T) {
		vrt.Part(r, "ecs", func(emit func(c04eCase)) {
			for _, kind := range c04Kinds {
				n := len(c04eAlphabet)
				if kind != "servfail" {
					n--
				}
				for _, ovr := range []bool{false, true} {
					vrt.Sequences(n, 1, depth, func(seq []int) {
						if c04eAlphabet[seq[len(seq)-1]].Q == nil {
							return
						}
						emit(c04eCase{Kind: kind, Override: ovr, Events: append([]int{}, seq...)})
						if ovr && kind == "servfail" {
							// A minimum TTL above the SERVFAIL lifetime.
							emit(c04eCase{Kind: kind, Override: ovr, MinTTL: 45, Events: append([]int{}, seq...)})
						}
					})
				}
			}
		}, func(c c04eCase) []vrt.Finding { return c04eRun(r, c) })
		// An upstream that echoes a MALFORMED ECS option with an otherwise
		// cacheable, subnet-specific answer ("depbad."): whatever the cache
		// does with such an exchange, a later client of another region must
		// be answered as by a fresh cache.
		bad := []*ecsQuery{
			q(c04X1, "depbad.", dns.TypeA, dns.ClassINET, false, false, ""),
			q(c04Y1, "depbad.", dns.TypeA, dns.ClassINET, false, false, ""),
			q(c04X1, "dep.", dns.TypeA, dns.ClassINET, false, false, ""),
			q(c04Y1, "depbad.", dns.TypeA, dns.ClassINET, false, false, "10.1.3.0/24"),
		}
		vrt.Part(r, "ecs-malformed-echo", func(emit func(c04bCase)) {
			vrt.Sequences(len(bad), 2, vrt.Pick(r, 2, 3), func(seq []int) { emit(c04bCase{Events: append([]int{}, seq...)}) })
		}, func(c c04bCase) []vrt.Finding {
			rig := ecsNewRig("ok", false)
			for i, ei := range c.Events {
				resp, _, err := rig.query(*bad[ei], uint16(0x100+i))
				fresp, _, ferr := ecsNewRig("ok", false).query(*bad[ei], uint16(0x100+i))
				r.Trans(2)
				got, want := fmt.Sprintf("err=%v %s ecs=%s", err != nil, vdns.Canon(resp, false), ecsRespOpt(resp)), fmt.Sprintf("err=%v %s ecs=%s", ferr != nil, vdns.Canon(fresp, false), ecsRespOpt(fresp))
				if got != want {
					return vrt.F("ecs-malformed-echo/cached-differs-from-fresh", "query %+v after %v:\n   warm : %s\n   fresh: %s", *bad[ei], c.Events[:i], got, want)
				}
				r.State(fmt.Sprint(c.Events[:i+1], got))
			}
			r.Class("malformed-echo")

			return nil
		})
		// Question types and classes whose 16-bit codes share an octet (CAA =
		// 0x0101 and URI = 0x0100 against A = 0x0001, class CH = 3 against type
		// NS... = 2/3): a cache key that packs or truncates the two codes makes
		// them collide.  The upstream's records are a function of (qtype,
		// qclass), so an answer cached for another question is visible.
		var wide []*ecsQuery
		for _, tc := range [][2]uint16{{dns.TypeA, dns.ClassINET}, {dns.TypeCAA, dns.ClassINET}, {dns.TypeURI, dns.ClassINET}, {dns.TypeA, dns.ClassCHAOS},
			{dns.TypeMD, dns.ClassINET}, {dns.TypeA, 257}, {dns.TypeSVCB + 256, dns.ClassINET}, {dns.TypeAAAA, dns.ClassINET}, {dns.TypeAAAA + 256, dns.ClassINET}, {dns.TypeA, dns.ClassANY}} {
			wide = append(wide, q(c04X1, "s0.", tc[0], tc[1], false, false, ""), q(c04X1, "dep.", tc[0], tc[1], false, false, ""))
		}
		vrt.Part(r, "ecs-wide-codes", func(emit func(c04bCase)) {
			vrt.Sequences(len(wide), 2, vrt.Pick(r, 2, 3), func(seq []int) { emit(c04bCase{Events: append([]int{}, seq...)}) })
		}, func(c c04bCase) []vrt.Finding {
			rig := ecsNewRig("ok", false)
			for i, ei := range c.Events {
				resp, _, err := rig.query(*wide[ei], uint16(0x300+i))
				fresp, _, ferr := ecsNewRig("ok", false).query(*wide[ei], uint16(0x300+i))
				r.Trans(2)
				got, want := fmt.Sprintf("err=%v %s", err != nil, vdns.Canon(resp, false)), fmt.Sprintf("err=%v %s", ferr != nil, vdns.Canon(fresp, false))
				if got != want {
					return vrt.F("ecs-wide-codes/cached-differs-from-fresh", "query %+v after %v:\n   warm : %s\n   fresh: %s", *wide[ei], c.Events[:i], got, want)
				}
				r.State(fmt.Sprint("wide", c.Events[:i+1], got))
			}
			r.Class("wide-codes")

			return nil
		})
		// A TRANSIENT GeoIP fault: SubnetByLocation fails for exactly one query
		// of the history.  Whatever that query is answered with (not judged),
		// nothing it leaves in the caches may change what later queries of
		// located clients get: they must be answered as by a fresh cache with a
		// healthy database.  Every client of this alphabet has a location with a
		// subnet, so no legitimate zero-prefix upstream query exists here.
		flt := []*ecsQuery{
			q(c04X1, "dep.", dns.TypeA, dns.ClassINET, false, false, ""),
			q(c04Y1, "dep.", dns.TypeA, dns.ClassINET, false, false, ""),
			q(c04X1, "dep.", dns.TypeA, dns.ClassINET, true, false, ""),
			q(c04Y1, "dep.", dns.TypeA, dns.ClassINET, false, false, "10.1.3.0/24"),
			q(c04X1, "dep.", dns.TypeA, dns.ClassINET, false, false, "0.0.0.0/0"),
			q("2001:db8:1::5", "dep.", dns.TypeA, dns.ClassINET, false, false, ""),
		}
		vrt.Part(r, "ecs-geoip-fault", func(emit func(c04fCase)) {
			vrt.Sequences(len(flt), 2, vrt.Pick(r, 3, 4), func(seq []int) {
				for at := 0; at < len(seq)-1; at++ {
					emit(c04fCase{Events: append([]int{}, seq...), FaultAt: at})
				}
			})
		}, func(c c04fCase) []vrt.Finding {
			failing := false
			geo := &agdtest.GeoIP{
				OnData: ecsGeoIP.OnData,
				OnSubnetByLocation: func(l *geoip.Location, fam netutil.AddrFamily) (netip.Prefix, error) {
					if failing {
						return netip.Prefix{}, errors.New("geoip: scripted subnet lookup failure")
					}

					return ecsGeoIP.OnSubnetByLocation(l, fam)
				},
			}
			rig := ecsNewRigGeo("ok", false, geo, agdcache.EmptyManager{})
			for i, ei := range c.Events {
				failing = i == c.FaultAt
				resp, _, err := rig.query(*flt[ei], uint16(0x200+i))
				failing = false
				r.Trans(1)
				if i == c.FaultAt {
					r.State(fmt.Sprint(c.Events[:i+1], "faulted: err=", err != nil, vdns.Canon(resp, false)))

					continue
				}
				fresp, _, ferr := ecsNewRig("ok", false).query(*flt[ei], uint16(0x200+i))
				got, want := fmt.Sprintf("err=%v %s ecs=%s", err != nil, vdns.Canon(resp, false), ecsRespOpt(resp)), fmt.Sprintf("err=%v %s ecs=%s", ferr != nil, vdns.Canon(fresp, false), ecsRespOpt(fresp))
				if got != want {
					return vrt.F("ecs-geoip-fault/cached-differs-from-fresh", "query %+v after %v with the subnet lookup failing at step %d:\n   warm : %s\n   fresh: %s", *flt[ei], c.Events[:i], c.FaultAt, got, want)
				}
				r.State(fmt.Sprint(c.Events[:i+1], c.FaultAt, got))
			}
			r.Class("geoip-fault")

			return nil
		})
	})
	r.Finish()
	os.Exit(0)
}

type c04bCase struct {
	Events []int `json:"events"`
}

type c04fCase struct {
	Events []int `json:"events"`
	// FaultAt is the step at which the GeoIP subnet lookup fails.
	FaultAt int `json:"geoip_subnet_lookup_fails_at_step"`
}
